/-
`estimate_admissible` (DESIGN §5 C02) for the distance traversal model: on a metrically consistent
great-circle table the estimate of a concrete configuration is consistent, hence admissible, so the
A* theorem of `Proofs/ConfigUniform.lean` applies without a premise on the estimate.

Setting: sum aggregation; every vehicle rate in use is linear and non-decreasing (`intercept = 0`,
`slope ≥ 0`: built from `zero / raw / factor f ≥ 0 / combined` of those — **no offset**); weights ≥ 0;
per-edge surcharges ≥ 0; edge lengths ≥ 0; `0 ≤ weight_factor ≤ 1`; table entries ≥ 0, zero at the
destination, and `gc(tail e) ≤ len e + gc(head e)` on every permitted edge (in the search direction).

Then the vehicle cost of `x` metres is `distK · x` with `distK ≥ 0` (unit conversions are linear with
positive ratio, C09), `hOf v = distK · gc v · wf`, `costOf e ≥ distK · len e`, and consistency is the
triangle inequality scaled by `distK`.
-/
import Compass.Proofs.ConfigUniform
import Compass.Props.C09

namespace Compass

set_option linter.unusedSectionVars false

section
variable {α : Type} [Field α] [LinearOrder α] [IsStrictOrderedRing α] [Lit α] [LawfulLit α]

open SearchOpt (Walk cost Admissible)

/-! ### Small facts -/

theorem le_enforceStrictlyPositive (x : α) : x ≤ enforceStrictlyPositive x := by
  rw [enforceStrictlyPositive_eq]
  split
  · exact le_trans ‹x ≤ 0› (le_of_lt minCost_pos)
  · exact le_refl _

theorem sum_slot (l : List Nat) (f : Nat → α) (j : Nat) (X : α) :
    (l.map fun i => f i * (if i = j then X else 0)).sum
      = X * (l.map fun i => if i = j then f i else 0).sum := by
  induction l with
  | nil => simp
  | cons a l ih =>
    simp only [List.map_cons, List.sum_cons, ih]
    split <;> ring

theorem sum_slot_nonneg (l : List Nat) (f : Nat → α) (j : Nat) (hf : ∀ i ∈ l, 0 ≤ f i) :
    0 ≤ (l.map fun i => if i = j then f i else 0).sum := by
  apply List.sum_nonneg
  intro x hx
  obtain ⟨i, hi, rfl⟩ := List.mem_map.1 hx
  split
  · exact hf i hi
  · exact le_refl _

/-- metres → the feature's unit through the model's unit: multiplication by a positive ratio -/
theorem distance_convert2 (du fu : DistanceUnit) (x : α) :
    du.convert fu (DistanceUnit.meters.convert du x)
      = x * (((DistanceUnit.factor .meters du).ratio * (DistanceUnit.factor du fu).ratio : ℚ) : α) := by
  simp only [DistanceUnit.convert, Factor.apply_eq]
  push_cast
  ring

theorem distance_ratio2_pos (du fu : DistanceUnit) :
    (0 : α) < (((DistanceUnit.factor .meters du).ratio * (DistanceUnit.factor du fu).ratio : ℚ) : α) := by
  have h1 := Factor.ratio_pos _ (C09.distance_wf .meters du)
  have h2 := Factor.ratio_pos _ (C09.distance_wf du fu)
  exact_mod_cast mul_pos h1 h2

/-! ### The vehicle cost of a length -/

/-- the vehicle part of the cost model as a function of the slot changes -/
def CostModel.vehicleOfDelta (m : CostModel α) (δ : Nat → α) : α :=
  m.agg.agg (m.indices.map fun i => (m.vr i).mapValue (δ i) * m.wt i)

/-- every rate in use is linear (no offset) -/
def CostModel.LinearRates (m : CostModel α) : Prop :=
  ∀ i ∈ m.indices, (m.vr i).intercept = 0

/-- … non-decreasing, with non-negative weight -/
def CostModel.NonnegRates (m : CostModel α) : Prop :=
  ∀ i ∈ m.indices, 0 ≤ (m.vr i).slope ∧ 0 ≤ m.wt i

theorem CostModel.vehicleOfDelta_sum (m : CostModel α) (hs : m.agg = .sum) (hl : m.LinearRates)
    (δ : Nat → α) :
    m.vehicleOfDelta δ = (m.indices.map fun i => ((m.vr i).slope * m.wt i) * δ i).sum := by
  unfold CostModel.vehicleOfDelta
  rw [hs, agg_sum]
  congr 1
  apply List.map_congr_left
  intro i hi
  rw [VehicleCostRate.mapValue_affine, hl i hi]
  ring

/-- the coefficient of a length in metres: (unit ratio) · Σ over the indices that are the distance
slot of slope · weight -/
def Config.distK (c : Config α) (du : DistanceUnit) : α :=
  match distSlot c.feats "distance" with
  | none => 0
  | some (j, fu) =>
    (((DistanceUnit.factor .meters du).ratio * (DistanceUnit.factor du fu).ratio : ℚ) : α)
      * (c.cost.indices.map fun i => if i = j then (c.cost.vr i).slope * c.cost.wt i else 0).sum

/-- the state change the distance model causes for `x` metres -/
def Config.lenDelta (c : Config α) (du : DistanceUnit) (x : α) (i : Nat) : α :=
  slotDelta (distSlot c.feats "distance")
    (fun fu => du.convert fu (DistanceUnit.meters.convert du x)) i

theorem Config.vehicle_lenDelta (c : Config α) (hs : c.cost.agg = .sum) (hl : c.cost.LinearRates)
    (du : DistanceUnit) (x : α) : c.cost.vehicleOfDelta (c.lenDelta du x) = c.distK du * x := by
  rw [c.cost.vehicleOfDelta_sum hs hl]
  unfold Config.lenDelta Config.distK
  cases hslot : distSlot c.feats "distance" with
  | none => simp [slotDelta]
  | some p =>
    obtain ⟨j, fu⟩ := p
    simp only [slotDelta, distance_convert2]
    rw [sum_slot]
    ring

theorem Config.distK_nonneg (c : Config α) (hn : c.cost.NonnegRates) (du : DistanceUnit) :
    0 ≤ c.distK du := by
  unfold Config.distK
  cases distSlot c.feats "distance" with
  | none => exact le_refl _
  | some p =>
    obtain ⟨j, fu⟩ := p
    exact mul_nonneg (le_of_lt (distance_ratio2_pos du fu))
      (sum_slot_nonneg _ _ j (fun i hi => mul_nonneg (hn i hi).1 (hn i hi).2))

/-! ### The property's own list of rates: `zero / raw / factor f ≥ 0 / combined` of those -/

mutual
/-- built without `offset`, every factor non-negative -/
def VehicleCostRate.offsetFree : VehicleCostRate α → Bool
  | .zero => true
  | .raw => true
  | .factor f => decide (0 ≤ f)
  | .offset _ => false
  | .combined rs => VehicleCostRate.offsetFreeList rs
def VehicleCostRate.offsetFreeList : List (VehicleCostRate α) → Bool
  | [] => true
  | r :: rs => r.offsetFree && VehicleCostRate.offsetFreeList rs
end

mutual
theorem VehicleCostRate.offsetFree_linear :
    ∀ (r : VehicleCostRate α), r.offsetFree = true → r.intercept = 0 ∧ 0 ≤ r.slope
  | .zero, _ => by simp [VehicleCostRate.intercept, VehicleCostRate.slope]
  | .raw, _ => by simp [VehicleCostRate.intercept, VehicleCostRate.slope]
  | .factor f, h => by
    simp only [VehicleCostRate.offsetFree, decide_eq_true_eq] at h
    simp [VehicleCostRate.intercept, VehicleCostRate.slope, h]
  | .offset o, h => by simp [VehicleCostRate.offsetFree] at h
  | .combined rs, h => by
    simp only [VehicleCostRate.offsetFree] at h
    simp only [VehicleCostRate.intercept, VehicleCostRate.slope]
    exact VehicleCostRate.offsetFreeList_linear rs h
theorem VehicleCostRate.offsetFreeList_linear :
    ∀ (rs : List (VehicleCostRate α)), VehicleCostRate.offsetFreeList rs = true →
      VehicleCostRate.interceptList rs = 0 ∧ 0 ≤ VehicleCostRate.slopeList rs
  | [], _ => by simp [VehicleCostRate.interceptList, VehicleCostRate.slopeList]
  | r :: rs, h => by
    simp only [VehicleCostRate.offsetFreeList, Bool.and_eq_true] at h
    obtain ⟨h1, h2⟩ := VehicleCostRate.offsetFree_linear r h.1
    obtain ⟨h3, h4⟩ := VehicleCostRate.offsetFreeList_linear rs h.2
    simp only [VehicleCostRate.interceptList, VehicleCostRate.slopeList, h1, h3]
    exact ⟨by ring, mul_nonneg h2 h4⟩
end

/-- a cost model whose rates in use are all from the list, with non-negative weights, has linear
non-decreasing rates -/
theorem CostModel.rates_of_offsetFree (m : CostModel α)
    (h : ∀ i ∈ m.indices, (m.vr i).offsetFree = true ∧ 0 ≤ m.wt i) :
    m.LinearRates ∧ m.NonnegRates :=
  ⟨fun i hi => ((m.vr i).offsetFree_linear (h i hi).1).1,
   fun i hi => ⟨((m.vr i).offsetFree_linear (h i hi).1).2, (h i hi).2⟩⟩

/-! ### Cost and estimate of the distance model in closed form -/

/-- great-circle metres of vertex `v` (0 beyond the table: there `estimate` fails anyway) -/
def Config.gcOf (c : Config α) (v : Nat) : α :=
  match c.gc[v]? with
  | some x => x
  | none => 0

theorem Config.edgeDelta_eq_lenDelta (c : Config α) {du : DistanceUnit} (ht : c.trav = .distance du)
    {e : Nat} {er : EdgeRec α} (he : c.edges[e]? = some er) :
    c.edgeDelta e = c.lenDelta du er.dist := by
  funext i
  rw [c.edgeDelta_distance ht he i]
  rfl

theorem Config.estDelta_eq_lenDelta (c : Config α) {du : DistanceUnit} (ht : c.trav = .distance du)
    (v : Nat) : c.estDelta v = c.lenDelta du (c.gcOf v) := by
  funext i
  unfold Config.estDelta Config.gcOf Config.lenDelta
  cases c.gc[v]? with
  | some x => simp [ht]
  | none =>
    simp only [distance_convert2, zero_mul]
    cases distSlot c.feats "distance" with
    | none => rfl
    | some p => simp [slotDelta]

theorem Config.costOf_distance_ge (c : Config α) (hs : c.cost.agg = .sum) (hl : c.cost.LinearRates)
    (hn : c.cost.NonnegRates) (hnet : ∀ i ∈ c.cost.indices, ∀ e, 0 ≤ (c.cost.nr i).traversalCost e)
    {du : DistanceUnit} (ht : c.trav = .distance du) {e : Nat} {er : EdgeRec α}
    (he : c.edges[e]? = some er) : c.distK du * er.dist ≤ c.costOf e := by
  unfold Config.costOf CostModel.costOfDelta
  refine le_trans ?_ (le_enforceStrictlyPositive _)
  have hv : c.cost.agg.agg (c.cost.indices.map fun i =>
      (c.cost.vr i).mapValue (c.edgeDelta e i) * c.cost.wt i) = c.distK du * er.dist := by
    rw [c.edgeDelta_eq_lenDelta ht he]
    exact c.vehicle_lenDelta hs hl du er.dist
  rw [hv, hs, agg_sum]
  have : 0 ≤ (c.cost.traversalTerms e).sum := by
    apply List.sum_nonneg
    intro x hx
    obtain ⟨i, hi, rfl⟩ := List.mem_map.1 hx
    exact mul_nonneg (hnet i hi e) (hn i hi).2
  linarith

theorem Config.hOf_distance (c : Config α) (hs : c.cost.agg = .sum) (hl : c.cost.LinearRates)
    {du : DistanceUnit} (ht : c.trav = .distance du) (v : Nat) :
    c.hOf v = max (c.distK du * c.gcOf v) 0 * c.wfOf := by
  unfold Config.hOf
  rw [enforceNonNegative_eq, c.estDelta_eq_lenDelta ht v]
  have := c.vehicle_lenDelta hs hl du (c.gcOf v)
  unfold CostModel.vehicleOfDelta at this
  rw [this]

/-! ### Consistency and admissibility -/

/-- the premises of `estimate_admissible` for the distance model -/
structure Config.DistanceMetric (c : Config α) (du : DistanceUnit) (t : Nat) : Prop where
  trav : c.trav = .distance du
  agg : c.cost.agg = .sum
  linear : c.cost.LinearRates
  nonneg : c.cost.NonnegRates
  surcharge : ∀ i ∈ c.cost.indices, ∀ e : Nat, 0 ≤ (c.cost.nr i).traversalCost e
  wf_nonneg : 0 ≤ c.wfOf
  wf_le_one : c.wfOf ≤ 1
  len_nonneg : ∀ (e : Nat) (er : EdgeRec α), c.edges[e]? = some er → 0 ≤ er.dist
  gc_nonneg : ∀ v : Nat, 0 ≤ c.gcOf v
  gc_target : c.gcOf t = 0
  /-- the table is consistent with the lengths of the permitted edges, in the search direction -/
  triangle : ∀ (e : Nat) (er : EdgeRec α), c.edges[e]? = some er → c.okOf e = true →
    c.gcOf (c.inst.termV e) ≤ er.dist + c.gcOf (c.inst.keyV e)

/-- the estimate is consistent on every permitted listed edge -/
theorem Config.distance_estimate_consistent (c : Config α) (hadj : c.AdjConsistent)
    {du : DistanceUnit} {t : Nat} (M : c.DistanceMetric du t) :
    ∀ v, ∀ e ∈ c.inst.incident v, c.okOf e = true →
      c.hOf v ≤ c.costOf e + c.hOf (c.inst.keyV e) := by
  intro v e he hok
  have hterm : c.inst.termV e = v := hadj v e he
  have hK := c.distK_nonneg M.nonneg du
  cases hed : c.edges[e]? with
  | none =>
    -- an id beyond the edge list: `keyV e = termV e = 0`
    have hk : c.inst.keyV e = 0 := by simp [Config.inst, hed]
    have ht0 : c.inst.termV e = 0 := by simp [Config.inst, hed]
    rw [hk, ← hterm, ht0]
    have := c.costOf_pos e
    linarith
  | some er =>
    have hc := c.costOf_distance_ge M.agg M.linear M.nonneg M.surcharge M.trav hed
    have htri := M.triangle e er hed hok
    rw [hterm] at htri
    rw [c.hOf_distance M.agg M.linear M.trav, c.hOf_distance M.agg M.linear M.trav]
    have hgu := M.gc_nonneg v
    have hgv := M.gc_nonneg (c.inst.keyV e)
    rw [max_eq_left (mul_nonneg hK hgu), max_eq_left (mul_nonneg hK hgv)]
    have hlen := M.len_nonneg e er hed
    have h1 : c.distK du * c.gcOf v ≤ c.distK du * (er.dist + c.gcOf (c.inst.keyV e)) :=
      mul_le_mul_of_nonneg_left htri hK
    have h2 : c.distK du * c.gcOf v * c.wfOf
        ≤ c.distK du * (er.dist + c.gcOf (c.inst.keyV e)) * c.wfOf :=
      mul_le_mul_of_nonneg_right h1 M.wf_nonneg
    have h3 : c.distK du * er.dist * c.wfOf ≤ c.distK du * er.dist :=
      mul_le_of_le_one_right (mul_nonneg hK hlen) M.wf_le_one
    nlinarith [h2, h3, hc]

/-- **`estimate_admissible`** (distance model): on a metrically consistent table with weight factor
in `[0, 1]` the configuration's own estimate is admissible for the destination -/
theorem Config.distance_estimate_admissible (c : Config α) (hadj : c.AdjConsistent)
    {du : DistanceUnit} {t : Nat} (M : c.DistanceMetric du t) :
    Admissible c.inst c.okOf c.costOf c.hOf t := by
  apply SearchOpt.admissible_of_consistent (c.distance_estimate_consistent hadj M)
  rw [c.hOf_distance M.agg M.linear M.trav, M.gc_target]
  simp

/-- **C02, A\* on a concrete configuration with its own estimate** (distance model): no premise on
the heuristic is left -/
theorem config_astar_distance_route_least_cost (c : Config α) (h : c.EdgeLocal)
    {du : DistanceUnit} {source t : Nat} (M : c.DistanceMetric du t) (hts : t ≠ source)
    {sched : List Nat} {r : AlgResult α} (hrun : c.runVertex source (some t) sched = .ok r) :
    ∃ route, r.routes = [route] ∧ route ≠ [] ∧
      Walk c.inst c.okOf source (route.map (·.edge)) t ∧
      (route.map (fun b => b.access + b.traversal)).sum = cost c.costOf (route.map (·.edge)) ∧
      ∀ es, Walk c.inst c.okOf source es t →
        (route.map (fun b => b.access + b.traversal)).sum ≤ cost c.costOf es :=
  config_astar_route_least_cost c h M.wf_nonneg hts (c.distance_estimate_admissible h.adj M) hrun

/-! ### The speed-table model

The time slot changes by `x / s` (metres over table speed) times a positive unit ratio, so the
vehicle cost of `x` metres at speed `s` is `distK · x + timeK · x / s`; the estimate uses
`max_speed ≥ s`. -/

/-- metres / speed → the time feature's unit, through the model's units (the distance goes
metres → `du` → base, as the code does) -/
def timeTheta (su : SpeedUnit) (du : DistanceUnit) (tu fu : TimeUnit) : ℚ :=
  (DistanceUnit.factor .meters du).ratio * (DistanceUnit.factor du baseDistanceUnit).ratio
    * (TimeUnit.factor baseTimeUnit tu).ratio * (TimeUnit.factor tu fu).ratio
    / (SpeedUnit.factor su baseSpeedUnit).ratio

theorem timeTheta_pos (su : SpeedUnit) (du : DistanceUnit) (tu fu : TimeUnit) :
    0 < timeTheta su du tu fu := by
  have h1 := Factor.ratio_pos _ (C09.distance_wf .meters du)
  have h2 := Factor.ratio_pos _ (C09.distance_wf du baseDistanceUnit)
  have h3 := Factor.ratio_pos _ (C09.time_wf baseTimeUnit tu)
  have h4 := Factor.ratio_pos _ (C09.time_wf tu fu)
  have h5 := Factor.ratio_pos _ (C09.speed_wf su baseSpeedUnit)
  unfold timeTheta
  positivity

theorem speed_ratio_pos (su : SpeedUnit) : (0 : α) < (((SpeedUnit.factor su baseSpeedUnit).ratio : ℚ) : α) := by
  exact_mod_cast Factor.ratio_pos _ (C09.speed_wf su baseSpeedUnit)

theorem time_convert (su : SpeedUnit) (du : DistanceUnit) (tu fu : TimeUnit) (x sp : α)
    (hsp : sp ≠ 0) :
    tu.convert fu (baseTimeUnit.convert tu
        (du.convert baseDistanceUnit (DistanceUnit.meters.convert du x) / su.convert baseSpeedUnit sp))
      = x / sp * ((timeTheta su du tu fu : ℚ) : α) := by
  have hr := ne_of_gt (speed_ratio_pos (α := α) su)
  simp only [DistanceUnit.convert, TimeUnit.convert, SpeedUnit.convert, Factor.apply_eq, timeTheta]
  push_cast
  field_simp

theorem createTime_of_pos (sp : α) (su : SpeedUnit) (d : α) (du : DistanceUnit) (tu : TimeUnit)
    (hs : 0 < sp) (hd : 0 < d) :
    createTime sp su d du tu
      = some (baseTimeUnit.convert tu (du.convert baseDistanceUnit d / su.convert baseSpeedUnit sp)) := by
  unfold createTime
  have h1 : 0 < su.convert baseSpeedUnit sp := by
    rw [SpeedUnit.convert, Factor.apply_eq]
    exact mul_pos hs (speed_ratio_pos su)
  have h2 : 0 < du.convert baseDistanceUnit d := by
    rw [DistanceUnit.convert, Factor.apply_eq]
    exact mul_pos hd (by exact_mod_cast Factor.ratio_pos _ (C09.distance_wf du baseDistanceUnit))
  simp [zero_eq, h1, h2]

theorem meters_convert_pos (du : DistanceUnit) {x : α} (hx : 0 < x) :
    0 < DistanceUnit.meters.convert du x := by
  rw [DistanceUnit.convert, Factor.apply_eq]
  exact mul_pos hx (by exact_mod_cast Factor.ratio_pos _ (C09.distance_wf .meters du))

/-- the coefficient of `metres / speed` -/
def Config.timeK (c : Config α) (su : SpeedUnit) (du : DistanceUnit) (tu : TimeUnit) : α :=
  match timeSlot c.feats "time" with
  | none => 0
  | some (j, fu) =>
    ((timeTheta su du tu fu : ℚ) : α)
      * (c.cost.indices.map fun i => if i = j then (c.cost.vr i).slope * c.cost.wt i else 0).sum

theorem Config.timeK_nonneg (c : Config α) (hn : c.cost.NonnegRates) (su : SpeedUnit)
    (du : DistanceUnit) (tu : TimeUnit) : 0 ≤ c.timeK su du tu := by
  unfold Config.timeK
  cases timeSlot c.feats "time" with
  | none => exact le_refl _
  | some p =>
    obtain ⟨j, fu⟩ := p
    refine mul_nonneg (le_of_lt ?_)
      (sum_slot_nonneg _ _ j (fun i hi => mul_nonneg (hn i hi).1 (hn i hi).2))
    exact_mod_cast timeTheta_pos su du tu fu

/-- the state change the speed model causes for `x` metres at speed `s` -/
def Config.speedDelta (c : Config α) (su : SpeedUnit) (du : DistanceUnit) (tu : TimeUnit)
    (x s : α) (i : Nat) : α :=
  slotDelta (timeSlot c.feats "time") (fun fu => x / s * ((timeTheta su du tu fu : ℚ) : α)) i
    + c.lenDelta du x i

theorem Config.vehicle_speedDelta (c : Config α) (hs : c.cost.agg = .sum) (hl : c.cost.LinearRates)
    (su : SpeedUnit) (du : DistanceUnit) (tu : TimeUnit) (x s : α) :
    c.cost.vehicleOfDelta (c.speedDelta su du tu x s)
      = c.timeK su du tu * (x / s) + c.distK du * x := by
  rw [← c.vehicle_lenDelta hs hl du x, c.cost.vehicleOfDelta_sum hs hl,
    c.cost.vehicleOfDelta_sum hs hl]
  unfold Config.speedDelta
  simp only [mul_add, List.sum_map_add]
  congr 1
  unfold Config.timeK
  cases timeSlot c.feats "time" with
  | none => simp [slotDelta]
  | some p =>
    obtain ⟨j, fu⟩ := p
    simp only [slotDelta]
    rw [sum_slot]
    ring

theorem Config.edgeDelta_eq_speedDelta (c : Config α) {su : SpeedUnit} {du : DistanceUnit}
    {tu : TimeUnit} {ms : α} {table : List α} (ht : c.trav = .speed su du tu ms table)
    {e : Nat} {er : EdgeRec α} (he : c.edges[e]? = some er) {sp : α} (hsp : table[e]? = some sp)
    (hpos : 0 < sp) (hlen : 0 < er.dist) :
    c.edgeDelta e = c.speedDelta su du tu er.dist sp := by
  funext i
  have hd : 0 < baseDistanceUnit.convert du er.dist := meters_convert_pos du hlen
  rw [c.edgeDelta_speed ht he hsp (createTime_of_pos sp su _ du tu hpos hd) i]
  unfold Config.speedDelta Config.lenDelta
  congr 1
  congr 1
  funext fu
  exact time_convert su du tu fu er.dist sp (ne_of_gt hpos)

theorem Config.estDelta_eq_speedDelta (c : Config α) {su : SpeedUnit} {du : DistanceUnit}
    {tu : TimeUnit} {ms : α} {table : List α} (ht : c.trav = .speed su du tu ms table)
    (hms : 0 < ms) (v : Nat) (hgc : 0 ≤ c.gcOf v) :
    c.estDelta v = c.speedDelta su du tu (c.gcOf v) ms := by
  funext i
  have hzero : c.speedDelta su du tu 0 ms i = 0 := by
    unfold Config.speedDelta Config.lenDelta
    simp only [distance_convert2, zero_mul, zero_div]
    cases timeSlot c.feats "time" <;> cases distSlot c.feats "distance" <;> simp [slotDelta]
  unfold Config.estDelta Config.gcOf at *
  cases hg : c.gc[v]? with
  | none => exact hzero.symm
  | some x =>
    simp only [hg] at hgc ⊢
    simp only [ht]
    rcases eq_or_lt_of_le hgc with h0 | hpos
    · subst h0
      have : (DistanceUnit.meters.convert du (0 : α) == (zero : α)) = true := by
        simp [DistanceUnit.convert, Factor.apply_eq, zero_eq]
      simp only [this, if_true]
      exact hzero.symm
    · have hd := meters_convert_pos du hpos
      have : (DistanceUnit.meters.convert du x == (zero : α)) = false := by
        simpa [zero_eq] using ne_of_gt hd
      simp only [this, Bool.false_eq_true, if_false, createTime_of_pos ms su _ du tu hms hd]
      unfold Config.speedDelta Config.lenDelta
      congr 1
      congr 1
      funext fu
      exact time_convert su du tu fu x ms (ne_of_gt hms)

/-! ### Consistency from a scaled metric (both models) -/

/-- if the estimate is `κ · gc · wf` and every edge costs at least `κ · len` (κ ≥ 0, `0 ≤ wf ≤ 1`),
the triangle inequality of the table gives consistency -/
theorem Config.estimate_consistent_of_scale (c : Config α) (hadj : c.AdjConsistent) (κ : α)
    (hκ : 0 ≤ κ) (hwf0 : 0 ≤ c.wfOf) (hwf1 : c.wfOf ≤ 1)
    (hh : ∀ v, c.hOf v = κ * c.gcOf v * c.wfOf)
    (hc : ∀ (e : Nat) (er : EdgeRec α), c.edges[e]? = some er → κ * er.dist ≤ c.costOf e)
    (hlen : ∀ (e : Nat) (er : EdgeRec α), c.edges[e]? = some er → 0 ≤ er.dist)
    (htri : ∀ (e : Nat) (er : EdgeRec α), c.edges[e]? = some er → c.okOf e = true →
      c.gcOf (c.inst.termV e) ≤ er.dist + c.gcOf (c.inst.keyV e)) :
    ∀ v, ∀ e ∈ c.inst.incident v, c.okOf e = true →
      c.hOf v ≤ c.costOf e + c.hOf (c.inst.keyV e) := by
  intro v e he hok
  have hterm : c.inst.termV e = v := hadj v e he
  cases hed : c.edges[e]? with
  | none =>
    have hk : c.inst.keyV e = 0 := by simp [Config.inst, hed]
    have ht0 : c.inst.termV e = 0 := by simp [Config.inst, hed]
    rw [hk, ← hterm, ht0]
    have := c.costOf_pos e
    linarith
  | some er =>
    have hce := hc e er hed
    have ht := htri e er hed hok
    rw [hterm] at ht
    rw [hh v, hh (c.inst.keyV e)]
    have hl := hlen e er hed
    have h1 : κ * c.gcOf v ≤ κ * (er.dist + c.gcOf (c.inst.keyV e)) :=
      mul_le_mul_of_nonneg_left ht hκ
    have h2 : κ * c.gcOf v * c.wfOf ≤ κ * (er.dist + c.gcOf (c.inst.keyV e)) * c.wfOf :=
      mul_le_mul_of_nonneg_right h1 hwf0
    have h3 : κ * er.dist * c.wfOf ≤ κ * er.dist :=
      mul_le_of_le_one_right (mul_nonneg hκ hl) hwf1
    nlinarith [h2, h3, hce]

/-- the premises of `estimate_admissible` for the speed-table model -/
structure Config.SpeedMetric (c : Config α) (su : SpeedUnit) (du : DistanceUnit) (tu : TimeUnit)
    (ms : α) (table : List α) (t : Nat) : Prop where
  trav : c.trav = .speed su du tu ms table
  agg : c.cost.agg = .sum
  linear : c.cost.LinearRates
  nonneg : c.cost.NonnegRates
  surcharge : ∀ i ∈ c.cost.indices, ∀ e : Nat, 0 ≤ (c.cost.nr i).traversalCost e
  wf_nonneg : 0 ≤ c.wfOf
  wf_le_one : c.wfOf ≤ 1
  /-- every edge has a positive length and a positive table speed not above `max_speed` -/
  edge : ∀ (e : Nat) (er : EdgeRec α), c.edges[e]? = some er →
    0 < er.dist ∧ ∃ sp, table[e]? = some sp ∧ 0 < sp ∧ sp ≤ ms
  ms_pos : 0 < ms
  gc_nonneg : ∀ v : Nat, 0 ≤ c.gcOf v
  gc_target : c.gcOf t = 0
  triangle : ∀ (e : Nat) (er : EdgeRec α), c.edges[e]? = some er → c.okOf e = true →
    c.gcOf (c.inst.termV e) ≤ er.dist + c.gcOf (c.inst.keyV e)

theorem Config.hOf_speed (c : Config α) {su : SpeedUnit} {du : DistanceUnit} {tu : TimeUnit}
    {ms : α} {table : List α} {t : Nat} (M : c.SpeedMetric su du tu ms table t) (v : Nat) :
    c.hOf v = (c.distK du + c.timeK su du tu / ms) * c.gcOf v * c.wfOf := by
  unfold Config.hOf
  rw [enforceNonNegative_eq, c.estDelta_eq_speedDelta M.trav M.ms_pos v (M.gc_nonneg v)]
  have := c.vehicle_speedDelta M.agg M.linear su du tu (c.gcOf v) ms
  unfold CostModel.vehicleOfDelta at this
  rw [this]
  have hK1 := c.distK_nonneg M.nonneg du
  have hK2 := c.timeK_nonneg M.nonneg su du tu
  have hg := M.gc_nonneg v
  have hnn : 0 ≤ c.timeK su du tu * (c.gcOf v / ms) + c.distK du * c.gcOf v :=
    add_nonneg (mul_nonneg hK2 (div_nonneg hg (le_of_lt M.ms_pos))) (mul_nonneg hK1 hg)
  rw [max_eq_left hnn]
  ring

theorem Config.costOf_speed_ge (c : Config α) {su : SpeedUnit} {du : DistanceUnit} {tu : TimeUnit}
    {ms : α} {table : List α} {t : Nat} (M : c.SpeedMetric su du tu ms table t)
    {e : Nat} {er : EdgeRec α} (he : c.edges[e]? = some er) :
    (c.distK du + c.timeK su du tu / ms) * er.dist ≤ c.costOf e := by
  obtain ⟨hlen, sp, hsp, hpos, hle⟩ := M.edge e er he
  unfold Config.costOf CostModel.costOfDelta
  refine le_trans ?_ (le_enforceStrictlyPositive _)
  have hv : c.cost.agg.agg (c.cost.indices.map fun i =>
      (c.cost.vr i).mapValue (c.edgeDelta e i) * c.cost.wt i)
        = c.timeK su du tu * (er.dist / sp) + c.distK du * er.dist := by
    rw [c.edgeDelta_eq_speedDelta M.trav he hsp hpos hlen]
    exact c.vehicle_speedDelta M.agg M.linear su du tu er.dist sp
  rw [hv, M.agg, agg_sum]
  have hnet : 0 ≤ (c.cost.traversalTerms e).sum := by
    apply List.sum_nonneg
    intro x hx
    obtain ⟨i, hi, rfl⟩ := List.mem_map.1 hx
    exact mul_nonneg (M.surcharge i hi e) (M.nonneg i hi).2
  have hK2 := c.timeK_nonneg M.nonneg su du tu
  have hdiv : er.dist / ms ≤ er.dist / sp :=
    div_le_div_of_nonneg_left (le_of_lt hlen) hpos hle
  have := mul_le_mul_of_nonneg_left hdiv hK2
  have e1 : (c.distK du + c.timeK su du tu / ms) * er.dist
      = c.timeK su du tu * (er.dist / ms) + c.distK du * er.dist := by ring
  rw [e1]
  linarith

/-- **`estimate_admissible`** (speed-table model): positive lengths and table speeds,
`max_speed ≥` every table speed, a metrically consistent table, weight factor in `[0, 1]` -/
theorem Config.speed_estimate_admissible (c : Config α) (hadj : c.AdjConsistent)
    {su : SpeedUnit} {du : DistanceUnit} {tu : TimeUnit} {ms : α} {table : List α} {t : Nat}
    (M : c.SpeedMetric su du tu ms table t) : Admissible c.inst c.okOf c.costOf c.hOf t := by
  have hκ : 0 ≤ c.distK du + c.timeK su du tu / ms :=
    add_nonneg (c.distK_nonneg M.nonneg du)
      (div_nonneg (c.timeK_nonneg M.nonneg su du tu) (le_of_lt M.ms_pos))
  apply SearchOpt.admissible_of_consistent
  · exact c.estimate_consistent_of_scale hadj _ hκ M.wf_nonneg M.wf_le_one (c.hOf_speed M)
      (fun e er he => c.costOf_speed_ge M he) (fun e er he => le_of_lt (M.edge e er he).1)
      M.triangle
  · rw [c.hOf_speed M, M.gc_target]
    simp

/-- **C02, A\* on a concrete configuration with its own estimate** (speed-table model) -/
theorem config_astar_speed_route_least_cost (c : Config α) (h : c.EdgeLocal)
    {su : SpeedUnit} {du : DistanceUnit} {tu : TimeUnit} {ms : α} {table : List α}
    {source t : Nat} (M : c.SpeedMetric su du tu ms table t) (hts : t ≠ source)
    {sched : List Nat} {r : AlgResult α} (hrun : c.runVertex source (some t) sched = .ok r) :
    ∃ route, r.routes = [route] ∧ route ≠ [] ∧
      Walk c.inst c.okOf source (route.map (·.edge)) t ∧
      (route.map (fun b => b.access + b.traversal)).sum = cost c.costOf (route.map (·.edge)) ∧
      ∀ es, Walk c.inst c.okOf source es t →
        (route.map (fun b => b.access + b.traversal)).sum ≤ cost c.costOf es :=
  config_astar_route_least_cost c h M.wf_nonneg hts (c.speed_estimate_admissible h.adj M) hrun

end

/-! ### Non-vacuity: `ConfigUniform.Example.exA` meets `DistanceMetric` -/

namespace ConfigUniform.Example

/-- the triangle premise at edge `e`, as a Boolean -/
def triOK (c : Config ℚ) (e : Nat) : Bool :=
  match c.edges[e]? with
  | some er => !(c.okOf e) || decide (c.gcOf (c.inst.termV e) ≤ er.dist + c.gcOf (c.inst.keyV e))
  | none => true

theorem exA_metric : exA.DistanceMetric .meters 3 where
  trav := rfl
  agg := rfl
  linear := by
    intro i hi
    simp only [exA, List.mem_singleton] at hi
    subst hi
    rfl
  nonneg := by
    intro i hi
    simp only [exA, List.mem_singleton] at hi
    subst hi
    exact ⟨by decide +kernel, by decide +kernel⟩
  surcharge := by
    intro i hi e
    simp only [exA, List.mem_singleton] at hi
    subst hi
    have : (exA.cost.nr 0).traversalCost e = 0 := by
      simp [CostModel.nr, exA, NetworkCostRate.traversalCost, zero_eq]
    rw [this]
  wf_nonneg := by decide +kernel
  wf_le_one := by decide +kernel
  len_nonneg := by
    intro e er h
    have hm := List.mem_of_getElem? h
    simp only [exA, exC, List.mem_cons, List.not_mem_nil, or_false] at hm
    rcases hm with rfl | rfl | rfl | rfl | rfl | rfl | rfl | rfl <;> norm_num
  gc_nonneg := by
    intro v
    unfold Config.gcOf
    cases h : exA.gc[v]? with
    | none => exact le_refl _
    | some x =>
      have hm := List.mem_of_getElem? h
      simp only [exA, List.mem_cons, List.not_mem_nil, or_false] at hm
      rcases hm with rfl | rfl | rfl | rfl | rfl <;> norm_num
  gc_target := by decide +kernel
  triangle := by
    have key : ∀ e ∈ List.range 8, triOK exA e = true := by decide +kernel
    intro e er h hok
    have he : e < 8 := by
      have := (List.getElem?_eq_some_iff.1 h).1
      simpa [exA, exC] using this
    have := key e (List.mem_range.2 he)
    simpa [triOK, h, hok] using this

/-- `exS` with weight factor one and the great-circle table of `exA`: A* by travel time -/
def exSA : Config ℚ := { exS with gc := [3000, 2400, 500, 0, 0], wf := none }

theorem exSA_edgeLocal : exSA.EdgeLocal := ⟨adj_of exSA rfl rfl rfl, rfl, rfl⟩

theorem exSA_run :
    SearchRoute.Example.routeEdgesOf (exSA.runVertex 0 (some 3) [0, 1, 2, 3]) = some [[0, 1, 2]] := by
  decide +kernel

/-- the per-edge premise of `SpeedMetric`, as a Boolean -/
def speedOK (c : Config ℚ) (table : List ℚ) (ms : ℚ) (e : Nat) : Bool :=
  match c.edges[e]?, table[e]? with
  | some er, some sp => decide (0 < er.dist) && decide (0 < sp) && decide (sp ≤ ms)
  | some _, none => false
  | none, _ => true

theorem exSA_metric :
    exSA.SpeedMetric .kilometersPerHour .meters .seconds 72 [36, 36, 36, 36, 36, 36, 36, 18] 3 where
  trav := rfl
  agg := rfl
  linear := by
    intro i hi
    simp only [exSA, exS, List.mem_cons, List.not_mem_nil, or_false] at hi
    rcases hi with rfl | rfl <;> rfl
  nonneg := by
    intro i hi
    simp only [exSA, exS, List.mem_cons, List.not_mem_nil, or_false] at hi
    rcases hi with rfl | rfl <;> exact ⟨by decide +kernel, by decide +kernel⟩
  surcharge := by
    intro i hi e
    simp only [exSA, exS, List.mem_cons, List.not_mem_nil, or_false] at hi
    rcases hi with rfl | rfl
    · have : (exSA.cost.nr 0).traversalCost e = 0 := by
        simp [CostModel.nr, exSA, exS, NetworkCostRate.traversalCost, zero_eq]
      rw [this]
    · have : (exSA.cost.nr 1).traversalCost e = 0 := by
        simp [CostModel.nr, exSA, exS, NetworkCostRate.traversalCost, zero_eq]
      rw [this]
  wf_nonneg := by decide +kernel
  wf_le_one := by decide +kernel
  edge := by
    have key : ∀ e ∈ List.range 8, speedOK exSA [36, 36, 36, 36, 36, 36, 36, 18] 72 e = true := by
      decide +kernel
    intro e er h
    have he : e < 8 := by
      have := (List.getElem?_eq_some_iff.1 h).1
      simpa [exSA, exS, exC] using this
    have hk := key e (List.mem_range.2 he)
    unfold speedOK at hk
    rw [h] at hk
    cases hsp : ([36, 36, 36, 36, 36, 36, 36, 18] : List ℚ)[e]? with
    | none => simp [hsp] at hk
    | some sp =>
      simp only [hsp, Bool.and_eq_true, decide_eq_true_eq] at hk
      exact ⟨hk.1.1, sp, rfl, hk.1.2, hk.2⟩
  ms_pos := by norm_num
  gc_nonneg := by
    intro v
    unfold Config.gcOf
    cases h : exSA.gc[v]? with
    | none => exact le_refl _
    | some x =>
      have hm := List.mem_of_getElem? h
      simp only [exSA, List.mem_cons, List.not_mem_nil, or_false] at hm
      rcases hm with rfl | rfl | rfl | rfl | rfl <;> norm_num
  gc_target := by decide +kernel
  triangle := by
    have key : ∀ e ∈ List.range 8, triOK exSA e = true := by decide +kernel
    intro e er h hok
    have he : e < 8 := by
      have := (List.getElem?_eq_some_iff.1 h).1
      simpa [exSA, exS, exC] using this
    have := key e (List.mem_range.2 he)
    simpa [triOK, h, hok] using this

/-- the estimate of `exSA` is not the zero function -/
theorem exSA_h0 : exSA.hOf 0 ≠ 0 := by decide +kernel

end ConfigUniform.Example

end Compass
