/-
Reachability without any premise on costs (C05).

`SearchOpt.nopath_imp_unreachable_on` / `ok_imp_reachable_on` / `tree_eq_reachable_on` go through
`UniformCostOn`: the cost of an edge must be a function of the edge.  That excludes every
configuration with an access model (turn delays make the charge depend on the previous edge),
although *which* vertices get labelled does not depend on what is charged: a relaxation whose edge
the frontier model accepts always leaves the far end labelled (`tentative < existing` can only fail
against an existing label), and a label is never removed.

Premise here (`ValidLocal I ok`): incident lists are consistent with `termV`, and the frontier
model's verdict — whenever it answers — is `ok e`, whatever the state and the previous edge.  Nothing
about the traversal, the access model, the cost model, the heuristic (any weight factor, any
estimate, state-dependent or not) or the sign of the costs; calls that fail fail the run, and the
theorems are about runs that returned a result or "no path" (`NoSpuriousNoPath`: no component
answers "no path" itself).

Invariant at every loop head, cost-free form of (S), (Q), (K) of Appendix A.1:
labelled ⇒ reachable by a valid walk; the source is labelled; queue entries are labelled; a labelled
vertex without queue entry has all its valid out-edges' far ends labelled; the target, once labelled,
is queued.
-/
import Compass.Proofs.SearchOpt
import Compass.Proofs.SearchLimits
import Compass.Proofs.SearchRoute
import Compass.Proofs.ConfigUniform

namespace Compass
namespace SearchReach

set_option linter.unusedSectionVars false

open SearchOpt (Walk NoSpuriousNoPath)
open SearchLimits (curOf popped startF)

variable {α : Type} [Field α] [LinearOrder α] [IsStrictOrderedRing α] [Lit α] [LawfulLit α]

/-- the premise: consistent incident lists, and a frontier verdict that is a function of the edge
(on calls that answer) -/
structure ValidLocal (I : Inst α) (ok : Nat → Bool) : Prop where
  incident_term : ∀ v e, e ∈ I.incident v → I.termV e = v
  valid_eq : ∀ e st le b, I.valid e st le = .ok b → b = ok e

/-! ### `push_increase` and the key set of the queue -/

theorem keys_pushIncrease (q : List (Nat × α)) (v : Nat) (f : α) (x : Nat) :
    (∃ p ∈ pushIncrease q v f, p.1 = x) ↔ x = v ∨ ∃ p ∈ q, p.1 = x := by
  unfold pushIncrease
  cases hfind : q.find? (fun p => p.1 == v) with
  | none =>
    simp only [List.mem_append, List.mem_singleton]
    constructor
    · rintro ⟨p, hp | hp, rfl⟩
      · exact Or.inr ⟨p, hp, rfl⟩
      · left; rw [hp]
    · rintro (rfl | ⟨p, hp, rfl⟩)
      · exact ⟨(x, f), Or.inr rfl, rfl⟩
      · exact ⟨p, Or.inl hp, rfl⟩
  | some r =>
    obtain ⟨a, old⟩ := r
    have hmem : (a, old) ∈ q := List.mem_of_find?_eq_some hfind
    have ha : a = v := by
      have := List.find?_some hfind
      simpa using this
    subst ha
    have hkey : ∀ y, (y = a ∨ ∃ p ∈ q, p.1 = y) ↔ ∃ p ∈ q, p.1 = y := by
      intro y
      constructor
      · rintro (rfl | h)
        · exact ⟨_, hmem, rfl⟩
        · exact h
      · exact Or.inr
    rw [hkey]
    simp only
    split
    · simp only [List.mem_map]
      constructor
      · rintro ⟨p, ⟨p', hp', rfl⟩, rfl⟩
        refine ⟨p', hp', ?_⟩
        by_cases hk : p'.1 = a
        · simp [hk]
        · have : (p'.1 == a) = false := by simpa using hk
          simp [this]
      · rintro ⟨p, hp, rfl⟩
        refine ⟨_, ⟨p, hp, rfl⟩, ?_⟩
        by_cases hk : p.1 = a
        · simp [hk]
        · have : (p.1 == a) = false := by simpa using hk
          simp [this]
    · rfl

/-! ### One relaxation, abstractly (no costs) -/

/-- effect of one `relax` on (queue, labels): nothing changes — and then, if the edge is permitted
and its near end labelled, the far end is labelled already — or the far end gets a label and a queue
entry -/
def RS (I : Inst α) (ok : Nat → Bool) (q : List (Nat × α)) (g : Nat → Option α) (e : Nat)
    (q' : List (Nat × α)) (g' : Nat → Option α) : Prop :=
  (q' = q ∧ g' = g ∧
    (ok e = true → (g (I.termV e)).isSome → (g (I.keyV e)).isSome))
  ∨ (ok e = true ∧ (g (I.termV e)).isSome ∧ ∃ x f, g' = upd g (I.keyV e) x ∧
      q' = pushIncrease q (I.keyV e) f)

theorem relax_rs {I : Inst α} {ok : Nat → Bool} (L : ValidLocal I ok) {hasT : Bool}
    {le : Option Nat} {st : List α} {s s' : SState α} {e : Nat}
    (h : relax I hasT le st s e = .ok s') : RS I ok s.queue s.g e s'.queue s'.g := by
  unfold relax at h
  cases hval : I.valid e st le with
  | error k => rw [hval] at h; cases h
  | ok b =>
    have hb := L.valid_eq e st le b hval
    rw [hval] at h
    cases b with
    | false =>
      simp only at h
      cases h
      refine Or.inl ⟨rfl, rfl, fun hok => ?_⟩
      rw [← hb] at hok; cases hok
    | true =>
      simp only at h
      cases htr : I.trav e le st with
      | error k => rw [htr] at h; cases h
      | ok r =>
        obtain ⟨ac, tc, st'⟩ := r
        rw [htr] at h
        simp only at h
        cases hg : s.g (I.termV e) with
        | none =>
          rw [hg] at h
          cases h
          exact Or.inl ⟨rfl, rfl, fun _ hl => by rw [hg] at hl; cases hl⟩
        | some gt =>
          rw [hg] at h
          simp only at h
          cases himp : improves (gt + (ac + tc)) (s.g (I.keyV e)) with
          | false =>
            rw [himp] at h
            simp only [Bool.false_eq_true, if_false] at h
            cases h
            refine Or.inl ⟨rfl, rfl, fun _ _ => ?_⟩
            obtain ⟨ex, hex, _⟩ := SearchOpt.improves_false himp
            rw [hex]; rfl
          | true =>
            rw [himp] at h
            simp only [if_true] at h
            split at h
            · cases h
            · cases h
              exact Or.inr ⟨hb.symm, by rw [hg]; rfl, _, _, rfl, rfl⟩

/-! ### The invariant -/

/-- the cost-free loop invariant on (queue, labels); `ex` marks the vertex being expanded, for which
(K) is suspended while its incident edges are iterated -/
structure RInv (I : Inst α) (ok : Nat → Bool) (source : Nat) (target : Option Nat)
    (ex : Nat → Prop) (q : List (Nat × α)) (g : Nat → Option α) : Prop where
  sound : ∀ v, (g v).isSome → ∃ es, Walk I ok source es v
  src : (g source).isSome
  qlab : ∀ p ∈ q, (g p.1).isSome
  closed : ∀ u, ¬ ex u → (g u).isSome → (∀ p ∈ q, p.1 ≠ u) →
    ∀ e ∈ I.incident u, ok e = true → (g (I.keyV e)).isSome
  tq : ∀ t, target = some t → (g t).isSome → ∃ p ∈ q, p.1 = t

theorem upd_isSome_of {g : Nat → Option α} {k : Nat} {x : α} {v : Nat} (h : (g v).isSome) :
    (upd g k x v).isSome := by
  rw [SearchTree.upd_isSome]; exact Or.inr h

/-- one abstract relaxation keeps the invariant, keeps every label, and leaves the far end of a
permitted edge with labelled near end labelled -/
theorem RS.step {I : Inst α} {ok : Nat → Bool} {source : Nat} {target : Option Nat}
    {ex : Nat → Prop} {q q' : List (Nat × α)} {g g' : Nat → Option α} {e : Nat}
    (hinc : e ∈ I.incident (I.termV e)) (hinv : RInv I ok source target ex q g)
    (h : RS I ok q g e q' g') :
    RInv I ok source target ex q' g' ∧ (∀ v, (g v).isSome → (g' v).isSome) ∧
      (ok e = true → (g (I.termV e)).isSome → (g' (I.keyV e)).isSome) := by
  rcases h with ⟨rfl, rfl, hno⟩ | ⟨hok, hterm, x, f, rfl, rfl⟩
  · exact ⟨hinv, fun _ h => h, hno⟩
  · have hkeys := keys_pushIncrease q (I.keyV e) f
    refine ⟨⟨?_, upd_isSome_of hinv.src, ?_, ?_, ?_⟩, fun v h => upd_isSome_of h,
      fun _ _ => by rw [SearchTree.upd_same]; rfl⟩
    · intro v hv
      by_cases hvk : v = I.keyV e
      · subst hvk
        obtain ⟨es, hw⟩ := hinv.sound _ hterm
        exact ⟨es ++ [e], hw.snoc hok hinc rfl⟩
      · rw [SearchTree.upd_other _ _ _ hvk] at hv
        exact hinv.sound v hv
    · intro p hp
      rcases SearchTree.mem_pushIncrease hp with hk | hq
      · rw [hk, SearchTree.upd_same]; rfl
      · exact upd_isSome_of (hinv.qlab p hq)
    · intro u hex hu hclosed e' he' hok'
      have huk : u ≠ I.keyV e := by
        intro huk
        obtain ⟨p, hp, hpk⟩ := (hkeys (I.keyV e)).2 (Or.inl rfl)
        exact hclosed p hp (by rw [hpk, huk])
      rw [SearchTree.upd_other _ _ _ huk] at hu
      have hclosed' : ∀ p ∈ q, p.1 ≠ u := by
        intro p hp hpu
        obtain ⟨p', hp', hpk'⟩ := (hkeys u).2 (Or.inr ⟨p, hp, hpu⟩)
        exact hclosed p' hp' hpk'
      exact upd_isSome_of (hinv.closed u hex hu hclosed' e' he' hok')
    · intro t ht hlt
      by_cases htk : t = I.keyV e
      · exact (hkeys t).2 (Or.inl htk)
      · rw [SearchTree.upd_other _ _ _ htk] at hlt
        exact (hkeys t).2 (Or.inr (hinv.tq t ht hlt))

/-- the `for` loop over (a part of) the incident edges of the expanded vertex `v` -/
theorem relaxAll_reach {I : Inst α} {ok : Nat → Bool} (L : ValidLocal I ok) {source : Nat}
    {target : Option Nat} {ex : Nat → Prop} {hasT : Bool} {le : Option Nat} {st : List α}
    {v : Nat} :
    ∀ (es : List Nat) (s s' : SState α), (∀ e ∈ es, e ∈ I.incident v) →
      RInv I ok source target ex s.queue s.g → (s.g v).isSome →
      relaxAll I hasT le st es s = .ok s' →
      RInv I ok source target ex s'.queue s'.g ∧ (∀ x, (s.g x).isSome → (s'.g x).isSome) ∧
        ∀ e ∈ es, ok e = true → (s'.g (I.keyV e)).isSome
  | [], s, s', _, hinv, _, h => by
    simp only [relaxAll] at h
    cases h
    exact ⟨hinv, fun _ h => h, fun e he => absurd he (by simp)⟩
  | e :: es, s, s', hes, hinv, hv, h => by
    simp only [relaxAll] at h
    split at h
    · cases h
    · rename_i s1 h1
      have he : e ∈ I.incident v := hes e List.mem_cons_self
      have hterm : I.termV e = v := L.incident_term v e he
      obtain ⟨hinv1, hmono1, hest1⟩ :=
        (relax_rs L h1).step (by rw [hterm]; exact he) hinv
      obtain ⟨hinv', hmono', hest'⟩ := relaxAll_reach L es s1 s'
        (fun e' he' => hes e' (List.mem_cons_of_mem _ he')) hinv1 (hmono1 v hv) h
      refine ⟨hinv', fun x hx => hmono' x (hmono1 x hx), ?_⟩
      intro e' he' hok'
      rcases List.mem_cons.1 he' with rfl | he'
      · exact hmono' _ (hest1 hok' (by rw [hterm]; exact hv))
      · exact hest' e' he' hok'

/-- the loop-head invariant on a loop state -/
def Good (I : Inst α) (ok : Nat → Bool) (source : Nat) (target : Option Nat) (s : SState α) : Prop :=
  RInv I ok source target (fun _ => False) s.queue s.g

/-- a complete turn (pop `v`, which is not the target; relax all of `incident v`; count the
iteration) keeps the loop-head invariant -/
theorem turn_good {I : Inst α} {ok : Nat → Bool} (L : ValidLocal I ok) {source : Nat}
    {target : Option Nat} {s s2 : SState α} {v : Nat} {le : Option Nat} {st : List α}
    (hgood : Good I ok source target s) (hpop : popOk s.queue v = true) (hvt : target ≠ some v)
    (hrel : relaxAll I target.isSome le st (I.incident v) (popped s v) = .ok s2) :
    Good I ok source target { s2 with iters := s2.iters + 1 } := by
  obtain ⟨pv, hpv, hpvk⟩ := SearchTree.popOk_mem hpop
  have hvlab : (s.g v).isSome := by rw [← hpvk]; exact hgood.qlab pv hpv
  have hmid : RInv I ok source target (· = v) (popped s v).queue (popped s v).g := by
    refine ⟨hgood.sound, hgood.src, ?_, ?_, ?_⟩
    · intro p hp
      exact hgood.qlab p ((SearchOpt.mem_filter_ne p).1 hp).1
    · intro u hu hlab hclosed
      refine hgood.closed u (fun h => h) hlab ?_
      intro p hp hpu
      exact hclosed p ((SearchOpt.mem_filter_ne p).2 ⟨hp, by rw [hpu]; exact hu⟩) hpu
    · intro t ht hlab
      obtain ⟨p, hp, hpt⟩ := hgood.tq t ht hlab
      refine ⟨p, (SearchOpt.mem_filter_ne p).2 ⟨hp, ?_⟩, hpt⟩
      rw [hpt]
      intro htv
      exact hvt (by rw [ht, htv])
  obtain ⟨hinv2, hmono, hest⟩ := relaxAll_reach L (I.incident v) (popped s v) s2
    (fun e he => he) hmid hvlab hrel
  refine ⟨hinv2.sound, hinv2.src, hinv2.qlab, ?_, hinv2.tq⟩
  intro u _ hlab hclosed e he hok
  by_cases huv : u = v
  · subst huv
    exact hest e he hok
  · exact hinv2.closed u huv hlab hclosed e he hok

theorem init_good (I : Inst α) (ok : Nat → Bool) (source : Nat) (target : Option Nat) (f0 : α) :
    Good I ok source target (initState source f0) := by
  have hg : ∀ v, ((initState source f0).g v).isSome → v = source := by
    intro v h
    by_cases hv : v = source
    · exact hv
    · simp [initState, upd, hv] at h
  refine ⟨?_, by simp [initState, upd], ?_, ?_, ?_⟩
  · intro v hv
    rw [hg v hv]
    exact ⟨[], rfl⟩
  · intro p hp
    simp only [initState, List.mem_singleton] at hp
    subst hp
    simp [initState, upd]
  · intro u _ hu hclosed
    have := hg u hu
    subst this
    exact absurd rfl (hclosed (u, f0) (by simp [initState]))
  · intro t _ ht
    have := hg t ht
    subst this
    exact ⟨(t, f0), by simp [initState], rfl⟩

/-! ### The loop -/

/-- every way the loop can end, with the loop-head invariant in hand at that moment; an error
`noPath` arises only from the empty queue (no component answers it) -/
theorem runLoop_ind {I : Inst α} {ok : Nat → Bool} (L : ValidLocal I ok) (hyg : NoSpuriousNoPath I)
    {source : Nat} {target : Option Nat} (Post : Except ErrKind (SState α) → Prop)
    (hnp : ∀ (s : SState α) (t : Nat), Good I ok source target s → s.queue = [] →
      target = some t → Post (.error .noPath))
    (hdone : ∀ s : SState α, Good I ok source target s → s.queue = [] → target = none →
      Post (.ok s))
    (hpop : ∀ (s : SState α) (t : Nat), Good I ok source target s → target = some t →
      popOk s.queue t = true → Post (.ok (popped s t)))
    (herr : ∀ k, k ≠ .noPath → Post (.error k)) :
    ∀ (sched : List Nat) (s : SState α), Good I ok source target s →
      Post (runLoop I source target sched s) := by
  intro sched
  induction sched with
  | nil =>
    intro s hgood
    rw [SearchLimits.runLoop_unfold]
    cases hterm : I.term s.solSize s.iters with
    | error k => exact herr k (fun hk => hyg.term _ _ (hk ▸ hterm))
    | ok u =>
      simp only
      by_cases hemp : s.queue.isEmpty = true
      · have hq : s.queue = [] := List.isEmpty_iff.1 hemp
        simp only [hemp, if_true]
        cases htar : target with
        | none => exact hdone s hgood hq htar
        | some t => exact hnp s t hgood hq htar
      · rw [if_neg hemp]
        exact herr _ (by simp)
  | cons v rest ih =>
    intro s hgood
    rw [SearchLimits.runLoop_unfold]
    cases hterm : I.term s.solSize s.iters with
    | error k => exact herr k (fun hk => hyg.term _ _ (hk ▸ hterm))
    | ok u =>
      simp only
      by_cases hemp : s.queue.isEmpty = true
      · have hq : s.queue = [] := List.isEmpty_iff.1 hemp
        simp only [hemp, if_true]
        cases htar : target with
        | none => exact hdone s hgood hq htar
        | some t => exact hnp s t hgood hq htar
      · rw [if_neg hemp]
        by_cases hp : popOk s.queue v = true
        · simp only [hp, Bool.not_true, Bool.false_eq_true, if_false]
          by_cases htv : target = some v
          · have hb : (target == some v) = true := by simp [htv]
            simp only [hb, if_true]
            exact hpop s v hgood htv hp
          · have hb : (target == some v) = false := by simpa using htv
            simp only [hb, Bool.false_eq_true, if_false]
            cases hcur : curOf I source s v with
            | none => exact herr _ (by simp)
            | some pr =>
              obtain ⟨le, st⟩ := pr
              simp only
              cases h2 : relaxAll I target.isSome le st (I.incident v) (popped s v) with
              | error k =>
                exact herr k (fun hk => SearchOpt.relaxAll_not_noPath hyg _ _ _ _ _ (hk ▸ h2))
              | ok s2 =>
                simp only
                exact ih _ (turn_good L hgood hp htv h2)
        · have hp' : popOk s.queue v = false := by simpa using hp
          simp only [hp', Bool.not_false, if_true]
          exact herr _ (by simp)

/-- `runLoop_ind` transported to `run_a_star` (target other than the source) -/
theorem runAStar_ind {I : Inst α} {ok : Nat → Bool} (L : ValidLocal I ok) (hyg : NoSpuriousNoPath I)
    {source : Nat} {target : Option Nat} (hts : target ≠ some source)
    (Post : Except ErrKind (SState α) → Prop)
    (hnp : ∀ (s : SState α) (t : Nat), Good I ok source target s → s.queue = [] →
      target = some t → Post (.error .noPath))
    (hdone : ∀ s : SState α, Good I ok source target s → s.queue = [] → target = none →
      Post (.ok s))
    (hpop : ∀ (s : SState α) (t : Nat), Good I ok source target s → target = some t →
      popOk s.queue t = true → Post (.ok (popped s t)))
    (herr : ∀ k, k ≠ .noPath → Post (.error k))
    (sched : List Nat) : Post (runAStar I source target sched) := by
  rw [SearchLimits.runAStar_unfold, if_neg hts]
  cases hf : startF I source target with
  | error k =>
    simp only
    refine herr k (fun hk => ?_)
    subst hk
    unfold startF at hf
    cases target with
    | none => cases hf
    | some t => exact hyg.h _ _ hf
  | ok f0 =>
    simp only
    exact runLoop_ind L hyg Post hnp hdone hpop herr sched _ (init_good I ok source target f0)

/-! ### The three statements -/

/-- a run that reports "no path" is right: there is no valid walk `source ⇝ t` -/
theorem nopath_imp_unreachable {I : Inst α} {ok : Nat → Bool} (L : ValidLocal I ok)
    (hyg : NoSpuriousNoPath I) {source t : Nat} {sched : List Nat}
    (hrun : runAStar I source (some t) sched = .error .noPath) :
    ¬ ∃ es, Walk I ok source es t := by
  by_cases hts : t = source
  · subst hts
    simp [runAStar] at hrun
  have hts' : (some t : Option Nat) ≠ some source := by simpa using hts
  refine runAStar_ind L hyg hts'
    (fun r => r = .error .noPath → ¬ ∃ es, Walk I ok source es t) ?_ ?_ ?_ ?_ sched hrun
  · intro s t' hgood hq htar _ hex
    cases htar
    obtain ⟨es, hw⟩ := hex
    have hq' : ∀ p ∈ s.queue, False := by rw [hq]; simp
    -- labels propagate along the walk: every labelled vertex is closed
    have key : ∀ (es : List Nat) (u : Nat), (s.g u).isSome → Walk I ok u es t → (s.g t).isSome := by
      intro es
      induction es with
      | nil =>
        intro u hu hw
        simp only [Walk] at hw
        subst hw; exact hu
      | cons e es ih =>
        intro u hu hw
        obtain ⟨hok, hinc, hterm, hrest⟩ := hw
        subst hterm
        exact ih _ (hgood.closed _ (fun h => h) hu (fun p hp => (hq' p hp).elim) e hinc hok) hrest
    obtain ⟨p, hp, _⟩ := hgood.tq t rfl (key es source hgood.src hw)
    exact hq' p hp
  · intro _ _ _ _ h; cases h
  · intro _ _ _ _ _ h; cases h
  · intro k hk h
    injection h with h
    exact (hk h).elim

/-- a successful run towards `t ≠ source` has labelled `t`, and `t` is reachable by a valid walk -/
theorem ok_imp_reachable {I : Inst α} {ok : Nat → Bool} (L : ValidLocal I ok)
    (hyg : NoSpuriousNoPath I) {source t : Nat} (hts : t ≠ source) {sched : List Nat}
    {s : SState α} (hrun : runAStar I source (some t) sched = .ok s) :
    (s.g t).isSome ∧ ∃ es, Walk I ok source es t := by
  have hts' : (some t : Option Nat) ≠ some source := by simpa using hts
  refine runAStar_ind L hyg hts'
    (fun r => ∀ s, r = .ok s → (s.g t).isSome ∧ ∃ es, Walk I ok source es t) ?_ ?_ ?_ ?_ sched s hrun
  · intro _ _ _ _ _ s h; cases h
  · intro _ _ _ htar; cases htar
  · intro s0 t' hgood htar hpop s' hs'
    cases htar
    injection hs' with hs'
    subst hs'
    obtain ⟨p, hp, hpk⟩ := SearchTree.popOk_mem hpop
    have hl : (s0.g t).isSome := by rw [← hpk]; exact hgood.qlab p hp
    exact ⟨hl, hgood.sound t hl⟩
  · intro _ _ s h; cases h

/-- the tree of a destination-less search labels exactly the vertices reachable by a valid walk -/
theorem tree_eq_reachable {I : Inst α} {ok : Nat → Bool} (L : ValidLocal I ok)
    (hyg : NoSpuriousNoPath I) {source : Nat} {sched : List Nat} {s : SState α}
    (hrun : runAStar I source none sched = .ok s) (v : Nat) :
    (s.g v).isSome ↔ ∃ es, Walk I ok source es v := by
  refine runAStar_ind L hyg (target := none) (by simp)
    (fun r => ∀ s, r = .ok s → ((s.g v).isSome ↔ ∃ es, Walk I ok source es v))
    ?_ ?_ ?_ ?_ sched s hrun
  · intro _ _ _ _ htar; cases htar
  · intro s0 hgood hq _ s' hs'
    injection hs' with hs'
    subst hs'
    have hq' : ∀ p ∈ s0.queue, False := by rw [hq]; simp
    refine ⟨hgood.sound v, ?_⟩
    rintro ⟨es, hw⟩
    have key : ∀ (es : List Nat) (u : Nat), (s0.g u).isSome → Walk I ok u es v → (s0.g v).isSome := by
      intro es
      induction es with
      | nil =>
        intro u hu hw
        simp only [Walk] at hw
        subst hw; exact hu
      | cons e es ih =>
        intro u hu hw
        obtain ⟨hok, hinc, hterm, hrest⟩ := hw
        subst hterm
        exact ih _ (hgood.closed _ (fun h => h) hu (fun p hp => (hq' p hp).elim) e hinc hok) hrest
    exact key es source hgood.src hw
  · intro _ _ _ htar; cases htar
  · intro _ _ s h; cases h

end SearchReach

/-! ## Concrete configurations -/

section
set_option linter.unusedSectionVars false
variable {α : Type} [Field α] [LinearOrder α] [IsStrictOrderedRing α] [Lit α] [LawfulLit α]

open SearchOpt (Walk)

/-- "restrictions that depend only on the edge itself": consistent adjacency and no turn-restriction
frontier model.  Any traversal model, **any access model** (turn delays included), any cost model,
weight factor, termination model, direction. -/
structure Config.RestrictionLocal (c : Config α) : Prop where
  adj : c.AdjConsistent
  noTurn : c.frontier.all FrontierM.prevFree = true

theorem Config.EdgeLocal.restrictionLocal {c : Config α} (h : c.EdgeLocal) : c.RestrictionLocal :=
  ⟨h.adj, h.noTurn⟩

theorem Config.validLocal (c : Config α) (h : c.RestrictionLocal) :
    SearchReach.ValidLocal c.inst c.okOf where
  incident_term := h.adj
  valid_eq := by
    intro e st le b hv
    simp only [Config.inst] at hv
    split at hv
    · cases hv
    · rw [frontierValid_prevFree c.frontier h.noTurn e le] at hv
      simp [Config.okOf, hv]

namespace SearchReach

/-- a result of `Config.runVertex` towards `t` implies a valid walk to `t` -/
theorem config_result_implies_reachable (c : Config α) (h : c.RestrictionLocal) {source t : Nat}
    {sched : List Nat} {r : AlgResult α} (hrun : c.runVertex source (some t) sched = .ok r) :
    ∃ es, Walk c.inst c.okOf source es t := by
  obtain ⟨res, hres, _⟩ := SearchRoute.runVertex_ok hrun
  by_cases hts : t = source
  · exact ⟨[], hts.symm⟩
  · exact (ok_imp_reachable (c.validLocal h) c.noSpuriousNoPath hts
      (SearchRoute.runVertexOriented_final hres)).2

/-- "no path" from `Config.runVertex` implies there is no valid walk -/
theorem config_nopath_implies_unreachable (c : Config α) (h : c.RestrictionLocal) {source t : Nat}
    {sched : List Nat} (hrun : c.runVertex source (some t) sched = .error .noPath) :
    ¬ ∃ es, Walk c.inst c.okOf source es t := by
  have hro := runVertex_noPath hrun
  by_cases hts : t = source
  · subst hts
    simp [runVertexOriented, runAStar, backtrack, backtrackAux] at hro
  · have hra := SearchTree.runVertexOriented_error (c.inst_wf h.adj) source t sched _ hts hro
    exact nopath_imp_unreachable (c.validLocal h) c.noSpuriousNoPath hra

/-- among the outcomes "a result" and "no path", `Config.runVertex` answers "no path" exactly when
no valid walk source ⇝ `t` exists, and returns a result exactly when one does -/
theorem config_nopath_iff_unreachable (c : Config α) (h : c.RestrictionLocal) {source t : Nat}
    {sched : List Nat}
    (hres : (∃ r, c.runVertex source (some t) sched = .ok r) ∨
      c.runVertex source (some t) sched = .error .noPath) :
    (c.runVertex source (some t) sched = .error .noPath ↔
        ¬ ∃ es, Walk c.inst c.okOf source es t) ∧
    ((∃ r, c.runVertex source (some t) sched = .ok r) ↔ ∃ es, Walk c.inst c.okOf source es t) := by
  refine ⟨⟨config_nopath_implies_unreachable c h, fun hno => ?_⟩,
    ⟨fun ⟨r, hr⟩ => config_result_implies_reachable c h hr, fun hex => ?_⟩⟩
  · rcases hres with ⟨r, hr⟩ | hnp
    · exact absurd (config_result_implies_reachable c h hr) hno
    · exact hnp
  · rcases hres with hr | hnp
    · exact hr
    · exact absurd hex (config_nopath_implies_unreachable c h hnp)

/-- destination-less search: the returned tree holds exactly the vertices reachable by a valid walk
(the source has no entry) -/
theorem config_tree_reachable (c : Config α) (h : c.RestrictionLocal) {source : Nat}
    {sched : List Nat} {r : AlgResult α} (hrun : c.runVertex source none sched = .ok r) :
    ∃ tree, r.trees = [tree] ∧ tree source = none ∧
      ∀ v, (v = source ∨ (tree v).isSome) ↔ ∃ es, Walk c.inst c.okOf source es v := by
  obtain ⟨res, hres, htrees, _, _⟩ := SearchRoute.runVertex_ok hrun
  have hra := (SearchRoute.runVertexOriented_none hres).1
  have hinv : SearchTree.TreeInv c.inst source res.final := by
    rcases SearchTree.runAStar_treeInv (c.inst_wf h.adj) source none sched _ hra with h0 | h'
    · cases h0.1
    · exact h'
  refine ⟨res.final.sol, htrees, hinv.sol_source, fun v => ?_⟩
  rw [← tree_eq_reachable (c.validLocal h) c.noSpuriousNoPath hra v]
  constructor
  · intro hv
    obtain ⟨x, hx⟩ := SearchTree.labelled_of_entry hinv hv
    rw [hx]; rfl
  · intro hv
    obtain ⟨x, hx⟩ := Option.isSome_iff_exists.1 hv
    exact hinv.labelled v x hx

/-! ### Through the edge-oriented wrapper -/

/-- the adjacent arm and the two lookups of `run_edge_oriented` never answer "no path" -/
theorem runEdge_adjacent_ne_noPath (c : Config α) (source tgt : Nat) (sched : List Nat)
    (e1 e2 : EdgeRec α) (h1 : c.edges[source]? = some e1) (h2 : c.edges[tgt]? = some e2)
    (hne : source ≠ tgt) (hadj' : e1.dst = e2.src) :
    c.runEdge source (some tgt) sched ≠ .error .noPath := by
  intro h
  unfold Config.runEdge at h
  simp only [h1, h2, if_neg hne, if_pos hadj'] at h
  split at h
  · rename_i k hk
    injection h with h
    exact edgeTraversal_ne_noPath _ _ _ _ (h ▸ hk)
  · split at h
    · rename_i k hk
      injection h with h
      exact edgeTraversal_ne_noPath _ _ _ _ (h ▸ hk)
    · cases h

/-- **edge-oriented query with a destination** (distinct origin and destination edges): a result
implies that the destination edge's tail is reachable from the origin edge's head through permitted
edges, and "no path" that it is not.  The origin and destination edges themselves are given by the
query and never shown to the frontier model; when they are adjacent the inner walk is empty and
"no path" is never answered. -/
theorem config_edge_oriented_reachability (c : Config α) (h : c.RestrictionLocal)
    (source tgt : Nat) (sched : List Nat) (e1 e2 : EdgeRec α)
    (h1 : c.edges[source]? = some e1) (h2 : c.edges[tgt]? = some e2) (hne : source ≠ tgt) :
    (∀ r, c.runEdge source (some tgt) sched = .ok r →
      ∃ es, Walk c.inst c.okOf e1.dst es e2.src) ∧
    (c.runEdge source (some tgt) sched = .error .noPath →
      ¬ ∃ es, Walk c.inst c.okOf e1.dst es e2.src) := by
  by_cases hadj' : e1.dst = e2.src
  · exact ⟨fun _ _ => ⟨[], hadj'⟩,
      fun hnp => absurd hnp (runEdge_adjacent_ne_noPath c source tgt sched e1 e2 h1 h2 hne hadj')⟩
  · refine ⟨fun r hr => ?_, fun hnp => ?_⟩
    · obtain ⟨res, _, _, hres, _⟩ :=
        SearchRoute.runEdge_nonadjacent c source tgt sched r e1 e2 h1 h2 hne hadj' hr
      exact config_result_implies_reachable c h (SearchRoute.runVertex_eq hres)
    · unfold Config.runEdge at hnp
      simp only [h1, h2, if_neg hne, if_neg hadj'] at hnp
      split at hnp
      · rename_i k hk
        injection hnp with hnp
        subst hnp
        exact config_nopath_implies_unreachable c h hk
      · rename_i r' hr'
        obtain ⟨res, _, htrees, _, _⟩ := SearchRoute.runVertex_ok hr'
        split at hnp
        · rename_i hemp
          rw [htrees] at hemp
          simp at hemp
        · split at hnp
          · rename_i k hk
            -- `fixAll` fails only with `internal` (an empty inner route)
            exfalso
            injection hnp with hnp
            subst hnp
            have : ∀ (rts : List (List (Branch α))) (fix : List (Branch α) → Except ErrKind (List (Branch α))),
                (∀ rt k, fix rt = .error k → k = .internal) →
                ∀ k, Config.runEdge.fixAll fix rts = .error k → k = .internal := by
              intro rts fix hfix
              induction rts with
              | nil => intro k hk; simp [Config.runEdge.fixAll] at hk
              | cons rt rest ih =>
                intro k hk
                simp only [Config.runEdge.fixAll] at hk
                split at hk
                · cases hk
                · rename_i k' hk'
                  injection hk with hk
                  subst hk
                  exact hfix rt _ hk'
                · rename_i k' hk' _
                  injection hk with hk
                  subst hk
                  exact ih _ hk'
            have hk' := this _ _ (by
              intro rt k hfix
              split at hfix
              · injection hfix with hfix; exact hfix.symm
              · cases hfix) _ hk
            cases hk'
          · cases hnp

/-- **destination-less edge-oriented search**: the returned tree holds exactly the vertices
reachable from the origin edge's head through permitted edges — the head itself included, under
which the wrapper stores the origin edge's entry -/
theorem config_edge_oriented_tree_reachable (c : Config α) (h : c.RestrictionLocal)
    (source : Nat) (sched : List Nat) (r : AlgResult α) (e1 : EdgeRec α)
    (h1 : c.edges[source]? = some e1) (hrun : c.runEdge source none sched = .ok r) :
    ∃ tree, r.trees = [tree] ∧
      ∀ v, (tree v).isSome ↔ ∃ es, Walk c.inst c.okOf e1.dst es v := by
  obtain ⟨r', innerTree, tree, hr', htrees', _, _, _, htrees, hinner, htree, hsrc, hother⟩ :=
    SearchRoute.runEdge_none_tree c h.adj source sched r e1 h1 hrun
  obtain ⟨tree', htrees'', _, hreach⟩ := config_tree_reachable c h hr'
  rw [htrees'] at htrees''
  cases htrees''
  refine ⟨tree, htrees, fun v => ?_⟩
  rw [← hreach v]
  by_cases hv : v = e1.dst
  · subst hv
    simp [hsrc]
  · rw [hother v hv]
    simp [hv]

end SearchReach
end

end Compass
