/-
A batch on a Combined sink (`RunC`, Model/Sink.lean): seen from member `i`, every interleaving of the workers'
member writes is a run of the single-sink model on the responses as members `< i` leave them.  Also: what one
Combined `write_response` does, exactly.  Core Lean only.
-/
import Compass.Proofs.Sink

namespace Compass
namespace Sink

/-- `r` after the formatters of `fs`, in order, have amended it -/
def amendBy (N : NumOps) (fs : List Format) (r : Json) : Json := fs.foldl (fun r f => postOf N f r) r

/-- the response `r`, which members `< j` have amended, as member `i` will get it (`j ≤ i`) -/
def advance (N : NumOps) (fmts : List Format) (j i : Nat) (r : Json) : Json :=
  amendBy N ((fmts.drop j).take (i - j)) r

theorem advance_self (N : NumOps) (fmts : List Format) (i : Nat) (r : Json) : advance N fmts i i r = r := by
  simp [advance, amendBy]

theorem advance_succ (N : NumOps) (fmts : List Format) (j i : Nat) (r : Json) (f : Format) (hji : j < i)
    (hf : fmts[j]? = some f) : advance N fmts j i r = advance N fmts (j + 1) i (postOf N f r) := by
  unfold advance
  have hlt : j < fmts.length := (List.getElem?_eq_some_iff.1 hf).1
  have hget : fmts[j] = f := (List.getElem?_eq_some_iff.1 hf).2
  have hd : fmts.drop j = f :: fmts.drop (j + 1) := by rw [← hget]; exact List.drop_eq_getElem_cons hlt
  have hi : i - j = (i - (j + 1)) + 1 := by omega
  rw [hd, hi, List.take_succ_cons]
  simp [amendBy]

theorem isObject_amendBy (N : NumOps) (fs : List Format) (r : Json) (h : r.isObject = true) :
    (amendBy N fs r).isObject = true := by
  induction fs generalizing r with
  | nil => exact h
  | cons f fs ih => exact ih _ (isObject_postOf N f r h)

/-- the queue of worker `wk` as member `i` sees it: the response in progress (if it has not passed `i` yet),
then the responses still queued, each as members `< i` will have left it -/
def projQueue (N : NumOps) (fmts : List Format) (i : Nat) (wk : CWorker) : List Json :=
  (match wk.current with
    | some (r, j) => if j ≤ i then [advance N fmts j i r] else []
    | none => []) ++ wk.queue.map (advance N fmts 0 i)

/-- what stays true of a Combined batch: healthy members with the formats `fmts`, object responses -/
structure GoodC (fmts : List Format) (s : RunC) : Prop where
  healthy : ∀ x ∈ s.sinks, x.Healthy
  formats : s.sinks.map (·.format) = fmts
  queued : ∀ wk ∈ s.workers, ∀ r ∈ wk.queue, r.isObject = true
  inProgress : ∀ wk ∈ s.workers, ∀ r j, wk.current = some (r, j) → r.isObject = true
  failed : s.failed = 0

/-- member `i` of the Combined batch `s` and the single-sink run `A` are in step -/
structure SimC (N : NumOps) (fmts : List Format) (i : Nat) (s : RunC) (A : Run) : Prop where
  sink : s.sinks[i]? = some A.sink
  queues : A.queues = s.workers.map (projQueue N fmts i)

theorem set_same_map' {α β : Type} (f : α → β) (l : List α) (i : Nat) (a a' : α) (h : l[i]? = some a)
    (hf : f a' = f a) : (l.set i a').map f = l.map f := by
  rw [List.map_set, hf]
  apply List.ext_getElem?
  intro j
  by_cases hj : i = j
  · subst hj
    have hlt : i < (l.map f).length := by
      have := (List.getElem?_eq_some_iff.1 h).1
      simpa using this
    rw [List.getElem?_set_self hlt, List.getElem?_map, h]; rfl
  · rw [List.getElem?_set_ne hj]

theorem mem_of_mem_set {α : Type} {l : List α} {i : Nat} {a x : α} (h : x ∈ l.set i a) : x ∈ l ∨ x = a :=
  List.mem_or_eq_of_mem_set h

/-- a member write on healthy members with object responses always succeeds -/
theorem member_write_ok (N : NumOps) (fmts : List Format) (s : RunC) (hg : GoodC fmts s) (j : Nat)
    (sink : FileSink) (hs : s.sinks[j]? = some sink) (r : Json) (hr : r.isObject = true) :
    ∃ sink', sink.write N r = .ok sink' (postOf N sink.format r) ∧
      sink'.file = sink.file ++ [recordOf N sink.format r] ∧ sink'.iterations = sink.iterations + 1 ∧
      sink'.format = sink.format ∧ sink'.Healthy ∧ fmts[j]? = some sink.format := by
  have hh := hg.healthy sink (List.mem_of_getElem? hs)
  obtain ⟨s', h1, h2, h3, h4, h5, _⟩ :=
    write_ok_of_writable N sink r hh (writable_of_obj_or_null N sink.format r (Or.inl hr))
  refine ⟨s', h1, h2, h3, h4, h5, ?_⟩
  rw [← hg.formats, List.getElem?_map, hs]; rfl

theorem stepC_none (N : NumOps) (persist : Bool) (s : RunC) (w : Nat) (h : s.workers[w]? = none) :
    s.step N persist w = s := by simp only [RunC.step, h]

theorem stepC_rest (N : NumOps) (persist : Bool) (s : RunC) (w : Nat) (wk : CWorker)
    (h : s.workers[w]? = some wk) (hc : wk.current = none) (hq : wk.queue = []) : s.step N persist w = s := by
  simp only [RunC.step, h, hc, hq]

theorem stepC_start (N : NumOps) (persist : Bool) (s : RunC) (w : Nat) (wk : CWorker) (r : Json) (rest : List Json)
    (h : s.workers[w]? = some wk) (hc : wk.current = none) (hq : wk.queue = r :: rest) :
    s.step N persist w = { s with workers := s.workers.set w { wk with queue := rest, current := some (r, 0) } } := by
  simp only [RunC.step, h, hc, hq]

theorem stepC_finish (N : NumOps) (persist : Bool) (s : RunC) (w : Nat) (wk : CWorker) (r : Json) (j : Nat)
    (h : s.workers[w]? = some wk) (hc : wk.current = some (r, j)) (hs : s.sinks[j]? = none) :
    s.step N persist w = { sinks := s.sinks, failed := s.failed, workers := s.workers.set w (CWorker.mk wk.queue none (if persist then wk.returned ++ [r] else wk.returned)) } := by
  simp only [RunC.step, h, hc, hs]

theorem stepC_write (N : NumOps) (persist : Bool) (s : RunC) (w : Nat) (wk : CWorker) (r r' : Json) (j : Nat)
    (sink sink' : FileSink) (h : s.workers[w]? = some wk) (hc : wk.current = some (r, j))
    (hs : s.sinks[j]? = some sink) (hw : sink.write N r = .ok sink' r') :
    s.step N persist w = { s with sinks := s.sinks.set j sink',
                                  workers := s.workers.set w { wk with current := some (r', j + 1) } } := by
  simp only [RunC.step, h, hc, hs, hw]

theorem stepC_good (N : NumOps) (persist : Bool) (fmts : List Format) (s : RunC) (hg : GoodC fmts s) (w : Nat) :
    GoodC fmts (s.step N persist w) := by
  cases hwk : s.workers[w]? with
  | none => rw [stepC_none N persist s w hwk]; exact hg
  | some wk =>
    have hwm := List.mem_of_getElem? hwk
    cases hcur : wk.current with
    | none =>
      cases hqu : wk.queue with
      | nil => rw [stepC_rest N persist s w wk hwk hcur hqu]; exact hg
      | cons r rest =>
        rw [stepC_start N persist s w wk r rest hwk hcur hqu]
        refine ⟨hg.healthy, hg.formats, ?_, ?_, hg.failed⟩
        · intro x hx r' hr'
          rcases mem_of_mem_set hx with hx | hx
          · exact hg.queued x hx r' hr'
          · rw [hx] at hr'; exact hg.queued wk hwm r' (by rw [hqu]; exact List.mem_cons_of_mem _ hr')
        · intro x hx r' j' hc
          rcases mem_of_mem_set hx with hx | hx
          · exact hg.inProgress x hx r' j' hc
          · rw [hx] at hc
            simp only [Option.some.injEq, Prod.mk.injEq] at hc
            rw [← hc.1]; exact hg.queued wk hwm r (by rw [hqu]; exact List.mem_cons_self ..)
    | some cur =>
      obtain ⟨r, j⟩ := cur
      have hr := hg.inProgress wk hwm r j hcur
      cases hs : s.sinks[j]? with
      | none =>
        rw [stepC_finish N persist s w wk r j hwk hcur hs]
        refine ⟨hg.healthy, hg.formats, ?_, ?_, hg.failed⟩
        · intro x hx r' hr'
          rcases mem_of_mem_set hx with hx | hx
          · exact hg.queued x hx r' hr'
          · rw [hx] at hr'; exact hg.queued wk hwm r' hr'
        · intro x hx r' j' hc
          rcases mem_of_mem_set hx with hx | hx
          · exact hg.inProgress x hx r' j' hc
          · rw [hx] at hc; simp at hc
      | some sink =>
        obtain ⟨sink', hw', _, _, hfmt', hh', _⟩ := member_write_ok N fmts s hg j sink hs r hr
        rw [stepC_write N persist s w wk r _ j sink sink' hwk hcur hs hw']
        refine ⟨?_, ?_, ?_, ?_, hg.failed⟩
        · intro x hx
          rcases mem_of_mem_set hx with hx | hx
          · exact hg.healthy x hx
          · rw [hx]; exact hh'
        · show (s.sinks.set j sink').map (·.format) = fmts
          rw [set_same_map' (·.format) _ j sink sink' hs hfmt']; exact hg.formats
        · intro x hx r' hr'
          rcases mem_of_mem_set hx with hx | hx
          · exact hg.queued x hx r' hr'
          · rw [hx] at hr'; exact hg.queued wk hwm r' hr'
        · intro x hx r' j' hc
          rcases mem_of_mem_set hx with hx | hx
          · exact hg.inProgress x hx r' j' hc
          · rw [hx] at hc
            simp only [Option.some.injEq, Prod.mk.injEq] at hc
            rw [← hc.1]; exact isObject_postOf N sink.format r hr

/-- seen from member `i`, a step of the Combined batch is invisible or is the single-sink step of the same
worker -/
theorem stepC_sim (N : NumOps) (persist : Bool) (fmts : List Format) (i : Nat) (s : RunC) (A : Run)
    (hg : GoodC fmts s) (h : SimC N fmts i s A) (w : Nat) :
    SimC N fmts i (s.step N persist w) A ∨ SimC N fmts i (s.step N persist w) (A.step N false w) := by
  obtain ⟨hsink, hq⟩ := h
  cases hwk : s.workers[w]? with
  | none => left; rw [stepC_none N persist s w hwk]; exact ⟨hsink, hq⟩
  | some wk =>
    have hwm := List.mem_of_getElem? hwk
    cases hcur : wk.current with
    | none =>
      cases hqu : wk.queue with
      | nil => left; rw [stepC_rest N persist s w wk hwk hcur hqu]; exact ⟨hsink, hq⟩
      | cons r rest =>
        left
        rw [stepC_start N persist s w wk r rest hwk hcur hqu]
        refine ⟨hsink, ?_⟩
        rw [hq]; symm
        apply set_same_map' _ _ _ wk _ hwk
        simp [projQueue, hcur, hqu]
    | some cur =>
      obtain ⟨r, j⟩ := cur
      have hr := hg.inProgress wk hwm r j hcur
      cases hs : s.sinks[j]? with
      | none =>
        left
        rw [stepC_finish N persist s w wk r j hwk hcur hs]
        refine ⟨hsink, ?_⟩
        rw [hq]; symm
        apply set_same_map' _ _ _ wk _ hwk
        -- `j` is past the last member, hence past `i`
        have hij : ¬ j ≤ i := by
          intro hle
          have hi : i < s.sinks.length := (List.getElem?_eq_some_iff.1 hsink).1
          have hj : s.sinks.length ≤ j := by
            rcases Nat.lt_or_ge j s.sinks.length with hlt | hge
            · rw [List.getElem?_eq_getElem hlt] at hs; simp at hs
            · exact hge
          omega
        simp [projQueue, hcur, hij]
      | some sink =>
        obtain ⟨sink', hw', hfile', hit', hfmt', hh', hfj⟩ := member_write_ok N fmts s hg j sink hs r hr
        rw [stepC_write N persist s w wk r _ j sink sink' hwk hcur hs hw']
        rcases Nat.lt_trichotomy j i with hlt | heq | hgt
        · -- an earlier member: member `i` will get the amended response — the same thing it was going to get
          left
          refine ⟨by show (s.sinks.set j sink')[i]? = _; rw [List.getElem?_set_ne (by omega)]; exact hsink, ?_⟩
          show A.queues = (s.workers.set w _).map _
          rw [hq]; symm
          apply set_same_map' _ _ _ wk _ hwk
          have h1 : j ≤ i := by omega
          have h2 : j + 1 ≤ i := by omega
          simp only [projQueue, hcur, h1, h2, if_true]
          rw [advance_succ N fmts j i r sink.format hlt hfj]
        · -- member `i` itself: its single-sink model writes the same response now
          subst heq
          right
          have hsA : sink = A.sink := by rw [hsink] at hs; exact (Option.some.inj hs).symm
          subst hsA
          have hAq : A.queues[w]? = some (r :: wk.queue.map (advance N fmts 0 j)) := by
            rw [hq, List.getElem?_map, hwk]
            simp [projQueue, hcur, advance_self]
          refine ⟨?_, ?_⟩
          · show (s.sinks.set j sink')[j]? = _
            rw [List.getElem?_set_self (List.getElem?_eq_some_iff.1 hs).1]
            simp only [Run.step, hAq, hw']
          · show (Run.step N false A w).queues = (s.workers.set w _).map _
            rw [step_queues]
            unfold drainStep
            rw [hAq]
            simp only [hq, List.map_set]
            congr 1
            simp [projQueue]
        · -- a later member: nothing member `i` can see
          left
          refine ⟨by show (s.sinks.set j sink')[i]? = _; rw [List.getElem?_set_ne (by omega)]; exact hsink, ?_⟩
          show A.queues = (s.workers.set w _).map _
          rw [hq]; symm
          apply set_same_map' _ _ _ wk _ hwk
          have h1 : ¬ j ≤ i := by omega
          have h2 : ¬ j + 1 ≤ i := by omega
          simp [projQueue, hcur, h1, h2]

theorem execC_sim (N : NumOps) (persist : Bool) (fmts : List Format) (i : Nat) (schedule : List Nat)
    (s : RunC) (A : Run) (hg : GoodC fmts s) (h : SimC N fmts i s A) :
    ∃ atomic : List Nat, GoodC fmts (s.exec N persist schedule) ∧
      SimC N fmts i (s.exec N persist schedule) (A.exec N false atomic) := by
  induction schedule generalizing s A with
  | nil => exact ⟨[], hg, h⟩
  | cons w ws ih =>
    have hg' := stepC_good N persist fmts s hg w
    rcases stepC_sim N persist fmts i s A hg h w with h1 | h1
    · exact ih _ A hg' h1
    · obtain ⟨as, h2⟩ := ih _ _ hg' h1
      exact ⟨w :: as, h2⟩

/-! ### one Combined `write_response`, exactly -/

/-- what one Combined write does: member `i` appends the record of the response as members `< i` amended it
and counts it; the response handed back is the response amended by every member in turn -/
theorem writeCombined_spec (N : NumOps) (ss : List FileSink) (r : Json)
    (hp : ∀ s ∈ ss, s.Healthy) (hr : r.isObject = true) :
    ∃ ss', writeCombined N ss r = .ok ss' (amendBy N (ss.map (·.format)) r) ∧ ss'.length = ss.length ∧
      ∀ i s, ss[i]? = some s → ∃ s', ss'[i]? = some s' ∧
        s'.file = s.file ++ [recordOf N s.format (amendBy N ((ss.map (·.format)).take i) r)] ∧
        s'.iterations = s.iterations + 1 ∧ s'.format = s.format ∧ s'.Healthy := by
  induction ss generalizing r with
  | nil => exact ⟨[], rfl, rfl, by intro i s h; simp at h⟩
  | cons s0 ss ih =>
    have hw := writable_of_obj_or_null N s0.format r (Or.inl hr)
    obtain ⟨s0', hs0', hfile, hit, hfmt, hh, _⟩ :=
      write_ok_of_writable N s0 r (hp s0 (List.mem_cons_self ..)) hw
    obtain ⟨ss', hss', hlen, hall⟩ :=
      ih (postOf N s0.format r) (fun x hx => hp x (List.mem_cons_of_mem _ hx)) (isObject_postOf N s0.format r hr)
    refine ⟨s0' :: ss', ?_, by simp [hlen], ?_⟩
    · simp only [writeCombined, hs0', hss', List.map_cons, amendBy, List.foldl_cons]
    · intro i s hi
      cases i with
      | zero =>
        simp only [List.getElem?_cons_zero, Option.some.injEq] at hi
        subst hi
        exact ⟨s0', rfl, by simpa [amendBy] using hfile, hit, hfmt, hh⟩
      | succ i =>
        simp only [List.getElem?_cons_succ] at hi
        obtain ⟨s', h1, h2, h3, h4, h5⟩ := hall i s hi
        exact ⟨s', by simpa using h1, by simpa [amendBy] using h2, h3, h4, h5⟩

/-- a Combined write keeps every key/value of the response, whatever the members are -/
theorem writeCombined_never_loses (N : NumOps) (ss : List FileSink) (r : Json) (ss' : List FileSink) (r' : Json)
    (h : writeCombined N ss r = .ok ss' r') : ∀ k v, r.get? k = some v → r'.get? k = some v := by
  induction ss generalizing r ss' r' with
  | nil =>
    simp only [writeCombined, CombinedResult.ok.injEq] at h
    intro k v hk; rw [← h.2]; exact hk
  | cons s ss ih =>
    intro k v hk
    unfold writeCombined at h
    cases hs : s.write N r with
    | ok s1 r1 =>
      rw [hs] at h
      simp only at h
      cases hc : writeCombined N ss r1 with
      | ok ss2 r2 =>
        rw [hc] at h
        simp only [CombinedResult.ok.injEq] at h
        rw [← h.2]
        apply ih r1 ss2 r2 hc k v
        unfold FileSink.write at hs
        split at hs
        · cases hs
        · split at hs
          · cases hs
          · cases hs
          · rename_i row rr hf
            split at hs
            · cases hs
            · simp only [WriteResult.ok.injEq] at hs
              rw [← hs.2]
              cases hfm : s.format with
              | json nd =>
                rw [hfm] at hf
                simp only [formatResponse, Outcome.ok.injEq, Prod.mk.injEq] at hf
                rw [← hf.2]; exact hk
              | csv m sorted =>
                rw [hfm] at hf
                rcases (formatResponse_csv_cases N m sorted r row rr hf).2 with e | ⟨key, hkey, _, hassign⟩
                · rw [e]; exact hk
                · exact get?_indexAssign_new r rr _ _ (csvErrorKey_new r key hkey) hassign k v hk
      | _ => rw [hc] at h; simp at h
    | _ => rw [hs] at h; simp at h

end Sink
end Compass
