/-
Proofs about the entry points (`Model/BatchEntry.lean`): the call with a sink is `run` plus the sink's failures.
-/
import Compass.Model.BatchEntry
import Compass.Proofs.Batch

namespace Compass
namespace Batch
open MultiSet (Outcome)

/-- an error of `run` as an error of the call -/
def liftRun : Outcome (Except AppErr (List Json)) → Outcome (Except CallErr (List Json))
  | .ok (.ok rs) => .ok (.ok rs)
  | .ok (.error e) => .ok (.error (.app e))
  | .panic s => .panic s
  | .diverges => .diverges

/-- the call after its configuration: chunking has disappeared, what is left is load balancing, the writes of
the error responses and of the search responses -/
theorem callCoreO_eq {α : Type} (W : WOps α) (cfg : Config) (sink : OutPolicy) (respond : Json → Json)
    (batch : List Json) :
    callCoreO W cfg sink respond batch =
      match balanceO W cfg.parallelism (processed cfg.plugins batch) with
      | .panic s => .panic s
      | .diverges => .diverges
      | .ok (.error e) => .ok (.error (.app e))
      | .ok (.ok bins) =>
        if sinkFails sink && !(errs cfg.plugins batch).isEmpty then .ok (.error .sinkWrite)
        else if bins.isEmpty then .ok (.ok (errs cfg.plugins batch))
        else if sinkFails sink then .ok (.error .sinkWrite)
        else .ok (.ok (assemble cfg.persist respond bins (errs cfg.plugins batch))) := by
  have hn := chunkSize_pos batch.length cfg.selfPar
  have hc : parChunksO (chunkSize batch.length cfg.selfPar) batch
      = .ok (chunks (chunkSize batch.length cfg.selfPar) batch) := by
    unfold parChunksO
    rw [if_neg (by omega)]
  simp only [callCoreO, hc, mapChunksO_eq, List.map_map]
  have h1 : (List.map ((fun x => x.1) ∘ processChunkT cfg.plugins)
      (chunks (chunkSize batch.length cfg.selfPar) batch)).flatten = oks cfg.plugins batch := by
    have : ((fun x : List (List Json) × List Json => x.1) ∘ processChunkT cfg.plugins)
        = oks cfg.plugins := by
      funext c; simp [processChunkT_eq]
    rw [this, oks_flatten, chunks_flatten _ hn]
  have h2 : (List.map ((fun x => x.2) ∘ processChunkT cfg.plugins)
      (chunks (chunkSize batch.length cfg.selfPar) batch)).flatten = errs cfg.plugins batch := by
    have : ((fun x : List (List Json) × List Json => x.2) ∘ processChunkT cfg.plugins)
        = errs cfg.plugins := by
      funext c; simp [processChunkT_eq]
    rw [this, errs_flatten, chunks_flatten _ hn]
  rw [h1, h2]
  rfl

/-- a sink whose writes succeed (or no sink) is invisible: the call is `run` -/
theorem callCoreO_of_sink_ok {α : Type} (W : WOps α) (cfg : Config) (sink : OutPolicy)
    (respond : Json → Json) (batch : List Json) (hs : sinkFails sink = false) :
    callCoreO W cfg sink respond batch = liftRun (runO W cfg respond batch) := by
  rw [callCoreO_eq, runO_eq]
  cases hb : balanceO W cfg.parallelism (processed cfg.plugins batch) with
  | panic s => rfl
  | diverges => rfl
  | ok r =>
    cases r with
    | error e => rfl
    | ok bins =>
      simp only [hs, Bool.false_and, Bool.false_eq_true, if_false, liftRun, assemble]
      by_cases hbe : bins.isEmpty = true <;> simp [hbe]

/-- `processed` is empty exactly when the bins are -/
theorem bins_isEmpty_iff {α : Type} (W : WOps α) (p : Nat) (hp : 1 ≤ p) (qs : List Json) :
    ∃ bins, balanceO W p qs = .ok (.ok bins) ∧ (bins.isEmpty = true ↔ qs = []) := by
  obtain ⟨bins, h1, h2, h3, h4⟩ := balanceO_spec W p hp qs
  refine ⟨bins, h1, ?_⟩
  constructor
  · intro hb
    have : bins = [] := List.isEmpty_iff.mp hb
    subst this
    simpa using h2.symm
  · intro hq
    simp [h4 hq]

theorem firstFailure_none (fails : String → Bool) :
    firstFailure fails = none ↔ ∀ s ∈ buildStages, fails s = false := by
  simp [firstFailure, List.find?_eq_none]

theorem firstFailure_some (fails : String → Bool) (s : String) (h : firstFailure fails = some s) :
    fails s = true ∧ s ∈ buildStages ∧
    ∃ pre post, buildStages = pre ++ s :: post ∧ ∀ t ∈ pre, fails t = false := by
  unfold firstFailure at h
  obtain ⟨h1, pre, post, h2, h3⟩ := List.find?_eq_some_iff_append.mp h
  refine ⟨h1, by rw [h2]; simp, pre, post, h2, ?_⟩
  intro t ht
  simpa using h3 t ht

/-! ### the single-query function with outcomes -/

theorem searchedO_eq {α : Type} (W : WOps α) (cfg : Config) (batch : List Json) :
    searchedO W cfg batch =
      match balanceO W cfg.parallelism (processed cfg.plugins batch) with
      | .panic s => .panic s
      | .diverges => .diverges
      | .ok (.error e) => .ok (.error e)
      | .ok (.ok bins) => .ok (.ok (bins, errs cfg.plugins batch)) := by
  have hn := chunkSize_pos batch.length cfg.selfPar
  have hc : parChunksO (chunkSize batch.length cfg.selfPar) batch
      = .ok (chunks (chunkSize batch.length cfg.selfPar) batch) := by
    unfold parChunksO
    rw [if_neg (by omega)]
  simp only [searchedO, hc, mapChunksO_eq, List.map_map]
  have h1 : (List.map ((fun x => x.1) ∘ processChunkT cfg.plugins)
      (chunks (chunkSize batch.length cfg.selfPar) batch)).flatten = oks cfg.plugins batch := by
    have : ((fun x : List (List Json) × List Json => x.1) ∘ processChunkT cfg.plugins)
        = oks cfg.plugins := by
      funext c; simp [processChunkT_eq]
    rw [this, oks_flatten, chunks_flatten _ hn]
  have h2 : (List.map ((fun x => x.2) ∘ processChunkT cfg.plugins)
      (chunks (chunkSize batch.length cfg.selfPar) batch)).flatten = errs cfg.plugins batch := by
    have : ((fun x : List (List Json) × List Json => x.2) ∘ processChunkT cfg.plugins)
        = errs cfg.plugins := by
      funext c; simp [processChunkT_eq]
    rw [this, errs_flatten, chunks_flatten _ hn]
  rw [h1, h2]
  rfl

theorem respondAllO_ok_iff (respondO : Json → Outcome Json) : ∀ qs : List Json,
    (∃ vs, respondAllO respondO qs = .ok vs) ↔ ∀ q ∈ qs, ∃ v, respondO q = .ok v
  | [] => by simp [respondAllO]
  | q :: r => by
    have ih := respondAllO_ok_iff respondO r
    simp only [respondAllO, List.mem_cons, forall_eq_or_imp]
    cases hq : respondO q with
    | panic s => simp
    | diverges => simp
    | ok v =>
      simp only [Outcome.ok.injEq, exists_eq', true_and]
      rw [← ih]
      cases respondAllO respondO r <;> simp

theorem respondAllO_total (respond : Json → Json) : ∀ qs : List Json,
    respondAllO (fun q => .ok (respond q)) qs = .ok (qs.map respond)
  | [] => rfl
  | q :: r => by simp [respondAllO, respondAllO_total respond r]

/-! ### the packaging of a response -/

/-- an output plugin that leaves the `request` field of the output alone -/
def KeepsRequest (p : Json → Json → Except String Json) : Prop :=
  ∀ q out out', p q out = .ok out' → out.get? "request" = some q → out'.get? "request" = some q

theorem applyOut_request : ∀ (ps : List (Json → Json → Except String Json)) (q out : Json),
    (∀ p ∈ ps, KeepsRequest p) → out.get? "request" = some q →
    (applyOut ps q out).get? "request" = some q
  | [], _, _, _, h => h
  | p :: ps, q, out, hk, h => by
    simp only [applyOut]
    cases hp : p q out with
    | error e => simp [Json.get?, Json.lookup]
    | ok out' =>
      exact applyOut_request ps q out' (fun p' hp' => hk p' (by simp [hp']))
        (hk p (by simp) q out out' hp h)

/-- `output[key] = value` for a key other than `request` keeps the request -/
theorem set_other_key_keepsRequest (key : String) (hk : key ≠ "request") (f : Json → Json → Json) :
    KeepsRequest (fun q out => match out with
      | .obj kvs => .ok (.obj (Json.insertKv kvs key (f q out)))
      | _ => .error "output is not an object") := by
  intro q out out' h hr
  cases out with
  | obj kvs =>
    simp only [Except.ok.injEq] at h
    subst h
    simp only [Json.get?] at hr ⊢
    rw [GridSearch.lookup_insertKv]
    simp [Ne.symm hk, hr]
  | _ => simp at h

end Batch
end Compass
