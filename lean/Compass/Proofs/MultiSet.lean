/-
Proofs about the `MultiSet` model (DESIGN.md A.4): the carry loop is a mixed-radix increment
(`val (next pos) = val pos + 1`), "finished" exactly at `val = Πn − 1`, `val` is a bijection between
in-range digit vectors and `range (Πn)`; hence the enumeration is `combos`, of length `Πn`, without
repetition and complete, and fuel `Πn + 1` suffices — for every input since the repair of the two
boundary cases (no set: the single empty combination; an empty set: no combination).
-/
import Compass.Model.MultiSet
import Mathlib.Data.List.Nodup
import Mathlib.Data.List.Range

namespace Compass
namespace MultiSet

/-! ### the list-recursive form of the carry loop -/

/-- mixed-radix increment; `none` = "finished" -/
def incr : List Nat → List Nat → Option (List Nat)
  | p :: ps, f :: fs => if p < f then some ((p + 1) :: ps) else (incr ps fs).map (0 :: ·)
  | _, _ => none

theorem zeroPrefix_zeros (i : Nat) (p : Nat) (ps : List Nat) :
    zeroPrefix (i + 1) (List.replicate i 0 ++ p :: ps) = List.replicate (i + 1) 0 ++ ps := by
  induction i with
  | zero => simp [zeroPrefix]
  | succ i ih =>
    rw [List.replicate_succ, List.cons_append, zeroPrefix, ih]
    simp [List.replicate_succ]

/-- the loop of the code, run from `idx` on a position whose first `idx` digits are already zero,
computes `incr` of the remaining digits -/
theorem carry_eq (finalPos : List Nat) (len : Nat) (f0 : Bool) :
    ∀ (ps : List Nat) (idx : Nat), idx + ps.length = len → finalPos.length = len → ps ≠ [] →
      (∀ r, incr ps (finalPos.drop idx) = some r →
        carry finalPos len f0 ps.length idx (List.replicate idx 0 ++ ps)
          = some (List.replicate idx 0 ++ r, false)) ∧
      (incr ps (finalPos.drop idx) = none →
        ∃ junk, carry finalPos len f0 ps.length idx (List.replicate idx 0 ++ ps) = some (junk, true)) := by
  intro ps
  induction ps with
  | nil => intro idx _ _ h; exact absurd rfl h
  | cons p ps ih =>
    intro idx hlen hfl _
    have hidx : idx < finalPos.length := by simp at hlen; omega
    have hdrop : finalPos.drop idx = finalPos[idx] :: finalPos.drop (idx + 1) := by
      rw [List.drop_eq_getElem_cons hidx]
    have hget : (List.replicate idx 0 ++ p :: ps)[idx]? = some p := by
      rw [List.getElem?_append_right (by simp)]; simp
    have hf : finalPos[idx]? = some finalPos[idx] := List.getElem?_eq_getElem hidx
    simp only [List.length_cons, carry, hget, hf, hdrop, incr]
    by_cases hlt : p < finalPos[idx]
    · simp only [hlt, if_true]
      constructor
      · intro r hr
        have : r = (p + 1) :: ps := by simpa using hr.symm
        subst this
        congr 2
        rw [List.set_append_right _ _ (by simp)]
        simp
      · intro h; simp at h
    · simp only [hlt, if_false]
      by_cases hlast : idx = len - 1
      · have hps : ps = [] := by
          simp at hlen
          have : ps.length = 0 := by omega
          exact List.length_eq_zero_iff.mp this
        subst hps
        simp [hlast, incr]
      · have hps : ps ≠ [] := by
          intro h; subst h; simp at hlen; omega
        simp only [hlast, if_false]
        rw [zeroPrefix_zeros]
        have hlen' : idx + 1 + ps.length = len := by simp at hlen; omega
        obtain ⟨ih1, ih2⟩ := ih (idx + 1) hlen' hfl hps
        constructor
        · intro r hr
          cases hi : incr ps (List.drop (idx + 1) finalPos) with
          | none => rw [hi] at hr; simp at hr
          | some r' =>
            rw [hi] at hr
            have : r = 0 :: r' := by simpa using hr.symm
            subst this
            rw [ih1 r' hi]
            simp [List.replicate_succ']
        · intro h
          have : incr ps (List.drop (idx + 1) finalPos) = none := by
            cases hi : incr ps (List.drop (idx + 1) finalPos) with
            | none => rfl
            | some r' => rw [hi] at h; simp at h
          exact ih2 this

/-! ### mixed-radix arithmetic -/

/-- `final_pos` for sets of sizes `ns` -/
def finals (ns : List Nat) : List Nat := ns.map (· - 1)

@[simp] theorem inRange_cons_cons (n p : Nat) (ns ps : List Nat) :
    inRange (n :: ns) (p :: ps) = true ↔ p < n ∧ inRange ns ps = true := by simp [inRange]

@[simp] theorem inRange_nil_iff (p : List Nat) : inRange [] p = true ↔ p = [] := by
  cases p <;> simp [inRange]

theorem inRange_cons_iff (n : Nat) (ns p : List Nat) :
    inRange (n :: ns) p = true ↔ ∃ d ps, p = d :: ps ∧ d < n ∧ inRange ns ps = true := by
  cases p with
  | nil => simp [inRange]
  | cons d ps => simp

theorem inRange_length : ∀ (ns p : List Nat), inRange ns p = true → p.length = ns.length
  | [], p, h => by simp at h; simp [h]
  | n :: ns, p, h => by
    obtain ⟨d, ps, rfl, _, h'⟩ := (inRange_cons_iff n ns p).mp h
    simp [inRange_length ns ps h']

theorem inRange_pos : ∀ (ns p : List Nat), inRange ns p = true → ∀ n ∈ ns, 0 < n
  | [], _, _ => by simp
  | n :: ns, p, h => by
    obtain ⟨d, ps, rfl, hd, h'⟩ := (inRange_cons_iff n ns p).mp h
    intro m hm
    rcases List.mem_cons.mp hm with rfl | hm
    · omega
    · exact inRange_pos ns ps h' m hm

theorem prod_pos : ∀ (ns : List Nat), (∀ n ∈ ns, 0 < n) → 0 < prod ns
  | [], _ => by simp [prod]
  | n :: ns, h => by
    have h1 : 0 < n := h n (by simp)
    have h2 : 0 < prod ns := prod_pos ns (fun m hm => h m (by simp [hm]))
    simpa [prod] using Nat.mul_pos h1 h2

theorem val_lt : ∀ (ns p : List Nat), inRange ns p = true → val ns p < prod ns
  | [], p, _ => by simp [val, prod]
  | n :: ns, p, h => by
    obtain ⟨d, ps, rfl, hd, h'⟩ := (inRange_cons_iff n ns p).mp h
    have ih := val_lt ns ps h'
    simp only [val, prod]
    have : n * (val ns ps + 1) ≤ n * prod ns := Nat.mul_le_mul_left n ih
    rw [Nat.mul_succ] at this
    omega

theorem inRange_digits : ∀ (ns : List Nat) (k : Nat), (∀ n ∈ ns, 0 < n) → inRange ns (digits ns k) = true
  | [], _, _ => by simp [digits, inRange]
  | n :: ns, k, h => by
    have h1 : 0 < n := h n (by simp)
    simp only [digits, inRange_cons_cons]
    exact ⟨Nat.mod_lt _ h1, inRange_digits ns (k / n) (fun m hm => h m (by simp [hm]))⟩

theorem val_digits : ∀ (ns : List Nat) (k : Nat), k < prod ns → val ns (digits ns k) = k
  | [], k, h => by simp [prod] at h; simp [val, h]
  | n :: ns, k, h => by
    simp only [prod] at h
    have hk : k / n < prod ns := Nat.div_lt_of_lt_mul h
    simp only [digits, val, val_digits ns (k / n) hk]
    exact Nat.mod_add_div k n

theorem digits_val : ∀ (ns p : List Nat), inRange ns p = true → digits ns (val ns p) = p
  | [], p, h => by simp at h; simp [h, digits]
  | n :: ns, p, h => by
    obtain ⟨d, ps, rfl, hd, h'⟩ := (inRange_cons_iff n ns p).mp h
    have hn : 0 < n := by omega
    simp only [val, digits]
    rw [Nat.add_mul_mod_self_left, Nat.mod_eq_of_lt hd, Nat.add_mul_div_left _ _ hn,
      Nat.div_eq_of_lt hd, Nat.zero_add, digits_val ns ps h']

/-- `val` is injective on index vectors -/
theorem val_inj (ns p q : List Nat) (hp : inRange ns p = true) (hq : inRange ns q = true)
    (h : val ns p = val ns q) : p = q := by
  rw [← digits_val ns p hp, ← digits_val ns q hq, h]

/-- one step of the counter: the successor is again an index vector and its value is one more -/
theorem incr_some : ∀ (ns p p' : List Nat), inRange ns p = true → incr p (finals ns) = some p' →
    inRange ns p' = true ∧ val ns p' = val ns p + 1
  | [], p, p', h, hi => by simp at h; subst h; simp [incr] at hi
  | n :: ns, p, p', h, hi => by
    obtain ⟨d, ps, rfl, hd, h'⟩ := (inRange_cons_iff n ns p).mp h
    have hn : 0 < n := by omega
    simp only [finals, List.map_cons, incr] at hi
    by_cases hlt : d < n - 1
    · simp only [hlt, if_true, Option.some.injEq] at hi
      subst hi
      simp only [inRange_cons_cons, val]
      exact ⟨⟨by omega, h'⟩, by omega⟩
    · simp only [hlt, if_false] at hi
      cases hr : incr ps (List.map (· - 1) ns) with
      | none => rw [hr] at hi; simp at hi
      | some r =>
        rw [hr] at hi
        simp only [Option.map_some, Option.some.injEq] at hi
        subst hi
        obtain ⟨ih1, ih2⟩ := incr_some ns ps r h' hr
        simp only [inRange_cons_cons, val, ih2, Nat.mul_succ]
        exact ⟨⟨hn, ih1⟩, by omega⟩

/-- "finished" is reported exactly at the last combination, `val = Πn − 1` -/
theorem incr_none : ∀ (ns p : List Nat), inRange ns p = true → incr p (finals ns) = none →
    val ns p + 1 = prod ns
  | [], p, _, _ => by simp [val, prod]
  | n :: ns, p, h, hi => by
    obtain ⟨d, ps, rfl, hd, h'⟩ := (inRange_cons_iff n ns p).mp h
    have hn : 0 < n := by omega
    simp only [finals, List.map_cons, incr] at hi
    by_cases hlt : d < n - 1
    · simp [hlt] at hi
    · simp only [hlt, if_false, Option.map_eq_none_iff] at hi
      have ih := incr_none ns ps h' hi
      simp only [val, prod, ← ih, Nat.mul_succ]
      omega

theorem incr_isSome_iff (ns p : List Nat) (h : inRange ns p = true) :
    (incr p (finals ns)).isSome = true ↔ val ns p + 1 < prod ns := by
  cases hi : incr p (finals ns) with
  | none => have := incr_none ns p h hi; simp; omega
  | some p' =>
    obtain ⟨h1, h2⟩ := incr_some ns p p' h hi
    have := val_lt ns p' h1
    simp; omega

/-! ### the iterator -/

section iterator
variable {α β : Type}

@[simp] theorem pick_nil_right (sets : List (List α)) : pick sets [] = [] := by
  cases sets <;> simp [pick]

/-- sizes of the sets -/
abbrev sizesOf (sets : List (List α)) : List Nat := sets.map List.length

theorem pickFrom_eq (sets : List (List α)) : ∀ (p : List Nat) (i : Nat),
    inRange (sizesOf (sets.drop i)) p = true → pickFrom sets i p = some (pick (sets.drop i) p)
  | [], i, _ => by simp [pickFrom]
  | j :: r, i, h => by
    cases hd : sets.drop i with
    | nil => rw [hd] at h; simp [inRange] at h
    | cons s rest =>
      rw [hd] at h
      simp only [List.map_cons, inRange_cons_cons] at h
      have hi : i < sets.length := by
        by_contra hc
        rw [List.drop_eq_nil_of_le (by omega)] at hd
        exact absurd hd (by simp)
      have hcons : sets[i] = s ∧ sets.drop (i + 1) = rest := by
        rw [List.drop_eq_getElem_cons hi] at hd
        exact List.cons.inj hd
      have hs : sets[i]? = some s := by
        rw [List.getElem?_eq_getElem hi, hcons.1]
      have hrest : sets.drop (i + 1) = rest := hcons.2
      have ih := pickFrom_eq sets r (i + 1) (by rw [hrest]; exact h.2)
      simp only [pickFrom, hs, List.getElem?_eq_getElem h.1, ih, hrest, pick]

theorem pick_length : ∀ (sets : List (List α)) (p : List Nat), inRange (sizesOf sets) p = true →
    (pick sets p).length = sets.length
  | [], p, h => by simp at h; simp [h]
  | s :: ss, p, h => by
    obtain ⟨d, ps, rfl, hd, h'⟩ := (inRange_cons_iff _ _ p).mp h
    simp [pick, List.getElem?_eq_getElem hd, pick_length ss ps h']

/-- on index sets `0..n` the picked items are the indices themselves -/
theorem pick_ranges : ∀ (ns p : List Nat), inRange ns p = true → pick (ns.map List.range) p = p
  | [], p, h => by simp at h; simp [h]
  | n :: ns, p, h => by
    obtain ⟨d, ps, rfl, hd, h'⟩ := (inRange_cons_iff _ _ p).mp h
    simp [pick, List.getElem?_range hd, pick_ranges ns ps h']

/-- the iterator at an index vector `p` -/
def at_ (sets : List (List α)) (pos : Option (List Nat)) : MultiSet α :=
  { sets := sets, pos := pos, finalPos := finals (sizesOf sets) }

theorem from_eq (sets : List (List α)) :
    MultiSet.from sets
      = at_ sets (if sets.any List.isEmpty then none else some (List.replicate sets.length 0)) := by
  simp [MultiSet.from, at_, finals, List.map_map, Function.comp_def]

theorem any_isEmpty_false (sets : List (List α)) (hpos : ∀ s ∈ sets, s ≠ []) :
    sets.any List.isEmpty = false := by
  rw [List.any_eq_false]
  intro s hs
  simpa using hpos s hs

/-- `next` hands out the items at `p` and moves to the successor of `p` (no panic) -/
theorem next_at (sets : List (List α)) (hne : sets ≠ []) (p : List Nat)
    (hr : inRange (sizesOf sets) p = true) :
    next (at_ sets (some p)) = .ok (some (pick sets p), at_ sets (incr p (finals (sizesOf sets)))) := by
  have hlen : p.length = sets.length := by simpa using inRange_length _ _ hr
  have hp : p ≠ [] := by
    intro h; subst h; simp at hlen; exact hne (List.length_eq_zero_iff.mp hlen.symm)
  have hpick := pickFrom_eq sets p 0 (by simpa using hr)
  simp only [List.drop_zero] at hpick
  obtain ⟨c1, c2⟩ := carry_eq (finals (sizesOf sets)) sets.length sets.isEmpty p 0 (by omega)
    (by simp [finals]) hp
  simp only [List.drop_zero, List.replicate_zero, List.nil_append] at c1 c2
  rw [hlen] at c1 c2
  simp only [next, at_, hpick]
  cases hi : incr p (finals (sizesOf sets)) with
  | some r => rw [c1 r hi]; rfl
  | none =>
    obtain ⟨junk, hj⟩ := c2 hi
    rw [hj]; rfl

theorem next_done (sets : List (List α)) : next (at_ sets none) = .ok (none, at_ sets none) := rfl

/-- from an index vector `p` with `j + 1` combinations left, fuel `j + 2` yields exactly the
combinations of value `val p, …, val p + j`, mapped through `f` -/
theorem collectMap_at (sets : List (List α)) (hne : sets ≠ []) (f : List α → Outcome β)
    (g : List α → β)
    (hf : ∀ c, inRange (sizesOf sets) c = true → f (pick sets c) = .ok (g (pick sets c))) :
    ∀ (j : Nat) (p : List Nat), inRange (sizesOf sets) p = true →
      val (sizesOf sets) p + j + 1 = prod (sizesOf sets) →
      collectMap f (j + 2) (at_ sets (some p))
        = .ok ((List.range' (val (sizesOf sets) p) (j + 1)).map
            (fun k => g (pick sets (digits (sizesOf sets) k)))) := by
  intro j
  induction j with
  | zero =>
    intro p hr hv
    have hnone : incr p (finals (sizesOf sets)) = none := by
      cases hi : incr p (finals (sizesOf sets)) with
      | none => rfl
      | some p' =>
        obtain ⟨h1, h2⟩ := incr_some _ p p' hr hi
        have := val_lt _ p' h1
        omega
    simp only [collectMap, next_at sets hne p hr, hf p hr, hnone, next_done]
    simp [List.range', digits_val _ p hr]
  | succ j ih =>
    intro p hr hv
    cases hi : incr p (finals (sizesOf sets)) with
    | none => have := incr_none _ p hr hi; omega
    | some p' =>
      obtain ⟨h1, h2⟩ := incr_some _ p p' hr hi
      have ih' := ih p' h1 (by omega)
      rw [collectMap, next_at sets hne p hr, hi]
      simp only [hf p hr, ih']
      have e : List.range' (val (sizesOf sets) p) (j + 1 + 1)
          = val (sizesOf sets) p :: List.range' (val (sizesOf sets) p + 1) (j + 1) := List.range'_succ
      rw [e, h2]
      simp [digits_val _ p hr]

theorem inRange_zeros : ∀ (ns : List Nat), (∀ n ∈ ns, 0 < n) →
    inRange ns (List.replicate ns.length 0) = true
  | [], _ => by simp [inRange]
  | n :: ns, h => by
    simp only [List.length_cons, List.replicate_succ, inRange_cons_cons]
    exact ⟨h n (by simp), inRange_zeros ns (fun m hm => h m (by simp [hm]))⟩

theorem val_zeros : ∀ (ns : List Nat), val ns (List.replicate ns.length 0) = 0
  | [] => by simp [val]
  | n :: ns => by simp [List.replicate_succ, val, val_zeros ns]

theorem sizes_pos (sets : List (List α)) (h : ∀ s ∈ sets, s ≠ []) : ∀ n ∈ sizesOf sets, 0 < n := by
  intro n hn
  obtain ⟨s, hs, rfl⟩ := List.mem_map.mp hn
  exact List.length_pos_iff.mpr (h s hs)

/-- **the enumeration**: with at least one set and no empty set, `map f` over the iterator ends
within fuel `Πn + 1`, never panics, and yields the combinations in the order of `combos` -/
theorem collectMap_from (sets : List (List α)) (hne : sets ≠ []) (hpos : ∀ s ∈ sets, s ≠ [])
    (f : List α → Outcome β) (g : List α → β)
    (hf : ∀ c, inRange (sizesOf sets) c = true → f (pick sets c) = .ok (g (pick sets c))) :
    collectMap f (fuelFor (sizesOf sets)) (MultiSet.from sets)
      = .ok ((combos (sizesOf sets)).map (fun c => g (pick sets c))) := by
  have hp := sizes_pos sets hpos
  have hprod := prod_pos _ hp
  have hz := inRange_zeros _ hp
  have hv := val_zeros (sizesOf sets)
  simp only [sizesOf, List.length_map] at hz hv
  obtain ⟨j, hj⟩ : ∃ j, prod (sizesOf sets) = j + 1 := ⟨prod (sizesOf sets) - 1, by omega⟩
  have := collectMap_at sets hne f g hf j _ hz (by rw [hv]; omega)
  rw [from_eq, any_isEmpty_false sets hpos]
  simp only [Bool.false_eq_true, if_false]
  rw [fuelFor, hj, this, hv, combos, hj, List.range_eq_range', List.map_map]
  rfl

theorem collect_from (sets : List (List α)) (hne : sets ≠ []) (hpos : ∀ s ∈ sets, s ≠ []) :
    toList sets = .ok ((combos (sizesOf sets)).map (pick sets)) :=
  collectMap_from sets hne hpos .ok id (fun _ _ => rfl)

/-- more fuel never changes a finished run -/
theorem collectMap_fuel_mono (f : List α → Outcome β) : ∀ (n : Nat) (ms : MultiSet α) (l : List β),
    collectMap f n ms = .ok l → ∀ k, collectMap f (n + k) ms = .ok l
  | 0, _, _, h, _ => by simp [collectMap] at h
  | n + 1, ms, l, h, k => by
    rw [Nat.add_right_comm]
    simp only [collectMap] at h ⊢
    cases hn : next ms with
    | panic s => rw [hn] at h; simp at h
    | diverges => rw [hn] at h; simp at h
    | ok r =>
      obtain ⟨o, ms'⟩ := r
      rw [hn] at h
      cases o with
      | none => simpa using h
      | some x =>
        simp only at h ⊢
        cases hfx : f x with
        | panic s => rw [hfx] at h; simp at h
        | diverges => rw [hfx] at h; simp at h
        | ok y =>
          rw [hfx] at h
          simp only at h ⊢
          cases hc : collectMap f n ms' with
          | panic s => rw [hc] at h; simp at h
          | diverges => rw [hc] at h; simp at h
          | ok ys =>
            rw [hc] at h
            rw [collectMap_fuel_mono f n ms' ys hc k]
            exact h

/-! ### the two boundary cases (repaired) and the enumeration for every input -/

theorem prod_eq_zero_of_mem : ∀ (ns : List Nat), 0 ∈ ns → prod ns = 0
  | n :: ns, h => by
    rcases List.mem_cons.mp h with e | h
    · subst e; simp [prod]
    · simp [prod, prod_eq_zero_of_mem ns h]

/-- no set at all: the single empty combination, then the end -/
theorem collectMap_no_sets (f : List α → Outcome β) (y : β) (hf : f [] = .ok y) (fuel : Nat) :
    collectMap f (fuel + 2) (MultiSet.from ([] : List (List α))) = .ok [y] := by
  have hn : next (MultiSet.from ([] : List (List α)))
      = .ok (some [], at_ ([] : List (List α)) none) := rfl
  rw [collectMap, hn]
  simp only [hf]
  rw [collectMap, next_done]

/-- an empty set: no combination (`pos` is `None` from the start) -/
theorem collectMap_empty_set (f : List α → Outcome β) (sets : List (List α)) (h : [] ∈ sets)
    (fuel : Nat) : collectMap f (fuel + 1) (MultiSet.from sets) = .ok [] := by
  have hany : sets.any List.isEmpty = true := List.any_eq_true.mpr ⟨[], h, rfl⟩
  rw [from_eq, hany]
  simp only [if_true]
  rw [collectMap, next_done]

/-- **the enumeration, every input**: `map f` over the iterator ends within fuel `Πn + 1`, never
panics, and yields the combinations in the order of `combos` — one empty combination for no set,
none when a set is empty -/
theorem collectMap_from_all (sets : List (List α)) (f : List α → Outcome β) (g : List α → β)
    (hf : ∀ c, inRange (sizesOf sets) c = true → f (pick sets c) = .ok (g (pick sets c))) :
    collectMap f (fuelFor (sizesOf sets)) (MultiSet.from sets)
      = .ok ((combos (sizesOf sets)).map (fun c => g (pick sets c))) := by
  by_cases hne : sets = []
  · subst hne
    have h0 := hf [] (by simp [inRange])
    simp only [pick_nil_right] at h0
    have := collectMap_no_sets f (g []) h0 0
    simpa [fuelFor, prod, combos, digits] using this
  · by_cases hem : [] ∈ sets
    · have hz : prod (sizesOf sets) = 0 :=
        prod_eq_zero_of_mem _ (List.mem_map.mpr ⟨[], hem, rfl⟩)
      have := collectMap_empty_set f sets hem 0
      simpa [fuelFor, hz, combos] using this
    · exact collectMap_from sets hne (fun s hs e => hem (e ▸ hs)) f g hf

theorem collect_from_all (sets : List (List α)) :
    toList sets = .ok ((combos (sizesOf sets)).map (pick sets)) :=
  collectMap_from_all sets .ok id (fun _ _ => rfl)

/-- a bounded run (`take(k)`) of a run that ends: the first `k` items, and whether the end was seen -/
theorem takeN_of_collect : ∀ (fuel : Nat) (ms : MultiSet α) (l : List (List α)),
    collect fuel ms = .ok l → ∀ k, takeN k ms = .ok (l.take k, decide (l.length < k))
  | 0, _, _, h, _ => by simp [collect, collectMap] at h
  | fuel + 1, ms, l, h, k => by
    simp only [collect, collectMap] at h
    cases hn : next ms with
    | panic s => rw [hn] at h; simp at h
    | diverges => rw [hn] at h; simp at h
    | ok r =>
      obtain ⟨o, ms'⟩ := r
      rw [hn] at h
      cases o with
      | none =>
        simp only [Outcome.ok.injEq] at h
        subst h
        cases k <;> simp [takeN, hn]
      | some x =>
        simp only at h
        cases hc : collectMap Outcome.ok fuel ms' with
        | panic s => rw [hc] at h; simp at h
        | diverges => rw [hc] at h; simp at h
        | ok ys =>
          rw [hc] at h
          simp only [Outcome.ok.injEq] at h
          subst h
          cases k with
          | zero => simp [takeN]
          | succ k =>
            have ih := takeN_of_collect fuel ms' ys hc k
            simp [takeN, hn, ih]

end iterator

/-! ### the closed form: length, no repetition, completeness, order -/

theorem pos_of_prod_pos : ∀ (ns : List Nat), 0 < prod ns → ∀ n ∈ ns, 0 < n
  | [], _ => by simp
  | n :: ns, h => by
    simp only [prod] at h
    have h1 : 0 < n := Nat.pos_of_mul_pos_right h
    have h2 : 0 < prod ns := Nat.pos_of_mul_pos_left h
    intro m hm
    rcases List.mem_cons.mp hm with rfl | hm
    · exact h1
    · exact pos_of_prod_pos ns h2 m hm

theorem combos_length (ns : List Nat) : (combos ns).length = prod ns := by simp [combos]

theorem combos_getElem? (ns : List Nat) (k : Nat) (h : k < prod ns) :
    (combos ns)[k]? = some (digits ns k) := by
  simp [combos, List.getElem?_range h]

theorem mem_combos (ns c : List Nat) : c ∈ combos ns ↔ inRange ns c = true := by
  constructor
  · intro h
    obtain ⟨k, hk, rfl⟩ := List.mem_map.mp h
    have hk' : k < prod ns := List.mem_range.mp hk
    exact inRange_digits ns k (pos_of_prod_pos ns (by omega))
  · intro h
    exact List.mem_map.mpr ⟨val ns c, List.mem_range.mpr (val_lt ns c h), digits_val ns c h⟩

theorem combos_nodup (ns : List Nat) : (combos ns).Nodup := by
  refine List.Nodup.map_on ?_ List.nodup_range
  intro x hx y hy hxy
  rw [← val_digits ns x (List.mem_range.mp hx), ← val_digits ns y (List.mem_range.mp hy), hxy]

end MultiSet
end Compass
