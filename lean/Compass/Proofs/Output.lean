/-
Helper lemmas for C20 (output formats): closed forms of the `collect::<Result<Vec<_>, _>>()` loops, permutation
invariance, the insertion-ordered JSON object lemmas needed by the uuid plugin, and the plugin pipeline.
-/
import Compass.Model.Output

namespace Compass
namespace Output

/-- the stored geometry of an edge, `[]` when the row is absent (only used under "row present" hypotheses) -/
def geomD (g : Geoms) (e : Nat) : Line := (g e).getD []

/-- every id has a row -/
def allStored (g : Geoms) (ids : List Nat) : Bool := ids.all fun e => (g e).isSome

theorem allStored_cons (g : Geoms) (e : Nat) (r : List Nat) :
    allStored g (e :: r) = ((g e).isSome && allStored g r) := by
  simp [allStored]

/-! ### closed forms -/

/-- the hex text of a byte string -/
def hexText (bytes : List Nat) : String := String.ofList (hexChars bytes)

@[simp] theorem geometryToWkbString_lineString (l : Line) :
    geometryToWkbString (.lineString l) = .ok (hexText (wkbLineString l)) := rfl

@[simp] theorem geometryToWkbString_multiLineString (ls : List Line) :
    geometryToWkbString (.multiLineString ls) = .ok (hexText (wkbMultiLineString ls)) := rfl

theorem lookupAll_eq (g : Geoms) (ids : List Nat) :
    lookupAll g ids = if allStored g ids then .ok (ids.map (geomD g)) else .error .failed := by
  induction ids with
  | nil => simp [lookupAll, allStored]
  | cons e r ih =>
    rw [lookupAll, allStored_cons]
    cases hg : g e with
    | none => simp
    | some l =>
      rw [ih]
      by_cases h : allStored g r = true
      · simp [h, geomD, hg]
      · simp [h]

theorem featuresOf_eq (g : Geoms) (r : List EdgeTraversal) :
    featuresOf g r =
      if allStored g (r.map (·.edge)) then .ok (r.map fun t => createGeojsonFeature t (geomD g t.edge))
      else .error .failed := by
  induction r with
  | nil => simp [featuresOf, allStored]
  | cons t r ih =>
    rw [featuresOf, List.map_cons, allStored_cons]
    cases hg : g t.edge with
    | none => simp
    | some l =>
      rw [ih]
      by_cases h : allStored g (r.map (·.edge)) = true
      · simp [h, geomD, hg]
      · simp [h]

theorem createRouteLinestring_eq (g : Geoms) (r : List EdgeTraversal) :
    createRouteLinestring g r =
      if allStored g (r.map (·.edge)) then .ok (r.flatMap fun t => geomD g t.edge) else .error .failed := by
  rw [createRouteLinestring, lookupAll_eq]
  by_cases h : allStored g (r.map (·.edge)) = true
  · simp [h, concatLinestrings, List.flatMap_def, Function.comp_def]
  · simp [h]

theorem allStored_iff (g : Geoms) (ids : List Nat) :
    allStored g ids = true ↔ ∀ e ∈ ids, ∃ l, g e = some l := by
  simp [allStored, Option.isSome_iff_exists]

theorem allStored_false_of_missing (g : Geoms) (ids : List Nat) (e : Nat) (he : e ∈ ids) (hm : g e = none) :
    allStored g ids = false := by
  cases h : allStored g ids with
  | false => rfl
  | true =>
    obtain ⟨l, hl⟩ := (allStored_iff g ids).1 h e he
    rw [hm] at hl
    cases hl

theorem allStored_perm (g : Geoms) {a b : List Nat} (h : a.Perm b) : allStored g a = allStored g b := by
  unfold allStored
  exact h.all_eq

theorem geomD_of_stored {g : Geoms} {e : Nat} {l : Line} (h : g e = some l) : geomD g e = l := by
  simp [geomD, h]

/-- the branch edge ids in the map's iteration order -/
def treeIds (t : Tree) : List Nat := t.map fun kv => kv.2.et.edge

/-- closed form of `generate_tree_output` -/
theorem generateTreeOutput_eq (g : Geoms) (f : Fmt) (t : Tree) :
    generateTreeOutput g f t =
      match f with
      | .edgeId => .ok (.edgeIds (treeIds t))
      | .json => .ok (.records (t.map (·.2)))
      | .geoJson =>
        if allStored g (treeIds t) then
          .ok (.features (t.map fun kv => createGeojsonFeature kv.2.et (geomD g kv.2.et.edge)))
        else .error .failed
      | .wkt => if allStored g (treeIds t) then .ok (.wkt ((treeIds t).map (geomD g))) else .error .failed
      | .wkb =>
        if allStored g (treeIds t) then
          .ok (.wkb ((treeIds t).map (geomD g)) (hexText (wkbMultiLineString ((treeIds t).map (geomD g)))))
        else .error .failed := by
  have h1 : (t.values.map (·.et)).map (·.edge) = treeIds t := by
    simp [Tree.values, treeIds, List.map_map, Function.comp_def]
  have h2 : t.values.map (·.et.edge) = treeIds t := by
    simp [Tree.values, treeIds, List.map_map, Function.comp_def]
  cases f with
  | edgeId => simp [generateTreeOutput, h2]
  | json => simp [generateTreeOutput, Tree.values]
  | geoJson =>
    simp only [generateTreeOutput, featuresOf_eq, h1]
    by_cases h : allStored g (treeIds t) = true
    · simp [h, Tree.values, List.map_map, Function.comp_def]
    · simp [h]
  | wkt =>
    simp only [generateTreeOutput, createTreeMultilinestring, lookupAll_eq, h2]
    by_cases h : allStored g (treeIds t) = true
    · simp [h]
    · simp [h]
  | wkb =>
    simp only [generateTreeOutput, createTreeMultilinestring, lookupAll_eq, h2]
    by_cases h : allStored g (treeIds t) = true
    · simp [h]
    · simp [h]

/-! ### mapExcept -/

theorem mapExcept_ok_length {α β : Type} (f : α → Except Err β) :
    ∀ (l : List α) (bs : List β), mapExcept f l = .ok bs → bs.length = l.length := by
  intro l
  induction l with
  | nil => intro bs h; simp [mapExcept] at h; subst h; rfl
  | cons a r ih =>
    intro bs h
    rw [mapExcept] at h
    cases hf : f a with
    | error x => simp [hf] at h
    | ok b =>
      cases hr : mapExcept f r with
      | error x => simp [hf, hr] at h
      | ok bs' =>
        simp [hf, hr] at h
        subst h
        simp [ih bs' hr]

theorem mapExcept_ok_get {α β : Type} (f : α → Except Err β) :
    ∀ (l : List α) (bs : List β), mapExcept f l = .ok bs →
      ∀ (i : Nat) (hl : i < l.length) (hb : i < bs.length), f l[i] = .ok bs[i] := by
  intro l
  induction l with
  | nil => intro bs _ i hl; simp at hl
  | cons a r ih =>
    intro bs h i hl hb
    rw [mapExcept] at h
    cases hf : f a with
    | error x => simp [hf] at h
    | ok b =>
      cases hr : mapExcept f r with
      | error x => simp [hf, hr] at h
      | ok bs' =>
        simp [hf, hr] at h
        subst h
        cases i with
        | zero => simpa using hf
        | succ j =>
          simp only [List.getElem_cons_succ]
          exact ih bs' hr j (by simpa using hl) (by simpa using hb)

theorem mapExcept_error_of_mem {α β : Type} (f : α → Except Err β) (l : List α) (a : α) (ha : a ∈ l)
    (hf : ∃ x, f a = .error x) : ∃ x, mapExcept f l = .error x := by
  induction l with
  | nil => simp at ha
  | cons b r ih =>
    rw [mapExcept]
    cases hb : f b with
    | error x => exact ⟨x, rfl⟩
    | ok c =>
      rcases List.mem_cons.1 ha with h | h
      · subst h; obtain ⟨x, hx⟩ := hf; rw [hb] at hx; cases hx
      · obtain ⟨x, hx⟩ := ih h
        exact ⟨x, by simp [hx]⟩

/-! ### JSON object lemmas (`IndexMap` insert) -/

theorem lookup_cons (a : String) (b : Json) (kvs : List (String × Json)) (k : String) :
    Json.lookup ((a, b) :: kvs) k = if a = k then some b else Json.lookup kvs k := by
  unfold Json.lookup
  by_cases h : a = k
  · simp [h]
  · simp [h]

theorem lookup_append_single_of_none (kvs : List (String × Json)) (k k' : String) (v : Json)
    (h : kvs.any (fun p => p.1 == k) = false) :
    Json.lookup (kvs ++ [(k, v)]) k' = if k = k' then (if Json.lookup kvs k' = none then some v else Json.lookup kvs k') else Json.lookup kvs k' := by
  induction kvs with
  | nil =>
    by_cases hk : k = k' <;> simp [Json.lookup, hk]
  | cons p r ih =>
    obtain ⟨a, b⟩ := p
    have hr : r.any (fun p => p.1 == k) = false := by
      simp only [List.any_cons, Bool.or_eq_false_iff] at h
      exact h.2
    have ha : a ≠ k := by
      simp only [List.any_cons, Bool.or_eq_false_iff] at h
      simpa using h.1
    rw [List.cons_append, lookup_cons, lookup_cons, ih hr]
    by_cases h1 : a = k'
    · simp [h1]
    · simp [h1]

theorem lookup_none_of_any_false (kvs : List (String × Json)) (k : String)
    (h : kvs.any (fun p => p.1 == k) = false) : Json.lookup kvs k = none := by
  induction kvs with
  | nil => simp [Json.lookup]
  | cons p r ih =>
    obtain ⟨a, b⟩ := p
    simp only [List.any_cons, Bool.or_eq_false_iff] at h
    rw [lookup_cons]
    have : a ≠ k := by simpa using h.1
    simp [this, ih h.2]

theorem lookup_insertKv_same (kvs : List (String × Json)) (k : String) (v : Json) :
    Json.lookup (Json.insertKv kvs k v) k = some v := by
  unfold Json.insertKv
  by_cases h : kvs.any (fun p => p.1 == k) = true
  · rw [if_pos h]
    induction kvs with
    | nil => simp at h
    | cons p r ih =>
      obtain ⟨a, b⟩ := p
      by_cases ha : a = k
      · simp [List.map_cons, ha, lookup_cons]
      · have hr : r.any (fun p => p.1 == k) = true := by
          simp only [List.any_cons, Bool.or_eq_true] at h
          rcases h with h | h
          · exact absurd (by simpa using h) ha
          · exact h
        simp only [List.map_cons]
        have : ((a, b).1 == k) = false := by simpa using ha
        rw [this]
        simp only [Bool.false_eq_true, if_false]
        rw [lookup_cons, if_neg ha]
        exact ih hr
  · have h' : kvs.any (fun p => p.1 == k) = false := (Bool.not_eq_true _).mp h
    rw [if_neg h, lookup_append_single_of_none kvs k k v h', lookup_none_of_any_false kvs k h']
    simp

theorem lookup_insertKv_other (kvs : List (String × Json)) (k k' : String) (v : Json) (hk : k' ≠ k) :
    Json.lookup (Json.insertKv kvs k v) k' = Json.lookup kvs k' := by
  unfold Json.insertKv
  by_cases h : kvs.any (fun p => p.1 == k) = true
  · rw [if_pos h]
    clear h
    induction kvs with
    | nil => simp
    | cons p r ih =>
      obtain ⟨a, b⟩ := p
      simp only [List.map_cons]
      by_cases ha : a = k
      · have : ((a, b).1 == k) = true := by simpa using ha
        rw [this]
        simp only [if_true]
        rw [lookup_cons, lookup_cons, ih]
        have h1 : ¬ k = k' := fun e => hk e.symm
        have h2 : ¬ a = k' := fun e => hk (e.symm.trans ha)
        simp [h1, h2]
      · have : ((a, b).1 == k) = false := by simpa using ha
        rw [this]
        simp only [Bool.false_eq_true, if_false]
        rw [lookup_cons, lookup_cons, ih]
  · have h' : kvs.any (fun p => p.1 == k) = false := (Bool.not_eq_true _).mp h
    rw [if_neg h, lookup_append_single_of_none kvs k k' v h']
    have h1 : ¬ k = k' := fun e => hk e.symm
    simp [h1]

/-! ### hex text -/

/-- reading of one upper-case hex digit -/
def unhexDigit (c : Char) : Option Nat :=
  if 48 ≤ c.toNat ∧ c.toNat ≤ 57 then some (c.toNat - 48)
  else if 65 ≤ c.toNat ∧ c.toNat ≤ 70 then some (c.toNat - 55)
  else none

/-- reading of a hex text, two digits per byte -/
def unhexChars : List Char → Option (List Nat)
  | [] => some []
  | [_] => none
  | a :: b :: r =>
    match unhexDigit a, unhexDigit b, unhexChars r with
    | some x, some y, some l => some ((16 * x + y) :: l)
    | _, _, _ => none

theorem unhexDigit_hexUpperDigit : ∀ n, n < 16 → unhexDigit (hexUpperDigit n) = some n := by decide

theorem unhexChars_hexChars (bs : List Nat) (h : ∀ b ∈ bs, b < 256) : unhexChars (hexChars bs) = some bs := by
  induction bs with
  | nil => rfl
  | cons b r ih =>
    have hb : b < 256 := h b List.mem_cons_self
    have hr := ih (fun x hx => h x (List.mem_cons_of_mem _ hx))
    have h1 : b / 16 < 16 := by omega
    have h2 : b % 16 < 16 := by omega
    simp only [hexChars, unhexChars, unhexDigit_hexUpperDigit _ h1, unhexDigit_hexUpperDigit _ h2, hr]
    have : 16 * (b / 16) + b % 16 = b := by omega
    rw [this]

theorem hexChars_length (bs : List Nat) : (hexChars bs).length = 2 * bs.length := by
  induction bs with
  | nil => rfl
  | cons b r ih => simp [hexChars, ih]; omega

theorem leBytes_length (k n : Nat) : (leBytes k n).length = k := by
  induction k generalizing n with
  | zero => rfl
  | succ k ih => simp [leBytes, ih]

theorem leBytes_lt (k n : Nat) : ∀ b ∈ leBytes k n, b < 256 := by
  induction k generalizing n with
  | zero => intro b hb; simp [leBytes] at hb
  | succ k ih =>
    intro b hb
    simp only [leBytes, List.mem_cons] at hb
    rcases hb with rfl | hb
    · omega
    · exact ih _ b hb

theorem wkbPoints_lt (l : Line) : ∀ b ∈ wkbPoints l, b < 256 := by
  intro b hb
  simp only [wkbPoints, List.mem_append, List.mem_flatMap] at hb
  rcases hb with hb | ⟨p, _, hb | hb⟩
  · exact leBytes_lt _ _ b hb
  · exact leBytes_lt _ _ b hb
  · exact leBytes_lt _ _ b hb

theorem wkbLineString_lt (l : Line) : ∀ b ∈ wkbLineString l, b < 256 := by
  intro b hb
  simp only [wkbLineString, List.mem_cons, List.mem_append] at hb
  rcases hb with rfl | hb | hb
  · omega
  · exact leBytes_lt _ _ b hb
  · exact wkbPoints_lt l b hb

theorem wkbMultiLineString_lt (ls : List Line) : ∀ b ∈ wkbMultiLineString ls, b < 256 := by
  intro b hb
  simp only [wkbMultiLineString, List.mem_cons, List.mem_append, List.mem_flatMap] at hb
  rcases hb with rfl | (hb | hb) | ⟨l, _, hb⟩
  · omega
  · exact leBytes_lt _ _ b hb
  · exact leBytes_lt _ _ b hb
  · exact wkbLineString_lt l b hb

theorem wkbPoints_length (l : Line) : (wkbPoints l).length = 4 + 16 * l.length := by
  have : ∀ l : Line, (l.flatMap fun p => leBytes 8 (widenF32 p.x) ++ leBytes 8 (widenF32 p.y)).length = 16 * l.length := by
    intro l
    induction l with
    | nil => rfl
    | cons p r ih => simp [List.flatMap_cons, leBytes_length, ih]; omega
  simp [wkbPoints, leBytes_length, this]

theorem wkbLineString_length (l : Line) : (wkbLineString l).length = 9 + 16 * l.length := by
  simp [wkbLineString, leBytes_length, wkbPoints_length]; omega

/-! ### loaders -/

theorem parseRows_ok_iff (rows : List GeomRow) (ls : List Line) :
    parseRows rows = .ok ls ↔ rows = ls.map some := by
  induction rows generalizing ls with
  | nil =>
    cases ls with
    | nil => simp [parseRows]
    | cons a r => simp [parseRows]
  | cons row r ih =>
    cases row with
    | none =>
      simp only [parseRows]
      constructor
      · intro h; cases h
      · intro h
        cases ls with
        | nil => simp at h
        | cons a t => simp at h
    | some l =>
      simp only [parseRows]
      cases hr : parseRows r with
      | error x =>
        simp only
        constructor
        · intro h; cases h
        · intro h
          cases ls with
          | nil => simp at h
          | cons a t =>
            simp only [List.map_cons, List.cons.injEq] at h
            have := (ih t).2 h.2
            rw [hr] at this
            cases this
      | ok ls' =>
        simp only
        have h1 := (ih ls').1 hr
        constructor
        · intro h
          injection h with h
          subst h
          simp [h1]
        · intro h
          cases ls with
          | nil => simp at h
          | cons a t =>
            simp only [List.map_cons, List.cons.injEq, Option.some.injEq] at h
            obtain ⟨ha, ht⟩ := h
            subst ha
            have h2 := (ih t).2 ht
            rw [hr] at h2
            injection h2 with h2
            rw [h2]

theorem parseRows_error_of_mem (rows : List GeomRow) (h : none ∈ rows) : parseRows rows = .error .io := by
  induction rows with
  | nil => simp at h
  | cons row r ih =>
    cases row with
    | none => simp [parseRows]
    | some l =>
      have hr : none ∈ r := by simpa using h
      simp [parseRows, ih hr]

theorem parseRows_error_kind (rows : List GeomRow) (x : Err) (h : parseRows rows = .error x) : x = .io := by
  induction rows with
  | nil => simp [parseRows] at h
  | cons row r ih =>
    cases row with
    | none => simp only [parseRows] at h; injection h with h; exact h.symm
    | some l =>
      simp only [parseRows] at h
      cases hr : parseRows r with
      | error y => simp only [hr] at h; injection h with h; subst h; exact ih hr
      | ok ls => simp [hr] at h

theorem some_map_inj (a b : List Line) (h : a.map some = b.map some) : a = b := by
  induction a generalizing b with
  | nil => cases b with
    | nil => rfl
    | cons x t => simp at h
  | cons x t ih =>
    cases b with
    | nil => simp at h
    | cons y u =>
      simp only [List.map_cons, List.cons.injEq, Option.some.injEq] at h
      rw [h.1, ih u h.2]

/-! ### `replaceKv` -/

theorem lookup_replaceKv_same (kvs : List (String × Json)) (k : String) (v v0 : Json)
    (h : Json.lookup kvs k = some v0) : Json.lookup (replaceKv kvs k v) k = some v := by
  induction kvs with
  | nil => simp [Json.lookup] at h
  | cons p r ih =>
    obtain ⟨a, b⟩ := p
    rw [lookup_cons] at h
    by_cases ha : a = k
    · simp [replaceKv, ha, lookup_cons]
    · simp only [ha, if_false] at h
      have : ((a, b).1 == k) = false := by simpa using ha
      simp only [replaceKv, List.map_cons, this, Bool.false_eq_true, if_false]
      rw [lookup_cons, if_neg ha]
      exact ih h

theorem lookup_replaceKv_other (kvs : List (String × Json)) (k k' : String) (v : Json) (hk : k' ≠ k) :
    Json.lookup (replaceKv kvs k v) k' = Json.lookup kvs k' := by
  induction kvs with
  | nil => simp [replaceKv]
  | cons p r ih =>
    obtain ⟨a, b⟩ := p
    by_cases ha : a = k
    · have : ((a, b).1 == k) = true := by simpa using ha
      simp only [replaceKv, List.map_cons, this, if_true]
      rw [lookup_cons, lookup_cons]
      have h1 : ¬ k = k' := fun e => hk e.symm
      have h2 : ¬ a = k' := fun e => hk (e.symm.trans ha)
      simp only [h1, h2, if_false]
      exact ih
    · have : ((a, b).1 == k) = false := by simpa using ha
      simp only [replaceKv, List.map_cons, this, Bool.false_eq_true, if_false]
      rw [lookup_cons, lookup_cons]
      have := ih
      simp only [replaceKv] at this
      rw [this]

/-! ### the plugin pipeline -/

theorem traversalProcess_error_indep (cfg : TraversalCfg) (res : SearchResult) (r r' : Resp) (x : Err)
    (h : traversalProcess cfg res r = .error x) : traversalProcess cfg res r' = .error x := by
  unfold traversalProcess at h ⊢
  cases hr : cfg.route with
  | none =>
    simp only [hr] at h ⊢
    cases ht : cfg.tree with
    | none => simp [ht] at h
    | some ft =>
      simp only [ht] at h ⊢
      cases hm : mapExcept (generateTreeOutput cfg.geoms ft) res.trees with
      | error y => simpa [hm] using h
      | ok outs => simp [hm] at h
  | some fr =>
    simp only [hr] at h ⊢
    cases hm : mapExcept (constructRouteOutput res.costSlots cfg.geoms fr) res.routes with
    | error y => simpa [hm] using h
    | ok outs =>
      simp only [hm] at h ⊢
      cases ht : cfg.tree with
      | none => simp [ht] at h
      | some ft =>
        simp only [ht] at h ⊢
        cases hm2 : mapExcept (generateTreeOutput cfg.geoms ft) res.trees with
        | error y => simpa [hm2] using h
        | ok outs2 => simp [hm2] at h

theorem pluginStep_error_indep (req : Json) (res : SearchResult) (p : Plugin) (r r' : Resp) (x : Err)
    (h : pluginStep req res p r = .error x) : pluginStep req res p r' = .error x := by
  cases p with
  | traversal cfg => exact traversalProcess_error_indep cfg res r r' x h
  | summary => simp [pluginStep] at h
  | uuid table =>
    simp only [pluginStep] at h ⊢
    cases hu : uuidLookup table (.obj [("request", req)]) with
    | error y => simpa [hu] using h
    | ok p => obtain ⟨a, b⟩ := p; simp [hu] at h

theorem runPlugins_error_of_mem (req : Json) (res : SearchResult) (p : Plugin) (r0 : Resp)
    (he : ∃ x, pluginStep req res p r0 = .error x) :
    ∀ (ps : List Plugin), p ∈ ps → ∀ r, ∃ x, runPlugins req res ps r = .error x := by
  intro ps
  induction ps with
  | nil => intro hp; simp at hp
  | cons q qs ih =>
    intro hp r
    rw [runPlugins]
    cases hq : pluginStep req res q r with
    | error y => exact ⟨y, rfl⟩
    | ok r1 =>
      rcases List.mem_cons.1 hp with h | h
      · subst h
        obtain ⟨x, hx⟩ := he
        rw [pluginStep_error_indep req res p r0 r x hx] at hq
        cases hq
      · exact ih h r1

theorem traversalProcess_route (cfg : TraversalCfg) (res : SearchResult) (r r' : Resp)
    (h : traversalProcess cfg res r = .ok r') :
    (∀ f, cfg.route = some f → ∃ outs, mapExcept (constructRouteOutput res.costSlots cfg.geoms f) res.routes = .ok outs ∧
        r'.route = some (shape outs)) ∧
    (cfg.route = none → r'.route = r.route) ∧
    (∀ f, cfg.tree = some f → ∃ outs, mapExcept (generateTreeOutput cfg.geoms f) res.trees = .ok outs ∧
        r'.tree = some (shape outs)) ∧
    (cfg.tree = none → r'.tree = r.tree) ∧
    r'.routeEdges = r.routeEdges ∧ r'.treeSizeCount = r.treeSizeCount ∧
    r'.originUuid = r.originUuid ∧ r'.destinationUuid = r.destinationUuid := by
  unfold traversalProcess at h
  cases hr : cfg.route with
  | none =>
    simp only [hr] at h
    cases ht : cfg.tree with
    | none =>
      simp only [ht] at h
      injection h with h; subst h
      simp
    | some ft =>
      simp only [ht] at h
      cases hm : mapExcept (generateTreeOutput cfg.geoms ft) res.trees with
      | error y => simp [hm] at h
      | ok outs =>
        simp only [hm] at h
        injection h with h; subst h
        simp
        exact ⟨outs, hm, rfl⟩
  | some fr =>
    simp only [hr] at h
    cases hm : mapExcept (constructRouteOutput res.costSlots cfg.geoms fr) res.routes with
    | error y => simp [hm] at h
    | ok outs =>
      simp only [hm] at h
      cases ht : cfg.tree with
      | none =>
        simp only [ht] at h
        injection h with h; subst h
        simp
        exact ⟨outs, hm, rfl⟩
      | some ft =>
        simp only [ht] at h
        cases hm2 : mapExcept (generateTreeOutput cfg.geoms ft) res.trees with
        | error y => simp [hm2] at h
        | ok outs2 =>
          simp only [hm2] at h
          injection h with h; subst h
          simp
          exact ⟨⟨outs, hm, rfl⟩, ⟨outs2, hm2, rfl⟩⟩

theorem pluginStep_route_isSome (req : Json) (res : SearchResult) (p : Plugin) (r r' : Resp)
    (h : pluginStep req res p r = .ok r') :
    (r.route.isSome = true → r'.route.isSome = true) ∧ (r.tree.isSome = true → r'.tree.isSome = true) := by
  cases p with
  | traversal cfg =>
    obtain ⟨a, b, c, d, _⟩ := traversalProcess_route cfg res r r' h
    constructor
    · intro hs
      cases hr : cfg.route with
      | none => rw [b hr]; exact hs
      | some f => obtain ⟨outs, _, ho⟩ := a f hr; simp [ho]
    · intro hs
      cases ht : cfg.tree with
      | none => rw [d ht]; exact hs
      | some f => obtain ⟨outs, _, ho⟩ := c f ht; simp [ho]
  | summary =>
    simp only [pluginStep] at h
    injection h with h; subst h
    simp [summaryProcess]
  | uuid table =>
    simp only [pluginStep] at h
    cases hu : uuidLookup table (.obj [("request", req)]) with
    | error y => simp [hu] at h
    | ok p =>
      obtain ⟨a, b⟩ := p
      simp only [hu] at h
      injection h with h; subst h
      simp

theorem runPlugins_route_isSome (req : Json) (res : SearchResult) :
    ∀ (ps : List Plugin) (r r' : Resp), runPlugins req res ps r = .ok r' →
      (r.route.isSome = true → r'.route.isSome = true) ∧ (r.tree.isSome = true → r'.tree.isSome = true) := by
  intro ps
  induction ps with
  | nil => intro r r' h; simp only [runPlugins] at h; injection h with h; subst h; simp
  | cons q qs ih =>
    intro r r' h
    rw [runPlugins] at h
    cases hq : pluginStep req res q r with
    | error y => simp [hq] at h
    | ok r1 =>
      simp only [hq] at h
      obtain ⟨a, b⟩ := pluginStep_route_isSome req res q r r1 hq
      obtain ⟨c, d⟩ := ih r1 r' h
      exact ⟨fun hs => c (a hs), fun hs => d (b hs)⟩

theorem runPlugins_sets_route (req : Json) (res : SearchResult) (cfg : TraversalCfg) :
    ∀ (ps : List Plugin), Plugin.traversal cfg ∈ ps → ∀ (r r' : Resp), runPlugins req res ps r = .ok r' →
      ((cfg.route.isSome = true → r'.route.isSome = true) ∧ (cfg.tree.isSome = true → r'.tree.isSome = true)) := by
  intro ps
  induction ps with
  | nil => intro hp; simp at hp
  | cons q qs ih =>
    intro hp r r' h
    rw [runPlugins] at h
    cases hq : pluginStep req res q r with
    | error y => simp [hq] at h
    | ok r1 =>
      simp only [hq] at h
      rcases List.mem_cons.1 hp with hm | hm
      · subst hm
        obtain ⟨a, _, c, _, _⟩ := traversalProcess_route cfg res r r1 hq
        obtain ⟨k1, k2⟩ := runPlugins_route_isSome req res qs r1 r' h
        constructor
        · intro hs
          obtain ⟨f, hf⟩ := Option.isSome_iff_exists.1 hs
          obtain ⟨outs, _, ho⟩ := a f hf
          exact k1 (by simp [ho])
        · intro hs
          obtain ⟨f, hf⟩ := Option.isSome_iff_exists.1 hs
          obtain ⟨outs, _, ho⟩ := c f hf
          exact k2 (by simp [ho])
      · exact ih hm r1 r' h

/-- invariants of the response are proved plugin by plugin -/
theorem runPlugins_inv (req : Json) (res : SearchResult) (P : Resp → Prop) (all : List Plugin)
    (hstep : ∀ p ∈ all, ∀ r r', P r → pluginStep req res p r = .ok r' → P r') :
    ∀ (ps : List Plugin), (∀ p ∈ ps, p ∈ all) → ∀ r r', P r → runPlugins req res ps r = .ok r' → P r' := by
  intro ps
  induction ps with
  | nil => intro _ r r' hP h; simp only [runPlugins] at h; injection h with h; subst h; exact hP
  | cons q qs ih =>
    intro hsub r r' hP h
    rw [runPlugins] at h
    cases hq : pluginStep req res q r with
    | error y => simp [hq] at h
    | ok r1 =>
      simp only [hq] at h
      exact ih (fun p hp => hsub p (List.mem_cons_of_mem _ hp)) r1 r'
        (hstep q (hsub q List.mem_cons_self) r r1 hP hq) h

theorem pluginStep_summary (req : Json) (res : SearchResult) (r r' : Resp)
    (h : pluginStep req res .summary r = .ok r') : r' = summaryProcess res r := by
  simp only [pluginStep] at h
  injection h with h
  exact h.symm

theorem pluginStep_uuid (req : Json) (res : SearchResult) (table : Uuids) (r r' : Resp)
    (h : pluginStep req res (.uuid table) r = .ok r') :
    ∃ ou du, uuidLookup table (.obj [("request", req)]) = .ok (ou, du) ∧
      r' = { r with originUuid := some ou, destinationUuid := some du } := by
  simp only [pluginStep] at h
  cases hu : uuidLookup table (.obj [("request", req)]) with
  | error y => simp [hu] at h
  | ok p =>
    obtain ⟨a, b⟩ := p
    simp only [hu] at h
    injection h with h
    exact ⟨a, b, rfl, h.symm⟩

theorem uuidLookup_ok (u : Uuids) (out : Json) (ou du : String) (h : uuidLookup u out = .ok (ou, du)) :
    ∃ o d, getOdVertexIds out = .ok (o, d) ∧ u o = some ou ∧ u d = some du := by
  unfold uuidLookup at h
  cases hg : getOdVertexIds out with
  | error x => simp [hg] at h
  | ok p =>
    obtain ⟨o, d⟩ := p
    simp only [hg] at h
    cases ho : u o with
    | none => simp [ho] at h
    | some a =>
      simp only [ho] at h
      cases hd : u d with
      | none => simp [hd] at h
      | some b =>
        simp only [hd] at h
        injection h with h
        injection h with h1 h2
        subst h1; subst h2
        exact ⟨o, d, rfl, ho, hd⟩

end Output
end Compass
