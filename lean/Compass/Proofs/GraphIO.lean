/-
Lemmas about the `Vertex` visitor model (`Compass.Model.GraphIO`): with exactly one `vertex_id`, `x`
and `y` entry, each parseable, the visitor returns the listed vertex whatever the order of the entries
and whatever other entries stand between them.
-/
import Mathlib.Data.List.Basic
import Compass.Model.GraphIO

namespace Compass

section
variable {α : Type}

/-- the state of one of the three values while the visitor walks the entries `es`: either it has been
stored already and no further entry carries its key, or it has not and exactly one entry does, with a
cell that parses to `v` -/
def Slot {β : Type} (es : List (String × Cell α)) (k : String) (cur : Option β)
    (parse : Cell α → Option β) (v : β) : Prop :=
  (cur = some v ∧ ∀ e ∈ es, e.1 ≠ k) ∨
  (cur = none ∧ ∃ a c b, es = a ++ (k, c) :: b ∧ parse c = some v ∧ (∀ e ∈ a, e.1 ≠ k) ∧ ∀ e ∈ b, e.1 ≠ k)

theorem Slot.nil {β : Type} {k : String} {cur : Option β} {parse : Cell α → Option β} {v : β}
    (h : Slot ([] : List (String × Cell α)) k cur parse v) : cur = some v := by
  rcases h with h | ⟨_, a, c, b, he, _⟩
  · exact h.1
  · exact absurd he (by simp)

theorem Slot.head_eq {β : Type} {k : String} {c : Cell α} {r : List (String × Cell α)} {cur : Option β}
    {parse : Cell α → Option β} {v : β} (h : Slot ((k, c) :: r) k cur parse v) :
    cur = none ∧ parse c = some v ∧ ∀ e ∈ r, e.1 ≠ k := by
  rcases h with h | ⟨hc, a, c', b, he, hp, ha, hb⟩
  · exact absurd rfl (h.2 (k, c) (by simp))
  · cases a with
    | nil =>
      simp only [List.nil_append, List.cons.injEq, Prod.mk.injEq, true_and] at he
      obtain ⟨rfl, rfl⟩ := he
      exact ⟨hc, hp, hb⟩
    | cons e0 a' =>
      simp only [List.cons_append, List.cons.injEq] at he
      exact absurd (by rw [← he.1]) (ha e0 (by simp))

theorem Slot.head_ne {β : Type} {k k' : String} {c : Cell α} {r : List (String × Cell α)} {cur : Option β}
    {parse : Cell α → Option β} {v : β} (hne : k' ≠ k) (h : Slot ((k', c) :: r) k cur parse v) :
    Slot r k cur parse v := by
  rcases h with h | ⟨hc, a, c', b, he, hp, ha, hb⟩
  · exact Or.inl ⟨h.1, fun e he => h.2 e (by simp [he])⟩
  · cases a with
    | nil =>
      simp only [List.nil_append, List.cons.injEq, Prod.mk.injEq] at he
      exact absurd he.1.1 hne
    | cons e0 a' =>
      simp only [List.cons_append, List.cons.injEq] at he
      exact Or.inr ⟨hc, a', c', b, he.2, hp, fun e hm => ha e (by simp [hm]), hb⟩

/-- a slot whose value has just been stored -/
theorem Slot.filled {β : Type} {k : String} {r : List (String × Cell α)} {parse : Cell α → Option β} {v : β}
    (h : ∀ e ∈ r, e.1 ≠ k) : Slot r k (some v) parse v := Or.inl ⟨rfl, h⟩

theorem Slot.eq_of_isSome {β : Type} {es : List (String × Cell α)} {k : String} {cur : Option β}
    {parse : Cell α → Option β} {v : β} (h : Slot es k cur parse v) (hs : cur.isSome) : cur = some v := by
  rcases h with h | h
  · exact h.1
  · rw [h.1] at hs; exact absurd hs (by simp)

theorem VisitState.complete?_eq_none {st : VisitState α}
    (h : ¬ (st.id.isSome ∧ st.x.isSome ∧ st.y.isSome)) : st.complete? = none := by
  unfold VisitState.complete?
  cases hi : st.id <;> cases hx : st.x <;> cases hy : st.y <;> simp_all

theorem VisitState.complete?_eq_some {st : VisitState α} {i : Nat} {x y : α}
    (hi : st.id = some i) (hx : st.x = some x) (hy : st.y = some y) :
    st.complete? = some { vertexId := i, x := x, y := y } := by
  unfold VisitState.complete?
  rw [hi, hx, hy]

/-- storing an entry touches only the value its key names -/
theorem visitStore_ok_fields {st st' : VisitState α} {k : String} {c : Cell α}
    (h : visitStore st k c = .ok st') :
    (k ≠ "vertex_id" → st'.id = st.id) ∧ (k ≠ "x" → st'.x = st.x) ∧ (k ≠ "y" → st'.y = st.y) := by
  have n1 : ("x" : String) ≠ "vertex_id" := by decide
  have n2 : ("y" : String) ≠ "vertex_id" := by decide
  have n3 : ("y" : String) ≠ "x" := by decide
  unfold visitStore at h
  by_cases h1 : k = "vertex_id"
  · subst h1
    simp only [if_true] at h
    cases hc : c.asUsize with
    | none => simp [hc] at h
    | some i => simp only [hc, Except.ok.injEq] at h; subst h; exact ⟨fun a => absurd rfl a, fun _ => rfl, fun _ => rfl⟩
  · by_cases h2 : k = "x"
    · subst h2
      simp only [n1, if_false, if_true] at h
      cases hc : c.asF32 with
      | none => simp [hc] at h
      | some v => simp only [hc, Except.ok.injEq] at h; subst h; exact ⟨fun _ => rfl, fun a => absurd rfl a, fun _ => rfl⟩
    · by_cases h3 : k = "y"
      · subst h3
        simp only [n2, n3, if_false, if_true] at h
        cases hc : c.asF32 with
        | none => simp [hc] at h
        | some v => simp only [hc, Except.ok.injEq] at h; subst h; exact ⟨fun _ => rfl, fun _ => rfl, fun a => absurd rfl a⟩
      · simp only [h1, h2, h3, if_false, Except.ok.injEq] at h
        subst h
        exact ⟨fun _ => rfl, fun _ => rfl, fun _ => rfl⟩

/-- the visitor loop, from any state that is not yet complete -/
theorem visitEntries_slots (es : List (String × Cell α)) (st : VisitState α) (i : Nat) (x y : α)
    (hi : Slot es "vertex_id" st.id Cell.asUsize i) (hx : Slot es "x" st.x Cell.asF32 x)
    (hy : Slot es "y" st.y Cell.asF32 y)
    (hinc : ¬ (st.id.isSome ∧ st.x.isSome ∧ st.y.isSome)) :
    ∃ rest, visitEntries (es.map some) st = .ok ({ vertexId := i, x := x, y := y }, rest) := by
  induction es generalizing st with
  | nil =>
    exact absurd ⟨by rw [hi.nil]; rfl, by rw [hx.nil]; rfl, by rw [hy.nil]; rfl⟩ hinc
  | cons e r ih =>
    obtain ⟨k, c⟩ := e
    have n1 : ("x" : String) ≠ "vertex_id" := by decide
    have n2 : ("y" : String) ≠ "vertex_id" := by decide
    have n3 : ("y" : String) ≠ "x" := by decide
    simp only [List.map_cons, visitEntries]
    -- the step, for whichever state `st'` the entry leads to
    have step : ∀ st' : VisitState α, Slot r "vertex_id" st'.id Cell.asUsize i → Slot r "x" st'.x Cell.asF32 x →
        Slot r "y" st'.y Cell.asF32 y →
        ∃ rest, (match st'.complete? with
          | some v => Except.ok (v, r.map some)
          | none => visitEntries (r.map some) st') = .ok ({ vertexId := i, x := x, y := y }, rest) := by
      intro st' si sx sy
      by_cases hc : st'.id.isSome ∧ st'.x.isSome ∧ st'.y.isSome
      · rw [VisitState.complete?_eq_some (si.eq_of_isSome hc.1) (sx.eq_of_isSome hc.2.1) (sy.eq_of_isSome hc.2.2)]
        exact ⟨_, rfl⟩
      · rw [VisitState.complete?_eq_none hc]
        exact ih st' si sx sy hc
    by_cases k1 : k = "vertex_id"
    · subst k1
      obtain ⟨_, hp, hr⟩ := hi.head_eq
      simp only [visitStore, if_true, hp]
      exact step { st with id := some i } (Slot.filled hr) (hx.head_ne n1.symm) (hy.head_ne n2.symm)
    · by_cases k2 : k = "x"
      · subst k2
        obtain ⟨_, hp, hr⟩ := hx.head_eq
        simp only [visitStore, n1, if_false, if_true, hp]
        exact step { st with x := some x } (hi.head_ne n1) (Slot.filled hr) (hy.head_ne n3.symm)
      · by_cases k3 : k = "y"
        · subst k3
          obtain ⟨_, hp, hr⟩ := hy.head_eq
          simp only [visitStore, n2, n3, if_false, if_true, hp]
          exact step { st with y := some y } (hi.head_ne n2) (hx.head_ne n3) (Slot.filled hr)
        · -- a bystander column: the state is unchanged
          simp only [visitStore, k1, k2, k3, if_false]
          exact step st (hi.head_ne k1) (hx.head_ne k2) (hy.head_ne k3)

end

end Compass
