/-
Lemmas about `Model/Build.lean`: the row-by-row loaders, the maximum of the speed table, the unit
name tables, the termination builder.
-/
import Compass.Proofs.Num
import Compass.Model.Build
import Compass.Proofs.SearchLimits
import Mathlib.Data.List.Forall2
import Mathlib.Tactic.Cases
import Mathlib.Tactic.Push

set_option linter.unusedSectionVars false

namespace Compass
namespace Build

/-! ### `allSome` -/

theorem allSome_iff {β γ : Type} (f : β → Option γ) :
    ∀ (xs : List β) (ys : List γ), allSome f xs = some ys ↔ List.Forall₂ (fun x y => f x = some y) xs ys
  | [], ys => by
    cases ys <;> simp [allSome]
  | x :: xs, ys => by
    cases ys with
    | nil =>
      simp only [allSome]
      constructor
      · intro h; split at h <;> simp at h
      · intro h; cases h
    | cons y ys =>
      simp only [allSome, List.forall₂_cons]
      rw [← allSome_iff f xs ys]
      cases hf : f x <;> cases ha : allSome f xs <;> simp

theorem allSome_length {β γ : Type} {f : β → Option γ} {xs : List β} {ys : List γ}
    (h : allSome f xs = some ys) : ys.length = xs.length :=
  ((allSome_iff f xs ys).1 h).length_eq.symm

/-- entry `i` of the result is the image of entry `i` of the input -/
theorem allSome_getElem? {β γ : Type} {f : β → Option γ} {xs : List β} {ys : List γ}
    (h : allSome f xs = some ys) (i : Nat) :
    (∀ x, xs[i]? = some x → ∃ y, f x = some y ∧ ys[i]? = some y) ∧
    (∀ y, ys[i]? = some y → ∃ x, xs[i]? = some x ∧ f x = some y) := by
  have h2 := (allSome_iff f xs ys).1 h
  induction h2 generalizing i with
  | nil => simp
  | @cons x y xs' ys' hxy _ ih =>
    have ih' := ih ((allSome_iff f xs' ys').2 ‹_›)
    cases i with
    | zero => simp [hxy]
    | succ k => simpa using ih' k

theorem allSome_none_iff {β γ : Type} (f : β → Option γ) (xs : List β) :
    allSome f xs = none ↔ ∃ x ∈ xs, f x = none := by
  induction xs with
  | nil => simp [allSome]
  | cons x xs ih =>
    simp only [allSome, List.mem_cons, exists_eq_or_imp]
    cases hf : f x <;> cases ha : allSome f xs <;> simp_all

/-! ### the maximum of the speed table -/

section
variable {α : Type} [Field α] [LinearOrder α] [IsStrictOrderedRing α] [Lit α] [LawfulLit α]

theorem foldl_max_spec (table : List α) : ∀ (a : α) (n : Nat),
    let r := table.foldl (fun (acc : α × Nat) row => (if row < acc.1 then acc.1 else row, acc.2 + 1)) (a, n)
    a ≤ r.1 ∧ (∀ s ∈ table, s ≤ r.1) ∧ (r.1 = a ∨ r.1 ∈ table) ∧ r.2 = n + table.length := by
  induction table with
  | nil => intro a n; simp
  | cons x xs ih =>
    intro a n
    simp only [List.foldl_cons]
    obtain ⟨h1, h2, h3, h4⟩ := ih (if x < a then a else x) (n + 1)
    have hle : a ≤ (if x < a then a else x) ∧ x ≤ (if x < a then a else x) := by
      split
      · exact ⟨le_refl _, le_of_lt ‹_›⟩
      · exact ⟨not_lt.mp ‹_›, le_refl _⟩
    refine ⟨le_trans hle.1 h1, ?_, ?_, ?_⟩
    · intro s hs
      rcases List.mem_cons.mp hs with rfl | hs
      · exact le_trans hle.2 h1
      · exact h2 s hs
    · rcases h3 with h3 | h3
      · rw [h3]
        split
        · left; rfl
        · right; exact List.mem_cons_self ..
      · right; exact List.mem_cons_of_mem _ h3
    · rw [h4]; simp; omega

theorem maxFold_spec (table : List α) :
    0 ≤ (maxFold table).1 ∧ (∀ s ∈ table, s ≤ (maxFold table).1) ∧
      ((maxFold table).1 = 0 ∨ (maxFold table).1 ∈ table) ∧ (maxFold table).2 = table.length := by
  obtain ⟨h1, h2, h3, h4⟩ := foldl_max_spec table (zero : α) 0
  refine ⟨le_trans (le_of_eq zero_eq.symm) h1, h2, h3.imp (fun h => h.trans zero_eq) id, ?_⟩
  have : (maxFold table).2 = 0 + table.length := h4
  omega

/-- `get_max_speed` answers with `m` exactly when `m` is a positive entry of the table that no
entry exceeds -/
theorem getMaxSpeed_ok_iff (table : List α) (m : α) :
    getMaxSpeed table = .ok m ↔ (m ∈ table ∧ 0 < m ∧ ∀ s ∈ table, s ≤ m) := by
  obtain ⟨h1, h2, h3, h4⟩ := maxFold_spec table
  unfold getMaxSpeed
  generalize maxFold table = r at *
  simp only [beq_iff_eq, zero_eq]
  constructor
  · intro h
    split at h
    · cases h
    · split at h
      · cases h
      · injection h with h
        subst h
        rename_i hz
        exact ⟨h3.resolve_left hz, lt_of_le_of_ne h1 (Ne.symm hz), h2⟩
  · rintro ⟨hm, hpos, hall⟩
    have hlen : 0 < table.length := List.length_pos_of_ne_nil (List.ne_nil_of_mem hm)
    rw [if_neg (by omega)]
    have hge := h2 m hm
    have hr : r.1 = m := by
      rcases h3 with h3 | h3
      · rw [h3] at hge; exact absurd (lt_of_lt_of_le hpos hge) (lt_irrefl _)
      · exact le_antisymm (hall _ h3) hge
    rw [if_neg (by rw [hr]; exact ne_of_gt hpos), hr]

theorem getMaxSpeed_empty_iff (table : List α) : getMaxSpeed table = .error .empty ↔ table = [] := by
  obtain ⟨_, _, _, h4⟩ := maxFold_spec table
  unfold getMaxSpeed
  generalize maxFold table = r at *
  simp only [beq_iff_eq]
  constructor
  · intro h
    split at h
    · exact List.eq_nil_of_length_eq_zero (by omega)
    · split at h <;> cases h
  · rintro rfl; simp at h4; simp [h4]

theorem getMaxSpeed_zero_iff (table : List α) :
    getMaxSpeed table = .error .zero ↔ (table ≠ [] ∧ ∀ s ∈ table, s ≤ 0) := by
  obtain ⟨h1, h2, h3, h4⟩ := maxFold_spec table
  unfold getMaxSpeed
  generalize maxFold table = r at *
  simp only [beq_iff_eq, zero_eq]
  constructor
  · intro h
    split at h
    · cases h
    · rename_i hc
      split at h
      · rename_i hz
        refine ⟨?_, fun s hs => hz ▸ h2 s hs⟩
        rintro rfl; simp at h4; exact hc h4
      · cases h
  · rintro ⟨hne, hall⟩
    have hlen : 0 < table.length := List.length_pos_of_ne_nil hne
    rw [if_neg (by omega)]
    have : r.1 = 0 := by
      rcases h3 with h3 | h3
      · exact h3
      · exact le_antisymm (hall _ h3) h1
    rw [if_pos this]

/-- `Speed::from_str` accepts exactly the numbers that are not negative -/
theorem parseSpeed_iff (r : NumRow α) (x : α) : parseSpeed r = some x ↔ (r = .val x ∧ 0 ≤ x) := by
  cases r with
  | val y =>
    simp only [parseSpeed, zero_eq]
    constructor
    · intro h
      split at h
      · cases h
      · injection h with h; subst h; exact ⟨rfl, not_lt.mp ‹_›⟩
    · rintro ⟨h, hx⟩
      injection h with h; subst h
      rw [if_neg (not_lt.mpr hx)]
  | nan => simp [parseSpeed]
  | junk => simp [parseSpeed]

end

section
variable {α : Type} [Field α] [LinearOrder α] [IsStrictOrderedRing α] [Lit α] [LawfulLit α]

/-- what `SpeedTraversalEngine::new` returns, field by field -/
theorem speedEngineNew_ok_iff (file : Option (List (NumRow α))) (su : SpeedUnit)
    (duOpt : Option DistanceUnit) (tuOpt : Option TimeUnit) (e : SpeedEngine α) :
    speedEngineNew file su duOpt tuOpt = .ok e ↔
      ∃ rows, file = some rows ∧ allSome parseSpeed rows = some e.table ∧
        getMaxSpeed e.table = .ok e.maxSpeed ∧ e.speedUnit = su ∧
        e.timeUnit = tuOpt.getD baseTimeUnit ∧ e.distanceUnit = duOpt.getD baseDistanceUnit := by
  cases file with
  | none => simp [speedEngineNew]
  | some rows =>
    simp only [speedEngineNew, Option.some.injEq, exists_eq_left']
    cases hp : allSome parseSpeed rows with
    | none => simp
    | some table =>
      simp only [Option.some.injEq]
      cases hm : getMaxSpeed table with
      | error k =>
        simp only [reduceCtorEq, false_iff, not_and]
        rintro rfl h2
        rw [hm] at h2; cases h2
      | ok mx =>
        constructor
        · intro h
          injection h with h
          subst h
          refine ⟨rfl, hm, rfl, ?_, ?_⟩
          · cases tuOpt <;> rfl
          · cases duOpt <;> rfl
        · rintro ⟨ht, hmx, h1, h2, h3⟩
          subst ht
          rw [hm] at hmx
          injection hmx with hmx
          cases e
          simp only at h1 h2 h3 hmx ⊢
          subst h1 h2 h3 hmx
          congr 2
          · cases tuOpt <;> rfl
          · cases duOpt <;> rfl

theorem getMaxSpeed_error_kind {table : List α} {k : BErr} (h : getMaxSpeed table = .error k) :
    k = .empty ∨ k = .zero := by
  unfold getMaxSpeed at h
  generalize maxFold table = r at h
  dsimp only at h
  split at h
  · injection h with h; exact Or.inl h.symm
  · split at h
    · injection h with h; exact Or.inr h.symm
    · cases h

theorem speedEngineNew_some (rows : List (NumRow α)) (su : SpeedUnit)
    (duOpt : Option DistanceUnit) (tuOpt : Option TimeUnit) :
    speedEngineNew (some rows) su duOpt tuOpt =
      match allSome parseSpeed rows with
      | none => .error .read
      | some table =>
        match getMaxSpeed table with
        | .error e => .error e
        | .ok mx => .ok { table := table, speedUnit := su, timeUnit := tuOpt.getD baseTimeUnit,
                          distanceUnit := duOpt.getD baseDistanceUnit, maxSpeed := mx } := by
  unfold speedEngineNew
  cases tuOpt <;> cases duOpt <;> rfl

/-- the errors of `SpeedTraversalEngine::new`: an unreadable file or a row that is not a non-negative
number (`read`); no rows (`empty`); no positive row (`zero`).  With `speedEngineNew_ok_iff` every
input is classified. -/
theorem speedEngineNew_errors (su : SpeedUnit) (duOpt : Option DistanceUnit) (tuOpt : Option TimeUnit) :
    (speedEngineNew (α := α) none su duOpt tuOpt = .error .read) ∧
    (∀ rows : List (NumRow α), (∃ r ∈ rows, parseSpeed r = none) →
      speedEngineNew (some rows) su duOpt tuOpt = .error .read) ∧
    (speedEngineNew (α := α) (some []) su duOpt tuOpt = .error .empty) ∧
    (∀ (rows : List (NumRow α)) (table : List α), allSome parseSpeed rows = some table → table ≠ [] →
      (∀ s ∈ table, s ≤ 0) → speedEngineNew (some rows) su duOpt tuOpt = .error .zero) := by
  refine ⟨rfl, ?_, ?_, ?_⟩
  · intro rows h
    rw [speedEngineNew_some, (allSome_none_iff parseSpeed rows).2 h]
  · rw [speedEngineNew_some]
    simp only [allSome]
    rw [(getMaxSpeed_empty_iff ([] : List α)).2 rfl]
  · intro rows table hp hne hall
    rw [speedEngineNew_some, hp]
    simp only
    rw [(getMaxSpeed_zero_iff table).2 ⟨hne, hall⟩]

end

/-! ### unit names -/

theorem distanceUnit_ofName_iff (s : String) (u : DistanceUnit) : DistanceUnit.ofName? s = some u ↔ s = u.name := by
  constructor
  · intro h
    have := List.find?_some h
    exact (beq_iff_eq.mp this).symm
  · rintro rfl; cases u <;> decide

theorem weightUnit_ofName_iff (s : String) (u : WeightUnit) : WeightUnit.ofName? s = some u ↔ s = u.name := by
  constructor
  · intro h
    have := List.find?_some h
    exact (beq_iff_eq.mp this).symm
  · rintro rfl; cases u <;> decide

theorem timeUnit_ofName_iff (s : String) (u : TimeUnit) : TimeUnit.ofName? s = some u ↔ s = u.name := by
  constructor
  · intro h
    have := List.find?_some h
    exact (beq_iff_eq.mp this).symm
  · rintro rfl; cases u <;> decide

theorem turn_ofName_iff (s : String) (u : Turn) : Turn.ofName? s = some u ↔ s = u.name := by
  constructor
  · intro h
    have := List.find?_some h
    exact (beq_iff_eq.mp this).symm
  · rintro rfl; cases u <;> decide

/-! ### headings -/

theorem inRange_some_iff (c : IntCell) (lo hi z : Int) :
    c.inRange lo hi = some z ↔ (c = .int z ∧ lo ≤ z ∧ z ≤ hi) := by
  cases c with
  | int y =>
    simp only [IntCell.inRange]
    constructor
    · intro h
      split at h
      · injection h with h; subst h; exact ⟨rfl, ‹_›⟩
      · cases h
    · rintro ⟨h, h2⟩
      injection h with h; subst h
      rw [if_pos h2]
  | empty => simp [IntCell.inRange]
  | junk => simp [IntCell.inRange]

/-- a record gives a heading exactly when its first cell is an `i16` and its second is empty or an `i16` -/
theorem parseHeading_iff (l : HeadLine) (a : Int) (d : Option Int) :
    parseHeading l = some (a, d) ↔
      ∃ dc, l = .row (.int a) dc ∧ (-32768 ≤ a ∧ a ≤ 32767) ∧
        ((dc = .empty ∧ d = none) ∨ ∃ dv, dc = .int dv ∧ (-32768 ≤ dv ∧ dv ≤ 32767) ∧ d = some dv) := by
  cases l with
  | short => simp [parseHeading]
  | row ac dc =>
    simp only [parseHeading, IntCell.i16]
    cases ha : ac.inRange (-32768) 32767 with
    | none =>
      simp only [reduceCtorEq, HeadLine.row.injEq, false_iff, not_exists, not_and]
      rintro x ⟨rfl, rfl⟩ hr
      rw [(inRange_some_iff _ _ _ a).2 ⟨rfl, hr⟩] at ha; cases ha
    | some av =>
      obtain ⟨rfl, hr⟩ := (inRange_some_iff _ _ _ _).1 ha
      cases dc with
      | empty =>
        simp only [Option.some.injEq, Prod.mk.injEq, HeadLine.row.injEq, IntCell.int.injEq]
        constructor
        · rintro ⟨rfl, rfl⟩; exact ⟨.empty, ⟨rfl, rfl⟩, hr, Or.inl ⟨rfl, rfl⟩⟩
        · rintro ⟨dc, ⟨rfl, rfl⟩, _, h | ⟨dv, h, _⟩⟩
          · exact ⟨rfl, h.2.symm⟩
          · cases h
      | junk =>
        simp only [IntCell.inRange, reduceCtorEq, HeadLine.row.injEq, IntCell.int.injEq, false_iff, not_exists, not_and]
        rintro dc ⟨_, rfl⟩ _ (h | ⟨dv, h, _⟩) <;> cases h <;> try cases ‹IntCell.junk = IntCell.empty›
      | int dv =>
        cases hd : (IntCell.int dv).inRange (-32768) 32767 with
        | none =>
          simp only [hd, reduceCtorEq, HeadLine.row.injEq, IntCell.int.injEq, false_iff, not_exists, not_and]
          rintro dc ⟨_, rfl⟩ _ (h | ⟨dv', h, hr', _⟩)
          · cases h.1
          · injection h with h; subst h
            rw [(inRange_some_iff _ _ _ dv).2 ⟨rfl, hr'⟩] at hd; cases hd
        | some dv' =>
          obtain ⟨h1, hr'⟩ := (inRange_some_iff _ _ _ _).1 hd
          injection h1 with h1; subst h1
          simp only [hd, Option.some.injEq, Prod.mk.injEq, HeadLine.row.injEq, IntCell.int.injEq]
          constructor
          · rintro ⟨rfl, rfl⟩; exact ⟨.int dv, ⟨rfl, rfl⟩, hr, Or.inr ⟨dv, rfl, hr', rfl⟩⟩
          · rintro ⟨dc, ⟨rfl, rfl⟩, _, h | ⟨dv', h, _, h3⟩⟩
            · cases h.1
            · injection h with h; subst h; exact ⟨rfl, h3.symm⟩

/-! ### the delay table -/

theorem turn_toNat_inj : ∀ a b : Turn, a.toNat = b.toNat → a = b := by
  intro a b h
  cases a <;> cases b <;> first | rfl | (simp [Turn.toNat] at h)

theorem turn_all_getElem : ∀ t : Turn, Turn.all[t.toNat]? = some t := by
  intro t; cases t <;> rfl

/-- the delay table read from a configuration: one slot per turn class; a delay in the slot of `t`
comes from an entry named `t` of the configuration, and an empty slot means there is no such entry -/
theorem delayTable_spec {α : Type} (dec : Nat → α) (kvs : List (String × Json)) (ds : List (Option α))
    (h : delayTableOfJson dec kvs = some ds) :
    ds.length = Turn.all.length ∧
    ∀ t : Turn,
      (∀ x, ds[t.toNat]? = some (some x) →
        ∃ kv ∈ kvs, kv.1 = t.name ∧ ∃ b, kv.2.asF64Bits? = some b ∧ x = dec b) ∧
      (ds[t.toNat]? = some none → ∀ kv ∈ kvs, kv.1 ≠ t.name) := by
  unfold delayTableOfJson at h
  simp only at h
  split at h
  · cases h
  · rename_i es hes
    injection h with h
    subst h
    refine ⟨by simp, fun t => ?_⟩
    have hfa := (allSome_iff _ kvs es).1 hes
    simp only [List.getElem?_map, turn_all_getElem, Option.map_some, Option.some.injEq]
    constructor
    · intro x hx
      split at hx
      · rename_i p hp
        injection hx with hx
        subst hx
        have hmem := List.mem_of_find?_eq_some hp
        have hpt : p.1 = t := turn_toNat_inj _ _ (by simpa using List.find?_some hp)
        obtain ⟨i, hi, hget⟩ := List.getElem_of_mem hmem
        have := hfa.length_eq
        have hrel := List.forall₂_iff_get.1 hfa
        have hi' : i < kvs.length := by omega
        have hkv := hrel.2 i hi' hi
        simp only [List.get_eq_getElem] at hkv
        rw [hget] at hkv
        refine ⟨kvs[i], List.getElem_mem _, ?_⟩
        split at hkv
        · rename_i t' b ht' hb
          injection hkv with hkv
          have h1 : t' = p.1 := by rw [← hkv]
          have h2 : dec b = p.2 := by rw [← hkv]
          exact ⟨(turn_ofName_iff _ _).1 (by rw [ht', h1, hpt]), b, hb, h2.symm⟩
        · cases hkv
      · cases hx
    · intro hx kv hkv hname
      split at hx
      · cases hx
      · rename_i hnone
        obtain ⟨i, hi, hget⟩ := List.getElem_of_mem hkv
        have hlen := hfa.length_eq
        have hrel := List.forall₂_iff_get.1 hfa
        have hi' : i < es.length := by omega
        have hrow := hrel.2 i hi hi'
        simp only [List.get_eq_getElem] at hrow
        rw [hget] at hrow
        split at hrow
        · rename_i t' b ht' hb
          have : t' = t := by
            have := (turn_ofName_iff _ _).1 ht'
            rw [hname] at this
            cases t <;> cases t' <;> simp_all [Turn.name]
          subst this
          have hmem : es[i] ∈ es := List.getElem_mem _
          have hf := List.find?_eq_none.1 hnone es[i] hmem
          injection hrow with hrow
          rw [← hrow] at hf
          simp at hf
        · cases hrow

/-! ### vehicle parameters -/

/-- `(Distance, DistanceUnit)`: exactly a two-element array of a number and a unit — the unit's name
as a string or as the single key of an object with value `null` (serde's two forms of a unit
variant) —, read as that number in that unit -/
theorem dimOfJson_iff {α : Type} (dec : Nat → α) (j : Option Json) (x : α) (u : DistanceUnit) :
    dimOfJson dec j = some (x, u) ↔
      ∃ l b uj, j = some (.arr [.num l b, uj]) ∧ unitName? false uj = some u.name ∧ x = dec b := by
  unfold dimOfJson
  split
  · rename_i l b uj
    constructor
    · intro h
      unfold unitOfJson at h
      cases hn : unitName? false uj with
      | none => simp [hn] at h
      | some s =>
        simp only [hn] at h
        cases hu : DistanceUnit.ofName? s with
        | none => simp [hu] at h
        | some du =>
          simp only [hu, Option.some.injEq, Prod.mk.injEq] at h
          obtain ⟨rfl, rfl⟩ := h
          have hs := (distanceUnit_ofName_iff _ _).1 hu
          exact ⟨l, b, uj, rfl, by rw [hn, hs], rfl⟩
    · rintro ⟨l', b', uj', hj, hn, rfl⟩
      simp only [Option.some.injEq, Json.arr.injEq, List.cons.injEq, Json.num.injEq, and_true] at hj
      obtain ⟨⟨_, rfl⟩, rfl⟩ := hj
      simp only [unitOfJson, hn, (distanceUnit_ofName_iff _ u).2 rfl]
  · rename_i hne
    simp only [reduceCtorEq, false_iff, not_exists, not_and]
    rintro l b uj rfl
    exact absurd rfl (hne l b uj)

theorem weightOfJson_iff {α : Type} (dec : Nat → α) (j : Option Json) (x : α) (u : WeightUnit) :
    weightOfJson dec j = some (x, u) ↔
      ∃ l b uj, j = some (.arr [.num l b, uj]) ∧ unitName? false uj = some u.name ∧ x = dec b := by
  unfold weightOfJson
  split
  · rename_i l b uj
    constructor
    · intro h
      unfold unitOfJson at h
      cases hn : unitName? false uj with
      | none => simp [hn] at h
      | some s =>
        simp only [hn] at h
        cases hu : WeightUnit.ofName? s with
        | none => simp [hu] at h
        | some du =>
          simp only [hu, Option.some.injEq, Prod.mk.injEq] at h
          obtain ⟨rfl, rfl⟩ := h
          have hs := (weightUnit_ofName_iff _ _).1 hu
          exact ⟨l, b, uj, rfl, by rw [hn, hs], rfl⟩
    · rintro ⟨l', b', uj', hj, hn, rfl⟩
      simp only [Option.some.injEq, Json.arr.injEq, List.cons.injEq, Json.num.injEq, and_true] at hj
      obtain ⟨⟨_, rfl⟩, rfl⟩ := hj
      simp only [unitOfJson, hn, (weightUnit_ofName_iff _ u).2 rfl]
  · rename_i hne
    simp only [reduceCtorEq, false_iff, not_exists, not_and]
    rintro l b uj rfl
    exact absurd rfl (hne l b uj)

/-- `VehicleParameters::from_query` succeeds exactly on a query whose `vehicle_parameters` has all six
fields well-formed, and then returns them as they stand -/
theorem vehicleParams_ok_iff {α : Type} (dec : Nat → α) (q : Json) (p : VParams α) :
    vehicleParamsOfQuery dec q = .ok p ↔
      ∃ vp, q.get? "vehicle_parameters" = some vp ∧
        dimOfJson dec (vp.get? "height") = some p.height ∧
        dimOfJson dec (vp.get? "width") = some p.width ∧
        dimOfJson dec (vp.get? "total_length") = some p.totalLength ∧
        dimOfJson dec (vp.get? "trailer_length") = some p.trailerLength ∧
        weightOfJson dec (vp.get? "total_weight") = some p.totalWeight ∧
        ∃ a, vp.get? "number_of_axles" = some a ∧ u64OfJson a = some p.axles ∧ p.axles ≤ 255 := by
  unfold vehicleParamsOfQuery
  cases hq : q.get? "vehicle_parameters" with
  | none => simp
  | some vp =>
    simp only [Option.some.injEq, exists_eq_left']
    cases h1 : dimOfJson dec (vp.get? "height") with
    | none => simp
    | some h =>
      cases h2 : dimOfJson dec (vp.get? "width") with
      | none => simp
      | some w =>
        cases h3 : dimOfJson dec (vp.get? "total_length") with
        | none => simp
        | some tl =>
          cases h4 : dimOfJson dec (vp.get? "trailer_length") with
          | none => simp
          | some trl =>
            cases h5 : weightOfJson dec (vp.get? "total_weight") with
            | none => simp
            | some tw =>
              cases h6 : vp.get? "number_of_axles" with
              | none => simp
              | some a =>
                cases h7 : u64OfJson a with
                | none => simp [h7]
                | some n =>
                  simp only [h7, Option.some.injEq, exists_eq_left']
                  by_cases hn : n ≤ 255
                  · rw [if_pos hn]
                    constructor
                    · intro hh
                      injection hh with hh
                      subst hh
                      exact ⟨rfl, rfl, rfl, rfl, rfl, rfl, hn⟩
                    · rintro ⟨r1, r2, r3, r4, r5, r6, _⟩
                      cases p
                      simp only at r1 r2 r3 r4 r5 r6
                      subst r1 r2 r3 r4 r5 r6
                      rfl
                  · rw [if_neg hn]
                    simp only [reduceCtorEq, false_iff, not_and]
                    rintro _ _ _ _ _ rfl
                    exact hn

/-! ### the termination builder -/

open SearchLimits

theorem getCount_ok_iff (j : Json) (key : String) (n : Nat) :
    getCount j key = .ok n ↔ ∃ v z, j.get? key = some v ∧ i64OfJson v = some z ∧ 0 ≤ z ∧ n = z.toNat := by
  unfold getCount getI64
  cases hv : j.get? key with
  | none => simp
  | some v =>
    cases hz : i64OfJson v with
    | none => simp [hz]
    | some z =>
      simp only [hz]
      by_cases hneg : z < 0
      · simp only [hneg, ↓reduceIte, reduceCtorEq, false_iff]
        rintro ⟨v', z', h1, h2, h3, _⟩
        injection h1 with h1; subst h1
        rw [hz] at h2; injection h2 with h2; subst h2; omega
      · simp only [hneg, ↓reduceIte, Except.ok.injEq]
        constructor
        · intro h; exact ⟨v, z, rfl, hz, by omega, h.symm⟩
        · rintro ⟨v', z', h1, h2, _, h4⟩
          injection h1 with h1; subst h1
          rw [hz] at h2; injection h2 with h2; subst h2; exact h4.symm

/-- a count that is negative is refused (it is never cast to a number near 2^64) -/
theorem getCount_negative (j : Json) (key : String) (v : Json) (z : Int) (hv : j.get? key = some v)
    (hz : i64OfJson v = some z) (hneg : z < 0) : getCount j key = .error .value := by
  simp [getCount, getI64, hv, hz, hneg]

theorem allOk_mem {β γ : Type} {f : β → Except BErr γ} : ∀ {xs : List β} {ys : List γ},
    allOk f xs = .ok ys → ∀ y ∈ ys, ∃ x ∈ xs, f x = .ok y
  | [], ys, h => by
    simp only [allOk] at h
    injection h with h; subst h
    intro y hy; cases hy
  | x :: xs, ys, h => by
    unfold allOk at h
    split at h
    · cases h
    · rename_i y hy
      split at h
      · cases h
      · rename_i ys' hys'
        injection h with h; subst h
        intro y' hy'
        rcases List.mem_cons.1 hy' with rfl | hy'
        · exact ⟨x, List.mem_cons_self .., hy⟩
        · obtain ⟨x', hx', hf⟩ := allOk_mem hys' y' hy'
          exact ⟨x', List.mem_cons_of_mem _ hx', hf⟩

theorem allOk_error {β γ : Type} {f : β → Except BErr γ} : ∀ {xs : List β} {e : BErr},
    allOk f xs = .error e → ∃ x ∈ xs, f x = .error e
  | [], e, h => by simp [allOk] at h
  | x :: xs, e, h => by
    unfold allOk at h
    split at h
    · rename_i e' he'
      injection h with h; subst h
      exact ⟨x, List.mem_cons_self .., he'⟩
    · split at h
      · rename_i e' he'
        injection h with h; subst h
        obtain ⟨x', hx', hf⟩ := allOk_error he'
        exact ⟨x', List.mem_cons_of_mem _ hx', hf⟩
      · cases h

/-- no model the builder returns has a runtime limit with check frequency 0 -/
theorem termOfJson_no_zeroFreq : ∀ (fuel : Nat) (j : Json) (t : TermM), termOfJson fuel j = .ok t → ¬ ZeroFreq t
  | 0, _, _, h => by simp [termOfJson] at h
  | fuel + 1, j, t, h => by
    unfold termOfJson at h
    split at h
    · cases h
    · rename_i ty _
      simp only at h
      split at h
      · -- query_runtime
        split at h
        · cases h
        · split at h
          · cases h
          · split at h
            · cases h
            · split at h
              · cases h
              · rename_i f hf
                split at h
                · cases h
                · rename_i hf0
                  injection h with h
                  subst h
                  rintro ⟨l, b, p, hl⟩
                  cases hl
                  exact hf0 rfl
      · split at h
        · -- iterations
          split at h
          · cases h
          · injection h with h; subst h
            rintro ⟨l, b, p, hl⟩; cases hl
        · split at h
          · split at h
            · cases h
            · injection h with h; subst h
              rintro ⟨l, b, p, hl⟩; cases hl
          · split at h
            · split at h
              · cases h
              · rename_i ms _
                split at h
                · cases h
                · rename_i ts hts
                  injection h with h; subst h
                  intro hz
                  obtain ⟨m, hm, hzm⟩ := zeroFreq_combined_iff.1 hz
                  obtain ⟨x, _, hx⟩ := allOk_mem hts m hm
                  exact termOfJson_no_zeroFreq fuel x m hx hzm
            · cases h

/-! #### the depth of the configuration is fuel enough -/

theorem jsonDepth_pos (j : Json) : 1 ≤ jsonDepth j := by
  cases j <;> simp [jsonDepth]

theorem depth_mem {xs : List Json} {x : Json} (h : x ∈ xs) : jsonDepth x ≤ jsonDepth.depthList xs := by
  induction xs with
  | nil => cases h
  | cons y ys ih =>
    simp only [jsonDepth.depthList]
    rcases List.mem_cons.1 h with rfl | h
    · exact Nat.le_max_left _ _
    · exact le_trans (ih h) (Nat.le_max_right _ _)

theorem depth_lookup {kvs : List (String × Json)} {k : String} {v : Json} (h : Json.lookup kvs k = some v) :
    jsonDepth v ≤ jsonDepth.depthKvs kvs := by
  induction kvs with
  | nil => simp [Json.lookup] at h
  | cons kv kvs ih =>
    obtain ⟨k', v'⟩ := kv
    simp only [jsonDepth.depthKvs]
    by_cases hk : (k' == k) = true
    · have : Json.lookup ((k', v') :: kvs) k = some v' := by simp [Json.lookup, List.find?_cons, hk]
      rw [this] at h; injection h with h; subst h; exact Nat.le_max_left _ _
    · have : Json.lookup ((k', v') :: kvs) k = Json.lookup kvs k := by simp [Json.lookup, List.find?_cons, hk]
      rw [this] at h; exact le_trans (ih h) (Nat.le_max_right _ _)

theorem getString_ne_fuel (j : Json) (k : String) : getString j k ≠ .error .fuel := by
  unfold getString
  split
  · simp
  · split <;> simp

theorem getCount_ne_fuel (j : Json) (k : String) : getCount j k ≠ .error .fuel := by
  unfold getCount getI64
  split
  · rename_i e he
    split at he
    · injection he with he; subst he; simp
    · split at he
      · cases he
      · injection he with he; subst he; simp
  · split <;> simp

theorem getArray_ok {j : Json} {k : String} {ms : List Json} (h : getArray j k = .ok ms) :
    ∀ m ∈ ms, jsonDepth m + 2 ≤ jsonDepth j := by
  unfold getArray at h
  split at h
  · cases h
  · rename_i v hv
    split at h
    · rename_i xs hxs
      injection h with h; subst h
      intro m hm
      cases j with
      | obj kvs =>
        have h1 := depth_lookup (k := k) (v := v) (by simpa [Json.get?] using hv)
        have hv' : v = .arr xs := by cases v <;> simp_all [Json.asArray?]
        subst hv'
        have h2 := depth_mem hm
        simp only [jsonDepth] at h1 ⊢
        omega
      | _ => simp [Json.get?] at hv
    · cases h

theorem getArray_ne_fuel (j : Json) (k : String) : getArray j k ≠ .error .fuel := by
  unfold getArray
  split
  · simp
  · split <;> simp

theorem termOfJson_fuel : ∀ (fuel : Nat) (j : Json), jsonDepth j ≤ fuel → termOfJson fuel j ≠ .error .fuel
  | 0, j, hd => by have := jsonDepth_pos j; omega
  | fuel + 1, j, hd => by
    intro h
    unfold termOfJson at h
    split at h
    · rename_i e he
      injection h with h; subst h
      exact getString_ne_fuel _ _ he
    · simp only at h
      split at h
      · split at h
        · cases h
        · split at h
          · cases h
          · split at h
            · cases h
            · split at h
              · rename_i e he
                injection h with h; subst h
                exact getCount_ne_fuel _ _ he
              · split at h <;> cases h
      · split at h
        · split at h
          · rename_i e he
            injection h with h; subst h
            exact getCount_ne_fuel _ _ he
          · cases h
        · split at h
          · split at h
            · rename_i e he
              injection h with h; subst h
              exact getCount_ne_fuel _ _ he
            · cases h
          · split at h
            · split at h
              · rename_i e he
                injection h with h; subst h
                exact getArray_ne_fuel _ _ he
              · rename_i ms hms
                split at h
                · rename_i e he
                  injection h with h; subst h
                  obtain ⟨m, hm, hf⟩ := allOk_error he
                  have := getArray_ok hms m hm
                  exact termOfJson_fuel fuel m (by omega) hf
                · cases h
            · cases h

end Build
end Compass
