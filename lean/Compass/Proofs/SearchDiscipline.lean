/-
The Dijkstra discipline of DESIGN.md Appendix A.2, needed for C03 (state and cost accumulation
along a route) and C04 (turn restrictions along a route).

Hypotheses: `SearchTree.WF I` (incident consistency, strictly positive edge cost) and `Heur I
target.isSome H`: the heuristic term added to a label is a vertex function `H` that is consistent
(`H (termV e) ≤ cost + H (keyV e)` along every accepted traversal).  Dijkstra is `ZeroH I`
(`H = 0`, `ZeroH.heur`); the headline theorems are stated for Dijkstra, each with an `_of_heur`
version for a consistent heuristic.  Costs and validity may depend on the state and on the previous
edge (turn delays, turn restrictions): nothing here assumes state independence.

For every source, optional target and schedule, at every loop head of `runLoop`
(`discipline_at_every_head`):

* (M) every closed f-score (label + `H`; closed = labelled, not queued) is at most every queued
  f-score, and a queued f-score is the vertex's label + `H` (`Disc.mono`, `Disc.qg`); the vertex
  being popped carries an f-score at least every closed one (`popped_ge_closed`);
* a closed vertex never passes `tentative < existing` again (`Mid.closed_not_improved`), keeps its
  label and tree entry and is never re-queued (`ClosedKept`), so each vertex is expanded at most
  once (`expanded_nodup`), the source first (`source_first`), and `iterations ≤ nV`
  (`expansions_le_vertices`);
* every tree entry was produced from its parent's *final* entry (`Fresh`, `entry_fresh`), hence
  every link of a returned route was validated and traversed from the state and edge the route
  itself reports for the previous link (`route_links_fresh`); TreeInv's `g u + cost ≤ g v` holds
  with equality (`Disc.label_eq`), so a route's summed cost is the target's label
  (`route_cost_eq_label`).
-/
import Compass.Proofs.Num
import Compass.Proofs.SearchTree
import Compass.Proofs.SearchOpt
import Compass.Proofs.SearchLimits
import Compass.Proofs.Instance
import Compass.Model.Search

namespace Compass
namespace SearchDiscipline

set_option linter.unusedSectionVars false

open SearchTree (WF TreeInv upd_same upd_other RouteChain)
open SearchLimits (Reach popped curOf Final startF)

variable {α : Type} [Field α] [LinearOrder α] [IsStrictOrderedRing α] [Lit α] [LawfulLit α]

/-! ### Definitions -/

/-- Dijkstra: whenever the estimate succeeds it is zero (`weight_factor = Some(Cost::ZERO)`; an
estimate that fails aborts the search, so no state is reached through it) -/
def ZeroH (I : Inst α) : Prop := ∀ v st x, I.h v st = .ok x → x = 0

/-- the heuristic term the loop adds to a tentative label is the vertex function `H` (whenever the
estimate succeeds; a failing estimate aborts the search), and `H` is consistent: along every
accepted traversal it drops by at most the cost charged.  `hasTarget` is `target.isSome`: without
a target the loop adds `Cost::ZERO`. -/
structure Heur (I : Inst α) (hasTarget : Bool) (H : Nat → α) : Prop where
  eq : ∀ v st x, (if hasTarget then I.h v st else Except.ok zero) = .ok x → x = H v
  consistent : ∀ e le st ac tc st', I.valid e st le = .ok true →
    I.trav e le st = .ok (ac, tc, st') → H (I.termV e) ≤ (ac + tc) + H (I.keyV e)

/-- Dijkstra is the case `H = 0` (consistent because costs are positive) -/
theorem ZeroH.heur {I : Inst α} (hI : WF I) (hh : ZeroH I) (hasTarget : Bool) :
    Heur I hasTarget (fun _ => 0) where
  eq := by
    intro v st x h
    cases hasTarget with
    | true => exact hh v st x h
    | false =>
      simp only [Bool.false_eq_true, if_false, Except.ok.injEq, zero_eq] at h
      exact h.symm
  consistent := by
    intro e le st ac tc st' _ htrav
    have := hI.cost_pos _ _ _ _ _ _ htrav
    simp only [add_zero]
    exact le_of_lt this

/-- A* with a heuristic that is a consistent function `hv` of the vertex; without a target the
term is 0 -/
theorem Heur.of_vertex {I : Inst α} (hI : WF I) {hv : Nat → α}
    (heq : ∀ v st x, I.h v st = .ok x → x = hv v)
    (hcons : ∀ e le st ac tc st', I.valid e st le = .ok true →
      I.trav e le st = .ok (ac, tc, st') → hv (I.termV e) ≤ (ac + tc) + hv (I.keyV e))
    (hasTarget : Bool) : Heur I hasTarget (SearchOpt.Hf hasTarget hv) := by
  cases hasTarget with
  | true =>
    refine ⟨fun v st x h => ?_, fun e le st ac tc st' h1 h2 => ?_⟩
    · simp only [SearchOpt.Hf, if_true]; exact heq v st x h
    · simp only [SearchOpt.Hf, if_true]; exact hcons e le st ac tc st' h1 h2
  | false =>
    refine ⟨fun v st x h => ?_, fun e le st ac tc st' _ h2 => ?_⟩
    · simp only [Bool.false_eq_true, if_false, Except.ok.injEq, zero_eq] at h
      simp only [SearchOpt.Hf, Bool.false_eq_true, if_false]; exact h.symm
    · have := hI.cost_pos _ _ _ _ _ _ h2
      simp only [SearchOpt.Hf, Bool.false_eq_true, if_false, add_zero]
      exact le_of_lt this

/-- `v` has no entry in the frontier queue -/
def NotQueued (s : SState α) (v : Nat) : Prop := ∀ p ∈ s.queue, p.1 ≠ v

/-- closed: labelled and not in the queue -/
def Closed (s : SState α) (v : Nat) : Prop := (s.g v).isSome ∧ NotQueued s v

/-- the tree entry `b` is what the frontier model accepted and the traversal produced *from the
entry its parent has in `sol`* (from the initial state and no previous edge at the source) -/
def Fresh (I : Inst α) (source : Nat) (sol : Nat → Option (Branch α)) (b : Branch α) : Prop :=
  (b.terminal = source →
    I.valid b.edge I.init none = .ok true ∧
    I.trav b.edge none I.init = .ok (b.access, b.traversal, b.state)) ∧
  (b.terminal ≠ source → ∀ bu, sol b.terminal = some bu →
    I.valid b.edge bu.state (some bu.edge) = .ok true ∧
    I.trav b.edge (some bu.edge) bu.state = .ok (b.access, b.traversal, b.state))

/-- closed vertices stay closed and keep their label and their tree entry -/
def ClosedKept (s s' : SState α) : Prop :=
  ∀ x, Closed s x → Closed s' x ∧ s'.g x = s.g x ∧ s'.sol x = s.sol x

theorem ClosedKept.refl (s : SState α) : ClosedKept s s := fun _ h => ⟨h, rfl, rfl⟩

theorem ClosedKept.trans {s s' s'' : SState α} (h : ClosedKept s s') (h' : ClosedKept s' s'') :
    ClosedKept s s'' := by
  intro x hx
  obtain ⟨a1, a2, a3⟩ := h x hx
  obtain ⟨b1, b2, b3⟩ := h' x a1
  exact ⟨b1, by rw [b2, a2], by rw [b3, a3]⟩

/-- the discipline at a loop head -/
structure Disc (I : Inst α) (H : Nat → α) (source : Nat) (s : SState α) : Prop where
  tree : TreeInv I source s
  /-- a queued f-score is the label of its vertex plus the heuristic term (`H = 0`: the label) -/
  qg : ∀ p ∈ s.queue, ∃ gx, s.g p.1 = some gx ∧ p.2 = gx + H p.1
  /-- (M) closed f-scores are below queued ones -/
  mono : ∀ u gu, s.g u = some gu → NotQueued s u → ∀ p ∈ s.queue, gu + H u ≤ p.2
  /-- every tree entry was produced from its parent's current entry -/
  fresh : ∀ v b, s.sol v = some b → Fresh I source s.sol b
  /-- parents are closed -/
  parent_closed : ∀ v b, s.sol v = some b → NotQueued s b.terminal
  /-- TreeInv's `g u + cost ≤ g v` holds with equality -/
  label_eq : ∀ v b, s.sol v = some b →
    ∃ gp, s.g b.terminal = some gp ∧ s.g v = some (gp + (b.access + b.traversal))

/-- the discipline inside the `for` loop over the incident edges of the popped vertex `u` (label
`gu`, handed to the loop with `lastEdge` and `st`) -/
structure Mid (I : Inst α) (H : Nat → α) (source : Nat) (u : Nat) (gu : α)
    (lastEdge : Option Nat) (st : List α) (s : SState α) : Prop where
  tree : TreeInv I source s
  qg : ∀ p ∈ s.queue, ∃ gx, s.g p.1 = some gx ∧ p.2 = gx + H p.1
  label : s.g u = some gu
  u_closed : NotQueued s u
  /-- the popped f-score is at least every closed one … -/
  closed_le : ∀ x gx, s.g x = some gx → NotQueued s x → gx + H x ≤ gu + H u
  /-- … and at most every queued one -/
  queue_ge : ∀ p ∈ s.queue, gu + H u ≤ p.2
  /-- `lastEdge` / `st` are still what the tree says about `u` -/
  cur : curOf I source s u = some (lastEdge, st)
  fresh : ∀ v b, s.sol v = some b → Fresh I source s.sol b
  parent_closed : ∀ v b, s.sol v = some b → NotQueued s b.terminal
  label_eq : ∀ v b, s.sol v = some b →
    ∃ gp, s.g b.terminal = some gp ∧ s.g v = some (gp + (b.access + b.traversal))

/-! ### Small lemmas -/

theorem curOf_spec {I : Inst α} {source : Nat} {s : SState α} {u : Nat} {lastEdge : Option Nat}
    {st : List α} (h : curOf I source s u = some (lastEdge, st)) :
    (u = source → lastEdge = none ∧ st = I.init) ∧
    (u ≠ source → ∃ bu, s.sol u = some bu ∧ lastEdge = some bu.edge ∧ st = bu.state) := by
  unfold curOf at h
  split at h
  · rename_i hu
    simp only [Option.some.injEq, Prod.mk.injEq] at h
    exact ⟨fun _ => ⟨h.1.symm, h.2.symm⟩, fun hne => absurd hu hne⟩
  · rename_i hu
    split at h
    · rename_i b hb
      simp only [Option.some.injEq, Prod.mk.injEq] at h
      exact ⟨fun he => absurd he hu, fun _ => ⟨b, hb, h.1.symm, h.2.symm⟩⟩
    · cases h

theorem curOf_congr {I : Inst α} {source : Nat} {s s' : SState α} {u : Nat}
    (h : s'.sol u = s.sol u) : curOf I source s' u = curOf I source s u := by
  unfold curOf
  rw [h]

/-- a closed vertex never passes `tentative < existing` against a tentative label above the popped
one -/
theorem Mid.closed_not_improved {I : Inst α} {H : Nat → α} {source u : Nat} {gu : α}
    {lastEdge : Option Nat} {st : List α} {s : SState α} (hm : Mid I H source u gu lastEdge st s)
    {c : α} {x : Nat} (hc : H u ≤ c + H x) (hx : Closed s x) :
    improves (gu + c) (s.g x) = false := by
  obtain ⟨hl, hq⟩ := hx
  obtain ⟨gx, hgx⟩ := Option.isSome_iff_exists.1 hl
  have := hm.closed_le x gx hgx hq
  rw [hgx]
  cases hi : improves (gu + c) (some gx) with
  | false => rfl
  | true =>
    rw [SearchTree.improves_some] at hi
    linarith

/-! ### One relaxation keeps the discipline -/

/-- the three inserts and the `push_increase` of an improving relaxation -/
theorem update_mid {I : Inst α} {H : Nat → α} {source u : Nat} {gu : α} {lastEdge : Option Nat}
    {st : List α} {s : SState α} (hm : Mid I H source u gu lastEdge st s) (e : Nat) (ac tc : α)
    (st' : List α) (hterm : I.termV e = u) (he : e ∈ I.incident u) (hc : 0 < ac + tc)
    (hcons : H u ≤ (ac + tc) + H (I.keyV e))
    (hvalid : I.valid e st lastEdge = .ok true) (htrav : I.trav e lastEdge st = .ok (ac, tc, st'))
    (himp : improves (gu + (ac + tc)) (s.g (I.keyV e)) = true) :
    let s' : SState α :=
      { s with
        g := upd s.g (I.keyV e) (gu + (ac + tc)),
        sol := upd s.sol (I.keyV e)
          { terminal := I.termV e, edge := e, access := ac, traversal := tc, state := st' },
        solSize := (match s.sol (I.keyV e) with | none => s.solSize + 1 | some _ => s.solSize),
        queue := pushIncrease s.queue (I.keyV e) (gu + (ac + tc) + H (I.keyV e)) }
    Mid I H source u gu lastEdge st s' ∧ ClosedKept s s' := by
  intro s'
  have hgt : s.g (I.termV e) = some gu := by rw [hterm]; exact hm.label
  have he' : e ∈ I.incident (I.termV e) := by rw [hterm]; exact he
  have htree : TreeInv I source s' :=
    SearchTree.update_treeInv hm.tree e ac tc st' gu (H (I.keyV e)) hgt hc he' himp
  -- the improved vertex is not closed
  have hkey_open : ¬ Closed s (I.keyV e) := by
    intro hx
    rw [hm.closed_not_improved hcons hx] at himp
    cases himp
  have hku : I.keyV e ≠ u := fun h => hkey_open (h ▸ ⟨by rw [hm.label]; rfl, hm.u_closed⟩)
  have huk : u ≠ I.keyV e := fun h => hku h.symm
  -- the queue after the push
  have hlt : ∀ f', (I.keyV e, f') ∈ s.queue → gu + (ac + tc) + H (I.keyV e) < f' := by
    intro f' hf'
    obtain ⟨gk, hgk, hfk⟩ := hm.qg _ hf'
    simp only at hgk hfk
    rw [hgk, SearchTree.improves_some] at himp
    rw [hfk]
    linarith
  have hq : ∀ p, p ∈ s'.queue ↔
      (p ∈ s.queue ∧ p.1 ≠ I.keyV e) ∨ p = (I.keyV e, gu + (ac + tc) + H (I.keyV e)) :=
    SearchOpt.mem_pushIncrease hlt
  have hg' : ∀ x, x ≠ I.keyV e → s'.g x = s.g x := fun x hx => upd_other _ _ _ hx
  have hsol' : ∀ x, x ≠ I.keyV e → s'.sol x = s.sol x := fun x hx => upd_other _ _ _ hx
  have hnq : ∀ x, x ≠ I.keyV e → (NotQueued s' x ↔ NotQueued s x) := by
    intro x hx
    constructor
    · intro h p hp hpx
      exact h p ((hq p).2 (Or.inl ⟨hp, by rw [hpx]; exact hx⟩)) hpx
    · intro h p hp hpx
      rcases (hq p).1 hp with ⟨hp', _⟩ | rfl
      · exact h p hp' hpx
      · exact hx hpx.symm
  have hkey_queued : ¬ NotQueued s' (I.keyV e) := fun h =>
    h _ ((hq _).2 (Or.inr rfl)) rfl
  -- a closed vertex of `s` is not the improved one
  have hclosed_ne : ∀ x, Closed s x → x ≠ I.keyV e := fun x hx h => hkey_open (h ▸ hx)
  have hparent_ne : ∀ v b, s.sol v = some b → b.terminal ≠ I.keyV e := by
    intro v b hb
    obtain ⟨_, _, _, _, ⟨gp, _, hgp, _, _⟩, _⟩ := hm.tree.entry v b hb
    exact hclosed_ne _ ⟨by rw [hgp]; rfl, hm.parent_closed v b hb⟩
  have hsolu : s'.sol u = s.sol u := hsol' u huk
  refine ⟨{ tree := htree, qg := ?_, label := ?_, u_closed := ?_, closed_le := ?_, queue_ge := ?_,
            cur := ?_, fresh := ?_, parent_closed := ?_, label_eq := ?_ }, ?_⟩
  · intro p hp
    rcases (hq p).1 hp with ⟨hp', hne⟩ | rfl
    · rw [hg' _ hne]; exact hm.qg p hp'
    · exact ⟨gu + (ac + tc), upd_same _ _ _, rfl⟩
  · rw [hg' u huk]; exact hm.label
  · exact (hnq u huk).2 hm.u_closed
  · intro x gx hgx hnqx
    have hx : x ≠ I.keyV e := fun h => hkey_queued (h ▸ hnqx)
    rw [hg' x hx] at hgx
    exact hm.closed_le x gx hgx ((hnq x hx).1 hnqx)
  · intro p hp
    rcases (hq p).1 hp with ⟨hp', _⟩ | rfl
    · exact hm.queue_ge p hp'
    · simp only; linarith
  · rw [curOf_congr hsolu]; exact hm.cur
  · intro v b hb
    by_cases hv : v = I.keyV e
    · subst hv
      have hb' : s'.sol (I.keyV e) =
          some { terminal := I.termV e, edge := e, access := ac, traversal := tc, state := st' } :=
        upd_same _ _ _
      rw [hb'] at hb
      cases hb
      obtain ⟨hc1, hc2⟩ := curOf_spec hm.cur
      refine ⟨fun hs => ?_, fun hs bu hbu => ?_⟩
      · simp only [hterm] at hs
        obtain ⟨rfl, rfl⟩ := hc1 hs
        exact ⟨hvalid, htrav⟩
      · simp only [hterm] at hs hbu
        obtain ⟨bu', hbu', rfl, rfl⟩ := hc2 hs
        rw [hsolu, hbu'] at hbu
        cases hbu
        exact ⟨hvalid, htrav⟩
    · rw [hsol' v hv] at hb
      obtain ⟨f1, f2⟩ := hm.fresh v b hb
      refine ⟨f1, fun hs bu hbu => f2 hs bu ?_⟩
      rw [hsol' _ (hparent_ne v b hb)] at hbu
      exact hbu
  · intro v b hb
    by_cases hv : v = I.keyV e
    · subst hv
      have hb' : s'.sol (I.keyV e) =
          some { terminal := I.termV e, edge := e, access := ac, traversal := tc, state := st' } :=
        upd_same _ _ _
      rw [hb'] at hb
      cases hb
      simp only [hterm]
      exact (hnq u huk).2 hm.u_closed
    · rw [hsol' v hv] at hb
      exact (hnq _ (hparent_ne v b hb)).2 (hm.parent_closed v b hb)
  · intro v b hb
    by_cases hv : v = I.keyV e
    · subst hv
      have hb' : s'.sol (I.keyV e) =
          some { terminal := I.termV e, edge := e, access := ac, traversal := tc, state := st' } :=
        upd_same _ _ _
      rw [hb'] at hb
      cases hb
      refine ⟨gu, ?_, upd_same _ _ _⟩
      simp only [hterm]
      rw [hg' u huk]; exact hm.label
    · rw [hsol' v hv] at hb
      obtain ⟨gp, h1, h2⟩ := hm.label_eq v b hb
      exact ⟨gp, by rw [hg' _ (hparent_ne v b hb)]; exact h1, by rw [hg' v hv]; exact h2⟩
  · intro x hx
    have hne := hclosed_ne x hx
    exact ⟨⟨by rw [hg' x hne]; exact hx.1, (hnq x hne).2 hx.2⟩, hg' x hne, hsol' x hne⟩

/-- one turn of the `for` loop at the popped vertex keeps the discipline -/
theorem relax_mid {I : Inst α} (hI : WF I) {H : Nat → α} {hasTarget : Bool}
    (hH : Heur I hasTarget H) {source u : Nat} {gu : α}
    {lastEdge : Option Nat} {st : List α} {s s' : SState α} {e : Nat}
    (hm : Mid I H source u gu lastEdge st s) (he : e ∈ I.incident u)
    (h : relax I hasTarget lastEdge st s e = .ok s') :
    Mid I H source u gu lastEdge st s' ∧ ClosedKept s s' := by
  have hterm : I.termV e = u := hI.incident_term u e he
  unfold relax at h
  split at h
  · cases h
  · cases h; exact ⟨hm, ClosedKept.refl _⟩
  · rename_i hvalid
    split at h
    · cases h
    · rename_i ac tc st' htrav
      have hc : 0 < ac + tc := hI.cost_pos _ _ _ _ _ _ htrav
      split at h
      · cases h; exact ⟨hm, ClosedKept.refl _⟩
      · rename_i gt hgt
        have hgt' : gt = gu := by
          rw [hterm, hm.label] at hgt
          exact (Option.some.inj hgt).symm
        subst hgt'
        simp only at h
        split at h
        · rename_i himp
          split at h
          · cases h
          · rename_i hv hhv
            have hv0 : hv = H (I.keyV e) := hH.eq _ _ _ hhv
            subst hv0
            cases h
            have hcons := hH.consistent e lastEdge st ac tc st' hvalid htrav
            rw [hterm] at hcons
            exact update_mid hm e ac tc st' hterm he hc hcons hvalid htrav himp
        · cases h; exact ⟨hm, ClosedKept.refl _⟩

/-- the whole `for` loop keeps the discipline -/
theorem relaxAll_mid {I : Inst α} (hI : WF I) {H : Nat → α} {hasTarget : Bool}
    (hH : Heur I hasTarget H) {source u : Nat} {gu : α} {lastEdge : Option Nat} {st : List α} :
    ∀ (es : List Nat) (s s' : SState α), (∀ e ∈ es, e ∈ I.incident u) →
      Mid I H source u gu lastEdge st s → relaxAll I hasTarget lastEdge st es s = .ok s' →
      Mid I H source u gu lastEdge st s' ∧ ClosedKept s s'
  | [], s, s', _, hm, h => by
    simp only [relaxAll] at h
    cases h; exact ⟨hm, ClosedKept.refl _⟩
  | e :: es, s, s', hes, hm, h => by
    simp only [relaxAll] at h
    split at h
    · cases h
    · rename_i s1 h1
      obtain ⟨hm1, hk1⟩ := relax_mid hI hH hm (hes e List.mem_cons_self) h1
      obtain ⟨hm2, hk2⟩ := relaxAll_mid hI hH es s1 s'
        (fun e' he' => hes e' (List.mem_cons_of_mem _ he')) hm1 h
      exact ⟨hm2, hk1.trans hk2⟩

/-! ### One loop turn keeps the discipline -/

/-- (M) at the pop: the popped vertex's label is its f-score, at least every closed label and at
most every queued one -/
theorem popped_ge_closed {I : Inst α} {H : Nat → α} {source : Nat} {s : SState α}
    (hd : Disc I H source s) {v : Nat} (hpop : popOk s.queue v = true) :
    ∃ gv, (v, gv + H v) ∈ s.queue ∧ s.g v = some gv ∧ (∀ p ∈ s.queue, gv + H v ≤ p.2) ∧
      ∀ x gx, s.g x = some gx → NotQueued s x → gx + H x ≤ gv + H v := by
  obtain ⟨f, hf, hmin⟩ := SearchOpt.popOk_spec hpop
  obtain ⟨gv, hgv, hfv⟩ := hd.qg _ hf
  simp only at hgv hfv
  subst hfv
  exact ⟨gv, hf, hgv, hmin, fun x gx hgx hx => hd.mono x gx hgx hx _ hf⟩

theorem mem_popped {s : SState α} {v : Nat} {p : Nat × α} :
    p ∈ (popped s v).queue ↔ p ∈ s.queue ∧ p.1 ≠ v := by
  simp [popped, List.mem_filter]

/-- the state after the pop satisfies the mid-loop discipline -/
theorem Disc.pop {I : Inst α} {H : Nat → α} {source : Nat} {s : SState α}
    (hd : Disc I H source s) {v : Nat}
    (hpop : popOk s.queue v = true) {lastEdge : Option Nat} {st : List α}
    (hcur : curOf I source s v = some (lastEdge, st)) :
    ∃ f, (v, f + H v) ∈ s.queue ∧ Mid I H source v f lastEdge st (popped s v) := by
  obtain ⟨f, hf, hgf, hmin, hcl⟩ := popped_ge_closed hd hpop
  refine ⟨f, hf, { tree := hd.tree.pop v, qg := ?_, label := hgf, u_closed := ?_, closed_le := ?_,
                   queue_ge := ?_, cur := hcur, fresh := hd.fresh, parent_closed := ?_,
                   label_eq := hd.label_eq }⟩
  · intro p hp; exact hd.qg p (mem_popped.1 hp).1
  · intro p hp; exact (mem_popped.1 hp).2
  · intro x gx hgx hx
    by_cases hxv : x = v
    · subst hxv
      have : s.g x = some gx := hgx
      rw [hgf] at this
      cases this; exact le_refl _
    · apply hcl x gx hgx
      intro p hp hpx
      exact hx p (mem_popped.2 ⟨hp, by rw [hpx]; exact hxv⟩) hpx
  · intro p hp; exact hmin p (mem_popped.1 hp).1
  · intro w b hb p hp
    exact hd.parent_closed w b hb p (mem_popped.1 hp).1

/-- the end of the `for` loop is a loop head satisfying the discipline -/
theorem Mid.toDisc {I : Inst α} {H : Nat → α} {source u : Nat} {gu : α} {lastEdge : Option Nat}
    {st : List α} {s : SState α} (hm : Mid I H source u gu lastEdge st s) :
    Disc I H source { s with iters := s.iters + 1 } where
  tree := hm.tree.bump
  qg := hm.qg
  mono := fun x gx hgx hx p hp => le_trans (hm.closed_le x gx hgx hx) (hm.queue_ge p hp)
  fresh := hm.fresh
  parent_closed := hm.parent_closed
  label_eq := hm.label_eq

/-- a complete turn keeps the discipline, closes the expanded vertex and keeps what was closed -/
theorem turn_disc {I : Inst α} (hI : WF I) {H : Nat → α} {source : Nat} {target : Option Nat}
    (hH : Heur I target.isSome H) {s s' : SState α} {v : Nat} (hd : Disc I H source s)
    (ht : SearchLimits.Turn I source target s v s') :
    Disc I H source s' ∧ ClosedKept s s' ∧ Closed s' v ∧ ¬ NotQueued s v := by
  obtain ⟨_, _, hpop, _, lastEdge, st, s2, hcur, hrel, rfl⟩ := ht
  obtain ⟨f, hf, hmid⟩ := hd.pop hpop hcur
  obtain ⟨hm2, hk⟩ := relaxAll_mid hI hH _ _ _ (fun e he => he) hmid hrel
  refine ⟨hm2.toDisc, ?_, ⟨by show (s2.g v).isSome; rw [hm2.label]; rfl, hm2.u_closed⟩,
    fun h => h _ hf rfl⟩
  intro x hx
  have hx' : Closed (popped s v) x := ⟨hx.1, fun p hp => hx.2 p (mem_popped.1 hp).1⟩
  exact hk x hx'

/-! ### Every loop head of a run -/

/-- along a run: the discipline holds at every loop head reached; what was closed stays closed with
its label and entry; the vertices expanded are closed at the end, were not closed at the start, are
pairwise distinct, and each is the source or the key vertex of some edge -/
theorem reach_disc {I : Inst α} (hI : WF I) {H : Nat → α} {source : Nat} {target : Option Nat}
    (hH : Heur I target.isSome H) {pre : List Nat} {s h : SState α}
    (hr : Reach I source target pre s h)
    (hd : Disc I H source s) :
    Disc I H source h ∧ ClosedKept s h ∧ (∀ x ∈ pre, Closed h x) ∧ (∀ x ∈ pre, ¬ Closed s x) ∧
      pre.Nodup ∧ ∀ x ∈ pre, x = source ∨ ∃ e, I.keyV e = x := by
  induction hr with
  | here s => exact ⟨hd, ClosedKept.refl _, by simp, by simp, List.nodup_nil, by simp⟩
  | @turn v rest s s1 h ht hr ih =>
    obtain ⟨hd1, hk1, hcv, hvq⟩ := turn_disc hI hH hd ht
    obtain ⟨hdh, hkh, hall, hnot, hnd, hkeys⟩ := ih hd1
    have hv_rest : v ∉ rest := fun hv => hnot v hv hcv
    refine ⟨hdh, hk1.trans hkh, ?_, ?_, List.nodup_cons.2 ⟨hv_rest, hnd⟩, ?_⟩
    · intro x hx
      rcases List.mem_cons.1 hx with rfl | hx
      · exact (hkh _ hcv).1
      · exact hall x hx
    · intro x hx hcx
      rcases List.mem_cons.1 hx with rfl | hx
      · exact hvq hcx.2
      · exact hnot x hx (hk1 x hcx).1
    · intro x hx
      rcases List.mem_cons.1 hx with rfl | hx
      · rcases SearchTree.popped_has_entry hd.tree ht.pop_ok with h1 | h1
        · exact Or.inl h1
        · obtain ⟨b, hb⟩ := Option.isSome_iff_exists.1 h1
          exact Or.inr ⟨b.edge, (hd.tree.entry _ b hb).1⟩
      · exact hkeys x hx

/-- once closed, a vertex stays closed for the rest of the run, keeps its label and its tree entry
(they are final), and is never expanded again -/
theorem closed_final {I : Inst α} (hI : WF I) {H : Nat → α} {source : Nat} {target : Option Nat}
    (hH : Heur I target.isSome H) {pre : List Nat} {s h : SState α}
    (hr : Reach I source target pre s h) (hd : Disc I H source s) {x : Nat} (hx : Closed s x) :
    Closed h x ∧ h.g x = s.g x ∧ h.sol x = s.sol x ∧ x ∉ pre := by
  obtain ⟨_, hk, _, hnot, _, _⟩ := reach_disc hI hH hr hd
  obtain ⟨h1, h2, h3⟩ := hk x hx
  exact ⟨h1, h2, h3, fun hmem => hnot x hmem hx⟩

/-- (M) for Dijkstra, in plain terms: a closed label is at most every queued f-score, and a queued
f-score is the label of its vertex -/
theorem Disc.dijkstra_monotone {I : Inst α} {source : Nat} {s : SState α}
    (hd : Disc I (fun _ => 0) source s) {u : Nat} {gu : α} (hgu : s.g u = some gu)
    (hu : NotQueued s u) {p : Nat × α} (hp : p ∈ s.queue) : gu ≤ p.2 ∧ s.g p.1 = some p.2 := by
  have h1 := hd.mono u gu hgu hu p hp
  obtain ⟨gx, h2, h3⟩ := hd.qg p hp
  simp only [add_zero] at h1 h3
  exact ⟨h1, by rw [h3]; exact h2⟩

/-- (M) for Dijkstra at the pop: the popped vertex's label is at least every closed label and at
most every queued f-score -/
theorem Disc.dijkstra_pop {I : Inst α} {source : Nat} {s : SState α}
    (hd : Disc I (fun _ => 0) source s) {v : Nat} (hpop : popOk s.queue v = true) :
    ∃ gv, s.g v = some gv ∧ (v, gv) ∈ s.queue ∧ (∀ p ∈ s.queue, gv ≤ p.2) ∧
      ∀ x gx, s.g x = some gx → NotQueued s x → gx ≤ gv := by
  obtain ⟨gv, h1, h2, h3, h4⟩ := popped_ge_closed hd hpop
  simp only [add_zero] at h1 h3 h4
  exact ⟨gv, h2, h1, h3, h4⟩

/-- the discipline holds before the loop (the source is queued with f-score `0 + H source`) -/
theorem initState_disc (I : Inst α) (H : Nat → α) (source : Nat) :
    Disc I H source (initState source (H source)) where
  tree := SearchTree.initState_treeInv I source _
  qg := by
    intro p hp
    simp only [initState, List.mem_singleton] at hp
    subst hp
    exact ⟨0, by simp [initState, upd, zero_eq], by simp⟩
  mono := by
    intro u gu hgu hnq
    exfalso
    by_cases hu : u = source
    · exact hnq (source, H source) (by simp [initState]) hu.symm
    · simp [initState, upd, hu] at hgu
  fresh := by intro v b hb; simp [initState] at hb
  parent_closed := by intro v b hb; simp [initState] at hb
  label_eq := by intro v b hb; simp [initState] at hb

/-- the source is queued with f-score `H source` -/
theorem startF_eq {I : Inst α} {H : Nat → α} {source : Nat} {target : Option Nat}
    (hH : Heur I target.isSome H) {f0 : α} (h : startF I source target = .ok f0) :
    f0 = H source := by
  unfold startF at h
  cases target with
  | none => exact hH.eq source I.init f0 h
  | some t => exact hH.eq source I.init f0 h

/-- the source is expanded first -/
theorem source_first {I : Inst α} {source : Nat} {target : Option Nat} {pre : List Nat} {f0 : α}
    {h : SState α} (hr : Reach I source target pre (initState source f0) h) :
    pre = [] ∨ pre.head? = some source := by
  cases hr with
  | here => exact Or.inl rfl
  | turn ht _ =>
    right
    obtain ⟨p, hp, hpv⟩ := SearchTree.popOk_mem ht.pop_ok
    simp only [initState, List.mem_singleton] at hp
    subst hp
    simp [← hpv]

/-- **(M) at every loop head** of a run from the initial state, whatever the schedule: the
discipline `Disc` (closed f-scores ≤ queued f-scores, a queued f-score is label + `H`; every entry
produced from its parent's current entry; parents closed; labels exact), the expanded vertices are
pairwise distinct (each vertex is popped for expansion at most once), all closed, and the source
comes first -/
theorem discipline_at_every_head {I : Inst α} (hI : WF I) {H : Nat → α} {source : Nat}
    {target : Option Nat} (hH : Heur I target.isSome H) {pre : List Nat} {h : SState α}
    (hr : Reach I source target pre (initState source (H source)) h) :
    Disc I H source h ∧ pre.Nodup ∧ (∀ x ∈ pre, Closed h x) ∧
      (pre = [] ∨ pre.head? = some source) ∧ h.iters = pre.length ∧
      ∀ x ∈ pre, x = source ∨ ∃ e, I.keyV e = x := by
  obtain ⟨h1, _, h3, _, h5, h6⟩ := reach_disc hI hH hr (initState_disc I H source)
  refine ⟨h1, h5, h3, source_first hr, ?_, h6⟩
  have := hr.counters.1
  simpa [initState] using this

/-- each vertex is expanded at most once -/
theorem expanded_nodup {I : Inst α} (hI : WF I) {H : Nat → α} {source : Nat}
    {target : Option Nat} (hH : Heur I target.isSome H) {pre : List Nat} {h : SState α}
    (hr : Reach I source target pre (initState source (H source)) h) : pre.Nodup :=
  (discipline_at_every_head hI hH hr).2.1

/-! ### Results of a run -/

/-- an `.ok` run other than the `target == source` shortcut ends at a loop head that satisfies the
discipline and whose labels, tree and counters are the result's -/
theorem runAStar_disc {I : Inst α} (hI : WF I) {H : Nat → α} {source : Nat}
    {target : Option Nat} (hH : Heur I target.isSome H)
    {sched : List Nat} {s : SState α} (hrun : runAStar I source target sched = .ok s)
    (hts : target ≠ some source) :
    ∃ pre rest h, sched = pre ++ rest ∧ Reach I source target pre (initState source (H source)) h ∧
      Disc I H source h ∧ Final target h rest s := by
  rcases SearchLimits.runAStar_ok_iff.1 hrun with ⟨ht, _⟩ | ⟨_, f0, hf0, hloop⟩
  · exact absurd ht hts
  · have := startF_eq hH hf0
    subst this
    obtain ⟨pre, rest, h, hs, hr, _, hfin⟩ := SearchLimits.runLoop_ok_reach sched _ s hloop
    exact ⟨pre, rest, h, hs, hr, (discipline_at_every_head hI hH hr).1, hfin⟩

/-- `entry_fresh` for any consistent vertex heuristic -/
theorem entry_fresh_of_heur {I : Inst α} (hI : WF I) {H : Nat → α} {source : Nat}
    {target : Option Nat} (hH : Heur I target.isSome H)
    {sched : List Nat} {s : SState α} (hrun : runAStar I source target sched = .ok s)
    {v : Nat} {b : Branch α} (hb : s.sol v = some b) :
    (b.terminal = source ∧
      I.valid b.edge I.init none = .ok true ∧
      I.trav b.edge none I.init = .ok (b.access, b.traversal, b.state)) ∨
    (b.terminal ≠ source ∧ ∃ bu, s.sol b.terminal = some bu ∧
      I.valid b.edge bu.state (some bu.edge) = .ok true ∧
      I.trav b.edge (some bu.edge) bu.state = .ok (b.access, b.traversal, b.state)) := by
  by_cases hts : target = some source
  · rcases SearchLimits.runAStar_ok_iff.1 hrun with ⟨_, rfl⟩ | ⟨ht, _⟩
    · simp [SearchLimits.emptyResult] at hb
    · exact absurd hts ht
  · obtain ⟨pre, rest, h, _, _, hd, hfin⟩ := runAStar_disc hI hH hrun hts
    have hsol : s.sol = h.sol := hfin.fields.2.1
    rw [hsol] at hb ⊢
    obtain ⟨f1, f2⟩ := hd.fresh v b hb
    by_cases hs : b.terminal = source
    · exact Or.inl ⟨hs, f1 hs⟩
    · obtain ⟨_, _, _, _, _, hpar⟩ := hd.tree.entry v b hb
      obtain ⟨bu, hbu⟩ := Option.isSome_iff_exists.1 (hpar.resolve_left hs)
      exact Or.inr ⟨hs, bu, hbu, f2 hs bu hbu⟩

/-- **entry_fresh**: in the result of a Dijkstra run every tree entry `v ↦ b` is what the frontier
model accepted and the traversal produced from its parent's *final* entry: from
`(I.init, none)` when the parent is the source, from `(bu.state, some bu.edge)` with `bu` the
parent's entry in the returned tree otherwise (and that entry exists) -/
theorem entry_fresh {I : Inst α} (hI : WF I) (hh : ZeroH I) {source : Nat} {target : Option Nat}
    {sched : List Nat} {s : SState α} (hrun : runAStar I source target sched = .ok s)
    {v : Nat} {b : Branch α} (hb : s.sol v = some b) :
    (b.terminal = source ∧
      I.valid b.edge I.init none = .ok true ∧
      I.trav b.edge none I.init = .ok (b.access, b.traversal, b.state)) ∨
    (b.terminal ≠ source ∧ ∃ bu, s.sol b.terminal = some bu ∧
      I.valid b.edge bu.state (some bu.edge) = .ok true ∧
      I.trav b.edge (some bu.edge) bu.state = .ok (b.access, b.traversal, b.state)) :=
  entry_fresh_of_heur hI (hh.heur hI _) hrun hb

/-- `expansions_le_vertices` for any consistent vertex heuristic -/
theorem expansions_le_vertices_of_heur {I : Inst α} (hI : WF I) {H : Nat → α} {source nV : Nat}
    (hsrc : source < nV) (hkey : ∀ e, I.keyV e < nV) {target : Option Nat}
    (hH : Heur I target.isSome H) {sched : List Nat}
    {s : SState α} (hrun : runAStar I source target sched = .ok s) : s.iters ≤ nV := by
  by_cases hts : target = some source
  · rcases SearchLimits.runAStar_ok_iff.1 hrun with ⟨_, rfl⟩ | ⟨ht, _⟩
    · exact Nat.zero_le _
    · exact absurd hts ht
  · obtain ⟨pre, rest, h, _, hr, _, hfin⟩ := runAStar_disc hI hH hrun hts
    obtain ⟨_, hnd, _, _, hit, hkeys⟩ := discipline_at_every_head hI hH hr
    rw [hfin.fields.2.2.2, hit]
    have hsub : pre ⊆ List.range nV := by
      intro x hx
      rw [List.mem_range]
      rcases hkeys x hx with rfl | ⟨e, rfl⟩
      · exact hsrc
      · exact hkey e
    have := (hnd.subperm hsub).length_le
    simpa using this

/-- **expansions_le_vertices**: with all vertices below `nV`, a Dijkstra run performs at most `nV`
expansion steps -/
theorem expansions_le_vertices {I : Inst α} (hI : WF I) (hh : ZeroH I) {source nV : Nat}
    (hsrc : source < nV) (hkey : ∀ e, I.keyV e < nV) {target : Option Nat} {sched : List Nat}
    {s : SState α} (hrun : runAStar I source target sched = .ok s) : s.iters ≤ nV :=
  expansions_le_vertices_of_heur hI hsrc hkey (hh.heur hI _) hrun

/-- in any run under the discipline — returning or not — at most `nV` expansion steps are
performed -/
theorem reach_length_le_vertices {I : Inst α} (hI : WF I) {H : Nat → α} {source nV : Nat}
    (hsrc : source < nV) (hkey : ∀ e, I.keyV e < nV) {target : Option Nat}
    (hH : Heur I target.isSome H) {pre : List Nat}
    {h : SState α} (hr : Reach I source target pre (initState source (H source)) h) :
    pre.length ≤ nV := by
  obtain ⟨_, hnd, _, _, _, hkeys⟩ := discipline_at_every_head hI hH hr
  have hsub : pre ⊆ List.range nV := by
    intro x hx
    rw [List.mem_range]
    rcases hkeys x hx with rfl | ⟨e, rfl⟩
    · exact hsrc
    · exact hkey e
  have := (hnd.subperm hsub).length_le
  simpa using this

/-! ### Routes -/

/-- the links of a route: the first entry was produced from `(I.init, none)`, each later one from
the state and edge of the entry before it -/
def LinksFresh (I : Inst α) : Option (Branch α) → List (Branch α) → Prop
  | _, [] => True
  | none, b :: r =>
    (I.valid b.edge I.init none = .ok true ∧
      I.trav b.edge none I.init = .ok (b.access, b.traversal, b.state)) ∧
    LinksFresh I (some b) r
  | some a, b :: r =>
    (I.valid b.edge a.state (some a.edge) = .ok true ∧
      I.trav b.edge (some a.edge) a.state = .ok (b.access, b.traversal, b.state)) ∧
    LinksFresh I (some b) r

/-- index form of `LinksFresh none` -/
theorem LinksFresh.getElem {I : Inst α} :
    ∀ {prev : Option (Branch α)} {route : List (Branch α)}, LinksFresh I prev route →
      ∀ i (hi : i + 1 < route.length),
        I.valid route[i + 1].edge route[i].state (some route[i].edge) = .ok true ∧
        I.trav route[i + 1].edge (some route[i].edge) route[i].state =
          .ok (route[i + 1].access, route[i + 1].traversal, route[i + 1].state)
  | _, [], _, i, hi => by simp at hi
  | _, [_], _, i, hi => by simp at hi
  | none, a :: b :: r, h, i, hi => by
    obtain ⟨_, h2⟩ := h
    cases i with
    | zero => exact h2.1
    | succ i => exact LinksFresh.getElem (prev := some a) (route := b :: r) h2 i (by simpa using hi)
  | some p, a :: b :: r, h, i, hi => by
    obtain ⟨_, h2⟩ := h
    cases i with
    | zero => exact h2.1
    | succ i => exact LinksFresh.getElem (prev := some a) (route := b :: r) h2 i (by simpa using hi)

/-- a chain of tree entries each produced from its parent's entry has fresh links -/
theorem linksFresh_of_chain {I : Inst α} {source : Nat} {sol : Nat → Option (Branch α)} :
    ∀ (prev : Option (Branch α)) (route : List (Branch α)),
      (∀ b ∈ route, Fresh I source sol b ∧ sol (I.keyV b.edge) = some b ∧ I.keyV b.edge ≠ source) →
      route.IsChain (fun a b => I.keyV a.edge = b.terminal) →
      (match prev with
        | none => ∀ b, route.head? = some b → b.terminal = source
        | some a => (sol (I.keyV a.edge) = some a ∧ I.keyV a.edge ≠ source) ∧
            ∀ b, route.head? = some b → I.keyV a.edge = b.terminal) →
      LinksFresh I prev route
  | _, [], _, _, _ => by cases ‹Option (Branch α)› <;> trivial
  | none, b :: r, hall, hchain, hhead => by
    have hb := hall b List.mem_cons_self
    have hs : b.terminal = source := hhead b rfl
    refine ⟨hb.1.1 hs, ?_⟩
    apply linksFresh_of_chain (some b) r (fun b' hb' => hall b' (List.mem_cons_of_mem _ hb'))
      (List.IsChain.tail hchain)
    refine ⟨⟨hb.2.1, hb.2.2⟩, ?_⟩
    intro b' hb'
    cases r with
    | nil => simp at hb'
    | cons x xs =>
      simp only [List.head?_cons, Option.some.injEq] at hb'
      subst hb'
      exact (List.isChain_cons_cons.1 hchain).1
  | some a, b :: r, hall, hchain, hhead => by
    have hb := hall b List.mem_cons_self
    obtain ⟨⟨ha1, ha2⟩, hlink⟩ := hhead
    have hpar : I.keyV a.edge = b.terminal := hlink b rfl
    have hs : b.terminal ≠ source := by rw [← hpar]; exact ha2
    refine ⟨hb.1.2 hs a (by rw [← hpar]; exact ha1), ?_⟩
    apply linksFresh_of_chain (some b) r (fun b' hb' => hall b' (List.mem_cons_of_mem _ hb'))
      (List.IsChain.tail hchain)
    refine ⟨⟨hb.2.1, hb.2.2⟩, ?_⟩
    intro b' hb'
    cases r with
    | nil => simp at hb'
    | cons x xs =>
      simp only [List.head?_cons, Option.some.injEq] at hb'
      subst hb'
      exact (List.isChain_cons_cons.1 hchain).1

/-- `route_links_fresh` for any consistent vertex heuristic -/
theorem route_links_fresh_of_heur {I : Inst α} (hI : WF I) {H : Nat → α} {source t : Nat}
    (hH : Heur I true H) {sched : List Nat} {res : SearchResult α} (hts : t ≠ source)
    (hrun : runVertexOriented I source (some t) sched = .ok res) :
    ∃ route, res.route = some route ∧ route ≠ [] ∧ RouteChain I source res.final t route ∧
      LinksFresh I none route ∧
      (∀ b, route.head? = some b →
        I.valid b.edge I.init none = .ok true ∧
        I.trav b.edge none I.init = .ok (b.access, b.traversal, b.state)) ∧
      ∀ i (hi : i + 1 < route.length),
        I.valid route[i + 1].edge route[i].state (some route[i].edge) = .ok true ∧
        I.trav route[i + 1].edge (some route[i].edge) route[i].state =
          .ok (route[i + 1].access, route[i + 1].traversal, route[i + 1].state) := by
  obtain ⟨_, _, route, gt, hroute, hne, hrc, _, _⟩ :=
    SearchTree.runVertexOriented_route hI source t sched res hts hrun
  have hastar : runAStar I source (some t) sched = .ok res.final := by
    unfold runVertexOriented at hrun
    split at hrun
    · cases hrun
    · rename_i s hs
      simp only at hrun
      split at hrun
      · cases hrun
      · cases hrun; exact hs
  have hts' : (some t : Option Nat) ≠ some source := fun h => hts (Option.some.inj h)
  obtain ⟨pre, rest, h, _, _, hd, hfin⟩ :=
    runAStar_disc (target := some t) hI hH hastar hts'
  have hsol : res.final.sol = h.sol := hfin.fields.2.1
  have hall : ∀ b ∈ route, Fresh I source res.final.sol b ∧
      res.final.sol (I.keyV b.edge) = some b ∧ I.keyV b.edge ≠ source := by
    intro b hb
    have hent := hrc.entry b hb
    refine ⟨?_, hent, hrc.key_ne_source b hb⟩
    rw [hsol] at hent ⊢
    exact hd.fresh _ b hent
  have hlinks : LinksFresh I none route :=
    linksFresh_of_chain none route hall hrc.chain hrc.head_terminal
  refine ⟨route, hroute, hne, hrc, hlinks, ?_, hlinks.getElem⟩
  intro b hb
  cases route with
  | nil => simp at hb
  | cons x xs =>
    simp only [List.head?_cons, Option.some.injEq] at hb
    subst hb
    exact hlinks.1

/-- **route_links_fresh** (the statement C03 and C04 need): for the route `[b₁, …, b_n]` returned
by a Dijkstra `run_vertex_oriented` to a target other than the source, `b₁` was validated and
traversed from `(I.init, none)` and each `b_{i+1}` from `(b_i.state, some b_i.edge)` — the state
and edge the route itself reports for the previous link -/
theorem route_links_fresh {I : Inst α} (hI : WF I) (hh : ZeroH I) {source t : Nat}
    {sched : List Nat} {res : SearchResult α} (hts : t ≠ source)
    (hrun : runVertexOriented I source (some t) sched = .ok res) :
    ∃ route, res.route = some route ∧ route ≠ [] ∧ RouteChain I source res.final t route ∧
      LinksFresh I none route ∧
      (∀ b, route.head? = some b →
        I.valid b.edge I.init none = .ok true ∧
        I.trav b.edge none I.init = .ok (b.access, b.traversal, b.state)) ∧
      ∀ i (hi : i + 1 < route.length),
        I.valid route[i + 1].edge route[i].state (some route[i].edge) = .ok true ∧
        I.trav route[i + 1].edge (some route[i].edge) route[i].state =
          .ok (route[i + 1].access, route[i + 1].traversal, route[i + 1].state) :=
  route_links_fresh_of_heur hI (hh.heur hI true) hts hrun

/-- under the discipline the summed cost of a tree path is exactly the label of its end -/
theorem pathTo_cost_eq {I : Inst α} {H : Nat → α} {source : Nat} {s : SState α}
    (hd : Disc I H source s)
    {t : Nat} {r : List (Branch α)} (h : SearchTree.PathTo source s.sol t r) :
    ∀ gt, s.g t = some gt → (r.map (fun b => b.access + b.traversal)).sum = gt := by
  induction h with
  | nil =>
    intro gt hgt
    rw [hd.tree.g_source] at hgt
    cases hgt
    simp
  | @snoc v b r hv hb hr ih =>
    intro gt hgt
    obtain ⟨gp, hgp, hgv⟩ := hd.label_eq v b hb
    rw [hgt] at hgv
    cases hgv
    have := ih gp hgp
    simp only [List.map_append, List.sum_append, List.map_cons, List.map_nil, List.sum_cons,
      List.sum_nil, add_zero]
    rw [this]

/-- `route_cost_eq_label` for any consistent vertex heuristic -/
theorem route_cost_eq_label_of_heur {I : Inst α} (hI : WF I) {H : Nat → α} {source t : Nat}
    (hH : Heur I true H) {sched : List Nat} {res : SearchResult α} (hts : t ≠ source)
    (hrun : runVertexOriented I source (some t) sched = .ok res) :
    ∃ route gt, res.route = some route ∧ res.final.g t = some gt ∧
      (route.map (fun b => b.access + b.traversal)).sum = gt := by
  obtain ⟨_, _, route, gt, hroute, _, _, hgt, _⟩ :=
    SearchTree.runVertexOriented_route hI source t sched res hts hrun
  unfold runVertexOriented at hrun
  split at hrun
  · cases hrun
  · rename_i s hs
    simp only at hrun
    split at hrun
    · cases hrun
    · rename_i r hr
      cases hrun
      simp only [Option.some.injEq] at hroute
      subst hroute
      have hts' : (some t : Option Nat) ≠ some source := fun h => hts (Option.some.inj h)
      obtain ⟨pre, rest, h, _, _, hd, hfin⟩ := runAStar_disc (target := some t) hI hH hs hts'
      have hpath := SearchTree.backtrack_sound hr
      rw [hfin.fields.2.1] at hpath
      simp only at hgt
      rw [hfin.fields.1] at hgt
      exact ⟨r, gt, rfl, by simp only; rw [hfin.fields.1]; exact hgt,
        pathTo_cost_eq hd hpath gt hgt⟩

/-- **route_cost_eq_label**: the summed cost (access + traversal) of the route a Dijkstra
`run_vertex_oriented` returns *equals* the label of the target (TreeInv's inequality holds with
equality under the discipline) -/
theorem route_cost_eq_label {I : Inst α} (hI : WF I) (hh : ZeroH I) {source t : Nat}
    {sched : List Nat} {res : SearchResult α} (hts : t ≠ source)
    (hrun : runVertexOriented I source (some t) sched = .ok res) :
    ∃ route gt, res.route = some route ∧ res.final.g t = some gt ∧
      (route.map (fun b => b.access + b.traversal)).sum = gt :=
  route_cost_eq_label_of_heur hI (hh.heur hI true) hts hrun

/-! ### Configured instances -/

/-- `SearchAlgorithm::Dijkstra` runs A* with `weight_factor = Some(Cost::ZERO)`: whatever the
estimate, the heuristic term is `est * 0 = 0` -/
theorem config_zeroH (c : Config α) (hwf : c.wf = some 0) : ZeroH c.inst := by
  intro v st x h
  simp only [Config.inst, estimate, hwf] at h
  split at h
  · cases h
  · split at h
    · cases h
    split at h
    · cases h
    · split at h
      · cases h
      · simp only [mul_zero, Except.ok.injEq] at h
        exact h.symm

/-- `route_links_fresh` for a configured Dijkstra search: any traversal, access (turn delay), cost
and frontier (turn restriction) models -/
theorem config_route_links_fresh (c : Config α) (hadj : c.AdjConsistent) (hwf : c.wf = some 0)
    {source t : Nat} {sched : List Nat} {res : SearchResult α} (hts : t ≠ source)
    (hrun : runVertexOriented c.inst source (some t) sched = .ok res) :
    ∃ route, res.route = some route ∧ route ≠ [] ∧ RouteChain c.inst source res.final t route ∧
      LinksFresh c.inst none route :=
  let ⟨route, h1, h2, h3, h4, _⟩ :=
    route_links_fresh (c.inst_wf hadj) (config_zeroH c hwf) hts hrun
  ⟨route, h1, h2, h3, h4⟩

/-! ### Non-vacuity: turn restriction and turn delay on a four-vertex instance over ℚ

Edges 0: 0→1 (1), 1: 1→2 (1), 2: 0→2 (5), 3: 1→2 (2), 4: 2→3 (1).  The turn 0→1 is forbidden, the
turn 0→3 costs a delay of ½; validity and cost therefore depend on the previous edge, and the state
(accumulated cost) on the whole path.  Dijkstra from 0 to 3 with the schedule `[0, 1, 2, 3]`
returns the route `[0, 3, 4]` of cost 4½. -/

namespace Example

def src : Nat → Nat
  | 0 => 0 | 1 => 1 | 2 => 0 | 3 => 1 | 4 => 2 | _ => 9
def dst : Nat → Nat
  | 0 => 1 | 1 => 2 | 2 => 2 | 3 => 2 | 4 => 3 | _ => 9
def base : Nat → ℚ
  | 0 => 1 | 1 => 1 | 2 => 5 | 3 => 2 | 4 => 1 | _ => 1
def out : Nat → List Nat
  | 0 => [0, 2] | 1 => [1, 3] | 2 => [4] | _ => []
def delay (last : Option Nat) (e : Nat) : ℚ :=
  if last = some 0 ∧ e = 3 then 1 / 2 else 0

def inst : Inst ℚ where
  incident := out
  keyV := dst
  termV := src
  init := [0]
  valid := fun e _ last => .ok (!(last == some 0 && e == 1))
  trav := fun e last st => .ok (delay last e, base e, [st.headD 0 + delay last e + base e])
  h := fun _ _ => .ok 0
  term := fun _ _ => .ok ()

theorem inst_wf : WF inst where
  incident_term := by
    intro v e h
    change e ∈ out v at h
    change src e = v
    unfold out at h
    split at h <;> simp at h
    · rcases h with rfl | rfl <;> rfl
    · rcases h with rfl | rfl <;> rfl
    · subst h; rfl
  cost_pos := by
    intro e le st ac tc st' h
    simp only [inst, Except.ok.injEq, Prod.mk.injEq] at h
    obtain ⟨rfl, rfl, _⟩ := h
    have h1 : 0 ≤ delay le e := by unfold delay; split <;> norm_num
    have h2 : 0 < base e := by unfold base; split <;> norm_num
    linarith

theorem inst_zeroH : ZeroH inst := by
  intro v st x h
  simp only [inst, Except.ok.injEq] at h
  exact h.symm

/-- a consistent heuristic towards vertex 3 (remaining base cost along the cheapest way) -/
def hv : Nat → ℚ
  | 0 => 3 | 1 => 2 | 2 => 1 | _ => 0

/-- the same instance searched with A* -/
def instA : Inst ℚ := { inst with h := fun v _ => .ok (hv v) }

theorem instA_wf : WF instA := ⟨inst_wf.incident_term, inst_wf.cost_pos⟩

theorem instA_heur : Heur instA true hv where
  eq := by
    intro v st x h
    simp only [instA, if_true, Except.ok.injEq] at h
    exact h.symm
  consistent := by
    intro e le st ac tc st' _ h
    simp only [instA, inst, Except.ok.injEq, Prod.mk.injEq] at h
    obtain ⟨rfl, rfl, _⟩ := h
    have h1 : 0 ≤ delay le e := by unfold delay; split <;> norm_num
    show hv (src e) ≤ delay le e + base e + hv (dst e)
    have h2 : hv (src e) ≤ base e + hv (dst e) := by
      rcases e with _ | _ | _ | _ | _ | e
      · norm_num [hv, src, base, dst]
      · norm_num [hv, src, base, dst]
      · norm_num [hv, src, base, dst]
      · norm_num [hv, src, base, dst]
      · norm_num [hv, src, base, dst]
      · show hv 9 ≤ 1 + hv 9
        norm_num [hv]
    linarith

def routeSummary (r : Except ErrKind (SearchResult ℚ)) :
    Option (List (Nat × List ℚ) × Nat × Option ℚ) :=
  match r with
  | .ok res => res.route.map (fun rt => (rt.map (fun b => (b.edge, b.state)), res.final.iters,
      res.final.g 3))
  | .error _ => none

example : routeSummary (runVertexOriented inst 0 (some 3) [0, 1, 2, 3]) =
    some ([(0, [1]), (3, [7 / 2]), (4, [9 / 2])], 3, some (9 / 2)) := by decide +kernel

/-- the theorems apply: the route's links are fresh, its cost is the target's label, and the
number of expansions is at most the number of vertices -/
example : ∃ res route, runVertexOriented inst 0 (some 3) [0, 1, 2, 3] = .ok res ∧
    res.route = some route ∧ route.map (·.edge) = [0, 3, 4] ∧ LinksFresh inst none route ∧
    (route.map (fun b => b.access + b.traversal)).sum = 9 / 2 ∧ res.final.iters ≤ 4 := by
  have hsum : routeSummary (runVertexOriented inst 0 (some 3) [0, 1, 2, 3]) =
      some ([(0, [1]), (3, [7 / 2]), (4, [9 / 2])], 3, some (9 / 2)) := by decide +kernel
  cases hrun : runVertexOriented inst 0 (some 3) [0, 1, 2, 3] with
  | error k => rw [hrun] at hsum; simp [routeSummary] at hsum
  | ok res =>
    obtain ⟨route, hr, _, _, hlinks, _⟩ := route_links_fresh inst_wf inst_zeroH (by decide) hrun
    obtain ⟨route', gt, hr', hgt, hcost⟩ := route_cost_eq_label inst_wf inst_zeroH (by decide) hrun
    rw [hr] at hr'
    cases hr'
    rw [hrun] at hsum
    simp only [routeSummary, hr, Option.map_some, Option.some.injEq, Prod.mk.injEq] at hsum
    obtain ⟨h1, h2, h3⟩ := hsum
    refine ⟨res, route, rfl, hr, ?_, hlinks, ?_, by omega⟩
    · have := congrArg (List.map Prod.fst) h1
      simpa [List.map_map, Function.comp_def] using this
    · rw [hgt] at h3
      cases h3
      exact hcost

/-- A* with the consistent heuristic: the discipline applies as well -/
example : ∃ res route, runVertexOriented instA 0 (some 3) [0, 1, 2, 3] = .ok res ∧
    res.route = some route ∧ LinksFresh instA none route ∧ res.final.iters ≤ 4 := by
  have hsum : routeSummary (runVertexOriented instA 0 (some 3) [0, 1, 2, 3]) =
      some ([(0, [1]), (3, [7 / 2]), (4, [9 / 2])], 3, some (9 / 2)) := by decide +kernel
  cases hrun : runVertexOriented instA 0 (some 3) [0, 1, 2, 3] with
  | error k => rw [hrun] at hsum; simp [routeSummary] at hsum
  | ok res =>
    obtain ⟨route, hr, _, _, hlinks, _⟩ :=
      route_links_fresh_of_heur instA_wf instA_heur (by decide) hrun
    rw [hrun] at hsum
    simp only [routeSummary, hr, Option.map_some, Option.some.injEq, Prod.mk.injEq] at hsum
    exact ⟨res, route, rfl, hr, hlinks, by omega⟩

end Example

end SearchDiscipline
end Compass
