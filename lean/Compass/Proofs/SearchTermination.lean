/-
Termination and schedule existence for the search loop (`Model/Search.lean`).

Every other search theorem has the form "if `runAStar … sched = .ok res` then …": it speaks about a
schedule that somebody supplies.  This file shows that such schedules exist and that a run ends.

* **(a) progress** (`progress`): at every loop head a run can reach, a non-empty frontier has an
  entry of minimal priority, i.e. some pop is accepted (`popOk`).  Needs "one queue entry per
  vertex" (`QNodup`), an invariant of every run (`reach_qnodup`).  No hypothesis on the instance.
* **the outcome of a schedule** is *final* (`IsFinal`) when it is not one of the two errors of the
  replay mechanism (`scheduleExhausted`: the loop asks for another pop; `badSchedule`: the offered pop
  is not one the queue could return).  The outcome `scheduleExhausted` says exactly "every pop was
  accepted and the loop is not finished" (`exhausted_iff_reach`), when the components of the instance
  do not themselves answer with a replay error (`NoSchedErr`, true of every configured instance).
* **extension** (`extend_of_bound`): if no run expands more than `N` vertices, every accepted
  schedule extends to one of at most `N + 1` pops with a final outcome.
* **(b) termination under the discipline** (`terminates_of_heur`, `terminates_dijkstra`): for a
  well-formed instance (`SearchTree.WF`) over vertices `< nV` and a consistent vertex heuristic
  (Dijkstra: zero), each vertex is expanded at most once
  (`SearchDiscipline.reach_length_le_vertices`), so `N = nV`.
* **(c) general A\*** (re-opening: weight factor > 1 or an inconsistent estimate): proved too
  (`terminates_general`), from strict positivity of the costs alone; `N = |walks| + 1`, the number of
  walks of fewer than `nV` edges from the source — a termination proof, not a usable bound.
-/
import Compass.Proofs.SearchDiscipline
import Compass.Proofs.ConfigProgress
import Compass.Proofs.ConfigAdmissible
import Compass.Proofs.SearchReach

namespace Compass
namespace SearchTermination

set_option linter.unusedSectionVars false

open SearchTree (WF TreeInv)
open SearchLimits (Reach popped curOf startF emptyResult runLoop_unfold runLoop_turn
  runAStar_unfold)
open SearchDiscipline (Heur ZeroH)

variable {α : Type} [Field α] [LinearOrder α] [IsStrictOrderedRing α] [Lit α] [LawfulLit α]

/-! ### (a) Progress: a non-empty frontier always offers an accepted pop -/

/-- the frontier queue holds at most one entry per vertex -/
def QNodup (s : SState α) : Prop := (s.queue.map Prod.fst).Nodup

/-- a non-empty queue has an entry of minimal priority -/
theorem exists_min_entry : ∀ (q : List (Nat × α)), q ≠ [] → ∃ p ∈ q, ∀ p' ∈ q, p.2 ≤ p'.2
  | [], h => absurd rfl h
  | [p], _ => ⟨p, by simp, by simp⟩
  | p :: p2 :: q, _ => by
    obtain ⟨m, hm, hmin⟩ := exists_min_entry (p2 :: q) (by simp)
    by_cases h : p.2 ≤ m.2
    · refine ⟨p, by simp, ?_⟩
      intro p' hp'
      rcases List.mem_cons.1 hp' with rfl | hp'
      · exact le_refl _
      · exact le_trans h (hmin p' hp')
    · refine ⟨m, List.mem_cons_of_mem _ hm, ?_⟩
      intro p' hp'
      rcases List.mem_cons.1 hp' with rfl | hp'
      · exact le_of_lt (not_le.1 h)
      · exact hmin p' hp'

/-- with one entry per vertex, the vertex of an entry of minimal priority is an accepted pop -/
theorem popOk_of_min {q : List (Nat × α)} (hnd : (q.map Prod.fst).Nodup) {p : Nat × α}
    (hp : p ∈ q) (hmin : ∀ p' ∈ q, p.2 ≤ p'.2) : popOk q p.1 = true := by
  unfold popOk
  cases hfind : q.find? (fun x => x.1 == p.1) with
  | none =>
    rw [List.find?_eq_none] at hfind
    have := hfind p hp
    simp at this
  | some r =>
    have hr : r ∈ q := List.mem_of_find?_eq_some hfind
    have hk : r.1 = p.1 := by simpa using List.find?_some hfind
    have hrp : r = p := List.inj_on_of_nodup_map hnd hr hp hk
    subst hrp
    obtain ⟨a, f⟩ := r
    simp only [List.all_eq_true, Bool.not_eq_eq_eq_not, Bool.not_true, decide_eq_false_iff_not,
      not_lt]
    exact hmin

/-- with one entry per vertex: `v` is an accepted pop exactly when it has an entry of minimal
priority -/
theorem popOk_iff {q : List (Nat × α)} (hnd : (q.map Prod.fst).Nodup) (v : Nat) :
    popOk q v = true ↔ ∃ f, (v, f) ∈ q ∧ ∀ p ∈ q, f ≤ p.2 :=
  ⟨SearchOpt.popOk_spec, fun ⟨_, hf, hmin⟩ => popOk_of_min hnd hf hmin⟩

/-- **a non-empty queue with one entry per vertex offers an accepted pop** -/
theorem exists_popOk {q : List (Nat × α)} (hnd : (q.map Prod.fst).Nodup) (hq : q ≠ []) :
    ∃ v, popOk q v = true := by
  obtain ⟨p, hp, hmin⟩ := exists_min_entry q hq
  exact ⟨p.1, popOk_of_min hnd hp hmin⟩

/-! #### "one entry per vertex" is an invariant of every run -/

theorem relax_qnodup {I : Inst α} {hasTarget : Bool} {lastEdge : Option Nat} {curState : List α}
    {s s' : SState α} {e : Nat} (h : relax I hasTarget lastEdge curState s e = .ok s')
    (hq : QNodup s) : QNodup s' := by
  unfold relax at h
  split at h
  · cases h
  · cases h; exact hq
  · split at h
    · cases h
    · split at h
      · cases h; exact hq
      · simp only at h
        split at h
        · split at h
          · cases h
          · cases h
            exact SearchOpt.keys_pushIncrease_nodup _ _ hq
        · cases h; exact hq

theorem relaxAll_qnodup {I : Inst α} {hasTarget : Bool} {lastEdge : Option Nat}
    {curState : List α} :
    ∀ (es : List Nat) (s s' : SState α), relaxAll I hasTarget lastEdge curState es s = .ok s' →
      QNodup s → QNodup s'
  | [], s, s', h, hq => by
    simp only [relaxAll] at h
    cases h; exact hq
  | e :: es, s, s', h, hq => by
    simp only [relaxAll] at h
    split at h
    · cases h
    · rename_i s1 h1
      exact relaxAll_qnodup es s1 s' h (relax_qnodup h1 hq)

theorem turn_qnodup {I : Inst α} {source : Nat} {target : Option Nat} {s s' : SState α} {v : Nat}
    (ht : SearchLimits.Turn I source target s v s') (hq : QNodup s) : QNodup s' := by
  obtain ⟨_, _, _, _, lastEdge, st, s2, _, hrel, rfl⟩ := ht
  have hp : QNodup (popped s v) := SearchOpt.keys_filter_nodup _ hq
  exact (relaxAll_qnodup _ _ s2 hrel hp : QNodup s2)

theorem reach_qnodup {I : Inst α} {source : Nat} {target : Option Nat} {pre : List Nat}
    {s h : SState α} (hr : Reach I source target pre s h) (hq : QNodup s) : QNodup h := by
  induction hr with
  | here s => exact hq
  | turn ht _ ih => exact ih (turn_qnodup ht hq)

theorem initState_qnodup (source : Nat) (f0 : α) : QNodup (initState source f0) := by
  simp [QNodup, initState]

/-- **(a) PROGRESS**: at every loop head a run from the initial state can reach — whatever the
instance, the heuristic and the schedule so far — a non-empty frontier has an entry of minimal
priority: some vertex is an accepted pop, so the schedule can be extended -/
theorem progress {I : Inst α} {source : Nat} {target : Option Nat} {pre : List Nat} {f0 : α}
    {h : SState α} (hr : Reach I source target pre (initState source f0) h)
    (hne : h.queue.isEmpty = false) : ∃ v, popOk h.queue v = true :=
  exists_popOk (reach_qnodup hr (initState_qnodup source f0))
    (by intro hq; rw [hq] at hne; simp at hne)

/-! ### Final outcomes -/

/-- an outcome other than the two errors of the schedule replay (which have no counterpart in the
code): a result, "no path", a termination, a model error -/
def IsFinal {β : Type} : Except ErrKind β → Prop
  | .ok _ => True
  | .error k => k ≠ .scheduleExhausted ∧ k ≠ .badSchedule

@[simp] theorem isFinal_ok {β : Type} (x : β) : IsFinal (Except.ok x : Except ErrKind β) := trivial

theorem isFinal_error {β : Type} (k : ErrKind) :
    IsFinal (Except.error k : Except ErrKind β) ↔ k ≠ .scheduleExhausted ∧ k ≠ .badSchedule :=
  Iff.rfl

theorem IsFinal.ne {β : Type} {r : Except ErrKind β} (h : IsFinal r) :
    r ≠ .error .scheduleExhausted ∧ r ≠ .error .badSchedule := by
  cases r with
  | ok x => exact ⟨by simp, by simp⟩
  | error k =>
    obtain ⟨h1, h2⟩ := h
    exact ⟨fun h => h1 (by injection h), fun h => h2 (by injection h)⟩

theorem isFinal_iff {β : Type} (r : Except ErrKind β) :
    IsFinal r ↔ r ≠ .error .scheduleExhausted ∧ r ≠ .error .badSchedule := by
  refine ⟨IsFinal.ne, fun ⟨h1, h2⟩ => ?_⟩
  cases r with
  | ok x => trivial
  | error k => exact ⟨fun h => h1 (by rw [h]), fun h => h2 (by rw [h])⟩

/-- an error of one type is final exactly when the same error of another type is -/
theorem IsFinal.error_cast {β γ : Type} {k : ErrKind}
    (h : IsFinal (Except.error k : Except ErrKind β)) : IsFinal (Except.error k : Except ErrKind γ) :=
  h

/-- the components of the instance never answer with an error of the schedule replay (true of every
configured instance, `config_noSchedErr`) -/
structure NoSchedErr (I : Inst α) : Prop where
  valid : ∀ e st le, IsFinal (I.valid e st le)
  trav : ∀ e le st, IsFinal (I.trav e le st)
  h : ∀ v st, IsFinal (I.h v st)
  term : ∀ sz it, IsFinal (I.term sz it)

/-- an error of one relaxation is the error of one of the three calls it makes -/
theorem relax_error {I : Inst α} {hasTarget : Bool} {lastEdge : Option Nat} {curState : List α}
    {s : SState α} {e : Nat} {k : ErrKind}
    (h : relax I hasTarget lastEdge curState s e = .error k) :
    I.valid e curState lastEdge = .error k ∨ I.trav e lastEdge curState = .error k ∨
      I.h (I.keyV e) curState = .error k := by
  unfold relax at h
  split at h
  · rename_i k' hk; cases h; exact Or.inl hk
  · cases h
  · split at h
    · rename_i k' hk; cases h; exact Or.inr (Or.inl hk)
    · split at h
      · cases h
      · simp only at h
        split at h
        · split at h
          · rename_i k' hk
            cases h
            cases hasTarget with
            | true => exact Or.inr (Or.inr hk)
            | false => simp at hk
          · cases h
        · cases h

/-- an error of the `for` loop is the error of a call made for one of its edges -/
theorem relaxAll_error {I : Inst α} {hasTarget : Bool} {lastEdge : Option Nat} {curState : List α}
    {k : ErrKind} :
    ∀ (es : List Nat) (s : SState α), relaxAll I hasTarget lastEdge curState es s = .error k →
      ∃ e ∈ es, I.valid e curState lastEdge = .error k ∨ I.trav e lastEdge curState = .error k ∨
        I.h (I.keyV e) curState = .error k
  | [], s, h => by simp [relaxAll] at h
  | e :: es, s, h => by
    simp only [relaxAll] at h
    split at h
    · rename_i k' hk
      cases h
      exact ⟨e, List.mem_cons_self, relax_error hk⟩
    · obtain ⟨e', he', h'⟩ := relaxAll_error es _ h
      exact ⟨e', List.mem_cons_of_mem _ he', h'⟩

theorem relaxAll_error_final {I : Inst α} (hS : NoSchedErr I) {hasTarget : Bool}
    {lastEdge : Option Nat} {curState : List α} {k : ErrKind} {es : List Nat} {s : SState α}
    (h : relaxAll I hasTarget lastEdge curState es s = .error k) :
    k ≠ .scheduleExhausted ∧ k ≠ .badSchedule := by
  obtain ⟨e, _, h1 | h1 | h1⟩ := relaxAll_error es s h
  · have := hS.valid e curState lastEdge; rw [h1] at this; exact this
  · have := hS.trav e lastEdge curState; rw [h1] at this; exact this
  · have := hS.h (I.keyV e) curState; rw [h1] at this; exact this

/-! ### One loop head -/

/-- at a loop head with one queue entry per vertex: the loop ends here without a pop (limit, empty
queue), or some accepted pop ends the run (the target; an error of the expansion), or some accepted
pop completes a turn -/
theorem head_step {I : Inst α} (hS : NoSchedErr I) (source : Nat) (target : Option Nat)
    {h : SState α} (hq : QNodup h) :
    IsFinal (runLoop I source target [] h) ∨
    (∃ v, popOk h.queue v = true ∧ IsFinal (runLoop I source target [v] h)) ∨
    (∃ v h', SearchLimits.Turn I source target h v h') := by
  cases hterm : I.term h.solSize h.iters with
  | error k =>
    left
    rw [runLoop_unfold]
    simp only [hterm]
    have := hS.term h.solSize h.iters
    rw [hterm] at this
    exact this
  | ok u =>
    cases u
    cases hemp : h.queue.isEmpty with
    | true =>
      left
      rw [runLoop_unfold]
      simp only [hterm, hemp, if_true]
      cases target with
      | none => trivial
      | some t => exact ⟨by simp, by simp⟩
    | false =>
      right
      obtain ⟨v, hpop⟩ := exists_popOk hq (by intro h0; rw [h0] at hemp; simp at hemp)
      by_cases htv : target = some v
      · left
        refine ⟨v, hpop, ?_⟩
        rw [runLoop_unfold]
        simp [hterm, hemp, hpop, htv]
      · have htv' : (target == some v) = false := by simpa using htv
        cases hcur : curOf I source h v with
        | none =>
          left
          refine ⟨v, hpop, ?_⟩
          rw [runLoop_unfold]
          simp only [hterm, hemp, hpop, htv', hcur, Bool.false_eq_true, if_false, Bool.not_true]
          exact ⟨by simp, by simp⟩
        | some ls =>
          obtain ⟨lastEdge, st⟩ := ls
          cases hrel : relaxAll I target.isSome lastEdge st (I.incident v) (popped h v) with
          | error k =>
            left
            refine ⟨v, hpop, ?_⟩
            rw [runLoop_unfold]
            simp only [hterm, hemp, hpop, htv', hcur, hrel, Bool.false_eq_true, if_false,
              Bool.not_true]
            exact relaxAll_error_final hS hrel
          | ok s2 =>
            right
            exact ⟨v, _, ⟨hterm, hemp, hpop, htv, lastEdge, st, s2, hcur, hrel, rfl⟩⟩

/-! ### Extension to a final outcome -/

/-- **extension**: if no run from `s0` expands more than `N` vertices, then from every loop head the
run reaches (after the accepted pops `pre`) there is a continuation `ext` with a final outcome, and
`pre ++ ext` has at most `N + 1` pops -/
theorem extend_of_bound {I : Inst α} (hS : NoSchedErr I) {source : Nat} {target : Option Nat}
    {s0 : SState α} {N : Nat} (hq0 : QNodup s0)
    (hN : ∀ pre h, Reach I source target pre s0 h → pre.length ≤ N) :
    ∀ (n : Nat) (pre : List Nat) (h : SState α), Reach I source target pre s0 h →
      N - pre.length ≤ n →
      ∃ ext, pre.length + ext.length ≤ N + 1 ∧ IsFinal (runLoop I source target ext h) := by
  intro n
  induction n with
  | zero =>
    intro pre h hr hn
    have hle := hN pre h hr
    rcases head_step hS source target (reach_qnodup hr hq0) with h1 | ⟨v, _, h1⟩ | ⟨v, h', ht⟩
    · exact ⟨[], by simp; omega, h1⟩
    · exact ⟨[v], by simp; omega, h1⟩
    · have := hN _ _ (hr.snoc ht)
      simp at this
      omega
  | succ n ih =>
    intro pre h hr hn
    have hle := hN pre h hr
    rcases head_step hS source target (reach_qnodup hr hq0) with h1 | ⟨v, _, h1⟩ | ⟨v, h', ht⟩
    · exact ⟨[], by simp; omega, h1⟩
    · exact ⟨[v], by simp; omega, h1⟩
    · have hr' := hr.snoc ht
      have hle' := hN _ _ hr'
      simp only [List.length_append, List.length_singleton] at hle'
      obtain ⟨ext, hlen, hfin⟩ := ih (pre ++ [v]) h' hr'
        (by simp only [List.length_append, List.length_singleton]; omega)
      simp only [List.length_append, List.length_singleton] at hlen
      refine ⟨v :: ext, by simp only [List.length_cons]; omega, ?_⟩
      rw [runLoop_turn ht]
      exact hfin

/-! ### `scheduleExhausted` = "accepted so far, not finished" -/

/-- a run that ends asking for another pop went through one complete turn per scheduled vertex and
stands at a loop head that passes the limit test with a non-empty queue -/
theorem runLoop_exhausted_reach {I : Inst α} (hS : NoSchedErr I) {source : Nat}
    {target : Option Nat} :
    ∀ (sched : List Nat) (s : SState α),
      runLoop I source target sched s = .error .scheduleExhausted →
      ∃ h, Reach I source target sched s h ∧ I.term h.solSize h.iters = .ok () ∧
        h.queue.isEmpty = false := by
  intro sched
  induction sched with
  | nil =>
    intro s hrun
    rw [runLoop_unfold] at hrun
    split at hrun
    · rename_i k hk
      cases hrun
      have := hS.term s.solSize s.iters
      rw [hk] at this
      exact absurd rfl this.1
    · rename_i hterm
      split at hrun
      · split at hrun <;> cases hrun
      · rename_i hemp
        exact ⟨s, Reach.here s, hterm, by simpa using hemp⟩
  | cons v rest ih =>
    intro s hrun
    rw [runLoop_unfold] at hrun
    split at hrun
    · rename_i k hk
      cases hrun
      have := hS.term s.solSize s.iters
      rw [hk] at this
      exact absurd rfl this.1
    · rename_i hterm
      split at hrun
      · split at hrun <;> cases hrun
      · rename_i hemp
        simp only at hrun
        split at hrun
        · cases hrun
        · rename_i hpop
          split at hrun
          · cases hrun
          · rename_i htgt
            split at hrun
            · cases hrun
            · rename_i lastEdge st hcur
              split at hrun
              · rename_i k hk
                cases hrun
                exact absurd rfl (relaxAll_error_final hS hk).1
              · rename_i s2 hrel
                have ht : SearchLimits.Turn I source target s v { s2 with iters := s2.iters + 1 } :=
                  ⟨hterm, by simpa using hemp, by simpa using hpop, by simpa using htgt,
                    lastEdge, st, s2, hcur, hrel, rfl⟩
                obtain ⟨h, hr, h1, h2⟩ := ih _ hrun
                exact ⟨h, Reach.turn ht hr, h1, h2⟩

/-- conversely -/
theorem reach_exhausted {I : Inst α} {source : Nat} {target : Option Nat} {pre : List Nat}
    {s h : SState α} (hr : Reach I source target pre s h)
    (hterm : I.term h.solSize h.iters = .ok ()) (hne : h.queue.isEmpty = false) :
    runLoop I source target pre s = .error .scheduleExhausted := by
  have := hr.runLoop_eq []
  rw [List.append_nil] at this
  rw [this, runLoop_unfold]
  simp [hterm, hne]

/-- the outcome `scheduleExhausted` says exactly: every scheduled pop was accepted and completed a
turn, and the loop is not finished -/
theorem exhausted_iff_reach {I : Inst α} (hS : NoSchedErr I) {source : Nat} {target : Option Nat}
    (sched : List Nat) (s : SState α) :
    runLoop I source target sched s = .error .scheduleExhausted ↔
      ∃ h, Reach I source target sched s h ∧ I.term h.solSize h.iters = .ok () ∧
        h.queue.isEmpty = false :=
  ⟨runLoop_exhausted_reach hS sched s, fun ⟨_, hr, h1, h2⟩ => reach_exhausted hr h1 h2⟩

/-! ### `run_a_star` and `run_vertex_oriented` -/

/-- **existence and extension for `run_a_star`** from a bound `N` on the number of expansions of any
run: (1) some schedule of at most `N + 1` pops has a final outcome; (2) every accepted, unfinished
schedule has at most `N` pops and extends to a schedule of at most `N + 1` pops with a final outcome
— whatever tie-breaking produced it -/
theorem runAStar_final_of_bound {I : Inst α} (hS : NoSchedErr I) {source : Nat}
    {target : Option Nat} {N : Nat}
    (hN : ∀ f0, startF I source target = .ok f0 → ∀ pre h,
      Reach I source target pre (initState source f0) h → pre.length ≤ N) :
    (∃ sched, sched.length ≤ N + 1 ∧ IsFinal (runAStar I source target sched)) ∧
    ∀ pre, runAStar I source target pre = .error .scheduleExhausted →
      pre.length ≤ N ∧ ∃ ext, (pre ++ ext).length ≤ N + 1 ∧
        IsFinal (runAStar I source target (pre ++ ext)) := by
  by_cases hts : target = some source
  · refine ⟨⟨[], by simp, ?_⟩, ?_⟩
    · rw [runAStar_unfold]; simp [hts]
    · intro pre hpre
      rw [runAStar_unfold] at hpre
      simp [hts] at hpre
  · cases hf : startF I source target with
    | error k =>
      have hk : k ≠ .scheduleExhausted ∧ k ≠ .badSchedule := by
        unfold startF at hf
        cases target with
        | none => cases hf
        | some t =>
          have := hS.h source I.init
          simp only at hf
          rw [hf] at this
          exact this
      refine ⟨⟨[], by simp, ?_⟩, ?_⟩
      · rw [runAStar_unfold]; simp only [hts, if_false, hf]; exact hk
      · intro pre hpre
        rw [runAStar_unfold] at hpre
        simp only [hts, if_false, hf] at hpre
        injection hpre with hpre
        exact absurd hpre hk.1
    | ok f0 =>
      have hb := hN f0 hf
      have hq0 := initState_qnodup source f0
      refine ⟨?_, ?_⟩
      · obtain ⟨ext, hlen, hfin⟩ := extend_of_bound hS hq0 hb N [] _ (Reach.here _) (by simp)
        refine ⟨ext, by simpa using hlen, ?_⟩
        rw [runAStar_unfold]; simp only [hts, if_false, hf]; exact hfin
      · intro pre hpre
        rw [runAStar_unfold] at hpre
        simp only [hts, if_false, hf] at hpre
        obtain ⟨h, hr, _, _⟩ := runLoop_exhausted_reach hS pre _ hpre
        obtain ⟨ext, hlen, hfin⟩ := extend_of_bound hS hq0 hb N pre h hr (by omega)
        refine ⟨hb pre h hr, ext, by simpa using hlen, ?_⟩
        rw [runAStar_unfold]; simp only [hts, if_false, hf]
        rw [hr.runLoop_eq]
        exact hfin

/-- `backtrack` fails only with the two errors of its own -/
theorem backtrackAux_error_kind {source : Nat} {sol : Nat → Option (Branch α)} {k : ErrKind} :
    ∀ (fuel v : Nat) (visited : List Nat) (acc : List (Branch α)),
      backtrackAux source sol fuel v visited acc = .error k →
      k = .internal ∨ k = .panic "backtrack-fuel"
  | 0, _, _, _, h => by simp only [backtrackAux] at h; cases h; exact Or.inr rfl
  | fuel + 1, v, visited, acc, h => by
    simp only [backtrackAux] at h
    split at h
    · cases h
    · split at h
      · cases h; exact Or.inl rfl
      · split at h
        · cases h; exact Or.inl rfl
        · exact backtrackAux_error_kind fuel _ _ _ h

/-- `run_vertex_oriented` ends with a replay error exactly when `run_a_star` does (the backtrack
adds none) -/
theorem runVertexOriented_error_sched {I : Inst α} (source : Nat) (target : Option Nat)
    (sched : List Nat) {k : ErrKind} (hk : k = .scheduleExhausted ∨ k = .badSchedule) :
    runVertexOriented I source target sched = .error k ↔
      runAStar I source target sched = .error k := by
  unfold runVertexOriented
  cases hrun : runAStar I source target sched with
  | error k' => simp
  | ok s =>
    simp only
    cases target with
    | none => simp
    | some t =>
      simp only
      cases hb : backtrack source t s.sol (s.solSize + 1) with
      | ok r => simp
      | error k' =>
        simp only [Except.error.injEq, reduceCtorEq, iff_false]
        intro hkk
        subst hkk
        unfold backtrack at hb
        rcases backtrackAux_error_kind _ _ _ _ hb with h | h <;> rcases hk with hk | hk <;>
          rw [h] at hk <;> cases hk

theorem runVertexOriented_isFinal_iff {I : Inst α} (source : Nat) (target : Option Nat)
    (sched : List Nat) :
    IsFinal (runVertexOriented I source target sched) ↔ IsFinal (runAStar I source target sched) := by
  rw [isFinal_iff, isFinal_iff, Ne, Ne, Ne, Ne,
    runVertexOriented_error_sched source target sched (Or.inl rfl),
    runVertexOriented_error_sched source target sched (Or.inr rfl)]

/-- `runAStar_final_of_bound` for `run_vertex_oriented` -/
theorem runVertexOriented_final_of_bound {I : Inst α} (hS : NoSchedErr I) {source : Nat}
    {target : Option Nat} {N : Nat}
    (hN : ∀ f0, startF I source target = .ok f0 → ∀ pre h,
      Reach I source target pre (initState source f0) h → pre.length ≤ N) :
    (∃ sched, sched.length ≤ N + 1 ∧ IsFinal (runVertexOriented I source target sched)) ∧
    ∀ pre, runVertexOriented I source target pre = .error .scheduleExhausted →
      pre.length ≤ N ∧ ∃ ext, (pre ++ ext).length ≤ N + 1 ∧
        IsFinal (runVertexOriented I source target (pre ++ ext)) := by
  obtain ⟨⟨sched, h1, h2⟩, h3⟩ := runAStar_final_of_bound hS hN
  refine ⟨⟨sched, h1, (runVertexOriented_isFinal_iff _ _ _).2 h2⟩, ?_⟩
  intro pre hpre
  obtain ⟨h4, ext, h5, h6⟩ :=
    h3 pre ((runVertexOriented_error_sched source target pre (Or.inl rfl)).1 hpre)
  exact ⟨h4, ext, h5, (runVertexOriented_isFinal_iff _ _ _).2 h6⟩

/-! ### (b) Termination under the discipline -/

/-- the bound under the discipline: no run expands more than `nV` vertices -/
theorem heur_bound {I : Inst α} (hI : WF I) {H : Nat → α} {source nV : Nat} (hsrc : source < nV)
    (hkey : ∀ e, I.keyV e < nV) {target : Option Nat} (hH : Heur I target.isSome H) :
    ∀ f0, startF I source target = .ok f0 → ∀ pre h,
      Reach I source target pre (initState source f0) h → pre.length ≤ nV := by
  intro f0 hf0 pre h hr
  have := SearchDiscipline.startF_eq hH hf0
  subst this
  exact SearchDiscipline.reach_length_le_vertices hI hsrc hkey hH hr

/-- **(b) TERMINATION, consistent heuristic**: a well-formed instance over the vertices `< nV` whose
estimate is a consistent function of the vertex (`Heur`; costs and validity may depend on the state
and on the previous edge).  (1) There is a schedule of at most `nV + 1` pops on which `run_a_star`
has a final outcome; (2) every accepted, unfinished schedule has at most `nV` pops and extends to one
of at most `nV + 1` pops with a final outcome. -/
theorem terminates_of_heur {I : Inst α} (hI : WF I) (hS : NoSchedErr I) {H : Nat → α}
    {source nV : Nat} (hsrc : source < nV) (hkey : ∀ e, I.keyV e < nV) {target : Option Nat}
    (hH : Heur I target.isSome H) :
    (∃ sched, sched.length ≤ nV + 1 ∧ IsFinal (runAStar I source target sched)) ∧
    ∀ pre, runAStar I source target pre = .error .scheduleExhausted →
      pre.length ≤ nV ∧ ∃ ext, (pre ++ ext).length ≤ nV + 1 ∧
        IsFinal (runAStar I source target (pre ++ ext)) :=
  runAStar_final_of_bound hS (heur_bound hI hsrc hkey hH)

/-- **(b) TERMINATION, Dijkstra** (the estimate, whenever it answers, answers zero) -/
theorem terminates_dijkstra {I : Inst α} (hI : WF I) (hS : NoSchedErr I) (hh : ZeroH I)
    {source nV : Nat} (hsrc : source < nV) (hkey : ∀ e, I.keyV e < nV) (target : Option Nat) :
    (∃ sched, sched.length ≤ nV + 1 ∧ IsFinal (runAStar I source target sched)) ∧
    ∀ pre, runAStar I source target pre = .error .scheduleExhausted →
      pre.length ≤ nV ∧ ∃ ext, (pre ++ ext).length ≤ nV + 1 ∧
        IsFinal (runAStar I source target (pre ++ ext)) :=
  terminates_of_heur hI hS hsrc hkey (hh.heur hI _)

/-- the same for `run_vertex_oriented` (search + backtrack) -/
theorem route_search_terminates_of_heur {I : Inst α} (hI : WF I) (hS : NoSchedErr I) {H : Nat → α}
    {source nV : Nat} (hsrc : source < nV) (hkey : ∀ e, I.keyV e < nV) {target : Option Nat}
    (hH : Heur I target.isSome H) :
    (∃ sched, sched.length ≤ nV + 1 ∧ IsFinal (runVertexOriented I source target sched)) ∧
    ∀ pre, runVertexOriented I source target pre = .error .scheduleExhausted →
      pre.length ≤ nV ∧ ∃ ext, (pre ++ ext).length ≤ nV + 1 ∧
        IsFinal (runVertexOriented I source target (pre ++ ext)) :=
  runVertexOriented_final_of_bound hS (heur_bound hI hsrc hkey hH)

/-! ### Where an error of a run comes from -/

/-- an error of the loop, started in a state satisfying the tree invariant, is "no path", a replay
error, or the error of a call of one of the four components — never the loop's own
"vertex missing from solution" -/
theorem runLoop_error_origin {I : Inst α} (hI : WF I) {source : Nat} {target : Option Nat}
    {k : ErrKind} :
    ∀ (sched : List Nat) (s : SState α), TreeInv I source s →
      runLoop I source target sched s = .error k →
      k = .noPath ∨ k = .scheduleExhausted ∨ k = .badSchedule ∨
      (∃ sz it, I.term sz it = .error k) ∨ (∃ e st le, I.valid e st le = .error k) ∨
      (∃ e le st, I.trav e le st = .error k) ∨ (∃ v st, I.h v st = .error k) := by
  intro sched
  induction sched with
  | nil =>
    intro s _ hrun
    rw [runLoop_unfold] at hrun
    split at hrun
    · rename_i k' hk; cases hrun; exact Or.inr (Or.inr (Or.inr (Or.inl ⟨_, _, hk⟩)))
    · split at hrun
      · split at hrun
        · cases hrun; exact Or.inl rfl
        · cases hrun
      · cases hrun; exact Or.inr (Or.inl rfl)
  | cons v rest ih =>
    intro s hinv hrun
    rw [runLoop_unfold] at hrun
    split at hrun
    · rename_i k' hk; cases hrun; exact Or.inr (Or.inr (Or.inr (Or.inl ⟨_, _, hk⟩)))
    · split at hrun
      · split at hrun
        · cases hrun; exact Or.inl rfl
        · cases hrun
      · simp only at hrun
        split at hrun
        · cases hrun; exact Or.inr (Or.inr (Or.inl rfl))
        · rename_i hpop
          have hpop' : popOk s.queue v = true := by simpa using hpop
          split at hrun
          · cases hrun
          · split at hrun
            · rename_i hcur
              exfalso
              unfold curOf at hcur
              rcases SearchTree.popped_has_entry hinv hpop' with hv | hv
              · simp [hv] at hcur
              · by_cases hvs : v = source
                · simp [hvs] at hcur
                · obtain ⟨b, hb⟩ := Option.isSome_iff_exists.1 hv
                  simp [hvs, hb] at hcur
            · rename_i lastEdge st hcur
              split at hrun
              · rename_i k' hk
                cases hrun
                obtain ⟨e, _, h1 | h1 | h1⟩ := relaxAll_error _ _ hk
                · exact Or.inr (Or.inr (Or.inr (Or.inr (Or.inl ⟨_, _, _, h1⟩))))
                · exact Or.inr (Or.inr (Or.inr (Or.inr (Or.inr (Or.inl ⟨_, _, _, h1⟩)))))
                · exact Or.inr (Or.inr (Or.inr (Or.inr (Or.inr (Or.inr ⟨_, _, h1⟩)))))
              · rename_i s2 hrel
                have h2 : TreeInv I source s2 :=
                  SearchTree.relaxAll_incident_treeInv hI v (hinv.pop v) hrel
                exact ih _ h2.bump hrun

/-- `runLoop_error_origin` with the limit arm located: the failing limit test is the one made at a
loop head the run **reached** (`Reach`), so its two arguments are that head's `solution.len()` and
`iterations` — which the bounds on reachable heads (`reach_length_le_vertices`, `general_bound`,
`Reach.solSize_le`) bound -/
theorem runLoop_error_origin_reach {I : Inst α} (hI : WF I) {source : Nat} {target : Option Nat}
    {k : ErrKind} :
    ∀ (sched : List Nat) (s : SState α), TreeInv I source s →
      runLoop I source target sched s = .error k →
      k = .noPath ∨ k = .scheduleExhausted ∨ k = .badSchedule ∨
      (∃ pre hd, Reach I source target pre s hd ∧ I.term hd.solSize hd.iters = .error k) ∨
      (∃ e st le, I.valid e st le = .error k) ∨
      (∃ e le st, I.trav e le st = .error k) ∨ (∃ v st, I.h v st = .error k) := by
  intro sched
  induction sched with
  | nil =>
    intro s _ hrun
    rw [runLoop_unfold] at hrun
    split at hrun
    · rename_i k' hk; cases hrun
      exact Or.inr (Or.inr (Or.inr (Or.inl ⟨[], s, Reach.here s, hk⟩)))
    · split at hrun
      · split at hrun
        · cases hrun; exact Or.inl rfl
        · cases hrun
      · cases hrun; exact Or.inr (Or.inl rfl)
  | cons v rest ih =>
    intro s hinv hrun
    rw [runLoop_unfold] at hrun
    split at hrun
    · rename_i k' hk; cases hrun
      exact Or.inr (Or.inr (Or.inr (Or.inl ⟨[], s, Reach.here s, hk⟩)))
    · rename_i hterm
      split at hrun
      · split at hrun
        · cases hrun; exact Or.inl rfl
        · cases hrun
      · rename_i hemp
        have hemp' : s.queue.isEmpty = false := by simpa using hemp
        simp only at hrun
        split at hrun
        · cases hrun; exact Or.inr (Or.inr (Or.inl rfl))
        · rename_i hpop
          have hpop' : popOk s.queue v = true := by simpa using hpop
          split at hrun
          · cases hrun
          · rename_i htgt
            have htv : target ≠ some v := by simpa using htgt
            split at hrun
            · rename_i hcur
              exfalso
              unfold curOf at hcur
              rcases SearchTree.popped_has_entry hinv hpop' with hv | hv
              · simp [hv] at hcur
              · by_cases hvs : v = source
                · simp [hvs] at hcur
                · obtain ⟨b, hb⟩ := Option.isSome_iff_exists.1 hv
                  simp [hvs, hb] at hcur
            · rename_i lastEdge st hcur
              split at hrun
              · rename_i k' hk
                cases hrun
                obtain ⟨e, _, h1 | h1 | h1⟩ := relaxAll_error _ _ hk
                · exact Or.inr (Or.inr (Or.inr (Or.inr (Or.inl ⟨_, _, _, h1⟩))))
                · exact Or.inr (Or.inr (Or.inr (Or.inr (Or.inr (Or.inl ⟨_, _, _, h1⟩)))))
                · exact Or.inr (Or.inr (Or.inr (Or.inr (Or.inr (Or.inr ⟨_, _, h1⟩)))))
              · rename_i s2 hrel
                have h2 : TreeInv I source s2 :=
                  SearchTree.relaxAll_incident_treeInv hI v (hinv.pop v) hrel
                have ht : SearchLimits.Turn I source target s v { s2 with iters := s2.iters + 1 } :=
                  ⟨hterm, hemp', hpop', htv, lastEdge, st, s2, hcur, hrel, rfl⟩
                rcases ih _ h2.bump hrun with h | h | h | ⟨pre, hd, hr, hk⟩ | h | h | h
                · exact Or.inl h
                · exact Or.inr (Or.inl h)
                · exact Or.inr (Or.inr (Or.inl h))
                · exact Or.inr (Or.inr (Or.inr (Or.inl ⟨v :: pre, hd, Reach.turn ht hr, hk⟩)))
                · exact Or.inr (Or.inr (Or.inr (Or.inr (Or.inl h))))
                · exact Or.inr (Or.inr (Or.inr (Or.inr (Or.inr (Or.inl h)))))
                · exact Or.inr (Or.inr (Or.inr (Or.inr (Or.inr (Or.inr h)))))

/-- `solution.len()` grows by at most the number of incident edges per turn -/
theorem _root_.Compass.SearchLimits.Reach.solSize_le {I : Inst α} {D : Nat} (hD : ∀ v, (I.incident v).length ≤ D)
    {source : Nat} {target : Option Nat} {pre : List Nat} {s hd : SState α}
    (hr : Reach I source target pre s hd) : hd.solSize ≤ s.solSize + pre.length * D := by
  induction hr with
  | here s => simp
  | @turn v rest s s1 hd ht _ ih =>
    have h1 := ht.counters.2.2
    have h2 := hD v
    simp only [List.length_cons, Nat.add_mul, Nat.one_mul]
    omega

/-- the same for `run_vertex_oriented`: the backtrack never fails either -/
theorem runVertexOriented_error_origin {I : Inst α} (hI : WF I) {source : Nat}
    {target : Option Nat} {sched : List Nat} {k : ErrKind}
    (h : runVertexOriented I source target sched = .error k) :
    k = .noPath ∨ k = .scheduleExhausted ∨ k = .badSchedule ∨
    (∃ sz it, I.term sz it = .error k) ∨ (∃ e st le, I.valid e st le = .error k) ∨
    (∃ e le st, I.trav e le st = .error k) ∨ (∃ v st, I.h v st = .error k) := by
  have hra : runAStar I source target sched = .error k := by
    cases target with
    | none =>
      unfold runVertexOriented at h
      split at h
      · rename_i k' hk; cases h; exact hk
      · cases h
    | some t =>
      by_cases hts : t = source
      · subst hts
        obtain ⟨res, hres, _⟩ := SearchTree.runVertexOriented_source I t sched
        rw [hres] at h; cases h
      · exact SearchTree.runVertexOriented_error hI source t sched _ hts h
  rw [runAStar_unfold] at hra
  split at hra
  · cases hra
  · split at hra
    · rename_i k' hk
      cases hra
      unfold startF at hk
      cases target with
      | none => cases hk
      | some t => exact Or.inr (Or.inr (Or.inr (Or.inr (Or.inr (Or.inr ⟨_, _, hk⟩)))))
    · rename_i f0 _
      exact runLoop_error_origin hI sched _ (SearchTree.initState_treeInv I source f0) hra

/-- `runVertexOriented_error_origin` with the limit arm located at a loop head reached from the
initial state -/
theorem runVertexOriented_error_origin_reach {I : Inst α} (hI : WF I) {source : Nat}
    {target : Option Nat} {sched : List Nat} {k : ErrKind}
    (h : runVertexOriented I source target sched = .error k) :
    k = .noPath ∨ k = .scheduleExhausted ∨ k = .badSchedule ∨
    (∃ f0 pre hd, startF I source target = .ok f0 ∧
      Reach I source target pre (initState source f0) hd ∧
      I.term hd.solSize hd.iters = .error k) ∨
    (∃ e st le, I.valid e st le = .error k) ∨
    (∃ e le st, I.trav e le st = .error k) ∨ (∃ v st, I.h v st = .error k) := by
  have hra : runAStar I source target sched = .error k := by
    cases target with
    | none =>
      unfold runVertexOriented at h
      split at h
      · rename_i k' hk; cases h; exact hk
      · cases h
    | some t =>
      by_cases hts : t = source
      · subst hts
        obtain ⟨res, hres, _⟩ := SearchTree.runVertexOriented_source I t sched
        rw [hres] at h; cases h
      · exact SearchTree.runVertexOriented_error hI source t sched _ hts h
  rw [runAStar_unfold] at hra
  split at hra
  · cases hra
  · split at hra
    · rename_i k' hk
      cases hra
      unfold startF at hk
      cases target with
      | none => cases hk
      | some t => exact Or.inr (Or.inr (Or.inr (Or.inr (Or.inr (Or.inr ⟨_, _, hk⟩)))))
    · rename_i f0 hf0
      rcases runLoop_error_origin_reach hI sched _ (SearchTree.initState_treeInv I source f0) hra
        with h | h | h | ⟨pre, hd, hr, hk⟩ | h | h | h
      · exact Or.inl h
      · exact Or.inr (Or.inl h)
      · exact Or.inr (Or.inr (Or.inl h))
      · exact Or.inr (Or.inr (Or.inr (Or.inl ⟨f0, pre, hd, hf0, hr, hk⟩)))
      · exact Or.inr (Or.inr (Or.inr (Or.inr (Or.inl h))))
      · exact Or.inr (Or.inr (Or.inr (Or.inr (Or.inr (Or.inl h)))))
      · exact Or.inr (Or.inr (Or.inr (Or.inr (Or.inr (Or.inr h)))))

/-- a limit test made in a run from the initial state, when no run expands more than `N` vertices
and no vertex has more than `D` incident edges, is made at `iterations ≤ N` and
`solution.len() ≤ N · D` -/
theorem reach_counters_le {I : Inst α} {N D : Nat} {source : Nat} {target : Option Nat}
    (hN : ∀ f0, startF I source target = .ok f0 → ∀ pre h,
      Reach I source target pre (initState source f0) h → pre.length ≤ N)
    (hD : ∀ v, (I.incident v).length ≤ D) {f0 : α} (hf0 : startF I source target = .ok f0)
    {pre : List Nat} {hd : SState α} (hr : Reach I source target pre (initState source f0) hd) :
    hd.iters ≤ N ∧ hd.solSize ≤ N * D := by
  have h1 := hN f0 hf0 pre hd hr
  have h2 := hr.counters.1
  have h3 := hr.solSize_le hD
  have h4 : pre.length * D ≤ N * D := Nat.mul_le_mul_right D h1
  simp only [initState] at h2 h3
  omega

/-! ### (c) General A\*: every run is finite, re-opening allowed

No hypothesis on the estimate (any weight factor; the estimate may be inconsistent, may depend on
the state) nor on the costs beyond strict positivity (`WF`): costs and validity may depend on the
state and on the previous edge.

Why it ends.  Every label `g v` the loop ever writes is the cost of *replaying* a vertex-simple path
from the source to `v` (`replay`: the traversals of the path's edges, each from the state and edge
the one before it produced — a function of the edge sequence alone).  Simple, because a label only
improves: a path that came back to a vertex it already visited would cost more than the label that
vertex had then, hence more than the label it has now, and `tentative < existing` fails
(`wit_verts_le`).  There are finitely many such paths (`walks`: all walks of fewer than `nV` edges
along the incident lists), each improvement of a label takes the path that produced it out of the
set of paths that are still cheaper than the label of their end vertex (`phi`), each improvement
adds at most one queue entry and each turn removes one: the number of turns of any run is at most
`|walks| + 1` (`general_bound`).  The bound is astronomically large — exponential in the number of
vertices — and is a termination proof, not a complexity bound: for A\* with an inconsistent estimate
the iteration limit of the termination model (C10) remains the only practical bound. -/

section General

/-- the vertex a reversed edge path (head = last edge) ends in -/
def endV (I : Inst α) (source : Nat) : List Nat → Nat
  | [] => source
  | e :: _ => I.keyV e

/-- the vertices a reversed path visits, the source included -/
def verts (I : Inst α) (source : Nat) : List Nat → List Nat
  | [] => [source]
  | e :: rest => I.keyV e :: verts I source rest

/-- replay of a reversed path from the initial state: (summed cost, last edge, state); `none` when
a traversal fails -/
def replay (I : Inst α) : List Nat → Option (α × Option Nat × List α)
  | [] => some (0, none, I.init)
  | e :: rest =>
    match replay I rest with
    | none => none
    | some (x, le, st) =>
      match I.trav e le st with
      | .ok (ac, tc, st') => some (x + (ac + tc), some e, st')
      | .error _ => none

/-- `p` is a witness relative to the labels `g`: it follows the incident lists, visits no vertex
twice, and every proper prefix costs at least the label of the vertex it ends in -/
def Wit (I : Inst α) (source : Nat) (g : Nat → Option α) : List Nat → Prop
  | [] => True
  | e :: rest =>
    Wit I source g rest ∧ e ∈ I.incident (endV I source rest) ∧
    (∃ x le st, replay I rest = some (x, le, st) ∧
      ∃ gw, g (endV I source rest) = some gw ∧ gw ≤ x) ∧
    I.keyV e ∉ verts I source rest

theorem Wit.mono {I : Inst α} {source : Nat} {g g' : Nat → Option α}
    (hle : SearchOpt.LabelsLe g g') : ∀ {p : List Nat}, Wit I source g p → Wit I source g' p
  | [], _ => trivial
  | e :: rest, h => by
    obtain ⟨h1, h2, ⟨x, le, st, h3, gw, h4, h5⟩, h6⟩ := h
    obtain ⟨gw', h7, h8⟩ := hle _ _ h4
    exact ⟨Wit.mono hle h1, h2, ⟨x, le, st, h3, gw', h7, le_trans h8 h5⟩, h6⟩

/-- the replay of a longer path costs strictly more -/
theorem replay_cons {I : Inst α} (hI : WF I) {e : Nat} {rest : List Nat} {x : α} {le : Option Nat}
    {st : List α} (h : replay I (e :: rest) = some (x, le, st)) :
    ∃ x0 le0 st0, replay I rest = some (x0, le0, st0) ∧ x0 < x := by
  simp only [replay] at h
  cases hr : replay I rest with
  | none => simp [hr] at h
  | some r =>
    obtain ⟨x0, le0, st0⟩ := r
    simp only [hr] at h
    cases ht : I.trav e le0 st0 with
    | error k => simp [ht] at h
    | ok r2 =>
      obtain ⟨ac, tc, st'⟩ := r2
      simp only [ht, Option.some.injEq, Prod.mk.injEq] at h
      have := hI.cost_pos _ _ _ _ _ _ ht
      exact ⟨x0, le0, st0, rfl, by rw [← h.1]; linarith⟩

/-- every vertex a witness visits carries a label of at most the witness's cost, given that its
end vertex does -/
theorem wit_verts_le {I : Inst α} (hI : WF I) {source : Nat} {g : Nat → Option α} :
    ∀ {p : List Nat} {x : α} {le : Option Nat} {st : List α}, Wit I source g p →
      replay I p = some (x, le, st) → (∃ gw, g (endV I source p) = some gw ∧ gw ≤ x) →
      ∀ w ∈ verts I source p, ∃ gw, g w = some gw ∧ gw ≤ x
  | [], x, le, st, _, _, hend, w, hw => by
    simp only [verts, List.mem_singleton] at hw
    subst hw
    exact hend
  | e :: rest, x, le, st, hwit, hrep, hend, w, hw => by
    simp only [verts, List.mem_cons] at hw
    rcases hw with rfl | hw
    · exact hend
    · obtain ⟨h1, _, ⟨x0, le0, st0, h3, hgw⟩, _⟩ := hwit
      obtain ⟨x0', le0', st0', h3', hlt⟩ := replay_cons hI hrep
      rw [h3] at h3'
      simp only [Option.some.injEq, Prod.mk.injEq] at h3'
      obtain ⟨rfl, _, _⟩ := h3'
      obtain ⟨gw, h4, h5⟩ := wit_verts_le hI h1 h3 hgw w hw
      exact ⟨gw, h4, le_trans h5 (le_of_lt hlt)⟩

theorem Wit.nodup {I : Inst α} {source : Nat} {g : Nat → Option α} :
    ∀ {p : List Nat}, Wit I source g p → (verts I source p).Nodup
  | [], _ => by simp [verts]
  | e :: rest, h => by
    simp only [verts]
    exact List.nodup_cons.2 ⟨h.2.2.2, Wit.nodup h.1⟩

theorem verts_length (I : Inst α) (source : Nat) :
    ∀ p : List Nat, (verts I source p).length = p.length + 1
  | [] => rfl
  | e :: rest => by simp [verts, verts_length I source rest]

theorem verts_lt {I : Inst α} {source nV : Nat} (hsrc : source < nV) (hkey : ∀ e, I.keyV e < nV) :
    ∀ p : List Nat, ∀ w ∈ verts I source p, w < nV
  | [], w, hw => by simp only [verts, List.mem_singleton] at hw; subst hw; exact hsrc
  | e :: rest, w, hw => by
    simp only [verts, List.mem_cons] at hw
    rcases hw with rfl | hw
    · exact hkey e
    · exact verts_lt hsrc hkey rest w hw

/-- a witness over the vertices `< nV` has fewer than `nV` edges -/
theorem Wit.length_lt {I : Inst α} {source nV : Nat} (hsrc : source < nV)
    (hkey : ∀ e, I.keyV e < nV) {g : Nat → Option α} {p : List Nat} (h : Wit I source g p) :
    p.length < nV := by
  have hsub : verts I source p ⊆ List.range nV := by
    intro w hw
    rw [List.mem_range]
    exact verts_lt hsrc hkey p w hw
  have := ((Wit.nodup h).subperm hsub).length_le
  rw [verts_length, List.length_range] at this
  omega

/-! #### The finite set of candidate paths -/

/-- all walks of exactly `n` edges from the source along the incident lists (reversed) -/
def walksLen (I : Inst α) (source : Nat) : Nat → List (List Nat)
  | 0 => [[]]
  | n + 1 => (walksLen I source n).flatMap
      (fun p => (I.incident (endV I source p)).map (fun e => e :: p))

/-- all walks of fewer than `N` edges -/
def walks (I : Inst α) (source N : Nat) : List (List Nat) :=
  (List.range N).flatMap (walksLen I source)

theorem Wit.mem_walksLen {I : Inst α} {source : Nat} {g : Nat → Option α} :
    ∀ {p : List Nat}, Wit I source g p → p ∈ walksLen I source p.length
  | [], _ => by simp [walksLen]
  | e :: rest, h => by
    simp only [List.length_cons, walksLen, List.mem_flatMap, List.mem_map]
    exact ⟨rest, Wit.mem_walksLen h.1, e, h.2.1, rfl⟩

theorem Wit.mem_walks {I : Inst α} {source nV : Nat} (hsrc : source < nV)
    (hkey : ∀ e, I.keyV e < nV) {g : Nat → Option α} {p : List Nat} (h : Wit I source g p) :
    p ∈ walks I source nV := by
  simp only [walks, List.mem_flatMap, List.mem_range]
  exact ⟨p.length, Wit.length_lt hsrc hkey h, Wit.mem_walksLen h⟩

/-! #### The measure -/

/-- the replay of `p` is still cheaper than the label of its end vertex (or that vertex has no
label yet) -/
def Below (I : Inst α) (source : Nat) (g : Nat → Option α) (p : List Nat) : Prop :=
  ∃ x le st, replay I p = some (x, le, st) ∧ ∀ y, g (endV I source p) = some y → x < y

open Classical in
/-- number of candidate paths that are still below the label of their end vertex -/
noncomputable def phi (I : Inst α) (source : Nat) (W : List (List Nat)) (g : Nat → Option α) :
    Nat :=
  W.countP (fun p => decide (Below I source g p))

theorem Below.mono {I : Inst α} {source : Nat} {g g' : Nat → Option α}
    (hle : SearchOpt.LabelsLe g g') {p : List Nat} (h : Below I source g' p) :
    Below I source g p := by
  obtain ⟨x, le, st, h1, h2⟩ := h
  refine ⟨x, le, st, h1, fun y hy => ?_⟩
  obtain ⟨y', h3, h4⟩ := hle _ _ hy
  exact lt_of_lt_of_le (h2 y' h3) h4

theorem countP_succ_le {β : Type} {q q' : β → Bool} (hmono : ∀ a, q' a = true → q a = true) :
    ∀ {W : List β} {p : β}, p ∈ W → q p = true → q' p = false →
      W.countP q' + 1 ≤ W.countP q
  | a :: W', p, hp, h1, h2 => by
    rcases List.mem_cons.1 hp with rfl | hp'
    · rw [List.countP_cons_of_pos h1, List.countP_cons_of_neg (by simp [h2])]
      exact Nat.succ_le_succ (List.countP_mono_left (fun x _ hx => hmono x hx))
    · have ih := countP_succ_le hmono hp' h1 h2
      rw [List.countP_cons, List.countP_cons]
      have : (if q' a = true then 1 else 0) ≤ (if q a = true then 1 else 0) := by
        by_cases ha : q' a = true
        · simp [ha, hmono a ha]
        · simp only [ha, Bool.false_eq_true, if_false]; exact Nat.zero_le _
      omega

theorem phi_mono {I : Inst α} {source : Nat} (W : List (List Nat)) {g g' : Nat → Option α}
    (hle : SearchOpt.LabelsLe g g') : phi I source W g' ≤ phi I source W g := by
  classical
  unfold phi
  apply List.countP_mono_left
  intro p _ hp
  simp only [decide_eq_true_eq] at hp ⊢
  exact hp.mono hle

theorem phi_strict {I : Inst α} {source : Nat} {W : List (List Nat)} {g g' : Nat → Option α}
    (hle : SearchOpt.LabelsLe g g') {p : List Nat} (hp : p ∈ W) (h1 : Below I source g p)
    (h2 : ¬ Below I source g' p) : phi I source W g' + 1 ≤ phi I source W g := by
  classical
  unfold phi
  apply countP_succ_le _ hp
  · simpa using h1
  · simpa using h2
  · intro a ha
    simp only [decide_eq_true_eq] at ha ⊢
    exact ha.mono hle

/-! #### The invariant -/

/-- every labelled vertex with a tree entry has a witness whose replay is its label, its entry's
edge and its entry's state -/
def PathInv (I : Inst α) (source : Nat) (s : SState α) : Prop :=
  ∀ v b x, s.sol v = some b → s.g v = some x →
    ∃ p, endV I source p = v ∧ Wit I source s.g p ∧ replay I p = some (x, some b.edge, b.state)

/-- inside the `for` loop over the incident edges of the popped vertex `u` -/
structure PMid (I : Inst α) (source : Nat) (u : Nat) (gu : α) (lastEdge : Option Nat)
    (st : List α) (s : SState α) : Prop where
  inv : PathInv I source s
  label : s.g u = some gu
  path : ∃ pu, endV I source pu = u ∧ Wit I source s.g pu ∧ replay I pu = some (gu, lastEdge, st)

theorem pushIncrease_length_le (q : List (Nat × α)) (v : Nat) (f : α) :
    (pushIncrease q v f).length ≤ q.length + 1 := by
  unfold pushIncrease
  split
  · simp
  · split
    · simp
    · exact Nat.le_succ _

theorem labelsLe_upd {g : Nat → Option α} {k : Nat} {t : α}
    (h : improves t (g k) = true) : SearchOpt.LabelsLe g (upd g k t) := by
  intro v x hx
  by_cases hv : v = k
  · subst hv
    rw [hx, SearchTree.improves_some] at h
    exact ⟨t, SearchTree.upd_same _ _ _, le_of_lt h⟩
  · exact ⟨x, by rw [SearchTree.upd_other _ _ _ hv]; exact hx, le_refl _⟩

/-- one relaxation keeps the invariant, only lowers labels, and does not raise the measure -/
theorem relax_general {I : Inst α} (hI : WF I) {source nV : Nat} (hsrc : source < nV)
    (hkey : ∀ e, I.keyV e < nV) {hasTarget : Bool} {u : Nat} {gu : α} {lastEdge : Option Nat}
    {st : List α} {s s' : SState α} {e : Nat} (hm : PMid I source u gu lastEdge st s)
    (he : e ∈ I.incident u) (h : relax I hasTarget lastEdge st s e = .ok s') :
    PMid I source u gu lastEdge st s' ∧
    phi I source (walks I source nV) s'.g + s'.queue.length
      ≤ phi I source (walks I source nV) s.g + s.queue.length := by
  have hterm : I.termV e = u := hI.incident_term u e he
  unfold relax at h
  split at h
  · cases h
  · cases h; exact ⟨hm, le_refl _⟩
  · split at h
    · cases h
    · rename_i ac tc st' htrav
      have hc : 0 < ac + tc := hI.cost_pos _ _ _ _ _ _ htrav
      split at h
      · cases h; exact ⟨hm, le_refl _⟩
      · rename_i gt hgt
        simp only at h
        split at h
        · rename_i himp
          split at h
          · cases h
          · rename_i hv hh
            cases h
            -- the improving relaxation
            have hgu : gt = gu := by
              rw [hterm, hm.label] at hgt
              exact (Option.some.inj hgt).symm
            subst hgu
            obtain ⟨pu, hpu1, hpu2, hpu3⟩ := hm.path
            have hku : I.keyV e ≠ u := by
              intro hk
              rw [hk, hm.label, SearchTree.improves_some] at himp
              linarith
            have hle := labelsLe_upd himp
            -- the key vertex is not on the path to `u`
            have hnot : I.keyV e ∉ verts I source pu := by
              intro hmem
              obtain ⟨gw, h1, h2⟩ := wit_verts_le hI hpu2 hpu3
                ⟨gt, by rw [hpu1]; exact hm.label, le_refl _⟩ _ hmem
              rw [h1, SearchTree.improves_some] at himp
              linarith
            have hwit' : Wit I source (upd s.g (I.keyV e) (gt + (ac + tc))) (e :: pu) := by
              refine ⟨hpu2.mono hle, by rw [hpu1]; exact he, ⟨gt, lastEdge, st, hpu3, gt, ?_,
                le_refl _⟩, hnot⟩
              rw [hpu1, SearchTree.upd_other _ _ _ hku.symm]
              exact hm.label
            have hrep' : replay I (e :: pu) = some (gt + (ac + tc), some e, st') := by
              simp only [replay, hpu3, htrav]
            refine ⟨⟨?_, ?_, ?_⟩, ?_⟩
            · -- PathInv
              intro v b x hb hx
              change upd s.sol (I.keyV e) _ v = some b at hb
              change upd s.g (I.keyV e) _ v = some x at hx
              by_cases hvk : v = I.keyV e
              · subst hvk
                rw [SearchTree.upd_same] at hb hx
                cases hb
                cases hx
                exact ⟨e :: pu, rfl, hwit', hrep'⟩
              · rw [SearchTree.upd_other _ _ _ hvk] at hb hx
                obtain ⟨p, h1, h2, h3⟩ := hm.inv v b x hb hx
                exact ⟨p, h1, h2.mono hle, h3⟩
            · show upd s.g (I.keyV e) _ u = some gt
              rw [SearchTree.upd_other _ _ _ hku.symm]
              exact hm.label
            · exact ⟨pu, hpu1, hpu2.mono hle, hpu3⟩
            · -- the measure
              have hbelow : Below I source s.g (e :: pu) := by
                refine ⟨_, _, _, hrep', fun y hy => ?_⟩
                change s.g (I.keyV e) = some y at hy
                rw [hy, SearchTree.improves_some] at himp
                exact himp
              have hnbelow : ¬ Below I source (upd s.g (I.keyV e) (gt + (ac + tc))) (e :: pu) := by
                rintro ⟨x, le, st2, h1, h2⟩
                rw [hrep'] at h1
                simp only [Option.some.injEq, Prod.mk.injEq] at h1
                have := h2 (gt + (ac + tc)) (by
                  show upd s.g (I.keyV e) _ (I.keyV e) = _
                  exact SearchTree.upd_same _ _ _)
                rw [← h1.1] at this
                exact lt_irrefl _ this
              have hstrict := phi_strict (W := walks I source nV) hle
                (Wit.mem_walks hsrc hkey hwit') hbelow hnbelow
              have hlen := pushIncrease_length_le s.queue (I.keyV e) (gt + (ac + tc) + hv)
              show phi I source (walks I source nV) (upd s.g (I.keyV e) _)
                  + (pushIncrease s.queue (I.keyV e) _).length ≤ _
              omega
        · cases h; exact ⟨hm, le_refl _⟩

/-- the whole `for` loop -/
theorem relaxAll_general {I : Inst α} (hI : WF I) {source nV : Nat} (hsrc : source < nV)
    (hkey : ∀ e, I.keyV e < nV) {hasTarget : Bool} {u : Nat} {gu : α} {lastEdge : Option Nat}
    {st : List α} :
    ∀ (es : List Nat) (s s' : SState α), (∀ e ∈ es, e ∈ I.incident u) →
      PMid I source u gu lastEdge st s → relaxAll I hasTarget lastEdge st es s = .ok s' →
      PMid I source u gu lastEdge st s' ∧
      phi I source (walks I source nV) s'.g + s'.queue.length
        ≤ phi I source (walks I source nV) s.g + s.queue.length
  | [], s, s', _, hm, h => by
    simp only [relaxAll] at h
    cases h
    exact ⟨hm, le_refl _⟩
  | e :: es, s, s', hes, hm, h => by
    simp only [relaxAll] at h
    split at h
    · cases h
    · rename_i s1 h1
      obtain ⟨hm1, hle1⟩ := relax_general hI hsrc hkey hm (hes e List.mem_cons_self) h1
      obtain ⟨hm2, hle2⟩ := relaxAll_general hI hsrc hkey es s1 s'
        (fun e' he' => hes e' (List.mem_cons_of_mem _ he')) hm1 h
      exact ⟨hm2, le_trans hle2 hle1⟩

/-- the pop removes a queue entry -/
theorem popped_length_lt {s : SState α} {v : Nat} (hpop : popOk s.queue v = true) :
    (popped s v).queue.length + 1 ≤ s.queue.length := by
  obtain ⟨p, hp, hpv⟩ := SearchTree.popOk_mem hpop
  have : (s.queue.filter (fun p => !(p.1 == v))).length < s.queue.length := by
    rw [List.length_filter_lt_length_iff_exists]
    exact ⟨p, hp, by simp [hpv]⟩
  simp only [popped]
  omega

/-- one turn keeps the invariants and lowers the measure -/
theorem turn_general {I : Inst α} (hI : WF I) {source nV : Nat} (hsrc : source < nV)
    (hkey : ∀ e, I.keyV e < nV) {target : Option Nat} {s s' : SState α} {v : Nat}
    (hinv : TreeInv I source s) (hp : PathInv I source s)
    (ht : SearchLimits.Turn I source target s v s') :
    TreeInv I source s' ∧ PathInv I source s' ∧
    phi I source (walks I source nV) s'.g + s'.queue.length + 1
      ≤ phi I source (walks I source nV) s.g + s.queue.length := by
  obtain ⟨_, _, hpop, _, lastEdge, st, s2, hcur, hrel, rfl⟩ := ht
  have hinv2 : TreeInv I source s2 :=
    SearchTree.relaxAll_incident_treeInv hI v (hinv.pop v) hrel
  obtain ⟨q, hq, hqv⟩ := SearchTree.popOk_mem hpop
  obtain ⟨gv, hgv⟩ := Option.isSome_iff_exists.1 (hinv.queue_labelled q hq)
  rw [hqv] at hgv
  -- the popped vertex has a witness
  have hmid : PMid I source v gv lastEdge st (popped s v) := by
    refine ⟨hp, hgv, ?_⟩
    unfold curOf at hcur
    by_cases hvs : v = source
    · subst hvs
      simp only [if_true, Option.some.injEq, Prod.mk.injEq] at hcur
      obtain ⟨rfl, rfl⟩ := hcur
      have : gv = 0 := by
        have := hinv.g_source
        rw [hgv] at this
        exact Option.some.inj this
      subst this
      exact ⟨[], rfl, trivial, rfl⟩
    · simp only [hvs, if_false] at hcur
      cases hb : s.sol v with
      | none => simp [hb] at hcur
      | some b =>
        simp only [hb, Option.some.injEq, Prod.mk.injEq] at hcur
        obtain ⟨rfl, rfl⟩ := hcur
        exact hp v b gv hb hgv
  obtain ⟨hm2, hle⟩ := relaxAll_general hI hsrc hkey (I.incident v) (popped s v) s2
    (fun e he => he) hmid hrel
  have hpl := popped_length_lt hpop
  refine ⟨hinv2.bump, hm2.inv, ?_⟩
  have : (popped s v).g = s.g := rfl
  rw [this] at hle
  show phi I source (walks I source nV) s2.g + s2.queue.length + 1 ≤ _
  omega

/-- along a run: the number of turns plus the measure at the head reached is at most the measure
at the start -/
theorem reach_general {I : Inst α} (hI : WF I) {source nV : Nat} (hsrc : source < nV)
    (hkey : ∀ e, I.keyV e < nV) {target : Option Nat} {pre : List Nat} {s h : SState α}
    (hr : Reach I source target pre s h) (hinv : TreeInv I source s) (hp : PathInv I source s) :
    pre.length + (phi I source (walks I source nV) h.g + h.queue.length)
      ≤ phi I source (walks I source nV) s.g + s.queue.length := by
  induction hr with
  | here s => simp
  | turn ht _ ih =>
    obtain ⟨hinv1, hp1, hle1⟩ := turn_general hI hsrc hkey hinv hp ht
    have := ih hinv1 hp1
    simp only [List.length_cons]
    omega

/-- **the bound**: no run of a well-formed instance over the vertices `< nV` — any estimate, any
schedule — performs more than `|walks| + 1` turns -/
theorem general_bound {I : Inst α} (hI : WF I) {source nV : Nat} (hsrc : source < nV)
    (hkey : ∀ e, I.keyV e < nV) {target : Option Nat} (f0 : α) {pre : List Nat} {h : SState α}
    (hr : Reach I source target pre (initState source f0) h) :
    pre.length ≤ (walks I source nV).length + 1 := by
  have hp : PathInv I source (initState source f0) := by
    intro v b x hb _
    simp [initState] at hb
  have := reach_general hI hsrc hkey hr (SearchTree.initState_treeInv I source f0) hp
  have hphi : phi I source (walks I source nV) (initState source f0).g
      ≤ (walks I source nV).length := by
    classical
    unfold phi
    exact List.countP_le_length
  have hq : (initState source f0).queue.length = 1 := by simp [initState]
  omega

/-- **(c) TERMINATION, general A\*** (re-opening allowed): a well-formed instance over the vertices
`< nV`, no hypothesis on the estimate.  With `N = |walks| + 1` (`walks`: the walks of fewer than `nV`
edges from the source): (1) some schedule of at most `N + 1` pops has a final outcome; (2) every
accepted, unfinished schedule has at most `N` pops and extends to one of at most `N + 1` pops with a
final outcome. -/
theorem terminates_general {I : Inst α} (hI : WF I) (hS : NoSchedErr I) {source nV : Nat}
    (hsrc : source < nV) (hkey : ∀ e, I.keyV e < nV) (target : Option Nat) :
    (∃ sched, sched.length ≤ (walks I source nV).length + 2 ∧
      IsFinal (runAStar I source target sched)) ∧
    ∀ pre, runAStar I source target pre = .error .scheduleExhausted →
      pre.length ≤ (walks I source nV).length + 1 ∧
      ∃ ext, (pre ++ ext).length ≤ (walks I source nV).length + 2 ∧
        IsFinal (runAStar I source target (pre ++ ext)) :=
  runAStar_final_of_bound hS (fun f0 _ _ _ hr => general_bound hI hsrc hkey f0 hr)

/-- the same for `run_vertex_oriented` -/
theorem route_search_terminates_general {I : Inst α} (hI : WF I) (hS : NoSchedErr I)
    {source nV : Nat} (hsrc : source < nV) (hkey : ∀ e, I.keyV e < nV) (target : Option Nat) :
    (∃ sched, sched.length ≤ (walks I source nV).length + 2 ∧
      IsFinal (runVertexOriented I source target sched)) ∧
    ∀ pre, runVertexOriented I source target pre = .error .scheduleExhausted →
      pre.length ≤ (walks I source nV).length + 1 ∧
      ∃ ext, (pre ++ ext).length ≤ (walks I source nV).length + 2 ∧
        IsFinal (runVertexOriented I source target (pre ++ ext)) :=
  runVertexOriented_final_of_bound hS (fun f0 _ _ _ hr => general_bound hI hsrc hkey f0 hr)

/-- a returned result performed at most `|walks| + 1` expansions -/
theorem iterations_le_general {I : Inst α} (hI : WF I) {source nV : Nat} (hsrc : source < nV)
    (hkey : ∀ e, I.keyV e < nV) {target : Option Nat} {sched : List Nat} {s : SState α}
    (hrun : runAStar I source target sched = .ok s) :
    s.iters ≤ (walks I source nV).length + 1 := by
  rcases SearchLimits.runAStar_ok_iff.1 hrun with ⟨_, rfl⟩ | ⟨_, f0, _, hloop⟩
  · exact Nat.zero_le _
  · obtain ⟨pre, rest, h, _, hr, _, hfin⟩ := SearchLimits.runLoop_ok_reach sched _ s hloop
    have h1 := hr.counters.1
    have h2 := general_bound hI hsrc hkey f0 hr
    rw [hfin.fields.2.2.2, h1]
    simp only [initState]
    omega

/-- size of the candidate set: with at most `D` incident edges per vertex there are at most `D ^ n`
walks of `n` edges -/
theorem walksLen_length_le {I : Inst α} {D : Nat} (hD : ∀ v, (I.incident v).length ≤ D)
    (source : Nat) : ∀ n, (walksLen I source n).length ≤ D ^ n
  | 0 => by simp [walksLen]
  | n + 1 => by
    have ih := walksLen_length_le hD source n
    have key : ∀ (l : List (List Nat)),
        (l.flatMap (fun p => (I.incident (endV I source p)).map (fun e => e :: p))).length
          ≤ l.length * D := by
      intro l
      induction l with
      | nil => simp
      | cons p l ihl =>
        simp only [List.flatMap_cons, List.length_append, List.length_map, List.length_cons]
        have := hD (endV I source p)
        rw [Nat.succ_mul]
        omega
    calc (walksLen I source (n + 1)).length ≤ (walksLen I source n).length * D := key _
      _ ≤ D ^ n * D := Nat.mul_le_mul_right D ih
      _ = D ^ (n + 1) := (Nat.pow_succ ..).symm

theorem walks_length_le {I : Inst α} {D : Nat} (hD : ∀ v, (I.incident v).length ≤ D)
    (source : Nat) : ∀ N, (walks I source N).length ≤ ((List.range N).map (fun n => D ^ n)).sum
  | 0 => by simp [walks]
  | N + 1 => by
    have ih := walks_length_le hD source N
    have h1 := walksLen_length_le hD source N
    simp only [walks, List.range_succ, List.flatMap_append, List.flatMap_cons, List.flatMap_nil,
      List.append_nil, List.length_append, List.map_append, List.map_cons, List.map_nil,
      List.sum_append, List.sum_cons, List.sum_nil, Nat.add_zero] at ih ⊢
    omega

end General

/-! ### Configured instances (`Config.inst`, `Config.runVertex`) -/

/-- the error kinds of the component models of a configuration (graph, frontier, access, cost,
traversal) -/
def ModelErr (k : ErrKind) : Prop :=
  k = .network ∨ k = .frontier ∨ k = .access ∨ k = .cost ∨ k = .traversal

theorem ModelErr.final {k : ErrKind} (h : ModelErr k) : k ≠ .scheduleExhausted ∧ k ≠ .badSchedule := by
  rcases h with h | h | h | h | h <;> subst h <;> exact ⟨by simp, by simp⟩

theorem frontierValid_error {e : Nat} {le : Option Nat} {k : ErrKind} :
    ∀ (fs : List (FrontierM α)), frontierValid fs e le = .error k → k = .frontier
  | [], h => by simp [frontierValid] at h
  | m :: ms, h => by
    simp only [frontierValid] at h
    split at h
    · cases h; rfl
    · cases h
    · exact frontierValid_error ms h

theorem config_valid_error (c : Config α) {e : Nat} {st : List α} {le : Option Nat} {k : ErrKind}
    (h : c.inst.valid e st le = .error k) : ModelErr k := by
  simp only [Config.inst] at h
  split at h
  · cases h; exact Or.inl rfl
  · exact Or.inr (Or.inl (frontierValid_error _ h))

theorem config_trav_error (c : Config α) {e : Nat} {le : Option Nat} {st : List α} {k : ErrKind}
    (h : c.inst.trav e le st = .error k) : ModelErr k := by
  simp only [Config.inst, edgeTraversal] at h
  split at h
  · cases h; exact Or.inl rfl
  · split at h
    · rename_i k' hk
      cases h
      unfold edgeAccess at hk
      split at hk
      · cases hk
      · split at hk
        · cases hk; exact Or.inl rfl
        · simp only at hk
          split at hk
          · cases hk; exact Or.inr (Or.inr (Or.inl rfl))
          · split at hk
            · cases hk; exact Or.inr (Or.inr (Or.inr (Or.inl rfl)))
            · cases hk
    · split at h
      · cases h; exact Or.inr (Or.inr (Or.inr (Or.inr rfl)))
      · split at h
        · cases h; exact Or.inr (Or.inr (Or.inr (Or.inl rfl)))
        · cases h

theorem config_h_error (c : Config α) {v : Nat} {st : List α} {k : ErrKind}
    (h : c.inst.h v st = .error k) : ModelErr k := by
  simp only [Config.inst, estimate] at h
  split at h
  · cases h; exact Or.inl rfl
  · split at h
    · cases h; exact Or.inr (Or.inr (Or.inr (Or.inr rfl)))
    split at h
    · cases h; exact Or.inr (Or.inr (Or.inr (Or.inr rfl)))
    · split at h
      · cases h; exact Or.inr (Or.inr (Or.inr (Or.inl rfl)))
      · cases h

theorem config_term_error (c : Config α) {sz it : Nat} {k : ErrKind}
    (h : c.inst.term sz it = .error k) :
    (∃ ks, k = .terminated ks) ∨ k = .panic "termination-frequency-zero" := by
  have h' : c.term.test sz it = .error k := h
  rcases SearchLimits.terminated_is_explicit c.term sz it with h1 | ⟨ks, h1, _⟩ | h1
  · rw [h1.1] at h'; cases h'
  · rw [h1] at h'; cases h'; exact Or.inl ⟨ks, rfl⟩
  · rw [h1.1] at h'; cases h'; exact Or.inr rfl

/-- no component of a configured instance answers with an error of the schedule replay -/
theorem config_noSchedErr (c : Config α) : NoSchedErr c.inst where
  valid := by
    intro e st le
    cases h : c.inst.valid e st le with
    | ok b => trivial
    | error k => exact (config_valid_error c h).final
  trav := by
    intro e le st
    cases h : c.inst.trav e le st with
    | ok b => trivial
    | error k => exact (config_trav_error c h).final
  h := by
    intro v st
    cases h : c.inst.h v st with
    | ok b => trivial
    | error k => exact (config_h_error c h).final
  term := by
    intro sz it
    cases h : c.inst.term sz it with
    | ok b => trivial
    | error k =>
      rcases config_term_error c h with ⟨ks, rfl⟩ | rfl <;> exact ⟨by simp, by simp⟩

/-- how a search of the code ends: a result, "no path", the explicit termination by a limit (or the
`iteration % 0` panic of a zero check frequency), or the error of a component model.  What is
excluded: the two replay errors of the model and the "cannot happen" errors of the loop and of the
backtrack -/
def Ended {β : Type} (r : Except ErrKind β) : Prop :=
  (∃ x, r = .ok x) ∨ r = .error .noPath ∨ (∃ ks, r = .error (.terminated ks)) ∨
  r = .error (.panic "termination-frequency-zero") ∨ ∃ k, ModelErr k ∧ r = .error k

theorem Ended.isFinal {β : Type} {r : Except ErrKind β} (h : Ended r) : IsFinal r := by
  rcases h with ⟨x, rfl⟩ | rfl | ⟨ks, rfl⟩ | rfl | ⟨k, hk, rfl⟩
  · trivial
  · exact ⟨by simp, by simp⟩
  · exact ⟨by simp, by simp⟩
  · exact ⟨by simp, by simp⟩
  · exact hk.final

theorem runVertex_error_iff (c : Config α) (source : Nat) (target : Option Nat) (sched : List Nat)
    (k : ErrKind) :
    c.runVertex source target sched = .error k ↔
      runVertexOriented c.inst source target sched = .error k := by
  unfold Config.runVertex
  cases runVertexOriented c.inst source target sched <;> simp

theorem runVertex_isFinal_iff (c : Config α) (source : Nat) (target : Option Nat)
    (sched : List Nat) :
    IsFinal (c.runVertex source target sched) ↔
      IsFinal (runVertexOriented c.inst source target sched) := by
  rw [isFinal_iff, isFinal_iff, Ne, Ne, Ne, Ne, runVertex_error_iff, runVertex_error_iff]

/-- **on a configuration with consistent adjacency, a final outcome is one of the ways the code
ends** (and conversely): the only other outcomes of the model are the two replay errors -/
theorem config_final_iff_ended (c : Config α) (hadj : c.AdjConsistent) (source : Nat)
    (target : Option Nat) (sched : List Nat) :
    IsFinal (c.runVertex source target sched) ↔ Ended (c.runVertex source target sched) := by
  refine ⟨fun hfin => ?_, Ended.isFinal⟩
  cases hr : c.runVertex source target sched with
  | ok r => exact Or.inl ⟨r, rfl⟩
  | error k =>
    rw [hr] at hfin
    have h' := (runVertex_error_iff c source target sched k).1 hr
    rcases runVertexOriented_error_origin (c.inst_wf hadj) h' with
      rfl | rfl | rfl | ⟨sz, it, h⟩ | ⟨e, st, le, h⟩ | ⟨e, le, st, h⟩ | ⟨v, st, h⟩
    · exact Or.inr (Or.inl rfl)
    · exact absurd rfl hfin.1
    · exact absurd rfl hfin.2
    · rcases config_term_error c h with ⟨ks, rfl⟩ | rfl
      · exact Or.inr (Or.inr (Or.inl ⟨ks, rfl⟩))
      · exact Or.inr (Or.inr (Or.inr (Or.inl rfl)))
    · exact Or.inr (Or.inr (Or.inr (Or.inr ⟨k, config_valid_error c h, rfl⟩)))
    · exact Or.inr (Or.inr (Or.inr (Or.inr ⟨k, config_trav_error c h, rfl⟩)))
    · exact Or.inr (Or.inr (Or.inr (Or.inr ⟨k, config_h_error c h, rfl⟩)))

/-- every end point of every edge is a vertex id below `n` (what the graph loader guarantees, C15) -/
def _root_.Compass.Config.VerticesBelow (c : Config α) (n : Nat) : Prop :=
  ∀ er ∈ c.edges, er.src < n ∧ er.dst < n

instance (c : Config α) (n : Nat) : Decidable (c.VerticesBelow n) := by
  unfold Config.VerticesBelow; infer_instance

theorem config_keyV_lt (c : Config α) {n : Nat} (hV : c.VerticesBelow n) (hn : 0 < n) (e : Nat) :
    c.inst.keyV e < n := by
  simp only [Config.inst]
  cases he : c.edges[e]? with
  | none => exact hn
  | some er =>
    have := hV er (List.mem_of_getElem? he)
    simp only
    split
    · exact this.1
    · exact this.2

/-- **termination of a configured search under the discipline** (`H` a consistent vertex estimate):
any traversal, access (turn delays), cost, frontier (turn restrictions) and termination models,
forward or reverse, with or without destination.  Over the vertices `< n`: (1) some schedule of at
most `n + 1` pops ends the way the code ends; (2) every accepted, unfinished schedule has at most
`n` pops and extends to one of at most `n + 1` pops that ends the way the code ends; (3) a returned
result performed at most `n` expansions -/
theorem config_terminates_of_heur (c : Config α) (hadj : c.AdjConsistent) {H : Nat → α}
    {source n : Nat} (hsrc : source < n) (hV : c.VerticesBelow n) {target : Option Nat}
    (hH : Heur c.inst target.isSome H) :
    (∃ sched, sched.length ≤ n + 1 ∧ Ended (c.runVertex source target sched)) ∧
    (∀ pre, c.runVertex source target pre = .error .scheduleExhausted →
      pre.length ≤ n ∧ ∃ ext, (pre ++ ext).length ≤ n + 1 ∧
        Ended (c.runVertex source target (pre ++ ext))) ∧
    ∀ sched r, c.runVertex source target sched = .ok r → r.iterations ≤ n := by
  have hI := c.inst_wf hadj
  have hkey := config_keyV_lt c hV (Nat.lt_of_le_of_lt (Nat.zero_le _) hsrc)
  obtain ⟨⟨sched, h1, h2⟩, h3⟩ :=
    route_search_terminates_of_heur hI (config_noSchedErr c) hsrc hkey hH
  refine ⟨⟨sched, h1, ?_⟩, ?_, ?_⟩
  · exact (config_final_iff_ended c hadj _ _ _).1 ((runVertex_isFinal_iff c _ _ _).2 h2)
  · intro pre hpre
    obtain ⟨h4, ext, h5, h6⟩ := h3 pre ((runVertex_error_iff c _ _ _ _).1 hpre)
    exact ⟨h4, ext, h5,
      (config_final_iff_ended c hadj _ _ _).1 ((runVertex_isFinal_iff c _ _ _).2 h6)⟩
  · intro sched r hr
    unfold Config.runVertex at hr
    split at hr
    · cases hr
    · rename_i res hres
      cases hr
      simp only
      unfold runVertexOriented at hres
      split at hres
      · cases hres
      · rename_i s hs
        have hit := SearchDiscipline.expansions_le_vertices_of_heur hI hsrc hkey hH hs
        cases target with
        | none => cases hres; exact hit
        | some t =>
          simp only at hres
          split at hres
          · cases hres
          · cases hres; exact hit

/-- **termination of a configured Dijkstra search** (`weight_factor = 0`) -/
theorem config_dijkstra_terminates (c : Config α) (hadj : c.AdjConsistent) (hwf : c.wf = some 0)
    {source n : Nat} (hsrc : source < n) (hV : c.VerticesBelow n) (target : Option Nat) :
    (∃ sched, sched.length ≤ n + 1 ∧ Ended (c.runVertex source target sched)) ∧
    (∀ pre, c.runVertex source target pre = .error .scheduleExhausted →
      pre.length ≤ n ∧ ∃ ext, (pre ++ ext).length ≤ n + 1 ∧
        Ended (c.runVertex source target (pre ++ ext))) ∧
    ∀ sched r, c.runVertex source target sched = .ok r → r.iterations ≤ n :=
  config_terminates_of_heur c hadj hsrc hV
    ((SearchDiscipline.config_zeroH c hwf).heur (c.inst_wf hadj) _)

/-- a destination-less search adds `Cost::ZERO` as estimate whatever the weight factor: it always
runs under the discipline -/
theorem config_tree_search_terminates (c : Config α) (hadj : c.AdjConsistent)
    {source n : Nat} (hsrc : source < n) (hV : c.VerticesBelow n) :
    (∃ sched, sched.length ≤ n + 1 ∧ Ended (c.runVertex source none sched)) ∧
    (∀ pre, c.runVertex source none pre = .error .scheduleExhausted →
      pre.length ≤ n ∧ ∃ ext, (pre ++ ext).length ≤ n + 1 ∧
        Ended (c.runVertex source none (pre ++ ext))) ∧
    ∀ sched r, c.runVertex source none sched = .ok r → r.iterations ≤ n := by
  have hI := c.inst_wf hadj
  have hH : Heur c.inst (none : Option Nat).isSome (fun _ => 0) := by
    refine ⟨fun v st x h => ?_, fun e le st ac tc st' _ h2 => ?_⟩
    · simp only [Option.isSome_none, Bool.false_eq_true, if_false, Except.ok.injEq, zero_eq] at h
      exact h.symm
    · have := hI.cost_pos _ _ _ _ _ _ h2
      simp only [add_zero]
      exact le_of_lt this
  exact config_terminates_of_heur c hadj hsrc hV hH

/-- **termination of a configured search, general A\*** (any weight factor, any estimate; re-opening
allowed): over the vertices `< n`, with `N = |walks c.inst source n| + 1` -/
theorem config_terminates_general (c : Config α) (hadj : c.AdjConsistent) {source n : Nat}
    (hsrc : source < n) (hV : c.VerticesBelow n) (target : Option Nat) :
    (∃ sched, sched.length ≤ (walks c.inst source n).length + 2 ∧
      Ended (c.runVertex source target sched)) ∧
    (∀ pre, c.runVertex source target pre = .error .scheduleExhausted →
      pre.length ≤ (walks c.inst source n).length + 1 ∧
      ∃ ext, (pre ++ ext).length ≤ (walks c.inst source n).length + 2 ∧
        Ended (c.runVertex source target (pre ++ ext))) ∧
    ∀ sched r, c.runVertex source target sched = .ok r →
      r.iterations ≤ (walks c.inst source n).length + 1 := by
  have hI := c.inst_wf hadj
  have hkey := config_keyV_lt c hV (Nat.lt_of_le_of_lt (Nat.zero_le _) hsrc)
  obtain ⟨⟨sched, h1, h2⟩, h3⟩ :=
    route_search_terminates_general hI (config_noSchedErr c) hsrc hkey target
  refine ⟨⟨sched, h1, ?_⟩, ?_, ?_⟩
  · exact (config_final_iff_ended c hadj _ _ _).1 ((runVertex_isFinal_iff c _ _ _).2 h2)
  · intro pre hpre
    obtain ⟨h4, ext, h5, h6⟩ := h3 pre ((runVertex_error_iff c _ _ _ _).1 hpre)
    exact ⟨h4, ext, h5,
      (config_final_iff_ended c hadj _ _ _).1 ((runVertex_isFinal_iff c _ _ _).2 h6)⟩
  · intro sched r hr
    unfold Config.runVertex at hr
    split at hr
    · cases hr
    · rename_i res hres
      cases hr
      simp only
      unfold runVertexOriented at hres
      split at hres
      · cases hres
      · rename_i s hs
        have hit := iterations_le_general hI hsrc hkey hs
        cases target with
        | none => cases hres; exact hit
        | some t =>
          simp only at hres
          split at hres
          · cases hres
          · cases hres; exact hit

/-! ### A\* with the configuration's own estimate, when it is consistent -/

/-- in an edge-local configuration the estimate is the vertex function `hOf`; if it is consistent on
every permitted edge the search runs under the discipline -/
theorem config_heur_of_consistent (c : Config α) (h : c.EdgeLocal)
    (hcons : ∀ e, c.okOf e = true →
      c.hOf (c.inst.termV e) ≤ c.costOf e + c.hOf (c.inst.keyV e)) (hasT : Bool) :
    Heur c.inst hasT (SearchOpt.Hf hasT c.hOf) := by
  have U := c.uniformCostOn h
  refine Heur.of_vertex (c.inst_wf h.adj) (fun v st x hx => estimate_eq c v st x hx) ?_ hasT
  intro e le st ac tc st' hv ht
  have hok : true = c.okOf e := U.valid_eq e le st true trivial hv
  rw [(U.trav_eq e le st ac tc st' trivial hv ht).1]
  exact hcons e hok.symm

/-- `Config.estimate_consistent_of_scale` for every edge id (not only the listed ones) -/
theorem estimate_consistent_all (c : Config α) (κ : α)
    (hκ : 0 ≤ κ) (hwf0 : 0 ≤ c.wfOf) (hwf1 : c.wfOf ≤ 1)
    (hh : ∀ v, c.hOf v = κ * c.gcOf v * c.wfOf)
    (hc : ∀ (e : Nat) (er : EdgeRec α), c.edges[e]? = some er → κ * er.dist ≤ c.costOf e)
    (hlen : ∀ (e : Nat) (er : EdgeRec α), c.edges[e]? = some er → 0 ≤ er.dist)
    (htri : ∀ (e : Nat) (er : EdgeRec α), c.edges[e]? = some er → c.okOf e = true →
      c.gcOf (c.inst.termV e) ≤ er.dist + c.gcOf (c.inst.keyV e)) :
    ∀ e, c.okOf e = true → c.hOf (c.inst.termV e) ≤ c.costOf e + c.hOf (c.inst.keyV e) := by
  intro e hok
  cases hed : c.edges[e]? with
  | none =>
    have hk : c.inst.keyV e = 0 := by simp [Config.inst, hed]
    have ht0 : c.inst.termV e = 0 := by simp [Config.inst, hed]
    rw [hk, ht0]
    have := c.costOf_pos e
    linarith
  | some er =>
    have hce := hc e er hed
    have ht := htri e er hed hok
    rw [hh (c.inst.termV e), hh (c.inst.keyV e)]
    have hl := hlen e er hed
    have h1 : κ * c.gcOf (c.inst.termV e) ≤ κ * (er.dist + c.gcOf (c.inst.keyV e)) :=
      mul_le_mul_of_nonneg_left ht hκ
    have h2 : κ * c.gcOf (c.inst.termV e) * c.wfOf
        ≤ κ * (er.dist + c.gcOf (c.inst.keyV e)) * c.wfOf :=
      mul_le_mul_of_nonneg_right h1 hwf0
    have h3 : κ * er.dist * c.wfOf ≤ κ * er.dist :=
      mul_le_of_le_one_right (mul_nonneg hκ hl) hwf1
    nlinarith [h2, h3, hce]

/-- **termination of A\* with the distance estimate** on a metrically consistent great-circle table
(`Config.DistanceMetric`: the premises of C02's `estimate_admissible`, weight factor in `[0, 1]`) -/
theorem config_astar_distance_terminates (c : Config α) (h : c.EdgeLocal) {du : DistanceUnit}
    {t : Nat} (M : c.DistanceMetric du t) {source n : Nat} (hsrc : source < n)
    (hV : c.VerticesBelow n) :
    (∃ sched, sched.length ≤ n + 1 ∧ Ended (c.runVertex source (some t) sched)) ∧
    (∀ pre, c.runVertex source (some t) pre = .error .scheduleExhausted →
      pre.length ≤ n ∧ ∃ ext, (pre ++ ext).length ≤ n + 1 ∧
        Ended (c.runVertex source (some t) (pre ++ ext))) ∧
    ∀ sched r, c.runVertex source (some t) sched = .ok r → r.iterations ≤ n := by
  have hK := c.distK_nonneg M.nonneg du
  have hcons := estimate_consistent_all c (c.distK du) hK M.wf_nonneg M.wf_le_one
    (fun v => by
      rw [c.hOf_distance M.agg M.linear M.trav, max_eq_left (mul_nonneg hK (M.gc_nonneg v))])
    (fun e er he => c.costOf_distance_ge M.agg M.linear M.nonneg M.surcharge M.trav he)
    M.len_nonneg M.triangle
  exact config_terminates_of_heur c h.adj hsrc hV (config_heur_of_consistent c h hcons _)

/-- **termination of A\* with the speed-table estimate** (`Config.SpeedMetric`) -/
theorem config_astar_speed_terminates (c : Config α) (h : c.EdgeLocal)
    {su : SpeedUnit} {du : DistanceUnit} {tu : TimeUnit} {ms : α} {table : List α} {t : Nat}
    (M : c.SpeedMetric su du tu ms table t) {source n : Nat} (hsrc : source < n)
    (hV : c.VerticesBelow n) :
    (∃ sched, sched.length ≤ n + 1 ∧ Ended (c.runVertex source (some t) sched)) ∧
    (∀ pre, c.runVertex source (some t) pre = .error .scheduleExhausted →
      pre.length ≤ n ∧ ∃ ext, (pre ++ ext).length ≤ n + 1 ∧
        Ended (c.runVertex source (some t) (pre ++ ext))) ∧
    ∀ sched r, c.runVertex source (some t) sched = .ok r → r.iterations ≤ n := by
  have hκ : 0 ≤ c.distK du + c.timeK su du tu / ms :=
    add_nonneg (c.distK_nonneg M.nonneg du)
      (div_nonneg (c.timeK_nonneg M.nonneg su du tu) (le_of_lt M.ms_pos))
  have hcons := estimate_consistent_all c _ hκ M.wf_nonneg M.wf_le_one (c.hOf_speed M)
    (fun e er he => c.costOf_speed_ge M he) (fun e er he => le_of_lt (M.edge e er he).1)
    M.triangle
  exact config_terminates_of_heur c h.adj hsrc hV (config_heur_of_consistent c h hcons _)

/-! ### What C05 needs: a deciding schedule exists

On a well-formed configuration (`Config.WellFormedDistance`, `Config.GraphOK`: no call of a component
fails) whose limits do not fire **within the bounds the termination proofs give** — at most `N`
iterations and a tree of at most `N · D` entries, `N` the bound on the number of expansions (`n`
under the Dijkstra discipline, `|walks| + 1` in general), `D` a bound on the number of incident
edges of a vertex —, a final outcome is a result or "no path"; together with C05's
`config_nopath_iff_unreachable` (any weight factor) the outcome is a result exactly when the
destination is reachable.  A configured iterations / solution-size / runtime limit that is large
enough for the network is inside the premise; the premise in its earlier form
(`∀ sz it, c.term.test sz it = .ok ()`) was met by the empty combined model only. -/

theorem edgeLocal_of_wellFormed (c : Config α) {du : DistanceUnit} (W : c.WellFormedDistance du)
    {source : Nat} {hasT : Bool} (G : c.GraphOK source hasT) : c.EdgeLocal :=
  ⟨G.adj, W.noAccess, W.noTurn⟩

/-- "no run expands more than `N` vertices" (the hypothesis shape of `runAStar_final_of_bound`) -/
def ExpansionBound (I : Inst α) (source : Nat) (target : Option Nat) (N : Nat) : Prop :=
  ∀ f0, startF I source target = .ok f0 → ∀ pre h,
    Reach I source target pre (initState source f0) h → pre.length ≤ N

/-- Dijkstra (weight factor 0): at most `n` expansions over the vertices `< n` -/
theorem config_dijkstra_bound (c : Config α) (hadj : c.AdjConsistent) (hwf : c.wf = some 0)
    {source n : Nat} (hsrc : source < n) (hV : c.VerticesBelow n) (target : Option Nat) :
    ExpansionBound c.inst source target n :=
  heur_bound (c.inst_wf hadj) hsrc
    (config_keyV_lt c hV (Nat.lt_of_le_of_lt (Nat.zero_le _) hsrc))
    ((SearchDiscipline.config_zeroH c hwf).heur (c.inst_wf hadj) _)

/-- a destination-less search (any weight factor): at most `n` expansions -/
theorem config_tree_bound (c : Config α) (hadj : c.AdjConsistent)
    {source n : Nat} (hsrc : source < n) (hV : c.VerticesBelow n) :
    ExpansionBound c.inst source none n := by
  have hI := c.inst_wf hadj
  have hH : Heur c.inst (none : Option Nat).isSome (fun _ => 0) := by
    refine ⟨fun v st x h => ?_, fun e le st ac tc st' _ h2 => ?_⟩
    · simp only [Option.isSome_none, Bool.false_eq_true, if_false, Except.ok.injEq, zero_eq] at h
      exact h.symm
    · have := hI.cost_pos _ _ _ _ _ _ h2
      simp only [add_zero]
      exact le_of_lt this
  exact heur_bound hI hsrc (config_keyV_lt c hV (Nat.lt_of_le_of_lt (Nat.zero_le _) hsrc)) hH

/-- any weight factor, re-opening allowed: at most `|walks| + 1` expansions -/
theorem config_general_bound (c : Config α) (hadj : c.AdjConsistent)
    {source n : Nat} (hsrc : source < n) (hV : c.VerticesBelow n) (target : Option Nat) :
    ExpansionBound c.inst source target ((walks c.inst source n).length + 1) :=
  fun f0 _ _ _ hr => general_bound (c.inst_wf hadj) hsrc
    (config_keyV_lt c hV (Nat.lt_of_le_of_lt (Nat.zero_le _) hsrc)) f0 hr

/-- on a well-formed configuration whose limits do not fire within `N` iterations and `N · D` tree
entries (`N` bounds the expansions of any run, `D` the incident edges of a vertex), a final outcome
is a result or "no path" -/
theorem config_final_result_or_nopath (c : Config α) {du : DistanceUnit}
    (W : c.WellFormedDistance du) {source : Nat} {target : Option Nat}
    (G : c.GraphOK source target.isSome) {N D : Nat} (hN : ExpansionBound c.inst source target N)
    (hD : ∀ v, (c.inst.incident v).length ≤ D)
    (hlim : ∀ sz it, it ≤ N → sz ≤ N * D → c.term.test sz it = .ok ())
    {sched : List Nat} (hfin : IsFinal (c.runVertex source target sched)) :
    (∃ r, c.runVertex source target sched = .ok r) ∨
      c.runVertex source target sched = .error .noPath := by
  cases hr : c.runVertex source target sched with
  | ok r => exact Or.inl ⟨r, rfl⟩
  | error k =>
    right
    rw [hr] at hfin
    have hben := config_run_benign c W G sched k hr
    have h' := (runVertex_error_iff c source target sched k).1 hr
    have hmodel : ModelErr k → False := by
      intro hm
      rcases hben with rfl | ⟨ks, rfl⟩ | rfl | rfl | rfl <;>
        rcases hm with hm | hm | hm | hm | hm <;> cases hm
    rcases runVertexOriented_error_origin_reach (c.inst_wf G.adj) h' with
      rfl | rfl | rfl | ⟨f0, pre, hd, hf0, hreach, h⟩ | ⟨e, st, le, h⟩ | ⟨e, le, st, h⟩ | ⟨v, st, h⟩
    · rfl
    · exact absurd rfl hfin.1
    · exact absurd rfl hfin.2
    · obtain ⟨a, b⟩ := reach_counters_le hN hD hf0 hreach
      have h2 : c.term.test hd.solSize hd.iters = .error k := h
      rw [hlim _ _ a b] at h2; cases h2
    · exact absurd (config_valid_error c h) hmodel
    · exact absurd (config_trav_error c h) hmodel
    · exact absurd (config_h_error c h) hmodel

/-- **whatever schedule the implementation takes**: on a well-formed configuration whose limits do
not fire within the bounds (`N` iterations, `N · D` tree entries), a run to a destination that ends,
ends in a route or in "no path", and in a route exactly when the destination is reachable through
permitted edges (any weight factor) -/
theorem config_final_decides (c : Config α) {du : DistanceUnit} (W : c.WellFormedDistance du)
    {source t : Nat} (G : c.GraphOK source true) {N D : Nat}
    (hN : ExpansionBound c.inst source (some t) N) (hD : ∀ v, (c.inst.incident v).length ≤ D)
    (hlim : ∀ sz it, it ≤ N → sz ≤ N * D → c.term.test sz it = .ok ())
    {sched : List Nat} (hfin : IsFinal (c.runVertex source (some t) sched)) :
    ((∃ r, c.runVertex source (some t) sched = .ok r) ∨
      c.runVertex source (some t) sched = .error .noPath) ∧
    ((∃ r, c.runVertex source (some t) sched = .ok r) ↔
      ∃ es, SearchOpt.Walk c.inst c.okOf source es t) ∧
    (c.runVertex source (some t) sched = .error .noPath ↔
      ¬ ∃ es, SearchOpt.Walk c.inst c.okOf source es t) := by
  have hres := config_final_result_or_nopath c W (target := some t) G hN hD hlim hfin
  have := config_nopath_iff_unreachable c (edgeLocal_of_wellFormed c W G) hres
  exact ⟨hres, this.2, this.1⟩

/-- **a deciding schedule exists** (Dijkstra): on a well-formed configuration over the vertices
`< n` whose limits do not fire within `n` iterations and `n · D` tree entries (`D` bounds the number
of incident edges of a vertex) there is a schedule of at most `n + 1` pops on which the search
returns a route or "no path" — a route exactly when the destination is reachable —, and every
accepted, unfinished schedule extends to such a one -/
theorem config_dijkstra_decides (c : Config α) {du : DistanceUnit} (W : c.WellFormedDistance du)
    {source t : Nat} (G : c.GraphOK source true) (hwf : c.wf = some 0) {n D : Nat}
    (hD : ∀ v, (c.inst.incident v).length ≤ D)
    (hlim : ∀ sz it, it ≤ n → sz ≤ n * D → c.term.test sz it = .ok ()) (hsrc : source < n)
    (hV : c.VerticesBelow n) :
    (∃ sched, sched.length ≤ n + 1 ∧
      ((∃ r, c.runVertex source (some t) sched = .ok r) ∨
        c.runVertex source (some t) sched = .error .noPath) ∧
      ((∃ r, c.runVertex source (some t) sched = .ok r) ↔
        ∃ es, SearchOpt.Walk c.inst c.okOf source es t)) ∧
    ∀ pre, c.runVertex source (some t) pre = .error .scheduleExhausted →
      pre.length ≤ n ∧ ∃ ext, (pre ++ ext).length ≤ n + 1 ∧
        ((∃ r, c.runVertex source (some t) (pre ++ ext) = .ok r) ∨
          c.runVertex source (some t) (pre ++ ext) = .error .noPath) ∧
        ((∃ r, c.runVertex source (some t) (pre ++ ext) = .ok r) ↔
          ∃ es, SearchOpt.Walk c.inst c.okOf source es t) := by
  have hN := config_dijkstra_bound c G.adj hwf hsrc hV (some t)
  obtain ⟨⟨sched, h1, h2⟩, h3, _⟩ := config_dijkstra_terminates c G.adj hwf hsrc hV (some t)
  refine ⟨⟨sched, h1, ?_⟩, ?_⟩
  · obtain ⟨a, b, _⟩ := config_final_decides c W G hN hD hlim h2.isFinal
    exact ⟨a, b⟩
  · intro pre hpre
    obtain ⟨h4, ext, h5, h6⟩ := h3 pre hpre
    obtain ⟨a, b, _⟩ := config_final_decides c W G hN hD hlim h6.isFinal
    exact ⟨h4, ext, h5, a, b⟩

/-- **a deciding schedule exists, any weight factor** (general A\*, re-opening allowed): as
`config_dijkstra_decides` with the bound `N = |walks| + 1` of `config_terminates_general` on the
expansions (limits silent within `N` iterations and `N · D` tree entries; schedules of at most
`N + 1` pops) -/
theorem config_search_decides (c : Config α) {du : DistanceUnit} (W : c.WellFormedDistance du)
    {source t : Nat} (G : c.GraphOK source true) {n D : Nat}
    (hD : ∀ v, (c.inst.incident v).length ≤ D)
    (hlim : ∀ sz it, it ≤ (walks c.inst source n).length + 1 →
      sz ≤ ((walks c.inst source n).length + 1) * D → c.term.test sz it = .ok ())
    (hsrc : source < n) (hV : c.VerticesBelow n) :
    (∃ sched, sched.length ≤ (walks c.inst source n).length + 2 ∧
      ((∃ r, c.runVertex source (some t) sched = .ok r) ∨
        c.runVertex source (some t) sched = .error .noPath) ∧
      ((∃ r, c.runVertex source (some t) sched = .ok r) ↔
        ∃ es, SearchOpt.Walk c.inst c.okOf source es t)) ∧
    ∀ pre, c.runVertex source (some t) pre = .error .scheduleExhausted →
      pre.length ≤ (walks c.inst source n).length + 1 ∧
      ∃ ext, (pre ++ ext).length ≤ (walks c.inst source n).length + 2 ∧
        ((∃ r, c.runVertex source (some t) (pre ++ ext) = .ok r) ∨
          c.runVertex source (some t) (pre ++ ext) = .error .noPath) ∧
        ((∃ r, c.runVertex source (some t) (pre ++ ext) = .ok r) ↔
          ∃ es, SearchOpt.Walk c.inst c.okOf source es t) := by
  have hN := config_general_bound c G.adj hsrc hV (some t)
  obtain ⟨⟨sched, h1, h2⟩, h3, _⟩ := config_terminates_general c G.adj hsrc hV (some t)
  refine ⟨⟨sched, h1, ?_⟩, ?_⟩
  · obtain ⟨a, b, _⟩ := config_final_decides c W G hN hD hlim h2.isFinal
    exact ⟨a, b⟩
  · intro pre hpre
    obtain ⟨h4, ext, h5, h6⟩ := h3 pre hpre
    obtain ⟨a, b, _⟩ := config_final_decides c W G hN hD hlim h6.isFinal
    exact ⟨h4, ext, h5, a, b⟩

/-- **restrictions that depend only on the edge, any access model** (`Config.RestrictionLocal`:
consistent adjacency, no turn-restriction frontier model; turn delays allowed), Dijkstra: over the
vertices `< n` there is a schedule of at most `n + 1` pops on which the search ends the way the code
ends, every accepted, unfinished schedule extends to such a one, and whenever a run ends in a result
or in "no path" it is a result exactly when the destination is reachable through permitted edges.
(Without a totality premise on the component models the end may also be a component error or a
termination; `config_dijkstra_decides` excludes those on well-formed distance configurations.) -/
theorem config_restrictionLocal_dijkstra_decides (c : Config α) (h : c.RestrictionLocal)
    (hwf : c.wf = some 0) {source n : Nat} (hsrc : source < n) (hV : c.VerticesBelow n) (t : Nat) :
    (∃ sched, sched.length ≤ n + 1 ∧ Ended (c.runVertex source (some t) sched)) ∧
    (∀ pre, c.runVertex source (some t) pre = .error .scheduleExhausted →
      pre.length ≤ n ∧ ∃ ext, (pre ++ ext).length ≤ n + 1 ∧
        Ended (c.runVertex source (some t) (pre ++ ext))) ∧
    ∀ sched, ((∃ r, c.runVertex source (some t) sched = .ok r) ∨
        c.runVertex source (some t) sched = .error .noPath) →
      ((∃ r, c.runVertex source (some t) sched = .ok r) ↔
        ∃ es, SearchOpt.Walk c.inst c.okOf source es t) ∧
      (c.runVertex source (some t) sched = .error .noPath ↔
        ¬ ∃ es, SearchOpt.Walk c.inst c.okOf source es t) := by
  obtain ⟨h1, h2, _⟩ := config_dijkstra_terminates c h.adj hwf hsrc hV (some t)
  refine ⟨h1, h2, fun sched hres => ?_⟩
  have := SearchReach.config_nopath_iff_unreachable c h hres
  exact ⟨this.2, this.1⟩

/-- without a destination the loop never answers "no path" (when no component does) -/
theorem runLoop_none_ne_noPath {I : Inst α} (hyg : SearchOpt.NoSpuriousNoPath I) {source : Nat} :
    ∀ (sched : List Nat) (s : SState α), runLoop I source none sched s ≠ .error .noPath := by
  intro sched
  induction sched with
  | nil =>
    intro s hrun
    rw [runLoop_unfold] at hrun
    split at hrun
    · rename_i k hk; cases hrun; exact hyg.term _ _ hk
    · split at hrun <;> cases hrun
  | cons v rest ih =>
    intro s hrun
    rw [runLoop_unfold] at hrun
    split at hrun
    · rename_i k hk; cases hrun; exact hyg.term _ _ hk
    · split at hrun
      · cases hrun
      · simp only at hrun
        split at hrun
        · cases hrun
        · split at hrun
          · cases hrun
          · split at hrun
            · cases hrun
            · split at hrun
              · rename_i k hk
                cases hrun
                exact SearchOpt.relaxAll_not_noPath hyg _ _ _ _ _ hk
              · exact ih _ hrun

/-- **destination-less search**: on a well-formed configuration over the vertices `< n` whose limits
do not fire within `n` iterations and `n · D` tree entries (any weight factor) there is a schedule
of at most `n + 1` pops on which the search returns its tree, and every accepted, unfinished
schedule extends to such a one -/
theorem config_tree_search_returns (c : Config α) {du : DistanceUnit} (W : c.WellFormedDistance du)
    {source : Nat} (G : c.GraphOK source false) {n D : Nat}
    (hD : ∀ v, (c.inst.incident v).length ≤ D)
    (hlim : ∀ sz it, it ≤ n → sz ≤ n * D → c.term.test sz it = .ok ())
    (hsrc : source < n) (hV : c.VerticesBelow n) :
    (∃ sched r, sched.length ≤ n + 1 ∧ c.runVertex source none sched = .ok r) ∧
    ∀ pre, c.runVertex source none pre = .error .scheduleExhausted →
      pre.length ≤ n ∧ ∃ ext r, (pre ++ ext).length ≤ n + 1 ∧
        c.runVertex source none (pre ++ ext) = .ok r := by
  have hnp : ∀ sched, c.runVertex source none sched ≠ .error .noPath := by
    intro sched h
    have h' := (runVertex_error_iff c source none sched _).1 h
    unfold runVertexOriented at h'
    split at h'
    · rename_i k hk
      cases h'
      rw [runAStar_unfold] at hk
      simp only [reduceCtorEq, if_false, startF] at hk
      exact runLoop_none_ne_noPath c.noSpuriousNoPath _ _ hk
    · cases h'
  have hN := config_tree_bound c G.adj hsrc hV
  obtain ⟨⟨sched, h1, h2⟩, h3, _⟩ := config_tree_search_terminates c G.adj hsrc hV
  refine ⟨?_, ?_⟩
  · rcases config_final_result_or_nopath c W (target := none) G hN hD hlim h2.isFinal with ⟨r, hr⟩ | hr
    · exact ⟨sched, r, h1, hr⟩
    · exact absurd hr (hnp _)
  · intro pre hpre
    obtain ⟨h4, ext, h5, h6⟩ := h3 pre hpre
    rcases config_final_result_or_nopath c W (target := none) G hN hD hlim h6.isFinal with ⟨r, hr⟩ | hr
    · exact ⟨h4, ext, r, h5, hr⟩
    · exact absurd hr (hnp _)

end SearchTermination
end Compass
