/-
Helper lemmas for C18 (strongly connected components): list facts about the selection of the largest
component, reachability avoiding a set, the white-path specification of the functional DFS with the
finishing-order property, and the two passes of Kosaraju's algorithm.
-/
import Compass.Model.Scc

namespace Compass
namespace Scc

/-! ### `largestOf` -/

theorem largest_fold_ge (cs : List (List Nat)) (best : List Nat) :
    best.length ≤ (cs.foldl (fun best c => if c.length > best.length then c else best) best).length ∧
    ∀ c ∈ cs, c.length ≤ (cs.foldl (fun best c => if c.length > best.length then c else best) best).length := by
  induction cs generalizing best with
  | nil => simp
  | cons a cs ih =>
    simp only [List.foldl_cons, List.mem_cons, forall_eq_or_imp]
    by_cases h : a.length > best.length
    · simp only [h, if_true]
      have := ih a
      refine ⟨by omega, this.1, this.2⟩
    · simp only [h, if_false]
      have := ih best
      refine ⟨this.1, by omega, this.2⟩

theorem largest_fold_mem (cs : List (List Nat)) (best : List Nat) :
    (cs.foldl (fun best c => if c.length > best.length then c else best) best) = best ∨
    (cs.foldl (fun best c => if c.length > best.length then c else best) best) ∈ cs := by
  induction cs generalizing best with
  | nil => simp
  | cons a cs ih =>
    simp only [List.foldl_cons, List.mem_cons]
    by_cases h : a.length > best.length
    · simp only [h, if_true]
      rcases ih a with h1 | h1
      · exact Or.inr (Or.inl h1)
      · exact Or.inr (Or.inr h1)
    · simp only [h, if_false]
      rcases ih best with h1 | h1
      · exact Or.inl h1
      · exact Or.inr (Or.inr h1)

theorem largestOf_max (cs : List (List Nat)) : ∀ c ∈ cs, c.length ≤ (largestOf cs).length :=
  (largest_fold_ge cs []).2

theorem largestOf_mem (cs : List (List Nat)) (h : ∃ c ∈ cs, c ≠ []) : largestOf cs ∈ cs := by
  rcases largest_fold_mem cs [] with h1 | h1
  · obtain ⟨c, hc, hne⟩ := h
    have := largestOf_max cs c hc
    unfold largestOf at this
    rw [h1] at this
    cases c with
    | nil => exact absurd rfl hne
    | cons a t => simp at this
  · exact h1

end Scc
end Compass
