/-
Helper lemmas for C18 (strongly connected components): list facts about the selection of the largest
component, reachability avoiding a set, the white-path specification of the functional DFS with the
finishing-order property, and the two passes of Kosaraju's algorithm.
-/
import Compass.Model.Scc

namespace Compass
namespace Scc

/-! ### `largestOf` -/

theorem largest_fold_ge (cs : List (List Nat)) (best : List Nat) :
    best.length ≤ (cs.foldl (fun best c => if c.length > best.length then c else best) best).length ∧
    ∀ c ∈ cs, c.length ≤ (cs.foldl (fun best c => if c.length > best.length then c else best) best).length := by
  induction cs generalizing best with
  | nil => simp
  | cons a cs ih =>
    simp only [List.foldl_cons, List.mem_cons, forall_eq_or_imp]
    by_cases h : a.length > best.length
    · simp only [h, if_true]
      have := ih a
      refine ⟨by omega, this.1, this.2⟩
    · simp only [h, if_false]
      have := ih best
      refine ⟨this.1, by omega, this.2⟩

theorem largest_fold_mem (cs : List (List Nat)) (best : List Nat) :
    (cs.foldl (fun best c => if c.length > best.length then c else best) best) = best ∨
    (cs.foldl (fun best c => if c.length > best.length then c else best) best) ∈ cs := by
  induction cs generalizing best with
  | nil => simp
  | cons a cs ih =>
    simp only [List.foldl_cons, List.mem_cons]
    by_cases h : a.length > best.length
    · simp only [h, if_true]
      rcases ih a with h1 | h1
      · exact Or.inr (Or.inl h1)
      · exact Or.inr (Or.inr h1)
    · simp only [h, if_false]
      rcases ih best with h1 | h1
      · exact Or.inl h1
      · exact Or.inr (Or.inr h1)

theorem largestOf_max (cs : List (List Nat)) : ∀ c ∈ cs, c.length ≤ (largestOf cs).length :=
  (largest_fold_ge cs []).2

theorem largestOf_mem (cs : List (List Nat)) (h : ∃ c ∈ cs, c ≠ []) : largestOf cs ∈ cs := by
  rcases largest_fold_mem cs [] with h1 | h1
  · obtain ⟨c, hc, hne⟩ := h
    have := largestOf_max cs c hc
    unfold largestOf at this
    rw [h1] at this
    cases c with
    | nil => exact absurd rfl hne
    | cons a t => simp at this
  · exact h1

theorem largest_fold_keep (l : List (List Nat)) (best : List Nat) (h : ∀ a ∈ l, a.length ≤ best.length) :
    l.foldl (fun best c => if c.length > best.length then c else best) best = best := by
  induction l with
  | nil => rfl
  | cons a l ih =>
    have ha : ¬ a.length > best.length := by
      have := h a List.mem_cons_self
      omega
    simp only [List.foldl_cons, ha, if_false]
    exact ih (fun b hb => h b (List.mem_cons_of_mem _ hb))

theorem largest_fold_lt (l : List (List Nat)) (best : List Nat) (k : Nat) (h : ∀ a ∈ l, a.length < k)
    (hb : best.length < k) :
    (l.foldl (fun best c => if c.length > best.length then c else best) best).length < k := by
  induction l generalizing best with
  | nil => exact hb
  | cons a l ih =>
    simp only [List.foldl_cons]
    apply ih _ (fun b hb => h b (List.mem_cons_of_mem _ hb))
    split
    · exact h a List.mem_cons_self
    · exact hb

/-- ties: the selection returns the *first* component of maximal size -/
theorem largestOf_first (pre suf : List (List Nat)) (c : List Nat) (hc : c ≠ [])
    (hpre : ∀ a ∈ pre, a.length < c.length) (hsuf : ∀ a ∈ suf, a.length ≤ c.length) :
    largestOf (pre ++ c :: suf) = c := by
  unfold largestOf
  rw [List.foldl_append, List.foldl_cons]
  have hlt := largest_fold_lt pre [] c.length hpre (by
    cases c with
    | nil => exact absurd rfl hc
    | cons a t => simp)
  rw [if_pos hlt]
  exact largest_fold_keep suf c hsuf

/-! ### reachability that avoids a set

`RA E A x y`: there is a walk `x → … → y` along `E` none of whose vertices (end points included)
satisfies `A`. -/

inductive RA (E : Nat → Nat → Prop) (A : Nat → Prop) : Nat → Nat → Prop
  | refl {x : Nat} : ¬ A x → RA E A x x
  | step {x w y : Nat} : ¬ A x → E x w → RA E A w y → RA E A x y

namespace RA
variable {E : Nat → Nat → Prop} {A B : Nat → Prop} {x y z : Nat}

theorem src_not (h : RA E A x y) : ¬ A x := by
  cases h <;> assumption

theorem dst_not (h : RA E A x y) : ¬ A y := by
  induction h with
  | refl h => exact h
  | step _ _ _ ih => exact ih

theorem trans (h1 : RA E A x y) (h2 : RA E A y z) : RA E A x z := by
  induction h1 with
  | refl _ => exact h2
  | step hx he _ ih => exact step hx he (ih h2)

theorem mono (hAB : ∀ v, B v → A v) (h : RA E A x y) : RA E B x y := by
  induction h with
  | refl hx => exact refl (fun hb => hx (hAB _ hb))
  | step hx he _ ih => exact step (fun hb => hx (hAB _ hb)) he ih

/-- a walk avoiding `A` either avoids `B` as well or passes through a `B`-vertex -/
theorem split (B : Nat → Prop) (h : RA E A x y) :
    RA E (fun v => A v ∨ B v) x y ∨ ∃ p, B p ∧ RA E A x p ∧ RA E A p y := by
  induction h with
  | @refl x hx =>
    by_cases hb : B x
    · exact Or.inr ⟨x, hb, refl hx, refl hx⟩
    · exact Or.inl (refl (by simp [hx, hb]))
  | @step x w y hx he hwy ih =>
    by_cases hb : B x
    · exact Or.inr ⟨x, hb, refl hx, step hx he hwy⟩
    · rcases ih with h1 | ⟨p, hp, h1, h2⟩
      · exact Or.inl (step (by simp [hx, hb]) he h1)
      · exact Or.inr ⟨p, hp, step hx he h1, h2⟩

/-- the part of a walk after its last visit of `v` -/
theorem last_visit (v : Nat) (h : RA E A x y) :
    RA E (fun u => A u ∨ u = v) x y ∨ (¬ A v ∧ (y = v ∨ ∃ w, E v w ∧ RA E (fun u => A u ∨ u = v) w y)) := by
  induction h with
  | @refl x hx =>
    by_cases hv : x = v
    · subst hv; exact Or.inr ⟨hx, Or.inl rfl⟩
    · exact Or.inl (refl (by simp [hx, hv]))
  | @step x w y hx he hwy ih =>
    rcases ih with h1 | h1
    · by_cases hv : x = v
      · subst hv; exact Or.inr ⟨hx, Or.inr ⟨w, he, h1⟩⟩
      · exact Or.inl (step (by simp [hx, hv]) he h1)
    · exact Or.inr h1

theorem from_root (v : Nat) (h : RA E A v y) :
    y = v ∨ ∃ w, E v w ∧ RA E (fun u => A u ∨ u = v) w y := by
  rcases last_visit v h with h1 | h1
  · exact absurd (Or.inr rfl) h1.src_not
  · exact h1.2

/-- reversal -/
theorem flip (h : RA E A x y) : RA (fun a b => E b a) A y x := by
  induction h with
  | refl hx => exact refl hx
  | @step x w y hx he _ ih => exact ih.trans (step (dst_not ih) he (refl hx))

/-- a walk none of whose vertices is in `B` avoids `B` -/
theorem avoid (h : RA E A x y) (hB : ∀ p, RA E A x p → RA E A p y → ¬ B p) : RA E B x y := by
  induction h with
  | refl hx => exact refl (hB _ (refl hx) (refl hx))
  | @step x w y hx he hwy ih =>
    refine step (hB x (refl hx) (step hx he hwy)) he (ih ?_)
    intro p hwp hpy
    exact hB p (step hx he hwp) hpy

theorem bounded {n : Nat} (hn : ∀ a b, E a b → b < n) (h : RA E A x y) (hx : x < n) : y < n := by
  induction h with
  | refl _ => exact hx
  | step _ he _ ih => exact ih (hn _ _ he)

theorem congr (hAB : ∀ v, A v ↔ B v) : RA E A x y ↔ RA E B x y :=
  ⟨mono (fun v => (hAB v).2), mono (fun v => (hAB v).1)⟩

end RA

/-! ### the specification of a depth-first search (white-path theorem + finishing order)

`SpecN E ws A new`: started from the roots `ws` (in that order) with the vertices in `A` already visited,
the search pushes the block `new` (last finished first) onto the stack: exactly the vertices reachable
from a root avoiding `A`, each once, and for every pushed `x` and every `y` it reaches avoiding `A`, some
vertex mutually reachable with `x` lies at or above `y` in the block. -/

structure SpecN (E : Nat → Nat → Prop) (ws : List Nat) (A : Nat → Prop) (new : List Nat) : Prop where
  nodup : new.Nodup
  reach : ∀ y, y ∈ new ↔ ∃ w ∈ ws, RA E A w y
  order : ∀ x ∈ new, ∀ y, RA E A x y →
    ∃ z ∈ new, RA E A z x ∧ RA E A x z ∧ new.idxOf z ≤ new.idxOf y

namespace SpecN
variable {E : Nat → Nat → Prop} {A : Nat → Prop} {ws new new1 new2 : List Nat} {v w x y : Nat}

theorem fresh (h : SpecN E ws A new) (hx : x ∈ new) : ¬ A x := by
  obtain ⟨w, _, hw⟩ := (h.reach x).1 hx
  exact hw.dst_not

theorem closed (h : SpecN E ws A new) (hx : x ∈ new) (hxy : RA E A x y) : y ∈ new := by
  obtain ⟨w, hw, hwx⟩ := (h.reach x).1 hx
  exact (h.reach y).2 ⟨w, hw, hwx.trans hxy⟩

theorem nil : SpecN E [] A [] := ⟨List.nodup_nil, by simp, by simp⟩

theorem visited (hv : A v) : SpecN E [v] A [] := by
  refine ⟨List.nodup_nil, ?_, by simp⟩
  intro y
  simp only [List.not_mem_nil, List.mem_singleton, exists_eq_left, false_iff]
  intro h
  exact h.src_not hv

/-- two consecutive searches -/
theorem append (h1 : SpecN E [w] A new1) (h2 : SpecN E ws (fun v => A v ∨ v ∈ new1) new2) :
    SpecN E (w :: ws) A (new2 ++ new1) := by
  have hdisj : ∀ a, a ∈ new2 → a ∉ new1 := fun a ha hb => h2.fresh ha (Or.inr hb)
  have hmono : ∀ {a b}, RA E (fun v => A v ∨ v ∈ new1) a b → RA E A a b :=
    fun h => h.mono (fun v hv => Or.inl hv)
  refine ⟨?_, ?_, ?_⟩
  · rw [List.nodup_append]
    exact ⟨h2.nodup, h1.nodup, fun a ha b hb hab => hdisj a ha (hab ▸ hb)⟩
  · intro y
    constructor
    · intro hy
      rcases List.mem_append.1 hy with hy | hy
      · obtain ⟨w', hw', hr⟩ := (h2.reach y).1 hy
        exact ⟨w', List.mem_cons_of_mem _ hw', hmono hr⟩
      · obtain ⟨w', hw', hr⟩ := (h1.reach y).1 hy
        exact ⟨w', List.mem_cons.2 (Or.inl (List.mem_singleton.1 hw')), hr⟩
    · rintro ⟨w', hw', hr⟩
      rcases List.mem_cons.1 hw' with rfl | hw'
      · exact List.mem_append_right _ ((h1.reach y).2 ⟨w', by simp, hr⟩)
      · rcases hr.split (fun v => v ∈ new1) with hr' | ⟨p, hp, _, hpy⟩
        · exact List.mem_append_left _ ((h2.reach y).2 ⟨w', hw', hr'⟩)
        · exact List.mem_append_right _ (h1.closed hp hpy)
  · intro x hx y hxy
    rcases List.mem_append.1 hx with hx2 | hx1
    · rcases hxy.split (fun v => v ∈ new1) with hr' | ⟨p, hp, _, hpy⟩
      · obtain ⟨z, hz, hzx, hxz, hidx⟩ := h2.order x hx2 y hr'
        have hy2 : y ∈ new2 := h2.closed hx2 hr'
        refine ⟨z, List.mem_append_left _ hz, hmono hzx, hmono hxz, ?_⟩
        rw [List.idxOf_append, List.idxOf_append, if_pos hz, if_pos hy2]
        exact hidx
      · have hy1 : y ∈ new1 := h1.closed hp hpy
        have hy2 : y ∉ new2 := fun h => hdisj y h hy1
        refine ⟨x, hx, RA.refl hxy.src_not, RA.refl hxy.src_not, ?_⟩
        rw [List.idxOf_append, List.idxOf_append, if_pos hx2, if_neg hy2]
        have := List.idxOf_lt_length_of_mem hx2
        omega
    · obtain ⟨z, hz, hzx, hxz, hidx⟩ := h1.order x hx1 y hxy
      have hy1 : y ∈ new1 := h1.closed hx1 hxy
      have hy2 : y ∉ new2 := fun h => hdisj y h hy1
      have hz2 : z ∉ new2 := fun h => hdisj z h hz
      refine ⟨z, List.mem_append_right _ hz, hzx, hxz, ?_⟩
      rw [List.idxOf_append, List.idxOf_append, if_neg hz2, if_neg hy2]
      omega

/-- a search from an unvisited root `v`: mark it, search its successors, push it -/
theorem root (hv : ¬ A v) (hws : ∀ w, w ∈ ws ↔ E v w) (h : SpecN E ws (fun u => A u ∨ u = v) new) :
    SpecN E [v] A (v :: new) := by
  have hvn : v ∉ new := fun hm => h.fresh hm (Or.inr rfl)
  have hmono : ∀ {a b}, RA E (fun u => A u ∨ u = v) a b → RA E A a b :=
    fun h => h.mono (fun v hv => Or.inl hv)
  have hreach : ∀ y, y ∈ v :: new ↔ RA E A v y := by
    intro y
    constructor
    · intro hy
      rcases List.mem_cons.1 hy with rfl | hy
      · exact RA.refl hv
      · obtain ⟨w, hw, hr⟩ := (h.reach y).1 hy
        exact RA.step hv ((hws w).1 hw) (hmono hr)
    · intro hr
      rcases hr.from_root with rfl | ⟨w, hw, hr'⟩
      · exact List.mem_cons_self
      · exact List.mem_cons_of_mem _ ((h.reach y).2 ⟨w, (hws w).2 hw, hr'⟩)
  refine ⟨List.nodup_cons.2 ⟨hvn, h.nodup⟩, ?_, ?_⟩
  · intro y
    simp only [List.mem_singleton, exists_eq_left]
    exact hreach y
  · intro x hx y hxy
    by_cases hxv : RA E A x v
    · refine ⟨v, List.mem_cons_self, (hreach x).1 hx, hxv, ?_⟩
      simp
    · have hxne : x ≠ v := fun h => hxv (by rw [h]; exact RA.refl hv)
      have hxn : x ∈ new := by
        rcases List.mem_cons.1 hx with h | h
        · exact absurd h hxne
        · exact h
      rcases hxy.split (fun u => u = v) with hr' | ⟨p, hp, hxp, _⟩
      · obtain ⟨z, hz, hzx, hxz, hidx⟩ := h.order x hxn y hr'
        have hyn : y ∈ new := h.closed hxn hr'
        have hzne : v ≠ z := fun h => hvn (h ▸ hz)
        have hyne : v ≠ y := fun h => hvn (h ▸ hyn)
        refine ⟨z, List.mem_cons_of_mem _ hz, hmono hzx, hmono hxz, ?_⟩
        have e1 : (v == z) = false := by simpa using hzne
        have e2 : (v == y) = false := by simpa using hyne
        rw [List.idxOf_cons, List.idxOf_cons, e1, e2]
        simpa using hidx
      · subst hp
        exact absurd hxp hxv

theorem congr {B : Nat → Prop} (hAB : ∀ v, A v ↔ B v) (h : SpecN E ws A new) : SpecN E ws B new := by
  refine ⟨h.nodup, fun y => ?_, fun x hx y hxy => ?_⟩
  · rw [h.reach y]
    exact ⟨fun ⟨w, hw, hr⟩ => ⟨w, hw, (RA.congr hAB).1 hr⟩, fun ⟨w, hw, hr⟩ => ⟨w, hw, (RA.congr hAB).2 hr⟩⟩
  · obtain ⟨z, hz, h1, h2, h3⟩ := h.order x hx y ((RA.congr hAB).2 hxy)
    exact ⟨z, hz, (RA.congr hAB).1 h1, (RA.congr hAB).1 h2, h3⟩

end SpecN

/-! ### the executable DFS meets the specification, and the fuel suffices -/

/-- number of vertices `< n` not yet visited -/
def unv (n : Nat) (vis : List Nat) : Nat := (List.range n).countP (fun x => !vis.contains x)

theorem unv_mono {n : Nat} {vis vis' : List Nat} (h : ∀ x, x ∈ vis → x ∈ vis') : unv n vis' ≤ unv n vis := by
  unfold unv
  apply List.countP_mono_left
  intro x _ hx
  simp only [Bool.not_eq_true', List.contains_eq_mem, decide_eq_false_iff_not] at hx ⊢
  exact fun hm => hx (h x hm)

theorem countP_cons_lt (v : Nat) (vis l : List Nat) (hv : v ∉ vis) :
    l.countP (fun x => !(v :: vis).contains x) ≤ l.countP (fun x => !vis.contains x) ∧
    (v ∈ l → l.countP (fun x => !(v :: vis).contains x) < l.countP (fun x => !vis.contains x)) := by
  induction l with
  | nil => simp
  | cons a l ih =>
    by_cases hav : a = v
    · subst hav
      have h1 : (!(a :: vis).contains a) = false := by simp
      have h2 : (!vis.contains a) = true := by simp [hv]
      rw [List.countP_cons, List.countP_cons, h1, h2]
      simp only [Bool.false_eq_true, if_false, if_true]
      refine ⟨by omega, fun _ => by omega⟩
    · have h1 : (!(v :: vis).contains a) = (!vis.contains a) := by
        simp [hav]
      rw [List.countP_cons, List.countP_cons, h1]
      refine ⟨by split <;> omega, fun hm => ?_⟩
      have hm' : v ∈ l := by
        rcases List.mem_cons.1 hm with h | h
        · exact absurd h.symm hav
        · exact h
      have := ih.2 hm'
      split <;> omega

theorem unv_cons_lt {n v : Nat} {vis : List Nat} (hv : v < n) (hvis : v ∉ vis) : unv n (v :: vis) < unv n vis :=
  (countP_cons_lt v vis (List.range n) hvis).2 (List.mem_range.2 hv)

theorem unv_pos {n v : Nat} {vis : List Nat} (hv : v < n) (hvis : v ∉ vis) : 0 < unv n vis := by
  have := unv_cons_lt hv hvis
  omega

/-- what a search procedure `rec` must deliver on every start vertex `< n` when at most `fuel` vertices are
unvisited -/
def DfsOk (E : Nat → Nat → Prop) (n fuel : Nat) (rec : Nat → St → Except Err St) : Prop :=
  ∀ v vis st, v < n → unv n vis ≤ fuel →
    ∃ new vis', rec v (vis, st) = .ok (vis', new ++ st) ∧ (∀ x, x ∈ vis' ↔ (x ∈ vis ∨ x ∈ new)) ∧
      SpecN E [v] (fun u => u ∈ vis) new

theorem forEach_spec {E : Nat → Nat → Prop} {n fuel : Nat} {rec : Nat → St → Except Err St}
    (hrec : DfsOk E n fuel rec) (far : Nat → Option Nat) :
    ∀ xs vis st, (∀ x ∈ xs, ∃ w, far x = some w ∧ w < n) → unv n vis ≤ fuel →
      ∃ new vis', forEach rec far xs (vis, st) = .ok (vis', new ++ st) ∧
        (∀ x, x ∈ vis' ↔ (x ∈ vis ∨ x ∈ new)) ∧ SpecN E (xs.filterMap far) (fun u => u ∈ vis) new := by
  intro xs
  induction xs with
  | nil =>
    intro vis st _ _
    exact ⟨[], vis, by simp [forEach], by simp, SpecN.nil⟩
  | cons e es ih =>
    intro vis st hxs hfuel
    obtain ⟨w, hw, hwn⟩ := hxs e List.mem_cons_self
    obtain ⟨new1, vis1, hr1, hext1, hs1⟩ := hrec w vis st hwn hfuel
    have hfuel1 : unv n vis1 ≤ fuel :=
      Nat.le_trans (unv_mono (fun x hx => (hext1 x).2 (Or.inl hx))) hfuel
    obtain ⟨new2, vis2, hr2, hext2, hs2⟩ :=
      ih vis1 (new1 ++ st) (fun x hx => hxs x (List.mem_cons_of_mem _ hx)) hfuel1
    refine ⟨new2 ++ new1, vis2, ?_, ?_, ?_⟩
    · simp only [forEach, hw, hr1, hr2, List.append_assoc]
    · intro x
      rw [hext2 x, hext1 x, List.mem_append]
      constructor
      · rintro ((h | h) | h)
        · exact Or.inl h
        · exact Or.inr (Or.inr h)
        · exact Or.inr (Or.inl h)
      · rintro (h | h | h)
        · exact Or.inl (Or.inl h)
        · exact Or.inr h
        · exact Or.inl (Or.inr h)
    · have : (e :: es).filterMap far = w :: es.filterMap far := by
        simp [hw]
      rw [this]
      exact SpecN.append hs1 (hs2.congr (fun v => hext1 v))

/-- the executable search meets the specification for every fuel value: the fuel bounds the number of
unvisited vertices, which strictly decreases along the recursion, so `Err.diverges` is never produced -/
theorem dfsG_spec {E : Nat → Nat → Prop} {n : Nat} {inc : Nat → List Nat} {far : Nat → Option Nat}
    (hE : ∀ v w, E v w ↔ ∃ e ∈ inc v, far e = some w)
    (hfar : ∀ v, ∀ e ∈ inc v, ∃ w, far e = some w)
    (hn : ∀ v w, E v w → w < n) :
    ∀ fuel, DfsOk E n fuel (dfsG inc far fuel) := by
  intro fuel
  induction fuel with
  | zero =>
    intro v vis st hv hfuel
    by_cases hvis : v ∈ vis
    · refine ⟨[], vis, by simp [dfsG, hvis], by simp, SpecN.visited hvis⟩
    · have := unv_pos hv hvis
      omega
  | succ fuel ih =>
    intro v vis st hv hfuel
    by_cases hvis : v ∈ vis
    · refine ⟨[], vis, by simp [dfsG, hvis], by simp, SpecN.visited hvis⟩
    · have hfuel' : unv n (v :: vis) ≤ fuel := by
        have := unv_cons_lt hv hvis
        omega
      have hxs : ∀ x ∈ inc v, ∃ w, far x = some w ∧ w < n := by
        intro x hx
        obtain ⟨w, hw⟩ := hfar v x hx
        exact ⟨w, hw, hn v w ((hE v w).2 ⟨x, hx, hw⟩)⟩
      obtain ⟨new, vis', hr, hext, hs⟩ := forEach_spec ih far (inc v) (v :: vis) st hxs hfuel'
      refine ⟨v :: new, vis', ?_, ?_, ?_⟩
      · simp [dfsG, hvis, hr]
      · intro x
        rw [hext x]
        simp only [List.mem_cons]
        constructor
        · rintro ((h | h) | h)
          · exact Or.inr (Or.inl h)
          · exact Or.inl h
          · exact Or.inr (Or.inr h)
        · rintro (h | h | h)
          · exact Or.inl (Or.inr h)
          · exact Or.inl (Or.inl h)
          · exact Or.inr h
      · apply SpecN.root hvis (ws := (inc v).filterMap far)
        · intro w
          rw [List.mem_filterMap, hE]
        · apply hs.congr
          intro u
          simp only [List.mem_cons]
          exact ⟨fun h => h.symm, fun h => h.symm⟩

/-! ### graphs: edges, reachability, well-formedness -/

/-- there is an edge record with source `u` and destination `v` -/
def Graph.Edge (g : Graph) (u v : Nat) : Prop := ∃ e : Nat, g.edges[e]? = some (u, v)

/-- `v` can be reached from `u` along directed edges (every vertex reaches itself) -/
inductive Graph.Reach (g : Graph) : Nat → Nat → Prop
  | refl (u : Nat) : Graph.Reach g u u
  | step {u w v : Nat} : g.Edge u w → Graph.Reach g w v → Graph.Reach g u v

theorem reach_iff_RA (g : Graph) (u v : Nat) : g.Reach u v ↔ RA g.Edge (fun _ => False) u v := by
  constructor
  · intro h
    induction h with
    | refl u => exact RA.refl (fun h => h)
    | step he _ ih => exact RA.step (fun h => h) he ih
  · intro h
    induction h with
    | refl _ => exact Graph.Reach.refl _
    | step _ he _ ih => exact Graph.Reach.step he ih

theorem Graph.Reach.trans {g : Graph} {u v w : Nat} (h1 : g.Reach u v) (h2 : g.Reach v w) : g.Reach u w :=
  (reach_iff_RA g u w).2 (((reach_iff_RA g u v).1 h1).trans ((reach_iff_RA g v w).1 h2))

/-- the facts packed in `Graph.wfb` -/
structure Graph.WF (g : Graph) : Prop where
  range : ∀ (e s d : Nat), g.edges[e]? = some (s, d) → s < g.n ∧ d < g.n
  out_src : ∀ (v e : Nat), e ∈ g.outEdges v → g.srcOf e = some v
  in_dst : ∀ (v e : Nat), e ∈ g.inEdges v → g.dstOf e = some v
  listed : ∀ (e s d : Nat), g.edges[e]? = some (s, d) → e ∈ g.outEdges s ∧ e ∈ g.inEdges d

theorem Graph.wf_of_wfb (g : Graph) (h : g.wfb = true) : g.WF := by
  simp only [Graph.wfb, Bool.and_eq_true, beq_iff_eq, List.all_eq_true, decide_eq_true_eq,
    List.mem_range] at h
  obtain ⟨⟨⟨h3, h4⟩, h5⟩, h6⟩ := h
  refine ⟨?_, ?_, ?_, ?_⟩
  · intro e s d he
    have hm : (s, d) ∈ g.edges.toList := Array.mem_toList_iff.2 (Array.mem_of_getElem? he)
    exact h3 _ hm
  · intro v e he
    by_cases hv : v < g.adj.size
    · exact h4 v hv e he
    · have : g.outEdges v = [] := by
        unfold Graph.outEdges
        rw [Array.getElem?_eq_none (by omega)]
        rfl
      rw [this] at he
      exact absurd he List.not_mem_nil
  · intro v e he
    by_cases hv : v < g.rev.size
    · exact h5 v hv e he
    · have : g.inEdges v = [] := by
        unfold Graph.inEdges
        rw [Array.getElem?_eq_none (by omega)]
        rfl
      rw [this] at he
      exact absurd he List.not_mem_nil
  · intro e s d he
    have hlt : e < g.edges.size := (Array.getElem?_eq_some_iff.1 he).1
    have := h6 e hlt
    rw [he] at this
    simpa using this

namespace Graph.WF
variable {g : Graph}

theorem edge_lt (h : g.WF) {u v : Nat} (he : g.Edge u v) : u < g.n ∧ v < g.n := by
  obtain ⟨e, he⟩ := he
  exact h.range e u v he

theorem fwd (h : g.WF) (v w : Nat) : g.Edge v w ↔ ∃ e ∈ g.outEdges v, g.dstOf e = some w := by
  constructor
  · rintro ⟨e, he⟩
    exact ⟨e, (h.listed e v w he).1, by simp [Graph.dstOf, he]⟩
  · rintro ⟨e, he, hd⟩
    have hs := h.out_src v e he
    unfold Graph.srcOf at hs
    unfold Graph.dstOf at hd
    cases hp : g.edges[e]? with
    | none => simp [hp] at hs
    | some p =>
      obtain ⟨a, b⟩ := p
      simp [hp] at hs hd
      exact ⟨e, by rw [hp, hs, hd]⟩

theorem bwd (h : g.WF) (v w : Nat) : g.Edge w v ↔ ∃ e ∈ g.inEdges v, g.srcOf e = some w := by
  constructor
  · rintro ⟨e, he⟩
    exact ⟨e, (h.listed e w v he).2, by simp [Graph.srcOf, he]⟩
  · rintro ⟨e, he, hd⟩
    have hs := h.in_dst v e he
    unfold Graph.dstOf at hs
    unfold Graph.srcOf at hd
    cases hp : g.edges[e]? with
    | none => simp [hp] at hs
    | some p =>
      obtain ⟨a, b⟩ := p
      simp [hp] at hs hd
      exact ⟨e, by rw [hp, hs, hd]⟩

theorem fwd_some (h : g.WF) (v e : Nat) (he : e ∈ g.outEdges v) : ∃ w, g.dstOf e = some w := by
  have hs := h.out_src v e he
  unfold Graph.srcOf at hs
  unfold Graph.dstOf
  cases hp : g.edges[e]? with
  | none => simp [hp] at hs
  | some p => exact ⟨p.2, rfl⟩

theorem bwd_some (h : g.WF) (v e : Nat) (he : e ∈ g.inEdges v) : ∃ w, g.srcOf e = some w := by
  have hs := h.in_dst v e he
  unfold Graph.dstOf at hs
  unfold Graph.srcOf
  cases hp : g.edges[e]? with
  | none => simp [hp] at hs
  | some p => exact ⟨p.1, rfl⟩

theorem reach_lt (h : g.WF) {u v : Nat} (hr : g.Reach u v) (hu : u < g.n) : v < g.n := by
  induction hr with
  | refl _ => exact hu
  | step he _ ih => exact ih (h.edge_lt he).2

/-- forward search: `dfs g fuel` meets the DFS specification along the edges -/
theorem dfs_ok (h : g.WF) (fuel : Nat) : DfsOk g.Edge g.n fuel (dfs g fuel) :=
  dfsG_spec (h.fwd) (h.fwd_some) (fun _ _ he => (h.edge_lt he).2) fuel

/-- backward search: `rdfs g fuel` meets the DFS specification along the reversed edges -/
theorem rdfs_ok (h : g.WF) (fuel : Nat) : DfsOk (fun a b => g.Edge b a) g.n fuel (rdfs g fuel) :=
  dfsG_spec (E := fun a b => g.Edge b a) (h.bwd) (h.bwd_some) (fun _ _ he => (h.edge_lt he).1) fuel

end Graph.WF

theorem unv_le (n : Nat) (vis : List Nat) : unv n vis ≤ n := by
  unfold unv
  have := List.countP_le_length (p := fun x => !vis.contains x) (l := List.range n)
  simpa using this

theorem fuel_ge (g : Graph) (vis : List Nat) : unv g.n vis ≤ g.fuel :=
  Nat.le_trans (unv_le g.n vis) (by unfold Graph.fuel; omega)

/-! ### first pass: the stack after `for vertex_id in graph.vertex_ids()` -/

/-- what the second pass needs to know about the stack `S` left by the first pass (head = top) -/
structure StackOk (g : Graph) (S : List Nat) : Prop where
  nodup : S.Nodup
  mem : ∀ y, y ∈ S ↔ y < g.n
  order : ∀ x ∈ S, ∀ y, g.Reach x y →
    ∃ z ∈ S, g.Reach z x ∧ g.Reach x z ∧ S.idxOf z ≤ S.idxOf y

theorem pass1_spec {g : Graph} (h : g.WF) : ∃ vis S, pass1 g = .ok (vis, S) ∧ StackOk g S := by
  obtain ⟨new, vis', hr, _, hs⟩ :=
    forEach_spec (h.dfs_ok g.fuel) some (List.range g.n) [] []
      (fun x hx => ⟨x, rfl, List.mem_range.1 hx⟩) (fuel_ge g [])
  have hs' : SpecN g.Edge (List.range g.n) (fun _ => False) new := by
    have := hs.congr (B := fun _ => False) (fun v => by simp)
    simpa using this
  refine ⟨vis', new, by simpa [pass1] using hr, hs'.nodup, ?_, ?_⟩
  · intro y
    rw [hs'.reach y]
    constructor
    · rintro ⟨w, hw, hr⟩
      exact h.reach_lt ((reach_iff_RA g w y).2 hr) (List.mem_range.1 hw)
    · intro hy
      exact ⟨y, List.mem_range.2 hy, RA.refl (fun h => h)⟩
  · intro x hx y hxy
    obtain ⟨z, hz, h1, h2, h3⟩ := hs'.order x hx y ((reach_iff_RA g x y).1 hxy)
    exact ⟨z, hz, (reach_iff_RA g z x).2 h1, (reach_iff_RA g x z).2 h2, h3⟩

/-! ### second pass -/

/-- `c` is a mutual-reachability class, listed without repetition -/
def IsClass (g : Graph) (c : List Nat) : Prop :=
  c ≠ [] ∧ c.Nodup ∧ ∀ u ∈ c, ∀ v, v ∈ c ↔ (g.Reach u v ∧ g.Reach v u)

/-- `cs` lists the mutual-reachability classes of the vertices `0 .. n-1`, each once -/
structure Good (g : Graph) (cs : List (List Nat)) : Prop where
  classes : ∀ c ∈ cs, IsClass g c
  disjoint : cs.Pairwise (fun a b => ∀ x, x ∈ a → x ∉ b)
  cover : ∀ x, (∃ c ∈ cs, x ∈ c) ↔ x < g.n

/-- loop invariant of the second pass: `st` is what is left of the stack `S`, `vis` the visited set,
`acc` the components found so far -/
structure Inv2 (g : Graph) (S st vis : List Nat) (acc : List (List Nat)) : Prop where
  suffix : ∃ popped, S = popped ++ st ∧ ∀ z ∈ popped, z ∈ vis
  predc : ∀ x y, g.Edge x y → y ∈ vis → x ∈ vis
  union : ∀ x, x ∈ vis ↔ ∃ c ∈ acc, x ∈ c
  classes : ∀ c ∈ acc, IsClass g c
  disjoint : acc.Pairwise (fun a b => ∀ x, x ∈ a → x ∉ b)
  lt : ∀ x ∈ vis, x < g.n

theorem predc_reach {g : Graph} {vis : List Nat} (hp : ∀ x y, g.Edge x y → y ∈ vis → x ∈ vis)
    {x y : Nat} (h : g.Reach x y) (hy : y ∈ vis) : x ∈ vis := by
  induction h with
  | refl _ => exact hy
  | step he _ ih => exact hp _ _ he (ih hy)

/-- the component collected by the reverse search from the top-most unvisited vertex is its class -/
theorem component_is_class {g : Graph} (h : g.WF) {S st vis C : List Nat} {v : Nat}
    (hS : StackOk g S) (hsuf : ∃ popped, S = popped ++ v :: st ∧ ∀ z ∈ popped, z ∈ vis)
    (hp : ∀ x y, g.Edge x y → y ∈ vis → x ∈ vis) (hv : v ∉ vis)
    (hC : SpecN (fun a b => g.Edge b a) [v] (fun u => u ∈ vis) C) :
    ∀ y, y ∈ C ↔ (g.Reach v y ∧ g.Reach y v) := by
  obtain ⟨popped, hSeq, hpop⟩ := hsuf
  have hvS : v ∈ S := by rw [hSeq]; simp
  have hvn : v < g.n := (hS.mem v).1 hvS
  intro y
  rw [hC.reach y]
  simp only [List.mem_singleton, exists_eq_left]
  constructor
  · intro hr
    have hyv : RA g.Edge (fun u => u ∈ vis) y v := hr.flip
    have hyvis : y ∉ vis := hyv.src_not
    have hRyv : g.Reach y v := (reach_iff_RA g y v).2 (hyv.mono (fun _ hf => hf.elim))
    have hyn : y < g.n := RA.bounded (E := fun a b => g.Edge b a) (fun a b he => (h.edge_lt he).1) hr hvn
    obtain ⟨z, hz, hzy, hyz, hidx⟩ := hS.order y ((hS.mem y).2 hyn) v hRyv
    refine ⟨?_, hRyv⟩
    have hnd := hS.nodup
    rw [hSeq] at hnd hidx hz
    have hvp : v ∉ popped := by
      intro hm
      have := (List.nodup_append.1 hnd).2.2 v hm v (by simp)
      exact this rfl
    rw [List.idxOf_append (a := v), if_neg hvp, List.idxOf_cons_self] at hidx
    by_cases hzp : z ∈ popped
    · exact absurd (predc_reach hp hyz (hpop z hzp)) hyvis
    · rw [List.idxOf_append, if_neg hzp, List.idxOf_cons] at hidx
      by_cases hzv : v = z
      · rw [hzv]; exact hzy
      · have e1 : (v == z) = false := by simpa using hzv
        rw [e1] at hidx
        simp at hidx
        omega
  · rintro ⟨hvy, hyv⟩
    have : RA g.Edge (fun u => u ∈ vis) y v := by
      apply ((reach_iff_RA g y v).1 hyv).avoid
      intro p hyp _ hpvis
      have hvp : g.Reach v p := hvy.trans ((reach_iff_RA g y p).2 hyp)
      exact hv (predc_reach hp hvp hpvis)
    exact this.flip

theorem pass2_spec {g : Graph} (h : g.WF) {S : List Nat} (hS : StackOk g S) :
    ∀ st vis acc, Inv2 g S st vis acc → ∃ cs, pass2 g st vis acc = .ok cs ∧ Good g cs := by
  intro st
  induction st with
  | nil =>
    intro vis acc hI
    refine ⟨acc.reverse, by simp [pass2], ?_, ?_, ?_⟩
    · intro c hc
      exact hI.classes c (List.mem_reverse.1 hc)
    · rw [List.pairwise_reverse]
      exact hI.disjoint.imp (fun {a b} hab x hxb hxa => hab x hxa hxb)
    · intro x
      obtain ⟨popped, hSeq, hpop⟩ := hI.suffix
      constructor
      · rintro ⟨c, hc, hx⟩
        exact hI.lt x ((hI.union x).2 ⟨c, List.mem_reverse.1 hc, hx⟩)
      · intro hx
        have hxS : x ∈ S := (hS.mem x).2 hx
        rw [hSeq, List.append_nil] at hxS
        obtain ⟨c, hc, hxc⟩ := (hI.union x).1 (hpop x hxS)
        exact ⟨c, List.mem_reverse.2 hc, hxc⟩
  | cons v st ih =>
    intro vis acc hI
    obtain ⟨popped, hSeq, hpop⟩ := hI.suffix
    by_cases hvis : v ∈ vis
    · have hI' : Inv2 g S st vis acc := by
        refine ⟨⟨popped ++ [v], by simp [hSeq], ?_⟩, hI.predc, hI.union, hI.classes, hI.disjoint, hI.lt⟩
        intro z hz
        rcases List.mem_append.1 hz with hz | hz
        · exact hpop z hz
        · rw [List.mem_singleton.1 hz]; exact hvis
      obtain ⟨cs, hcs, hgood⟩ := ih vis acc hI'
      exact ⟨cs, by simp [pass2, hvis, hcs], hgood⟩
    · have hvS : v ∈ S := by rw [hSeq]; simp
      have hvn : v < g.n := (hS.mem v).1 hvS
      obtain ⟨C, vis', hr, hext, hC⟩ := h.rdfs_ok g.fuel v vis [] hvn (fuel_ge g vis)
      rw [List.append_nil] at hr
      have hclass := component_is_class h hS ⟨popped, hSeq, hpop⟩ hI.predc hvis hC
      have hvC : v ∈ C := (hclass v).2 ⟨Graph.Reach.refl v, Graph.Reach.refl v⟩
      have hI' : Inv2 g S st vis' (C.reverse :: acc) := by
        refine ⟨⟨popped ++ [v], by simp [hSeq], ?_⟩, ?_, ?_, ?_, ?_, ?_⟩
        · intro z hz
          rcases List.mem_append.1 hz with hz | hz
          · exact (hext z).2 (Or.inl (hpop z hz))
          · rw [List.mem_singleton.1 hz]; exact (hext v).2 (Or.inr hvC)
        · intro x y he hy
          rcases (hext y).1 hy with hy | hy
          · exact (hext x).2 (Or.inl (hI.predc x y he hy))
          · by_cases hx : x ∈ vis
            · exact (hext x).2 (Or.inl hx)
            · refine (hext x).2 (Or.inr (hC.closed hy ?_))
              exact RA.step (hC.fresh hy) he (RA.refl hx)
        · intro x
          rw [hext x, hI.union x]
          simp only [List.mem_cons, exists_eq_or_imp, List.mem_reverse]
          exact Or.comm
        · intro c hc
          rcases List.mem_cons.1 hc with rfl | hc
          · refine ⟨?_, List.pairwise_reverse.2 (hC.nodup.imp (fun h => h.symm)), ?_⟩
            · intro hnil
              have : v ∈ C.reverse := List.mem_reverse.2 hvC
              rw [hnil] at this
              exact absurd this List.not_mem_nil
            · intro u hu w
              rw [List.mem_reverse] at hu ⊢
              obtain ⟨hvu, huv⟩ := (hclass u).1 hu
              rw [hclass w]
              constructor
              · rintro ⟨hvw, hwv⟩
                exact ⟨huv.trans hvw, hwv.trans hvu⟩
              · rintro ⟨huw, hwu⟩
                exact ⟨hvu.trans huw, hwu.trans huv⟩
          · exact hI.classes c hc
        · rw [List.pairwise_cons]
          refine ⟨?_, hI.disjoint⟩
          intro c hc x hx hxc
          rw [List.mem_reverse] at hx
          exact hC.fresh hx ((hI.union x).2 ⟨c, hc, hxc⟩)
        · intro x hx
          rcases (hext x).1 hx with hx | hx
          · exact hI.lt x hx
          · exact h.reach_lt ((hclass x).1 hx).1 hvn
      obtain ⟨cs, hcs, hgood⟩ := ih vis' (C.reverse :: acc) hI'
      exact ⟨cs, by simp [pass2, hvis, hr, hcs], hgood⟩

/-! ### the graph the loader builds is well formed -/

theorem ofEdges_edge (n : Nat) (es : List (Nat × Nat)) (u v : Nat) :
    (Graph.ofEdges n es).Edge u v ↔ (u, v) ∈ es := by
  unfold Graph.Edge Graph.ofEdges
  simp only [List.getElem?_toArray]
  exact (List.mem_iff_getElem? (a := (u, v)) (l := es)).symm

theorem ofEdges_outEdges (n : Nat) (es : List (Nat × Nat)) (v : Nat) (hv : v < n) :
    (Graph.ofEdges n es).outEdges v =
      (List.range es.length).filter (fun e => (es[e]?).map (·.1) == some v) := by
  simp [Graph.outEdges, Graph.ofEdges, hv]

theorem ofEdges_inEdges (n : Nat) (es : List (Nat × Nat)) (v : Nat) (hv : v < n) :
    (Graph.ofEdges n es).inEdges v =
      (List.range es.length).filter (fun e => (es[e]?).map (·.2) == some v) := by
  simp [Graph.inEdges, Graph.ofEdges, hv]

theorem ofEdges_wfb (n : Nat) (es : List (Nat × Nat)) (h : ∀ p ∈ es, p.1 < n ∧ p.2 < n) :
    (Graph.ofEdges n es).wfb = true := by
  simp only [Graph.wfb, Bool.and_eq_true, beq_iff_eq, List.all_eq_true, decide_eq_true_eq,
    List.mem_range]
  have hadj : (Graph.ofEdges n es).adj.size = n := by simp [Graph.ofEdges]
  have hrev : (Graph.ofEdges n es).rev.size = n := by simp [Graph.ofEdges]
  refine ⟨⟨⟨?_, ?_⟩, ?_⟩, ?_⟩
  · intro p hp
    exact h p (by simpa [Graph.ofEdges] using hp)
  · intro v hv e he
    rw [hadj] at hv
    rw [ofEdges_outEdges n es v hv] at he
    simpa [Graph.srcOf, Graph.ofEdges] using (List.mem_filter.1 he).2
  · intro v hv e he
    rw [hrev] at hv
    rw [ofEdges_inEdges n es v hv] at he
    simpa [Graph.dstOf, Graph.ofEdges] using (List.mem_filter.1 he).2
  · intro e he
    have he' : e < es.length := by simpa [Graph.ofEdges] using he
    have hget : (Graph.ofEdges n es).edges[e]? = some es[e] := by
      simp [Graph.ofEdges, he']
    rw [hget]
    have hm : es[e] ∈ es := List.getElem_mem he'
    obtain ⟨hs, hd⟩ := h _ hm
    simp only [Bool.and_eq_true, List.contains_iff_mem]
    rw [ofEdges_outEdges n es _ hs, ofEdges_inEdges n es _ hd]
    simp [he']

/-- Kosaraju's algorithm as written in `scc.rs` is correct on every well-formed graph: it returns (no error,
fuel not exhausted) the list of mutual-reachability classes -/
theorem allScc_good {g : Graph} (h : g.WF) : ∃ cs, allScc g = .ok cs ∧ Good g cs := by
  obtain ⟨vis, S, h1, hS⟩ := pass1_spec h
  have hI : Inv2 g S S [] [] :=
    ⟨⟨[], by simp, by simp⟩, by simp, by simp, by simp, List.Pairwise.nil, by simp⟩
  obtain ⟨cs, h2, hgood⟩ := pass2_spec h hS S [] [] hI
  exact ⟨cs, by simp [allScc, h1, h2], hgood⟩

/-! ### the fuel is never exhausted, on any `Graph` value (well formed or not)

The recursion only ever meets vertex ids from the finite universe `U` = `0 .. n-1` plus the end points of
the edge records; every recursive call on an unvisited vertex visits one more member of `U`. -/

def cnt (U vis : List Nat) : Nat := U.countP (fun x => !vis.contains x)

theorem cnt_mono {U vis vis' : List Nat} (h : ∀ x, x ∈ vis → x ∈ vis') : cnt U vis' ≤ cnt U vis := by
  unfold cnt
  apply List.countP_mono_left
  intro x _ hx
  simp only [Bool.not_eq_true', List.contains_eq_mem, decide_eq_false_iff_not] at hx ⊢
  exact fun hm => hx (h x hm)

theorem cnt_cons_lt {U vis : List Nat} {v : Nat} (hv : v ∈ U) (hvis : v ∉ vis) : cnt U (v :: vis) < cnt U vis :=
  (countP_cons_lt v vis U hvis).2 hv

theorem cnt_le (U vis : List Nat) : cnt U vis ≤ U.length := List.countP_le_length

/-- `rec` never reports `diverges`; when it returns it has only grown the visited set, and pushed members of `U` -/
def Term (U : List Nat) (fuel : Nat) (rec : Nat → St → Except Err St) : Prop :=
  ∀ v vis st, v ∈ U → cnt U vis ≤ fuel →
    rec v (vis, st) ≠ .error .diverges ∧
    ∀ vis' st', rec v (vis, st) = .ok (vis', st') → (∀ x ∈ vis, x ∈ vis') ∧ (∀ x ∈ st', x ∈ st ∨ x ∈ U)

theorem forEach_term {U : List Nat} {fuel : Nat} {rec : Nat → St → Except Err St} (hrec : Term U fuel rec)
    (far : Nat → Option Nat) :
    ∀ xs vis st, (∀ x ∈ xs, ∀ w, far x = some w → w ∈ U) → cnt U vis ≤ fuel →
      forEach rec far xs (vis, st) ≠ .error .diverges ∧
      ∀ vis' st', forEach rec far xs (vis, st) = .ok (vis', st') →
        (∀ x ∈ vis, x ∈ vis') ∧ (∀ x ∈ st', x ∈ st ∨ x ∈ U) := by
  intro xs
  induction xs with
  | nil =>
    intro vis st _ _
    refine ⟨by simp [forEach], ?_⟩
    intro vis' st' h
    simp only [forEach, Except.ok.injEq, Prod.mk.injEq] at h
    obtain ⟨rfl, rfl⟩ := h
    exact ⟨fun x hx => hx, fun x hx => Or.inl hx⟩
  | cons e es ih =>
    intro vis st hxs hfuel
    cases hw : far e with
    | none => simp [forEach, hw]
    | some w =>
      have hwU : w ∈ U := hxs e List.mem_cons_self w hw
      obtain ⟨hnd, hok⟩ := hrec w vis st hwU hfuel
      cases hr : rec w (vis, st) with
      | error x =>
        have : x ≠ Err.diverges := fun hx => hnd (by rw [hr, hx])
        simp [forEach, hw, hr, this]
      | ok s1 =>
        obtain ⟨vis1, st1⟩ := s1
        obtain ⟨hsub1, hst1⟩ := hok vis1 st1 hr
        have hfuel1 : cnt U vis1 ≤ fuel := Nat.le_trans (cnt_mono hsub1) hfuel
        obtain ⟨hnd2, hok2⟩ := ih vis1 st1 (fun x hx => hxs x (List.mem_cons_of_mem _ hx)) hfuel1
        have heq : forEach rec far (e :: es) (vis, st) = forEach rec far es (vis1, st1) := by
          simp [forEach, hw, hr]
        rw [heq]
        refine ⟨hnd2, ?_⟩
        intro vis' st' h
        obtain ⟨hsub2, hst2⟩ := hok2 vis' st' h
        refine ⟨fun x hx => hsub2 x (hsub1 x hx), fun x hx => ?_⟩
        rcases hst2 x hx with h1 | h1
        · exact hst1 x h1
        · exact Or.inr h1

theorem dfsG_term {U : List Nat} {inc : Nat → List Nat} {far : Nat → Option Nat}
    (hU : ∀ v, ∀ e ∈ inc v, ∀ w, far e = some w → w ∈ U) :
    ∀ fuel, Term U fuel (dfsG inc far fuel) := by
  intro fuel
  induction fuel with
  | zero =>
    intro v vis st hv hfuel
    by_cases hvis : v ∈ vis
    · refine ⟨by simp [dfsG, hvis], ?_⟩
      intro vis' st' h
      simp only [dfsG, List.contains_iff_mem.2 hvis, if_true, Except.ok.injEq, Prod.mk.injEq] at h
      obtain ⟨rfl, rfl⟩ := h
      exact ⟨fun x hx => hx, fun x hx => Or.inl hx⟩
    · have := cnt_cons_lt hv hvis
      omega
  | succ fuel ih =>
    intro v vis st hv hfuel
    by_cases hvis : v ∈ vis
    · refine ⟨by simp [dfsG, hvis], ?_⟩
      intro vis' st' h
      simp only [dfsG, List.contains_iff_mem.2 hvis, if_true, Except.ok.injEq, Prod.mk.injEq] at h
      obtain ⟨rfl, rfl⟩ := h
      exact ⟨fun x hx => hx, fun x hx => Or.inl hx⟩
    · have hfuel' : cnt U (v :: vis) ≤ fuel := by
        have := cnt_cons_lt hv hvis
        omega
      obtain ⟨hnd, hok⟩ := forEach_term ih far (inc v) (v :: vis) st (hU v) hfuel'
      cases hr : forEach (dfsG inc far fuel) far (inc v) (v :: vis, st) with
      | error x =>
        have : x ≠ Err.diverges := fun hx => hnd (by rw [hr, hx])
        simp [dfsG, hvis, hr, this]
      | ok s1 =>
        obtain ⟨vis1, st1⟩ := s1
        obtain ⟨hsub1, hst1⟩ := hok vis1 st1 hr
        refine ⟨by simp [dfsG, hvis, hr], ?_⟩
        intro vis' st' h
        simp only [dfsG, hvis, hr, List.contains_eq_mem, decide_false, Bool.false_eq_true, if_false,
          Except.ok.injEq, Prod.mk.injEq] at h
        obtain ⟨rfl, rfl⟩ := h
        refine ⟨fun x hx => hsub1 x (List.mem_cons_of_mem _ hx), fun x hx => ?_⟩
        rcases List.mem_cons.1 hx with rfl | hx
        · exact Or.inr hv
        · exact hst1 x hx

theorem universe_length (g : Graph) : g.universe.length = g.fuel := by
  simp [Graph.universe, Graph.fuel]
  omega

theorem dstOf_mem_universe (g : Graph) (e w : Nat) (h : g.dstOf e = some w) : w ∈ g.universe := by
  unfold Graph.dstOf at h
  cases hp : g.edges[e]? with
  | none => simp [hp] at h
  | some p =>
    simp [hp] at h
    have hm : p ∈ g.edges.toList := Array.mem_toList_iff.2 (Array.mem_of_getElem? hp)
    unfold Graph.universe
    exact List.mem_append_right _ (List.mem_map.2 ⟨p, hm, h⟩)

theorem srcOf_mem_universe (g : Graph) (e w : Nat) (h : g.srcOf e = some w) : w ∈ g.universe := by
  unfold Graph.srcOf at h
  cases hp : g.edges[e]? with
  | none => simp [hp] at h
  | some p =>
    simp [hp] at h
    have hm : p ∈ g.edges.toList := Array.mem_toList_iff.2 (Array.mem_of_getElem? hp)
    unfold Graph.universe
    exact List.mem_append_left _ (List.mem_append_right _ (List.mem_map.2 ⟨p, hm, h⟩))

theorem pass2_term (g : Graph) :
    ∀ st vis acc, (∀ x ∈ st, x ∈ g.universe) → pass2 g st vis acc ≠ .error .diverges := by
  intro st
  induction st with
  | nil => intro vis acc _; simp [pass2]
  | cons v st ih =>
    intro vis acc hst
    have hst' : ∀ x ∈ st, x ∈ g.universe := fun x hx => hst x (List.mem_cons_of_mem _ hx)
    by_cases hvis : v ∈ vis
    · simpa [pass2, hvis] using ih vis acc hst'
    · have hT := dfsG_term (U := g.universe) (inc := g.inEdges) (far := g.srcOf)
        (fun _ e _ w hw => srcOf_mem_universe g e w hw) g.fuel
      obtain ⟨hnd, _⟩ := hT v vis [] (hst v List.mem_cons_self)
        (by rw [← universe_length]; exact cnt_le _ _)
      cases hr : rdfs g g.fuel v (vis, []) with
      | error x =>
        have : x ≠ Err.diverges := fun hx => hnd (by unfold rdfs at hr; rw [hr, hx])
        simp [pass2, hvis, hr, this]
      | ok s1 =>
        obtain ⟨vis1, comp⟩ := s1
        simpa [pass2, hvis, hr] using ih vis1 (comp.reverse :: acc) hst'

/-- for every `Graph` value the model's outcome is a result or `EdgeNotFound`, never `diverges` -/
theorem allScc_ne_diverges (g : Graph) : allScc g ≠ .error .diverges := by
  have hT := dfsG_term (U := g.universe) (inc := g.outEdges) (far := g.dstOf)
    (fun _ e _ w hw => dstOf_mem_universe g e w hw) g.fuel
  obtain ⟨hnd, hok⟩ := forEach_term hT some (List.range g.n) [] []
    (fun x hx w hw => by
      simp only [Option.some.injEq] at hw
      subst hw
      exact List.mem_append_left _ (List.mem_append_left _ hx))
    (by rw [← universe_length]; exact cnt_le _ _)
  cases hr : pass1 g with
  | error x =>
    have : x ≠ Err.diverges := fun hx => hnd (by unfold pass1 dfs at hr; rw [hr, hx])
    simp [allScc, hr, this]
  | ok s1 =>
    obtain ⟨vis1, st1⟩ := s1
    have hst : ∀ x ∈ st1, x ∈ g.universe := by
      intro x hx
      have := (hok vis1 st1 (by unfold pass1 dfs at hr; exact hr)).2 x hx
      simpa using this
    simpa [allScc, hr] using pass2_term g st1 [] [] hst

/-! ### the frame-list searches (the code since /repo 323fefd) compute what the recursive ones compute -/

section Iter
variable {inc : Nat → List Nat} {far : Nat → Option Nat}

theorem iterLoop_nil (f : Nat) (s : St) : iterLoop inc far f [] s = .ok s := by
  cases f <;> rfl

/-- from configuration `c` the loop arrives, after some turns, at configuration `c'` -/
def Reaches (inc : Nat → List Nat) (far : Nat → Option Nat) (c c' : List Frame × St) : Prop :=
  ∃ k, ∀ f, iterLoop inc far (f + k) c.1 c.2 = iterLoop inc far f c'.1 c'.2

/-- from configuration `c` the loop ends, after some turns, with the error `x` -/
def Fails (inc : Nat → List Nat) (far : Nat → Option Nat) (c : List Frame × St) (x : Err) : Prop :=
  ∃ k, ∀ f, iterLoop inc far (f + k) c.1 c.2 = .error x

theorem Reaches.refl (c : List Frame × St) : Reaches inc far c c := ⟨0, fun _ => rfl⟩

theorem Reaches.trans {c1 c2 c3 : List Frame × St} (h1 : Reaches inc far c1 c2) (h2 : Reaches inc far c2 c3) :
    Reaches inc far c1 c3 := by
  obtain ⟨k1, h1⟩ := h1
  obtain ⟨k2, h2⟩ := h2
  refine ⟨k2 + k1, fun f => ?_⟩
  rw [← Nat.add_assoc, h1, h2]

theorem Reaches.fails {c1 c2 : List Frame × St} {x : Err} (h1 : Reaches inc far c1 c2) (h2 : Fails inc far c2 x) :
    Fails inc far c1 x := by
  obtain ⟨k1, h1⟩ := h1
  obtain ⟨k2, h2⟩ := h2
  refine ⟨k2 + k1, fun f => ?_⟩
  rw [← Nat.add_assoc, h1, h2]

theorem turn_pop (v : Nat) (fr : List Frame) (vis st : List Nat) :
    Reaches inc far ((v, []) :: fr, (vis, st)) (fr, (vis, v :: st)) :=
  ⟨1, fun _ => rfl⟩

theorem turn_visited {e w : Nat} (v : Nat) (es : List Nat) (fr : List Frame) {vis : List Nat} (st : List Nat)
    (hw : far e = some w) (hvis : w ∈ vis) :
    Reaches inc far ((v, e :: es) :: fr, (vis, st)) ((v, es) :: fr, (vis, st)) := by
  refine ⟨1, fun f => ?_⟩
  simp [iterLoop, hw, hvis]

theorem turn_new {e w : Nat} (v : Nat) (es : List Nat) (fr : List Frame) {vis : List Nat} (st : List Nat)
    (hw : far e = some w) (hvis : w ∉ vis) :
    Reaches inc far ((v, e :: es) :: fr, (vis, st)) ((w, inc w) :: (v, es) :: fr, (w :: vis, st)) := by
  refine ⟨1, fun f => ?_⟩
  simp [iterLoop, hw, hvis]

theorem turn_missing {e : Nat} (v : Nat) (es : List Nat) (fr : List Frame) (s : St) (hw : far e = none) :
    Fails inc far ((v, e :: es) :: fr, s) .edgeNotFound := by
  refine ⟨1, fun f => ?_⟩
  obtain ⟨vis, st⟩ := s
  simp [iterLoop, hw]

/-- the loop simulates the `for edge in edges { … }` of the recursive formulation -/
def SimList (inc : Nat → List Nat) (far : Nat → Option Nat) (v : Nat) (es : List Nat) (fr : List Frame) (s : St) :
    Except Err St → Prop
  | .ok s' => Reaches inc far ((v, es) :: fr, s) ((v, []) :: fr, s')
  | .error x => Fails inc far ((v, es) :: fr, s) x

/-- the loop simulates one recursive call on an unvisited vertex -/
def SimCall (inc : Nat → List Nat) (far : Nat → Option Nat) (w : Nat) (fr : List Frame) (vis st : List Nat) :
    Except Err St → Prop
  | .ok s' => Reaches inc far ((w, inc w) :: fr, (w :: vis, st)) (fr, s')
  | .error x => Fails inc far ((w, inc w) :: fr, (w :: vis, st)) x

theorem dfsG_visited (n w : Nat) {vis : List Nat} (st : List Nat) (h : w ∈ vis) :
    dfsG inc far n w (vis, st) = .ok (vis, st) := by
  cases n <;> simp [dfsG, h]

theorem sim_list_of_call (n : Nat)
    (hD : ∀ w fr vis st, w ∉ vis → dfsG inc far n w (vis, st) ≠ .error .diverges →
      SimCall inc far w fr vis st (dfsG inc far n w (vis, st))) :
    ∀ es v fr s, forEach (dfsG inc far n) far es s ≠ .error .diverges →
      SimList inc far v es fr s (forEach (dfsG inc far n) far es s) := by
  intro es
  induction es with
  | nil =>
    intro v fr s _
    simp only [forEach, SimList]
    exact Reaches.refl _
  | cons e es ih =>
    intro v fr s hnd
    obtain ⟨vis, st⟩ := s
    cases hw : far e with
    | none =>
      simp only [forEach, hw, SimList]
      exact turn_missing v es fr _ hw
    | some w =>
      by_cases hvis : w ∈ vis
      · have hcall := dfsG_visited (inc := inc) (far := far) n w st hvis
        have heq : forEach (dfsG inc far n) far (e :: es) (vis, st) = forEach (dfsG inc far n) far es (vis, st) := by
          simp [forEach, hw, hcall]
        rw [heq] at hnd ⊢
        have h2 := ih v fr (vis, st) hnd
        cases hr : forEach (dfsG inc far n) far es (vis, st) with
        | error x =>
          rw [hr] at h2
          exact (turn_visited v es fr st hw hvis).fails h2
        | ok s' =>
          rw [hr] at h2
          exact (turn_visited v es fr st hw hvis).trans h2
      · cases hcall : dfsG inc far n w (vis, st) with
        | error x =>
          have heq : forEach (dfsG inc far n) far (e :: es) (vis, st) = .error x := by
            simp [forEach, hw, hcall]
          rw [heq] at hnd ⊢
          have h1 := hD w ((v, es) :: fr) vis st hvis (by rw [hcall]; exact hnd)
          rw [hcall] at h1
          exact (turn_new v es fr st hw hvis).fails h1
        | ok s1 =>
          have heq : forEach (dfsG inc far n) far (e :: es) (vis, st) = forEach (dfsG inc far n) far es s1 := by
            simp [forEach, hw, hcall]
          rw [heq] at hnd ⊢
          have h1 := hD w ((v, es) :: fr) vis st hvis (by rw [hcall]; simp)
          rw [hcall] at h1
          have h2 := ih v fr s1 hnd
          cases hr : forEach (dfsG inc far n) far es s1 with
          | error x =>
            rw [hr] at h2
            exact ((turn_new v es fr st hw hvis).trans h1).fails h2
          | ok s' =>
            rw [hr] at h2
            exact ((turn_new v es fr st hw hvis).trans h1).trans h2

theorem sim_call_succ (n : Nat)
    (hS : ∀ es v fr s, forEach (dfsG inc far n) far es s ≠ .error .diverges →
      SimList inc far v es fr s (forEach (dfsG inc far n) far es s)) :
    ∀ w fr vis st, w ∉ vis → dfsG inc far (n + 1) w (vis, st) ≠ .error .diverges →
      SimCall inc far w fr vis st (dfsG inc far (n + 1) w (vis, st)) := by
  intro w fr vis st hvis hnd
  cases hr : forEach (dfsG inc far n) far (inc w) (w :: vis, st) with
  | error x =>
    have heq : dfsG inc far (n + 1) w (vis, st) = .error x := by simp [dfsG, hvis, hr]
    rw [heq] at hnd ⊢
    have h1 := hS (inc w) w fr (w :: vis, st) (by rw [hr]; exact hnd)
    rw [hr] at h1
    exact h1
  | ok s1 =>
    obtain ⟨vis', st'⟩ := s1
    have heq : dfsG inc far (n + 1) w (vis, st) = .ok (vis', w :: st') := by simp [dfsG, hvis, hr]
    rw [heq]
    have h1 := hS (inc w) w fr (w :: vis, st) (by rw [hr]; simp)
    rw [hr] at h1
    exact h1.trans (turn_pop w fr vis' st')

theorem sim_call : ∀ n w fr vis st, w ∉ vis → dfsG inc far n w (vis, st) ≠ .error .diverges →
    SimCall inc far w fr vis st (dfsG inc far n w (vis, st)) := by
  intro n
  induction n with
  | zero =>
    intro w fr vis st hvis hnd
    exact absurd (by simp [dfsG, hvis]) hnd
  | succ n ih => exact sim_call_succ n (sim_list_of_call n ih)

/-- a result of the loop that is not `diverges` does not depend on how much fuel was left over -/
theorem iterLoop_mono : ∀ f d fr s, iterLoop inc far f fr s ≠ .error .diverges →
    iterLoop inc far (f + d) fr s = iterLoop inc far f fr s := by
  intro f
  induction f with
  | zero =>
    intro d fr s h
    cases fr with
    | nil => rw [iterLoop_nil, iterLoop_nil]
    | cons a fr => exact absurd rfl h
  | succ f ih =>
    intro d fr s h
    obtain ⟨vis, st⟩ := s
    have hfd : f + 1 + d = (f + d) + 1 := by omega
    rw [hfd]
    cases fr with
    | nil => rw [iterLoop_nil, iterLoop_nil]
    | cons a fr =>
      obtain ⟨v, es⟩ := a
      cases es with
      | nil =>
        simp only [iterLoop] at h ⊢
        exact ih d fr _ h
      | cons e es =>
        cases hw : far e with
        | none => simp [iterLoop, hw]
        | some w =>
          by_cases hvis : w ∈ vis
          · simp only [iterLoop, hw, List.contains_iff_mem.2 hvis, if_true] at h ⊢
            exact ih d _ _ h
          · have hc : vis.contains w = false := by simpa using hvis
            simp only [iterLoop, hw, hc, Bool.false_eq_true, if_false] at h ⊢
            exact ih d _ _ h

/-! #### the loop ends within its budget of turns -/

/-- turns still owed to the vertices of `U` not yet visited -/
def owed (inc : Nat → List Nat) (U vis : List Nat) : Nat :=
  ((U.filter (fun u => !vis.contains u)).map (fun u => (inc u).length + 1)).sum

/-- turns still owed to the frames -/
def frameTurns (fr : List Frame) : Nat := (fr.map (fun p => p.2.length + 1)).sum

theorem owed_cons (inc : Nat → List Nat) (U vis : List Nat) (w : Nat) :
    owed inc U (w :: vis) ≤ owed inc U vis ∧
    (w ∈ U → w ∉ vis → owed inc U (w :: vis) + ((inc w).length + 1) ≤ owed inc U vis) := by
  induction U with
  | nil => simp [owed]
  | cons a U ih =>
    unfold owed at ih ⊢
    by_cases haw : a = w
    · subst haw
      by_cases hvis : a ∈ vis
      · have h1 : (!(a :: vis).contains a) = false := by simp
        have h2 : (!vis.contains a) = false := by simp [hvis]
        simp only [List.filter_cons, h1, h2, Bool.false_eq_true, if_false]
        refine ⟨ih.1, fun _ hn => absurd hvis hn⟩
      · have h1 : (!(a :: vis).contains a) = false := by simp
        have h2 : (!vis.contains a) = true := by simp [hvis]
        simp only [List.filter_cons, h1, h2, Bool.false_eq_true, if_false, if_true, List.map_cons,
          List.sum_cons]
        have := ih.1
        refine ⟨by omega, fun _ _ => by omega⟩
    · have h1 : (!(w :: vis).contains a) = (!vis.contains a) := by
        simp [haw]
      simp only [List.filter_cons, h1]
      by_cases hav : (!vis.contains a) = true
      · simp only [hav, if_true, List.map_cons, List.sum_cons]
        refine ⟨by have := ih.1; omega, fun hm hn => ?_⟩
        have hm' : w ∈ U := by
          rcases List.mem_cons.1 hm with h | h
          · exact absurd h.symm haw
          · exact h
        have := ih.2 hm' hn
        omega
      · simp only [hav, if_false]
        refine ⟨ih.1, fun hm hn => ?_⟩
        have hm' : w ∈ U := by
          rcases List.mem_cons.1 hm with h | h
          · exact absurd h.symm haw
          · exact h
        exact ih.2 hm' hn

theorem owed_le (inc : Nat → List Nat) (U vis : List Nat) :
    owed inc U vis ≤ (U.map (fun u => (inc u).length + 1)).sum := by
  induction U with
  | nil => simp [owed]
  | cons a U ih =>
    unfold owed at ih ⊢
    simp only [List.filter_cons, List.map_cons, List.sum_cons]
    split
    · simp only [List.map_cons, List.sum_cons]; omega
    · omega

/-- with at least `owed + frameTurns` turns of fuel the loop does not report `diverges` -/
theorem iterLoop_ne_diverges {U : List Nat} (hU : ∀ e w, far e = some w → w ∈ U) :
    ∀ f fr vis st, owed inc U vis + frameTurns fr ≤ f → iterLoop inc far f fr (vis, st) ≠ .error .diverges := by
  intro f
  induction f with
  | zero =>
    intro fr vis st h
    cases fr with
    | nil => simp [iterLoop]
    | cons a fr =>
      simp [frameTurns] at h
  | succ f ih =>
    intro fr vis st h
    cases fr with
    | nil => simp [iterLoop]
    | cons a fr =>
      obtain ⟨v, es⟩ := a
      cases es with
      | nil =>
        simp only [iterLoop]
        apply ih
        simp only [frameTurns, List.map_cons, List.sum_cons, List.length_nil] at h ⊢
        omega
      | cons e es =>
        cases hw : far e with
        | none => simp [iterLoop, hw]
        | some w =>
          by_cases hvis : w ∈ vis
          · simp only [iterLoop, hw, List.contains_iff_mem.2 hvis, if_true]
            apply ih
            simp only [frameTurns, List.map_cons, List.sum_cons, List.length_cons] at h ⊢
            omega
          · have hc : vis.contains w = false := by simpa using hvis
            simp only [iterLoop, hw, hc, Bool.false_eq_true, if_false]
            apply ih
            have := (owed_cons inc U vis w).2 (hU e w hw) hvis
            simp only [frameTurns, List.map_cons, List.sum_cons, List.length_cons] at h ⊢
            omega

/-- the frame-list search returns what the recursive search returns, whenever the latter does not run out of
(depth) fuel and the former has its budget of turns -/
theorem dfsIter_eq {U : List Nat} (hU : ∀ e w, far e = some w → w ∈ U) (n T v : Nat) (vis st : List Nat)
    (hv : v ∈ U) (hnd : dfsG inc far n v (vis, st) ≠ .error .diverges)
    (hT : (U.map (fun u => (inc u).length + 1)).sum ≤ T) :
    dfsIter inc far T v (vis, st) = dfsG inc far n v (vis, st) := by
  by_cases hvis : v ∈ vis
  · rw [dfsG_visited n v st hvis]
    simp [dfsIter, hvis]
  · have hI : dfsIter inc far T v (vis, st) = iterLoop inc far T [(v, inc v)] (v :: vis, st) := by
      simp [dfsIter, hvis]
    rw [hI]
    -- the budget suffices
    have hbud : owed inc U (v :: vis) + frameTurns [(v, inc v)] ≤ T := by
      have h1 := (owed_cons inc U vis v).2 hv hvis
      have h2 := owed_le inc U vis
      simp only [frameTurns, List.map_cons, List.map_nil, List.sum_cons, List.sum_nil]
      omega
    have hTnd := iterLoop_ne_diverges (inc := inc) hU T [(v, inc v)] (v :: vis) st hbud
    have hsim := sim_call (inc := inc) (far := far) n v [] vis st hvis hnd
    -- compare at a common amount of fuel
    cases hr : dfsG inc far n v (vis, st) with
    | error x =>
      rw [hr] at hsim
      obtain ⟨k, hk⟩ := hsim
      have h1 := hk T
      have h2 := iterLoop_mono (inc := inc) (far := far) T k [(v, inc v)] (v :: vis, st) hTnd
      simp only at h1
      rw [← h2, h1]
    | ok s' =>
      rw [hr] at hsim
      obtain ⟨k, hk⟩ := hsim
      have h1 := hk T
      have h2 := iterLoop_mono (inc := inc) (far := far) T k [(v, inc v)] (v :: vis, st) hTnd
      simp only at h1
      rw [← h2, h1, iterLoop_nil]

end Iter

/-! #### … hence the two passes over the frame-list searches are the two passes over the recursive ones -/

theorem sum_map_le {β : Type} (f h : β → Nat) (l : List β) (hle : ∀ x, f x ≤ h x) :
    (l.map f).sum ≤ (l.map h).sum := by
  induction l with
  | nil => simp
  | cons a l ih =>
    simp only [List.map_cons, List.sum_cons]
    have := hle a
    omega

theorem dfsI_eq (g : Graph) (v : Nat) (hv : v ∈ g.universe) (vis st : List Nat) :
    dfsI g v (vis, st) = dfs g g.fuel v (vis, st) := by
  have hT := dfsG_term (U := g.universe) (inc := g.outEdges) (far := g.dstOf)
    (fun _ e _ w hw => dstOf_mem_universe g e w hw) g.fuel
  have hnd := (hT v vis st hv (by rw [← universe_length]; exact cnt_le _ _)).1
  exact dfsIter_eq (U := g.universe) (fun e w hw => dstOf_mem_universe g e w hw) g.fuel g.turns v vis st hv hnd
    (sum_map_le _ _ _ (fun u => by omega))

theorem rdfsI_eq (g : Graph) (v : Nat) (hv : v ∈ g.universe) (vis st : List Nat) :
    rdfsI g v (vis, st) = rdfs g g.fuel v (vis, st) := by
  have hT := dfsG_term (U := g.universe) (inc := g.inEdges) (far := g.srcOf)
    (fun _ e _ w hw => srcOf_mem_universe g e w hw) g.fuel
  have hnd := (hT v vis st hv (by rw [← universe_length]; exact cnt_le _ _)).1
  exact dfsIter_eq (U := g.universe) (fun e w hw => srcOf_mem_universe g e w hw) g.fuel g.turns v vis st hv hnd
    (sum_map_le _ _ _ (fun u => by omega))

theorem forEach_congr {rec1 rec2 : Nat → St → Except Err St} (U : List Nat)
    (h : ∀ w s, w ∈ U → rec1 w s = rec2 w s) (far : Nat → Option Nat) :
    ∀ xs s, (∀ x ∈ xs, ∀ w, far x = some w → w ∈ U) → forEach rec1 far xs s = forEach rec2 far xs s := by
  intro xs
  induction xs with
  | nil => intro s _; rfl
  | cons e es ih =>
    intro s hxs
    cases hw : far e with
    | none => simp [forEach, hw]
    | some w =>
      have hwU := hxs e List.mem_cons_self w hw
      simp only [forEach, hw, h w s hwU]
      cases rec2 w s with
      | error x => rfl
      | ok s' => exact ih s' (fun x hx => hxs x (List.mem_cons_of_mem _ hx))

theorem pass1T_eq (g : Graph) : pass1T g g.turns = pass1 g := by
  unfold pass1T pass1
  apply forEach_congr g.universe (fun w s hw => by obtain ⟨vis, st⟩ := s; exact dfsI_eq g w hw vis st)
  intro x hx w hw
  simp only [Option.some.injEq] at hw
  subst hw
  exact List.mem_append_left _ (List.mem_append_left _ hx)

theorem pass2T_eq (g : Graph) :
    ∀ st vis acc, (∀ x ∈ st, x ∈ g.universe) → pass2T g g.turns st vis acc = pass2 g st vis acc := by
  intro st
  induction st with
  | nil => intro vis acc _; rfl
  | cons v st ih =>
    intro vis acc hst
    have hst' : ∀ x ∈ st, x ∈ g.universe := fun x hx => hst x (List.mem_cons_of_mem _ hx)
    by_cases hvis : v ∈ vis
    · simp only [pass2T, pass2, List.contains_iff_mem.2 hvis, if_true]
      exact ih vis acc hst'
    · have hc : vis.contains v = false := by simpa using hvis
      have hcall : rdfsT g g.turns v (vis, []) = rdfs g g.fuel v (vis, []) :=
        rdfsI_eq g v (hst v List.mem_cons_self) vis []
      simp only [pass2T, pass2, hc, Bool.false_eq_true, if_false, hcall]
      cases rdfs g g.fuel v (vis, []) with
      | error x => rfl
      | ok s1 =>
        obtain ⟨vis1, comp⟩ := s1
        exact ih vis1 (comp.reverse :: acc) hst'

/-- the model of the code as it is (frame lists) and the recursive model agree on every `Graph` value -/
theorem allSccIter_eq (g : Graph) : allSccIter g = allScc g := by
  unfold allSccIter allScc
  simp only
  rw [pass1T_eq]
  cases hr : pass1 g with
  | error x => rfl
  | ok s1 =>
    obtain ⟨vis1, st1⟩ := s1
    have hT := dfsG_term (U := g.universe) (inc := g.outEdges) (far := g.dstOf)
      (fun _ e _ w hw => dstOf_mem_universe g e w hw) g.fuel
    obtain ⟨_, hok⟩ := forEach_term hT some (List.range g.n) [] []
      (fun x hx w hw => by
        simp only [Option.some.injEq] at hw
        subst hw
        exact List.mem_append_left _ (List.mem_append_left _ hx))
      (by rw [← universe_length]; exact cnt_le _ _)
    have hst : ∀ x ∈ st1, x ∈ g.universe := by
      intro x hx
      have := (hok vis1 st1 (by unfold pass1 dfs at hr; exact hr)).2 x hx
      simpa using this
    exact pass2T_eq g st1 [] [] hst

theorem largestSccIter_eq (g : Graph) : largestSccIter g = largestScc g := by
  unfold largestSccIter largestScc
  rw [allSccIter_eq]

/-! ### the specification as one predicate, and the executable checker -/

/-- `cs` is the partition of the vertices `0 .. n-1` into mutual-reachability classes -/
structure IsSccPartition (g : Graph) (cs : List (List Nat)) : Prop where
  /-- no empty block -/
  nonempty : ∀ c ∈ cs, c ≠ []
  /-- no vertex occurs twice, neither inside a block nor in two blocks -/
  nodup : cs.flatten.Nodup
  /-- the blocks hold exactly the vertices of the graph -/
  cover : ∀ v, v ∈ cs.flatten ↔ v < g.n
  /-- a block holds exactly the vertices mutually reachable with any of its members -/
  classes : ∀ c ∈ cs, ∀ u ∈ c, ∀ v, v ∈ c ↔ (g.Reach u v ∧ g.Reach v u)

theorem nodup_flatten_of (cs : List (List Nat)) (h1 : ∀ c ∈ cs, c.Nodup)
    (h2 : cs.Pairwise (fun a b => ∀ x, x ∈ a → x ∉ b)) : cs.flatten.Nodup := by
  induction cs with
  | nil => simp
  | cons c cs ih =>
    rw [List.flatten_cons, List.nodup_append]
    rw [List.pairwise_cons] at h2
    refine ⟨h1 c List.mem_cons_self, ih (fun c' hc' => h1 c' (List.mem_cons_of_mem _ hc')) h2.2, ?_⟩
    intro a ha b hb hab
    obtain ⟨c', hc', hbc'⟩ := List.mem_flatten.1 hb
    exact h2.1 c' hc' a ha (hab ▸ hbc')

/-- in a repetition-free concatenation a vertex lies in one block only -/
theorem unique_block (cs : List (List Nat)) (hnd : cs.flatten.Nodup) {c c' : List Nat} {v : Nat}
    (hc : c ∈ cs) (hc' : c' ∈ cs) (hv : v ∈ c) (hv' : v ∈ c') : c' = c := by
  induction cs with
  | nil => exact absurd hc List.not_mem_nil
  | cons a cs ih =>
    rw [List.flatten_cons, List.nodup_append] at hnd
    rcases List.mem_cons.1 hc with rfl | hc1 <;> rcases List.mem_cons.1 hc' with rfl | hc1'
    · rfl
    · exact absurd rfl (hnd.2.2 v hv v (List.mem_flatten.2 ⟨c', hc1', hv'⟩))
    · exact absurd rfl (hnd.2.2 v hv' v (List.mem_flatten.2 ⟨c, hc1, hv⟩))
    · exact ih hnd.2.1 hc1 hc1'

theorem Good.isSccPartition {g : Graph} {cs : List (List Nat)} (h : Good g cs) : IsSccPartition g cs := by
  refine ⟨fun c hc => (h.classes c hc).1, ?_, ?_, fun c hc => (h.classes c hc).2.2⟩
  · exact nodup_flatten_of cs (fun c hc => (h.classes c hc).2.1) h.disjoint
  · intro v
    rw [List.mem_flatten]
    exact h.cover v

theorem mem_reachFrom {g : Graph} (h : g.WF) {v : Nat} (hv : v < g.n) (w : Nat) :
    w ∈ reachFrom g v ↔ g.Reach v w := by
  obtain ⟨new, vis', hr, _, hs⟩ := h.dfs_ok g.fuel v [] [] hv (fuel_ge g [])
  have : reachFrom g v = new := by simp [reachFrom, hr]
  rw [this, hs.reach w, reach_iff_RA]
  simp only [List.mem_singleton, exists_eq_left]
  exact RA.congr (fun v => by simp)

theorem reachTable_get {g : Graph} {u : Nat} (hu : u < g.n) :
    ((reachTable g)[u]?).getD [] = reachFrom g u := by
  simp [reachTable, hu]

theorem mutualIn_iff {g : Graph} (h : g.WF) {u v : Nat} (hu : u < g.n) (hv : v < g.n) :
    mutualIn (reachTable g) u v = true ↔ (g.Reach u v ∧ g.Reach v u) := by
  unfold mutualIn
  rw [reachTable_get hu, reachTable_get hv, Bool.and_eq_true, List.contains_iff_mem,
    List.contains_iff_mem, mem_reachFrom h hu, mem_reachFrom h hv]

/-- the executable checker decides the specification -/
theorem isSccPartition_iff {g : Graph} (h : g.WF) (cs : List (List Nat)) :
    isSccPartition g cs = true ↔ IsSccPartition g cs := by
  unfold isSccPartition
  simp only [Bool.and_eq_true, List.all_eq_true, decide_eq_true_eq, List.mem_range,
    List.contains_iff_mem, Bool.not_eq_true', List.isEmpty_eq_false_iff, beq_iff_eq]
  constructor
  · rintro ⟨⟨⟨⟨b1, b2⟩, b3⟩, b4⟩, b5⟩
    refine ⟨b1, b2, fun v => ⟨b4 v, b3 v⟩, ?_⟩
    intro c hc u hu v
    have hun : u < g.n := b4 u (List.mem_flatten.2 ⟨c, hc, hu⟩)
    by_cases hv : v < g.n
    · rw [← mutualIn_iff h hun hv, ← b5 c hc u hu v hv, List.contains_iff_mem]
    · constructor
      · intro hvc
        exact absurd (b4 v (List.mem_flatten.2 ⟨c, hc, hvc⟩)) hv
      · rintro ⟨huv, _⟩
        exact absurd (h.reach_lt huv hun) hv
  · intro hp
    refine ⟨⟨⟨⟨hp.nonempty, hp.nodup⟩, fun v hv => (hp.cover v).2 hv⟩, fun v hv => (hp.cover v).1 hv⟩, ?_⟩
    intro c hc u hu v hv
    have hun : u < g.n := (hp.cover u).1 (List.mem_flatten.2 ⟨c, hc, hu⟩)
    rw [Bool.eq_iff_iff, mutualIn_iff h hun hv, List.contains_iff_mem]
    exact hp.classes c hc u hu v

end Scc
end Compass
