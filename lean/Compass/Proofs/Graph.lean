/-
Lemmas about the graph loader model (`Compass.Model.Graph`): the adjacency tables after the fold of
the row callback, for arbitrary row lists and for row lists whose ids are their row numbers.
-/
import Mathlib.Data.List.Basic
import Mathlib.Data.List.Nodup
import Mathlib.Data.List.Range
import Mathlib.Data.List.Perm.Basic
import Compass.Model.Graph

namespace Compass

/-! ### the association list -/

theorem adjInsert_of_not_mem (k v : Nat) (m : AdjMap) (h : k ∉ adjKeys m) :
    adjInsert k v m = m ++ [(k, v)] := by
  induction m with
  | nil => rfl
  | cons p r ih =>
    obtain ⟨k', v'⟩ := p
    simp only [adjKeys, List.map_cons, List.mem_cons, not_or] at h
    have hne : ¬ k' = k := fun e => h.1 e.symm
    simp only [adjInsert, hne, if_false, List.cons_append]
    rw [ih (by simpa [adjKeys] using h.2)]

theorem adjKeys_adjInsert_of_mem (k v : Nat) (m : AdjMap) (h : k ∈ adjKeys m) :
    adjKeys (adjInsert k v m) = adjKeys m := by
  induction m with
  | nil => simp [adjKeys] at h
  | cons p r ih =>
    obtain ⟨k', v'⟩ := p
    by_cases hk : k' = k
    · simp [adjInsert, hk, adjKeys]
    · have hr : k ∈ adjKeys r := by
        simp only [adjKeys, List.map_cons, List.mem_cons] at h
        rcases h with h | h
        · exact absurd h.symm hk
        · simpa [adjKeys] using h
      have := ih hr
      simp only [adjKeys] at this
      simp [adjInsert, hk, adjKeys, this]

theorem adjKeys_append (a b : AdjMap) : adjKeys (a ++ b) = adjKeys a ++ adjKeys b := by
  simp [adjKeys]

/-! ### `modifyAt` -/

theorem length_modifyAt {β : Type} (f : β → β) (i : Nat) (l : List β) :
    (modifyAt f i l).length = l.length := by
  induction l generalizing i with
  | nil => cases i <;> rfl
  | cons x xs ih =>
    cases i with
    | zero => rfl
    | succ n => simp [modifyAt, ih]

theorem getElem?_modifyAt {β : Type} (f : β → β) (i : Nat) (l : List β) (j : Nat) :
    (modifyAt f i l)[j]? = if i = j then l[j]?.map f else l[j]? := by
  induction l generalizing i j with
  | nil => cases i <;> simp [modifyAt]
  | cons x xs ih =>
    cases i with
    | zero =>
      cases j with
      | zero => simp [modifyAt]
      | succ m => simp [modifyAt]
    | succ n =>
      cases j with
      | zero => simp [modifyAt]
      | succ m => simp [modifyAt, ih]

/-! ### the fold of the row callback -/

section
variable {α : Type}

/-- what the callback does to the forward entry of vertex `v` over a list of rows -/
def outFold (v : Nat) : List (Edge α) → AdjMap → AdjMap
  | [], m => m
  | e :: es, m => outFold v es (if e.src = v then adjInsert e.edgeId e.dst m else m)

/-- what the callback does to the reverse entry of vertex `v` over a list of rows -/
def inFold (v : Nat) : List (Edge α) → AdjMap → AdjMap
  | [], m => m
  | e :: es, m => inFold v es (if e.dst = v then adjInsert e.edgeId e.src m else m)

theorem step_adj (st : EdgeLoad) (e : Edge α) :
    (st.step e).adj = if e.src < st.adj.length then modifyAt (adjInsert e.edgeId e.dst) e.src st.adj else st.adj := by
  unfold EdgeLoad.step
  by_cases h1 : e.src < st.adj.length <;> simp only [h1, if_true, if_false] <;> split <;> rfl

theorem step_rev (st : EdgeLoad) (e : Edge α) :
    (st.step e).rev = if e.dst < st.rev.length then modifyAt (adjInsert e.edgeId e.src) e.dst st.rev else st.rev := by
  unfold EdgeLoad.step
  by_cases h1 : e.src < st.adj.length <;> simp only [h1, if_true, if_false] <;> split <;> simp_all

theorem step_adj_get (st : EdgeLoad) (e : Edge α) (v : Nat) :
    (st.step e).adj[v]? = (st.adj[v]?).map (fun m => if e.src = v then adjInsert e.edgeId e.dst m else m) := by
  rw [step_adj]
  by_cases h1 : e.src < st.adj.length
  · simp only [h1, if_true, getElem?_modifyAt]
    by_cases h2 : e.src = v
    · simp [h2]
    · simp [h2]
  · simp only [h1, if_false]
    by_cases h2 : e.src = v
    · subst h2
      have : st.adj[e.src]? = none := List.getElem?_eq_none (Nat.le_of_not_lt h1)
      simp [this]
    · simp [h2]

theorem step_rev_get (st : EdgeLoad) (e : Edge α) (v : Nat) :
    (st.step e).rev[v]? = (st.rev[v]?).map (fun m => if e.dst = v then adjInsert e.edgeId e.src m else m) := by
  rw [step_rev]
  by_cases h1 : e.dst < st.rev.length
  · simp only [h1, if_true, getElem?_modifyAt]
    by_cases h2 : e.dst = v
    · simp [h2]
    · simp [h2]
  · simp only [h1, if_false]
    by_cases h2 : e.dst = v
    · subst h2
      have : st.rev[e.dst]? = none := List.getElem?_eq_none (Nat.le_of_not_lt h1)
      simp [this]
    · simp [h2]

theorem foldl_step_adj_get (es : List (Edge α)) (st : EdgeLoad) (v : Nat) :
    (es.foldl EdgeLoad.step st).adj[v]? = (st.adj[v]?).map (outFold v es) := by
  induction es generalizing st with
  | nil => simp [outFold]
  | cons e es ih =>
    rw [List.foldl_cons, ih, step_adj_get]
    cases st.adj[v]? <;> simp [outFold]

theorem foldl_step_rev_get (es : List (Edge α)) (st : EdgeLoad) (v : Nat) :
    (es.foldl EdgeLoad.step st).rev[v]? = (st.rev[v]?).map (inFold v es) := by
  induction es generalizing st with
  | nil => simp [inFold]
  | cons e es ih =>
    rw [List.foldl_cons, ih, step_rev_get]
    cases st.rev[v]? <;> simp [inFold]

theorem foldl_step_adj_length (es : List (Edge α)) (st : EdgeLoad) :
    (es.foldl EdgeLoad.step st).adj.length = st.adj.length := by
  induction es generalizing st with
  | nil => rfl
  | cons e es ih =>
    rw [List.foldl_cons, ih, step_adj]
    split <;> simp [length_modifyAt]

theorem foldl_step_rev_length (es : List (Edge α)) (st : EdgeLoad) :
    (es.foldl EdgeLoad.step st).rev.length = st.rev.length := by
  induction es generalizing st with
  | nil => rfl
  | cons e es ih =>
    rw [List.foldl_cons, ih, step_rev]
    split <;> simp [length_modifyAt]

/-- with pairwise distinct ids that are not yet keys, the fold appends the rows leaving `v` in order -/
theorem outFold_of_nodup (v : Nat) (es : List (Edge α)) (m : AdjMap)
    (h : (adjKeys m ++ (es.filter (fun e => e.src = v)).map Edge.edgeId).Nodup) :
    outFold v es m = m ++ (es.filter (fun e => e.src = v)).map (fun e => (e.edgeId, e.dst)) := by
  induction es generalizing m with
  | nil => simp [outFold]
  | cons e es ih =>
    by_cases hs : e.src = v
    · simp only [List.filter_cons, hs, decide_true, if_true, List.map_cons] at h ⊢
      have hk : e.edgeId ∉ adjKeys m := by
        intro hm
        have := List.disjoint_of_nodup_append h hm
        exact this (by simp)
      simp only [outFold, hs, if_true]
      rw [adjInsert_of_not_mem _ _ _ hk, ih]
      · simp
      · rw [adjKeys_append]
        simpa [adjKeys, List.append_assoc] using h
    · simp only [List.filter_cons, hs, decide_false, Bool.false_eq_true, if_false] at h ⊢
      simp only [outFold, hs, if_false]
      exact ih m h

theorem inFold_of_nodup (v : Nat) (es : List (Edge α)) (m : AdjMap)
    (h : (adjKeys m ++ (es.filter (fun e => e.dst = v)).map Edge.edgeId).Nodup) :
    inFold v es m = m ++ (es.filter (fun e => e.dst = v)).map (fun e => (e.edgeId, e.src)) := by
  induction es generalizing m with
  | nil => simp [inFold]
  | cons e es ih =>
    by_cases hs : e.dst = v
    · simp only [List.filter_cons, hs, decide_true, if_true, List.map_cons] at h ⊢
      have hk : e.edgeId ∉ adjKeys m := by
        intro hm
        have := List.disjoint_of_nodup_append h hm
        exact this (by simp)
      simp only [inFold, hs, if_true]
      rw [adjInsert_of_not_mem _ _ _ hk, ih]
      · simp
      · rw [adjKeys_append]
        simpa [adjKeys, List.append_assoc] using h
    · simp only [List.filter_cons, hs, decide_false, Bool.false_eq_true, if_false] at h ⊢
      simp only [inFold, hs, if_false]
      exact ih m h

/-! ### row lists whose ids are their row numbers -/

/-- every edge id is the number of its row (the documented input format) -/
def RowIds (es : List (Edge α)) : Prop := ∀ i (h : i < es.length), (es[i]'h).edgeId = i

/-- every endpoint is below `n` -/
def EndpointsBelow (es : List (Edge α)) (n : Nat) : Prop := ∀ e ∈ es, e.src < n ∧ e.dst < n

theorem RowIds.map_eq_range {es : List (Edge α)} (h : RowIds es) :
    es.map Edge.edgeId = List.range es.length := by
  apply List.ext_getElem
  · simp
  · intro i h1 h2
    simp only [List.getElem_map, List.getElem_range]
    exact h i (by simpa using h1)

theorem RowIds.nodup_filter {es : List (Edge α)} (h : RowIds es) (p : Edge α → Bool) :
    ((es.filter p).map Edge.edgeId).Nodup := by
  have hs : ((es.filter p).map Edge.edgeId).Sublist (es.map Edge.edgeId) :=
    (List.filter_sublist).map _
  rw [h.map_eq_range] at hs
  exact List.Nodup.sublist hs List.nodup_range

theorem RowIds.mem_iff {es : List (Edge α)} (h : RowIds es) (e : Edge α) :
    e ∈ es ↔ ∃ hi : e.edgeId < es.length, es[e.edgeId]'hi = e := by
  constructor
  · intro hm
    obtain ⟨i, hi, he⟩ := List.mem_iff_getElem.1 hm
    have := h i hi
    rw [he] at this
    subst this
    exact ⟨hi, he⟩
  · rintro ⟨hi, he⟩
    exact he ▸ List.getElem_mem hi

/-! ### the loader's validation: missing vertices, ids against rows, decoding -/

/-- every vertex id is the number of its row -/
def VertexRowIds (vs : List (Vertex α)) : Prop := ∀ i (h : i < vs.length), (vs[i]'h).vertexId = i

/-- what one row adds to `missing_vertices` when the tables have `n` entries -/
def missingOf (n : Nat) (e : Edge α) : List Nat :=
  (if e.src < n then [] else [e.src]) ++ (if e.dst < n then [] else [e.dst])

theorem step_missing (st : EdgeLoad) (e : Edge α) :
    (st.step e).missing =
      st.missing ++ ((if e.src < st.adj.length then [] else [e.src]) ++
        (if e.dst < st.rev.length then [] else [e.dst])) := by
  unfold EdgeLoad.step
  by_cases h1 : e.src < st.adj.length <;> by_cases h2 : e.dst < st.rev.length <;> simp [h1, h2]

theorem step_adj_length (st : EdgeLoad) (e : Edge α) : (st.step e).adj.length = st.adj.length := by
  rw [step_adj]; split <;> simp [length_modifyAt]

theorem step_rev_length (st : EdgeLoad) (e : Edge α) : (st.step e).rev.length = st.rev.length := by
  rw [step_rev]; split <;> simp [length_modifyAt]

theorem foldl_step_missing (es : List (Edge α)) (st : EdgeLoad) (n : Nat)
    (ha : st.adj.length = n) (hr : st.rev.length = n) :
    (es.foldl EdgeLoad.step st).missing = st.missing ++ es.flatMap (missingOf n) := by
  induction es generalizing st with
  | nil => simp
  | cons e es ih =>
    rw [List.foldl_cons, ih (st.step e) (by rw [step_adj_length, ha]) (by rw [step_rev_length, hr]),
      step_missing, ha, hr]
    simp [missingOf, List.append_assoc]

/-- the `missing_vertices` set is empty exactly when every endpoint is inside the table -/
theorem missingVertices_eq_nil_iff (es : List (Edge α)) (nV : Nat) :
    missingVertices es nV = [] ↔ EndpointsBelow es nV := by
  unfold missingVertices loadEdges
  rw [foldl_step_missing es (EdgeLoad.init nV) nV (by simp [EdgeLoad.init]) (by simp [EdgeLoad.init])]
  simp only [EdgeLoad.init, List.nil_append, List.flatMap_eq_nil_iff, EndpointsBelow]
  constructor
  · intro h e he
    have := h e he
    simp only [missingOf, List.append_eq_nil_iff] at this
    constructor
    · by_contra hc; simp [hc] at this
    · by_contra hc; simp [hc] at this
  · intro h e he
    simp [missingOf, (h e he).1, (h e he).2]

theorem idsAreRowsFrom_iff (k : Nat) (l : List Nat) :
    idsAreRowsFrom k l = true ↔ ∀ i (h : i < l.length), l[i]'h = k + i := by
  induction l generalizing k with
  | nil => simp [idsAreRowsFrom]
  | cons x r ih =>
    simp only [idsAreRowsFrom, Bool.and_eq_true, beq_iff_eq, ih]
    constructor
    · rintro ⟨hx, hr⟩ i hi
      cases i with
      | zero => simpa using hx
      | succ j =>
        have := hr j (by simpa using hi)
        simp only [List.getElem_cons_succ]
        omega
    · intro h
      refine ⟨by have := h 0 (by simp); simpa [List.getElem_cons_zero] using this, fun i hi => ?_⟩
      have := h (i + 1) (by simpa using hi)
      simp only [List.getElem_cons_succ] at this
      omega

theorem idsAreRows_edges_iff (es : List (Edge α)) : idsAreRows (es.map Edge.edgeId) = true ↔ RowIds es := by
  simp only [idsAreRows, idsAreRowsFrom_iff, List.length_map, List.getElem_map, Nat.zero_add, RowIds]

theorem idsAreRows_vertices_iff (vs : List (Vertex α)) :
    idsAreRows (vs.map Vertex.vertexId) = true ↔ VertexRowIds vs := by
  simp only [idsAreRows, idsAreRowsFrom_iff, List.length_map, List.getElem_map, Nat.zero_add, VertexRowIds]

theorem endpointsWithin_iff (es : List (Edge α)) (n : Nat) :
    endpointsWithin es n = true ↔ EndpointsBelow es n := by
  simp [endpointsWithin, EndpointsBelow, List.all_eq_true]

theorem decodeRows_eq_ok {ρ : Type} (rows : List (Row ρ)) (l : List ρ) (h : decodeRows rows = .ok l) :
    rows = l.map Row.ok := by
  induction rows generalizing l with
  | nil => simp only [decodeRows, Except.ok.injEq] at h; subst h; rfl
  | cons r rest ih =>
    cases r with
    | bad => simp [decodeRows] at h
    | ok x =>
      simp only [decodeRows] at h
      cases hd : decodeRows rest with
      | error e => rw [hd] at h; simp at h
      | ok l' =>
        rw [hd] at h
        simp only [Except.ok.injEq] at h
        subst h
        simp [ih l' hd]

end

/-! ### a list partitioned by a key is a permutation of the list -/

theorem filter_lt_succ_perm {β : Type} (f : β → Nat) (n : Nat) (l : List β) :
    (l.filter (fun x => decide (f x < n)) ++ l.filter (fun x => decide (f x = n))).Perm
      (l.filter (fun x => decide (f x < n + 1))) := by
  induction l with
  | nil => simp
  | cons x l ih =>
    by_cases h1 : f x < n
    · have e1 : decide (f x < n) = true := by simp [h1]
      have e2 : decide (f x = n) = false := by simp; omega
      have e3 : decide (f x < n + 1) = true := by simp; omega
      simp only [List.filter_cons, e1, e2, e3, if_true, Bool.false_eq_true, if_false, List.cons_append]
      exact List.Perm.cons _ ih
    · by_cases h2 : f x = n
      · have e1 : decide (f x < n) = false := by simp [h1]
        have e2 : decide (f x = n) = true := by simp [h2]
        have e3 : decide (f x < n + 1) = true := by simp; omega
        simp only [List.filter_cons, e1, e2, e3, if_true, Bool.false_eq_true, if_false]
        exact List.perm_middle.trans (List.Perm.cons _ ih)
      · have e1 : decide (f x < n) = false := by simp [h1]
        have e2 : decide (f x = n) = false := by simp [h2]
        have e3 : decide (f x < n + 1) = false := by simp; omega
        simp only [List.filter_cons, e1, e2, e3, Bool.false_eq_true, if_false]
        exact ih

theorem flatMap_filter_perm_lt {β : Type} (f : β → Nat) (l : List β) (n : Nat) :
    ((List.range n).flatMap (fun v => l.filter (fun x => decide (f x = v)))).Perm
      (l.filter (fun x => decide (f x < n))) := by
  induction n with
  | zero => simp
  | succ n ih =>
    rw [List.range_succ, List.flatMap_append]
    simp only [List.flatMap_cons, List.flatMap_nil, List.append_nil]
    exact (List.Perm.append_right _ ih).trans (filter_lt_succ_perm f n l)

theorem flatMap_filter_perm {β : Type} (f : β → Nat) (l : List β) (n : Nat) (h : ∀ x ∈ l, f x < n) :
    ((List.range n).flatMap (fun v => l.filter (fun x => decide (f x = v)))).Perm l := by
  have := flatMap_filter_perm_lt f l n
  rwa [List.filter_eq_self.2 (by intro x hx; simpa using h x hx)] at this

end Compass
