/-
Proofs about the grid-search plugin model: the code (`processO`, combinations out of the partial
`MultiSet`, explicit indexing) computes the total function `process` — it never panics and never
diverges, because the plugin's guard rejects exactly the sections on which `MultiSet` is undefined.
-/
import Compass.Model.GridSearch
import Compass.Proofs.MultiSet
import Mathlib.Data.List.Infix
import Mathlib.Data.List.Perm.Basic

namespace Compass
namespace GridSearch
open MultiSet (Outcome inRange combos pick sizesOf)

/-! ### the plan -/

/-- a query with a grid section that passes every guard -/
structure GridQuery (q : Json) (kvs sec : List (String × Json)) : Prop where
  isObj : q = .obj kvs
  section_ : Json.lookup kvs gridKey = some (.obj sec)
  notRecursive : recurses (.obj sec) = false
  notDegenerate : degenerate (axes sec) = false

theorem plan_grid {q : Json} {kvs sec : List (String × Json)} (h : GridQuery q kvs sec) :
    plan q = .ok (some { keys := (axes sec).map (·.1), options := (axes sec).map (·.2),
                         initial := .obj (Json.swapRemoveKv kvs gridKey) }) := by
  obtain ⟨rfl, h2, h3, h4⟩ := h
  simp [plan, Json.get?, h2, h3, h4]

/-- `plan` yields a plan exactly for the queries that pass the guards -/
theorem plan_some {q : Json} {p : Plan} (h : plan q = .ok (some p)) :
    ∃ kvs sec, GridQuery q kvs sec ∧
      p = { keys := (axes sec).map (·.1), options := (axes sec).map (·.2),
            initial := .obj (Json.swapRemoveKv kvs gridKey) } := by
  unfold plan at h
  cases hq : q.get? gridKey with
  | none => rw [hq] at h; simp at h
  | some s =>
    rw [hq] at h
    simp only at h
    by_cases hr : recurses s = true
    · simp [hr] at h
    · simp only [hr] at h
      cases s with
      | obj sec =>
        simp only [Bool.false_eq_true, if_false] at h
        by_cases hd : degenerate (axes sec) = true
        · simp [hd] at h
        · simp only [hd] at h
          cases q with
          | obj kvs =>
            simp only [Bool.false_eq_true, if_false, Except.ok.injEq, Option.some.injEq] at h
            refine ⟨kvs, sec, ⟨rfl, ?_, by simpa using hr, by simpa using hd⟩, h.symm⟩
            simpa [Json.get?] using hq
          | _ => simp [Json.get?] at hq
      | _ => simp at h

theorem degenerate_false {ax : List (String × List Json)} (h : degenerate ax = false) :
    ax ≠ [] ∧ ∀ a ∈ ax, a.2 ≠ [] := by
  simp only [degenerate, Bool.or_eq_false_iff, List.isEmpty_eq_false_iff, List.any_eq_false] at h
  exact ⟨h.1, fun a ha => by simpa using h.2 a ha⟩

/-! ### the per-combination overlay: code = function -/

theorem mergeObjO_obj : ∀ (o kvs : List (String × Json)),
    mergeObjO (.obj kvs) o = some (.obj (mergeKv kvs o))
  | [], _ => rfl
  | (k, v) :: r, kvs => by simp [mergeObjO, Json.indexAssign, mergeKv, mergeObjO_obj r]

theorem applyOptionO_obj (kvs : List (String × Json)) (key : String) (v : Json) :
    applyOptionO (.obj kvs) key v = some (.obj (applyOption kvs key v)) := by
  cases v <;> simp [applyOptionO, applyOption, Json.indexAssign, mergeObjO_obj]

@[simp] theorem choice_nil_right (ax : List (String × List Json)) : choice ax [] = [] := by
  cases ax with
  | nil => rfl
  | cons a r => cases a; rfl

theorem overlayO_eq (options : List (List Json)) : ∀ (c : List Nat) (keys : List String) (i : Nat)
    (kvs : List (String × Json)), inRange (sizesOf (options.drop i)) c = true →
    keys.length = c.length →
    overlayO options i (keys.zip c) (.obj kvs)
      = .ok (.obj (overlay kvs (choice (keys.zip (options.drop i)) c)))
  | [], keys, i, kvs, _, _ => by simp [overlayO, overlay]
  | j :: r, keys, i, kvs, h, hk => by
    cases keys with
    | nil => simp at hk
    | cons key keys =>
      cases hd : options.drop i with
      | nil => rw [hd] at h; simp [inRange] at h
      | cons opts rest =>
        rw [hd] at h
        simp only [List.map_cons, MultiSet.inRange_cons_cons] at h
        have hi : i < options.length := by
          by_contra hc
          rw [List.drop_eq_nil_of_le (by omega)] at hd
          exact absurd hd (by simp)
        have hcons : options[i] = opts ∧ options.drop (i + 1) = rest := by
          rw [List.drop_eq_getElem_cons hi] at hd
          exact List.cons.inj hd
        have ih := overlayO_eq options r keys (i + 1) (applyOption kvs key opts[j])
          (by rw [hcons.2]; exact h.2) (by simpa using hk)
        simp only [List.zip_cons_cons, overlayO, List.getElem?_eq_getElem hi, hcons.1,
          List.getElem?_eq_getElem h.1, applyOptionO_obj, ih, hcons.2, choice, overlay]

/-- well-formedness of a plan that came out of `plan` -/
structure Plan.WF (p : Plan) (kvs : List (String × Json)) : Prop where
  initial : p.initial = .obj kvs
  lens : p.keys.length = p.options.length
  nonempty : p.options ≠ []
  axesNonempty : ∀ o ∈ p.options, o ≠ []

theorem Plan.indices_eq (p : Plan) : p.indices = p.sizes.map List.range := by
  simp [Plan.indices, Plan.sizes, List.map_map, Function.comp_def]

theorem Plan.sizesOf_indices (p : Plan) : sizesOf p.indices = p.sizes := by
  simp [Plan.indices, Plan.sizes, List.map_map, Function.comp_def]

theorem Plan.axes_sizes (p : Plan) (h : p.keys.length = p.options.length) :
    p.axes.map (·.2.length) = p.sizes := by
  have : p.axes.map (·.2) = p.options := by
    simp only [Plan.axes]
    exact List.map_snd_zip (by omega)
  unfold Plan.sizes
  rw [← this, List.map_map]
  rfl

theorem instanceO_eq (p : Plan) (kvs : List (String × Json)) (hp : p.WF kvs) (c : List Nat)
    (hc : inRange p.sizes c = true) :
    instanceO p c = .ok (.obj (instanceKv kvs p.axes c)) := by
  have hlen : c.length = p.options.length := by
    simpa [Plan.sizes] using MultiSet.inRange_length _ _ hc
  have := overlayO_eq p.options c p.keys 0 kvs (by simpa [Plan.sizes] using hc)
    (by rw [hp.lens, hlen])
  simpa [instanceO, hp.initial, instanceKv, Plan.axes] using this

/-- the enumeration of the code is the closed form `expand`: no panic, no divergence -/
theorem expandO_eq (p : Plan) (kvs : List (String × Json)) (hp : p.WF kvs) :
    expandO p = .ok (expand kvs p.axes) := by
  have hne : p.indices ≠ [] := by
    simp only [Plan.indices, ne_eq, List.map_eq_nil_iff]; exact hp.nonempty
  have hpos : ∀ s ∈ p.indices, s ≠ [] := by
    intro s hs
    obtain ⟨o, ho, rfl⟩ := List.mem_map.mp hs
    have := hp.axesNonempty o ho
    simp only [ne_eq, List.range_eq_nil]
    exact fun h => this (List.length_eq_zero_iff.mp h)
  have hf : ∀ c, inRange (sizesOf p.indices) c = true →
      instanceO p (pick p.indices c) = .ok ((fun c => Json.obj (instanceKv kvs p.axes c)) (pick p.indices c)) := by
    intro c hc
    rw [p.sizesOf_indices] at hc
    rw [p.indices_eq, MultiSet.pick_ranges _ _ hc]
    exact instanceO_eq p kvs hp c hc
  have := MultiSet.collectMap_from p.indices hne hpos (instanceO p)
    (fun c => Json.obj (instanceKv kvs p.axes c)) hf
  rw [p.sizesOf_indices] at this
  rw [expandO, this, expand, p.axes_sizes hp.lens]
  congr 1
  apply List.map_congr_left
  intro c hc
  have hc' := (MultiSet.mem_combos _ _).mp hc
  rw [p.indices_eq, MultiSet.pick_ranges _ _ hc']

theorem zip_fst_snd {α β : Type} : ∀ (l : List (α × β)), (l.map (·.1)).zip (l.map (·.2)) = l
  | [] => rfl
  | a :: r => by simp [zip_fst_snd r]

theorem plan_wf {q : Json} {p : Plan} (h : plan q = .ok (some p)) :
    ∃ kvs sec, GridQuery q kvs sec ∧ p.WF (Json.swapRemoveKv kvs gridKey) ∧
      p.axes = axes sec ∧ p.initial = .obj (Json.swapRemoveKv kvs gridKey) := by
  obtain ⟨kvs, sec, hg, rfl⟩ := plan_some h
  obtain ⟨h1, h2⟩ := degenerate_false hg.notDegenerate
  refine ⟨kvs, sec, hg, ⟨rfl, by simp, by simpa using h1, ?_⟩, ?_, rfl⟩
  · intro o ho
    obtain ⟨a, ha, rfl⟩ := List.mem_map.mp ho
    exact h2 a ha
  · simp only [Plan.axes, zip_fst_snd]

/-- **the code is the function**: `GridSearchPlugin::process` never panics and never diverges, on
any JSON value whatsoever -/
theorem processO_eq (q : Json) : processO q = .ok (process q) := by
  unfold processO process
  cases hp : plan q with
  | error e => rfl
  | ok o =>
    cases o with
    | none => rfl
    | some p =>
      obtain ⟨kvs, sec, _, hwf, _, hi⟩ := plan_wf hp
      simp only [expandO_eq p _ hwf, hi]

/-- an error that already names the query is left alone by `apply_input_plugins`' `with_request` -/
@[simp] theorem withRequest_plugin_self {ε : Type} (q : Json) (e : ε) :
    withRequest q (PipeErr.plugin q e) = PipeErr.plugin q e := by
  simp only [withRequest]
  split <;> rfl

/-! ### generated queries as maps: last writer wins -/

open Json (lookup insertKv)

@[simp] theorem lookup_nil (k : String) : lookup [] k = none := rfl

theorem lookup_cons (a : String) (x : Json) (r : List (String × Json)) (k : String) :
    lookup ((a, x) :: r) k = if a = k then some x else lookup r k := by
  unfold lookup
  rw [List.find?_cons]
  by_cases h : a = k
  · simp [h]
  · have : (a == k) = false := by simpa using h
    simp [h, this]

theorem lookup_append (l r : List (String × Json)) (k : String) :
    lookup (l ++ r) k = match lookup l k with | some v => some v | none => lookup r k := by
  induction l with
  | nil => simp
  | cons a l ih =>
    obtain ⟨a, x⟩ := a
    by_cases h : a = k <;> simp [lookup_cons, h, ih]

theorem lookup_eq_none_iff (l : List (String × Json)) (k : String) :
    lookup l k = none ↔ k ∉ l.map (·.1) := by
  induction l with
  | nil => simp
  | cons a l ih =>
    obtain ⟨a, x⟩ := a
    by_cases h : a = k
    · simp [lookup_cons, h]
    · have h' : ¬ k = a := fun e => h e.symm
      simp only [lookup_cons, h, if_false, ih, List.map_cons, List.mem_cons, h', false_or]

theorem lookup_of_not_any (r : List (String × Json)) (k : String)
    (h : (r.any fun p => p.1 == k) = false) : lookup r k = none := by
  rw [lookup_eq_none_iff]
  intro hm
  obtain ⟨p, hp, rfl⟩ := List.mem_map.mp hm
  have := List.any_eq_false.mp h p hp
  simp at this

theorem lookup_replace (k : String) (v : Json) (k' : String) : ∀ (r : List (String × Json)),
    lookup (r.map (fun p => if p.1 == k then (k, v) else p)) k'
      = if k' = k then (lookup r k).map (fun _ => v) else lookup r k'
  | [] => by simp
  | (a, x) :: r => by
    have ih := lookup_replace k v k' r
    simp only [beq_iff_eq] at ih ⊢
    by_cases ha : a = k
    · subst ha
      by_cases hk : k' = a
      · subst hk; simp [lookup_cons]
      · have hk' : ¬ a = k' := fun e => hk e.symm
        simp [lookup_cons, hk, hk', ih]
    · by_cases hk : k' = k
      · subst hk
        simp [lookup_cons, ha, ih]
      · simp [lookup_cons, ha, hk, ih]

/-- `Map::insert` as a map: the key now holds the value, every other key is untouched -/
theorem lookup_insertKv (kvs : List (String × Json)) (k : String) (v : Json) (k' : String) :
    lookup (insertKv kvs k v) k' = if k' = k then some v else lookup kvs k' := by
  unfold insertKv
  by_cases hany : (kvs.any fun p => p.1 == k) = true
  · simp only [hany, if_true, lookup_replace]
    by_cases hk : k' = k
    · have hm : k ∈ kvs.map (·.1) := by
        obtain ⟨p, hp, hpk⟩ := List.any_eq_true.mp hany
        exact List.mem_map.mpr ⟨p, hp, by simpa using hpk⟩
      cases hl : lookup kvs k with
      | none => exact absurd hm ((lookup_eq_none_iff kvs k).mp hl)
      | some x => simp [hk]
    · simp [hk]
  · have hany' : (kvs.any fun p => p.1 == k) = false := Bool.eq_false_iff.mpr hany
    have hnone := lookup_of_not_any kvs k hany'
    simp only [hany', Bool.false_eq_true, if_false, lookup_append]
    by_cases hk : k' = k
    · subst hk; simp [hnone, lookup_cons]
    · have hk' : ¬ k = k' := fun e => hk e.symm
      cases lookup kvs k' <;> simp [lookup_cons, hk, hk']

/-- `Map::insert` and the key order: an existing key keeps its place, a new key goes last -/
theorem keys_insertKv (kvs : List (String × Json)) (k : String) (v : Json) :
    (insertKv kvs k v).map (·.1)
      = if k ∈ kvs.map (·.1) then kvs.map (·.1) else kvs.map (·.1) ++ [k] := by
  unfold insertKv
  by_cases hany : (kvs.any fun p => p.1 == k) = true
  · have hm : k ∈ kvs.map (·.1) := by
      obtain ⟨p, hp, hpk⟩ := List.any_eq_true.mp hany
      exact List.mem_map.mpr ⟨p, hp, by simpa using hpk⟩
    simp only [hany, if_true, hm, List.map_map]
    apply List.map_congr_left
    intro p _
    by_cases h : p.1 = k <;> simp [h]
  · have hm : k ∉ kvs.map (·.1) := by
      intro hm
      obtain ⟨p, hp, rfl⟩ := List.mem_map.mp hm
      exact hany (List.any_eq_true.mpr ⟨p, hp, by simp⟩)
    simp [hany, hm]

/-- the writes one chosen option performs: an object key by key, anything else under the field's name -/
def writesOf (key : String) (value : Json) : List (String × Json) :=
  match value with
  | .obj o => o
  | v => [(key, v)]

/-- all writes of a combination, in execution order -/
def writes : List (String × Json) → List (String × Json)
  | [] => []
  | (key, value) :: r => writesOf key value ++ writes r

theorem mergeKv_append : ∀ (a b kvs : List (String × Json)),
    mergeKv kvs (a ++ b) = mergeKv (mergeKv kvs a) b
  | [], _, _ => rfl
  | (k, v) :: a, b, kvs => by simp [mergeKv, mergeKv_append a b]

theorem applyOption_eq (kvs : List (String × Json)) (key : String) (v : Json) :
    applyOption kvs key v = mergeKv kvs (writesOf key v) := by
  cases v <;> simp [applyOption, writesOf, mergeKv]

/-- a generated query is the initial map after a plain sequence of `insert`s -/
theorem overlay_eq_mergeKv : ∀ (ch kvs : List (String × Json)),
    overlay kvs ch = mergeKv kvs (writes ch)
  | [], _ => rfl
  | (key, value) :: r, kvs => by
    simp [overlay, writes, mergeKv_append, applyOption_eq, overlay_eq_mergeKv r]

/-- **last writer wins**: a key holds the value of the last write to it, or else what the initial
map held -/
theorem lookup_mergeKv : ∀ (ws kvs : List (String × Json)) (k : String),
    lookup (mergeKv kvs ws) k
      = match lookup ws.reverse k with | some v => some v | none => lookup kvs k
  | [], _, _ => by simp [mergeKv]
  | (a, v) :: r, kvs, k => by
    rw [mergeKv, lookup_mergeKv r, List.reverse_cons, lookup_append, lookup_insertKv]
    by_cases h : k = a
    · subst h; cases lookup r.reverse k <;> simp [lookup_cons]
    · have h' : ¬ a = k := fun e => h e.symm
      cases lookup r.reverse k <;> simp [lookup_cons, h, h']

theorem lookup_overlay (ch kvs : List (String × Json)) (k : String) :
    lookup (overlay kvs ch) k
      = match lookup (writes ch).reverse k with | some v => some v | none => lookup kvs k := by
  rw [overlay_eq_mergeKv, lookup_mergeKv]

theorem writes_append : ∀ (a b : List (String × Json)), writes (a ++ b) = writes a ++ writes b
  | [], _ => rfl
  | (k, v) :: a, b => by simp [writes, writes_append a b]

/-! ### `Map::remove` = `swap_remove` -/

open Json (swapRemoveKv)

theorem findIdx?_first (k : String) (x : Json) : ∀ (a b : List (String × Json)),
    k ∉ a.map (·.1) → List.findIdx? (fun p => p.1 == k) (a ++ (k, x) :: b) = some a.length
  | [], _, _ => by simp [List.findIdx?_cons]
  | (c, y) :: a, b, h => by
    have hc : ¬ c = k := fun e => h (by simp [e])
    have hb : (c == k) = false := by simpa using hc
    have ih := findIdx?_first k x a b (fun hm => h (by simp [hm]))
    simp [List.findIdx?_cons, hb, ih]

theorem swapRemoveKv_absent (kvs : List (String × Json)) (k : String) (h : k ∉ kvs.map (·.1)) :
    swapRemoveKv kvs k = kvs := by
  have : List.findIdx? (fun p => p.1 == k) kvs = none := by
    rw [List.findIdx?_eq_none_iff]
    intro p hp
    have : ¬ p.1 = k := fun e => h (List.mem_map.mpr ⟨p, hp, e⟩)
    simpa using this
  simp [swapRemoveKv, this]

/-- the removed key was the last entry: nothing moves -/
theorem swapRemoveKv_last (a : List (String × Json)) (k : String) (x : Json)
    (h : k ∉ a.map (·.1)) : swapRemoveKv (a ++ [(k, x)]) k = a := by
  simp [swapRemoveKv, findIdx?_first k x a [] h]

/-- otherwise the last entry takes the removed entry's slot -/
theorem swapRemoveKv_middle (a b : List (String × Json)) (k : String) (x : Json) (l : String × Json)
    (h : k ∉ a.map (·.1)) : swapRemoveKv (a ++ (k, x) :: (b ++ [l])) k = a ++ l :: b := by
  have e : a ++ (k, x) :: (b ++ [l]) = (a ++ (k, x) :: b) ++ [l] := by simp
  have hlen : ¬ (a.length + 1 = (a ++ (k, x) :: (b ++ [l])).length) := by simp
  simp only [swapRemoveKv, findIdx?_first k x a (b ++ [l]) h]
  rw [e, List.getLast?_concat, List.dropLast_concat]
  rw [← e]
  simp only [beq_iff_eq, hlen, if_false]
  rw [List.set_append_right _ _ (by simp)]
  simp

theorem lookup_eq_some_iff_mem (l : List (String × Json)) (hn : (l.map (·.1)).Nodup) (k : String)
    (v : Json) : lookup l k = some v ↔ (k, v) ∈ l := by
  induction l with
  | nil => simp
  | cons a l ih =>
    obtain ⟨a, x⟩ := a
    simp only [List.map_cons, List.nodup_cons] at hn
    rw [lookup_cons]
    by_cases h : a = k
    · subst h
      simp only [if_true, Option.some.injEq, List.mem_cons, Prod.mk.injEq, true_and]
      constructor
      · intro e; exact Or.inl e.symm
      · rintro (e | hm)
        · exact e.symm
        · exact absurd (List.mem_map.mpr ⟨(a, v), hm, rfl⟩) hn.1
    · have h' : ¬ k = a := fun e => h e.symm
      simp [h, h', ih hn.2]

theorem lookup_perm {l₁ l₂ : List (String × Json)} (hp : l₁.Perm l₂) (hn : (l₁.map (·.1)).Nodup)
    (k : String) : lookup l₁ k = lookup l₂ k := by
  have hn2 : (l₂.map (·.1)).Nodup := (hp.map _).nodup_iff.mp hn
  apply Option.ext
  intro v
  rw [lookup_eq_some_iff_mem l₁ hn, lookup_eq_some_iff_mem l₂ hn2, hp.mem_iff]

theorem lookup_filter_ne (kvs : List (String × Json)) (k k' : String) :
    lookup (kvs.filter (fun p => !(p.1 == k))) k' = if k' = k then none else lookup kvs k' := by
  induction kvs with
  | nil => simp
  | cons a r ih =>
    obtain ⟨a, x⟩ := a
    by_cases ha : a = k
    · subst ha
      by_cases hk : k' = a
      · subst hk; simpa using ih
      · have hk' : ¬ a = k' := fun e => hk e.symm
        simp [lookup_cons, hk, hk', ih]
    · have hb : (a == k) = false := by simpa using ha
      by_cases hk : k' = k
      · subst hk; simp [hb, lookup_cons, ha, ih]
      · simp [hb, lookup_cons, hk, ih]

theorem swapRemoveKv_perm (kvs : List (String × Json)) (hn : (kvs.map (·.1)).Nodup) (k : String) :
    (swapRemoveKv kvs k).Perm (kvs.filter (fun p => !(p.1 == k))) := by
  by_cases hk : k ∈ kvs.map (·.1)
  · obtain ⟨p, hp, rfl⟩ := List.mem_map.mp hk
    obtain ⟨a, b, rfl⟩ := List.append_of_mem hp
    obtain ⟨k, x⟩ := p
    simp only [List.map_append, List.map_cons] at hn
    have hn' := List.nodup_append.mp hn
    have hka : k ∉ a.map (·.1) := fun h => hn'.2.2 k h k (by simp) rfl
    have hkb : k ∉ b.map (·.1) := (List.nodup_cons.mp hn'.2.1).1
    have hfa : a.filter (fun p => !(p.1 == k)) = a := by
      rw [List.filter_eq_self]; intro p hp
      have : ¬ p.1 = k := fun e => hka (List.mem_map.mpr ⟨p, hp, e⟩)
      simpa using this
    have hfb : b.filter (fun p => !(p.1 == k)) = b := by
      rw [List.filter_eq_self]; intro p hp
      have : ¬ p.1 = k := fun e => hkb (List.mem_map.mpr ⟨p, hp, e⟩)
      simpa using this
    have hf : (a ++ (k, x) :: b).filter (fun p => !(p.1 == k)) = a ++ b := by
      simp [List.filter_append, hfa, hfb]
    rw [hf]
    rcases List.eq_nil_or_concat b with rfl | ⟨b', l, rfl⟩
    · rw [swapRemoveKv_last a k x hka]; simp
    · simp only [List.concat_eq_append]
      rw [swapRemoveKv_middle a b' k x l hka]
      have h1 : (a ++ l :: b').Perm (l :: (a ++ b')) := List.perm_middle
      have h2 : (a ++ (b' ++ [l])).Perm (l :: (a ++ b')) := by
        rw [← List.append_assoc]; exact List.perm_append_singleton _ _
      exact h1.trans h2.symm
  · rw [swapRemoveKv_absent kvs k hk]
    have : kvs.filter (fun p => !(p.1 == k)) = kvs := by
      rw [List.filter_eq_self]; intro p hp
      have : ¬ p.1 = k := fun e => hk (List.mem_map.mpr ⟨p, hp, e⟩)
      simpa using this
    rw [this]

/-- as a map, `remove` deletes the key and nothing else (object keys are unique) -/
theorem lookup_swapRemoveKv (kvs : List (String × Json)) (hn : (kvs.map (·.1)).Nodup)
    (k k' : String) : lookup (swapRemoveKv kvs k) k' = if k' = k then none else lookup kvs k' := by
  have hp := swapRemoveKv_perm kvs hn k
  have hn' : ((swapRemoveKv kvs k).map (·.1)).Nodup := by
    rw [(hp.map _).nodup_iff]
    exact (List.Sublist.map _ List.filter_sublist).nodup hn
  rw [lookup_perm hp hn', lookup_filter_ne]

/-! ### the recursion guard is a text test on the serialized section -/

open Json (strContains toCompact toCompactKvs toCompactList escapeStr)

theorem strContains_go (p : List Char) : ∀ (a b : List Char) (fuel : Nat), a.length < fuel →
    strContains.go p (a ++ p ++ b) fuel = true
  | [], b, fuel + 1, _ => by
    have : p.isPrefixOf (p ++ b) = true := by
      rw [List.isPrefixOf_iff_prefix]; exact List.prefix_append p b
    unfold strContains.go
    simp [this]
  | c :: a, b, fuel + 1, h => by
    have ih := strContains_go p a b fuel (by simpa using h)
    simp only [List.cons_append]
    unfold strContains.go
    split
    · rfl
    · simpa using ih

/-- the text test finds every occurrence -/
theorem strContains_of_infix (s pat : String) (h : pat.toList <:+: s.toList) :
    strContains s pat = true := by
  obtain ⟨a, b, hab⟩ := h
  have hl : a.length < s.length + 1 := by
    have := congrArg List.length hab
    simp only [List.length_append, String.length_toList] at this
    omega
  simp only [strContains, ← hab]
  exact strContains_go _ a b _ hl

theorem mem_intersperse {α : Type} (sep x : α) : ∀ (L : List α), x ∈ L → x ∈ L.intersperse sep
  | [a], h => by simpa using h
  | a :: b :: r, h => by
    rcases List.mem_cons.mp h with rfl | h
    · simp [List.intersperse]
    · have := mem_intersperse sep x (b :: r) h
      simp only [List.intersperse, List.mem_cons]
      exact Or.inr (Or.inr this)

theorem infix_intercalate (sep : String) (L : List String) (x : String) (h : x ∈ L) :
    x.toList <:+: (sep.intercalate L).toList := by
  rw [String.toList_intercalate, List.intercalate]
  exact List.infix_of_mem_flatten (mem_intersperse _ _ _ (List.mem_map.mpr ⟨x, h, rfl⟩))

theorem mem_toCompactKvs : ∀ (kvs : List (String × Json)) (k : String) (v : Json), (k, v) ∈ kvs →
    (escapeStr k ++ ":" ++ toCompact v) ∈ toCompactKvs kvs
  | (a, x) :: r, k, v, h => by
    rcases List.mem_cons.mp h with e | h
    · cases e; simp [toCompactKvs]
    · simp [toCompactKvs, mem_toCompactKvs r k v h]

theorem mem_toCompactList : ∀ (xs : List Json) (x : Json), x ∈ xs → toCompact x ∈ toCompactList xs
  | a :: r, x, h => by
    rcases List.mem_cons.mp h with e | h
    · cases e; simp [toCompactList]
    · simp [toCompactList, mem_toCompactList r x h]

theorem infix_obj_entry (kvs : List (String × Json)) (k : String) (v : Json) (h : (k, v) ∈ kvs) :
    (escapeStr k ++ ":" ++ toCompact v).toList <:+: (toCompact (.obj kvs)).toList := by
  have := infix_intercalate "," _ _ (mem_toCompactKvs kvs k v h)
  have e : (toCompact (.obj kvs)).toList
      = "{".toList ++ (",".intercalate (toCompactKvs kvs)).toList ++ "}".toList := by
    simp only [toCompact, String.toList_append]
  rw [e]
  exact (this.trans (List.infix_append _ _ _))

theorem infix_obj_key (kvs : List (String × Json)) (k : String) (v : Json) (h : (k, v) ∈ kvs) :
    (escapeStr k).toList <:+: (toCompact (.obj kvs)).toList := by
  refine List.IsInfix.trans ?_ (infix_obj_entry kvs k v h)
  simp only [String.toList_append, List.append_assoc]
  exact (List.prefix_append _ _).isInfix

theorem infix_obj_val (kvs : List (String × Json)) (k : String) (v : Json) (h : (k, v) ∈ kvs) :
    (toCompact v).toList <:+: (toCompact (.obj kvs)).toList := by
  refine List.IsInfix.trans ?_ (infix_obj_entry kvs k v h)
  simp only [String.toList_append]
  exact (List.suffix_append _ _).isInfix

theorem infix_arr_elem (xs : List Json) (x : Json) (h : x ∈ xs) :
    (toCompact x).toList <:+: (toCompact (.arr xs)).toList := by
  have := infix_intercalate "," _ _ (mem_toCompactList xs x h)
  have e : (toCompact (.arr xs)).toList
      = "[".toList ++ (",".intercalate (toCompactList xs)).toList ++ "]".toList := by
    simp only [toCompact, String.toList_append]
  rw [e]
  exact (this.trans (List.infix_append _ _ _))

theorem gridKey_in_escaped : gridKey.toList <:+: (escapeStr gridKey).toList := by decide

/-- a section that passes the recursion guard has no field named `grid_search` … -/
theorem no_grid_axis_key {sec : List (String × Json)} (h : recurses (.obj sec) = false)
    (k : String) (v : Json) (hk : (k, v) ∈ sec) : k ≠ gridKey := by
  rintro rfl
  have := strContains_of_infix _ _ (gridKey_in_escaped.trans (infix_obj_key sec _ v hk))
  simp [recurses, this] at h

/-- … and no object option with a key named `grid_search` -/
theorem no_grid_option_key {sec : List (String × Json)} (h : recurses (.obj sec) = false)
    (k : String) (opts : List Json) (hk : (k, .arr opts) ∈ sec) (o : List (String × Json))
    (ho : .obj o ∈ opts) (k' : String) (v' : Json) (hk' : (k', v') ∈ o) : k' ≠ gridKey := by
  rintro rfl
  have h1 := infix_obj_key o _ v' hk'
  have h2 := infix_arr_elem opts _ ho
  have h3 := infix_obj_val sec k _ hk
  have := strContains_of_infix _ _ (gridKey_in_escaped.trans (h1.trans (h2.trans h3)))
  simp [recurses, this] at h

/-! ### what a combination writes -/

theorem mem_axes : ∀ (sec : List (String × Json)) (k : String) (opts : List Json),
    (k, opts) ∈ axes sec ↔ (k, Json.arr opts) ∈ sec
  | [], _, _ => by simp [axes]
  | (a, v) :: r, k, opts => by
    have ih := mem_axes r k opts
    cases v <;> simp [axes, ih]

/-- every chosen option comes from its axis -/
theorem mem_choice : ∀ (ax : List (String × List Json)) (c : List Nat) (k : String) (v : Json),
    (k, v) ∈ choice ax c → ∃ opts, (k, opts) ∈ ax ∧ v ∈ opts
  | [], _, _, _, h => by simp [choice] at h
  | (a, o) :: ax, [], _, _, h => by simp at h
  | (a, o) :: ax, i :: c, k, v, h => by
    simp only [choice] at h
    cases hi : o[i]? with
    | none =>
      rw [hi] at h
      obtain ⟨opts, h1, h2⟩ := mem_choice ax c k v h
      exact ⟨opts, by simp [h1], h2⟩
    | some x =>
      rw [hi] at h
      rcases List.mem_cons.mp h with e | h
      · cases e
        exact ⟨o, by simp, List.mem_of_getElem? hi⟩
      · obtain ⟨opts, h1, h2⟩ := mem_choice ax c k v h
        exact ⟨opts, by simp [h1], h2⟩

/-- a write of a combination is either a non-object option under its field's name or an entry of a
chosen object option -/
theorem mem_writes : ∀ (ch : List (String × Json)) (k : String) (v : Json), (k, v) ∈ writes ch →
    ((k, v) ∈ ch ∨ ∃ key o, (key, Json.obj o) ∈ ch ∧ (k, v) ∈ o)
  | [], _, _, h => by simp [writes] at h
  | (key, value) :: r, k, v, h => by
    simp only [writes, List.mem_append] at h
    rcases h with h | h
    · cases value with
      | obj o => exact Or.inr ⟨key, o, by simp, by simpa [writesOf] using h⟩
      | _ => simp only [writesOf, List.mem_singleton] at h; cases h; exact Or.inl (by simp)
    · rcases mem_writes r k v h with h' | ⟨key', o, h1, h2⟩
      · exact Or.inl (by simp [h'])
      · exact Or.inr ⟨key', o, by simp [h1], h2⟩

/-- no write of any combination goes to the grid key, once the recursion guard has passed -/
theorem gridKey_not_written {sec : List (String × Json)} (hr : recurses (.obj sec) = false)
    (c : List Nat) : gridKey ∉ (writes (choice (axes sec) c)).map (·.1) := by
  intro hm
  obtain ⟨⟨k, v⟩, hkv, hk⟩ := List.mem_map.mp hm
  simp only at hk
  subst hk
  rcases mem_writes _ _ _ hkv with h | ⟨key, o, h1, h2⟩
  · obtain ⟨opts, h1, _⟩ := mem_choice _ _ _ _ h
    exact no_grid_axis_key hr _ _ ((mem_axes _ _ _).mp h1) rfl
  · obtain ⟨opts, h3, h4⟩ := mem_choice _ _ _ _ h1
    exact no_grid_option_key hr key opts ((mem_axes _ _ _).mp h3) o h4 _ v h2 rfl

/-- the option each axis takes: axis `i` contributes `(keyᵢ, optionsᵢ[cᵢ])` -/
theorem choice_getElem : ∀ (ax : List (String × List Json)) (c : List Nat),
    inRange (ax.map (·.2.length)) c = true → ∀ (i : Nat) (hi : i < ax.length),
    ∃ j v, c[i]? = some j ∧ ax[i].2[j]? = some v ∧ (choice ax c)[i]? = some (ax[i].1, v)
  | [], _, _, i, hi => by simp at hi
  | (a, o) :: ax, c, h, i, hi => by
    obtain ⟨d, ps, rfl, hd, h'⟩ := (MultiSet.inRange_cons_iff _ _ c).mp h
    simp only at hd
    cases i with
    | zero => exact ⟨d, o[d], by simp, by simp [List.getElem?_eq_getElem hd],
        by simp [choice, List.getElem?_eq_getElem hd]⟩
    | succ i =>
      obtain ⟨j, v, h1, h2, h3⟩ := choice_getElem ax ps h' i (by simpa using hi)
      exact ⟨j, v, by simpa using h1, by simpa using h2,
        by simpa [choice, List.getElem?_eq_getElem hd] using h3⟩

theorem choice_length : ∀ (ax : List (String × List Json)) (c : List Nat),
    inRange (ax.map (·.2.length)) c = true → (choice ax c).length = ax.length
  | [], c, _ => by simp [choice]
  | (a, o) :: ax, c, h => by
    obtain ⟨d, ps, rfl, hd, h'⟩ := (MultiSet.inRange_cons_iff _ _ c).mp h
    simp only at hd
    simp [choice, List.getElem?_eq_getElem hd, choice_length ax ps h']

/-! ### scalar axes with pairwise different options: different combinations, different queries -/

theorem writes_scalar : ∀ (ch : List (String × Json)), (∀ kv ∈ ch, kv.2.isObject = false) →
    writes ch = ch
  | [], _ => rfl
  | (k, v) :: r, h => by
    have hv : v.isObject = false := h (k, v) (by simp)
    have hw : writesOf k v = [(k, v)] := by cases v <;> simp_all [writesOf, Json.isObject]
    simp [writes, hw, writes_scalar r (fun kv hkv => h kv (by simp [hkv]))]

theorem choice_keys : ∀ (ax : List (String × List Json)) (c : List Nat),
    inRange (ax.map (·.2.length)) c = true → (choice ax c).map (·.1) = ax.map (·.1)
  | [], c, _ => by simp [choice]
  | (a, o) :: ax, c, h => by
    obtain ⟨d, ps, rfl, hd, h'⟩ := (MultiSet.inRange_cons_iff _ _ c).mp h
    simp only at hd
    simp [choice, List.getElem?_eq_getElem hd, choice_keys ax ps h']

theorem choice_inj : ∀ (ax : List (String × List Json)) (c c' : List Nat),
    (ax.map (·.1)).Nodup → (∀ a ∈ ax, a.2.Nodup) →
    inRange (ax.map (·.2.length)) c = true → inRange (ax.map (·.2.length)) c' = true →
    (∀ k v, (k, v) ∈ choice ax c ↔ (k, v) ∈ choice ax c') → c = c'
  | [], c, c', _, _, h, h', _ => by simp at h h'; simp [h, h']
  | (a, o) :: ax, c, c', hk, ho, h, h', hm => by
    obtain ⟨d, ps, rfl, hd, hps⟩ := (MultiSet.inRange_cons_iff _ _ c).mp h
    obtain ⟨d', ps', rfl, hd', hps'⟩ := (MultiSet.inRange_cons_iff _ _ c').mp h'
    simp only at hd hd'
    simp only [List.map_cons, List.nodup_cons] at hk
    have hc : ∀ (e : Nat) (es : List Nat) (he : e < o.length), choice ((a, o) :: ax) (e :: es)
        = (a, o[e]) :: choice ax es := by
      intro e es he; simp [choice, List.getElem?_eq_getElem he]
    rw [hc d ps hd, hc d' ps' hd'] at hm
    have hnot : ∀ (es : List Nat) (v : Json), inRange (ax.map (·.2.length)) es = true →
        (a, v) ∉ choice ax es := by
      intro es v hes hmem
      have : a ∈ (choice ax es).map (·.1) := List.mem_map.mpr ⟨(a, v), hmem, rfl⟩
      rw [choice_keys ax es hes] at this
      exact hk.1 this
    have hhead : o[d] = o[d'] := by
      have := (hm a o[d]).mp (by simp)
      rcases List.mem_cons.mp this with e | e
      · exact (Prod.mk.inj e).2
      · exact absurd e (hnot ps' _ hps')
    have hdd : d = d' := (List.Nodup.getElem_inj_iff (ho (a, o) (by simp))).mp hhead
    have htail : ∀ k v, (k, v) ∈ choice ax ps ↔ (k, v) ∈ choice ax ps' := by
      intro k v
      constructor
      · intro hkv
        rcases List.mem_cons.mp ((hm k v).mp (List.mem_cons_of_mem _ hkv)) with e | e
        · cases e; exact absurd hkv (hnot ps _ hps)
        · exact e
      · intro hkv
        rcases List.mem_cons.mp ((hm k v).mpr (List.mem_cons_of_mem _ hkv)) with e | e
        · cases e; exact absurd hkv (hnot ps' _ hps')
        · exact e
    rw [hdd, choice_inj ax ps ps' hk.2 (fun a ha => ho a (by simp [ha])) hps hps' htail]

theorem axes_keys_sublist : ∀ (sec : List (String × Json)),
    ((axes sec).map (·.1)).Sublist (sec.map (·.1))
  | [] => by simp [axes]
  | (k, v) :: r => by
    have ih := axes_keys_sublist r
    cases v <;> simp [axes, ih, List.Sublist.cons]

/-- with scalar axes, the chosen options can be read back from the generated query -/
theorem overlay_inj_scalar (initial : List (String × Json)) (ax : List (String × List Json))
    (hk : (ax.map (·.1)).Nodup) (hs : ∀ a ∈ ax, ∀ v ∈ a.2, v.isObject = false)
    (ho : ∀ a ∈ ax, a.2.Nodup) (c c' : List Nat)
    (h : inRange (ax.map (·.2.length)) c = true) (h' : inRange (ax.map (·.2.length)) c' = true)
    (he : overlay initial (choice ax c) = overlay initial (choice ax c')) : c = c' := by
  have hsc : ∀ (e : List Nat), ∀ kv ∈ choice ax e, kv.2.isObject = false := by
    intro e kv hkv
    obtain ⟨opts, h1, h2⟩ := mem_choice ax e kv.1 kv.2 hkv
    exact hs _ h1 _ h2
  have hnd : ∀ (e : List Nat), inRange (ax.map (·.2.length)) e = true →
      ((choice ax e).reverse.map (·.1)).Nodup := by
    intro e hr
    rw [List.map_reverse, List.nodup_reverse, choice_keys ax e hr]; exact hk
  have key : ∀ (e e' : List Nat), inRange (ax.map (·.2.length)) e = true →
      inRange (ax.map (·.2.length)) e' = true →
      overlay initial (choice ax e) = overlay initial (choice ax e') →
      ∀ k v, (k, v) ∈ choice ax e → (k, v) ∈ choice ax e' := by
    intro e e' hr hr' heq k v hkv
    have h1 : lookup (choice ax e).reverse k = some v :=
      (lookup_eq_some_iff_mem _ (hnd e hr) k v).mpr (List.mem_reverse.mpr hkv)
    have hkin : k ∈ (choice ax e').reverse.map (·.1) := by
      rw [List.map_reverse, List.mem_reverse, choice_keys ax e' hr', ← choice_keys ax e hr]
      exact List.mem_map.mpr ⟨(k, v), hkv, rfl⟩
    have h2 := congrArg (fun m => lookup m k) heq
    simp only [lookup_overlay, writes_scalar _ (hsc e), writes_scalar _ (hsc e'), h1] at h2
    cases hl : lookup (choice ax e').reverse k with
    | none => exact absurd hkin ((lookup_eq_none_iff _ k).mp hl)
    | some v' =>
      rw [hl] at h2
      simp only [Option.some.injEq] at h2
      subst h2
      exact List.mem_reverse.mp ((lookup_eq_some_iff_mem _ (hnd e' hr') k v).mp hl)
  exact choice_inj ax c c' hk ho h h' (fun k v => ⟨key c c' h h' he k v, key c' c h' h he.symm k v⟩)

/-! ### when do two combinations give different queries?  (objects, mixtures, any axes) -/

/-- the keys an axis can write: its own name for an option that is not an object, the option's keys
for an object option -/
def axisKeys (a : String × List Json) : List String :=
  a.2.flatMap (fun o => (writesOf a.1 o).map (·.1))

/-- what choosing option `o` on the axis `key` makes observable on top of the map `initial`:
the last write of the option to `k`, else what `initial` holds -/
def observe (initial : List (String × Json)) (key : String) (o : Json) (k : String) : Option Json :=
  match lookup (writesOf key o).reverse k with
  | some v => some v
  | none => lookup initial k

/-- different axes never write the same key -/
def AxesDisjoint (ax : List (String × List Json)) : Prop :=
  ax.Pairwise (fun a b => ∀ k, k ∈ axisKeys a → k ∉ axisKeys b)

/-- two options of the axis that are observably the same (on top of `initial`) are the same option -/
def OptionsObservablyDistinct (initial : List (String × Json)) (a : String × List Json) : Prop :=
  ∀ (j j' : Nat) (hj : j < a.2.length) (hj' : j' < a.2.length),
    (∀ k, observe initial a.1 a.2[j] k = observe initial a.1 a.2[j'] k) → j = j'

theorem mem_axisKeys_of_write (a : String) (o : List Json) (v : Json) (hv : v ∈ o) (k : String)
    (hk : k ∈ (writesOf a v).map (·.1)) : k ∈ axisKeys (a, o) :=
  List.mem_flatMap.mpr ⟨v, hv, hk⟩

theorem keys_writes_choice_subset : ∀ (ax : List (String × List Json)) (c : List Nat) (k : String),
    k ∈ (writes (choice ax c)).map (·.1) → ∃ a ∈ ax, k ∈ axisKeys a
  | [], _, _, h => by simp [choice, writes] at h
  | (a, o) :: ax, [], _, h => by simp [writes] at h
  | (a, o) :: ax, i :: c, k, h => by
    simp only [choice] at h
    cases hi : o[i]? with
    | none =>
      rw [hi] at h
      obtain ⟨b, hb, hkb⟩ := keys_writes_choice_subset ax c k h
      exact ⟨b, by simp [hb], hkb⟩
    | some v =>
      rw [hi] at h
      simp only [writes, List.map_append, List.mem_append] at h
      rcases h with h | h
      · exact ⟨(a, o), by simp, mem_axisKeys_of_write a o v (List.mem_of_getElem? hi) k h⟩
      · obtain ⟨b, hb, hkb⟩ := keys_writes_choice_subset ax c k h
        exact ⟨b, by simp [hb], hkb⟩

theorem lookup_reverse_eq_none (l : List (String × Json)) (k : String) (h : k ∉ l.map (·.1)) :
    lookup l.reverse k = none := by
  rw [lookup_eq_none_iff]; simpa using h

/-- a key of the first axis is decided by the first axis' option alone … -/
theorem lookup_writes_head (a : String) (o : List Json) (rest : List (String × List Json))
    (d : Nat) (hd : d < o.length) (cs : List Nat)
    (hdis : ∀ b ∈ rest, ∀ k, k ∈ axisKeys (a, o) → k ∉ axisKeys b) (k : String)
    (hk : k ∈ axisKeys (a, o)) :
    lookup (writes (choice ((a, o) :: rest) (d :: cs))).reverse k
      = lookup (writesOf a o[d]).reverse k := by
  have hrest : k ∉ (writes (choice rest cs)).map (·.1) := by
    intro hm
    obtain ⟨b, hb, hkb⟩ := keys_writes_choice_subset rest cs k hm
    exact hdis b hb k hk hkb
  simp only [choice, List.getElem?_eq_getElem hd, writes, List.reverse_append, lookup_append,
    lookup_reverse_eq_none _ k hrest]

/-- … and a key the first axis cannot write is decided by the other axes -/
theorem lookup_writes_tail (a : String) (o : List Json) (rest : List (String × List Json))
    (d : Nat) (hd : d < o.length) (cs : List Nat) (k : String) (hk : k ∉ axisKeys (a, o)) :
    lookup (writes (choice ((a, o) :: rest) (d :: cs))).reverse k
      = lookup (writes (choice rest cs)).reverse k := by
  have hw : k ∉ (writesOf a o[d]).map (·.1) :=
    fun hm => hk (mem_axisKeys_of_write a o o[d] (List.getElem_mem hd) k hm)
  simp only [choice, List.getElem?_eq_getElem hd, writes, List.reverse_append, lookup_append,
    lookup_reverse_eq_none _ k hw]
  cases lookup (writes (choice rest cs)).reverse k <;> rfl

/-- **the combination can be read back from the generated query** (as a map), when different axes
write different keys and the options of each axis are observably different -/
theorem choice_inj_of_observable (initial : List (String × Json)) :
    ∀ (ax : List (String × List Json)) (c c' : List Nat), AxesDisjoint ax →
    (∀ a ∈ ax, OptionsObservablyDistinct initial a) →
    inRange (ax.map (·.2.length)) c = true → inRange (ax.map (·.2.length)) c' = true →
    (∀ k, lookup (overlay initial (choice ax c)) k = lookup (overlay initial (choice ax c')) k) →
    c = c'
  | [], c, c', _, _, h, h', _ => by simp at h h'; simp [h, h']
  | (a, o) :: rest, c, c', hdis, hobs, h, h', heq => by
    obtain ⟨d, ps, rfl, hd, hps⟩ := (MultiSet.inRange_cons_iff _ _ c).mp h
    obtain ⟨d', ps', rfl, hd', hps'⟩ := (MultiSet.inRange_cons_iff _ _ c').mp h'
    simp only at hd hd'
    have hdis' := List.pairwise_cons.mp hdis
    -- the first digit
    have hfirst : ∀ k, observe initial a o[d] k = observe initial a o[d'] k := by
      intro k
      by_cases hk : k ∈ axisKeys (a, o)
      · have := heq k
        rw [lookup_overlay, lookup_overlay, lookup_writes_head a o rest d hd ps hdis'.1 k hk,
          lookup_writes_head a o rest d' hd' ps' hdis'.1 k hk] at this
        exact this
      · have h1 : k ∉ (writesOf a o[d]).map (·.1) :=
          fun hm => hk (mem_axisKeys_of_write a o o[d] (List.getElem_mem hd) k hm)
        have h2 : k ∉ (writesOf a o[d']).map (·.1) :=
          fun hm => hk (mem_axisKeys_of_write a o o[d'] (List.getElem_mem hd') k hm)
        simp only [observe, lookup_reverse_eq_none _ k h1, lookup_reverse_eq_none _ k h2]
    have hdd : d = d' := hobs (a, o) (by simp) d d' hd hd' hfirst
    -- the other digits
    have htail : ∀ k, lookup (overlay initial (choice rest ps)) k
        = lookup (overlay initial (choice rest ps')) k := by
      intro k
      by_cases hk : k ∈ axisKeys (a, o)
      · have n1 : k ∉ (writes (choice rest ps)).map (·.1) := by
          intro hm
          obtain ⟨b, hb, hkb⟩ := keys_writes_choice_subset rest ps k hm
          exact hdis'.1 b hb k hk hkb
        have n2 : k ∉ (writes (choice rest ps')).map (·.1) := by
          intro hm
          obtain ⟨b, hb, hkb⟩ := keys_writes_choice_subset rest ps' k hm
          exact hdis'.1 b hb k hk hkb
        rw [lookup_overlay, lookup_overlay, lookup_reverse_eq_none _ k n1,
          lookup_reverse_eq_none _ k n2]
      · have := heq k
        rw [lookup_overlay, lookup_overlay, lookup_writes_tail a o rest d hd ps k hk,
          lookup_writes_tail a o rest d' hd' ps' k hk] at this
        rw [lookup_overlay, lookup_overlay]
        exact this
    rw [hdd, choice_inj_of_observable initial rest ps ps' hdis'.2
      (fun b hb => hobs b (by simp [hb])) hps hps' htail]

/-- conversely, two options of one axis that are observably the same give the same query (as a map)
whatever the other axes choose, provided no earlier axis writes a key of theirs: the condition on the
options is necessary -/
theorem same_observation_same_query (initial : List (String × Json)) (pre post : List (String × Json))
    (key : String) (o o' : Json) (hobs : ∀ k, observe initial key o k = observe initial key o' k)
    (hpre : ∀ k, k ∈ (writesOf key o).map (·.1) ∨ k ∈ (writesOf key o').map (·.1) →
      k ∉ (writes pre).map (·.1))
    (k : String) :
    lookup (overlay initial (pre ++ (key, o) :: post)) k
      = lookup (overlay initial (pre ++ (key, o') :: post)) k := by
  have := hobs k
  simp only [observe] at this
  simp only [lookup_overlay, writes_append, writes, List.reverse_append, lookup_append]
  cases lookup (writes post).reverse k with
  | some v => rfl
  | none =>
    simp only
    by_cases hw : k ∈ (writesOf key o).map (·.1) ∨ k ∈ (writesOf key o').map (·.1)
    · rw [lookup_reverse_eq_none _ k (hpre k hw)]
      cases h1 : lookup (writesOf key o).reverse k <;>
        cases h2 : lookup (writesOf key o').reverse k <;> simp_all
    · have n1 : k ∉ (writesOf key o).map (·.1) := fun h => hw (Or.inl h)
      have n2 : k ∉ (writesOf key o').map (·.1) := fun h => hw (Or.inr h)
      rw [lookup_reverse_eq_none _ k n1, lookup_reverse_eq_none _ k n2]

/-! ### the generated queries are well-formed objects again (keys unique) -/

theorem nodup_keys_insertKv (kvs : List (String × Json)) (k : String) (v : Json)
    (h : (kvs.map (·.1)).Nodup) : ((insertKv kvs k v).map (·.1)).Nodup := by
  rw [keys_insertKv]
  by_cases hk : k ∈ kvs.map (·.1)
  · simpa [hk] using h
  · simp only [hk, if_false]
    exact List.nodup_append.mpr ⟨h, by simp, by
      intro a ha b hb; simp at hb; subst hb; exact fun e => hk (e ▸ ha)⟩

theorem nodup_keys_mergeKv : ∀ (ws kvs : List (String × Json)), (kvs.map (·.1)).Nodup →
    ((mergeKv kvs ws).map (·.1)).Nodup
  | [], _, h => h
  | (k, v) :: r, kvs, h => nodup_keys_mergeKv r _ (nodup_keys_insertKv kvs k v h)

theorem nodup_keys_swapRemoveKv (kvs : List (String × Json)) (hn : (kvs.map (·.1)).Nodup)
    (k : String) : ((swapRemoveKv kvs k).map (·.1)).Nodup := by
  rw [((swapRemoveKv_perm kvs hn k).map _).nodup_iff]
  exact (List.Sublist.map _ List.filter_sublist).nodup hn

/-! ### the text test, both directions -/

theorem strContains_go_sound (p : List Char) : ∀ (fuel : Nat) (cs : List Char),
    strContains.go p cs fuel = true → p <:+: cs
  | 0, _, h => by simp [strContains.go] at h
  | fuel + 1, cs, h => by
    unfold strContains.go at h
    by_cases hp : p.isPrefixOf cs = true
    · exact (List.isPrefixOf_iff_prefix.mp hp).isInfix
    · simp only [hp, Bool.false_eq_true, if_false] at h
      cases cs with
      | nil => simp at h
      | cons c r =>
        simp only at h
        exact (strContains_go_sound p fuel r h).trans (List.suffix_cons c r).isInfix

/-- `Json.strContains` is the substring test -/
theorem strContains_iff_infix (s pat : String) :
    strContains s pat = true ↔ pat.toList <:+: s.toList :=
  ⟨fun h => strContains_go_sound _ _ _ h, strContains_of_infix s pat⟩

end GridSearch
end Compass
