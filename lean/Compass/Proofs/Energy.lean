/-
Helper lemmas for C08 (vehicle energy and battery state) over any linearly ordered field.
-/
import Compass.Proofs.Num
import Compass.Props.C09
import Compass.Model.Energy

namespace Compass
namespace Energy

set_option linter.unusedSectionVars false

section
variable {α : Type} [Field α] [LinearOrder α] [IsStrictOrderedRing α] [Lit α] [LawfulLit α]

@[simp] theorem hundred_eq : (hundred : α) = 100 := by
  simp [hundred, LawfulLit.lit_eq]

/-! ### clamp -/

theorem clamp_bounds (x lo hi : α) (h : lo ≤ hi) : lo ≤ clamp x lo hi ∧ clamp x lo hi ≤ hi := by
  unfold clamp
  split
  · exact ⟨le_refl _, h⟩
  · split
    · exact ⟨h, le_refl _⟩
    · constructor <;> [exact not_lt.mp ‹_›; exact not_lt.mp ‹_›]

theorem clamp_of_mem {x lo hi : α} (h1 : lo ≤ x) (h2 : x ≤ hi) : clamp x lo hi = x := by
  unfold clamp
  rw [if_neg (not_lt.mpr h1), if_neg (not_lt.mpr h2)]

/-- a result strictly inside the interval was not clamped -/
theorem clamp_interior {x lo hi : α} (h1 : lo < clamp x lo hi) (h2 : clamp x lo hi < hi) :
    clamp x lo hi = x := by
  unfold clamp at *
  by_cases a : x < lo
  · simp [a] at h1
  · by_cases b : hi < x
    · simp [a, b] at h2
    · simp [a, b]

theorem clamp_lo {x lo hi : α} (h : x ≤ lo) (hlh : lo ≤ hi) : clamp x lo hi = lo := by
  unfold clamp
  by_cases a : x < lo
  · simp [a]
  · have : x = lo := le_antisymm h (not_lt.mp a)
    subst this
    simp [not_lt.mpr hlh]

theorem clamp_hi {x lo hi : α} (h : hi ≤ x) (hlh : lo ≤ hi) : clamp x lo hi = hi := by
  unfold clamp
  by_cases a : x < lo
  · exact absurd (lt_of_lt_of_le a (le_trans hlh h)) (lt_irrefl _)
  · by_cases b : hi < x
    · simp [a, b]
    · have : x = hi := le_antisymm (not_lt.mp b) h
      subst this
      simp [a]

/-! ### conversions with equal units are the identity -/

@[simp] theorem energy_conv_self (u : EnergyUnit) (x : α) : u.convert u x = x := C09.energy_convert_id u x
@[simp] theorem time_conv_self (u : TimeUnit) (x : α) : u.convert u x = x := C09.time_convert_id u x
@[simp] theorem distance_conv_self (u : DistanceUnit) (x : α) : u.convert u x = x := C09.distance_convert_id u x

/-- the rational factor of an energy conversion -/
def eK (u v : EnergyUnit) : ℚ := (EnergyUnit.factor u v).ratio
def tK (u v : TimeUnit) : ℚ := (TimeUnit.factor u v).ratio
def dK (u v : DistanceUnit) : ℚ := (DistanceUnit.factor u v).ratio
def sK (u v : SpeedUnit) : ℚ := (SpeedUnit.factor u v).ratio

theorem energy_conv_eq (u v : EnergyUnit) (x : α) : u.convert v x = x * (eK u v : α) := Factor.apply_eq _ _
theorem time_conv_eq (u v : TimeUnit) (x : α) : u.convert v x = x * (tK u v : α) := Factor.apply_eq _ _
theorem distance_conv_eq (u v : DistanceUnit) (x : α) : u.convert v x = x * (dK u v : α) := Factor.apply_eq _ _
theorem speed_conv_eq (u v : SpeedUnit) (x : α) : u.convert v x = x * (sK u v : α) := Factor.apply_eq _ _

theorem eK_pos (u v : EnergyUnit) : (0 : α) < (eK u v : α) := C09.ratio_cast_pos _ (C09.energy_wf u v)
theorem tK_pos (u v : TimeUnit) : (0 : α) < (tK u v : α) := C09.ratio_cast_pos _ (C09.time_wf u v)
theorem dK_pos (u v : DistanceUnit) : (0 : α) < (dK u v : α) := C09.ratio_cast_pos _ (C09.distance_wf u v)
theorem sK_pos (u v : SpeedUnit) : (0 : α) < (sK u v : α) := C09.ratio_cast_pos _ (C09.speed_wf u v)

/-! ### the state layer -/

@[simp] theorem addTime_time (fu : FeatureUnits) (s : VState α) (t : α) (u : TimeUnit) :
    (addTime fu s t u).time = s.time + u.convert fu.time t := rfl
@[simp] theorem addTime_distance (fu : FeatureUnits) (s : VState α) (t : α) (u : TimeUnit) :
    (addTime fu s t u).distance = s.distance := rfl
@[simp] theorem addTime_liquid (fu : FeatureUnits) (s : VState α) (t : α) (u : TimeUnit) :
    (addTime fu s t u).liquid = s.liquid := rfl
@[simp] theorem addTime_electric (fu : FeatureUnits) (s : VState α) (t : α) (u : TimeUnit) :
    (addTime fu s t u).electric = s.electric := rfl
@[simp] theorem addTime_soc (fu : FeatureUnits) (s : VState α) (t : α) (u : TimeUnit) :
    (addTime fu s t u).soc = s.soc := rfl

@[simp] theorem addDistance_time (fu : FeatureUnits) (s : VState α) (d : α) (u : DistanceUnit) :
    (addDistance fu s d u).time = s.time := rfl
@[simp] theorem addDistance_distance (fu : FeatureUnits) (s : VState α) (d : α) (u : DistanceUnit) :
    (addDistance fu s d u).distance = s.distance + u.convert fu.distance d := rfl
@[simp] theorem addDistance_liquid (fu : FeatureUnits) (s : VState α) (d : α) (u : DistanceUnit) :
    (addDistance fu s d u).liquid = s.liquid := rfl
@[simp] theorem addDistance_electric (fu : FeatureUnits) (s : VState α) (d : α) (u : DistanceUnit) :
    (addDistance fu s d u).electric = s.electric := rfl
@[simp] theorem addDistance_soc (fu : FeatureUnits) (s : VState α) (d : α) (u : DistanceUnit) :
    (addDistance fu s d u).soc = s.soc := rfl

@[simp] theorem addLiquid_time (fu : FeatureUnits) (s : VState α) (e : α) (u : EnergyUnit) :
    (addLiquid fu s e u).time = s.time := rfl
@[simp] theorem addLiquid_distance (fu : FeatureUnits) (s : VState α) (e : α) (u : EnergyUnit) :
    (addLiquid fu s e u).distance = s.distance := rfl
@[simp] theorem addLiquid_liquid (fu : FeatureUnits) (s : VState α) (e : α) (u : EnergyUnit) :
    (addLiquid fu s e u).liquid = s.liquid + u.convert fu.liquid e := rfl
@[simp] theorem addLiquid_electric (fu : FeatureUnits) (s : VState α) (e : α) (u : EnergyUnit) :
    (addLiquid fu s e u).electric = s.electric := rfl
@[simp] theorem addLiquid_soc (fu : FeatureUnits) (s : VState α) (e : α) (u : EnergyUnit) :
    (addLiquid fu s e u).soc = s.soc := rfl

@[simp] theorem addElectric_time (fu : FeatureUnits) (s : VState α) (e : α) (u : EnergyUnit) :
    (addElectric fu s e u).time = s.time := rfl
@[simp] theorem addElectric_distance (fu : FeatureUnits) (s : VState α) (e : α) (u : EnergyUnit) :
    (addElectric fu s e u).distance = s.distance := rfl
@[simp] theorem addElectric_liquid (fu : FeatureUnits) (s : VState α) (e : α) (u : EnergyUnit) :
    (addElectric fu s e u).liquid = s.liquid := rfl
@[simp] theorem addElectric_electric (fu : FeatureUnits) (s : VState α) (e : α) (u : EnergyUnit) :
    (addElectric fu s e u).electric = s.electric + u.convert fu.electric e := rfl
@[simp] theorem addElectric_soc (fu : FeatureUnits) (s : VState α) (e : α) (u : EnergyUnit) :
    (addElectric fu s e u).soc = s.soc := rfl

@[simp] theorem updateSoc_time (s : VState α) (d m : α) : (updateSocPercent s d m).time = s.time := rfl
@[simp] theorem updateSoc_distance (s : VState α) (d m : α) : (updateSocPercent s d m).distance = s.distance := rfl
@[simp] theorem updateSoc_liquid (s : VState α) (d m : α) : (updateSocPercent s d m).liquid = s.liquid := rfl
@[simp] theorem updateSoc_electric (s : VState α) (d m : α) : (updateSocPercent s d m).electric = s.electric := rfl

/-- `update_soc_percent` in closed form: the charge moves by `-100 · delta / capacity` and is clamped -/
theorem updateSoc_soc (s : VState α) (delta cap : α) (hcap : cap ≠ 0) :
    (updateSocPercent s delta cap).soc = clamp (s.soc - 100 * delta / cap) 0 100 := by
  simp only [updateSocPercent, socFromBatteryAndDelta, hundred_eq, zero_eq]
  congr 1
  field_simp

theorem updateSoc_bounds (s : VState α) (delta cap : α) :
    0 ≤ (updateSocPercent s delta cap).soc ∧ (updateSocPercent s delta cap).soc ≤ 100 := by
  simp only [updateSocPercent, socFromBatteryAndDelta, hundred_eq, zero_eq]
  exact clamp_bounds _ _ _ (by norm_num)

theorem asSoc_bounds (r m : α) : 0 ≤ asSocPercent r m ∧ asSocPercent r m ≤ 100 := by
  simp only [asSocPercent, hundred_eq, zero_eq]
  exact clamp_bounds _ _ _ (by norm_num)

end

end Energy
end Compass

namespace Compass
namespace Energy

set_option linter.unusedSectionVars false

section
variable {K α : Type} [DecidableEq K] [Field α] [LinearOrder α] [IsStrictOrderedRing α] [Lit α] [LawfulLit α]

@[simp] theorem predict_unit (r : PredRecord α) (c : Option (Cache K α)) (speed : α) (su : SpeedUnit)
    (grade : α) (gu : GradeUnit) (d : α) (du : DistanceUnit) :
    (r.predict c speed su grade gu d du).1.2 = r.rateUnit.associatedEnergyUnit := rfl

/-! ### battery capacity -/

/-- the battery capacity is positive (nothing to say for an ICE) -/
def CapacityPos : Vehicle α → Prop
  | .ice _ => True
  | .bev _ b => 0 < b.capacity
  | .phev _ _ b => 0 < b.capacity

/-! ### starting charge -/

theorem withStartSoc_ok {b b' : Battery α} {x : α} (h : b.withStartSoc x = .ok b') :
    (0 ≤ x ∧ x ≤ 100) ∧ b' = { b with startEnergy := Lit.lit 1 100 * x * b.capacity } := by
  simp only [Battery.withStartSoc, zero_eq, hundred_eq] at h
  split at h
  · rename_i hx; cases h; exact ⟨hx, rfl⟩
  · cases h

/-- `update_from_query` keeps the capacity -/
theorem updateFromQuery_capacityPos {v v' : Vehicle α} {q : SocQuery α}
    (h : v.updateFromQuery q = .ok v') (hp : CapacityPos v) : CapacityPos v' := by
  cases v with
  | ice r => simp only [Vehicle.updateFromQuery] at h; cases h; exact hp
  | bev r b =>
    cases q with
    | nonNumeric => simp only [Vehicle.updateFromQuery] at h; cases h
    | absent =>
      simp only [Vehicle.updateFromQuery] at h
      split at h
      · rename_i b' hb; cases h; obtain ⟨_, rfl⟩ := withStartSoc_ok hb; exact hp
      · cases h
    | num x =>
      simp only [Vehicle.updateFromQuery] at h
      split at h
      · rename_i b' hb; cases h; obtain ⟨_, rfl⟩ := withStartSoc_ok hb; exact hp
      · cases h
  | phev s d b =>
    cases q with
    | nonNumeric => simp only [Vehicle.updateFromQuery] at h; cases h
    | absent => simp only [Vehicle.updateFromQuery] at h; cases h
    | num x =>
      simp only [Vehicle.updateFromQuery] at h
      split at h
      · rename_i b' hb; cases h; obtain ⟨_, rfl⟩ := withStartSoc_ok hb; exact hp
      · cases h

theorem asSoc_of_start (cap x : α) (hcap : cap ≠ 0) (hx : 0 ≤ x ∧ x ≤ 100) :
    asSocPercent (Lit.lit 1 100 * x * cap) cap = x := by
  simp only [asSocPercent, hundred_eq, zero_eq, LawfulLit.lit_eq]
  have e : ((1 : ℕ) : α) / ((100 : ℕ) : α) * x * cap / cap * 100 = x := by
    push_cast; field_simp
  rw [e]
  exact clamp_of_mem hx.1 hx.2

/-! ### cache lists -/

theorem find_mem {k : K} {v : α} : ∀ {es : List (K × α)}, Cache.find k es = some v → (k, v) ∈ es
  | [], h => by simp [Cache.find] at h
  | (k', v') :: r, h => by
    simp only [Cache.find] at h
    split at h
    · rename_i hk; cases h; subst hk; exact List.mem_cons_self
    · exact List.mem_cons_of_mem _ (find_mem h)

theorem mem_remove {k : K} {x : K × α} : ∀ {es : List (K × α)}, x ∈ Cache.remove k es → x ∈ es
  | [], h => by simp [Cache.remove] at h
  | (k', v') :: r, h => by
    simp only [Cache.remove] at h
    split at h
    · exact List.mem_cons_of_mem _ h
    · rcases List.mem_cons.mp h with h | h
      · rw [h]; exact List.mem_cons_self
      · exact List.mem_cons_of_mem _ (mem_remove h)

/-! ### decomposition of the traversal -/

theorem traverse_ok {eng : SpeedEngine α} {fu : FeatureUnits} {e : Edge α} {s s1 : VState α}
    (h : eng.traverse fu e s = .ok s1) :
    ∃ speed t, eng.speedTable[e.id]? = some speed ∧
      createTime speed eng.speedUnit (baseDistanceUnit.convert eng.distanceUnit e.distance)
        eng.distanceUnit eng.timeUnit = some t ∧
      s1 = addDistance fu (addTime fu s t eng.timeUnit)
            (baseDistanceUnit.convert eng.distanceUnit e.distance) eng.distanceUnit := by
  simp only [SpeedEngine.traverse] at h
  split at h
  · cases h
  · rename_i speed hs
    split at h
    · cases h
    · rename_i t ht
      refine ⟨speed, t, hs, ht, ?_⟩
      cases h; rfl

theorem traverseEdge_ok {svc : Service α} {eng : SpeedEngine α} {v : Vehicle α} {fu : FeatureUnits}
    {e : Edge α} {st st' : VState α × Caches K α}
    (h : traverseEdge svc eng v fu e st = .ok st') :
    ∃ s1 grade, eng.traverse fu e st.1 = .ok s1 ∧ getGrade svc.gradeTable e.id = .ok grade ∧
      st' = v.consumeEnergy fu st.2 (reconstructSpeed svc fu e st.1 s1) svc.timeModelSpeedUnit
              grade svc.gradeUnit (baseDistanceUnit.convert svc.distanceUnit e.distance)
              svc.distanceUnit s1 := by
  simp only [traverseEdge] at h
  split at h
  · cases h
  · rename_i s1 hs1
    split at h
    · cases h
    · rename_i grade hg
      split at h
      · refine ⟨s1, grade, hs1, hg, ?_⟩
        cases h; rfl
      · cases h

/-- charge within 0–100 percent -/
def SocOk (s : VState α) : Prop := 0 ≤ s.soc ∧ s.soc ≤ 100

theorem consume_socOk (v : Vehicle α) (fu : FeatureUnits) (c : Caches K α)
    (speed : α) (su : SpeedUnit) (grade : α) (gu : GradeUnit) (d : α) (du : DistanceUnit)
    (s : VState α) (h : SocOk s) :
    SocOk (v.consumeEnergy fu c speed su grade gu d du s).1 := by
  cases v with
  | ice r => exact h
  | bev r b => exact updateSoc_bounds (α := α) _ _ _
  | phev sus dep b =>
    simp only [Vehicle.consumeEnergy]
    split <;> exact updateSoc_bounds (α := α) _ _ _

theorem traverse_soc {eng : SpeedEngine α} {fu : FeatureUnits} {e : Edge α} {s s1 : VState α}
    (h : eng.traverse fu e s = .ok s1) :
    s1.soc = s.soc ∧ s1.liquid = s.liquid ∧ s1.electric = s.electric := by
  obtain ⟨_, _, _, _, rfl⟩ := traverse_ok h
  exact ⟨rfl, rfl, rfl⟩

theorem traverseEdge_socOk {svc : Service α} {eng : SpeedEngine α} {v : Vehicle α} {fu : FeatureUnits}
    {e : Edge α} {st st' : VState α × Caches K α}
    (h : traverseEdge svc eng v fu e st = .ok st') (hs : SocOk st.1) : SocOk st'.1 := by
  obtain ⟨s1, grade, h1, _, rfl⟩ := traverseEdge_ok h
  apply consume_socOk
  unfold SocOk at *
  rw [(traverse_soc h1).1]
  exact hs

end

end Energy
end Compass
