/-
Helper lemmas for C19 (response sink).  Core Lean only.
-/
import Compass.Model.Sink

namespace Compass
namespace Sink

/-! ### sorting commutes with projecting the key -/

theorem map_insertBy {α β : Type} (f : α → β) (lt : α → α → Bool) (lt' : β → β → Bool)
    (h : ∀ a b, lt a b = lt' (f a) (f b)) (x : α) (l : List α) :
    (insertBy lt x l).map f = insertBy lt' (f x) (l.map f) := by
  induction l with
  | nil => rfl
  | cons y ys ih =>
    simp only [insertBy, List.map_cons, h x y]
    split
    · simp
    · simp [ih]

theorem map_sortBy {α β : Type} (f : α → β) (lt : α → α → Bool) (lt' : β → β → Bool)
    (h : ∀ a b, lt a b = lt' (f a) (f b)) (l : List α) :
    (sortBy lt l).map f = sortBy lt' (l.map f) := by
  induction l with
  | nil => rfl
  | cons y ys ih => simp only [sortBy, List.map_cons, map_insertBy f lt lt' h, ih]

theorem insertBy_perm {α : Type} (lt : α → α → Bool) (x : α) (l : List α) :
    (insertBy lt x l).Perm (x :: l) := by
  induction l with
  | nil => exact List.Perm.refl _
  | cons y ys ih =>
    simp only [insertBy]
    split
    · exact List.Perm.refl _
    · exact (List.Perm.cons y ih).trans (List.Perm.swap x y ys)

theorem sortBy_perm {α : Type} (lt : α → α → Bool) (l : List α) : (sortBy lt l).Perm l := by
  induction l with
  | nil => exact List.Perm.refl _
  | cons y ys ih => exact (insertBy_perm lt y _).trans (List.Perm.cons y ih)

/-! ### association lists -/

theorem lookup_eq_none_iff (kvs : List (String × Json)) (k : String) :
    Json.lookup kvs k = none ↔ kvs.any (fun p => p.1 == k) = false := by
  unfold Json.lookup
  induction kvs with
  | nil => simp
  | cons p ps ih =>
    simp only [List.find?_cons, List.any_cons]
    cases h : (p.1 == k) with
    | true => simp
    | false => simpa using ih

theorem lookup_append_of_some (kvs l : List (String × Json)) (k : String) (v : Json)
    (h : Json.lookup kvs k = some v) : Json.lookup (kvs ++ l) k = some v := by
  unfold Json.lookup at *
  induction kvs with
  | nil => simp at h
  | cons p ps ih =>
    simp only [List.cons_append, List.find?_cons] at *
    cases hp : (p.1 == k) with
    | true => simpa [hp] using h
    | false => simp only [hp] at h ⊢; exact ih h

/-- adding a key that is not there keeps every entry -/
theorem lookup_insertKv_new (kvs : List (String × Json)) (k : String) (v : Json)
    (hnew : Json.lookup kvs k = none) (k' : String) (v' : Json) (h : Json.lookup kvs k' = some v') :
    Json.lookup (Json.insertKv kvs k v) k' = some v' := by
  have hany := (lookup_eq_none_iff kvs k).1 hnew
  unfold Json.insertKv
  rw [hany]
  simpa using lookup_append_of_some kvs [(k, v)] k' v' h

theorem get?_indexAssign_new (r r' : Json) (k : String) (v : Json) (hnew : r.get? k = none)
    (h : Json.indexAssign r k v = some r') (k' : String) (v' : Json) (hk : r.get? k' = some v') :
    r'.get? k' = some v' := by
  cases r with
  | obj kvs =>
    simp only [Json.indexAssign, Option.some.injEq] at h
    subst h
    simp only [Json.get?] at *
    exact lookup_insertKv_new kvs k v hnew k' v' hk
  | null => simp [Json.get?] at hk
  | bool b => simp [Json.indexAssign] at h
  | num l b => simp [Json.indexAssign] at h
  | str s => simp [Json.indexAssign] at h
  | arr xs => simp [Json.indexAssign] at h

/-! ### `format_response` -/

/-- the row text `format_response` produces (empty when it does not return) -/
def rowOf (N : NumOps) (f : Format) (r : Json) : List Char :=
  match formatResponse N f r with
  | .ok (row, _) => row
  | _ => []

/-- the response `format_response` leaves behind -/
def postOf (N : NumOps) (f : Format) (r : Json) : Json :=
  match formatResponse N f r with
  | .ok (_, r') => r'
  | _ => r

/-- the chunk `write_response` appends for `r` -/
def recordOf (N : NumOps) (f : Format) (r : Json) : List Char := record (rowOf N f r)

/-- `format_response` returns on `r` (it neither panics nor loops) -/
def Writable (N : NumOps) (f : Format) (r : Json) : Prop := ∃ p, formatResponse N f r = .ok p

theorem formatResponse_of_writable {N : NumOps} {f : Format} {r : Json} (h : Writable N f r) :
    formatResponse N f r = .ok (rowOf N f r, postOf N f r) := by
  obtain ⟨p, hp⟩ := h
  unfold rowOf postOf
  rw [hp]

theorem writable_json (N : NumOps) (nd : Bool) (r : Json) : Writable N (.json nd) r := by
  exact ⟨_, rfl⟩

theorem indexAssign_isSome_of_obj_or_null (r : Json) (k : String) (v : Json)
    (h : r.isObject = true ∨ r.isNull = true) : ∃ r', Json.indexAssign r k v = some r' := by
  cases r <;> simp_all [Json.indexAssign, Json.isObject, Json.isNull]

/-! #### the search for a free error key ends, and finds a key that is not there -/

theorem toDigits_inj : ∀ (n m : Nat), Nat.toDigits 10 n = Nat.toDigits 10 m → n = m := by
  intro n
  induction n using Nat.strongRecOn with
  | _ n ih =>
    intro m h
    have hd : ∀ a, a < 10 → ∀ b, b < 10 → Nat.digitChar a = Nat.digitChar b → a = b := by decide
    rw [Nat.toDigits_eq_if (by decide : 1 < 10), Nat.toDigits_eq_if (n := m) (by decide : 1 < 10)] at h
    by_cases hn : n < 10 <;> by_cases hm : m < 10 <;> simp only [hn, hm, if_true, if_false] at h
    · exact hd n hn m hm (by simpa using h)
    · have := congrArg List.length h
      have hpos := Nat.length_toDigits_pos (b := 10) (n := m / 10)
      simp at this
      try omega
    · have := congrArg List.length h
      have hpos := Nat.length_toDigits_pos (b := 10) (n := n / 10)
      simp at this
      try omega
    · obtain ⟨h1, h2⟩ := List.append_inj' h rfl
      have e1 := ih (n / 10) (by omega) (m / 10) h1
      have e2 := hd (n % 10) (Nat.mod_lt _ (by decide)) (m % 10) (Nat.mod_lt _ (by decide)) (by simpa using h2)
      omega

theorem errorKeyName_length_ge (a : Nat) (h : 2 ≤ a) : 11 ≤ (errorKeyName a).toList.length := by
  unfold errorKeyName
  have h0 : ¬ a = 0 := by omega
  have h1 : ¬ a = 1 := by omega
  simp only [h0, h1, if_false, String.toList_append, List.length_append]
  have : ("csv_error_" : String).toList.length = 10 := by decide
  have hpos := Nat.length_toDigits_pos (b := 10) (n := a)
  rw [this, Nat.toString_eq_repr, Nat.toList_repr]
  omega

theorem errorKeyName_inj (a b : Nat) (h : errorKeyName a = errorKeyName b) : a = b := by
  have hl : (errorKeyName a).toList.length = (errorKeyName b).toList.length := by rw [h]
  have l0 : (errorKeyName 0).toList.length = 5 := by decide
  have l1 : (errorKeyName 1).toList.length = 9 := by decide
  by_cases ha0 : a = 0
  · subst ha0
    by_cases hb0 : b = 0
    · exact hb0.symm
    · by_cases hb1 : b = 1
      · subst hb1; rw [l0, l1] at hl; omega
      · have := errorKeyName_length_ge b (by omega); rw [l0] at hl; omega
  · by_cases ha1 : a = 1
    · subst ha1
      by_cases hb0 : b = 0
      · subst hb0; rw [l0, l1] at hl; omega
      · by_cases hb1 : b = 1
        · exact hb1.symm
        · have := errorKeyName_length_ge b (by omega); rw [l1] at hl; omega
    · have ga := errorKeyName_length_ge a (by omega)
      by_cases hb0 : b = 0
      · subst hb0; rw [l0] at hl; omega
      · by_cases hb1 : b = 1
        · subst hb1; rw [l1] at hl; omega
        · unfold errorKeyName at h
          simp only [ha0, ha1, hb0, hb1, if_false] at h
          have h' := congrArg String.toList h
          simp only [String.toList_append] at h'
          have h'' := List.append_cancel_left h'
          rw [Nat.toString_eq_repr, Nat.toString_eq_repr, Nat.toList_repr, Nat.toList_repr] at h''
          exact toDigits_inj a b h''

theorem freshErrorKey_new (r : Json) (fuel a : Nat) (k : String) (h : freshErrorKey r fuel a = some k) :
    r.get? k = none := by
  induction fuel generalizing a with
  | zero => simp [freshErrorKey] at h
  | succ f ih =>
    simp only [freshErrorKey] at h
    split at h
    · rename_i hn
      simp only [Option.some.injEq] at h
      rw [← h]
      simpa using hn
    · exact ih (a + 1) h

theorem freshErrorKey_none (r : Json) (fuel a : Nat) (h : freshErrorKey r fuel a = none) :
    ∀ i, a ≤ i → i < a + fuel → r.get? (errorKeyName i) ≠ none := by
  induction fuel generalizing a with
  | zero => intro i h1 h2; omega
  | succ f ih =>
    simp only [freshErrorKey] at h
    split at h
    · simp at h
    · rename_i hn
      intro i h1 h2
      by_cases hi : i = a
      · subst hi; simpa using hn
      · exact ih (a + 1) h i (by omega) (by omega)

theorem mem_keys_of_lookup (kvs : List (String × Json)) (k : String) (h : Json.lookup kvs k ≠ none) :
    k ∈ kvs.map (·.1) := by
  unfold Json.lookup at h
  cases hf : kvs.find? (fun p => p.1 == k) with
  | none => simp [hf] at h
  | some p =>
    have hm := List.mem_of_find?_eq_some hf
    have hk := List.find?_some hf
    simp only [beq_iff_eq] at hk
    exact List.mem_map.2 ⟨p, hm, hk⟩

/-- the `while` loop ends: an object with `n` entries cannot hold all of the first `n + 2` key names (they
are pairwise different) -/
theorem freshErrorKey_terminates (r : Json) : ∃ k, csvErrorKey r = some k := by
  unfold csvErrorKey
  cases h : freshErrorKey r (entryCount r + 2) 0 with
  | some k => exact ⟨k, rfl⟩
  | none =>
    exfalso
    have hall := freshErrorKey_none r _ 0 h
    cases r with
    | obj kvs =>
      simp only [entryCount] at hall
      have hnd : ((List.range (kvs.length + 2)).map errorKeyName).Nodup := by
        refine List.Pairwise.map errorKeyName ?_ List.nodup_range
        intro a b hab e
        exact hab (errorKeyName_inj a b e)
      have hsub : (List.range (kvs.length + 2)).map errorKeyName ⊆ kvs.map (·.1) := by
        intro k hk
        obtain ⟨i, hi, rfl⟩ := List.mem_map.1 hk
        have := hall i (Nat.zero_le _) (by simpa using List.mem_range.1 hi)
        exact mem_keys_of_lookup kvs _ (by simpa [Json.get?] using this)
      have := hnd.length_le_of_subset hsub
      simp at this
      omega
    | null => exact hall 0 (Nat.le_refl _) (by simp [entryCount]) rfl
    | bool b => exact hall 0 (Nat.le_refl _) (by simp [entryCount]) rfl
    | num l b => exact hall 0 (Nat.le_refl _) (by simp [entryCount]) rfl
    | str s => exact hall 0 (Nat.le_refl _) (by simp [entryCount]) rfl
    | arr xs => exact hall 0 (Nat.le_refl _) (by simp [entryCount]) rfl

theorem csvErrorKey_new (r : Json) (k : String) (h : csvErrorKey r = some k) : r.get? k = none :=
  freshErrorKey_new r _ 0 k h

theorem writable_of_obj_or_null (N : NumOps) (f : Format) (r : Json)
    (h : r.isObject = true ∨ r.isNull = true) : Writable N f r := by
  cases f with
  | json nd => exact writable_json N nd r
  | csv m s =>
    unfold Writable formatResponse
    simp only
    split
    · exact ⟨_, rfl⟩
    · obtain ⟨k, hk⟩ := freshErrorKey_terminates r
      obtain ⟨r', hr'⟩ := indexAssign_isSome_of_obj_or_null r k
        (csvErrorValue (failedKeys N (rowColumns m s) r)) h
      rw [hk]
      simp only [hr']
      exact ⟨_, rfl⟩

/-- what the CSV formatter does to the response, spelled out -/
theorem formatResponse_csv_cases (N : NumOps) (m : List (String × CsvMapping)) (s : Bool) (r : Json)
    (row : List Char) (r' : Json) (h : formatResponse N (.csv m s) r = .ok (row, r')) :
    row = csvRow N (rowColumns m s) r ∧
    (r' = r ∨ ∃ k, csvErrorKey r = some k ∧ failedKeys N (rowColumns m s) r ≠ [] ∧
      Json.indexAssign r k (csvErrorValue (failedKeys N (rowColumns m s) r)) = some r') := by
  unfold formatResponse at h
  simp only at h
  split at h
  · simp only [Outcome.ok.injEq, Prod.mk.injEq] at h
    exact ⟨h.1.symm, Or.inl h.2.symm⟩
  · rename_i hne
    split at h
    · exact absurd h (by simp)
    · rename_i k hk
      split at h
      · rename_i r'' hr''
        simp only [Outcome.ok.injEq, Prod.mk.injEq] at h
        refine ⟨h.1.symm, Or.inr ⟨k, hk, ?_, by rw [hr'', h.2]⟩⟩
        intro e; rw [e] at hne; exact hne rfl
      · exact absurd h (by simp)

/-! ### one `write_response` -/

theorem write_ok_of_writable (N : NumOps) (s : FileSink) (r : Json) (hp : s.Healthy)
    (hw : Writable N s.format r) :
    ∃ s', s.write N r = .ok s' (postOf N s.format r) ∧
      s'.file = s.file ++ [recordOf N s.format r] ∧ s'.iterations = s.iterations + 1 ∧
      s'.format = s.format ∧ s'.Healthy ∧ s'.flushEvery = s.flushEvery := by
  unfold FileSink.write
  rw [hp.1, formatResponse_of_writable hw]
  simp [recordOf, hp.2, FileSink.Healthy]

/-! ### Combined sinks -/

theorem isObject_postOf (N : NumOps) (f : Format) (r : Json) (h : r.isObject = true) :
    (postOf N f r).isObject = true := by
  have hw := writable_of_obj_or_null N f r (Or.inl h)
  have hf := formatResponse_of_writable hw
  cases f with
  | json nd =>
    simp only [formatResponse, Outcome.ok.injEq, Prod.mk.injEq] at hf
    rw [← hf.2]; exact h
  | csv m s =>
    rcases (formatResponse_csv_cases N m s r _ _ hf).2 with e | e
    · rw [e]; exact h
    · obtain ⟨k, _, _, e⟩ := e
      cases r with
      | obj kvs =>
        simp only [Json.indexAssign, Option.some.injEq] at e
        rw [← e]; rfl
      | _ => simp [Json.isObject] at h

/-- every member got exactly one more chunk and one more count -/
def AppendedOne : List FileSink → List FileSink → Prop
  | [], [] => True
  | s :: ss, s' :: ss' =>
    (∃ row, s'.file = s.file ++ [record row] ∧ s'.iterations = s.iterations + 1 ∧ s'.format = s.format) ∧
      AppendedOne ss ss'
  | _, _ => False

theorem writeCombined_objects (N : NumOps) (ss : List FileSink) (r : Json)
    (hp : ∀ s ∈ ss, s.Healthy) (hr : r.isObject = true) :
    ∃ ss' r', writeCombined N ss r = .ok ss' r' ∧ r'.isObject = true ∧ AppendedOne ss ss' := by
  induction ss generalizing r with
  | nil => exact ⟨[], r, rfl, hr, trivial⟩
  | cons s ss ih =>
    have hw := writable_of_obj_or_null N s.format r (Or.inl hr)
    obtain ⟨s', hs', hfile, hit, hfmt, _, _⟩ :=
      write_ok_of_writable N s r (hp s (List.mem_cons_self ..)) hw
    obtain ⟨ss', r', hss', hobj, happ⟩ :=
      ih (postOf N s.format r) (fun x hx => hp x (List.mem_cons_of_mem _ hx)) (isObject_postOf N s.format r hr)
    refine ⟨s' :: ss', r', ?_, hobj, ⟨⟨_, hfile, hit, hfmt⟩, happ⟩⟩
    simp only [writeCombined, hs', hss']

/-! ### schedules -/

theorem flatten_set_perm (qs : List (List Json)) (w : Nat) (r : Json) (rest : List Json)
    (h : qs[w]? = some (r :: rest)) : (r :: (qs.set w rest).flatten).Perm qs.flatten := by
  induction qs generalizing w with
  | nil => simp at h
  | cons q qs ih =>
    cases w with
    | zero =>
      simp only [List.getElem?_cons_zero, Option.some.injEq] at h
      subst h
      simp
    | succ w =>
      simp only [List.getElem?_cons_succ] at h
      simp only [List.set_cons_succ, List.flatten_cons]
      have := ih w h
      exact (List.perm_middle (a := r) (l₁ := q) (l₂ := (qs.set w rest).flatten)).symm.trans
        (List.Perm.append_left q this)

theorem flatten_pushAt_perm (xs : List (List Json)) (w : Nat) (r : Json) (h : w < xs.length) :
    (pushAt xs w r).flatten.Perm (xs.flatten ++ [r]) := by
  unfold pushAt
  induction xs generalizing w with
  | nil => simp at h
  | cons x xs ih =>
    cases w with
    | zero =>
      simp only [List.modify_zero_cons, List.flatten_cons, List.append_assoc]
      exact List.Perm.append_left x List.perm_append_comm
    | succ w =>
      simp only [List.modify_succ_cons, List.flatten_cons, List.append_assoc]
      exact List.Perm.append_left x (ih w (by simpa using h))

/-- what a run has done so far, seen from the state it started in -/
structure Progress (N : NumOps) (persist : Bool) (s s' : Run) (trace : List Json) : Prop where
  file : s'.sink.file = s.sink.file ++ trace.map (recordOf N s.sink.format)
  queues : (trace ++ s'.queues.flatten).Perm s.queues.flatten
  iterations : s'.sink.iterations = s.sink.iterations + trace.length
  format : s'.sink.format = s.sink.format
  poisoned : s'.sink.Healthy
  failed : s'.failed = s.failed
  width : s'.queues.length = s.queues.length
  retWidth : s'.returned.length = s.returned.length
  returned : s'.returned.flatten.Perm
    (s.returned.flatten ++ if persist then trace.map (postOf N s.sink.format) else [])

theorem step_progress (N : NumOps) (persist : Bool) (s : Run) (w : Nat) (hp : s.sink.Healthy)
    (hw : ∀ r ∈ s.queues.flatten, Writable N s.sink.format r) (hlen : s.returned.length = s.queues.length) :
    ∃ t, Progress N persist s (s.step N persist w) t := by
  unfold Run.step
  cases hq : s.queues[w]? with
  | none => exact ⟨[], by constructor <;> simp [hp]⟩
  | some q =>
    cases q with
    | nil => exact ⟨[], by constructor <;> simp [hp]⟩
    | cons r rest =>
      have hperm := flatten_set_perm s.queues w r rest hq
      have hmem : r ∈ s.queues.flatten := hperm.subset (List.mem_cons_self ..)
      obtain ⟨s', hs', hfile, hit, hfmt, hpo, _⟩ := write_ok_of_writable N s.sink r hp (hw r hmem)
      have hwlt : w < s.queues.length := by
        have := List.getElem?_eq_some_iff.1 hq
        exact this.1
      refine ⟨[r], ?_⟩
      simp only [hs']
      constructor
      · simpa using hfile
      · simpa using hperm
      · simpa using hit
      · simpa using hfmt
      · simpa using hpo
      · rfl
      · simp
      · cases persist <;> simp [pushAt]
      · cases persist with
        | false => simp
        | true =>
          simp only [if_true, List.map_cons, List.map_nil]
          exact flatten_pushAt_perm s.returned w _ (by omega)

theorem Progress.trans {N : NumOps} {persist : Bool} {s s₁ s₂ : Run} {t₁ t₂ : List Json}
    (h₁ : Progress N persist s s₁ t₁) (h₂ : Progress N persist s₁ s₂ t₂) :
    Progress N persist s s₂ (t₁ ++ t₂) := by
  constructor
  · rw [h₂.file, h₁.file, h₁.format]; simp
  · have := h₂.queues
    exact ((List.append_assoc t₁ t₂ _).symm ▸ List.Perm.append_left t₁ this).trans h₁.queues
  · rw [h₂.iterations, h₁.iterations]; simp; omega
  · rw [h₂.format, h₁.format]
  · exact h₂.poisoned
  · rw [h₂.failed, h₁.failed]
  · rw [h₂.width, h₁.width]
  · rw [h₂.retWidth, h₁.retWidth]
  · refine h₂.returned.trans ?_
    rw [h₁.format]
    cases persist with
    | false => simpa using h₁.returned
    | true =>
      simp only [if_true, List.map_append] at *
      rw [← List.append_assoc]
      exact List.Perm.append_right _ h₁.returned

theorem exec_progress (N : NumOps) (persist : Bool) (sched : List Nat) (s : Run)
    (hp : s.sink.Healthy) (hw : ∀ r ∈ s.queues.flatten, Writable N s.sink.format r)
    (hlen : s.returned.length = s.queues.length) :
    ∃ t, Progress N persist s (s.exec N persist sched) t := by
  induction sched generalizing s with
  | nil => exact ⟨[], by constructor <;> simp [Run.exec, hp]⟩
  | cons w ws ih =>
    obtain ⟨t₁, h₁⟩ := step_progress N persist s w hp hw hlen
    have hw' : ∀ r ∈ (s.step N persist w).queues.flatten, Writable N (s.step N persist w).sink.format r := by
      intro r hr
      rw [h₁.format]
      exact hw r (h₁.queues.subset (List.mem_append_right _ hr))
    obtain ⟨t₂, h₂⟩ := ih (s.step N persist w) h₁.poisoned hw' (by rw [h₁.retWidth, h₁.width, hlen])
    exact ⟨t₁ ++ t₂, by simpa [Run.exec] using h₁.trans h₂⟩

/-! ### what each worker hands back, in order -/

/-- per worker: what it has handed back so far followed by what its remaining queue will give -/
def handBack (N : NumOps) (f : Format) (ret qs : List (List Json)) : List (List Json) :=
  List.zipWith (fun a q => a ++ q.map (postOf N f)) ret qs

theorem handBack_step (N : NumOps) (f : Format) (ret qs : List (List Json)) (w : Nat) (r : Json)
    (rest : List Json) (h : qs[w]? = some (r :: rest)) :
    handBack N f (pushAt ret w (postOf N f r)) (qs.set w rest) = handBack N f ret qs := by
  unfold handBack pushAt
  induction qs generalizing ret w with
  | nil => simp at h
  | cons q qs ih =>
    cases ret with
    | nil => simp
    | cons a ret =>
      cases w with
      | zero =>
        simp only [List.getElem?_cons_zero, Option.some.injEq] at h
        subst h
        simp
      | succ w =>
        simp only [List.getElem?_cons_succ] at h
        simp only [List.modify_succ_cons, List.set_cons_succ, List.zipWith_cons_cons, ih ret w h]

theorem step_handBack (N : NumOps) (s : Run) (w : Nat) (hp : s.sink.Healthy)
    (hw : ∀ r ∈ s.queues.flatten, Writable N s.sink.format r) :
    handBack N s.sink.format (s.step N true w).returned (s.step N true w).queues
      = handBack N s.sink.format s.returned s.queues := by
  unfold Run.step
  cases hq : s.queues[w]? with
  | none => rfl
  | some q =>
    cases q with
    | nil => rfl
    | cons r rest =>
      have hperm := flatten_set_perm s.queues w r rest hq
      have hmem : r ∈ s.queues.flatten := hperm.subset (List.mem_cons_self ..)
      obtain ⟨s', hs', _⟩ := write_ok_of_writable N s.sink r hp (hw r hmem)
      simp only [hs', if_true]
      exact handBack_step N s.sink.format s.returned s.queues w r rest hq

theorem exec_handBack (N : NumOps) (sched : List Nat) (s : Run) (hp : s.sink.Healthy)
    (hw : ∀ r ∈ s.queues.flatten, Writable N s.sink.format r) (hlen : s.returned.length = s.queues.length) :
    handBack N s.sink.format (s.exec N true sched).returned (s.exec N true sched).queues
      = handBack N s.sink.format s.returned s.queues := by
  induction sched generalizing s with
  | nil => rfl
  | cons w ws ih =>
    obtain ⟨t₁, h₁⟩ := step_progress N true s w hp hw hlen
    have hw' : ∀ r ∈ (s.step N true w).queues.flatten, Writable N (s.step N true w).sink.format r := by
      intro r hr
      rw [h₁.format]
      exact hw r (h₁.queues.subset (List.mem_append_right _ hr))
    have := ih (s.step N true w) h₁.poisoned hw' (by rw [h₁.retWidth, h₁.width, hlen])
    rw [h₁.format] at this
    simp only [Run.exec, List.foldl_cons] at this ⊢
    rw [this]
    exact step_handBack N s w hp hw

theorem handBack_of_all_nil (N : NumOps) (f : Format) (ret qs : List (List Json))
    (hlen : ret.length = qs.length) (h : ∀ q ∈ qs, q = []) : handBack N f ret qs = ret := by
  unfold handBack
  induction qs generalizing ret with
  | nil => cases ret with
    | nil => rfl
    | cons a r => simp at hlen
  | cons q qs ih =>
    cases ret with
    | nil => simp at hlen
    | cons a ret =>
      have hq : q = [] := h q (List.mem_cons_self ..)
      subst hq
      simp only [List.zipWith_cons_cons, List.map_nil, List.append_nil]
      rw [ih ret (by simpa using hlen) (fun q' hq' => h q' (List.mem_cons_of_mem _ hq'))]

theorem handBack_init (N : NumOps) (f : Format) (qs : List (List Json)) :
    handBack N f (qs.map (fun _ => [])) qs = qs.map (fun q => q.map (postOf N f)) := by
  unfold handBack
  induction qs with
  | nil => rfl
  | cons q qs ih => simp only [List.map_cons, List.zipWith_cons_cons, List.nil_append, ih]

/-! ### the main thread's sequential writes, and schedules seen from the queues alone -/

theorem writeSeq_spec (N : NumOps) (rs : List Json) (s : FileSink) (hp : s.Healthy)
    (hw : ∀ r ∈ rs, Writable N s.format r) :
    ∃ s', writeSeq N s rs = some (s', rs.map (postOf N s.format)) ∧
      s'.file = s.file ++ rs.map (recordOf N s.format) ∧ s'.iterations = s.iterations + rs.length ∧
      s'.format = s.format ∧ s'.Healthy := by
  induction rs generalizing s with
  | nil => exact ⟨s, rfl, by simp, rfl, rfl, hp⟩
  | cons r rs ih =>
    obtain ⟨s₁, hs₁, hfile, hit, hfmt, hpo, _⟩ :=
      write_ok_of_writable N s r hp (hw r (List.mem_cons_self ..))
    obtain ⟨s₂, hs₂, hfile₂, hit₂, hfmt₂, hpo₂⟩ :=
      ih s₁ hpo (fun x hx => by rw [hfmt]; exact hw x (List.mem_cons_of_mem _ hx))
    refine ⟨s₂, ?_, ?_, ?_, by rw [hfmt₂, hfmt], hpo₂⟩
    · simp only [writeSeq, hs₁, hs₂, hfmt, List.map_cons]
    · rw [hfile₂, hfile, hfmt]; simp
    · rw [hit₂, hit]; simp; omega

/-- one scheduled step, seen from the queues alone -/
def drainStep (qs : List (List Json)) (w : Nat) : List (List Json) :=
  match qs[w]? with
  | some (_ :: rest) => qs.set w rest
  | _ => qs

/-- how a schedule empties the queues — the sink plays no part in it -/
def drain (queues : List (List Json)) (schedule : List Nat) : List (List Json) :=
  schedule.foldl drainStep queues

/-- the schedule lets every worker finish its queue -/
def Complete (queues : List (List Json)) (schedule : List Nat) : Prop :=
  (drain queues schedule).all List.isEmpty = true

theorem step_queues (N : NumOps) (persist : Bool) (s : Run) (w : Nat) :
    (s.step N persist w).queues = drainStep s.queues w := by
  unfold Run.step drainStep
  cases s.queues[w]? with
  | none => rfl
  | some q =>
    cases q with
    | nil => rfl
    | cons r rest => simp only; split <;> rfl

theorem exec_queues (N : NumOps) (persist : Bool) (sched : List Nat) (s : Run) :
    (s.exec N persist sched).queues = drain s.queues sched := by
  induction sched generalizing s with
  | nil => rfl
  | cons w ws ih =>
    simp only [Run.exec, List.foldl_cons, drain] at ih ⊢
    rw [ih (s.step N persist w), step_queues]

theorem done_of_complete (N : NumOps) (persist : Bool) (sink : FileSink) (queues : List (List Json))
    (schedule : List Nat) (h : Complete queues schedule) :
    ((Run.init sink queues).exec N persist schedule).done = true := by
  unfold Run.done
  rw [exec_queues]
  exact h

theorem done_flatten_nil (s : Run) (h : s.done = true) : s.queues.flatten = [] := by
  unfold Run.done at h
  rw [List.all_eq_true] at h
  apply List.flatten_eq_nil_iff.2
  intro l hl
  simpa using h l hl

/-! ### a record is one line -/

/-- a number lexeme: not empty, number characters only -/
def lexOk (l : String) : Bool := !l.toList.isEmpty && l.toList.all isNumChar

theorem lexOk_all (l : String) (h : lexOk l = true) : ∀ c ∈ l.toList, isNumChar c = true := by
  simp only [lexOk, Bool.and_eq_true] at h
  exact List.all_eq_true.1 h.2

mutual
/-- every number lexeme inside the value consists of number characters -/
def numsOk : Json → Bool
  | .num l _ => lexOk l
  | .arr xs => numsOkList xs
  | .obj kvs => numsOkKvs kvs
  | _ => true
def numsOkList : List Json → Bool
  | [] => true
  | x :: xs => numsOk x && numsOkList xs
def numsOkKvs : List (String × Json) → Bool
  | [] => true
  | (_, v) :: r => numsOk v && numsOkKvs r
end

theorem hexDigit_mem (n : Nat) : hexDigit n ∈ hexChars := by
  unfold hexDigit
  rw [List.getD_eq_getElem?_getD]
  cases h : hexChars[n]? with
  | none => simp [hexChars]
  | some c => simpa using List.mem_of_getElem? h

theorem hexDigit_ne_newline (n : Nat) : hexDigit n ≠ '\n' := by
  intro h
  have := hexDigit_mem n
  rw [h] at this
  revert this
  decide

theorem escapeChar_no_newline (c : Char) : '\n' ∉ escapeChar c := by
  unfold escapeChar
  have h1 := hexDigit_ne_newline (c.toNat / 16)
  have h2 := hexDigit_ne_newline (c.toNat % 16)
  repeat' split
  all_goals simp_all
  · exact ⟨fun h => h1 h.symm, fun h => h2 h.symm⟩
  · intro h; exact absurd h.symm ‹¬c = '\n'›

theorem escapeChars_no_newline (cs : List Char) : '\n' ∉ escapeChars cs := by
  induction cs with
  | nil => simp [escapeChars]
  | cons c cs ih =>
    simp only [escapeChars, List.mem_append, not_or]
    exact ⟨escapeChar_no_newline c, ih⟩

theorem quoteStr_no_newline (s : String) : '\n' ∉ quoteStr s := by
  unfold quoteStr
  simp only [List.mem_cons, List.mem_append, not_or]
  exact ⟨by decide, escapeChars_no_newline _, by decide, by simp⟩

theorem joinWith_not_mem (c : Char) (sep : List Char) (ts : List (List Char)) (hs : c ∉ sep)
    (ht : ∀ t ∈ ts, c ∉ t) : c ∉ joinWith sep ts := by
  induction ts with
  | nil => simp [joinWith]
  | cons x r ih =>
    cases r with
    | nil => simpa [joinWith] using ht x (List.mem_cons_self ..)
    | cons y r' =>
      simp only [joinWith, List.mem_append, not_or]
      exact ⟨⟨ht x (List.mem_cons_self ..), hs⟩, ih (fun t h => ht t (List.mem_cons_of_mem _ h))⟩

theorem lexOk_no_newline (l : String) (h : lexOk l = true) : '\n' ∉ l.toList := by
  intro hm
  have := lexOk_all l h _ hm
  revert this
  decide

mutual
theorem compact_no_newline : ∀ j : Json, numsOk j = true → '\n' ∉ compact j
  | .null, _ => by simp [compact, txt]
  | .bool true, _ => by simp [compact, txt]
  | .bool false, _ => by simp [compact, txt]
  | .num l _, h => by
    simp only [compact]
    exact lexOk_no_newline l (by simpa [numsOk] using h)
  | .str s, _ => by simpa [compact] using quoteStr_no_newline s
  | .arr xs, h => by
    simp only [compact, List.mem_cons, List.mem_append, not_or]
    refine ⟨by decide, joinWith_not_mem _ _ _ (by decide) (compactList_no_newline xs (by simpa [numsOk] using h)), by decide, by simp⟩
  | .obj kvs, h => by
    simp only [compact, List.mem_cons, List.mem_append, not_or]
    refine ⟨by decide, joinWith_not_mem _ _ _ (by decide) (compactKvs_no_newline kvs (by simpa [numsOk] using h)), by decide, by simp⟩
theorem compactList_no_newline : ∀ xs : List Json, numsOkList xs = true → ∀ t ∈ compactList xs, '\n' ∉ t
  | [], _ => by simp [compactList]
  | x :: xs, h => by
    simp only [numsOkList, Bool.and_eq_true] at h
    intro t ht
    simp only [compactList, List.mem_cons] at ht
    cases ht with
    | inl e => rw [e]; exact compact_no_newline x h.1
    | inr e => exact compactList_no_newline xs h.2 t e
theorem compactKvs_no_newline : ∀ kvs : List (String × Json), numsOkKvs kvs = true → ∀ t ∈ compactKvs kvs, '\n' ∉ t
  | [], _ => by simp [compactKvs]
  | (k, v) :: r, h => by
    simp only [numsOkKvs, Bool.and_eq_true] at h
    intro t ht
    simp only [compactKvs, List.mem_cons] at ht
    cases ht with
    | inl e =>
      rw [e]
      simp only [List.mem_append, List.mem_cons, not_or]
      exact ⟨quoteStr_no_newline k, by decide, compact_no_newline v h.1⟩
    | inr e => exact compactKvs_no_newline r h.2 t e
end

theorem numsOk_lookup (kvs : List (String × Json)) (k : String) (v : Json)
    (h : numsOkKvs kvs = true) (hl : Json.lookup kvs k = some v) : numsOk v = true := by
  unfold Json.lookup at hl
  induction kvs with
  | nil => simp at hl
  | cons p ps ih =>
    obtain ⟨k', v'⟩ := p
    simp only [numsOkKvs, Bool.and_eq_true] at h
    simp only [List.find?_cons] at hl
    cases hk : (k' == k) with
    | true => simp [hk] at hl; rw [← hl]; exact h.1
    | false => simp only [hk] at hl; exact ih h.2 hl

theorem numsOk_traverse (ks : List String) (j v : Json) (h : numsOk j = true)
    (ht : traverse j ks = some v) : numsOk v = true := by
  induction ks generalizing j with
  | nil => simp [traverse] at ht; rw [← ht]; exact h
  | cons k ks ih =>
    simp only [traverse] at ht
    split at ht
    · simp at ht
    · rename_i c hc
      refine ih c ?_ ht
      cases j with
      | obj kvs => exact numsOk_lookup kvs k c (by simpa [numsOk] using h) (by simpa [Json.get?] using hc)
      | _ => simp [Json.get?] at hc

/-- the number printer only prints number characters (third-party: `zmij`/`ryu` behind `serde_json`) -/
def NumOps.FmtOk (N : NumOps) : Prop := ∀ b, lexOk (N.fmt b) = true

theorem numsOk_number (N : NumOps) (h : N.FmtOk) (b : Nat) : numsOk (N.number b) = true := by
  unfold NumOps.number
  split
  · simpa [numsOk] using h b
  · rfl

theorem numsOk_apply (N : NumOps) (hN : N.FmtOk) : ∀ (m : CsvMapping) (j v : Json), numsOk j = true →
    m.apply N j = some v → numsOk v = true
  | .path p, j, v, h, ha => by
    simp only [CsvMapping.apply] at ha
    exact numsOk_traverse _ j v h ha
  | .sum ms, j, v, _, ha => by
    simp only [CsvMapping.apply] at ha
    split at ha
    · simp at ha
    · split at ha
      · simp at ha
      · simp only [Option.some.injEq] at ha
        rw [← ha]
        exact numsOk_number N hN _
  | .optional m, j, v, h, ha => by
    simp only [CsvMapping.apply] at ha
    split at ha
    · rename_i v' hv'
      simp only [Option.some.injEq] at ha
      rw [← ha]
      exact numsOk_apply N hN m j v' h hv'
    · simp only [Option.some.injEq] at ha
      rw [← ha]; rfl

end Sink
end Compass
