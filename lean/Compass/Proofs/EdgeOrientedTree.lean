/-
Trees returned by the edge-oriented wrapper `search_algorithm::run_edge_oriented` (C01).

* destination-less: the inner tree plus the origin edge's entry stored under the origin edge's head
  `e1.dst`.  That vertex is the root — recognised as "the origin edge's head", not as "the vertex
  without entry": following parents from any other entry reaches it without visiting a vertex twice;
* destination given, edges not adjacent: the inner tree, unchanged, rooted at `e1.dst` (which has no
  entry); neither the origin nor the destination edge is in it;
* destination given, adjacent edges: the two-entry map `{e2.dst ↦ b2, e1.dst ↦ b1}`, the later pair
  winning on equal keys.
-/
import Compass.Proofs.SearchRoute

namespace Compass
namespace EdgeOrientedTree

set_option linter.unusedSectionVars false

open SearchTree (parent TreeInv)

variable {α : Type} [Field α] [LinearOrder α] [IsStrictOrderedRing α] [Lit α] [LawfulLit α]

/-- storing an entry under `root` does not change the parent iterates of a vertex as long as they
stay away from `root` -/
theorem iterate_parent_upd {sol : Nat → Option (Branch α)} {root : Nat} {o : Branch α} {v : Nat} :
    ∀ n, (∀ i, i < n → (parent sol)^[i] v ≠ root) →
      (parent (upd sol root o))^[n] v = (parent sol)^[n] v
  | 0, _ => rfl
  | n + 1, h => by
    rw [Function.iterate_succ_apply', Function.iterate_succ_apply',
      iterate_parent_upd n (fun i hi => h i (Nat.lt_succ_of_lt hi))]
    have hx := h n (Nat.lt_succ_self n)
    generalize (parent sol)^[n] v = x at hx
    simp only [parent, SearchTree.upd_other _ _ _ hx]

/-- **destination-less edge-oriented search, rootedness**: the single returned tree stores the origin
edge's entry under the origin edge's head `e1.dst`; every other entry joins its parent to its vertex
by an edge listed at the parent, and following parents from it reaches `e1.dst` after `n ≥ 1` steps
without visiting a vertex twice.  (Either direction; the joins are in search direction.) -/
theorem runEdge_none_tree_rooted (c : Config α) (hadj : c.AdjConsistent) (source : Nat)
    (sched : List Nat) (r : AlgResult α) (e1 : EdgeRec α) (h1 : c.edges[source]? = some e1)
    (h : c.runEdge source none sched = .ok r) :
    ∃ tree, r.trees = [tree] ∧ tree e1.dst = some (SearchRoute.originBranch c source e1) ∧
      ∀ v b, v ≠ e1.dst → tree v = some b →
        (c.inst.keyV b.edge = v ∧ c.inst.termV b.edge = b.terminal ∧
          b.edge ∈ c.inst.incident b.terminal) ∧
        ∃ n, 0 < n ∧ (parent tree)^[n] v = e1.dst ∧
          ∀ i j, i < j → j ≤ n → (parent tree)^[i] v ≠ (parent tree)^[j] v := by
  obtain ⟨res, hres, _, _, _, htrees⟩ := SearchRoute.runEdge_none c source sched r e1 h1 h
  obtain ⟨_, hinv⟩ := SearchTree.runVertexOriented_tree (c.inst_wf hadj) e1.dst sched res hres
  rw [hinv.sol_source] at htrees
  simp only at htrees
  refine ⟨_, htrees, SearchTree.upd_same _ _ _, ?_⟩
  intro v b hv hb
  rw [SearchTree.upd_other _ _ _ hv] at hb
  obtain ⟨hk, ht, hinc, _⟩ := hinv.entry v b hb
  refine ⟨⟨hk, ht, hinc⟩, ?_⟩
  obtain ⟨n, hn0, _, hsrc, hpass, _, hne⟩ := SearchTree.tree_rooted hinv (v := v) (by simp [hb])
  have hagree : ∀ m, m ≤ n →
      (parent (upd res.final.sol e1.dst (SearchRoute.originBranch c source e1)))^[m] v
        = (parent res.final.sol)^[m] v :=
    fun m hm => iterate_parent_upd m (fun i hi => (hpass i (by omega)).1)
  refine ⟨n, hn0, by rw [hagree n (le_refl _)]; exact hsrc, ?_⟩
  intro i j hij hj
  rw [hagree i (by omega), hagree j hj]
  exact hne i j hij hj

/-- **destination given, origin and destination edges not adjacent**: the returned tree is the tree
of the vertex-oriented search from the origin edge's head `e1.dst` to the destination edge's tail,
unchanged: `e1.dst` has no entry, every entry joins its parent to its vertex by an edge listed at
the parent, and following parents reaches `e1.dst` without visiting a vertex twice.  (Either
direction.) -/
theorem runEdge_nonadjacent_tree_rooted (c : Config α) (hadj : c.AdjConsistent)
    (source tgt : Nat) (sched : List Nat) (r : AlgResult α) (e1 e2 : EdgeRec α)
    (h1 : c.edges[source]? = some e1) (h2 : c.edges[tgt]? = some e2) (hne : source ≠ tgt)
    (hnadj : e1.dst ≠ e2.src) (h : c.runEdge source (some tgt) sched = .ok r) :
    ∃ tree, r.trees = [tree] ∧ tree e1.dst = none ∧
      ∀ v b, tree v = some b →
        (c.inst.keyV b.edge = v ∧ c.inst.termV b.edge = b.terminal ∧
          b.edge ∈ c.inst.incident b.terminal) ∧
        ∃ n, 0 < n ∧ (parent tree)^[n] v = e1.dst ∧
          ∀ i j, i < j → j ≤ n → (parent tree)^[i] v ≠ (parent tree)^[j] v := by
  obtain ⟨res, _, _, hres, _, _, htrees, _, _⟩ :=
    SearchRoute.runEdge_nonadjacent c source tgt sched r e1 e2 h1 h2 hne hnadj h
  obtain ⟨hinv, _⟩ := SearchTree.runVertexOriented_route (c.inst_wf hadj) e1.dst e2.src sched res
    (fun h => hnadj h.symm) hres
  refine ⟨_, htrees, hinv.sol_source, ?_⟩
  intro v b hb
  obtain ⟨hk, ht, hinc, _⟩ := hinv.entry v b hb
  obtain ⟨n, hn0, _, hsrc, _, _, hne'⟩ := SearchTree.tree_rooted hinv (v := v) (by simp [hb])
  exact ⟨⟨hk, ht, hinc⟩, n, hn0, hsrc, hne'⟩

/-- **destination given, adjacent edges** (`e1.dst = e2.src`), forward direction: exactly what the
two-entry tree holds.  The origin edge's entry `b1` sits under the origin edge's head; the
destination edge's entry `b2` sits under the destination edge's head *unless the two heads coincide*
(then `b1` has overwritten it); nothing else is in the tree; both entries join `terminal` to the
vertex they are stored under, and `b2`'s parent is the origin edge's head. -/
theorem runEdge_adjacent_tree (c : Config α) (hfwd : c.reverse = false)
    (source tgt : Nat) (sched : List Nat) (r : AlgResult α) (e1 e2 : EdgeRec α)
    (h1 : c.edges[source]? = some e1) (h2 : c.edges[tgt]? = some e2) (hne : source ≠ tgt)
    (hadj' : e1.dst = e2.src) (h : c.runEdge source (some tgt) sched = .ok r) :
    ∃ (tree : Nat → Option (Branch α)) (b1 b2 : Branch α), r.trees = [tree] ∧ r.routes = [[b1, b2]] ∧
      b1.edge = source ∧ b1.terminal = e1.src ∧ b2.edge = tgt ∧ b2.terminal = e1.dst ∧
      c.inst.keyV b1.edge = e1.dst ∧ c.inst.termV b1.edge = b1.terminal ∧
      c.inst.keyV b2.edge = e2.dst ∧ c.inst.termV b2.edge = b2.terminal ∧
      tree e1.dst = some b1 ∧
      (e2.dst ≠ e1.dst → tree e2.dst = some b2) ∧
      (e2.dst = e1.dst → ∀ v b, tree v = some b → b.edge ≠ tgt) ∧
      (∀ v, v ≠ e1.dst → v ≠ e2.dst → tree v = none) := by
  obtain ⟨b1, b2, hroutes, _, htrees, hb1, ht1, hb2, ht2, _, _, _, _, _, hj1, hj2⟩ :=
    SearchRoute.runEdge_adjacent_walk c hfwd source tgt sched r e1 e2 h1 h2 hne hadj' h
  refine ⟨_, b1, b2, htrees, hroutes, hb1, ht1, hb2, by rw [ht2, hadj'], ?_, hj1, ?_, hj2,
    SearchTree.upd_same _ _ _, ?_, ?_, ?_⟩
  · rw [hb1]; exact SearchRoute.inst_keyV_fwd hfwd h1
  · rw [hb2]; exact SearchRoute.inst_keyV_fwd hfwd h2
  · intro hd
    rw [SearchTree.upd_other _ _ _ hd, SearchTree.upd_same]
  · intro hd v b hb
    by_cases hv : v = e1.dst
    · subst hv
      rw [SearchTree.upd_same] at hb
      cases hb
      rw [hb1]; exact hne
    · rw [SearchTree.upd_other _ _ _ hv] at hb
      have hv' : v ≠ e2.dst := by rw [hd]; exact hv
      rw [SearchTree.upd_other _ _ _ hv'] at hb
      cases hb
  · intro v hv1 hv2
    rw [SearchTree.upd_other _ _ _ hv1, SearchTree.upd_other _ _ _ hv2]

end EdgeOrientedTree
end Compass
