/-
Refinement of `CompactOrderedHashMap` (Model/Container.lean) to an insertion-ordered association list.

* `Spec.insert` / `List.lookup` / positions of the list are the specification;
* `abs : Container K V → List (K × V)` is the abstraction function, `Inv` the representation invariant
  (keys pairwise distinct; in the `NEntries` representation the stored indices are a permutation of
  `0 … len-1`);
* every accessor of the container agrees with the association list under `Inv`, `insert` preserves
  `Inv` and commutes with `abs`, and `empty`, `new` (distinct keys), `from_iter` establish `Inv`.
-/
import Compass.Model.Container
import Mathlib.Data.List.Basic
import Mathlib.Data.List.Nodup
import Mathlib.Data.List.Perm.Basic
import Mathlib.Data.List.Range
import Mathlib.Tactic.SplitIfs

namespace Compass

open List

set_option linter.unusedSectionVars false
set_option linter.unnecessarySimpa false

/-! ### `HashMap` as an association list -/

namespace HMap
variable {K W : Type} [DecidableEq K]

theorem get_eq_none_iff {m : HMap K W} {k : K} : get m k = none ↔ k ∉ m.map (·.1) := by
  induction m with
  | nil => simp [get]
  | cons e r ih =>
    obtain ⟨k', w⟩ := e
    simp only [get, map_cons, mem_cons, not_or]
    split_ifs with h
    · subst h; simp
    · simp [ih, Ne.symm h]

theorem mem_of_get_eq_some {m : HMap K W} {k : K} {w : W} (h : get m k = some w) : (k, w) ∈ m := by
  induction m with
  | nil => simp [get] at h
  | cons e r ih =>
    obtain ⟨k', w'⟩ := e
    simp only [get] at h
    split_ifs at h with hk
    · subst hk; simp only [Option.some.injEq] at h; subst h; simp
    · exact mem_cons_of_mem _ (ih h)

theorem get_eq_some_of_mem {m : HMap K W} {k : K} {w : W} (nd : (m.map (·.1)).Nodup)
    (h : (k, w) ∈ m) : get m k = some w := by
  induction m with
  | nil => simp at h
  | cons e r ih =>
    obtain ⟨k', w'⟩ := e
    simp only [map_cons, nodup_cons] at nd
    simp only [get]
    rcases mem_cons.mp h with h | h
    · injection h with h1 h2; subst h1; subst h2; simp
    · have : k' ≠ k := by
        intro hk; subst hk
        exact nd.1 (mem_map.mpr ⟨(k', w), h, rfl⟩)
      simp [this, ih nd.2 h]

theorem get_eq_some_iff {m : HMap K W} {k : K} {w : W} (nd : (m.map (·.1)).Nodup) :
    get m k = some w ↔ (k, w) ∈ m :=
  ⟨mem_of_get_eq_some, get_eq_some_of_mem nd⟩

/-- `HashMap::get` does not depend on the (unspecified) order of the entries -/
theorem get_perm {m s : HMap K W} (nd : (m.map (·.1)).Nodup) (p : s ~ m) (k : K) :
    get s k = get m k := by
  have nds : (s.map (·.1)).Nodup := (p.map _).nodup_iff.mpr nd
  cases h : get m k with
  | none =>
    rw [get_eq_none_iff] at h ⊢
    intro hk; exact h ((p.map _).mem_iff.mp hk)
  | some w =>
    rw [get_eq_some_iff nd] at h
    rw [get_eq_some_iff nds]
    exact p.mem_iff.mpr h

theorem put_of_not_mem {m : HMap K W} {k : K} (w : W) (h : k ∉ m.map (·.1)) :
    put m k w = m ++ [(k, w)] := by
  induction m with
  | nil => simp [put]
  | cons e r ih =>
    obtain ⟨k', w'⟩ := e
    simp only [map_cons, mem_cons, not_or] at h
    simp [put, Ne.symm h.1, ih h.2]

theorem put_of_mem {m : HMap K W} {k : K} (w : W) (nd : (m.map (·.1)).Nodup)
    (h : k ∈ m.map (·.1)) :
    put m k w = m.map (fun e => if e.1 = k then (e.1, w) else e) := by
  induction m with
  | nil => simp at h
  | cons e r ih =>
    obtain ⟨k', w'⟩ := e
    simp only [map_cons, nodup_cons] at nd
    simp only [put, map_cons]
    split_ifs with hk
    · subst hk
      have : r.map (fun e => if e.1 = k' then (e.1, w) else e) = r := by
        conv_rhs => rw [← List.map_id r]
        apply List.map_congr_left
        intro e he
        have : e.1 ≠ k' := fun h => nd.1 (h ▸ mem_map.mpr ⟨e, he, rfl⟩)
        simp [this]
      simp [this]
    · simp only [map_cons, mem_cons] at h
      rcases h with h | h
      · exact absurd h.symm hk
      · rw [ih nd.2 h]

theorem foldl_put_of_nodup (acc l : HMap K W) (nd : ((acc ++ l).map (·.1)).Nodup) :
    l.foldl (fun m e => put m e.1 e.2) acc = acc ++ l := by
  induction l generalizing acc with
  | nil => simp
  | cons e r ih =>
    have hk : e.1 ∉ acc.map (·.1) := by
      simp only [map_append, map_cons] at nd
      have := (nodup_append.mp nd).2.2
      intro h
      exact this _ h _ (mem_cons_self) rfl
    simp only [foldl_cons, put_of_not_mem _ hk]
    rw [ih]
    · simp
    · simpa using nd

/-- collecting pairs with pairwise distinct keys yields exactly those pairs -/
theorem ofList_of_nodup (l : List (K × W)) (nd : (l.map (·.1)).Nodup) : ofList l = l := by
  have := foldl_put_of_nodup [] l (by simpa using nd)
  simpa [ofList] using this

end HMap

/-! ### stable sort by stored index -/

section sort
variable {K V : Type}

/-- "sorted by stored index" -/
abbrev IdxLe (a b : K × IndexedEntry V) : Prop := a.2.index ≤ b.2.index
abbrev IdxLt (a b : K × IndexedEntry V) : Prop := a.2.index < b.2.index

theorem insertByIndex_perm (e : K × IndexedEntry V) (l : List (K × IndexedEntry V)) :
    insertByIndex e l ~ e :: l := by
  induction l with
  | nil => simp [insertByIndex]
  | cons y r ih =>
    simp only [insertByIndex]
    split_ifs
    · exact Perm.refl _
    · exact (ih.cons y).trans (Perm.swap e y r)

theorem sortByIndex_perm (l : List (K × IndexedEntry V)) : sortByIndex l ~ l := by
  induction l with
  | nil => simp [sortByIndex]
  | cons e r ih =>
    have : sortByIndex (e :: r) = insertByIndex e (sortByIndex r) := rfl
    rw [this]
    exact (insertByIndex_perm e _).trans (ih.cons e)

theorem insertByIndex_sorted (e : K × IndexedEntry V) (l : List (K × IndexedEntry V))
    (h : l.Pairwise IdxLe) : (insertByIndex e l).Pairwise IdxLe := by
  induction l with
  | nil => simp [insertByIndex]
  | cons y r ih =>
    simp only [insertByIndex]
    rw [pairwise_cons] at h
    split_ifs with hle
    · refine pairwise_cons.mpr ⟨?_, pairwise_cons.mpr h⟩
      intro b hb
      rcases mem_cons.mp hb with rfl | hb
      · exact hle
      · exact Nat.le_trans hle (h.1 b hb)
    · refine pairwise_cons.mpr ⟨?_, ih h.2⟩
      intro b hb
      rcases mem_cons.mp ((insertByIndex_perm e r).mem_iff.mp hb) with rfl | hb
      · show y.2.index ≤ b.2.index
        omega
      · exact h.1 b hb

theorem sortByIndex_sorted (l : List (K × IndexedEntry V)) : (sortByIndex l).Pairwise IdxLe := by
  induction l with
  | nil => simp [sortByIndex]
  | cons e r ih => exact insertByIndex_sorted e _ ih

/-- the sort is determined by its specification when stored indices are pairwise distinct: any
    permutation of `m` that is strictly increasing in the stored index is `sortByIndex m` -/
theorem sortByIndex_eq_of_perm_sorted {m s : List (K × IndexedEntry V)} (p : s ~ m)
    (hs : s.Pairwise IdxLt) : sortByIndex m = s := by
  have ps : sortByIndex m ~ s := (sortByIndex_perm m).trans p.symm
  have inj : ∀ a ∈ s, ∀ b ∈ s, a.2.index = b.2.index → a = b := by
    have nd : (s.map (fun e => e.2.index)).Nodup := by
      rw [Nodup, pairwise_map]
      exact hs.imp (fun h => Nat.ne_of_lt h)
    exact inj_on_of_nodup_map nd
  refine Perm.eq_of_pairwise (le := IdxLe) ?_ (sortByIndex_sorted m) (hs.imp (fun h => Nat.le_of_lt h)) ps
  intro a b ha hb h1 h2
  exact inj a (ps.mem_iff.mp ha) b hb (Nat.le_antisymm h1 h2)

end sort

/-! ### specification: insertion-ordered association list -/

namespace Spec
variable {K V : Type} [DecidableEq K]

/-- insert into an insertion-ordered association list: overwrite in place, or append at the end -/
def insert : List (K × V) → K → V → List (K × V)
  | [], k, v => [(k, v)]
  | (k', v') :: r, k, v => if k' = k then (k', v) :: r else (k', v') :: insert r k v

/-- value stored at a key -/
def get : List (K × V) → K → Option V
  | [], _ => none
  | (k', v') :: r, k => if k' = k then some v' else get r k

/-- position of a key -/
def indexOf : List (K × V) → K → Option Nat
  | [], _ => none
  | (k', _) :: r, k => if k' = k then some 0 else (indexOf r k).map (· + 1)

/-- a whole history of inserts -/
def insertAll (l : List (K × V)) (ops : List (K × V)) : List (K × V) :=
  ops.foldl (fun l e => insert l e.1 e.2) l

theorem insert_of_not_mem {l : List (K × V)} {k : K} (v : V) (h : k ∉ l.map (·.1)) :
    insert l k v = l ++ [(k, v)] := by
  induction l with
  | nil => simp [insert]
  | cons e r ih =>
    obtain ⟨k', v'⟩ := e
    simp only [map_cons, mem_cons, not_or] at h
    simp [insert, Ne.symm h.1, ih h.2]

theorem keys_insert_of_mem {l : List (K × V)} {k : K} (v : V) (h : k ∈ l.map (·.1)) :
    (insert l k v).map (·.1) = l.map (·.1) := by
  induction l with
  | nil => simp at h
  | cons e r ih =>
    obtain ⟨k', v'⟩ := e
    simp only [insert]
    split_ifs with hk
    · simp
    · simp only [map_cons, mem_cons] at h
      rcases h with h | h
      · exact absurd h.symm hk
      · simp [ih h]

theorem length_insert_of_mem {l : List (K × V)} {k : K} (v : V) (h : k ∈ l.map (·.1)) :
    (insert l k v).length = l.length := by
  have := congrArg List.length (keys_insert_of_mem v h)
  simpa using this

theorem get_insert_self (l : List (K × V)) (k : K) (v : V) : get (insert l k v) k = some v := by
  induction l with
  | nil => simp [insert, get]
  | cons e r ih =>
    obtain ⟨k', v'⟩ := e
    simp only [insert]
    split_ifs with hk
    · simp [get, hk]
    · simp [get, hk, ih]

theorem get_insert_of_ne (l : List (K × V)) {k k₂ : K} (v : V) (h : k₂ ≠ k) :
    get (insert l k v) k₂ = get l k₂ := by
  induction l with
  | nil => simp [insert, get, Ne.symm h]
  | cons e r ih =>
    obtain ⟨k', v'⟩ := e
    simp only [insert]
    split_ifs with hk
    · subst hk; simp [get, Ne.symm h]
    · simp only [get, ih]

theorem indexOf_insert_of_mem (l : List (K × V)) {k : K} (k₂ : K) (v : V) (h : k ∈ l.map (·.1)) :
    indexOf (insert l k v) k₂ = indexOf l k₂ := by
  induction l with
  | nil => simp at h
  | cons e r ih =>
    obtain ⟨k', v'⟩ := e
    simp only [insert]
    split_ifs with hk
    · simp [indexOf]
    · simp only [map_cons, mem_cons] at h
      rcases h with h | h
      · exact absurd h.symm hk
      · simp only [indexOf, ih h]

theorem get_eq_none_iff {l : List (K × V)} {k : K} : get l k = none ↔ k ∉ l.map (·.1) := by
  induction l with
  | nil => simp [get]
  | cons e r ih =>
    obtain ⟨k', w⟩ := e
    simp only [get, map_cons, mem_cons, not_or]
    split_ifs with h
    · subst h; simp
    · simp [ih, Ne.symm h]

theorem indexOf_eq_none_iff {l : List (K × V)} {k : K} : indexOf l k = none ↔ k ∉ l.map (·.1) := by
  induction l with
  | nil => simp [indexOf]
  | cons e r ih =>
    obtain ⟨k', w⟩ := e
    simp only [indexOf, map_cons, mem_cons, not_or]
    split_ifs with h
    · subst h; simp
    · simp [ih, Ne.symm h]

/-- `indexOf` really is the position: the key sits at that position of the list -/
theorem indexOf_eq_some {l : List (K × V)} {k : K} {i : Nat} (h : indexOf l k = some i) :
    (l.map (·.1))[i]? = some k := by
  induction l generalizing i with
  | nil => simp [indexOf] at h
  | cons e r ih =>
    obtain ⟨k', w⟩ := e
    simp only [indexOf] at h
    split_ifs at h with hk
    · simp only [Option.some.injEq] at h; subst h; simp [hk]
    · cases hr : indexOf r k with
      | none => simp [hr] at h
      | some j =>
        simp only [hr, Option.map_some, Option.some.injEq] at h
        subst h
        simpa using ih hr

/-- with distinct keys, the position of the key at position `i` is `i` -/
theorem indexOf_of_getElem {l : List (K × V)} (nd : (l.map (·.1)).Nodup) {k : K} {i : Nat}
    (h : (l.map (·.1))[i]? = some k) : indexOf l k = some i := by
  induction l generalizing i with
  | nil => simp at h
  | cons e r ih =>
    obtain ⟨k', w⟩ := e
    simp only [map_cons, nodup_cons] at nd
    simp only [indexOf]
    cases i with
    | zero => simp at h; simp [h]
    | succ j =>
      simp only [map_cons, getElem?_cons_succ] at h
      have hm : k ∈ r.map (·.1) := mem_of_getElem? h
      have : k' ≠ k := fun hk => nd.1 (hk ▸ hm)
      simp [this, ih nd.2 h]

theorem insert_of_mem {l : List (K × V)} {k : K} (v : V) (nd : (l.map (·.1)).Nodup)
    (h : k ∈ l.map (·.1)) :
    insert l k v = l.map (fun e => if e.1 = k then (e.1, v) else e) := by
  induction l with
  | nil => simp at h
  | cons e r ih =>
    obtain ⟨k', v'⟩ := e
    simp only [map_cons, nodup_cons] at nd
    simp only [insert, map_cons]
    split_ifs with hk
    · subst hk
      have : r.map (fun e => if e.1 = k' then (e.1, v) else e) = r := by
        conv_rhs => rw [← List.map_id r]
        apply List.map_congr_left
        intro e he
        have : e.1 ≠ k' := fun h => nd.1 (h ▸ mem_map.mpr ⟨e, he, rfl⟩)
        simp [this]
      simp [this]
    · simp only [map_cons, mem_cons] at h
      rcases h with h | h
      · exact absurd h.symm hk
      · rw [ih nd.2 h]

end Spec

/-! ### abstraction function and representation invariant -/

namespace Container
variable {K V : Type} [DecidableEq K]

/-- forget the stored index -/
def kv (e : K × IndexedEntry V) : K × V := (e.1, e.2.v)

/-- the association list a container stands for: entries in order of stored index -/
def abs : Container K V → List (K × V)
  | .one k1 v1 => [(k1, v1)]
  | .two k1 k2 v1 v2 => [(k1, v1), (k2, v2)]
  | .three k1 k2 k3 v1 v2 v3 => [(k1, v1), (k2, v2), (k3, v3)]
  | .four k1 k2 k3 k4 v1 v2 v3 v4 => [(k1, v1), (k2, v2), (k3, v3), (k4, v4)]
  | .n m => (sortByIndex m).map kv

/-- representation invariant: keys pairwise distinct; in the `HashMap` representation the stored
    indices are exactly `0 … len-1` (a permutation of `range len`) -/
def Inv : Container K V → Prop
  | .one _ _ => True
  | .two k1 k2 _ _ => [k1, k2].Nodup
  | .three k1 k2 k3 _ _ _ => [k1, k2, k3].Nodup
  | .four k1 k2 k3 k4 _ _ _ _ => [k1, k2, k3, k4].Nodup
  | .n m => (m.map (·.1)).Nodup ∧ m.map (·.2.index) ~ List.range m.length

instance (c : Container K V) : Decidable (Inv c) :=
  match c with
  | .one _ _ => inferInstanceAs (Decidable True)
  | .two k1 k2 _ _ => inferInstanceAs (Decidable ([k1, k2].Nodup))
  | .three k1 k2 k3 _ _ _ => inferInstanceAs (Decidable ([k1, k2, k3].Nodup))
  | .four k1 k2 k3 k4 _ _ _ _ => inferInstanceAs (Decidable ([k1, k2, k3, k4].Nodup))
  | .n m => inferInstanceAs (Decidable ((m.map (·.1)).Nodup ∧ m.map (·.2.index) ~ List.range m.length))

/-- `s` is `m` arranged by stored index, and the stored indices are `0, 1, …` -/
structure SortedForm (m s : HMap K (IndexedEntry V)) : Prop where
  perm : s ~ m
  idx : s.map (·.2.index) = List.range s.length

namespace SortedForm
variable {m s : HMap K (IndexedEntry V)}

theorem sorted (h : SortedForm m s) : s.Pairwise IdxLt := by
  have := pairwise_lt_range (n := s.length)
  rw [← h.idx, pairwise_map] at this
  exact this

theorem sort_eq (h : SortedForm m s) : sortByIndex m = s :=
  sortByIndex_eq_of_perm_sorted h.perm h.sorted

theorem length_eq (h : SortedForm m s) : s.length = m.length := h.perm.length_eq

theorem index_getElem (h : SortedForm m s) (i : Nat) (hi : i < s.length) : (s[i]).2.index = i := by
  have := congrArg (fun l => l[i]?) h.idx
  simp only [getElem?_map, getElem?_range hi, getElem?_eq_getElem hi, Option.map_some,
    Option.some.injEq] at this
  exact this

theorem index_lt (h : SortedForm m s) {e : K × IndexedEntry V} (he : e ∈ m) : e.2.index < m.length := by
  have hs : e ∈ s := h.perm.mem_iff.mpr he
  have : e.2.index ∈ s.map (·.2.index) := mem_map.mpr ⟨e, hs, rfl⟩
  rw [h.idx, mem_range, h.length_eq] at this
  exact this

theorem inj (h : SortedForm m s) {a b : K × IndexedEntry V} (ha : a ∈ m) (hb : b ∈ m)
    (hab : a.2.index = b.2.index) : a = b := by
  have nd : (s.map (fun e => e.2.index)).Nodup := by rw [h.idx]; exact nodup_range
  exact inj_on_of_nodup_map nd (h.perm.mem_iff.mpr ha) (h.perm.mem_iff.mpr hb) hab

theorem keys_nodup (h : SortedForm m s) (nd : (m.map (·.1)).Nodup) : (s.map (·.1)).Nodup :=
  (h.perm.map _).nodup_iff.mpr nd

end SortedForm

theorem sortedForm_of_inv {m : HMap K (IndexedEntry V)}
    (h : m.map (·.2.index) ~ List.range m.length) : SortedForm m (sortByIndex m) := by
  refine ⟨sortByIndex_perm m, ?_⟩
  have p : (sortByIndex m).map (·.2.index) ~ List.range m.length :=
    ((sortByIndex_perm m).map _).trans h
  have s1 : ((sortByIndex m).map (·.2.index)).Pairwise (· ≤ ·) := by
    rw [pairwise_map]; exact sortByIndex_sorted m
  rw [(sortByIndex_perm m).length_eq]
  exact Perm.eq_of_pairwise (le := (· ≤ ·)) (fun a b _ _ h1 h2 => Nat.le_antisymm h1 h2)
    s1 pairwise_le_range p

theorem inv_of_sortedForm {m s : HMap K (IndexedEntry V)} (nd : (m.map (·.1)).Nodup)
    (h : SortedForm m s) : Inv (.n m) := by
  refine ⟨nd, ?_⟩
  have := h.perm.map (·.2.index)
  rw [h.idx, h.length_eq] at this
  exact this.symm

theorem abs_n_of_sortedForm {m s : HMap K (IndexedEntry V)} (h : SortedForm m s) :
    abs (.n m) = s.map kv := by
  simp [abs, h.sort_eq]

theorem abs_keys_nodup {c : Container K V} (h : Inv c) : ((abs c).map (·.1)).Nodup := by
  cases c with
  | n m =>
    have sf := sortedForm_of_inv h.2
    have := sf.keys_nodup h.1
    simpa [abs, kv, Function.comp_def] using this
  | _ => simpa [abs, Inv] using h

/-! ### accessors agree with the association list -/

theorem len_abs {c : Container K V} (h : Inv c) : c.len = (abs c).length := by
  cases c with
  | n m => simp [len, abs, (sortByIndex_perm m).length_eq]
  | _ => simp [len, abs]

theorem isEmpty_abs {c : Container K V} (h : Inv c) : c.isEmpty = (abs c).isEmpty := by
  simp only [isEmpty, len_abs h]
  cases abs c <;> simp

theorem keys_abs (c : Container K V) : c.keys = (abs c).map (·.1) := by
  cases c <;> simp [keys, abs, kv, Function.comp_def]

theorem spec_get_map_kv (s : HMap K (IndexedEntry V)) (k : K) :
    Spec.get (s.map kv) k = (HMap.get s k).map (·.v) := by
  induction s with
  | nil => simp [Spec.get, HMap.get]
  | cons e r ih =>
    obtain ⟨k', w⟩ := e
    simp only [map_cons, kv, Spec.get, HMap.get]
    split_ifs <;> simp [ih]

theorem get_abs {c : Container K V} (h : Inv c) (k : K) : c.get k = Spec.get (abs c) k := by
  cases c with
  | n m =>
    have sf := sortedForm_of_inv h.2
    simp only [get, abs, spec_get_map_kv, HMap.get_perm h.1 sf.perm]
  | _ => simp [get, abs, Spec.get]

theorem containsKey_abs {c : Container K V} (h : Inv c) (k : K) :
    c.containsKey k = (Spec.get (abs c) k).isSome := by
  simp [containsKey, get_abs h]

theorem spec_indexOf_map_kv (s : HMap K (IndexedEntry V)) (k : K) (a : Nat)
    (hs : s.map (·.2.index) = List.range' a s.length) :
    (HMap.get s k).map (·.index) = (Spec.indexOf (s.map kv) k).map (· + a) := by
  induction s generalizing a with
  | nil => simp [Spec.indexOf, HMap.get]
  | cons e r ih =>
    obtain ⟨k', w⟩ := e
    simp only [map_cons, length_cons, range'_succ, cons.injEq] at hs
    simp only [map_cons, kv, Spec.indexOf, HMap.get]
    split_ifs with hk
    · simp [hs.1]
    · rw [ih (a + 1) hs.2]
      cases Spec.indexOf (map kv r) k with
      | none => simp
      | some j => simp; omega

theorem getIndex_abs {c : Container K V} (h : Inv c) (k : K) :
    c.getIndex k = Spec.indexOf (abs c) k := by
  cases c with
  | n m =>
    have sf := sortedForm_of_inv h.2
    have := spec_indexOf_map_kv (sortByIndex m) k 0 (by rw [sf.idx, range_eq_range'])
    simp only [getIndex, abs, ← HMap.get_perm h.1 sf.perm, this]
    cases Spec.indexOf (map kv (sortByIndex m)) k <;> simp
  | one k1 v1 =>
    simp only [getIndex, abs, Spec.indexOf, eq_comm (a := k)]
    split_ifs <;> rfl
  | two k1 k2 v1 v2 =>
    simp only [getIndex, abs, Spec.indexOf, eq_comm (a := k)]
    split_ifs <;> rfl
  | three k1 k2 k3 v1 v2 v3 =>
    simp only [getIndex, abs, Spec.indexOf, eq_comm (a := k)]
    split_ifs <;> rfl
  | four k1 k2 k3 k4 v1 v2 v3 v4 =>
    simp only [getIndex, abs, Spec.indexOf, eq_comm (a := k)]
    split_ifs <;> rfl

theorem find?_eq_some_of_unique {α : Type} {l : List α} {p : α → Bool} {e : α} (he : e ∈ l)
    (hp : p e = true) (u : ∀ a ∈ l, p a = true → a = e) : l.find? p = some e := by
  cases h : l.find? p with
  | none =>
    rw [find?_eq_none] at h
    exact absurd hp (h e he)
  | some e' =>
    have h1 := find?_some h
    have h2 := mem_of_find?_eq_some h
    rw [u e' h2 h1]

theorem getPair_abs {c : Container K V} (h : Inv c) (i : Nat) : c.getPair i = (abs c)[i]? := by
  cases c with
  | n m =>
    have sf := sortedForm_of_inv h.2
    simp only [getPair, abs]
    by_cases hi : i < m.length
    · have hi' : i < (sortByIndex m).length := by rw [sf.length_eq]; exact hi
      have hnot : ¬ i > m.length := by omega
      rw [if_neg hnot]
      have hf : m.find? (fun e => decide (e.2.index = i)) = some ((sortByIndex m)[i]) := by
        apply find?_eq_some_of_unique
        · exact sf.perm.mem_iff.mp (getElem_mem hi')
        · simp [sf.index_getElem i hi']
        · intro a ha hpa
          simp only [decide_eq_true_eq] at hpa
          exact sf.inj ha (sf.perm.mem_iff.mp (getElem_mem hi')) (by rw [hpa, sf.index_getElem i hi'])
      rw [hf]
      simp [getElem?_eq_getElem hi', kv]
    · have hnone : ((sortByIndex m).map kv)[i]? = none := by
        rw [getElem?_eq_none]; simp [sf.length_eq]; omega
      rw [hnone]
      split_ifs with hgt
      · rfl
      · have : m.find? (fun e => decide (e.2.index = i)) = none := by
          rw [find?_eq_none]
          intro e he
          have := sf.index_lt he
          simp; omega
        simp [this]
  | one k1 v1 =>
    simp only [getPair, abs]
    rcases i with _ | i <;> simp
  | two k1 k2 v1 v2 =>
    simp only [getPair, abs]
    rcases i with _ | _ | i <;> simp
  | three k1 k2 k3 v1 v2 v3 =>
    simp only [getPair, abs]
    rcases i with _ | _ | _ | i <;> simp
  | four k1 k2 k3 k4 v1 v2 v3 v4 =>
    simp only [getPair, abs]
    rcases i with _ | _ | _ | _ | i <;> simp

theorem iterFrom_eq {c : Container K V} (a : List (K × V)) (hl : c.len = a.length)
    (hp : ∀ i, c.getPair i = a[i]?) (fuel i : Nat) :
    c.iterFrom fuel i = (a.drop i).take fuel := by
  induction fuel generalizing i with
  | zero => simp [iterFrom]
  | succ f ih =>
    simp only [iterFrom, hl, hp]
    split_ifs with hge
    · rw [drop_eq_nil_of_le hge]; simp
    · have hi : i < a.length := by omega
      rw [getElem?_eq_getElem hi]
      simp only
      rw [ih (i + 1), drop_eq_getElem_cons hi, take_succ_cons]

theorem iter_abs {c : Container K V} (h : Inv c) : c.iter = abs c := by
  simp only [iter]
  rw [iterFrom_eq (abs c) (len_abs h) (getPair_abs h), len_abs h]
  simp

/-- re-attach positions as stored indices -/
def reindex (a : List (K × V)) : List (K × IndexedEntry V) :=
  a.zipIdx.map (fun p => (p.1.1, { v := p.1.2, index := p.2 }))

theorem toVec_abs {c : Container K V} (h : Inv c) : c.toVec = reindex (abs c) := by
  simp [toVec, reindex, iter_abs h]

theorem indexedIter_abs {c : Container K V} (h : Inv c) :
    c.indexedIter = (abs c).zipIdx.map (fun p => (p.2, p.1)) := by
  simp [indexedIter, iter_abs h]

theorem reindex_map_kv (s : HMap K (IndexedEntry V)) (a : Nat)
    (hs : s.map (·.2.index) = List.range' a s.length) :
    ((s.map kv).zipIdx a).map (fun p => (p.1.1, ({ v := p.1.2, index := p.2 } : IndexedEntry V))) = s := by
  induction s generalizing a with
  | nil => simp
  | cons e r ih =>
    obtain ⟨k', w⟩ := e
    simp only [map_cons, length_cons, range'_succ, cons.injEq] at hs
    simp only [map_cons, zipIdx_cons, kv, cons.injEq]
    refine ⟨?_, ih (a + 1) hs.2⟩
    cases w; simp_all

theorem intoIter_abs {c : Container K V} (h : Inv c) : c.intoIter = reindex (abs c) := by
  cases c with
  | n m =>
    have sf := sortedForm_of_inv h.2
    simp only [intoIter, abs, reindex]
    exact (reindex_map_kv (sortByIndex m) 0 (by rw [sf.idx, range_eq_range'])).symm
  | _ => simp [intoIter, abs, reindex, zipIdx_cons]

/-! ### `insert` refines `Spec.insert`, and preserves the invariant -/

theorem insert_snd (c : Container K V) (k : K) (v : V) : (c.insert k v).2 = c.get k := by
  cases c with
  | n m =>
    cases m with
    | nil => simp [insert, get, HMap.get]
    | cons e r => simp [insert, get]
  | one k1 v1 => simp only [insert, get]; split_ifs <;> rfl
  | two k1 k2 v1 v2 => simp only [insert, get]; split_ifs <;> rfl
  | three k1 k2 k3 v1 v2 v3 => simp only [insert, get]; split_ifs <;> rfl
  | four k1 k2 k3 k4 v1 v2 v3 v4 => simp only [insert, get]; split_ifs <;> rfl

/-- inserting into a non-empty `HashMap` representation -/
theorem insert_n_refines {m : HMap K (IndexedEntry V)} (h : Inv (.n m)) (hne : m ≠ []) (k : K) (v : V) :
    Inv ((Container.n m).insert k v).1 ∧
      abs ((Container.n m).insert k v).1 = Spec.insert (abs (.n m)) k v := by
  have sf := sortedForm_of_inv h.2
  have nd := h.1
  have nds := sf.keys_nodup nd
  have habs : abs (.n m) = (sortByIndex m).map kv := rfl
  have hkeys : ((sortByIndex m).map kv).map (·.1) = (sortByIndex m).map (·.1) := by
    simp [kv, Function.comp_def]
  have hins : ((Container.n m).insert k v).1 =
      .n (HMap.put m k ⟨v, ((HMap.get m k).map (·.index)).getD m.length⟩) := by
    cases m with
    | nil => exact absurd rfl hne
    | cons e r => simp [insert]
  rw [hins]
  cases hg : HMap.get m k with
  | none =>
    -- a new key: appended with index `len`
    have hk : k ∉ m.map (·.1) := HMap.get_eq_none_iff.mp hg
    have hks : k ∉ (sortByIndex m).map (·.1) := fun hh => hk ((sf.perm.map _).mem_iff.mp hh)
    simp only [Option.map_none, Option.getD_none]
    rw [HMap.put_of_not_mem _ hk]
    have sf' : SortedForm (m ++ [(k, ⟨v, m.length⟩)]) (sortByIndex m ++ [(k, ⟨v, m.length⟩)]) := by
      refine ⟨sf.perm.append_right _, ?_⟩
      simp [sf.idx, sf.length_eq, range_succ]
    have nd' : ((m ++ [(k, (⟨v, m.length⟩ : IndexedEntry V))]).map (·.1)).Nodup := by
      simp only [map_append, map_cons, map_nil]
      exact nodup_append.mpr ⟨nd, by simp, by
        intro a ha b hb; simp only [mem_singleton] at hb; subst hb
        exact fun hab => hk (hab ▸ ha)⟩
    refine ⟨inv_of_sortedForm nd' sf', ?_⟩
    rw [abs_n_of_sortedForm sf', habs, Spec.insert_of_not_mem v (by rw [hkeys]; exact hks)]
    simp [kv]
  | some old =>
    -- an existing key: value replaced, stored index kept
    have hmem : (k, old) ∈ m := HMap.mem_of_get_eq_some hg
    have hk : k ∈ m.map (·.1) := mem_map.mpr ⟨_, hmem, rfl⟩
    have hks : k ∈ (sortByIndex m).map (·.1) := (sf.perm.map _).mem_iff.mpr hk
    simp only [Option.map_some, Option.getD_some]
    rw [HMap.put_of_mem _ nd hk]
    let f : K × IndexedEntry V → K × IndexedEntry V :=
      fun e => if e.1 = k then (e.1, ⟨v, e.2.index⟩) else e
    have hf : m.map (fun e => if e.1 = k then (e.1, (⟨v, old.index⟩ : IndexedEntry V)) else e) = m.map f := by
      apply map_congr_left
      intro a ha
      by_cases hak : a.1 = k
      · have : HMap.get m k = some a.2 := HMap.get_eq_some_of_mem nd (by rw [← hak]; exact ha)
        rw [hg] at this
        simp only [Option.some.injEq] at this
        simp [f, hak, this]
      · simp [f, hak]
    rw [hf]
    have hfi : ∀ a, (f a).2.index = a.2.index := by
      intro a; simp only [f]; split_ifs <;> rfl
    have hfk : ∀ a, (f a).1 = a.1 := by
      intro a; simp only [f]; split_ifs <;> rfl
    have sf' : SortedForm (m.map f) ((sortByIndex m).map f) := by
      refine ⟨sf.perm.map f, ?_⟩
      rw [map_map, length_map, ← sf.idx]
      apply map_congr_left
      intro a _
      exact hfi a
    have nd' : ((m.map f).map (·.1)).Nodup := by
      have : (m.map f).map (·.1) = m.map (·.1) := by
        rw [map_map]; apply map_congr_left; intro a _; exact hfk a
      rw [this]; exact nd
    refine ⟨inv_of_sortedForm nd' sf', ?_⟩
    rw [abs_n_of_sortedForm sf', habs,
      Spec.insert_of_mem v (by rw [hkeys]; exact nds) (by rw [hkeys]; exact hks)]
    rw [map_map, map_map]
    apply map_congr_left
    intro a _
    by_cases hak : a.1 = k <;> simp [Function.comp, kv, f, hak]

/-- `insert`: a new key is appended at the end, an existing key is overwritten in place, the previous
    value is returned, and the representation invariant is preserved — in every representation -/
theorem insert_refines {c : Container K V} (h : Inv c) (k : K) (v : V) :
    Inv (c.insert k v).1 ∧ abs (c.insert k v).1 = Spec.insert (abs c) k v ∧
      (c.insert k v).2 = Spec.get (abs c) k := by
  refine ⟨?_, ?_, by rw [insert_snd, get_abs h]⟩
  · cases c with
    | n m =>
      cases m with
      | nil => simp [insert, Inv]
      | cons e r => exact (insert_n_refines h (by simp) k v).1
    | one k1 v1 => simp only [insert]; split_ifs <;> simp_all [Inv]
    | two k1 k2 v1 v2 => simp only [insert]; split_ifs <;> simp_all [Inv]
    | three k1 k2 k3 v1 v2 v3 => simp only [insert]; split_ifs <;> simp_all [Inv]
    | four k1 k2 k3 k4 v1 v2 v3 v4 =>
      simp only [insert]
      split_ifs with h1 h2 h3 h4
      · simpa [Inv] using h
      · simpa [Inv] using h
      · simpa [Inv] using h
      · simpa [Inv] using h
      · have ndk : ([k1, k2, k3, k4, k]).Nodup := by
          simp only [Inv] at h
          simp_all
        have hl : HMap.ofList [(k1, (⟨v1, 0⟩ : IndexedEntry V)), (k2, ⟨v2, 1⟩), (k3, ⟨v3, 2⟩),
            (k4, ⟨v4, 3⟩), (k, ⟨v, 4⟩)] = _ := HMap.ofList_of_nodup _ (by simpa using ndk)
        rw [hl]
        exact inv_of_sortedForm (by simpa using ndk) ⟨Perm.refl _, by simp [range_succ]⟩
  · cases c with
    | n m =>
      cases m with
      | nil => simp [insert, abs, sortByIndex, Spec.insert]
      | cons e r => exact (insert_n_refines h (by simp) k v).2
    | one k1 v1 => simp only [insert]; split_ifs <;> simp_all [abs, Spec.insert]
    | two k1 k2 v1 v2 => simp only [insert]; split_ifs <;> simp_all [abs, Spec.insert]
    | three k1 k2 k3 v1 v2 v3 => simp only [insert]; split_ifs <;> simp_all [abs, Spec.insert]
    | four k1 k2 k3 k4 v1 v2 v3 v4 =>
      simp only [insert]
      split_ifs with h1 h2 h3 h4
      · simp_all [abs, Spec.insert]
      · simp_all [abs, Spec.insert]
      · simp_all [abs, Spec.insert]
      · simp_all [abs, Spec.insert]
      · have ndk : ([k1, k2, k3, k4, k]).Nodup := by
          simp only [Inv] at h
          simp_all
        have hl : HMap.ofList [(k1, (⟨v1, 0⟩ : IndexedEntry V)), (k2, ⟨v2, 1⟩), (k3, ⟨v3, 2⟩),
            (k4, ⟨v4, 3⟩), (k, ⟨v, 4⟩)] = _ := HMap.ofList_of_nodup _ (by simpa using ndk)
        rw [hl, abs_n_of_sortedForm ⟨Perm.refl _, by simp [range_succ]⟩]
        simp [abs, kv, Spec.insert, h1, h2, h3, h4]

/-! ### constructors and whole histories -/

theorem inv_empty : Inv (empty : Container K V) := by simp [empty, Inv]

theorem abs_empty : abs (empty : Container K V) = [] := by simp [empty, abs, sortByIndex]

/-- a whole history of inserts (new keys and overwrites) -/
def insertAll (c : Container K V) (ops : List (K × V)) : Container K V :=
  ops.foldl (fun c e => (c.insert e.1 e.2).1) c

theorem insertAll_refines {c : Container K V} (h : Inv c) (ops : List (K × V)) :
    Inv (insertAll c ops) ∧ abs (insertAll c ops) = Spec.insertAll (abs c) ops := by
  induction ops generalizing c with
  | nil => exact ⟨h, rfl⟩
  | cons e r ih =>
    have h1 := insert_refines h e.1 e.2
    have h2 := ih h1.1
    simp only [insertAll, Spec.insertAll, foldl_cons] at h2 ⊢
    rw [h1.2.1] at h2
    exact h2

theorem fromIter_refines (es : List (K × V)) :
    Inv (fromIter es) ∧ abs (fromIter es) = Spec.insertAll [] es := by
  have := insertAll_refines (inv_empty (K := K) (V := V)) es
  rw [abs_empty] at this
  exact this

/-- `unique_key_len` equals the number of keys exactly when the keys are pairwise distinct -/
theorem dedupKeys_length_le (l : List K) : (dedupKeys l).length ≤ l.length := by
  induction l with
  | nil => simp [dedupKeys]
  | cons k r ih =>
    simp only [dedupKeys]
    split_ifs <;> simp <;> omega

theorem uniqueKeyLen_eq_length_iff (l : List K) : uniqueKeyLen l = l.length ↔ l.Nodup := by
  induction l with
  | nil => simp [uniqueKeyLen, dedupKeys]
  | cons k r ih =>
    simp only [uniqueKeyLen] at ih
    simp only [uniqueKeyLen, dedupKeys, nodup_cons]
    have := dedupKeys_length_le r
    split_ifs with hk
    · simp only [length_cons]
      constructor
      · intro h; omega
      · intro h; exact absurd hk h.1
    · simp only [length_cons, Nat.add_right_cancel_iff, ih]
      exact ⟨fun h => ⟨hk, h⟩, fun h => h.2⟩

/-- `new` on ANY list (repeated keys included) is the insertion-ordered association list of that
    list — the same as `from_iter` — at every length -/
theorem new_refines (es : List (K × V)) :
    Inv (new es) ∧ abs (new es) = Spec.insertAll [] es := by
  have small : ∀ (c : Container K V), (es.map (·.1)).Nodup → Inv c → abs c = es →
      Inv c ∧ abs c = Spec.insertAll [] es := by
    intro c nd hi ha
    refine ⟨hi, ?_⟩
    rw [ha]
    -- with distinct keys every insert appends
    have : ∀ (acc l : List (K × V)), ((acc ++ l).map (·.1)).Nodup → Spec.insertAll acc l = acc ++ l := by
      intro acc l
      induction l generalizing acc with
      | nil => intro _; simp [Spec.insertAll]
      | cons e r ih =>
        intro nd
        have hk : e.1 ∉ acc.map (·.1) := by
          simp only [map_append, map_cons] at nd
          have := (nodup_append.mp nd).2.2
          intro h
          exact this _ h _ (mem_cons_self) rfl
        simp only [Spec.insertAll, foldl_cons, Spec.insert_of_not_mem _ hk]
        have := ih (acc ++ [(e.1, e.2)]) (by simpa using nd)
        simp only [Spec.insertAll] at this
        rw [this]; simp
    have h2 := this [] es (by simpa using nd)
    simp only [nil_append] at h2
    exact h2.symm
  match es with
  | [] => exact ⟨inv_empty, by simp [new, abs_empty, Spec.insertAll]⟩
  | [(k, v)] => exact small _ (by simp) (by simp [new, Inv]) (by simp [new, abs])
  | [(k1, v1), (k2, v2)] =>
    simp only [new]
    split_ifs with hu
    · have h : [k1, k2].Nodup := (uniqueKeyLen_eq_length_iff _).mp hu
      exact small _ (by simpa using h) (by simpa [Inv] using h) (by simp [abs])
    · exact fromIter_refines _
  | [(k1, v1), (k2, v2), (k3, v3)] =>
    simp only [new]
    split_ifs with hu
    · have h : [k1, k2, k3].Nodup := (uniqueKeyLen_eq_length_iff _).mp hu
      exact small _ (by simpa using h) (by simpa [Inv] using h) (by simp [abs])
    · exact fromIter_refines _
  | [(k1, v1), (k2, v2), (k3, v3), (k4, v4)] =>
    simp only [new]
    split_ifs with hu
    · have h : [k1, k2, k3, k4].Nodup := (uniqueKeyLen_eq_length_iff _).mp hu
      exact small _ (by simpa using h) (by simpa [Inv] using h) (by simp [abs])
    · exact fromIter_refines _
  | e1 :: e2 :: e3 :: e4 :: e5 :: r =>
    have : new (e1 :: e2 :: e3 :: e4 :: e5 :: r) = fromIter (e1 :: e2 :: e3 :: e4 :: e5 :: r) := by
      simp [new]
    rw [this]
    exact fromIter_refines _

/-- under the invariant `get_pair` answers `None` from `len` on — in particular at `len` itself, where
    the code's guard (`index > len`) lets the lookup run -/
theorem getPair_out_of_range {c : Container K V} (h : Inv c) {i : Nat} (hi : c.len ≤ i) :
    c.getPair i = none := by
  rw [getPair_abs h, getElem?_eq_none]
  rw [← len_abs h]; exact hi

end Container

end Compass
