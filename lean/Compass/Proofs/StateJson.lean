/-
Facts about decimal integer lexemes for `Model/Json.lean`: the lexeme `serde_json` writes for an
in-range integer (`toString`) is read back by `Json.asU64?` / `Json.asI64?` as that integer.
-/
import Compass.Model.Json
import Std.Data.String.ToNat
import Std.Data.String.ToInt

namespace Compass
namespace Json

set_option linter.unnecessarySimpa false

theorem allDigits_repr (n : Nat) : allDigits (Nat.repr n) = true := by
  simp only [allDigits, Bool.and_eq_true, Bool.not_eq_true', List.all_eq_true]
  refine ⟨String.isEmpty_eq_false_iff.mpr Nat.repr_ne_empty, ?_⟩
  intro c hc
  rw [Nat.toList_repr] at hc
  exact Nat.isDigit_of_mem_toDigits (by omega) (by omega) hc

theorem drop_one_minus (s : String) : (("-" ++ s).drop 1).copy = s := by
  apply String.ext_iff.mpr
  have := String.toList_copy_drop (s := "-" ++ s) (n := 1)
  simpa using this

theorem not_allDigits_minus (s : String) : allDigits ("-" ++ s) = false := by
  simp [allDigits]

theorem asU64_repr (n b : Nat) (h : n < 2 ^ 64) : asU64? (.num (Nat.repr n) b) = some n := by
  simp [asU64?, allDigits_repr, Nat.toNat?_repr, h]

theorem asI64_nat (n b : Nat) (h : n < 2 ^ 63) : asI64? (.num (Nat.repr n) b) = some (n : Int) := by
  simp [asI64?, allDigits_repr, Nat.toNat?_repr, h]

theorem asI64_neg (m b : Nat) (h : m + 1 ≤ 2 ^ 63) :
    asI64? (.num ("-" ++ Nat.repr (m + 1)) b) = some (-((m : Int) + 1)) := by
  simp [asI64?, not_allDigits_minus, drop_one_minus, allDigits_repr, Nat.toNat?_repr, h]

/-- every `i64` written as a decimal lexeme reads back as itself -/
theorem asI64_toString (i : Int) (b : Nat) (h1 : -(2 ^ 63 : Int) ≤ i) (h2 : i < 2 ^ 63) :
    asI64? (.num (toString i) b) = some i := by
  cases i with
  | ofNat n =>
    have e : toString (Int.ofNat n) = Nat.repr n := rfl
    rw [e]
    have hn : n < 2 ^ 63 := by
      have : (n : Int) < 2 ^ 63 := h2
      omega
    exact asI64_nat n b hn
  | negSucc m =>
    have e : toString (Int.negSucc m) = "-" ++ Nat.repr (m + 1) := rfl
    rw [e]
    have hm : m + 1 ≤ 2 ^ 63 := by
      have : -(2 ^ 63 : Int) ≤ Int.negSucc m := h1
      omega
    rw [asI64_neg m b hm, Int.negSucc_eq]

/-- every `u64` written as a decimal lexeme reads back as itself -/
theorem asU64_toString (n b : Nat) (h : n < 2 ^ 64) :
    asU64? (.num (toString (Int.ofNat n)) b) = some n := by
  have e : toString (Int.ofNat n) = Nat.repr n := rfl
  rw [e]
  exact asU64_repr n b h

end Json
end Compass
