/-
Label optimality (Dijkstra / A* with an admissible heuristic, with re-opening of closed vertices)
and the reachability characterisation of `run_a_star`, for every instance, source, target and every
accepted schedule, over any linearly ordered field.  Formalises DESIGN.md Appendix A.1.

Setting (`Uniform I ok c hv`): incident lists are consistent with `termV`, validity is edge-local,
edge cost is a state-independent strictly positive function of the edge, the heuristic is a
non-negative function of the vertex.

`UniformCostOn I S ok c` / `UniformOn` (section "Generalisation") ask for the same only on the
(last edge, state) pairs the search really uses (an invariant `S`) and only of calls that answer;
every headline theorem has an `_on` version.  `UniformCost` is the special case `S := True`
(`UniformCost.toOn`); concrete configurations meet `UniformCostOn` (`Proofs/ConfigUniform.lean`).
-/
import Compass.Proofs.Num
import Compass.Model.Search

namespace Compass
namespace SearchOpt

set_option linter.unusedSectionVars false

variable {α : Type} [Field α] [LinearOrder α] [IsStrictOrderedRing α] [Lit α] [LawfulLit α]

/-! ### Walks and their cost -/

/-- valid walk `u ⇝ v` in the search direction: every edge passes `ok`, is listed at the vertex it
is expanded from, and consecutive edges are chained `keyV eᵢ = termV eᵢ₊₁` -/
def Walk (I : Inst α) (ok : Nat → Bool) : Nat → List Nat → Nat → Prop
  | u, [], v => u = v
  | u, e :: es, v =>
    ok e = true ∧ e ∈ I.incident (I.termV e) ∧ I.termV e = u ∧ Walk I ok (I.keyV e) es v

/-- `Σ c eᵢ` -/
def cost (c : Nat → α) : List Nat → α
  | [] => 0
  | e :: es => c e + cost c es

theorem cost_append (c : Nat → α) (es fs : List Nat) :
    cost c (es ++ fs) = cost c es + cost c fs := by
  induction es with
  | nil => simp [cost]
  | cons e es ih => simp [cost, ih, add_assoc]

theorem cost_eq_sum (c : Nat → α) (es : List Nat) : cost c es = (es.map c).sum := by
  induction es with
  | nil => simp [cost]
  | cons e es ih => simp [cost, ih]

theorem cost_nonneg {c : Nat → α} (hc : ∀ e, 0 < c e) (es : List Nat) : 0 ≤ cost c es := by
  induction es with
  | nil => simp [cost]
  | cons e es ih => simp only [cost]; have := hc e; linarith

theorem Walk.snoc {I : Inst α} {ok : Nat → Bool} {e : Nat} :
    ∀ {es : List Nat} {u v : Nat}, Walk I ok u es v → ok e = true → e ∈ I.incident (I.termV e) →
      I.termV e = v → Walk I ok u (es ++ [e]) (I.keyV e)
  | [], u, v, h, h1, h2, h3 => by
    simp only [Walk] at h
    subst h
    exact ⟨h1, h2, h3, rfl⟩
  | f :: es, u, v, h, h1, h2, h3 => by
    obtain ⟨a, b, c', d⟩ := h
    exact ⟨a, b, c', Walk.snoc d h1 h2 h3⟩

theorem Walk.append {I : Inst α} {ok : Nat → Bool} :
    ∀ {es fs : List Nat} {u v w : Nat}, Walk I ok u es v → Walk I ok v fs w →
      Walk I ok u (es ++ fs) w
  | [], _, u, v, w, h, h' => by
    simp only [Walk] at h
    subst h
    exact h'
  | f :: es, _, u, v, w, h, h' => by
    obtain ⟨a, b, c', d⟩ := h
    exact ⟨a, b, c', Walk.append d h'⟩

/-! ### The setting -/

/-- (H1), (H3), (H4) of the task: incident consistency, edge-local validity, state-independent
strictly positive edge cost.  (All that the destination-less search needs.) -/
structure UniformCost (I : Inst α) (ok : Nat → Bool) (c : Nat → α) : Prop where
  incident_term : ∀ v e, e ∈ I.incident v → I.termV e = v
  valid_eq : ∀ e st le, I.valid e st le = .ok (ok e)
  trav_eq : ∀ e le st, ∃ ac tc st', I.trav e le st = .ok (ac, tc, st') ∧ ac + tc = c e
  cost_pos : ∀ e, 0 < c e

/-- (H5) the heuristic is a function of the vertex (used alone by the reachability theorems) -/
def VertexH (I : Inst α) (hv : Nat → α) : Prop := ∀ v st, I.h v st = .ok (hv v)

/-- (H1), (H3), (H4), (H5): `UniformCost` plus: the heuristic is a non-negative function of the
vertex -/
structure Uniform (I : Inst α) (ok : Nat → Bool) (c : Nat → α) (hv : Nat → α) : Prop
    extends UniformCost I ok c where
  h_eq : VertexH I hv
  h_nonneg : ∀ v, 0 ≤ hv v

/-- (H6) the termination model never fires -/
def NoLimit (I : Inst α) : Prop := ∀ n i, I.term n i = .ok ()

/-- what the reachability theorems really need of the termination model: it never reports
"no path" (the Rust error is `QueryTerminated`).  Implied by `NoLimit`. -/
def TermNotNoPath (I : Inst α) : Prop := ∀ n i, I.term n i ≠ .error .noPath

theorem NoLimit.termNotNoPath {I : Inst α} (h : NoLimit I) : TermNotNoPath I := by
  intro n i; rw [h n i]; simp

/-- admissibility for target `t`: the estimate at `v` is at most the cost of every valid walk
`v ⇝ t` -/
def Admissible (I : Inst α) (ok : Nat → Bool) (c hv : Nat → α) (t : Nat) : Prop :=
  ∀ v es, Walk I ok v es t → hv v ≤ cost c es

/-! ### `upd`, `improves`, `pushIncrease`, `popOk`, `filter` -/

@[simp] theorem upd_same {β : Type} (m : Nat → Option β) (k : Nat) (v : β) : upd m k v k = some v := by
  simp [upd]

theorem upd_other {β : Type} (m : Nat → Option β) {k x : Nat} (v : β) (h : x ≠ k) :
    upd m k v x = m x := by
  simp [upd, h]

@[simp] theorem improves_none (t : α) : improves t none = true := LawfulLit.belowInf_eq t

@[simp] theorem improves_some (t ex : α) : improves t (some ex) = true ↔ t < ex := by
  simp [improves]

theorem improves_false {t : α} {o : Option α} (h : improves t o = false) :
    ∃ ex, o = some ex ∧ ex ≤ t := by
  cases o with
  | none => simp at h
  | some ex =>
    refine ⟨ex, rfl, ?_⟩
    have : ¬ t < ex := by
      intro hlt
      rw [(improves_some t ex).2 hlt] at h
      exact Bool.noConfusion h
    exact not_lt.1 this

/-- membership after `push_increase` when the pushed priority beats every entry of that key -/
theorem mem_pushIncrease {q : List (Nat × α)} {v : Nat} {f : α}
    (hlt : ∀ f', (v, f') ∈ q → f < f') (p : Nat × α) :
    p ∈ pushIncrease q v f ↔ (p ∈ q ∧ p.1 ≠ v) ∨ p = (v, f) := by
  unfold pushIncrease
  cases hfind : q.find? (fun p => p.1 == v) with
  | none =>
    simp only [List.mem_append, List.mem_singleton]
    rw [List.find?_eq_none] at hfind
    constructor
    · rintro (h | h)
      · left
        refine ⟨h, ?_⟩
        have := hfind p h
        simpa using this
      · right; exact h
    · rintro (h | h)
      · left; exact h.1
      · right; exact h
  | some r =>
    obtain ⟨a, old⟩ := r
    have hmem : (a, old) ∈ q := List.mem_of_find?_eq_some hfind
    have ha : a = v := by
      have := List.find?_some hfind
      simpa using this
    subst ha
    have hlt' : f < old := hlt old hmem
    simp only [hlt', if_true, List.mem_map]
    constructor
    · rintro ⟨p', hp', heq⟩
      by_cases hk : p'.1 = a
      · right
        simp [hk] at heq
        exact heq.symm
      · left
        have : (p'.1 == a) = false := by simpa using hk
        simp only [this] at heq
        subst heq
        exact ⟨hp', hk⟩
    · rintro (⟨hp, hk⟩ | h)
      · refine ⟨p, hp, ?_⟩
        have : (p.1 == a) = false := by simpa using hk
        simp [this]
      · refine ⟨(a, old), hmem, ?_⟩
        simp [h]

/-- `push_increase` never changes the key list except by appending a fresh key -/
theorem keys_pushIncrease_nodup {q : List (Nat × α)} (v : Nat) (f : α)
    (h : (q.map Prod.fst).Nodup) : ((pushIncrease q v f).map Prod.fst).Nodup := by
  unfold pushIncrease
  cases hfind : q.find? (fun p => p.1 == v) with
  | none =>
    rw [List.find?_eq_none] at hfind
    simp only [List.map_append, List.map_cons, List.map_nil]
    rw [List.nodup_append]
    refine ⟨h, by simp, ?_⟩
    intro a ha b hb
    simp only [List.mem_singleton] at hb
    subst hb
    rw [List.mem_map] at ha
    obtain ⟨p, hp, rfl⟩ := ha
    have := hfind p hp
    simpa using this
  | some r =>
    obtain ⟨a, old⟩ := r
    simp only
    split
    · have : (q.map (fun p => if p.1 == v then (v, f) else p)).map Prod.fst = q.map Prod.fst := by
        rw [List.map_map]
        apply List.map_congr_left
        intro p _
        simp only [Function.comp]
        by_cases hk : p.1 = v
        · simp [hk]
        · have : (p.1 == v) = false := by simpa using hk
          simp [this]
      rw [this]; exact h
    · exact h

/-- an accepted pop is a queue entry of minimal priority -/
theorem popOk_spec {q : List (Nat × α)} {v : Nat} (h : popOk q v = true) :
    ∃ f, (v, f) ∈ q ∧ ∀ p ∈ q, f ≤ p.2 := by
  unfold popOk at h
  cases hfind : q.find? (fun p => p.1 == v) with
  | none => simp [hfind] at h
  | some r =>
    obtain ⟨a, f⟩ := r
    have hmem : (a, f) ∈ q := List.mem_of_find?_eq_some hfind
    have ha : a = v := by
      have := List.find?_some hfind
      simpa using this
    subst ha
    simp only [hfind, List.all_eq_true] at h
    refine ⟨f, hmem, ?_⟩
    intro p hp
    have := h p hp
    simpa using this

theorem mem_filter_ne {q : List (Nat × α)} {v : Nat} (p : Nat × α) :
    p ∈ q.filter (fun p => !(p.1 == v)) ↔ p ∈ q ∧ p.1 ≠ v := by
  simp [List.mem_filter]

theorem keys_filter_nodup {q : List (Nat × α)} (P : Nat × α → Bool)
    (h : (q.map Prod.fst).Nodup) : ((q.filter P).map Prod.fst).Nodup :=
  List.Nodup.sublist (List.Sublist.map _ List.filter_sublist) h

/-! ### One relaxation, abstractly -/

/-- the heuristic term added to the f-score: `hv` with a target, `0` without -/
def Hf (hasT : Bool) (hv : Nat → α) (v : Nat) : α := if hasT then hv v else 0

theorem Hf_nonneg {hasT : Bool} {hv : Nat → α} (h : ∀ v, 0 ≤ hv v) (v : Nat) : 0 ≤ Hf hasT hv v := by
  unfold Hf; split
  · exact h v
  · exact le_refl _

/-- effect of one `relax` on (queue, labels): either nothing changes (and then, if the edge is
valid and its near end labelled, the far end's label was already good enough), or the far end gets
the tentative label and is pushed with `label + H` -/
def RStep (I : Inst α) (ok : Nat → Bool) (c H : Nat → α)
    (q : List (Nat × α)) (g : Nat → Option α) (e : Nat)
    (q' : List (Nat × α)) (g' : Nat → Option α) : Prop :=
  (q' = q ∧ g' = g ∧
    (ok e = true → ∀ gt, g (I.termV e) = some gt → improves (gt + c e) (g (I.keyV e)) = false))
  ∨ (∃ gt, ok e = true ∧ g (I.termV e) = some gt ∧ improves (gt + c e) (g (I.keyV e)) = true ∧
      g' = upd g (I.keyV e) (gt + c e) ∧
      q' = pushIncrease q (I.keyV e) (gt + c e + H (I.keyV e)))

theorem relax_spec {I : Inst α} {ok : Nat → Bool} {c hv : Nat → α} (U : UniformCost I ok c)
    (hasT : Bool) (hh : hasT = true → VertexH I hv)
    (le : Option Nat) (st : List α) (s : SState α) (e : Nat) :
    ∃ s', relax I hasT le st s e = .ok s' ∧
      RStep I ok c (Hf hasT hv) s.queue s.g e s'.queue s'.g := by
  obtain ⟨ac, tc, st', htr, hc⟩ := U.trav_eq e le st
  unfold relax
  rw [U.valid_eq, htr]
  cases hok : ok e with
  | false =>
    refine ⟨s, rfl, Or.inl ⟨rfl, rfl, ?_⟩⟩
    intro h; rw [hok] at h; exact absurd h (by simp)
  | true =>
    simp only
    cases hg : s.g (I.termV e) with
    | none =>
      refine ⟨s, rfl, Or.inl ⟨rfl, rfl, ?_⟩⟩
      intro _ gt h; rw [hg] at h; exact absurd h (by simp)
    | some gt =>
      simp only [hc]
      cases himp : improves (gt + c e) (s.g (I.keyV e)) with
      | false =>
        refine ⟨s, by simp, Or.inl ⟨rfl, rfl, ?_⟩⟩
        intro _ gt' h
        rw [hg] at h
        have : gt = gt' := by simpa using h
        subst this; exact himp
      | true =>
        have hh : (if hasT = true then I.h (I.keyV e) st else Except.ok (zero : α))
            = .ok (Hf hasT hv (I.keyV e)) := by
          cases hasT with
          | false => simp [Hf]
          | true => simp [Hf, hh rfl (I.keyV e) st]
        simp only [if_true, hh]
        exact ⟨_, rfl, Or.inr ⟨gt, hok, hg, himp, rfl, rfl⟩⟩

/-! ### Invariants (Appendix A.1), stated on the pair (queue, labels) -/

/-- (S) soundness of labels and (Q) queue entries carry `label + H`, one entry per vertex -/
structure Inv (I : Inst α) (ok : Nat → Bool) (c H : Nat → α) (source : Nat)
    (q : List (Nat × α)) (g : Nat → Option α) : Prop where
  sound : ∀ v x, g v = some x → ∃ es, Walk I ok source es v ∧ cost c es = x
  src : ∃ x, g source = some x ∧ x ≤ 0
  qval : ∀ v f, (v, f) ∈ q → ∃ x, g v = some x ∧ f = x + H v
  qnodup : (q.map Prod.fst).Nodup

/-- (K) at `u`: if `u` is labelled and has no queue entry (closed), every valid edge out of `u`
is relaxed: its far end is labelled with at most `label u + c e` -/
def KAt (I : Inst α) (ok : Nat → Bool) (c : Nat → α)
    (q : List (Nat × α)) (g : Nat → Option α) (u : Nat) : Prop :=
  ∀ x, g u = some x → (∀ f, (u, f) ∉ q) →
    ∀ e ∈ I.incident u, ok e = true → ∃ y, g (I.keyV e) = some y ∧ y ≤ x + c e

/-- the target, once labelled, is queued (it is never expanded) -/
def TQ (t : Nat) (q : List (Nat × α)) (g : Nat → Option α) : Prop :=
  ∀ x, g t = some x → ∃ f, (t, f) ∈ q

/-- labels are never removed and only decrease -/
def LabelsLe (g g' : Nat → Option α) : Prop :=
  ∀ v x, g v = some x → ∃ x', g' v = some x' ∧ x' ≤ x

theorem LabelsLe.refl (g : Nat → Option α) : LabelsLe g g := fun _ x h => ⟨x, h, le_refl _⟩

theorem LabelsLe.trans {g g' g'' : Nat → Option α} (h : LabelsLe g g') (h' : LabelsLe g' g'') :
    LabelsLe g g'' := by
  intro v x hx
  obtain ⟨x', hx', hle⟩ := h v x hx
  obtain ⟨x'', hx'', hle'⟩ := h' v x' hx'
  exact ⟨x'', hx'', le_trans hle' hle⟩

/-- the source label is exactly 0 -/
theorem Inv.src_zero {I : Inst α} {ok : Nat → Bool} {c H : Nat → α} {source : Nat}
    {q : List (Nat × α)} {g : Nat → Option α} (hc : ∀ e, 0 < c e)
    (h : Inv I ok c H source q g) : g source = some 0 := by
  obtain ⟨x, hx, hle⟩ := h.src
  obtain ⟨es, _, hcost⟩ := h.sound _ _ hx
  have := cost_nonneg hc es
  have : x = 0 := le_antisymm hle (hcost ▸ this)
  rw [hx, this]

section step
variable {I : Inst α} {ok : Nat → Bool} {c H : Nat → α} {source : Nat}
  {q q' : List (Nat × α)} {g g' : Nat → Option α} {e : Nat}

theorem RStep.labelsLe (h : RStep I ok c H q g e q' g') : LabelsLe g g' := by
  rcases h with ⟨_, rfl, _⟩ | ⟨gt, _, _, himp, rfl, _⟩
  · exact LabelsLe.refl _
  · intro v x hx
    by_cases hv : v = I.keyV e
    · subst hv
      rw [hx] at himp
      exact ⟨_, upd_same _ _ _, le_of_lt ((improves_some _ _).1 himp)⟩
    · exact ⟨x, by rw [upd_other _ _ hv]; exact hx, le_refl _⟩

/-- in an improving step the pushed priority beats the key's existing entries -/
theorem push_lt (hinv : Inv I ok c H source q g) {key : Nat} {tent : α}
    (himp : improves tent (g key) = true) : ∀ f', (key, f') ∈ q → tent + H key < f' := by
  intro f' hmem
  obtain ⟨x, hx, rfl⟩ := hinv.qval _ _ hmem
  rw [hx] at himp
  have := (improves_some _ _).1 himp
  linarith

theorem RStep.inv (he : e ∈ I.incident (I.termV e)) (hinv : Inv I ok c H source q g)
    (h : RStep I ok c H q g e q' g') : Inv I ok c H source q' g' := by
  have hle := h.labelsLe
  rcases h with ⟨rfl, rfl, _⟩ | ⟨gt, hok, hgt, himp, rfl, rfl⟩
  · exact hinv
  · have hmem := mem_pushIncrease (push_lt hinv himp)
    refine ⟨?_, ?_, ?_, keys_pushIncrease_nodup _ _ hinv.qnodup⟩
    · intro v x hx
      by_cases hv : v = I.keyV e
      · subst hv
        rw [upd_same] at hx
        obtain ⟨es, hw, hcost⟩ := hinv.sound _ _ hgt
        refine ⟨es ++ [e], hw.snoc hok he rfl, ?_⟩
        have : gt + c e = x := by simpa using hx
        rw [cost_append, hcost, ← this]; simp [cost]
      · rw [upd_other _ _ hv] at hx
        exact hinv.sound _ _ hx
    · obtain ⟨x, hx, hx0⟩ := hinv.src
      obtain ⟨x', hx', hle'⟩ := hle _ _ hx
      exact ⟨x', hx', le_trans hle' hx0⟩
    · intro v f hvf
      rcases (hmem (v, f)).1 hvf with ⟨hq, hne⟩ | heq
      · obtain ⟨x, hx, hf⟩ := hinv.qval _ _ hq
        exact ⟨x, by rw [upd_other _ _ hne]; exact hx, hf⟩
      · have h1 : v = I.keyV e := congrArg Prod.fst heq
        have h2 : f = gt + c e + H (I.keyV e) := congrArg Prod.snd heq
        subst h1
        exact ⟨_, upd_same _ _ _, h2⟩

theorem RStep.kAt (hinv : Inv I ok c H source q g) (h : RStep I ok c H q g e q' g') {u : Nat}
    (hk : KAt I ok c q g u) : KAt I ok c q' g' u := by
  have hle := h.labelsLe
  rcases h with ⟨rfl, rfl, _⟩ | ⟨gt, hok, hgt, himp, rfl, rfl⟩
  · exact hk
  · have hmem := mem_pushIncrease (push_lt hinv himp)
    intro x hx hclosed e' he' hok'
    by_cases hu : u = I.keyV e
    · exact absurd ((hmem (u, _)).2 (Or.inr (by rw [hu]))) (hclosed _)
    · rw [upd_other _ _ hu] at hx
      have hclosed' : ∀ f, (u, f) ∉ q := by
        intro f hf
        exact hclosed f ((hmem (u, f)).2 (Or.inl ⟨hf, hu⟩))
      obtain ⟨y, hy, hyle⟩ := hk x hx hclosed' e' he' hok'
      obtain ⟨y', hy', hyle'⟩ := hle _ _ hy
      exact ⟨y', hy', le_trans hyle' hyle⟩

theorem RStep.tq (hinv : Inv I ok c H source q g) (h : RStep I ok c H q g e q' g') {t : Nat}
    (ht : TQ t q g) : TQ t q' g' := by
  rcases h with ⟨rfl, rfl, _⟩ | ⟨gt, hok, hgt, himp, rfl, rfl⟩
  · exact ht
  · have hmem := mem_pushIncrease (push_lt hinv himp)
    intro x hx
    by_cases hu : t = I.keyV e
    · exact ⟨_, (hmem (t, _)).2 (Or.inr (by rw [hu]))⟩
    · rw [upd_other _ _ hu] at hx
      obtain ⟨f, hf⟩ := ht x hx
      exact ⟨f, (hmem (t, f)).2 (Or.inl ⟨hf, hu⟩)⟩

/-- after the step the relaxed edge satisfies the (K) inequality for the label it was relaxed from -/
theorem RStep.established (h : RStep I ok c H q g e q' g') {x : α}
    (hg : g (I.termV e) = some x) (hok : ok e = true) :
    ∃ y, g' (I.keyV e) = some y ∧ y ≤ x + c e := by
  rcases h with ⟨_, rfl, hno⟩ | ⟨gt, _, hgt, himp, rfl, _⟩
  · exact improves_false (hno hok x hg)
  · rw [hg] at hgt
    have : x = gt := by simpa using hgt
    subst this
    exact ⟨_, upd_same _ _ _, le_refl _⟩

/-- a relaxation never changes the label of the vertex it relaxes from (edge cost is positive) -/
theorem RStep.term_label (hc : ∀ e, 0 < c e) (h : RStep I ok c H q g e q' g') :
    g' (I.termV e) = g (I.termV e) := by
  rcases h with ⟨_, rfl, _⟩ | ⟨gt, _, hgt, himp, rfl, _⟩
  · rfl
  · by_cases hu : I.termV e = I.keyV e
    · rw [← hu, hgt] at himp
      have := (improves_some _ _).1 himp
      have := hc e
      linarith
    · exact upd_other _ _ hu

end step

/-! ### The `for` loop over the incident edges -/

/-- effect of `relaxAll`: a chain of `RStep`s -/
def RSteps (I : Inst α) (ok : Nat → Bool) (c H : Nat → α) :
    List Nat → List (Nat × α) → (Nat → Option α) → List (Nat × α) → (Nat → Option α) → Prop
  | [], q, g, q', g' => q' = q ∧ g' = g
  | e :: es, q, g, q', g' =>
    ∃ q1 g1, RStep I ok c H q g e q1 g1 ∧ RSteps I ok c H es q1 g1 q' g'

/-- under `Uniform` the `for` loop never fails and is a chain of abstract relaxations -/
theorem relaxAll_spec {I : Inst α} {ok : Nat → Bool} {c hv : Nat → α} (U : UniformCost I ok c)
    (hasT : Bool) (hh : hasT = true → VertexH I hv) (le : Option Nat) (st : List α) :
    ∀ (es : List Nat) (s : SState α), ∃ s', relaxAll I hasT le st es s = .ok s' ∧
      RSteps I ok c (Hf hasT hv) es s.queue s.g s'.queue s'.g
  | [], s => ⟨s, rfl, rfl, rfl⟩
  | e :: es, s => by
    obtain ⟨s1, h1, r1⟩ := relax_spec U hasT hh le st s e
    obtain ⟨s', h2, r2⟩ := relaxAll_spec U hasT hh le st es s1
    refine ⟨s', ?_, s1.queue, s1.g, r1, r2⟩
    simp only [relaxAll, h1, h2]

/-- everything the loop turn needs from the `for` loop run at vertex `v` with label `x` -/
theorem RSteps.all {I : Inst α} {ok : Nat → Bool} {c H : Nat → α} {source : Nat}
    (hc : ∀ e, 0 < c e) {v : Nat} {x : α} :
    ∀ (es : List Nat) (q : List (Nat × α)) (g : Nat → Option α) (q' : List (Nat × α))
      (g' : Nat → Option α),
      (∀ e ∈ es, I.termV e = v ∧ e ∈ I.incident v) → Inv I ok c H source q g → g v = some x →
      RSteps I ok c H es q g q' g' →
      Inv I ok c H source q' g' ∧ g' v = some x ∧ LabelsLe g g' ∧
      (∀ u, KAt I ok c q g u → KAt I ok c q' g' u) ∧
      (∀ t, TQ t q g → TQ t q' g') ∧
      (∀ e ∈ es, ok e = true → ∃ y, g' (I.keyV e) = some y ∧ y ≤ x + c e)
  | [], q, g, q', g', _, hinv, hg, h => by
    obtain ⟨rfl, rfl⟩ := h
    exact ⟨hinv, hg, LabelsLe.refl _, fun _ h => h, fun _ h => h, fun e he => absurd he (by simp)⟩
  | e :: es, q, g, q', g', hes, hinv, hg, h => by
    obtain ⟨q1, g1, h1, hrest⟩ := h
    obtain ⟨hterm, hinc⟩ := hes e (by simp)
    have hinv1 : Inv I ok c H source q1 g1 := h1.inv (by rw [hterm]; exact hinc) hinv
    have hg1 : g1 v = some x := by
      have := h1.term_label hc
      rw [hterm] at this
      rw [this]; exact hg
    obtain ⟨hinv', hg', hle', hk', ht', hest'⟩ :=
      RSteps.all hc es q1 g1 q' g' (fun e' he' => hes e' (by simp [he'])) hinv1 hg1 hrest
    refine ⟨hinv', hg', h1.labelsLe.trans hle', fun u hk => hk' u (h1.kAt hinv hk),
      fun t ht => ht' t (h1.tq hinv ht), ?_⟩
    intro e' he' hok'
    rcases List.mem_cons.1 he' with rfl | he'
    · obtain ⟨y, hy, hyle⟩ := h1.established (by rw [hterm]; exact hg) hok'
      obtain ⟨y', hy', hyle'⟩ := hle' _ _ hy
      exact ⟨y', hy', le_trans hyle' hyle⟩
    · exact hest' e' he' hok'

/-! ### The loop -/

/-- the loop-head invariant: (S), (Q), (K) everywhere, and "target labelled → target queued" -/
def Good (I : Inst α) (ok : Nat → Bool) (c H : Nat → α) (source : Nat) (target : Option Nat)
    (q : List (Nat × α)) (g : Nat → Option α) : Prop :=
  Inv I ok c H source q g ∧ (∀ u, KAt I ok c q g u) ∧ (∀ t, target = some t → TQ t q g)

/-- one full loop turn (pop `v`, which is not the target, then relax all of `incident v`)
re-establishes the loop-head invariant; in particular (K) now holds at `v` -/
theorem turn_good {I : Inst α} {ok : Nat → Bool} {c H : Nat → α} {source : Nat}
    {target : Option Nat} (hinc : ∀ v e, e ∈ I.incident v → I.termV e = v) (hc : ∀ e, 0 < c e)
    {q q2 : List (Nat × α)} {g g2 : Nat → Option α} {v : Nat}
    (hgood : Good I ok c H source target q g) (hpop : popOk q v = true)
    (hvt : target ≠ some v)
    (hsteps : RSteps I ok c H (I.incident v) (q.filter (fun p => !(p.1 == v))) g q2 g2) :
    Good I ok c H source target q2 g2 := by
  obtain ⟨hinv, hk, ht⟩ := hgood
  obtain ⟨f, hvf, _⟩ := popOk_spec hpop
  obtain ⟨x, hx, _⟩ := hinv.qval v f hvf
  have hinv1 : Inv I ok c H source (q.filter (fun p => !(p.1 == v))) g := by
    refine ⟨hinv.sound, hinv.src, ?_, keys_filter_nodup _ hinv.qnodup⟩
    intro w f' hw
    exact hinv.qval w f' ((mem_filter_ne _).1 hw).1
  obtain ⟨hinv2, hg2, _, hk2, ht2, hest⟩ :=
    RSteps.all hc (I.incident v) _ g q2 g2 (fun e he => ⟨hinc v e he, he⟩) hinv1 hx hsteps
  refine ⟨hinv2, ?_, ?_⟩
  · intro u
    by_cases hu : u = v
    · subst hu
      intro x' hx' _ e he hok'
      rw [hg2] at hx'
      have : x = x' := by simpa using hx'
      subst this
      exact hest e he hok'
    · apply hk2
      intro x' hx' hclosed
      exact hk u x' hx' (fun f' hf' => hclosed f' ((mem_filter_ne _).2 ⟨hf', hu⟩))
  · intro t htt
    apply ht2
    intro x' hx'
    obtain ⟨f', hf'⟩ := ht t htt x' hx'
    have hne : t ≠ v := by
      intro h; apply hvt; rw [htt, h]
    exact ⟨f', (mem_filter_ne _).2 ⟨hf', hne⟩⟩

/-- `LoopHead I target sched s s'`: started at loop head `s` with schedule `sched`, the loop
reaches loop head `s'` after some number of complete turns (each: accepted pop of a non-target
vertex, the `for` loop over its incident edges succeeds, `iterations += 1`).  Last edge and state
handed to the `for` loop are left arbitrary: under `UniformCost` they do not matter. -/
inductive LoopHead (I : Inst α) (target : Option Nat) : List Nat → SState α → SState α → Prop
  | here (sched : List Nat) (s : SState α) : LoopHead I target sched s s
  | turn {v : Nat} {rest : List Nat} {s s2 s' : SState α} {lastEdge : Option Nat} {st : List α} :
      popOk s.queue v = true → target ≠ some v →
      relaxAll I target.isSome lastEdge st (I.incident v)
        { s with queue := s.queue.filter (fun p => !(p.1 == v)) } = .ok s2 →
      LoopHead I target rest { s2 with iters := s2.iters + 1 } s' →
      LoopHead I target (v :: rest) s s'

/-- the invariant holds at every loop head, for every schedule -/
theorem loopHead_good {I : Inst α} {ok : Nat → Bool} {c hv : Nat → α} (U : UniformCost I ok c)
    {source : Nat} {target : Option Nat} (hh : target.isSome = true → VertexH I hv)
    {sched : List Nat} {s s' : SState α} (hreach : LoopHead I target sched s s')
    (hgood : Good I ok c (Hf target.isSome hv) source target s.queue s.g) :
    Good I ok c (Hf target.isSome hv) source target s'.queue s'.g := by
  induction hreach with
  | here => exact hgood
  | @turn v rest s s2 s' lastEdge st hpop hvt hrel _ ih =>
    obtain ⟨s2', h2, r2⟩ := relaxAll_spec U target.isSome hh lastEdge st (I.incident v)
      { s with queue := s.queue.filter (fun p => !(p.1 == v)) }
    rw [hrel] at h2
    injection h2 with h2
    subst h2
    exact ih (turn_good U.incident_term U.cost_pos hgood hpop hvt r2)

/-- induction principle for `runLoop`: every way the loop can end, with the loop-head invariant
in hand at that moment.  Errors other than the ones listed are passed to `herr`; the only way an
error `noPath` can arise other than from the empty queue is the termination model returning it. -/
theorem runLoop_ind {I : Inst α} {ok : Nat → Bool} {c hv : Nat → α} (U : UniformCost I ok c)
    {source : Nat} {target : Option Nat} (hh : target.isSome = true → VertexH I hv) (Post : Except ErrKind (SState α) → Prop)
    (hnp : ∀ (s : SState α) (t : Nat),
      Good I ok c (Hf target.isSome hv) source target s.queue s.g → s.queue = [] →
      target = some t → Post (.error .noPath))
    (hdone : ∀ s : SState α, Good I ok c (Hf target.isSome hv) source target s.queue s.g →
      s.queue = [] → target = none → Post (.ok s))
    (hpop : ∀ (s : SState α) (t : Nat),
      Good I ok c (Hf target.isSome hv) source target s.queue s.g →
      target = some t → popOk s.queue t = true →
      Post (.ok { s with queue := s.queue.filter (fun p => !(p.1 == t)) }))
    (herr : ∀ k, (k = .noPath → ∃ n i, I.term n i = .error .noPath) → Post (.error k)) :
    ∀ (sched : List Nat) (s : SState α),
      Good I ok c (Hf target.isSome hv) source target s.queue s.g →
      Post (runLoop I source target sched s) := by
  intro sched
  induction sched with
  | nil =>
    intro s hgood
    unfold runLoop
    cases hterm : I.term s.solSize s.iters with
    | error k => exact herr k (fun hk => ⟨_, _, hk ▸ hterm⟩)
    | ok u =>
      simp only
      by_cases hemp : s.queue.isEmpty = true
      · have hq : s.queue = [] := List.isEmpty_iff.1 hemp
        simp only [hemp, if_true]
        cases htar : target with
        | none => exact hdone s hgood hq htar
        | some t => exact hnp s t hgood hq htar
      · rw [if_neg hemp]
        exact herr _ (by simp)
  | cons v rest ih =>
    intro s hgood
    unfold runLoop
    cases hterm : I.term s.solSize s.iters with
    | error k => exact herr k (fun hk => ⟨_, _, hk ▸ hterm⟩)
    | ok u =>
      simp only
      by_cases hemp : s.queue.isEmpty = true
      · have hq : s.queue = [] := List.isEmpty_iff.1 hemp
        simp only [hemp, if_true]
        cases htar : target with
        | none => exact hdone s hgood hq htar
        | some t => exact hnp s t hgood hq htar
      · rw [if_neg hemp]
        by_cases hp : popOk s.queue v = true
        · simp only [hp, Bool.not_true, Bool.false_eq_true, if_false]
          by_cases htv : target = some v
          · have hb : (target == some v) = true := by simp [htv]
            simp only [hb, if_true]
            exact hpop s v hgood htv hp
          · have hb : (target == some v) = false := by simpa using htv
            simp only [hb, Bool.false_eq_true, if_false]
            split
            · exact herr _ (by simp)
            · rename_i lastEdge st hcur
              obtain ⟨s2, h2, r2⟩ := relaxAll_spec U target.isSome hh lastEdge st (I.incident v)
                { s with queue := s.queue.filter (fun p => !(p.1 == v)) }
              rw [h2]
              simp only
              apply ih
              exact turn_good U.incident_term U.cost_pos hgood hp htv r2
        · have hp' : popOk s.queue v = false := by simpa using hp
          simp only [hp', Bool.not_false, if_true]
          exact herr _ (by simp)

/-! ### Initial state and `runAStar` -/

theorem Hf_true (hv : Nat → α) : Hf true hv = hv := by
  funext v; simp [Hf]

theorem init_good (I : Inst α) (ok : Nat → Bool) (c H : Nat → α) (source : Nat)
    (target : Option Nat) :
    Good I ok c H source target (initState source (H source)).queue
      (initState source (H source)).g := by
  have hg : ∀ v x, upd (fun _ => none) source (zero : α) v = some x → v = source ∧ x = 0 := by
    intro v x h
    by_cases hv : v = source
    · subst hv
      rw [upd_same] at h
      refine ⟨rfl, ?_⟩
      have : (zero : α) = x := by simpa using h
      rw [← this, zero_eq]
    · rw [upd_other _ _ hv] at h
      exact absurd h (by simp)
  refine ⟨⟨?_, ?_, ?_, ?_⟩, ?_, ?_⟩
  · intro v x h
    obtain ⟨rfl, rfl⟩ := hg v x h
    exact ⟨[], rfl, rfl⟩
  · exact ⟨0, by simp [initState, zero_eq], le_refl _⟩
  · intro v f h
    simp only [initState, List.mem_singleton, Prod.mk.injEq] at h
    obtain ⟨rfl, rfl⟩ := h
    exact ⟨0, by simp [initState, zero_eq], by simp⟩
  · simp [initState]
  · intro u x hx hclosed
    obtain ⟨rfl, _⟩ := hg u x hx
    exact absurd (by simp [initState]) (hclosed (H u))
  · intro t _ x hx
    obtain ⟨rfl, _⟩ := hg t x hx
    exact ⟨H t, by simp [initState]⟩

/-- `run_a_star` is the loop from the initial state (when the target is not the source) -/
theorem runAStar_eq {I : Inst α} {hv : Nat → α} {source : Nat} {target : Option Nat}
    (hh : target.isSome = true → VertexH I hv) (hts : target ≠ some source) (sched : List Nat) :
    runAStar I source target sched =
      runLoop I source target sched (initState source (Hf target.isSome hv source)) := by
  unfold runAStar
  have hb : (target == some source) = false := by simpa using hts
  simp only [hb, Bool.false_eq_true, if_false]
  cases target with
  | none => simp [Hf, zero_eq]
  | some t => simp [Hf, hh rfl source I.init]

/-- `runLoop_ind` transported to `runAStar` -/
theorem runAStar_ind {I : Inst α} {ok : Nat → Bool} {c hv : Nat → α} (U : UniformCost I ok c)
    {source : Nat} {target : Option Nat} (hh : target.isSome = true → VertexH I hv)
    (hts : target ≠ some source) (Post : Except ErrKind (SState α) → Prop)
    (hnp : ∀ (s : SState α) (t : Nat),
      Good I ok c (Hf target.isSome hv) source target s.queue s.g → s.queue = [] →
      target = some t → Post (.error .noPath))
    (hdone : ∀ s : SState α, Good I ok c (Hf target.isSome hv) source target s.queue s.g →
      s.queue = [] → target = none → Post (.ok s))
    (hpop : ∀ (s : SState α) (t : Nat),
      Good I ok c (Hf target.isSome hv) source target s.queue s.g →
      target = some t → popOk s.queue t = true →
      Post (.ok { s with queue := s.queue.filter (fun p => !(p.1 == t)) }))
    (herr : ∀ k, (k = .noPath → ∃ n i, I.term n i = .error .noPath) → Post (.error k))
    (sched : List Nat) : Post (runAStar I source target sched) := by
  rw [runAStar_eq hh hts]
  exact runLoop_ind U hh Post hnp hdone hpop herr sched _ (init_good I ok c _ source target)

/-- export for other proofs: the labels of a successful run satisfy the loop-head invariant
together with the queue `q` of the last loop head (empty without target; with the target as an
accepted pop otherwise) -/
theorem runAStar_ok_good {I : Inst α} {ok : Nat → Bool} {c hv : Nat → α} (U : UniformCost I ok c)
    {source : Nat} {target : Option Nat} (hh : target.isSome = true → VertexH I hv)
    (hts : target ≠ some source) {sched : List Nat} {s : SState α}
    (hrun : runAStar I source target sched = .ok s) :
    ∃ q, Good I ok c (Hf target.isSome hv) source target q s.g ∧
      ((target = none ∧ q = [] ∧ s.queue = []) ∨
       (∃ t, target = some t ∧ popOk q t = true ∧
          s.queue = q.filter (fun p => !(p.1 == t)))) := by
  refine runAStar_ind U hh hts
    (fun r => ∀ s, r = .ok s → ∃ q, Good I ok c (Hf target.isSome hv) source target q s.g ∧
      ((target = none ∧ q = [] ∧ s.queue = []) ∨
       (∃ t, target = some t ∧ popOk q t = true ∧
          s.queue = q.filter (fun p => !(p.1 == t))))) ?_ ?_ ?_ ?_ sched s hrun
  · intro _ _ _ _ _ s h; cases h
  · intro s0 hgood hq htar s' hs'
    injection hs' with hs'
    subst hs'
    exact ⟨s0.queue, hgood, Or.inl ⟨htar, hq, hq⟩⟩
  · intro s0 t hgood htar hpop s' hs'
    injection hs' with hs'
    subst hs'
    exact ⟨s0.queue, hgood, Or.inr ⟨t, htar, hpop, rfl⟩⟩
  · intro _ _ s h; cases h

/-! ### Consequences of the invariants at the two kinds of final state -/

section final
variable {I : Inst α} {ok : Nat → Bool} {c H : Nat → α} {source : Nat} {target : Option Nat}
  {q : List (Nat × α)} {g : Nat → Option α}

/-- with an empty queue every labelled vertex is closed, so by (K) labels propagate along walks -/
theorem closed_walk (hgood : Good I ok c H source target [] g) :
    ∀ (es : List Nat) (u v : Nat) (x : α), g u = some x → Walk I ok u es v →
      ∃ y, g v = some y ∧ y ≤ x + cost c es
  | [], u, v, x, hx, hw => by
    simp only [Walk] at hw
    subst hw
    exact ⟨x, hx, by simp [cost]⟩
  | e :: es, u, v, x, hx, hw => by
    obtain ⟨hok, hinc, hterm, hrest⟩ := hw
    subst hterm
    obtain ⟨y, hy, hyle⟩ := hgood.2.1 _ x hx (fun f hf => by simp at hf) e hinc hok
    obtain ⟨z, hz, hzle⟩ := closed_walk hgood es _ v y hy hrest
    refine ⟨z, hz, ?_⟩
    simp only [cost]
    linarith

/-- at the moment the target is popped its label is at most `label u + cost` of any valid walk
from any labelled `u` (A.1: a closed vertex passes the bound on by (K); a queued one has
`f ≥ f_target`, and `H` is admissible) -/
theorem popped_walk (hgood : Good I ok c H source target q g) (hH : ∀ v, 0 ≤ H v) {t : Nat}
    (hadm : Admissible I ok c H t) {ft d : α} (hgt : g t = some d) (hft : ft = d + H t)
    (hmin : ∀ p ∈ q, ft ≤ p.2) :
    ∀ (es : List Nat) (u : Nat) (x : α), g u = some x → Walk I ok u es t → d ≤ x + cost c es
  | es, u, x, hx, hw => by
    by_cases hq : ∃ f, (u, f) ∈ q
    · obtain ⟨f, hf⟩ := hq
      obtain ⟨x', hx', hfx⟩ := hgood.1.qval u f hf
      rw [hx] at hx'
      have hxx : x = x' := by simpa using hx'
      subst hxx
      have h1 := hmin _ hf
      have h2 := hadm u es hw
      have h3 := hH t
      simp only at h1
      linarith
    · match es, hw with
      | [], hw =>
        simp only [Walk] at hw
        subst hw
        rw [hx] at hgt
        have : x = d := by simpa using hgt
        simp [cost, this]
      | e :: es, hw =>
        obtain ⟨hok, hinc, hterm, hrest⟩ := hw
        subst hterm
        have hclosed : ∀ f, (I.termV e, f) ∉ q := fun f hf => hq ⟨f, hf⟩
        obtain ⟨y, hy, hyle⟩ := hgood.2.1 _ x hx hclosed e hinc hok
        have := popped_walk hgood hH hadm hgt hft hmin es _ y hy hrest
        simp only [cost]
        linarith

end final

/-! ### C02 core: label optimality -/

/-- **Label optimality** (Dijkstra and A* with an admissible heuristic, closed vertices may be
re-opened): for every instance in the setting, every source, every target `t ≠ source` and every
accepted schedule, a successful run labels the target with the least cost of a valid walk
`source ⇝ t`, and that cost is attained. -/
theorem label_optimal {I : Inst α} {ok : Nat → Bool} {c hv : Nat → α} (U : Uniform I ok c hv)
    {source t : Nat} (hts : t ≠ source) (hadm : Admissible I ok c hv t)
    {sched : List Nat} {s : SState α} (hrun : runAStar I source (some t) sched = .ok s) :
    ∃ d, s.g t = some d ∧ (∃ es, Walk I ok source es t ∧ cost c es = d) ∧
      ∀ es, Walk I ok source es t → d ≤ cost c es := by
  have hts' : (some t : Option Nat) ≠ some source := by simpa using hts
  refine runAStar_ind U.toUniformCost (hv := hv) (target := some t) (fun _ => U.h_eq) hts'
    (fun r => ∀ s, r = .ok s → ∃ d, s.g t = some d ∧
      (∃ es, Walk I ok source es t ∧ cost c es = d) ∧
      ∀ es, Walk I ok source es t → d ≤ cost c es) ?_ ?_ ?_ ?_ sched s hrun
  · intro _ _ _ _ _ s h; cases h
  · intro _ _ _ htar; cases htar
  · intro s0 t' hgood htar hpop s' hs'
    cases htar
    have hs : s' = { s0 with queue := s0.queue.filter (fun p => !(p.1 == t)) } := by
      injection hs' with h; exact h.symm
    subst hs
    rw [show Hf (some t).isSome hv = hv from Hf_true hv] at hgood
    obtain ⟨ft, hmem, hmin⟩ := popOk_spec hpop
    obtain ⟨d, hd, hft⟩ := hgood.1.qval t ft hmem
    refine ⟨d, hd, hgood.1.sound _ _ hd, fun es hw => ?_⟩
    have h0 := hgood.1.src_zero U.cost_pos
    have := popped_walk hgood U.h_nonneg hadm hd hft hmin es source 0 h0 hw
    simpa using this
  · intro _ _ s h; cases h

/-- Dijkstra is the case `h = 0`: no admissibility premise is needed -/
theorem dijkstra_label_optimal {I : Inst α} {ok : Nat → Bool} {c : Nat → α}
    (U : UniformCost I ok c) (h0 : ∀ v st, I.h v st = .ok 0)
    {source t : Nat} (hts : t ≠ source)
    {sched : List Nat} {s : SState α} (hrun : runAStar I source (some t) sched = .ok s) :
    ∃ d, s.g t = some d ∧ (∃ es, Walk I ok source es t ∧ cost c es = d) ∧
      ∀ es, Walk I ok source es t → d ≤ cost c es := by
  have U' : Uniform I ok c (fun _ => 0) := { U with h_eq := h0, h_nonneg := fun _ => le_refl _ }
  exact label_optimal U' hts (fun v es _ => cost_nonneg U.cost_pos es) hrun

/-- walks only depend on the graph part of the instance -/
theorem Walk.congr {I I' : Inst α} {ok : Nat → Bool} (hi : I'.incident = I.incident)
    (hk : I'.keyV = I.keyV) (ht : I'.termV = I.termV) :
    ∀ (es : List Nat) (u v : Nat), Walk I' ok u es v ↔ Walk I ok u es v
  | [], u, v => Iff.rfl
  | e :: es, u, v => by
    simp only [Walk, hi, hk, ht, Walk.congr hi hk ht es]

/-- two successful runs on the same graph, validity and edge costs — any two accepted schedules,
any two admissible vertex heuristics — give the target the same label -/
theorem label_unique {I I' : Inst α} {ok : Nat → Bool} {c hv hv' : Nat → α}
    (U : Uniform I ok c hv) (U' : Uniform I' ok c hv')
    (hi : I'.incident = I.incident) (hk : I'.keyV = I.keyV) (ht : I'.termV = I.termV)
    {source t : Nat} (hadm : Admissible I ok c hv t) (hadm' : Admissible I' ok c hv' t)
    {sched sched' : List Nat} {s s' : SState α}
    (hrun : runAStar I source (some t) sched = .ok s)
    (hrun' : runAStar I' source (some t) sched' = .ok s') : s.g t = s'.g t := by
  by_cases hts : t = source
  · subst hts
    simp only [runAStar, beq_self_eq_true, if_true] at hrun hrun'
    injection hrun with h; injection hrun' with h'
    rw [← h, ← h']
  · obtain ⟨d, hd, ⟨es, hw, hcost⟩, hmin⟩ := label_optimal U hts hadm hrun
    obtain ⟨d', hd', ⟨es', hw', hcost'⟩, hmin'⟩ := label_optimal U' hts hadm' hrun'
    have h1 := hmin es' ((Walk.congr hi hk ht es' source t).1 hw')
    have h2 := hmin' es ((Walk.congr hi hk ht es source t).2 hw)
    have : d = d' := le_antisymm (by rw [hcost'] at h1; exact h1) (by rw [hcost] at h2; exact h2)
    rw [hd, hd', this]

/-- **A\* = Dijkstra**: a run with an admissible heuristic and a run of the same instance with the
heuristic replaced by 0 (any two accepted schedules) give the target the same label -/
theorem astar_eq_dijkstra {I : Inst α} {ok : Nat → Bool} {c hv : Nat → α} (U : Uniform I ok c hv)
    {source t : Nat} (hadm : Admissible I ok c hv t)
    {sched sched' : List Nat} {s s' : SState α}
    (hrun : runAStar I source (some t) sched = .ok s)
    (hrun' : runAStar { I with h := fun _ _ => .ok 0 } source (some t) sched' = .ok s') :
    s.g t = s'.g t := by
  have U' : Uniform { I with h := fun _ _ => .ok 0 } ok c (fun _ => 0) :=
    { incident_term := U.incident_term, valid_eq := U.valid_eq, trav_eq := U.trav_eq,
      cost_pos := U.cost_pos, h_eq := fun _ _ => rfl, h_nonneg := fun _ => le_refl _ }
  exact label_unique U U' rfl rfl rfl hadm (fun v es _ => cost_nonneg U.cost_pos es) hrun hrun'

/-! ### C05: reachability -/

/-- a run that reports "no path" is right: there is no valid walk `source ⇝ t`.  Holds for every
vertex heuristic (no admissibility, not even non-negativity) and under limits, as long as the
termination model's own error is not `noPath`. -/
theorem nopath_imp_unreachable {I : Inst α} {ok : Nat → Bool} {c hv : Nat → α}
    (U : UniformCost I ok c) (hh : VertexH I hv) (hterm : TermNotNoPath I)
    {source t : Nat} {sched : List Nat}
    (hrun : runAStar I source (some t) sched = .error .noPath) :
    ¬ ∃ es, Walk I ok source es t := by
  by_cases hts : t = source
  · subst hts
    simp [runAStar] at hrun
  have hts' : (some t : Option Nat) ≠ some source := by simpa using hts
  refine runAStar_ind U (hv := hv) (target := some t) (fun _ => hh) hts'
    (fun r => r = .error .noPath → ¬ ∃ es, Walk I ok source es t) ?_ ?_ ?_ ?_ sched hrun
  · intro s0 t' hgood hq htar _ hex
    cases htar
    obtain ⟨es, hw⟩ := hex
    rw [hq] at hgood
    obtain ⟨x, hx, _⟩ := hgood.1.src
    obtain ⟨y, hy, _⟩ := closed_walk hgood es source t x hx hw
    obtain ⟨f, hf⟩ := hgood.2.2 t rfl y hy
    simp at hf
  · intro _ _ _ _ h; cases h
  · intro _ _ _ _ _ h; cases h
  · intro k hk h
    injection h with h
    obtain ⟨n, i, hni⟩ := hk h
    exact absurd hni (hterm n i)

/-- a successful run has labelled the target, and the label is the cost of a valid walk -/
theorem ok_imp_reachable {I : Inst α} {ok : Nat → Bool} {c hv : Nat → α}
    (U : UniformCost I ok c) (hh : VertexH I hv)
    {source t : Nat} (hts : t ≠ source) {sched : List Nat} {s : SState α}
    (hrun : runAStar I source (some t) sched = .ok s) :
    ∃ d es, s.g t = some d ∧ Walk I ok source es t ∧ cost c es = d := by
  have hts' : (some t : Option Nat) ≠ some source := by simpa using hts
  refine runAStar_ind U (hv := hv) (target := some t) (fun _ => hh) hts'
    (fun r => ∀ s, r = .ok s → ∃ d es, s.g t = some d ∧ Walk I ok source es t ∧ cost c es = d)
    ?_ ?_ ?_ ?_ sched s hrun
  · intro _ _ _ _ _ s h; cases h
  · intro _ _ _ htar; cases htar
  · intro s0 t' hgood htar hpop s' hs'
    cases htar
    have hs : s' = { s0 with queue := s0.queue.filter (fun p => !(p.1 == t)) } := by
      injection hs' with h; exact h.symm
    subst hs
    obtain ⟨ft, hmem, _⟩ := popOk_spec hpop
    obtain ⟨d, hd, _⟩ := hgood.1.qval t ft hmem
    obtain ⟨es, hw, hcost⟩ := hgood.1.sound _ _ hd
    exact ⟨d, es, hd, hw, hcost⟩
  · intro _ _ s h; cases h

/-- for a run that ended with success or with "no path": success exactly when the target is
reachable by a valid walk -/
theorem ok_iff_reachable {I : Inst α} {ok : Nat → Bool} {c hv : Nat → α}
    (U : UniformCost I ok c) (hh : VertexH I hv) (hterm : TermNotNoPath I)
    {source t : Nat} {sched : List Nat}
    (hres : (∃ s, runAStar I source (some t) sched = .ok s) ∨
      runAStar I source (some t) sched = .error .noPath) :
    (∃ s, runAStar I source (some t) sched = .ok s) ↔ ∃ es, Walk I ok source es t := by
  constructor
  · rintro ⟨s, hs⟩
    by_cases hts : t = source
    · exact ⟨[], hts.symm⟩
    · obtain ⟨_, es, _, hw, _⟩ := ok_imp_reachable U hh hts hs
      exact ⟨es, hw⟩
  · intro hex
    rcases hres with h | h
    · exact h
    · exact absurd hex (nopath_imp_unreachable U hh hterm h)

/-- the same with "no path" on the left -/
theorem nopath_iff_unreachable {I : Inst α} {ok : Nat → Bool} {c hv : Nat → α}
    (U : UniformCost I ok c) (hh : VertexH I hv) (hterm : TermNotNoPath I)
    {source t : Nat} {sched : List Nat}
    (hres : (∃ s, runAStar I source (some t) sched = .ok s) ∨
      runAStar I source (some t) sched = .error .noPath) :
    runAStar I source (some t) sched = .error .noPath ↔ ¬ ∃ es, Walk I ok source es t := by
  constructor
  · exact nopath_imp_unreachable U hh hterm
  · intro hno
    rcases hres with ⟨s, hs⟩ | h
    · exact absurd ((ok_iff_reachable U hh hterm (Or.inl ⟨s, hs⟩)).1 ⟨s, hs⟩) hno
    · exact h

/-! ### Destination-less search -/

/-- the tree of a destination-less search labels exactly the vertices reachable by a valid walk -/
theorem tree_eq_reachable {I : Inst α} {ok : Nat → Bool} {c : Nat → α} (U : UniformCost I ok c)
    {source : Nat} {sched : List Nat} {s : SState α}
    (hrun : runAStar I source none sched = .ok s) (v : Nat) :
    (∃ x, s.g v = some x) ↔ ∃ es, Walk I ok source es v := by
  refine runAStar_ind U (hv := fun _ => (0 : α)) (target := none) (fun h => by cases h)
    (by simp) (fun r => ∀ s, r = .ok s →
      ((∃ x, s.g v = some x) ↔ ∃ es, Walk I ok source es v)) ?_ ?_ ?_ ?_ sched s hrun
  · intro _ _ _ _ htar; cases htar
  · intro s0 hgood hq _ s' hs'
    injection hs' with hs'
    subst hs'
    rw [hq] at hgood
    constructor
    · rintro ⟨x, hx⟩
      obtain ⟨es, hw, _⟩ := hgood.1.sound _ _ hx
      exact ⟨es, hw⟩
    · rintro ⟨es, hw⟩
      obtain ⟨x, hx, _⟩ := hgood.1.src
      obtain ⟨y, hy, _⟩ := closed_walk hgood es source v x hx hw
      exact ⟨y, hy⟩
  · intro _ _ _ htar; cases htar
  · intro _ _ s h; cases h

/-- and every label of a destination-less search is the least cost of a valid walk from the
source, attained -/
theorem tree_labels_optimal {I : Inst α} {ok : Nat → Bool} {c : Nat → α} (U : UniformCost I ok c)
    {source : Nat} {sched : List Nat} {s : SState α}
    (hrun : runAStar I source none sched = .ok s) (v : Nat) (x : α) (hx : s.g v = some x) :
    (∃ es, Walk I ok source es v ∧ cost c es = x) ∧
      ∀ es, Walk I ok source es v → x ≤ cost c es := by
  refine runAStar_ind U (hv := fun _ => (0 : α)) (target := none) (fun h => by cases h)
    (by simp) (fun r => ∀ s, r = .ok s → s.g v = some x →
      (∃ es, Walk I ok source es v ∧ cost c es = x) ∧
        ∀ es, Walk I ok source es v → x ≤ cost c es) ?_ ?_ ?_ ?_ sched s hrun hx
  · intro _ _ _ _ htar; cases htar
  · intro s0 hgood hq _ s' hs' hx
    injection hs' with hs'
    subst hs'
    rw [hq] at hgood
    refine ⟨hgood.1.sound _ _ hx, fun es hw => ?_⟩
    have h0 := hgood.1.src_zero U.cost_pos
    obtain ⟨y, hy, hyle⟩ := closed_walk hgood es source v 0 h0 hw
    rw [hx] at hy
    have : x = y := by simpa using hy
    rw [this]; simpa using hyle
  · intro _ _ _ htar; cases htar
  · intro _ _ s h; cases h

/-! ### The reachability theorems in the packaged setting `Uniform` + `NoLimit` -/

theorem nopath_imp_unreachable_uniform {I : Inst α} {ok : Nat → Bool} {c hv : Nat → α}
    (U : Uniform I ok c hv) (hlim : NoLimit I) {source t : Nat} {sched : List Nat}
    (hrun : runAStar I source (some t) sched = .error .noPath) :
    ¬ ∃ es, Walk I ok source es t :=
  nopath_imp_unreachable U.toUniformCost U.h_eq hlim.termNotNoPath hrun

theorem ok_imp_reachable_uniform {I : Inst α} {ok : Nat → Bool} {c hv : Nat → α}
    (U : Uniform I ok c hv) {source t : Nat} (hts : t ≠ source) {sched : List Nat}
    {s : SState α} (hrun : runAStar I source (some t) sched = .ok s) :
    ∃ d es, s.g t = some d ∧ Walk I ok source es t ∧ cost c es = d :=
  ok_imp_reachable U.toUniformCost U.h_eq hts hrun

theorem ok_iff_reachable_uniform {I : Inst α} {ok : Nat → Bool} {c hv : Nat → α}
    (U : Uniform I ok c hv) (hlim : NoLimit I) {source t : Nat} {sched : List Nat}
    (hres : (∃ s, runAStar I source (some t) sched = .ok s) ∨
      runAStar I source (some t) sched = .error .noPath) :
    (∃ s, runAStar I source (some t) sched = .ok s) ↔ ∃ es, Walk I ok source es t :=
  ok_iff_reachable U.toUniformCost U.h_eq hlim.termNotNoPath hres

/-! ### Admissibility from consistency (how the premise is discharged in practice) -/

/-- a potential that is consistent on valid edges and non-positive at the target is admissible -/
theorem admissible_of_consistent {I : Inst α} {ok : Nat → Bool} {c hv : Nat → α} {t : Nat}
    (hcons : ∀ v, ∀ e ∈ I.incident v, ok e = true → hv v ≤ c e + hv (I.keyV e))
    (ht : hv t ≤ 0) : Admissible I ok c hv t := by
  have key : ∀ (es : List Nat) (v : Nat), Walk I ok v es t → hv v ≤ cost c es + hv t := by
    intro es
    induction es with
    | nil =>
      intro v hw
      simp only [Walk] at hw
      subst hw
      simp [cost]
    | cons e es ih =>
      intro v hw
      obtain ⟨hok, hinc, hterm, hrest⟩ := hw
      subst hterm
      have h1 := hcons _ e hinc hok
      have h2 := ih _ hrest
      simp only [cost]
      linarith
  intro v es hw
  have := key es v hw
  linarith

/-- anything below an admissible heuristic is admissible -/
theorem Admissible.mono {I : Inst α} {ok : Nat → Bool} {c hv hv' : Nat → α} {t : Nat}
    (h : Admissible I ok c hv t) (hle : ∀ v, hv' v ≤ hv v) : Admissible I ok c hv' t :=
  fun v es hw => le_trans (hle v) (h v es hw)

/-! ### Generalisation: premises restricted to the calls the search really makes

`UniformCost` asks the frontier and traversal models to answer — and to answer uniformly — on *every*
state vector and every "last edge".  A concrete configuration (`Config.inst`) cannot meet that: on a
malformed state (wrong length) or an unknown last edge its traversal fails.  `UniformCostOn` asks
only for what the search uses:

* a predicate `S lastEdge state` that holds of `(none, I.init)` and is passed on by every successful
  traversal to `(some e, result state)` — so it holds of every pair `relax` is ever called with (the
  source's initial pair, or the pair stored in a tree entry);
* on such pairs, *when the model answers*, the verdict is `ok e` and the charged cost is `c e`.

Failing calls need no premise: a failing call fails the run, and every theorem is about runs that
returned (a result, or "no path" — for the latter the components must not themselves answer
"no path", `NoSpuriousNoPath`). -/

/-- `UniformCost` relative to an invariant `S` of the (last edge, state) pairs, in partial-correctness
form -/
structure UniformCostOn (I : Inst α) (S : Option Nat → List α → Prop) (ok : Nat → Bool)
    (c : Nat → α) : Prop where
  incident_term : ∀ v e, e ∈ I.incident v → I.termV e = v
  init_ok : S none I.init
  valid_eq : ∀ e le st b, S le st → I.valid e st le = .ok b → b = ok e
  trav_eq : ∀ e le st ac tc st', S le st → I.valid e st le = .ok true →
    I.trav e le st = .ok (ac, tc, st') → ac + tc = c e ∧ S (some e) st'
  cost_pos : ∀ e, 0 < c e

/-- the heuristic, when it answers on a pair satisfying `S`, answers `hv v` -/
def VertexHOn (I : Inst α) (S : Option Nat → List α → Prop) (hv : Nat → α) : Prop :=
  ∀ v le st x, S le st → I.h v st = .ok x → x = hv v

/-- `Uniform` relative to `S` -/
structure UniformOn (I : Inst α) (S : Option Nat → List α → Prop) (ok : Nat → Bool)
    (c : Nat → α) (hv : Nat → α) : Prop extends UniformCostOn I S ok c where
  h_eq : VertexHOn I S hv
  h_nonneg : ∀ v, 0 ≤ hv v

/-- no component answers "no path" by itself (the Rust errors of the frontier, traversal, cost and
termination models are other variants) -/
structure NoSpuriousNoPath (I : Inst α) : Prop where
  valid : ∀ e st le, I.valid e st le ≠ .error .noPath
  trav : ∀ e le st, I.trav e le st ≠ .error .noPath
  h : ∀ v st, I.h v st ≠ .error .noPath
  term : TermNotNoPath I

theorem UniformCost.toOn {I : Inst α} {ok : Nat → Bool} {c : Nat → α} (U : UniformCost I ok c) :
    UniformCostOn I (fun _ _ => True) ok c where
  incident_term := U.incident_term
  init_ok := trivial
  valid_eq := by
    intro e le st b _ h
    rw [U.valid_eq] at h
    injection h with h
    exact h.symm
  trav_eq := by
    intro e le st ac tc st' _ _ h
    obtain ⟨ac', tc', st'', h', hc⟩ := U.trav_eq e le st
    rw [h] at h'
    simp only [Except.ok.injEq, Prod.mk.injEq] at h'
    obtain ⟨h1, h2, _⟩ := h'
    rw [h1, h2]
    exact ⟨hc, trivial⟩
  cost_pos := U.cost_pos

theorem VertexH.toOn {I : Inst α} {hv : Nat → α} (h : VertexH I hv) :
    VertexHOn I (fun _ _ => True) hv := by
  intro v le st x _ hx
  rw [h v st] at hx
  injection hx with hx
  exact hx.symm

theorem Uniform.toOn {I : Inst α} {ok : Nat → Bool} {c hv : Nat → α} (U : Uniform I ok c hv) :
    UniformOn I (fun _ _ => True) ok c hv :=
  { U.toUniformCost.toOn with h_eq := VertexH.toOn U.h_eq, h_nonneg := U.h_nonneg }

theorem NoSpuriousNoPath.of_uniformCost {I : Inst α} {ok : Nat → Bool} {c hv : Nat → α}
    (U : UniformCost I ok c) (hh : VertexH I hv) (hterm : TermNotNoPath I) :
    NoSpuriousNoPath I where
  valid := by intro e st le; rw [U.valid_eq]; simp
  trav := by
    intro e le st
    obtain ⟨ac, tc, st', h, _⟩ := U.trav_eq e le st
    rw [h]; simp
  h := by intro v st; rw [hh v st]; simp
  term := hterm

/-- what every tree entry records: a pair satisfying `S`, a permitted edge, that edge's cost -/
def SolOK (S : Option Nat → List α → Prop) (ok : Nat → Bool) (c : Nat → α)
    (sol : Nat → Option (Branch α)) : Prop :=
  ∀ v b, sol v = some b →
    S (some b.edge) b.state ∧ ok b.edge = true ∧ b.access + b.traversal = c b.edge

theorem solOK_empty (S : Option Nat → List α → Prop) (ok : Nat → Bool) (c : Nat → α) :
    SolOK S ok c (fun _ => none) := by
  intro v b h; cases h

theorem solOK_upd {S : Option Nat → List α → Prop} {ok : Nat → Bool} {c : Nat → α}
    {sol : Nat → Option (Branch α)} (h : SolOK S ok c sol) (k : Nat) {b : Branch α}
    (hb : S (some b.edge) b.state ∧ ok b.edge = true ∧ b.access + b.traversal = c b.edge) :
    SolOK S ok c (upd sol k b) := by
  intro v b' hb'
  by_cases hv : v = k
  · subst hv
    rw [upd_same] at hb'
    cases hb'
    exact hb
  · rw [upd_other _ _ hv] at hb'
    exact h v b' hb'

/-- a successful `relax` on a pair satisfying `S` is an abstract relaxation step and keeps the
entries `SolOK` -/
theorem relax_ok_on {I : Inst α} {S : Option Nat → List α → Prop} {ok : Nat → Bool}
    {c hv : Nat → α} (U : UniformCostOn I S ok c) (hasT : Bool)
    (hh : hasT = true → VertexHOn I S hv) {le : Option Nat} {st : List α} (hS : S le st)
    {s s' : SState α} {e : Nat} (h : relax I hasT le st s e = .ok s') :
    RStep I ok c (Hf hasT hv) s.queue s.g e s'.queue s'.g ∧
      (SolOK S ok c s.sol → SolOK S ok c s'.sol) := by
  unfold relax at h
  cases hval : I.valid e st le with
  | error k => rw [hval] at h; cases h
  | ok b =>
    have hb := U.valid_eq e le st b hS hval
    rw [hval] at h
    cases b with
    | false =>
      simp only at h
      cases h
      refine ⟨Or.inl ⟨rfl, rfl, fun hok => ?_⟩, id⟩
      rw [← hb] at hok; cases hok
    | true =>
      simp only at h
      cases htr : I.trav e le st with
      | error k => rw [htr] at h; cases h
      | ok r =>
        obtain ⟨ac, tc, st'⟩ := r
        obtain ⟨hc, hS'⟩ := U.trav_eq e le st ac tc st' hS hval htr
        rw [htr] at h
        simp only at h
        cases hg : s.g (I.termV e) with
        | none =>
          rw [hg] at h
          cases h
          exact ⟨Or.inl ⟨rfl, rfl, fun _ gt hgt => by rw [hg] at hgt; cases hgt⟩, id⟩
        | some gt =>
          rw [hg] at h
          simp only [hc] at h
          cases himp : improves (gt + c e) (s.g (I.keyV e)) with
          | false =>
            rw [himp] at h
            simp only [Bool.false_eq_true, if_false] at h
            cases h
            refine ⟨Or.inl ⟨rfl, rfl, fun _ gt' hgt' => ?_⟩, id⟩
            rw [hg] at hgt'
            have : gt = gt' := by simpa using hgt'
            subst this; exact himp
          | true =>
            rw [himp] at h
            simp only [if_true] at h
            cases hhv : (if hasT = true then I.h (I.keyV e) st else Except.ok (zero : α)) with
            | error k => rw [hhv] at h; cases h
            | ok x =>
              have hx : x = Hf hasT hv (I.keyV e) := by
                cases hasT with
                | false =>
                  simp only [Bool.false_eq_true, if_false] at hhv
                  injection hhv with hhv
                  simp [Hf, ← hhv, zero_eq]
                | true =>
                  simp only [if_true] at hhv
                  simp only [Hf, if_true]
                  exact hh rfl _ le st x hS hhv
              rw [hhv] at h
              simp only at h
              cases h
              refine ⟨Or.inr ⟨gt, hb.symm, hg, himp, rfl, by rw [hx]⟩, fun hsol => ?_⟩
              exact solOK_upd hsol _ ⟨hS', hb.symm, hc⟩

/-- a `relax` whose components never answer "no path" never answers "no path" -/
theorem relax_not_noPath {I : Inst α} (hyg : NoSpuriousNoPath I) (hasT : Bool) (le : Option Nat)
    (st : List α) (s : SState α) (e : Nat) : relax I hasT le st s e ≠ .error .noPath := by
  intro h
  unfold relax at h
  split at h
  · rename_i k hk
    injection h with h
    exact hyg.valid e st le (h ▸ hk)
  · cases h
  · split at h
    · rename_i k hk
      injection h with h
      exact hyg.trav e le st (h ▸ hk)
    · split at h
      · cases h
      · simp only at h
        split at h
        · split at h
          · rename_i k hk
            injection h with h
            subst h
            cases hasT with
            | false => simp at hk
            | true => simp only [if_true] at hk; exact hyg.h _ _ hk
          · cases h
        · cases h

theorem relaxAll_ok_on {I : Inst α} {S : Option Nat → List α → Prop} {ok : Nat → Bool}
    {c hv : Nat → α} (U : UniformCostOn I S ok c) (hasT : Bool)
    (hh : hasT = true → VertexHOn I S hv) {le : Option Nat} {st : List α} (hS : S le st) :
    ∀ (es : List Nat) (s s' : SState α), relaxAll I hasT le st es s = .ok s' →
      RSteps I ok c (Hf hasT hv) es s.queue s.g s'.queue s'.g ∧
        (SolOK S ok c s.sol → SolOK S ok c s'.sol)
  | [], s, s', h => by
    simp only [relaxAll] at h
    cases h
    exact ⟨⟨rfl, rfl⟩, id⟩
  | e :: es, s, s', h => by
    simp only [relaxAll] at h
    split at h
    · cases h
    · rename_i s1 h1
      obtain ⟨r1, k1⟩ := relax_ok_on U hasT hh hS h1
      obtain ⟨r2, k2⟩ := relaxAll_ok_on U hasT hh hS es s1 s' h
      exact ⟨⟨s1.queue, s1.g, r1, r2⟩, fun hs => k2 (k1 hs)⟩

theorem relaxAll_not_noPath {I : Inst α} (hyg : NoSpuriousNoPath I) (hasT : Bool) (le : Option Nat)
    (st : List α) : ∀ (es : List Nat) (s : SState α),
      relaxAll I hasT le st es s ≠ .error .noPath
  | [], s => by simp [relaxAll]
  | e :: es, s => by
    intro h
    simp only [relaxAll] at h
    split at h
    · rename_i k hk
      injection h with h
      exact relax_not_noPath hyg hasT le st s e (h ▸ hk)
    · exact relaxAll_not_noPath hyg hasT le st es _ h

/-- the loop-head invariant with the tree entries -/
def GoodOn (I : Inst α) (S : Option Nat → List α → Prop) (ok : Nat → Bool) (c H : Nat → α)
    (source : Nat) (target : Option Nat) (s : SState α) : Prop :=
  Good I ok c H source target s.queue s.g ∧ SolOK S ok c s.sol

/-- `runLoop_ind` for `UniformCostOn`: every way the loop can end, with the loop-head invariant and
`SolOK` in hand at that moment.  An error `noPath` other than from the empty queue means some
component answered "no path" itself. -/
theorem runLoop_ind_on {I : Inst α} {S : Option Nat → List α → Prop} {ok : Nat → Bool}
    {c hv : Nat → α} (U : UniformCostOn I S ok c)
    {source : Nat} {target : Option Nat} (hh : target.isSome = true → VertexHOn I S hv)
    (Post : Except ErrKind (SState α) → Prop)
    (hnp : ∀ (s : SState α) (t : Nat),
      GoodOn I S ok c (Hf target.isSome hv) source target s → s.queue = [] →
      target = some t → Post (.error .noPath))
    (hdone : ∀ s : SState α, GoodOn I S ok c (Hf target.isSome hv) source target s →
      s.queue = [] → target = none → Post (.ok s))
    (hpop : ∀ (s : SState α) (t : Nat),
      GoodOn I S ok c (Hf target.isSome hv) source target s →
      target = some t → popOk s.queue t = true →
      Post (.ok { s with queue := s.queue.filter (fun p => !(p.1 == t)) }))
    (herr : ∀ k, (k = .noPath → ¬ NoSpuriousNoPath I) → Post (.error k)) :
    ∀ (sched : List Nat) (s : SState α),
      GoodOn I S ok c (Hf target.isSome hv) source target s →
      Post (runLoop I source target sched s) := by
  intro sched
  induction sched with
  | nil =>
    intro s hgood
    unfold runLoop
    cases hterm : I.term s.solSize s.iters with
    | error k => exact herr k (fun hk hyg => hyg.term _ _ (hk ▸ hterm))
    | ok u =>
      simp only
      by_cases hemp : s.queue.isEmpty = true
      · have hq : s.queue = [] := List.isEmpty_iff.1 hemp
        simp only [hemp, if_true]
        cases htar : target with
        | none => exact hdone s hgood hq htar
        | some t => exact hnp s t hgood hq htar
      · rw [if_neg hemp]
        exact herr _ (by simp)
  | cons v rest ih =>
    intro s hgood
    unfold runLoop
    cases hterm : I.term s.solSize s.iters with
    | error k => exact herr k (fun hk hyg => hyg.term _ _ (hk ▸ hterm))
    | ok u =>
      simp only
      by_cases hemp : s.queue.isEmpty = true
      · have hq : s.queue = [] := List.isEmpty_iff.1 hemp
        simp only [hemp, if_true]
        cases htar : target with
        | none => exact hdone s hgood hq htar
        | some t => exact hnp s t hgood hq htar
      · rw [if_neg hemp]
        by_cases hp : popOk s.queue v = true
        · simp only [hp, Bool.not_true, Bool.false_eq_true, if_false]
          by_cases htv : target = some v
          · have hb : (target == some v) = true := by simp [htv]
            simp only [hb, if_true]
            exact hpop s v hgood htv hp
          · have hb : (target == some v) = false := by simpa using htv
            simp only [hb, Bool.false_eq_true, if_false]
            split
            · exact herr _ (by simp)
            · rename_i lastEdge st hcur
              have hS : S lastEdge st := by
                by_cases hvs : v = source
                · simp only [hvs, if_true] at hcur
                  cases hcur
                  exact U.init_ok
                · simp only [hvs, if_false] at hcur
                  split at hcur
                  · rename_i b hb'
                    cases hcur
                    exact (hgood.2 v b hb').1
                  · cases hcur
              cases h2 : relaxAll I target.isSome lastEdge st (I.incident v)
                  { s with queue := s.queue.filter (fun p => !(p.1 == v)) } with
              | error k =>
                exact herr k (fun hk hyg => relaxAll_not_noPath hyg _ _ _ _ _ (hk ▸ h2))
              | ok s2 =>
                simp only
                obtain ⟨r2, k2⟩ := relaxAll_ok_on U target.isSome hh hS _ _ _ h2
                apply ih
                exact ⟨turn_good U.incident_term U.cost_pos hgood.1 hp htv r2, k2 hgood.2⟩
        · have hp' : popOk s.queue v = false := by simpa using hp
          simp only [hp', Bool.not_false, if_true]
          exact herr _ (by simp)

/-- `runLoop_ind_on` transported to `runAStar` (target other than the source) -/
theorem runAStar_ind_on {I : Inst α} {S : Option Nat → List α → Prop} {ok : Nat → Bool}
    {c hv : Nat → α} (U : UniformCostOn I S ok c)
    {source : Nat} {target : Option Nat} (hh : target.isSome = true → VertexHOn I S hv)
    (hts : target ≠ some source) (Post : Except ErrKind (SState α) → Prop)
    (hnp : ∀ (s : SState α) (t : Nat),
      GoodOn I S ok c (Hf target.isSome hv) source target s → s.queue = [] →
      target = some t → Post (.error .noPath))
    (hdone : ∀ s : SState α, GoodOn I S ok c (Hf target.isSome hv) source target s →
      s.queue = [] → target = none → Post (.ok s))
    (hpop : ∀ (s : SState α) (t : Nat),
      GoodOn I S ok c (Hf target.isSome hv) source target s →
      target = some t → popOk s.queue t = true →
      Post (.ok { s with queue := s.queue.filter (fun p => !(p.1 == t)) }))
    (herr : ∀ k, (k = .noPath → ¬ NoSpuriousNoPath I) → Post (.error k))
    (sched : List Nat) : Post (runAStar I source target sched) := by
  unfold runAStar
  have hb : (target == some source) = false := by simpa using hts
  simp only [hb, Bool.false_eq_true, if_false]
  have hinit : ∀ f0 : α, f0 = Hf target.isSome hv source →
      Post (runLoop I source target sched (initState source f0)) := by
    intro f0 hf0
    subst hf0
    exact runLoop_ind_on U hh Post hnp hdone hpop herr sched _
      ⟨init_good I ok c _ source target, solOK_empty S ok c⟩
  cases target with
  | none => exact hinit _ (by simp [Hf, zero_eq])
  | some t =>
    simp only
    cases hh0 : I.h source I.init with
    | error k => exact herr k (fun hk hyg => hyg.h _ _ (hk ▸ hh0))
    | ok f0 =>
      simp only
      refine hinit f0 ?_
      simp only [Hf, Option.isSome_some, if_true]
      exact hh rfl source none I.init f0 U.init_ok hh0

/-- export: the labels and entries of a successful run satisfy the loop-head invariant together with
the queue `q` of the last loop head -/
theorem runAStar_ok_good_on {I : Inst α} {S : Option Nat → List α → Prop} {ok : Nat → Bool}
    {c hv : Nat → α} (U : UniformCostOn I S ok c)
    {source : Nat} {target : Option Nat} (hh : target.isSome = true → VertexHOn I S hv)
    (hts : target ≠ some source) {sched : List Nat} {s : SState α}
    (hrun : runAStar I source target sched = .ok s) :
    SolOK S ok c s.sol ∧
    ∃ q, Good I ok c (Hf target.isSome hv) source target q s.g ∧
      ((target = none ∧ q = [] ∧ s.queue = []) ∨
       (∃ t, target = some t ∧ popOk q t = true ∧
          s.queue = q.filter (fun p => !(p.1 == t)))) := by
  refine runAStar_ind_on U hh hts
    (fun r => ∀ s, r = .ok s → SolOK S ok c s.sol ∧
      ∃ q, Good I ok c (Hf target.isSome hv) source target q s.g ∧
      ((target = none ∧ q = [] ∧ s.queue = []) ∨
       (∃ t, target = some t ∧ popOk q t = true ∧
          s.queue = q.filter (fun p => !(p.1 == t))))) ?_ ?_ ?_ ?_ sched s hrun
  · intro _ _ _ _ _ s h; cases h
  · intro s0 hgood hq htar s' hs'
    injection hs' with hs'
    subst hs'
    exact ⟨hgood.2, s0.queue, hgood.1, Or.inl ⟨htar, hq, hq⟩⟩
  · intro s0 t hgood htar hpop s' hs'
    injection hs' with hs'
    subst hs'
    exact ⟨hgood.2, s0.queue, hgood.1, Or.inr ⟨t, htar, hpop, rfl⟩⟩
  · intro _ _ s h; cases h

/-- export: a run that answers "no path" (and whose components do not) ended at a loop head with an
empty queue -/
theorem runAStar_noPath_good_on {I : Inst α} {S : Option Nat → List α → Prop} {ok : Nat → Bool}
    {c hv : Nat → α} (U : UniformCostOn I S ok c)
    {source : Nat} {target : Option Nat} (hh : target.isSome = true → VertexHOn I S hv)
    (hyg : NoSpuriousNoPath I) (hts : target ≠ some source) {sched : List Nat}
    (hrun : runAStar I source target sched = .error .noPath) :
    ∃ g, Good I ok c (Hf target.isSome hv) source target [] g := by
  refine runAStar_ind_on U hh hts
    (fun r => r = .error .noPath → ∃ g, Good I ok c (Hf target.isSome hv) source target [] g)
    ?_ ?_ ?_ ?_ sched hrun
  · intro s0 t hgood hq _ _
    exact ⟨s0.g, hq ▸ hgood.1⟩
  · intro _ _ _ _ h; cases h
  · intro _ _ _ _ _ h; cases h
  · intro k hk h
    injection h with h
    exact absurd hyg (hk h)

/-! #### The headline theorems for `UniformCostOn` / `UniformOn` -/

/-- **Label optimality**, generalised: premises only on the pairs satisfying `S` -/
theorem label_optimal_on {I : Inst α} {S : Option Nat → List α → Prop} {ok : Nat → Bool}
    {c hv : Nat → α} (U : UniformOn I S ok c hv)
    {source t : Nat} (hts : t ≠ source) (hadm : Admissible I ok c hv t)
    {sched : List Nat} {s : SState α} (hrun : runAStar I source (some t) sched = .ok s) :
    ∃ d, s.g t = some d ∧ (∃ es, Walk I ok source es t ∧ cost c es = d) ∧
      ∀ es, Walk I ok source es t → d ≤ cost c es := by
  have hts' : (some t : Option Nat) ≠ some source := by simpa using hts
  obtain ⟨_, q, hgood, hq⟩ := runAStar_ok_good_on U.toUniformCostOn (hv := hv) (target := some t)
    (fun _ => U.h_eq) hts' hrun
  rcases hq with ⟨htar, _⟩ | ⟨t', htar, hpop, _⟩
  · cases htar
  · cases htar
    rw [show Hf (some t).isSome hv = hv from Hf_true hv] at hgood
    obtain ⟨ft, hmem, hmin⟩ := popOk_spec hpop
    obtain ⟨d, hd, hft⟩ := hgood.1.qval t ft hmem
    refine ⟨d, hd, hgood.1.sound _ _ hd, fun es hw => ?_⟩
    have h0 := hgood.1.src_zero U.cost_pos
    have := popped_walk hgood U.h_nonneg hadm hd hft hmin es source 0 h0 hw
    simpa using this

/-- Dijkstra: whenever the heuristic answers (on a pair satisfying `S`) it answers 0 -/
theorem dijkstra_label_optimal_on {I : Inst α} {S : Option Nat → List α → Prop} {ok : Nat → Bool}
    {c : Nat → α} (U : UniformCostOn I S ok c) (h0 : VertexHOn I S (fun _ => 0))
    {source t : Nat} (hts : t ≠ source)
    {sched : List Nat} {s : SState α} (hrun : runAStar I source (some t) sched = .ok s) :
    ∃ d, s.g t = some d ∧ (∃ es, Walk I ok source es t ∧ cost c es = d) ∧
      ∀ es, Walk I ok source es t → d ≤ cost c es := by
  have U' : UniformOn I S ok c (fun _ => 0) := { U with h_eq := h0, h_nonneg := fun _ => le_refl _ }
  exact label_optimal_on U' hts (fun v es _ => cost_nonneg U.cost_pos es) hrun

theorem nopath_imp_unreachable_on {I : Inst α} {S : Option Nat → List α → Prop} {ok : Nat → Bool}
    {c hv : Nat → α} (U : UniformCostOn I S ok c) (hh : VertexHOn I S hv)
    (hyg : NoSpuriousNoPath I) {source t : Nat} {sched : List Nat}
    (hrun : runAStar I source (some t) sched = .error .noPath) :
    ¬ ∃ es, Walk I ok source es t := by
  by_cases hts : t = source
  · subst hts
    simp [runAStar] at hrun
  have hts' : (some t : Option Nat) ≠ some source := by simpa using hts
  obtain ⟨g, hgood⟩ := runAStar_noPath_good_on U (hv := hv) (target := some t) (fun _ => hh) hyg
    hts' hrun
  rintro ⟨es, hw⟩
  obtain ⟨x, hx, _⟩ := hgood.1.src
  obtain ⟨y, hy, _⟩ := closed_walk hgood es source t x hx hw
  obtain ⟨f, hf⟩ := hgood.2.2 t rfl y hy
  simp at hf

theorem ok_imp_reachable_on {I : Inst α} {S : Option Nat → List α → Prop} {ok : Nat → Bool}
    {c hv : Nat → α} (U : UniformCostOn I S ok c) (hh : VertexHOn I S hv)
    {source t : Nat} (hts : t ≠ source) {sched : List Nat} {s : SState α}
    (hrun : runAStar I source (some t) sched = .ok s) :
    ∃ d es, s.g t = some d ∧ Walk I ok source es t ∧ cost c es = d := by
  have hts' : (some t : Option Nat) ≠ some source := by simpa using hts
  obtain ⟨_, q, hgood, hq⟩ := runAStar_ok_good_on U (hv := hv) (target := some t)
    (fun _ => hh) hts' hrun
  rcases hq with ⟨htar, _⟩ | ⟨t', htar, hpop, _⟩
  · cases htar
  · cases htar
    obtain ⟨ft, hmem, _⟩ := popOk_spec hpop
    obtain ⟨d, hd, _⟩ := hgood.1.qval t ft hmem
    obtain ⟨es, hw, hcost⟩ := hgood.1.sound _ _ hd
    exact ⟨d, es, hd, hw, hcost⟩

theorem ok_iff_reachable_on {I : Inst α} {S : Option Nat → List α → Prop} {ok : Nat → Bool}
    {c hv : Nat → α} (U : UniformCostOn I S ok c) (hh : VertexHOn I S hv)
    (hyg : NoSpuriousNoPath I) {source t : Nat} {sched : List Nat}
    (hres : (∃ s, runAStar I source (some t) sched = .ok s) ∨
      runAStar I source (some t) sched = .error .noPath) :
    (∃ s, runAStar I source (some t) sched = .ok s) ↔ ∃ es, Walk I ok source es t := by
  constructor
  · rintro ⟨s, hs⟩
    by_cases hts : t = source
    · exact ⟨[], hts.symm⟩
    · obtain ⟨_, es, _, hw, _⟩ := ok_imp_reachable_on U hh hts hs
      exact ⟨es, hw⟩
  · intro hex
    rcases hres with h | h
    · exact h
    · exact absurd hex (nopath_imp_unreachable_on U hh hyg h)

theorem nopath_iff_unreachable_on {I : Inst α} {S : Option Nat → List α → Prop} {ok : Nat → Bool}
    {c hv : Nat → α} (U : UniformCostOn I S ok c) (hh : VertexHOn I S hv)
    (hyg : NoSpuriousNoPath I) {source t : Nat} {sched : List Nat}
    (hres : (∃ s, runAStar I source (some t) sched = .ok s) ∨
      runAStar I source (some t) sched = .error .noPath) :
    runAStar I source (some t) sched = .error .noPath ↔ ¬ ∃ es, Walk I ok source es t := by
  constructor
  · exact nopath_imp_unreachable_on U hh hyg
  · intro hno
    rcases hres with ⟨s, hs⟩ | h
    · exact absurd ((ok_iff_reachable_on U hh hyg (Or.inl ⟨s, hs⟩)).1 ⟨s, hs⟩) hno
    · exact h

theorem tree_eq_reachable_on {I : Inst α} {S : Option Nat → List α → Prop} {ok : Nat → Bool}
    {c : Nat → α} (U : UniformCostOn I S ok c)
    {source : Nat} {sched : List Nat} {s : SState α}
    (hrun : runAStar I source none sched = .ok s) (v : Nat) :
    (∃ x, s.g v = some x) ↔ ∃ es, Walk I ok source es v := by
  obtain ⟨_, q, hgood, hq⟩ := runAStar_ok_good_on U (hv := fun _ => (0 : α)) (target := none)
    (fun h => by cases h) (by simp) hrun
  rcases hq with ⟨_, hq, _⟩ | ⟨t', htar, _⟩
  · subst hq
    constructor
    · rintro ⟨x, hx⟩
      obtain ⟨es, hw, _⟩ := hgood.1.sound _ _ hx
      exact ⟨es, hw⟩
    · rintro ⟨es, hw⟩
      obtain ⟨x, hx, _⟩ := hgood.1.src
      obtain ⟨y, hy, _⟩ := closed_walk hgood es source v x hx hw
      exact ⟨y, hy⟩
  · cases htar

theorem tree_labels_optimal_on {I : Inst α} {S : Option Nat → List α → Prop} {ok : Nat → Bool}
    {c : Nat → α} (U : UniformCostOn I S ok c)
    {source : Nat} {sched : List Nat} {s : SState α}
    (hrun : runAStar I source none sched = .ok s) (v : Nat) (x : α) (hx : s.g v = some x) :
    (∃ es, Walk I ok source es v ∧ cost c es = x) ∧
      ∀ es, Walk I ok source es v → x ≤ cost c es := by
  obtain ⟨_, q, hgood, hq⟩ := runAStar_ok_good_on U (hv := fun _ => (0 : α)) (target := none)
    (fun h => by cases h) (by simp) hrun
  rcases hq with ⟨_, hq, _⟩ | ⟨t', htar, _⟩
  · subst hq
    refine ⟨hgood.1.sound _ _ hx, fun es hw => ?_⟩
    have h0 := hgood.1.src_zero U.cost_pos
    obtain ⟨y, hy, hyle⟩ := closed_walk hgood es source v 0 h0 hw
    rw [hx] at hy
    have : x = y := by simpa using hy
    rw [this]; simpa using hyle
  · cases htar

/-- every entry of the returned tree satisfies `S`, has a permitted edge and carries that edge's
cost (any target, also target = source where the tree is empty) -/
theorem runAStar_solOK_on {I : Inst α} {S : Option Nat → List α → Prop} {ok : Nat → Bool}
    {c hv : Nat → α} (U : UniformCostOn I S ok c)
    {source : Nat} {target : Option Nat} (hh : target.isSome = true → VertexHOn I S hv)
    {sched : List Nat} {s : SState α} (hrun : runAStar I source target sched = .ok s) :
    SolOK S ok c s.sol := by
  by_cases hts : target = some source
  · subst hts
    simp only [runAStar, beq_self_eq_true, if_true] at hrun
    injection hrun with hrun
    subst hrun
    exact solOK_empty S ok c
  · exact (runAStar_ok_good_on U hh hts hrun).1

/-! ### Non-vacuity: a concrete instance over ℚ

Four vertices `0..3`, seven edges (edge 6 is a forbidden shortcut `0 → 3`, edge 5 closes a cycle),
a non-zero heuristic that is admissible for target 3 but *not* consistent
(`exH 0 = 3 > c(0→1) + exH 1 = 1`), so the premises of every theorem above are jointly
satisfiable, and the A* run below really re-labels vertex 2 and vertex 3. -/

namespace Example

def exIncident : Nat → List Nat
  | 0 => [0, 1, 6]
  | 1 => [2, 4]
  | 2 => [3]
  | 3 => [5]
  | _ => []

def exTermV : Nat → Nat
  | 0 => 0 | 1 => 0 | 2 => 1 | 3 => 2 | 4 => 1 | 5 => 3 | _ => 0

def exKeyV : Nat → Nat
  | 0 => 1 | 1 => 2 | 2 => 2 | 3 => 3 | 4 => 3 | 5 => 0 | _ => 3

def exCost : Nat → ℚ
  | 0 => 1 | 1 => 4 | 2 => 1 | 3 => 1 | 4 => 5 | 5 => 1 | _ => 1

def exOk (e : Nat) : Bool := e != 6

/-- admissible for target 3, not consistent -/
def exH : Nat → ℚ
  | 0 => 3 | 2 => 1 | _ => 0

/-- the true distance to vertex 3 (a consistent potential) -/
def exDist : Nat → ℚ
  | 0 => 3 | 1 => 2 | 2 => 1 | _ => 0

def exInst : Inst ℚ where
  incident := exIncident
  keyV := exKeyV
  termV := exTermV
  init := []
  valid := fun e _ _ => .ok (exOk e)
  trav := fun e _ st => .ok (1 / 4, exCost e - 1 / 4, st)
  h := fun v _ => .ok (exH v)
  term := fun _ _ => .ok ()

theorem exCost_pos (e : Nat) : 0 < exCost e := by
  unfold exCost; split <;> norm_num

theorem ex_uniform : Uniform exInst exOk exCost exH where
  incident_term := by
    intro v e he
    match v with
    | 0 => simp [exInst, exIncident] at he; rcases he with rfl | rfl | rfl <;> rfl
    | 1 => simp [exInst, exIncident] at he; rcases he with rfl | rfl <;> rfl
    | 2 => simp [exInst, exIncident] at he; subst he; rfl
    | 3 => simp [exInst, exIncident] at he; subst he; rfl
    | n + 4 => simp [exInst, exIncident] at he
  valid_eq := fun _ _ _ => rfl
  trav_eq := fun e _ st => ⟨1 / 4, exCost e - 1 / 4, st, rfl, by ring⟩
  cost_pos := exCost_pos
  h_eq := fun _ _ => rfl
  h_nonneg := by intro v; unfold exH; split <;> norm_num

theorem ex_nolimit : NoLimit exInst := fun _ _ => rfl

theorem ex_admissible : Admissible exInst exOk exCost exH 3 := by
  have hd : Admissible exInst exOk exCost exDist 3 := by
    apply admissible_of_consistent
    · intro v e he hok
      match v with
      | 0 =>
        simp [exInst, exIncident] at he
        rcases he with rfl | rfl | rfl
        · norm_num [exInst, exDist, exCost, exKeyV]
        · norm_num [exInst, exDist, exCost, exKeyV]
        · simp [exOk] at hok
      | 1 =>
        simp [exInst, exIncident] at he
        rcases he with rfl | rfl <;> norm_num [exInst, exDist, exCost, exKeyV]
      | 2 => simp [exInst, exIncident] at he; subst he; norm_num [exInst, exDist, exCost, exKeyV]
      | 3 => simp [exInst, exIncident] at he; subst he; norm_num [exInst, exDist, exCost, exKeyV]
      | n + 4 => simp [exInst, exIncident] at he
    · norm_num [exDist]
  apply hd.mono
  intro v
  match v with
  | 0 => norm_num [exH, exDist]
  | 1 => norm_num [exH, exDist]
  | 2 => norm_num [exH, exDist]
  | n + 3 =>
    have h1 : exH (n + 3) = 0 := rfl
    have h2 : exDist (n + 3) = 0 := rfl
    rw [h1, h2]

/-- observation of a run's outcome that the kernel can decide (states contain functions) -/
def labelOf (r : Except ErrKind (SState ℚ)) (v : Nat) : Option (Option ℚ) :=
  match r with
  | .ok s => some (s.g v)
  | .error _ => none

def errOf (r : Except ErrKind (SState ℚ)) : Option ErrKind :=
  match r with
  | .ok _ => none
  | .error k => some k

/-- an accepted, finishing schedule exists for the A* run `0 ⇝ 3`; vertex 2 is re-labelled
(4 then 2) and vertex 3 too (6 then 3) -/
theorem ex_run_ok : ∃ s, runAStar exInst 0 (some 3) [0, 1, 2, 3] = .ok s ∧ s.g 3 = some 3 := by
  have h : labelOf (runAStar exInst 0 (some 3) [0, 1, 2, 3]) 3 = some (some 3) := by
    decide +kernel
  cases hr : runAStar exInst 0 (some 3) [0, 1, 2, 3] with
  | error k => rw [hr] at h; simp [labelOf] at h
  | ok s =>
    rw [hr] at h
    simp only [labelOf, Option.some.injEq] at h
    exact ⟨s, rfl, h⟩

/-- vertex 7 is isolated: the run towards it ends with "no path" -/
theorem ex_run_nopath : runAStar exInst 0 (some 7) [0, 1, 2, 3] = .error .noPath := by
  have h : errOf (runAStar exInst 0 (some 7) [0, 1, 2, 3]) = some .noPath := by
    decide +kernel
  cases hr : runAStar exInst 0 (some 7) [0, 1, 2, 3] with
  | error k =>
    rw [hr] at h
    simp only [errOf, Option.some.injEq] at h
    rw [h]
  | ok s => rw [hr] at h; simp [errOf] at h

/-- destination-less run: ends with the queue empty -/
theorem ex_run_tree : ∃ s, runAStar exInst 0 none [0, 1, 2, 3] = .ok s ∧ s.g 3 = some 3 := by
  have h : labelOf (runAStar exInst 0 none [0, 1, 2, 3]) 3 = some (some 3) := by
    decide +kernel
  cases hr : runAStar exInst 0 none [0, 1, 2, 3] with
  | error k => rw [hr] at h; simp [labelOf] at h
  | ok s =>
    rw [hr] at h
    simp only [labelOf, Option.some.injEq] at h
    exact ⟨s, rfl, h⟩

/-- the theorems apply: every valid walk `0 ⇝ 3` of the example costs at least 3 (the forbidden
shortcut edge 6 of cost 1 is not used), and 7 is unreachable -/
example : ∀ es, Walk exInst exOk 0 es 3 → 3 ≤ cost exCost es := by
  obtain ⟨s, hrun, hs⟩ := ex_run_ok
  obtain ⟨d, hd, _, hmin⟩ := label_optimal ex_uniform (by decide) ex_admissible hrun
  rw [hs] at hd
  have : (3 : ℚ) = d := by simpa using hd
  rw [this]; exact hmin

example : ¬ ∃ es, Walk exInst exOk 0 es 7 :=
  nopath_imp_unreachable ex_uniform.toUniformCost ex_uniform.h_eq ex_nolimit.termNotNoPath
    ex_run_nopath

example : ∃ es, Walk exInst exOk 0 es 3 ∧ cost exCost es = 3 :=
  ⟨[0, 2, 3], by simp [Walk, exInst, exOk, exIncident, exTermV, exKeyV], by norm_num [cost, exCost]⟩

/-! #### Non-vacuity of the generalisation: an instance that needs the invariant

`exInstS` carries a one-slot state that every traversal rewrites.  On a malformed state (any other
length) its frontier model lets the forbidden shortcut through and its traversal charges nothing:
`UniformCost` fails, `UniformCostOn` holds with the invariant "the state has one slot" — which the
initial state satisfies and every traversal passes on — and the `_on` theorems apply to its runs. -/

def exInstS : Inst ℚ :=
  { exInst with
    init := [0]
    valid := fun e st _ => .ok (if st.length = 1 then exOk e else true)
    trav := fun e _ st =>
      if st.length = 1 then .ok (1 / 4, exCost e - 1 / 4, st.map (· + exCost e)) else .ok (0, 0, st) }

theorem ex_uniform_on : UniformOn exInstS (fun _ st => st.length = 1) exOk exCost exH where
  incident_term := ex_uniform.incident_term
  init_ok := rfl
  valid_eq := by
    intro e le st b hS h
    simp only [exInstS, hS, if_true, Except.ok.injEq] at h
    exact h.symm
  trav_eq := by
    intro e le st ac tc st' hS _ h
    simp only [exInstS, hS, if_true, Except.ok.injEq, Prod.mk.injEq] at h
    obtain ⟨h1, h2, h3⟩ := h
    subst h1 h2 h3
    exact ⟨by ring, by simpa using hS⟩
  cost_pos := exCost_pos
  h_eq := by
    intro v le st x _ h
    simp only [exInstS, exInst, Except.ok.injEq] at h
    exact h.symm
  h_nonneg := ex_uniform.h_nonneg

/-- the old setting does not cover it: on the empty state the traversal charges 0 -/
theorem ex_not_uniformCost : ¬ UniformCost exInstS exOk exCost := by
  intro U
  obtain ⟨ac, tc, st', h, hc⟩ := U.trav_eq 0 none []
  simp only [exInstS, List.length_nil, Nat.zero_ne_one, if_false, Except.ok.injEq,
    Prod.mk.injEq] at h
  obtain ⟨h1, h2, _⟩ := h
  rw [← h1, ← h2] at hc
  have := exCost_pos 0
  linarith

theorem ex_admissible_S : Admissible exInstS exOk exCost exH 3 :=
  fun v es hw => ex_admissible v es ((Walk.congr (I := exInst) (I' := exInstS) rfl rfl rfl es v 3).1 hw)

theorem ex_run_ok_S : ∃ s, runAStar exInstS 0 (some 3) [0, 1, 2, 3] = .ok s ∧ s.g 3 = some 3 := by
  have h : labelOf (runAStar exInstS 0 (some 3) [0, 1, 2, 3]) 3 = some (some 3) := by
    decide +kernel
  cases hr : runAStar exInstS 0 (some 3) [0, 1, 2, 3] with
  | error k => rw [hr] at h; simp [labelOf] at h
  | ok s =>
    rw [hr] at h
    simp only [labelOf, Option.some.injEq] at h
    exact ⟨s, rfl, h⟩

example : ∀ es, Walk exInstS exOk 0 es 3 → 3 ≤ cost exCost es := by
  obtain ⟨s, hrun, hs⟩ := ex_run_ok_S
  obtain ⟨d, hd, _, hmin⟩ := label_optimal_on ex_uniform_on (by decide) ex_admissible_S hrun
  rw [hs] at hd
  have : (3 : ℚ) = d := by simpa using hd
  rw [this]; exact hmin

end Example

end SearchOpt
end Compass
