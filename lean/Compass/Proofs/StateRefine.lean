/-
The minimal state layer of the search model (`Model/Instance.lean`: `Feat`, `featIndex`,
`initialState`, `addDistance`, `addTime` over a plain `List (Feat α)`, answers in `Option`) is a
refinement of the full state model (`Model/StateModel.lean`: `StateModel` over the
`CompactOrderedHashMap` container, answers in `Except StateErr`).  Both model the one Rust type
`StateModel` of `routee-compass-core/src/model/state/state_model.rs`.

* `toFeature` maps a `Feat` to the `StateFeature` it stands for (`.dist u` ↦ `Distance { u, init }`,
  `.time u` ↦ `Time { u, init }`, `.other` ↦ the custom floating-point feature
  `Custom { type: "custom", unit: "x", format: FloatingPoint { initial: init } }` — exactly the feature
  the search harness builds for its `X` kind, `harness/src/search.rs::build`);
  `toStateModel fs = StateModel::new(fs.map (name, toFeature))`.
* `Represents m fs`: `m` is well-formed and its ordered feature list is `toEntries fs`.  It holds for
  `StateModel::new` (`represents_new`) and for `StateModel::empty().extend(..)` — the way the search
  harness builds its model — (`represents_extend`) **iff the feature names are pairwise distinct**
  (`Represents.nodup` is the converse).  With a repeated name the Rust constructors keep the first
  occurrence's slot, the last occurrence's feature and one slot fewer; the minimal layer keeps both
  entries.  Precisely: `StateModel::new` of ANY list `fs` is represented by `normalize fs`
  (`represents_new_normalize`), and `normalize fs = fs ↔ names distinct` (`normalize_eq_self_iff`);
  `duplicate_name_index_counterexample` here and `C11.search_state_layer_duplicate_name_counterexample`
  are concrete disagreements (the full model is the one that matches the Rust code there — C11's
  harness exercises `StateModel::new` with repeated names; the search harness never generates one).
* Under `Represents m fs` the two layers agree on every input — no side condition on the state vector
  (shorter or longer than the feature list), the unit or the name:
    `getIndex_eq_featIndex`, `initialState_eq`,
    `addDistance_full` / `addTime_full`: the full model's answer is *determined* by the minimal one:
      `.ok s'` where the minimal layer says `some s'`, and where it says `none` the error is
      `UnknownStateVariableName` (no such name), `UnexpectedFeatureUnit` (wrong feature kind; checked
      before the state vector is looked at) or `RuntimeError` (slot beyond the state vector;
      `InvalidStateVariableIndex` of `update_state` is unreachable in `add_*`),
    `addDistance_toOption`, `addDistance_some_iff`, `addDistance_none_iff`, `addDistance_error_cases`
    (and the same for time),
    the reads: `slot_read` (`state[i]?` = `get_state_variable`), `delta_read`, `vehicleTerm_getDelta`
    (`cost_ops::calculate_vehicle_costs` reads `next[i] − prev[i]` = `get_delta`), `getDistance_slot`,
    `getTime_slot` (the slot hypotheses of `RouteSums.DistSlot / TimeSlot`),
    and whole steps: `traverse_eq`, `estimate_eq`, `access_eq`, `edgeAccess_eq`, `edgeTraversal_eq`,
    `modelEstimate_eq` (`TravModel.traverse`, `AccessModel.access`, `edgeTraversal`, `estimate` of
    `Model/Instance.lean` written against the `StateModel` API).
-/
import Compass.Proofs.StateModel
import Compass.Model.Instance

namespace Compass
namespace StateRefine

open List

set_option linter.unusedSectionVars false
set_option linter.unusedVariables false

variable {α : Type}

/-! ### the abstraction -/

/-- the `StateFeature` a `Feat` stands for -/
def toFeature (f : Feat α) : StateFeature α :=
  match f.kind with
  | .dist u => .distance u f.init
  | .time u => .time u f.init
  | .other => .custom "custom" "x" (.floatingPoint f.init)

/-- the argument of `StateModel::new` / `extend` -/
def toEntries (fs : List (Feat α)) : List (String × StateFeature α) :=
  fs.map (fun f => (f.name, toFeature f))

/-- `StateModel::new` of the feature list -/
def toStateModel (fs : List (Feat α)) : StateModel α := StateModel.new (toEntries fs)

/-- `m` is a well-formed state model whose features, in slot order, are `fs` -/
def Represents (m : StateModel α) (fs : List (Feat α)) : Prop :=
  StateModel.WF m ∧ StateModel.feats m = toEntries fs

theorem toEntries_keys (fs : List (Feat α)) : (toEntries fs).map (·.1) = fs.map (·.name) := by
  simp [toEntries]

theorem toEntries_getElem? (fs : List (Feat α)) (i : Nat) :
    (toEntries fs)[i]? = (fs[i]?).map (fun f => (f.name, toFeature f)) := by
  simp [toEntries]

/-- distinct names: `StateModel::new` builds a model represented by the list -/
theorem represents_new (fs : List (Feat α)) (nd : (fs.map (·.name)).Nodup) :
    Represents (toStateModel fs) fs :=
  StateModel.wf_new_of_nodup (toEntries fs) (by rw [toEntries_keys]; exact nd)

/-- the hypothesis is necessary: only lists with pairwise distinct names are represented at all -/
theorem Represents.nodup {m : StateModel α} {fs : List (Feat α)} (h : Represents m fs) :
    (fs.map (·.name)).Nodup := by
  have := StateModel.feats_nodup h.1
  rw [h.2, toEntries_keys] at this
  exact this

/-- the insert loop of `extend` records nothing when every entry's name is new -/
theorem extendLoop_snd_of_fresh (entries : List (String × StateFeature α)) :
    ∀ (map : Container String (StateFeature α)) (ow : List String), Container.Inv map →
      ((Container.abs map ++ entries).map (·.1)).Nodup →
      (StateModel.extendLoop map ow entries).2 = ow := by
  induction entries with
  | nil => intro map ow _ _; rfl
  | cons e r ih =>
    intro map ow hinv nd
    obtain ⟨name, new⟩ := e
    have hk : name ∉ (Container.abs map).map (·.1) := by
      simp only [map_append, map_cons] at nd
      intro h
      exact (nodup_append.mp nd).2.2 _ h _ mem_cons_self rfl
    obtain ⟨h1, h2, h3⟩ := Container.insert_refines hinv name new
    rw [Spec.get_eq_none_iff.mpr hk] at h3
    rw [Spec.insert_of_not_mem new hk] at h2
    simp only [StateModel.extendLoop, h3]
    exact ih _ _ h1 (by rw [h2]; simpa using nd)

/-- distinct names: `StateModel::empty().extend(..)` succeeds and builds a model represented by the
    list (this is how the search harness and `SearchApp` build their state models) -/
theorem represents_extend (fs : List (Feat α)) (nd : (fs.map (·.name)).Nodup) :
    ∃ m, (StateModel.empty : StateModel α).extend (toEntries fs) = .ok m ∧ Represents m fs := by
  have hnd : ((toEntries fs).map (·.1)).Nodup := by rw [toEntries_keys]; exact nd
  have h0 := Container.fromIter_refines (StateModel.empty : StateModel α).map.iter
  have hiter : (StateModel.empty : StateModel α).map.iter = [] := by
    rw [Container.iter_abs StateModel.wf_empty.1]; exact StateModel.wf_empty.2
  rw [hiter] at h0
  have how := extendLoop_snd_of_fresh (toEntries fs) (Container.fromIter []) [] h0.1
    (by rw [h0.2]; simpa [Spec.insertAll] using hnd)
  have hex : ∃ m, (StateModel.empty : StateModel α).extend (toEntries fs) = .ok m := by
    simp only [StateModel.extend, hiter, how]
    exact ⟨_, rfl⟩
  obtain ⟨m, hm⟩ := hex
  obtain ⟨hw, hf⟩ := StateModel.extend_ok StateModel.wf_empty.1 hm
  rw [StateModel.wf_empty.2, Spec.insertAll_nil_of_nodup _ hnd] at hf
  exact ⟨m, hm, hw, hf⟩

/-! ### without the hypothesis: what a repeated name does

`StateModel::new` / `extend` insert the entries one after the other; a name that is already present
keeps its slot and takes the later feature.  On the feature list that is `normalize`; the model
built from ANY list `fs` is represented by `normalize fs`, and `normalize fs = fs` exactly when the
names are pairwise distinct. -/

/-- insert one feature: overwrite the entry of the same name in place, else append -/
def insertFeat : List (Feat α) → Feat α → List (Feat α)
  | [], g => [g]
  | f :: r, g => if f.name = g.name then g :: r else f :: insertFeat r g

/-- the feature list `StateModel::new(fs)` stands for -/
def normalize (fs : List (Feat α)) : List (Feat α) := fs.foldl insertFeat []

theorem toEntries_insertFeat (l : List (Feat α)) (g : Feat α) :
    toEntries (insertFeat l g) = Spec.insert (toEntries l) g.name (toFeature g) := by
  induction l with
  | nil => rfl
  | cons f r ih =>
    simp only [toEntries] at ih
    simp only [insertFeat, toEntries, map_cons, Spec.insert]
    split_ifs with h
    · simp [h]
    · simp [ih]

theorem toEntries_foldl_insertFeat (fs acc : List (Feat α)) :
    toEntries (fs.foldl insertFeat acc) = Spec.insertAll (toEntries acc) (toEntries fs) := by
  induction fs generalizing acc with
  | nil => rfl
  | cons f r ih =>
    rw [foldl_cons, ih, toEntries_insertFeat]
    rfl

theorem toEntries_normalize (fs : List (Feat α)) :
    toEntries (normalize fs) = Spec.insertAll [] (toEntries fs) :=
  toEntries_foldl_insertFeat fs []

/-- every feature list: `StateModel::new` builds the model of the normalised list -/
theorem represents_new_normalize (fs : List (Feat α)) : Represents (toStateModel fs) (normalize fs) := by
  have := StateModel.wf_new (toEntries fs)
  rw [← toEntries_normalize] at this
  exact this

theorem entry_injective : Function.Injective (fun f : Feat α => (f.name, toFeature f)) := by
  rintro ⟨n1, k1, i1⟩ ⟨n2, k2, i2⟩ h
  cases k1 <;> cases k2 <;> simp_all [toFeature]

theorem toEntries_injective : Function.Injective (toEntries : List (Feat α) → _) :=
  List.map_injective_iff.mpr entry_injective

/-- the normalised list is the list itself exactly when the names are pairwise distinct -/
theorem normalize_eq_self_iff (fs : List (Feat α)) :
    normalize fs = fs ↔ (fs.map (·.name)).Nodup := by
  constructor
  · intro h
    have := (represents_new_normalize fs).nodup
    rwa [h] at this
  · intro nd
    apply toEntries_injective
    rw [toEntries_normalize]
    exact Spec.insertAll_nil_of_nodup _ (by rw [toEntries_keys]; exact nd)

/-- a feature list with a repeated name -/
def dupFeats : List (Feat Nat) := [⟨"a", .other, 1⟩, ⟨"a", .other, 2⟩, ⟨"b", .other, 3⟩]

/-- a repeated name, concretely (no arithmetic involved): the minimal layer keeps three slots and
    finds `"b"` in slot 2; `StateModel::new` keeps two (first position, last declaration) and gives
    `"b"` slot 1 -/
theorem duplicate_name_index_counterexample :
    featIndex dupFeats "b" = some 2 ∧ (toStateModel dupFeats).getIndex "b" = some 1 ∧
      (initialState dupFeats).length = 3 ∧ (toStateModel dupFeats).len = 2 ∧
      (normalize dupFeats).map (·.name) = ["a", "b"] ∧ (normalize dupFeats).map (·.init) = [2, 3] := by
  decide

/-! ### names, slots, features -/

theorem indexOf_toEntries (fs : List (Feat α)) (name : String) :
    Spec.indexOf (toEntries fs) name = featIndex fs name := by
  induction fs with
  | nil => rfl
  | cons f r ih =>
    simp only [toEntries, featIndex] at ih
    simp only [toEntries, map_cons, Spec.indexOf, featIndex, findIdx?_cons, beq_iff_eq, ih]

/-- a name the minimal layer finds at slot `i`: the list entry there carries the name, and the
    association list maps the name to its feature -/
theorem featIndex_some {fs : List (Feat α)} {name : String} {i : Nat}
    (h : featIndex fs name = some i) :
    ∃ f, fs[i]? = some f ∧ f.name = name ∧ Spec.get (toEntries fs) name = some (toFeature f) := by
  rw [← indexOf_toEntries] at h
  obtain ⟨sf, h1, h2⟩ := Spec.indexOf_get h
  rw [toEntries_getElem?] at h1
  cases hf : fs[i]? with
  | none => rw [hf] at h1; cases h1
  | some f =>
    rw [hf] at h1
    simp only [Option.map_some, Option.some.injEq, Prod.mk.injEq] at h1
    exact ⟨f, rfl, h1.1, by rw [h2, h1.2]⟩

theorem featIndex_none {fs : List (Feat α)} {name : String} (h : featIndex fs name = none) :
    Spec.get (toEntries fs) name = none := by
  rw [← indexOf_toEntries] at h
  exact Spec.get_eq_none_iff.mpr (Spec.indexOf_eq_none_iff.mp h)

/-- with distinct names the entry at position `i` owns slot `i` -/
theorem featIndex_of_getElem? {fs : List (Feat α)} (nd : (fs.map (·.name)).Nodup) {i : Nat}
    {f : Feat α} (h : fs[i]? = some f) : featIndex fs f.name = some i := by
  rw [← indexOf_toEntries]
  apply Spec.indexOf_of_getElem (by rw [toEntries_keys]; exact nd)
  simp [toEntries, h]

section represented
variable {m : StateModel α} {fs : List (Feat α)}

/-- `featIndex` is `get_index` -/
theorem getIndex_eq_featIndex (hm : Represents m fs) (name : String) :
    m.getIndex name = featIndex fs name := by
  rw [StateModel.getIndex_eq hm.1, hm.2, indexOf_toEntries]

theorem mapGetIndex_eq_featIndex (hm : Represents m fs) (name : String) :
    m.map.getIndex name = featIndex fs name := getIndex_eq_featIndex hm name

theorem getFeature_of_some (hm : Represents m fs) {name : String} {i : Nat}
    (h : featIndex fs name = some i) :
    ∃ f, fs[i]? = some f ∧ f.name = name ∧ m.getFeature name = .ok (toFeature f) := by
  obtain ⟨f, h1, h2, h3⟩ := featIndex_some h
  refine ⟨f, h1, h2, ?_⟩
  rw [StateModel.getFeature_ok, StateModel.get_eq hm.1, hm.2, h3]

theorem getFeature_of_none (hm : Represents m fs) {name : String} (h : featIndex fs name = none) :
    m.getFeature name = .error .unknownName := by
  simp only [StateModel.getFeature, StateModel.get_eq hm.1, hm.2, featIndex_none h]

/-- `len` is the number of features, `get_names` the names in order -/
theorem len_eq (hm : Represents m fs) : m.len = fs.length := by
  rw [StateModel.len_eq hm.1, hm.2]; simp [toEntries]

theorem names_eq (hm : Represents m fs) : m.names = fs.map (·.name) := by
  rw [StateModel.names_eq hm.1, hm.2, toEntries_keys]

/-! ### initial state -/

section initial
variable [Lit α] [IntCodec α] [LT α] [DecidableLT α] [BEq α]

theorem declaredInitial_toFeature (f : Feat α) : StateModel.declaredInitial (toFeature f) = f.init := by
  unfold toFeature
  cases f.kind <;> rfl

/-- `initial_state` never fails on a represented model and is the minimal layer's `initialState` -/
theorem initialState_eq (hm : Represents m fs) : m.initialState = .ok (initialState fs) := by
  rw [StateModel.initialState_eq hm.1, hm.2]
  simp [toEntries, initialState, declaredInitial_toFeature]

end initial

/-! ### `add_distance`, `add_time` -/

/-- the `StateModelError` of `add_distance` where the minimal layer answers `none`:
    no such name; the feature is not a distance; otherwise the slot is beyond the state vector -/
def distErr (fs : List (Feat α)) (name : String) : StateErr :=
  match featIndex fs name with
  | none => .unknownName
  | some i =>
    match fs[i]? with
    | none => .unknownName
    | some f =>
      match f.kind with
      | .dist _ => .runtime
      | _ => .unexpectedFeatureUnit

/-- likewise for `add_time` -/
def timeErr (fs : List (Feat α)) (name : String) : StateErr :=
  match featIndex fs name with
  | none => .unknownName
  | some i =>
    match fs[i]? with
    | none => .unknownName
    | some f =>
      match f.kind with
      | .time _ => .runtime
      | _ => .unexpectedFeatureUnit

/-- the full model's answer as a function of the minimal layer's -/
def lift (r : Option (List α)) (e : StateErr) : Except StateErr (List α) :=
  match r with
  | some s => .ok s
  | none => .error e

section arith
variable [Add α] [Mul α] [Div α] [Lit α]

/-- `add_distance`: the full model answers `.ok s'` exactly where the minimal layer answers `some s'`,
    and `distErr` where it answers `none` — for every state vector, name, value and unit -/
theorem addDistance_full (hm : Represents m fs) (state : List α) (name : String) (d : α)
    (u : DistanceUnit) :
    m.addDistance state name d u = lift (addDistance fs state name d u) (distErr fs name) := by
  unfold StateModel.addDistance Compass.addDistance distErr
  cases hi : featIndex fs name with
  | none => simp only [getFeature_of_none hm hi, lift]
  | some i =>
    obtain ⟨f, hf, hn, hg⟩ := getFeature_of_some hm hi
    simp only [hg, hf]
    cases hk : f.kind with
    | dist fu =>
      have ht : toFeature f = .distance fu f.init := by simp [toFeature, hk]
      simp only [ht, StateFeature.getDistanceUnit, StateModel.getStateVariable,
        StateModel.updateState, mapGetIndex_eq_featIndex hm, hi]
      cases hs : state[i]? <;> simp [lift, hk]
    | time tu =>
      have ht : toFeature f = .time tu f.init := by simp [toFeature, hk]
      simp only [ht, StateFeature.getDistanceUnit]
      cases hs : state[i]? <;> simp [lift, hk]
    | other =>
      have ht : toFeature f = .custom "custom" "x" (.floatingPoint f.init) := by simp [toFeature, hk]
      simp only [ht, StateFeature.getDistanceUnit]
      cases hs : state[i]? <;> simp [lift, hk]

/-- `add_time` likewise -/
theorem addTime_full (hm : Represents m fs) (state : List α) (name : String) (t : α)
    (u : TimeUnit) :
    m.addTime state name t u = lift (addTime fs state name t u) (timeErr fs name) := by
  unfold StateModel.addTime Compass.addTime timeErr
  cases hi : featIndex fs name with
  | none => simp only [getFeature_of_none hm hi, lift]
  | some i =>
    obtain ⟨f, hf, hn, hg⟩ := getFeature_of_some hm hi
    simp only [hg, hf]
    cases hk : f.kind with
    | time fu =>
      have ht : toFeature f = .time fu f.init := by simp [toFeature, hk]
      simp only [ht, StateFeature.getTimeUnit, StateModel.getStateVariable,
        StateModel.updateState, mapGetIndex_eq_featIndex hm, hi]
      cases hs : state[i]? <;> simp [lift, hk]
    | dist du =>
      have ht : toFeature f = .distance du f.init := by simp [toFeature, hk]
      simp only [ht, StateFeature.getTimeUnit]
      cases hs : state[i]? <;> simp [lift, hk]
    | other =>
      have ht : toFeature f = .custom "custom" "x" (.floatingPoint f.init) := by simp [toFeature, hk]
      simp only [ht, StateFeature.getTimeUnit]
      cases hs : state[i]? <;> simp [lift, hk]

theorem lift_toOption (r : Option (List α)) (e : StateErr) : (lift r e).toOption = r := by
  cases r <;> rfl

theorem lift_ok_iff (r : Option (List α)) (e : StateErr) (s : List α) :
    lift r e = .ok s ↔ r = some s := by
  cases r <;> simp [lift]

theorem lift_error_iff (r : Option (List α)) (e e' : StateErr) :
    lift r e = .error e' ↔ r = none ∧ e' = e := by
  cases r <;> simp [lift, eq_comm]

/-- the minimal layer is the full model with the error forgotten -/
theorem addDistance_toOption (hm : Represents m fs) (state : List α) (name : String) (d : α)
    (u : DistanceUnit) :
    addDistance fs state name d u = (m.addDistance state name d u).toOption := by
  rw [addDistance_full hm, lift_toOption]

theorem addTime_toOption (hm : Represents m fs) (state : List α) (name : String) (t : α)
    (u : TimeUnit) :
    addTime fs state name t u = (m.addTime state name t u).toOption := by
  rw [addTime_full hm, lift_toOption]

/-- agreement on success, both directions -/
theorem addDistance_some_iff (hm : Represents m fs) (state : List α) (name : String) (d : α)
    (u : DistanceUnit) (s' : List α) :
    addDistance fs state name d u = some s' ↔ m.addDistance state name d u = .ok s' := by
  rw [addDistance_full hm, lift_ok_iff]

theorem addTime_some_iff (hm : Represents m fs) (state : List α) (name : String) (t : α)
    (u : TimeUnit) (s' : List α) :
    addTime fs state name t u = some s' ↔ m.addTime state name t u = .ok s' := by
  rw [addTime_full hm, lift_ok_iff]

/-- `none` is exactly "the full model fails", with the error `distErr` names -/
theorem addDistance_none_iff (hm : Represents m fs) (state : List α) (name : String) (d : α)
    (u : DistanceUnit) :
    addDistance fs state name d u = none ↔
      m.addDistance state name d u = .error (distErr fs name) := by
  rw [addDistance_full hm, lift_error_iff]; simp

theorem addTime_none_iff (hm : Represents m fs) (state : List α) (name : String) (t : α)
    (u : TimeUnit) :
    addTime fs state name t u = none ↔ m.addTime state name t u = .error (timeErr fs name) := by
  rw [addTime_full hm, lift_error_iff]; simp

/-- the error cases of `add_distance`, each with its exact cause on the feature list / state vector:
    unknown name; a feature of another kind (whatever the state vector); a distance feature whose slot
    is beyond the state vector.  No other error occurs (`InvalidStateVariableIndex` in particular) -/
theorem addDistance_error_cases (hm : Represents m fs) (state : List α) (name : String) (d : α)
    (u : DistanceUnit) (e : StateErr) (h : m.addDistance state name d u = .error e) :
    (e = .unknownName ∧ featIndex fs name = none) ∨
    (e = .unexpectedFeatureUnit ∧ ∃ i f, featIndex fs name = some i ∧ fs[i]? = some f ∧
        ∀ fu, f.kind ≠ .dist fu) ∨
    (e = .runtime ∧ ∃ i f fu, featIndex fs name = some i ∧ fs[i]? = some f ∧ f.kind = .dist fu ∧
        state.length ≤ i) := by
  rw [addDistance_full hm, lift_error_iff] at h
  obtain ⟨hnone, rfl⟩ := h
  unfold distErr
  unfold Compass.addDistance at hnone
  cases hi : featIndex fs name with
  | none => exact Or.inl ⟨rfl, rfl⟩
  | some i =>
    obtain ⟨f, hf, -, -⟩ := featIndex_some hi
    simp only [hi, hf] at hnone ⊢
    cases hk : f.kind with
    | dist fu =>
      refine Or.inr (Or.inr ⟨rfl, i, f, fu, rfl, hf, hk, ?_⟩)
      cases hs : state[i]? with
      | none => exact getElem?_eq_none_iff.mp hs
      | some x => simp [hs, hk] at hnone
    | time tu => exact Or.inr (Or.inl ⟨rfl, i, f, rfl, hf, by intro fu; simp [hk]⟩)
    | other => exact Or.inr (Or.inl ⟨rfl, i, f, rfl, hf, by intro fu; simp [hk]⟩)

theorem addTime_error_cases (hm : Represents m fs) (state : List α) (name : String) (t : α)
    (u : TimeUnit) (e : StateErr) (h : m.addTime state name t u = .error e) :
    (e = .unknownName ∧ featIndex fs name = none) ∨
    (e = .unexpectedFeatureUnit ∧ ∃ i f, featIndex fs name = some i ∧ fs[i]? = some f ∧
        ∀ fu, f.kind ≠ .time fu) ∨
    (e = .runtime ∧ ∃ i f fu, featIndex fs name = some i ∧ fs[i]? = some f ∧ f.kind = .time fu ∧
        state.length ≤ i) := by
  rw [addTime_full hm, lift_error_iff] at h
  obtain ⟨hnone, rfl⟩ := h
  unfold timeErr
  unfold Compass.addTime at hnone
  cases hi : featIndex fs name with
  | none => exact Or.inl ⟨rfl, rfl⟩
  | some i =>
    obtain ⟨f, hf, -, -⟩ := featIndex_some hi
    simp only [hi, hf] at hnone ⊢
    cases hk : f.kind with
    | time fu =>
      refine Or.inr (Or.inr ⟨rfl, i, f, fu, rfl, hf, hk, ?_⟩)
      cases hs : state[i]? with
      | none => exact getElem?_eq_none_iff.mp hs
      | some x => simp [hs, hk] at hnone
    | dist du => exact Or.inr (Or.inl ⟨rfl, i, f, rfl, hf, by intro fu; simp [hk]⟩)
    | other => exact Or.inr (Or.inl ⟨rfl, i, f, rfl, hf, by intro fu; simp [hk]⟩)

end arith

/-! ### reads

`Model/Instance.lean` and `Model/Cost.lean` never call a getter: the cost model reads `prev[i]?`,
`next[i]?` at the indices `CostModel::new` took from `state_model.indexed_iter()`, and the route
theorems (`RouteSums.DistSlot`, `TimeSlot`) read `state[i]?` at the slot `featIndex` names.  Each of
these positional reads is the `StateModel` accessor for the feature that owns the slot. -/

/-- `state[i]?` at the slot of `name` is `get_state_variable(state, name)` -/
theorem getStateVariable_full (hm : Represents m fs) (state : List α) (name : String) :
    m.getStateVariable state name =
      match featIndex fs name with
      | none => .error .unknownName
      | some i =>
        match state[i]? with
        | some v => .ok v
        | none => .error .runtime := by
  simp only [StateModel.getStateVariable, mapGetIndex_eq_featIndex hm]
  cases featIndex fs name with
  | none => rfl
  | some i => cases hs : state[i]? <;> simp [hs]

/-- a positional read of slot `i` is `get_state_variable` for the name of the `i`-th feature -/
theorem slot_read (hm : Represents m fs) (state : List α) {i : Nat} {f : Feat α}
    (hf : fs[i]? = some f) : state[i]? = (m.getStateVariable state f.name).toOption := by
  rw [getStateVariable_full hm, featIndex_of_getElem? hm.nodup hf]
  cases hs : state[i]? <;> simp [hs, Except.toOption]

/-- `next[i] − prev[i]` (both slots present) is `get_delta(prev, next, name)` of the slot's feature -/
theorem delta_read [Sub α] (hm : Represents m fs) (prev next : List α) {i : Nat} {f : Feat α}
    (hf : fs[i]? = some f) :
    (match prev[i]?, next[i]? with
      | some p, some n => some (n - p)
      | _, _ => none) = (m.getDelta prev next f.name).toOption := by
  simp only [StateModel.getDelta, getStateVariable_full hm, featIndex_of_getElem? hm.nodup hf]
  cases prev[i]? <;> cases next[i]? <;> rfl

/-- one item of `cost_ops::calculate_vehicle_costs` reads the state through `get_delta` -/
theorem vehicleTerm_getDelta [Add α] [Sub α] [Mul α] [Lit α] (hm : Represents m fs) (cm : CostModel α)
    (prev next : List α) {i : Nat} {f : Feat α} (hf : fs[i]? = some f) :
    cm.vehicleTerm prev next i =
      match (m.getDelta prev next f.name).toOption, cm.vehicleRates[i]?, cm.weights[i]? with
      | some d, some r, some w => some (r.mapValue d * w)
      | _, _, _ => none := by
  rw [← delta_read hm prev next hf]
  unfold CostModel.vehicleTerm
  cases prev[i]? <;> cases next[i]? <;> cases cm.vehicleRates[i]? <;> cases cm.weights[i]? <;> rfl

section getters
variable [Mul α] [Div α] [Lit α]

/-- the slot hypotheses of the route theorems (`featIndex fs name = some i`, the entry there is a
    distance in unit `fu`) say: `get_distance(state, name, u)` is slot `i` converted from `fu` to `u` -/
theorem getDistance_slot (hm : Represents m fs) {name : String} {i : Nat} {fu : DistanceUnit}
    (hi : featIndex fs name = some i) (hk : (fs[i]?).map (·.kind) = some (FeatKind.dist fu))
    (state : List α) (u : DistanceUnit) :
    m.getDistance state name u =
      match state[i]? with
      | some v => .ok (fu.convert u v)
      | none => .error .runtime := by
  obtain ⟨f, hf, hn, hg⟩ := getFeature_of_some hm hi
  rw [hf] at hk
  simp only [Option.map_some, Option.some.injEq] at hk
  have ht : toFeature f = .distance fu f.init := by simp [toFeature, hk]
  simp only [StateModel.getDistance, getStateVariable_full hm, hi, hg, ht]
  cases state[i]? <;> rfl

theorem getTime_slot (hm : Represents m fs) {name : String} {i : Nat} {fu : TimeUnit}
    (hi : featIndex fs name = some i) (hk : (fs[i]?).map (·.kind) = some (FeatKind.time fu))
    (state : List α) (u : TimeUnit) :
    m.getTime state name u =
      match state[i]? with
      | some v => .ok (fu.convert u v)
      | none => .error .runtime := by
  obtain ⟨f, hf, hn, hg⟩ := getFeature_of_some hm hi
  rw [hf] at hk
  simp only [Option.map_some, Option.some.injEq] at hk
  have ht : toFeature f = .time fu f.init := by simp [toFeature, hk]
  simp only [StateModel.getTime, getStateVariable_full hm, hi, hg, ht]
  cases state[i]? <;> rfl

/-- and conversely the slot hypotheses are statements about the state model: the name has slot `i`
    and its feature is a distance in unit `fu` -/
theorem distSlot_iff (hm : Represents m fs) (name : String) (i : Nat) (fu : DistanceUnit) :
    (featIndex fs name = some i ∧ (fs[i]?).map (·.kind) = some (FeatKind.dist fu)) ↔
      (m.getIndex name = some i ∧ ∃ init, m.getFeature name = .ok (.distance fu init)) := by
  rw [getIndex_eq_featIndex hm]
  constructor
  · rintro ⟨hi, hk⟩
    obtain ⟨f, hf, hn, hg⟩ := getFeature_of_some hm hi
    rw [hf] at hk
    simp only [Option.map_some, Option.some.injEq] at hk
    exact ⟨hi, f.init, by rw [hg]; simp [toFeature, hk]⟩
  · rintro ⟨hi, init, hg⟩
    obtain ⟨f, hf, hn, hg'⟩ := getFeature_of_some hm hi
    rw [hg'] at hg
    refine ⟨hi, ?_⟩
    rw [hf]
    simp only [Except.ok.injEq] at hg
    unfold toFeature at hg
    cases hk : f.kind with
    | dist du => rw [hk] at hg; simp only [StateFeature.distance.injEq] at hg; simp [hk, hg.1]
    | time tu => rw [hk] at hg; cases hg
    | other => rw [hk] at hg; cases hg

theorem timeSlot_iff (hm : Represents m fs) (name : String) (i : Nat) (fu : TimeUnit) :
    (featIndex fs name = some i ∧ (fs[i]?).map (·.kind) = some (FeatKind.time fu)) ↔
      (m.getIndex name = some i ∧ ∃ init, m.getFeature name = .ok (.time fu init)) := by
  rw [getIndex_eq_featIndex hm]
  constructor
  · rintro ⟨hi, hk⟩
    obtain ⟨f, hf, hn, hg⟩ := getFeature_of_some hm hi
    rw [hf] at hk
    simp only [Option.map_some, Option.some.injEq] at hk
    exact ⟨hi, f.init, by rw [hg]; simp [toFeature, hk]⟩
  · rintro ⟨hi, init, hg⟩
    obtain ⟨f, hf, hn, hg'⟩ := getFeature_of_some hm hi
    rw [hg'] at hg
    refine ⟨hi, ?_⟩
    rw [hf]
    simp only [Except.ok.injEq] at hg
    unfold toFeature at hg
    cases hk : f.kind with
    | time tu => rw [hk] at hg; simp only [StateFeature.time.injEq] at hg; simp [hk, hg.1]
    | dist du => rw [hk] at hg; cases hg
    | other => rw [hk] at hg; cases hg

/-- a distance feature of the state model, seen from the feature list: the entry in its slot has that
    unit and that initial value -/
theorem distSlot_of_feature (hm : Represents m fs) {name : String} {i : Nat} {fu : DistanceUnit}
    {init : α} (hi : m.getIndex name = some i) (hg : m.getFeature name = .ok (.distance fu init)) :
    ∃ f, featIndex fs name = some i ∧ fs[i]? = some f ∧ f.kind = .dist fu ∧ f.init = init := by
  rw [getIndex_eq_featIndex hm] at hi
  obtain ⟨f, hf, hn, hg'⟩ := getFeature_of_some hm hi
  rw [hg'] at hg
  simp only [Except.ok.injEq] at hg
  unfold toFeature at hg
  cases hk : f.kind with
  | dist du =>
    rw [hk] at hg; simp only [StateFeature.distance.injEq] at hg
    exact ⟨f, hi, hf, by rw [← hg.1]; exact hk, hg.2⟩
  | time tu => rw [hk] at hg; cases hg
  | other => rw [hk] at hg; cases hg

theorem timeSlot_of_feature (hm : Represents m fs) {name : String} {i : Nat} {fu : TimeUnit}
    {init : α} (hi : m.getIndex name = some i) (hg : m.getFeature name = .ok (.time fu init)) :
    ∃ f, featIndex fs name = some i ∧ fs[i]? = some f ∧ f.kind = .time fu ∧ f.init = init := by
  rw [getIndex_eq_featIndex hm] at hi
  obtain ⟨f, hf, hn, hg'⟩ := getFeature_of_some hm hi
  rw [hg'] at hg
  simp only [Except.ok.injEq] at hg
  unfold toFeature at hg
  cases hk : f.kind with
  | time tu =>
    rw [hk] at hg; simp only [StateFeature.time.injEq] at hg
    exact ⟨f, hi, hf, by rw [← hg.1]; exact hk, hg.2⟩
  | dist du => rw [hk] at hg; cases hg
  | other => rw [hk] at hg; cases hg

end getters

end represented

/-! ### whole steps: the traversal, access and edge-traversal functions of `Model/Instance.lean`
written against the `StateModel` API (`state_model.add_distance(..)?`, `state_model.add_time(..)?`;
the error is forgotten exactly as `Model/Instance.lean` forgets it) -/

section steps
variable [Add α] [Sub α] [Mul α] [Div α] [LT α] [LE α] [DecidableLT α] [DecidableLE α] [BEq α] [Lit α]

/-- `TraversalModel::traverse_edge` over a `StateModel` -/
def traverseSM (tm : TravModel α) (m : StateModel α) (edges : List (EdgeRec α)) (e : Nat)
    (state : List α) : Option (List α) :=
  match edges[e]? with
  | none => none
  | some er =>
    match tm with
    | .distance du =>
      (m.addDistance state "distance" (baseDistanceUnit.convert du er.dist) du).toOption
    | .speed su du tu _ table =>
      let d := baseDistanceUnit.convert du er.dist
      match table[e]? with
      | none => none
      | some sp =>
        match createTime sp su d du tu with
        | none => none
        | some t =>
          match (m.addTime state "time" t tu).toOption with
          | none => none
          | some st1 => (m.addDistance st1 "distance" d du).toOption

/-- `TraversalModel::estimate_traversal` over a `StateModel` -/
def estimateSM (tm : TravModel α) (m : StateModel α) (gcMeters : α) (state : List α) :
    Option (List α) :=
  match tm with
  | .distance du =>
    (m.addDistance state "distance" (DistanceUnit.meters.convert du gcMeters) du).toOption
  | .speed su du tu maxSpeed _ =>
    let d := DistanceUnit.meters.convert du gcMeters
    if d == (zero : α) then some state
    else
      match createTime maxSpeed su d du tu with
      | none => none
      | some t =>
        match (m.addTime state "time" t tu).toOption with
        | none => none
        | some st1 => (m.addDistance st1 "distance" d du).toOption

/-- `AccessModel::access_edge` over a `StateModel` -/
def accessSM (am : AccessModel α) (m : StateModel α) (pe ne : Nat) (state : List α) :
    Option (List α) :=
  match am with
  | .noAccess => some state
  | .turnDelay tu headings delays =>
    match turnDelayOf headings delays pe ne with
    | Option.none => Option.none
    | Option.some d => (m.addTime state "time" d tu).toOption

/-- `edgeAccess` of `Model/Instance.lean` over a `StateModel` -/
def edgeAccessSM (c : Config α) (m : StateModel α) (e : Nat) (last : Option Nat)
    (prevState : List α) : Except ErrKind (α × List α) :=
  match last with
  | none => .ok (zero, prevState)
  | some l =>
    match c.edges[l]? with
    | none => .error .network
    | some _ =>
      let pe := if c.reverse then e else l
      let ne := if c.reverse then l else e
      match accessSM c.access m pe ne prevState with
      | none => .error .access
      | some st1 =>
        match c.cost.accessCost pe ne prevState st1 with
        | none => .error .cost
        | some ac => .ok ((zero : α) + ac, st1)

/-- `EdgeTraversal::forward_traversal / reverse_traversal` over a `StateModel` -/
def edgeTraversalSM (c : Config α) (m : StateModel α) (e : Nat) (last : Option Nat)
    (prevState : List α) : Except ErrKind (α × α × List α) :=
  match c.edges[e]? with
  | none => .error .network
  | some _ =>
    match edgeAccessSM c m e last prevState with
    | .error k => .error k
    | .ok (ac, st1) =>
      match traverseSM c.trav m c.edges e st1 with
      | none => .error .traversal
      | some st2 =>
        match c.cost.traversalCost e prevState st2 with
        | none => .error .cost
        | some total => .ok (ac, total - ac, st2)

/-- `SearchInstance::estimate_traversal_cost` over a `StateModel` -/
def modelEstimateSM (c : Config α) (m : StateModel α) (v : Nat) (state : List α) : Except ErrKind α :=
  match c.gc[v]? with
  | none => .error .network
  | some gcm =>
    if gcm < zero then .error .traversal
    else
      match estimateSM c.trav m gcm state with
      | none => .error .traversal
      | some dst =>
        match c.cost.costEstimate state dst with
        | none => .error .cost
        | some est => .ok (est * (match c.wf with | some w => w | none => one))

variable {m : StateModel α} {fs : List (Feat α)}

theorem traverse_eq (hm : Represents m fs) (tm : TravModel α) (edges : List (EdgeRec α)) (e : Nat)
    (state : List α) : tm.traverse fs edges e state = traverseSM tm m edges e state := by
  unfold TravModel.traverse traverseSM
  simp only [addDistance_toOption hm, addTime_toOption hm]
  rfl

theorem estimate_eq (hm : Represents m fs) (tm : TravModel α) (gcMeters : α) (state : List α) :
    tm.estimate fs gcMeters state = estimateSM tm m gcMeters state := by
  unfold TravModel.estimate estimateSM
  simp only [addDistance_toOption hm, addTime_toOption hm]
  rfl

theorem access_eq (hm : Represents m fs) (am : AccessModel α) (pe ne : Nat) (state : List α) :
    am.access fs pe ne state = accessSM am m pe ne state := by
  unfold AccessModel.access accessSM
  simp only [addTime_toOption hm]
  rfl

theorem edgeAccess_eq {c : Config α} (hm : Represents m c.feats) (e : Nat) (last : Option Nat)
    (st : List α) : edgeAccess c e last st = edgeAccessSM c m e last st := by
  unfold edgeAccess edgeAccessSM
  simp only [access_eq hm]
  rfl

/-- one search step (`Inst.trav` of a configured instance) is the step over the full state model -/
theorem edgeTraversal_eq {c : Config α} (hm : Represents m c.feats) (e : Nat) (last : Option Nat)
    (st : List α) : edgeTraversal c e last st = edgeTraversalSM c m e last st := by
  unfold edgeTraversal edgeTraversalSM
  simp only [edgeAccess_eq hm, traverse_eq hm]
  rfl

/-- the A* estimate (`Inst.h`) likewise -/
theorem modelEstimate_eq {c : Config α} (hm : Represents m c.feats) (v : Nat) (st : List α) :
    estimate c v st = modelEstimateSM c m v st := by
  unfold estimate modelEstimateSM
  simp only [estimate_eq hm]
  rfl

end steps

end StateRefine
end Compass
