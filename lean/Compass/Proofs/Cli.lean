/-
Lemmas about the command-line model (`Model/Cli.lean`): `slice::chunks` / `itertools::chunks` as a partition,
the loop of `run_newline_json`, the runner's outcomes.
-/
import Compass.Model.Cli
import Compass.Proofs.Batch

namespace Compass
namespace Cli
open MultiSet (Outcome)
open Batch

/-! ### `chunks` -/

theorem chunksAux_fuel {α : Type} (n : Nat) (hn : 1 ≤ n) :
    ∀ (f1 f2 : Nat) (l : List α), l.length ≤ f1 → l.length ≤ f2 → chunksAux n f1 l = chunksAux n f2 l
  | 0, f2, l, h1, _ => by
    have : l = [] := List.eq_nil_of_length_eq_zero (by omega)
    subst this
    cases f2 <;> rfl
  | f1 + 1, 0, l, _, h2 => by
    have : l = [] := List.eq_nil_of_length_eq_zero (by omega)
    subst this
    rfl
  | f1 + 1, f2 + 1, [], _, _ => rfl
  | f1 + 1, f2 + 1, x :: r, h1, h2 => by
    simp only [chunksAux]
    have hd : ((x :: r).drop n).length ≤ r.length := by
      simp only [List.length_drop, List.length_cons]; omega
    simp only [List.length_cons] at h1 h2
    rw [chunksAux_fuel n hn f1 f2 ((x :: r).drop n) (by omega) (by omega)]

theorem chunks_nil {α : Type} (n : Nat) : chunks n ([] : List α) = [] := rfl

/-- the first chunk is the first `n` elements, the others are the chunks of the rest -/
theorem chunks_cons {α : Type} (n : Nat) (hn : 1 ≤ n) (x : α) (r : List α) :
    chunks n (x :: r) = (x :: r).take n :: chunks n ((x :: r).drop n) := by
  have hd : ((x :: r).drop n).length ≤ r.length := by
    simp only [List.length_drop, List.length_cons]; omega
  unfold chunks
  simp only [List.length_cons, chunksAux]
  rw [chunksAux_fuel n hn r.length ((x :: r).drop n).length ((x :: r).drop n) hd (Nat.le_refl _)]

/-- induction along the chunks -/
theorem chunks_induction {α : Type} (n : Nat) (hn : 1 ≤ n) (P : List α → Prop) (h0 : P [])
    (hs : ∀ x r, P ((x :: r).drop n) → P (x :: r)) : ∀ l, P l := by
  intro l
  induction hl : l.length using Nat.strong_induction_on generalizing l with
  | _ k ih =>
    cases l with
    | nil => exact h0
    | cons x r =>
      apply hs
      apply ih ((x :: r).drop n).length _ _ rfl
      subst hl
      simp only [List.length_drop, List.length_cons]; omega

/-- no chunk is empty, none is longer than `n` -/
theorem chunks_mem {α : Type} (n : Nat) (hn : 1 ≤ n) (l : List α) :
    ∀ c ∈ chunks n l, c ≠ [] ∧ c.length ≤ n := by
  refine chunks_induction n hn (fun l => ∀ c ∈ chunks n l, c ≠ [] ∧ c.length ≤ n) ?_ ?_ l
  · intro c hc; simp [chunks_nil] at hc
  · intro x r ih c hc
    rw [chunks_cons n hn] at hc
    rcases List.mem_cons.mp hc with h | h
    · subst h
      refine ⟨?_, by simp [List.length_take]; omega⟩
      intro h0
      have : ((x :: r).take n).length = 0 := by rw [h0]; rfl
      simp only [List.length_take, List.length_cons] at this
      omega
    · exact ih c h

/-- every chunk that has a successor holds exactly `n` elements -/
theorem chunks_full {α : Type} (n : Nat) (hn : 1 ≤ n) (l : List α) :
    ∀ i, i + 1 < (chunks n l).length → ∃ c, (chunks n l)[i]? = some c ∧ c.length = n := by
  refine chunks_induction n hn
    (fun l => ∀ i, i + 1 < (chunks n l).length → ∃ c, (chunks n l)[i]? = some c ∧ c.length = n) ?_ ?_ l
  · intro i hi; simp [chunks_nil] at hi
  · intro x r ih i hi
    rw [chunks_cons n hn] at hi ⊢
    cases i with
    | zero =>
      refine ⟨_, rfl, ?_⟩
      simp only [List.length_cons] at hi
      have hne : chunks n ((x :: r).drop n) ≠ [] := by
        intro h; rw [h] at hi; simp at hi
      have hd : (x :: r).drop n ≠ [] := by
        intro h; rw [h, chunks_nil] at hne; exact hne rfl
      have : n < (x :: r).length := by
        by_contra hc
        exact hd (List.drop_eq_nil_of_le (by omega))
      simp only [List.length_take]; omega
    | succ j =>
      simp only [List.length_cons] at hi
      obtain ⟨c, hc, hlen⟩ := ih j (by omega)
      exact ⟨c, by simpa using hc, hlen⟩

/-- chunking looks at no element: it commutes with any map over the elements -/
theorem chunksAux_map {α β : Type} (f : α → β) (n : Nat) :
    ∀ (fuel : Nat) (l : List α), chunksAux n fuel (l.map f) = (chunksAux n fuel l).map (List.map f)
  | 0, _ => rfl
  | _ + 1, [] => rfl
  | fuel + 1, x :: r => by
    have ht : (f x :: List.map f r).take n = ((x :: r).take n).map f := by
      rw [← List.map_cons, List.map_take]
    have hd : (f x :: List.map f r).drop n = ((x :: r).drop n).map f := by
      rw [← List.map_cons, List.map_drop]
    simp only [List.map_cons, chunksAux]
    rw [ht, hd, chunksAux_map f n fuel]

theorem chunks_map {α β : Type} (f : α → β) (n : Nat) (l : List α) :
    chunks n (l.map f) = (chunks n l).map (List.map f) := by
  unfold chunks
  rw [List.length_map, chunksAux_map]

/-! ### a chunk's batch and its unparsable lines -/

theorem chunkBatch_flatten (cs : List (List (Option Json))) :
    (cs.map chunkBatch).flatten = chunkBatch cs.flatten := by
  unfold chunkBatch
  rw [List.filterMap_flatten]

theorem chunkBad_sum (cs : List (List (Option Json))) :
    (cs.map chunkBad).sum = chunkBad cs.flatten := by
  induction cs with
  | nil => rfl
  | cons c cs ih =>
    simp only [List.map_cons, List.sum_cons, List.flatten_cons, ih]
    unfold chunkBad
    rw [List.filter_append, List.length_append]

/-! ### the loop over the chunks -/

theorem runChunksO_all_ok {ε ρ : Type} (run : List Json → Outcome (Except ε ρ)) (r : List (Option Json) → ρ) :
    ∀ cs : List (List (Option Json)), (∀ c ∈ cs, run (chunkBatch c) = .ok (.ok (r c))) →
      runChunksO run cs
        = .ok { log := cs.map (fun c => { served := r c, parseErrors := chunkBad c }), result := .ok () }
  | [], _ => rfl
  | c :: cs, h => by
    have hc := h c (List.mem_cons_self ..)
    have ih := runChunksO_all_ok run r cs (fun c' hc' => h c' (List.mem_cons_of_mem _ hc'))
    simp only [runChunksO, hc, ih, List.map_cons]

theorem runChunksO_first_failure {ε ρ : Type} (run : List Json → Outcome (Except ε ρ))
    (r : List (Option Json) → ρ) (c : List (Option Json)) (post : List (List (Option Json))) (e : ε)
    (hc : run (chunkBatch c) = .ok (.error e)) :
    ∀ pre : List (List (Option Json)), (∀ p ∈ pre, run (chunkBatch p) = .ok (.ok (r p))) →
      runChunksO run (pre ++ c :: post)
        = .ok { log := pre.map (fun p => { served := r p, parseErrors := chunkBad p }),
                result := .error (.run e) }
  | [], _ => by simp only [List.nil_append, runChunksO, hc, List.map_nil]
  | p :: pre, h => by
    have hp := h p (List.mem_cons_self ..)
    have ih := runChunksO_first_failure run r c post e hc pre (fun p' hp' => h p' (List.mem_cons_of_mem _ hp'))
    simp only [List.cons_append, runChunksO, hp, ih, List.map_cons]

theorem runChunksO_returns {ε ρ : Type} (run : List Json → Outcome (Except ε ρ))
    (hrun : ∀ b, ∃ r, run b = .ok r) :
    ∀ cs : List (List (Option Json)), ∃ o, runChunksO run cs = .ok o
  | [] => ⟨_, rfl⟩
  | c :: cs => by
    obtain ⟨r, hr⟩ := hrun (chunkBatch c)
    obtain ⟨o, ho⟩ := runChunksO_returns run hrun cs
    cases r with
    | error e => exact ⟨_, by simp only [runChunksO, hr]; rfl⟩
    | ok v => exact ⟨_, by simp only [runChunksO, hr, ho]; rfl⟩

/-! ### the arguments -/

/-- a chunk size that passed `validate` is cast without loss (an `i64` is below `2^63`) -/
theorem asUsize_of_pos (c : Int) (h1 : 1 ≤ c) (h2 : c < 2 ^ 63) : asUsize c = c.toNat ∧ asUsize c ≠ 0 := by
  unfold asUsize
  have : c % (2 ^ 64 : Int) = c := Int.emod_eq_of_lt (by omega) (by omega)
  rw [this]
  exact ⟨rfl, by omega⟩

theorem validate_ok_iff {ε : Type} (a : CliArgs) :
    validate (ε := ε) a = .ok () ↔
      ¬ (a.chunksize.isSome = true ∧ a.newlineDelimited = false) ∧ ∀ c, a.chunksize = some c → 1 ≤ c := by
  obtain ⟨cs, nd⟩ := a
  cases cs with
  | none => cases nd <;> simp [validate]
  | some c =>
    cases nd with
    | false => simp [validate]
    | true =>
      by_cases h : c < 1
      · simp [validate, h]
      · simp [validate, h]; omega

/-! ### the runner returns -/

theorem runJsonO_returns {ε ρ : Type} (run : List Json → Outcome (Except ε ρ))
    (hrun : ∀ b, ∃ r, run b = .ok r) (file : QueryFile) : ∃ o, runJsonO run file = .ok o := by
  cases file with
  | missing => exact ⟨_, rfl⟩
  | unreadable => exact ⟨_, rfl⟩
  | content doc lines =>
    cases doc with
    | none => exact ⟨_, rfl⟩
    | some v =>
      simp only [runJsonO]
      cases getQueries v with
      | none => exact ⟨_, rfl⟩
      | some batch =>
        obtain ⟨r, hr⟩ := hrun batch
        cases r with
        | error e => exact ⟨_, by simp only [hr]; rfl⟩
        | ok v => exact ⟨_, by simp only [hr]; rfl⟩

theorem runNewlineJsonO_returns {ε ρ : Type} (run : List Json → Outcome (Except ε ρ))
    (hrun : ∀ b, ∃ r, run b = .ok r) (n : Nat) (hn : n ≠ 0) (file : QueryFile) (hf : file ≠ .unreadable) :
    ∃ o, runNewlineJsonO run (some n) file = .ok o := by
  cases file with
  | missing => exact ⟨_, rfl⟩
  | unreadable => exact absurd rfl hf
  | content doc lines =>
    simp only [runNewlineJsonO, Option.getD_some, itChunksO, hn, if_false]
    exact runChunksO_returns run hrun _

theorem dispatchO_returns {ε ρ : Type} (run : List Json → Outcome (Except ε ρ))
    (hrun : ∀ b, ∃ r, run b = .ok r) (a : CliArgs) (hi : ∀ c, a.chunksize = some c → c < 2 ^ 63)
    (file : QueryFile) (hf : file ≠ .unreadable) : ∃ o, dispatchO run a file = .ok o := by
  obtain ⟨cs, nd⟩ := a
  cases cs with
  | none => cases nd with
    | true => exact ⟨_, rfl⟩
    | false => exact runJsonO_returns run hrun file
  | some c => cases nd with
    | false => exact ⟨_, rfl⟩
    | true =>
      simp only [dispatchO, getChunksizeOption]
      by_cases hc : c > 0
      · simp only [hc, if_true]
        exact runNewlineJsonO_returns run hrun _ (asUsize_of_pos c (by omega) (hi c rfl)).2 file hf
      · simp only [hc, if_false]
        exact ⟨_, rfl⟩

theorem commandLineRunnerO_returns {ε ρ : Type} (run : List Json → Outcome (Except ε ρ))
    (hrun : ∀ b, ∃ r, run b = .ok r) (a : CliArgs) (hi : ∀ c, a.chunksize = some c → c < 2 ^ 63)
    (cfg : ConfigFile) (file : QueryFile) :
    ∃ o, commandLineRunnerO run a cfg file = .ok o := by
  unfold commandLineRunnerO
  cases validate (ε := ε) a with
  | error e => exact ⟨_, rfl⟩
  | ok u =>
    simp only [afterValidateO]
    cases cfg with
    | unreadable => exact ⟨_, rfl⟩
    | unbuildable => exact ⟨_, rfl⟩
    | good =>
      cases file with
      | missing => exact ⟨_, rfl⟩
      | unreadable => exact ⟨_, rfl⟩
      | content doc lines => exact dispatchO_returns run hrun a hi _ (by simp)

/-! ### the runner does not run without bound -/

theorem runChunksO_ne_diverges {ε ρ : Type} (run : List Json → Outcome (Except ε ρ))
    (hrun : ∀ b, run b ≠ .diverges) :
    ∀ cs : List (List (Option Json)), runChunksO run cs ≠ .diverges
  | [] => by simp [runChunksO]
  | c :: cs => by
    have ih := runChunksO_ne_diverges run hrun cs
    have hc := hrun (chunkBatch c)
    unfold runChunksO
    cases h : run (chunkBatch c) with
    | diverges => exact absurd h hc
    | panic s => simp
    | ok r =>
      cases r with
      | error e => simp
      | ok v =>
        cases h2 : runChunksO run cs with
        | diverges => exact absurd h2 ih
        | panic s => simp
        | ok o => simp

theorem runJsonO_ne_diverges {ε ρ : Type} (run : List Json → Outcome (Except ε ρ))
    (hrun : ∀ b, run b ≠ .diverges) (file : QueryFile) : runJsonO run file ≠ .diverges := by
  cases file with
  | missing => simp [runJsonO]
  | unreadable => simp [runJsonO]
  | content doc lines =>
    cases doc with
    | none => simp [runJsonO]
    | some v =>
      simp only [runJsonO]
      cases getQueries v with
      | none => simp
      | some batch =>
        have hb := hrun batch
        cases h : run batch with
        | diverges => exact absurd h hb
        | panic s => simp [h]
        | ok r => cases r <;> simp [h]

/-- on every query file `command_line_runner` lets through (one that can be read), whatever the arguments -/
theorem dispatchO_ne_diverges {ε ρ : Type} (run : List Json → Outcome (Except ε ρ))
    (hrun : ∀ b, run b ≠ .diverges) (a : CliArgs) (doc : Option Json) (lines : List (Option Json)) :
    dispatchO run a (.content doc lines) ≠ .diverges := by
  obtain ⟨cs, nd⟩ := a
  cases cs with
  | none => cases nd with
    | true => simp [dispatchO]
    | false => exact runJsonO_ne_diverges run hrun _
  | some c => cases nd with
    | false => simp [dispatchO]
    | true =>
      simp only [dispatchO, getChunksizeOption]
      by_cases hc : c > 0
      · simp only [hc, if_true, runNewlineJsonO, Option.getD_some, itChunksO]
        by_cases h0 : asUsize c = 0
        · simp [h0]
        · simp only [h0, if_false]
          exact runChunksO_ne_diverges run hrun _
      · simp [hc]

theorem commandLineRunnerO_ne_diverges {ε ρ : Type} (run : List Json → Outcome (Except ε ρ))
    (hrun : ∀ b, run b ≠ .diverges) (a : CliArgs) (cfg : ConfigFile) (file : QueryFile) :
    commandLineRunnerO run a cfg file ≠ .diverges := by
  unfold commandLineRunnerO
  cases validate (ε := ε) a with
  | error e => simp
  | ok u =>
    simp only [afterValidateO]
    cases cfg with
    | unreadable => simp
    | unbuildable => simp
    | good =>
      cases file with
      | missing => simp
      | unreadable => simp
      | content doc lines => exact dispatchO_ne_diverges run hrun a doc lines

end Cli
end Compass
