/-
Helper lemmas about the cost model (`Model/Cost.lean`) over any linearly ordered field.
-/
import Compass.Proofs.Num
import Compass.Model.Cost
import Mathlib.Algebra.BigOperators.Group.List.Basic
import Mathlib.Algebra.Order.BigOperators.Group.List

namespace Compass

set_option linter.unusedSectionVars false

/-! ### `allSome` (the first `Err` of the iterator wins) -/

theorem allSome_map_some {ι β : Type} (l : List ι) (f : ι → Option β) (g : ι → β)
    (h : ∀ i ∈ l, f i = some (g i)) : allSome (l.map f) = some (l.map g) := by
  induction l with
  | nil => rfl
  | cons a l ih =>
    have ha := h a (by simp)
    have hl := ih (fun i hi => h i (by simp [hi]))
    simp [allSome, ha, hl]

theorem allSome_map_none {ι β : Type} (l : List ι) (f : ι → Option β)
    (h : ∃ i ∈ l, f i = none) : allSome (l.map f) = none := by
  induction l with
  | nil => simp at h
  | cons a l ih =>
    cases hfa : f a with
    | none => simp [allSome, hfa]
    | some x =>
      have : ∃ i ∈ l, f i = none := by
        obtain ⟨i, hi, hn⟩ := h
        rcases List.mem_cons.mp hi with rfl | hi
        · rw [hfa] at hn; cases hn
        · exact ⟨i, hi, hn⟩
      simp [allSome, hfa, ih this]

theorem allSome_map_isSome_iff {ι β : Type} (l : List ι) (f : ι → Option β) :
    (allSome (l.map f)).isSome ↔ ∀ i ∈ l, (f i).isSome := by
  induction l with
  | nil => simp [allSome]
  | cons a l ih =>
    cases hfa : f a with
    | none => simp [allSome, hfa]
    | some x =>
      cases hr : allSome (l.map f) with
      | none => simpa [allSome, hfa, hr] using ih
      | some r => simpa [allSome, hfa, hr] using ih

section
variable {α : Type} [Field α] [LinearOrder α] [IsStrictOrderedRing α] [Lit α] [LawfulLit α]

/-! ### the floor and the clip -/

/-- the floor is strictly positive (re-checked against the regenerated constant on every run) -/
theorem minCost_pos : (0 : α) < minCost := by
  have h1 : 0 < minCostLit.1 := by decide
  have h2 : 0 < minCostLit.2 := by decide
  simp only [minCost, LawfulLit.lit_eq]
  exact div_pos (Nat.cast_pos.mpr h1) (Nat.cast_pos.mpr h2)

theorem enforceStrictlyPositive_eq (c : α) :
    enforceStrictlyPositive c = if c ≤ 0 then minCost else c := by
  simp [enforceStrictlyPositive]

theorem enforceStrictlyPositive_of_pos {c : α} (h : 0 < c) : enforceStrictlyPositive c = c := by
  simp [enforceStrictlyPositive, not_le.mpr h]

theorem enforceStrictlyPositive_of_nonpos {c : α} (h : c ≤ 0) : enforceStrictlyPositive c = minCost := by
  simp [enforceStrictlyPositive, h]

theorem enforceStrictlyPositive_pos (c : α) : 0 < enforceStrictlyPositive c := by
  rw [enforceStrictlyPositive_eq]
  split
  · exact minCost_pos
  · exact not_le.mp ‹_›

theorem enforceNonNegative_eq (c : α) : enforceNonNegative c = max c 0 := by
  simp only [enforceNonNegative, zero_eq]
  split
  · rw [max_eq_right (le_of_lt ‹_›)]
  · rw [max_eq_left (not_lt.mp ‹_›)]

theorem enforceNonNegative_nonneg (c : α) : 0 ≤ enforceNonNegative c := by
  rw [enforceNonNegative_eq]; exact le_max_right _ _

/-! ### aggregation -/

theorem agg_sum (l : List α) : CostAggregation.sum.agg l = l.sum := by
  simp [CostAggregation.agg, List.sum_eq_foldl]

theorem agg_mul (l : List α) : CostAggregation.mul.agg l = if l = [] then 0 else l.prod := by
  cases l with
  | nil => simp [CostAggregation.agg]
  | cons a l => simp [CostAggregation.agg, List.prod_eq_foldl]

theorem list_prod_eq_zero (l : List α) (h : (0 : α) ∈ l) : l.prod = 0 := by
  induction l with
  | nil => simp at h
  | cons a l ih =>
    rcases List.mem_cons.mp h with h | h
    · simp [← h]
    · simp [ih h]

theorem aggIter_map_some {ι : Type} (a : CostAggregation) (l : List ι) (f : ι → Option α) (g : ι → α)
    (h : ∀ i ∈ l, f i = some (g i)) : a.aggIter (l.map f) = some (a.agg (l.map g)) := by
  simp [CostAggregation.aggIter, allSome_map_some l f g h]

theorem aggIter_map_isSome_iff {ι : Type} (a : CostAggregation) (l : List ι) (f : ι → Option α) :
    (a.aggIter (l.map f)).isSome ↔ ∀ i ∈ l, (f i).isSome := by
  rw [← allSome_map_isSome_iff]
  unfold CostAggregation.aggIter
  cases allSome (l.map f) <;> simp

/-! ### vehicle rates: a combined rate is the left-to-right composition; every rate is affine -/

theorem VehicleCostRate.mapValueList_eq_foldl (rs : List (VehicleCostRate α)) (x : α) :
    VehicleCostRate.mapValueList rs x = rs.foldl (fun acc r => r.mapValue acc) x := by
  induction rs generalizing x with
  | nil => simp [VehicleCostRate.mapValueList]
  | cons r rs ih => simp [VehicleCostRate.mapValueList, ih]

mutual
/-- coefficient of the affine map a rate denotes -/
def VehicleCostRate.slope : VehicleCostRate α → α
  | .zero => 0
  | .raw => 1
  | .factor f => f
  | .offset _ => 1
  | .combined rs => VehicleCostRate.slopeList rs
def VehicleCostRate.slopeList : List (VehicleCostRate α) → α
  | [] => 1
  | r :: rs => r.slope * VehicleCostRate.slopeList rs
end

mutual
/-- constant term of the affine map a rate denotes -/
def VehicleCostRate.intercept : VehicleCostRate α → α
  | .zero => 0
  | .raw => 0
  | .factor _ => 0
  | .offset o => o
  | .combined rs => VehicleCostRate.interceptList rs
def VehicleCostRate.interceptList : List (VehicleCostRate α) → α
  | [] => 0
  | r :: rs => r.intercept * VehicleCostRate.slopeList rs + VehicleCostRate.interceptList rs
end

mutual
theorem VehicleCostRate.mapValue_affine :
    ∀ (r : VehicleCostRate α) (x : α), r.mapValue x = r.slope * x + r.intercept
  | .zero, x => by simp [VehicleCostRate.mapValue, VehicleCostRate.slope, VehicleCostRate.intercept]
  | .raw, x => by simp [VehicleCostRate.mapValue, VehicleCostRate.slope, VehicleCostRate.intercept]
  | .factor f, x => by
    simp [VehicleCostRate.mapValue, VehicleCostRate.slope, VehicleCostRate.intercept, mul_comm]
  | .offset o, x => by simp [VehicleCostRate.mapValue, VehicleCostRate.slope, VehicleCostRate.intercept]
  | .combined rs, x => by
    simp only [VehicleCostRate.mapValue, VehicleCostRate.slope, VehicleCostRate.intercept]
    exact VehicleCostRate.mapValueList_affine rs x
theorem VehicleCostRate.mapValueList_affine :
    ∀ (rs : List (VehicleCostRate α)) (x : α),
      VehicleCostRate.mapValueList rs x
        = VehicleCostRate.slopeList rs * x + VehicleCostRate.interceptList rs
  | [], x => by simp [VehicleCostRate.mapValueList, VehicleCostRate.slopeList, VehicleCostRate.interceptList]
  | r :: rs, x => by
    simp only [VehicleCostRate.mapValueList, VehicleCostRate.slopeList, VehicleCostRate.interceptList]
    rw [VehicleCostRate.mapValueList_affine rs, VehicleCostRate.mapValue_affine r]
    ring
end

/-! ### network rates: a combined rate is the sum of its parts; lookups -/

theorem NetworkCostRate.traversalCostList_eq (rs : List (NetworkCostRate α)) (e : Nat) (acc : α) :
    NetworkCostRate.traversalCostList rs e acc = acc + (rs.map fun r => r.traversalCost e).sum := by
  induction rs generalizing acc with
  | nil => simp [NetworkCostRate.traversalCostList]
  | cons r rs ih => simp [NetworkCostRate.traversalCostList, ih, add_assoc]

theorem NetworkCostRate.accessCostList_eq (rs : List (NetworkCostRate α)) (p n : Nat) (acc : α) :
    NetworkCostRate.accessCostList rs p n acc = acc + (rs.map fun r => r.accessCost p n).sum := by
  induction rs generalizing acc with
  | nil => simp [NetworkCostRate.accessCostList]
  | cons r rs ih => simp [NetworkCostRate.accessCostList, ih, add_assoc]

theorem lookup1_of_not_mem (tbl : List (Nat × α)) (k : Nat) (h : ∀ p ∈ tbl, p.1 ≠ k) :
    lookup1 tbl k = 0 := by
  have : tbl.find? (fun p => p.1 == k) = none := by
    simp only [List.find?_eq_none]; intro p hp; simpa using h p hp
  simp [lookup1, this]

theorem lookup1_of_mem (tbl : List (Nat × α)) (k : Nat) (v : α)
    (hu : tbl.Pairwise (fun p q => p.1 ≠ q.1)) (h : (k, v) ∈ tbl) : lookup1 tbl k = v := by
  have key : tbl.find? (fun p => p.1 == k) = some (k, v) := by
    induction tbl with
    | nil => simp at h
    | cons p tbl ih =>
      rw [List.pairwise_cons] at hu
      by_cases hk : p.1 = k
      · have : p = (k, v) := by
          rcases List.mem_cons.mp h with h | h
          · exact h.symm
          · exact absurd hk (by have := hu.1 _ h; simpa using this)
        rw [List.find?_cons_of_pos (by simp [this]), this]
      · have hm : (k, v) ∈ tbl := by
          rcases List.mem_cons.mp h with h | h
          · exact absurd (by rw [← h]) hk
          · exact h
        rw [List.find?_cons_of_neg (by simpa using hk)]
        exact ih hu.2 hm
  simp [lookup1, key]

theorem lookup2_of_not_mem (tbl : List ((Nat × Nat) × α)) (k : Nat × Nat) (h : ∀ p ∈ tbl, p.1 ≠ k) :
    lookup2 tbl k = 0 := by
  have : tbl.find? (fun p => p.1.1 == k.1 && p.1.2 == k.2) = none := by
    simp only [List.find?_eq_none]; intro p hp
    have := h p hp
    simp only [Bool.and_eq_true, beq_iff_eq, not_and]
    intro h1 h2; exact this (Prod.ext h1 h2)
  simp [lookup2, this]

theorem lookup2_of_mem (tbl : List ((Nat × Nat) × α)) (k : Nat × Nat) (v : α)
    (hu : tbl.Pairwise (fun p q => p.1 ≠ q.1)) (h : (k, v) ∈ tbl) : lookup2 tbl k = v := by
  have key : tbl.find? (fun p => p.1.1 == k.1 && p.1.2 == k.2) = some (k, v) := by
    induction tbl with
    | nil => simp at h
    | cons p tbl ih =>
      rw [List.pairwise_cons] at hu
      by_cases hk : p.1 = k
      · have : p = (k, v) := by
          rcases List.mem_cons.mp h with h | h
          · exact h.symm
          · exact absurd hk (by have := hu.1 _ h; simpa using this)
        rw [List.find?_cons_of_pos (by simp [this]), this]
      · have hm : (k, v) ∈ tbl := by
          rcases List.mem_cons.mp h with h | h
          · exact absurd (by rw [← h]) hk
          · exact h
        have hk' : ¬ ((p.1.1 == k.1 && p.1.2 == k.2) = true) := by
          simp only [Bool.and_eq_true, beq_iff_eq, not_and]
          intro h1 h2; exact hk (Prod.ext h1 h2)
        have := ih hu.2 hm
        simp only [List.find?_cons]
        split
        · exact absurd ‹_› hk'
        · exact this
  simp [lookup2, key]

/-! ### total accessors (defaults are irrelevant wherever the model returns a cost) -/

/-- weight of state index `i` -/
def CostModel.wt (m : CostModel α) (i : Nat) : α := m.weights.getD i 0
/-- vehicle rate of state index `i` -/
def CostModel.vr (m : CostModel α) (i : Nat) : VehicleCostRate α := m.vehicleRates.getD i .zero
/-- network rate of state index `i` -/
def CostModel.nr (m : CostModel α) (i : Nat) : NetworkCostRate α := m.networkRates.getD i .zero
/-- change of state variable `i` over the edge -/
def stateDelta (prev next : List α) (i : Nat) : α := next.getD i 0 - prev.getD i 0

/-- every index the vehicle-cost loop touches is inside the four vectors it reads -/
def CostModel.InRangeV (m : CostModel α) (prev next : List α) : Prop :=
  ∀ i ∈ m.indices, i < prev.length ∧ i < next.length ∧ i < m.vehicleRates.length ∧ i < m.weights.length

/-- every index is inside all five vectors -/
def CostModel.InRange (m : CostModel α) (prev next : List α) : Prop :=
  ∀ i ∈ m.indices, i < prev.length ∧ i < next.length ∧ i < m.vehicleRates.length ∧ i < m.weights.length
    ∧ i < m.networkRates.length

theorem CostModel.InRange.toV {m : CostModel α} {prev next : List α} (h : m.InRange prev next) :
    m.InRangeV prev next := fun i hi => ⟨(h i hi).1, (h i hi).2.1, (h i hi).2.2.1, (h i hi).2.2.2.1⟩

theorem getElem?_eq_some_getD {β : Type} (l : List β) (i : Nat) (d : β) (h : i < l.length) :
    l[i]? = some (l.getD i d) := by
  simp [List.getD, List.getElem?_eq_getElem h]

theorem lt_length_iff_isSome {β : Type} (l : List β) (i : Nat) : i < l.length ↔ l[i]?.isSome = true := by
  simp

/-! ### the three per-feature items -/

theorem CostModel.vehicleTerm_isSome_iff (m : CostModel α) (prev next : List α) (i : Nat) :
    (m.vehicleTerm prev next i).isSome ↔
      (i < prev.length ∧ i < next.length ∧ i < m.vehicleRates.length ∧ i < m.weights.length) := by
  unfold CostModel.vehicleTerm
  rw [lt_length_iff_isSome prev, lt_length_iff_isSome next, lt_length_iff_isSome m.vehicleRates,
    lt_length_iff_isSome m.weights]
  cases prev[i]? <;> cases next[i]? <;> cases m.vehicleRates[i]? <;> cases m.weights[i]? <;> simp

theorem CostModel.vehicleTerm_eq (m : CostModel α) (prev next : List α) (i : Nat)
    (h : i < prev.length ∧ i < next.length ∧ i < m.vehicleRates.length ∧ i < m.weights.length) :
    m.vehicleTerm prev next i = some ((m.vr i).mapValue (stateDelta prev next i) * m.wt i) := by
  unfold CostModel.vehicleTerm
  rw [getElem?_eq_some_getD prev i 0 h.1, getElem?_eq_some_getD next i 0 h.2.1,
    getElem?_eq_some_getD m.vehicleRates i .zero h.2.2.1, getElem?_eq_some_getD m.weights i 0 h.2.2.2]
  rfl

theorem CostModel.networkTraversalTerm_isSome_iff (m : CostModel α) (prev next : List α) (e i : Nat) :
    (m.networkTraversalTerm prev next e i).isSome ↔
      (i < prev.length ∧ i < next.length ∧ i < m.weights.length ∧ i < m.networkRates.length) := by
  unfold CostModel.networkTraversalTerm
  rw [lt_length_iff_isSome prev, lt_length_iff_isSome next, lt_length_iff_isSome m.networkRates,
    lt_length_iff_isSome m.weights]
  cases prev[i]? <;> cases next[i]? <;> cases m.networkRates[i]? <;> cases m.weights[i]? <;> simp

theorem CostModel.networkTraversalTerm_eq (m : CostModel α) (prev next : List α) (e i : Nat)
    (h : i < prev.length ∧ i < next.length ∧ i < m.weights.length ∧ i < m.networkRates.length) :
    m.networkTraversalTerm prev next e i = some ((m.nr i).traversalCost e * m.wt i) := by
  unfold CostModel.networkTraversalTerm
  rw [getElem?_eq_some_getD prev i 0 h.1, getElem?_eq_some_getD next i 0 h.2.1,
    getElem?_eq_some_getD m.networkRates i .zero h.2.2.2, getElem?_eq_some_getD m.weights i 0 h.2.2.1]
  rfl

theorem CostModel.networkAccessTerm_isSome_iff (m : CostModel α) (prev next : List α) (pe ne i : Nat) :
    (m.networkAccessTerm prev next pe ne i).isSome ↔
      (i < m.networkRates.length → i < prev.length ∧ i < next.length) := by
  unfold CostModel.networkAccessTerm
  rw [lt_length_iff_isSome prev, lt_length_iff_isSome next, lt_length_iff_isSome m.networkRates]
  cases prev[i]? <;> cases next[i]? <;> cases m.networkRates[i]? <;> simp

/-- inside the vectors the access item is `lookup × weight` (the "missing rate ⇒ 0" and
"missing weight ⇒ coefficient 1" branches are not taken) -/
theorem CostModel.networkAccessTerm_eq (m : CostModel α) (prev next : List α) (pe ne i : Nat)
    (h : i < prev.length ∧ i < next.length ∧ i < m.weights.length ∧ i < m.networkRates.length) :
    m.networkAccessTerm prev next pe ne i = some ((m.nr i).accessCost pe ne * m.wt i) := by
  unfold CostModel.networkAccessTerm
  rw [getElem?_eq_some_getD prev i 0 h.1, getElem?_eq_some_getD next i 0 h.2.1,
    getElem?_eq_some_getD m.networkRates i .zero h.2.2.2, getElem?_eq_some_getD m.weights i 0 h.2.2.1]
  rfl

/-- a feature without network rate contributes `0` to the access cost (whatever the state vectors) -/
theorem CostModel.networkAccessTerm_of_no_rate (m : CostModel α) (prev next : List α) (pe ne i : Nat)
    (h : m.networkRates.length ≤ i) : m.networkAccessTerm prev next pe ne i = some 0 := by
  unfold CostModel.networkAccessTerm
  rw [List.getElem?_eq_none h]
  simp

/-! ### the three aggregated parts -/

/-- per-feature vehicle costs `rateᵢ(Δᵢ) · wᵢ`, in feature order -/
def CostModel.vehicleTerms (m : CostModel α) (prev next : List α) : List α :=
  m.indices.map fun i => (m.vr i).mapValue (stateDelta prev next i) * m.wt i
/-- per-feature per-edge surcharges `lookupᵢ(e) · wᵢ` -/
def CostModel.traversalTerms (m : CostModel α) (e : Nat) : List α :=
  m.indices.map fun i => (m.nr i).traversalCost e * m.wt i
/-- per-feature per-turn surcharges `lookupᵢ(prev edge, next edge) · wᵢ` -/
def CostModel.accessTerms (m : CostModel α) (pe ne : Nat) : List α :=
  m.indices.map fun i => (m.nr i).accessCost pe ne * m.wt i

theorem CostModel.vehicleCosts_isSome_iff (m : CostModel α) (prev next : List α) :
    (m.vehicleCosts prev next).isSome ↔ m.InRangeV prev next := by
  unfold CostModel.vehicleCosts CostModel.InRangeV
  rw [aggIter_map_isSome_iff]
  simp only [CostModel.vehicleTerm_isSome_iff]

theorem CostModel.vehicleCosts_eq (m : CostModel α) (prev next : List α) (h : m.InRangeV prev next) :
    m.vehicleCosts prev next = some (m.agg.agg (m.vehicleTerms prev next)) :=
  aggIter_map_some _ _ _ _ (fun i hi => m.vehicleTerm_eq prev next i (h i hi))

theorem CostModel.networkTraversalCosts_isSome_iff (m : CostModel α) (prev next : List α) (e : Nat) :
    (m.networkTraversalCosts prev next e).isSome ↔
      ∀ i ∈ m.indices, i < prev.length ∧ i < next.length ∧ i < m.weights.length ∧ i < m.networkRates.length := by
  unfold CostModel.networkTraversalCosts
  rw [aggIter_map_isSome_iff]
  simp only [CostModel.networkTraversalTerm_isSome_iff]

theorem CostModel.networkTraversalCosts_eq (m : CostModel α) (prev next : List α) (e : Nat)
    (h : m.InRange prev next) :
    m.networkTraversalCosts prev next e = some (m.agg.agg (m.traversalTerms e)) :=
  aggIter_map_some _ _ _ _ (fun i hi => m.networkTraversalTerm_eq prev next e i
    ⟨(h i hi).1, (h i hi).2.1, (h i hi).2.2.2.1, (h i hi).2.2.2.2⟩)

theorem CostModel.networkAccessCosts_isSome_iff (m : CostModel α) (prev next : List α) (pe ne : Nat) :
    (m.networkAccessCosts prev next pe ne).isSome ↔
      ∀ i ∈ m.indices, i < m.networkRates.length → i < prev.length ∧ i < next.length := by
  unfold CostModel.networkAccessCosts
  rw [aggIter_map_isSome_iff]
  simp only [CostModel.networkAccessTerm_isSome_iff]

/-- the access item as a total function: outside `networkRates` it is `0` -/
def CostModel.accessItem (m : CostModel α) (pe ne : Nat) (i : Nat) : α :=
  if i < m.networkRates.length then (m.nr i).accessCost pe ne * m.wt i else 0

theorem CostModel.networkAccessCosts_eq (m : CostModel α) (prev next : List α) (pe ne : Nat)
    (h : m.InRangeV prev next) :
    m.networkAccessCosts prev next pe ne = some (m.agg.agg (m.indices.map (m.accessItem pe ne))) := by
  refine aggIter_map_some _ _ _ _ (fun i hi => ?_)
  unfold CostModel.accessItem
  split
  · exact m.networkAccessTerm_eq prev next pe ne i ⟨(h i hi).1, (h i hi).2.1, (h i hi).2.2.2, ‹_›⟩
  · exact m.networkAccessTerm_of_no_rate prev next pe ne i (not_lt.mp ‹_›)

theorem CostModel.accessItem_eq (m : CostModel α) (pe ne : Nat) (i : Nat) :
    m.accessItem pe ne i = (m.nr i).accessCost pe ne * m.wt i := by
  unfold CostModel.accessItem
  split
  · rfl
  · have : m.nr i = .zero := by
      unfold CostModel.nr
      simp [List.getD, List.getElem?_eq_none (not_lt.mp ‹_›)]
    rw [this]
    simp [NetworkCostRate.accessCost]

theorem CostModel.accessItem_map_eq (m : CostModel α) (pe ne : Nat) :
    m.indices.map (m.accessItem pe ne) = m.accessTerms pe ne := by
  unfold CostModel.accessTerms
  exact List.map_congr_left (fun i _ => m.accessItem_eq pe ne i)

/-! ### the pre-floor totals -/

theorem CostModel.traversalTotal_isSome_iff (m : CostModel α) (e : Nat) (prev next : List α) :
    (m.traversalTotal e prev next).isSome ↔ m.InRange prev next := by
  unfold CostModel.traversalTotal
  constructor
  · intro h
    have hv : (m.vehicleCosts prev next).isSome := by
      cases hv : m.vehicleCosts prev next <;> simp [hv] at h ⊢
    have hn : (m.networkTraversalCosts prev next e).isSome := by
      cases hn : m.networkTraversalCosts prev next e <;> cases hv' : m.vehicleCosts prev next <;>
        simp [hn, hv'] at h ⊢
    rw [CostModel.vehicleCosts_isSome_iff] at hv
    rw [CostModel.networkTraversalCosts_isSome_iff] at hn
    intro i hi
    exact ⟨(hv i hi).1, (hv i hi).2.1, (hv i hi).2.2.1, (hv i hi).2.2.2, (hn i hi).2.2.2⟩
  · intro h
    rw [m.vehicleCosts_eq prev next h.toV, m.networkTraversalCosts_eq prev next e h]
    simp

theorem CostModel.traversalTotal_eq (m : CostModel α) (e : Nat) (prev next : List α) (h : m.InRange prev next) :
    m.traversalTotal e prev next
      = some (m.agg.agg (m.vehicleTerms prev next) + m.agg.agg (m.traversalTerms e)) := by
  unfold CostModel.traversalTotal
  rw [m.vehicleCosts_eq prev next h.toV, m.networkTraversalCosts_eq prev next e h]

theorem CostModel.accessTotal_isSome_iff (m : CostModel α) (pe ne : Nat) (prev next : List α) :
    (m.accessTotal pe ne prev next).isSome ↔ m.InRangeV prev next := by
  unfold CostModel.accessTotal
  constructor
  · intro h
    have hv : (m.vehicleCosts prev next).isSome := by
      cases hv : m.vehicleCosts prev next <;> simp [hv] at h ⊢
    exact (m.vehicleCosts_isSome_iff prev next).mp hv
  · intro h
    rw [m.vehicleCosts_eq prev next h, m.networkAccessCosts_eq prev next pe ne h]
    simp

theorem CostModel.accessTotal_eq (m : CostModel α) (pe ne : Nat) (prev next : List α) (h : m.InRangeV prev next) :
    m.accessTotal pe ne prev next
      = some (m.agg.agg (m.vehicleTerms prev next) + m.agg.agg (m.accessTerms pe ne)) := by
  unfold CostModel.accessTotal
  rw [m.vehicleCosts_eq prev next h, m.networkAccessCosts_eq prev next pe ne h, m.accessItem_map_eq]

/-! ### `CostModel::new` -/

theorem CostModel.new_eq_none_iff (feats : List (FeatureConfig α)) (agg : CostAggregation) :
    CostModel.new feats agg = none ↔ (feats.map FeatureConfig.weight).sum = 0 := by
  unfold CostModel.new
  simp only [zero_eq, ← List.sum_eq_foldl]
  constructor
  · intro h
    by_contra hne
    have : ¬ ((feats.map FeatureConfig.weight).sum ≤ 0 ∧ 0 ≤ (feats.map FeatureConfig.weight).sum) :=
      fun hh => hne (le_antisymm hh.1 hh.2)
    simp [this] at h
  · intro h
    simp [h]

theorem CostModel.new_eq_some (feats : List (FeatureConfig α)) (agg : CostAggregation)
    (m : CostModel α) (h : CostModel.new feats agg = some m) :
    m.indices = List.range feats.length ∧ m.weights = feats.map FeatureConfig.weight ∧
      m.vehicleRates = feats.map FeatureConfig.vehicleRate ∧
      m.networkRates = feats.map FeatureConfig.networkRate ∧ m.agg = agg := by
  unfold CostModel.new at h
  simp only at h
  split at h
  · cases h
  · cases h
    simp

/-! ### linearity and congruence of the per-feature sums -/

theorem sum_terms_linear {ι : Type} (l : List ι) (X w1 w2 w3 : ι → α) (a b : α)
    (h : ∀ i ∈ l, w3 i = a * w1 i + b * w2 i) :
    (l.map fun i => X i * w3 i).sum
      = a * (l.map fun i => X i * w1 i).sum + b * (l.map fun i => X i * w2 i).sum := by
  induction l with
  | nil => simp
  | cons i l ih =>
    have hi := h i (by simp)
    have hl := ih (fun j hj => h j (by simp [hj]))
    simp only [List.map_cons, List.sum_cons, hl, hi]
    ring

theorem getD_zipWith_linear (w1 w2 : List α) (a b : α) (i : Nat) (h1 : i < w1.length) (h2 : i < w2.length) :
    (List.zipWith (fun x y => a * x + b * y) w1 w2).getD i 0 = a * w1.getD i 0 + b * w2.getD i 0 := by
  have h3 : i < (List.zipWith (fun x y => a * x + b * y) w1 w2).length := by
    simp [List.length_zipWith, h1, h2]
  simp [List.getD, List.getElem?_eq_getElem h3, List.getElem?_eq_getElem h1, List.getElem?_eq_getElem h2]

/-- the pre-floor traversal value under sum aggregation, as an explicit function of the weight vector -/
theorem CostModel.traversalTotal_sum_weights (m : CostModel α) (hs : m.agg = .sum) (w : List α) (e : Nat)
    (prev next : List α) (h : CostModel.InRange { m with weights := w } prev next) :
    CostModel.traversalTotal { m with weights := w } e prev next
      = some ((m.indices.map fun i => (m.vr i).mapValue (stateDelta prev next i) * w.getD i 0).sum
          + (m.indices.map fun i => (m.nr i).traversalCost e * w.getD i 0).sum) := by
  rw [CostModel.traversalTotal_eq _ e prev next h]
  show some (m.agg.agg _ + m.agg.agg _) = _
  rw [hs, agg_sum, agg_sum]
  rfl

theorem CostModel.accessTotal_sum_weights (m : CostModel α) (hs : m.agg = .sum) (w : List α) (pe ne : Nat)
    (prev next : List α) (h : CostModel.InRangeV { m with weights := w } prev next) :
    CostModel.accessTotal { m with weights := w } pe ne prev next
      = some ((m.indices.map fun i => (m.vr i).mapValue (stateDelta prev next i) * w.getD i 0).sum
          + (m.indices.map fun i => (m.nr i).accessCost pe ne * w.getD i 0).sum) := by
  rw [CostModel.accessTotal_eq _ pe ne prev next h]
  show some (m.agg.agg _ + m.agg.agg _) = _
  rw [hs, agg_sum, agg_sum]
  rfl

theorem CostModel.vehicleCosts_sum_weights (m : CostModel α) (hs : m.agg = .sum) (w : List α)
    (prev next : List α) (h : CostModel.InRangeV { m with weights := w } prev next) :
    CostModel.vehicleCosts { m with weights := w } prev next
      = some ((m.indices.map fun i => (m.vr i).mapValue (stateDelta prev next i) * w.getD i 0).sum) := by
  rw [CostModel.vehicleCosts_eq _ prev next h]
  show some (m.agg.agg _) = _
  rw [hs, agg_sum]
  rfl

/-! ### per-turn tables and the charged edge total -/

mutual
/-- the network rate with every edge-pair (per-turn) table removed -/
def NetworkCostRate.dropTurn : NetworkCostRate α → NetworkCostRate α
  | .zero => .zero
  | .edgeLookup t => .edgeLookup t
  | .edgeEdgeLookup _ => .zero
  | .combined rs => .combined (NetworkCostRate.dropTurnList rs)
def NetworkCostRate.dropTurnList : List (NetworkCostRate α) → List (NetworkCostRate α)
  | [] => []
  | r :: rs => r.dropTurn :: NetworkCostRate.dropTurnList rs
end

mutual
theorem NetworkCostRate.traversalCost_dropTurn :
    ∀ (r : NetworkCostRate α) (e : Nat), r.dropTurn.traversalCost e = r.traversalCost e
  | .zero, e => by simp [NetworkCostRate.dropTurn]
  | .edgeLookup t, e => by simp [NetworkCostRate.dropTurn]
  | .edgeEdgeLookup t, e => by simp [NetworkCostRate.dropTurn, NetworkCostRate.traversalCost]
  | .combined rs, e => by
    simp only [NetworkCostRate.dropTurn, NetworkCostRate.traversalCost]
    exact NetworkCostRate.traversalCostList_dropTurn rs e _
theorem NetworkCostRate.traversalCostList_dropTurn :
    ∀ (rs : List (NetworkCostRate α)) (e : Nat) (acc : α),
      NetworkCostRate.traversalCostList (NetworkCostRate.dropTurnList rs) e acc
        = NetworkCostRate.traversalCostList rs e acc
  | [], e, acc => by simp [NetworkCostRate.dropTurnList]
  | r :: rs, e, acc => by
    simp only [NetworkCostRate.dropTurnList, NetworkCostRate.traversalCostList]
    rw [NetworkCostRate.traversalCost_dropTurn r e, NetworkCostRate.traversalCostList_dropTurn rs e]
end

/-- the cost model with every per-turn table removed from its network rates -/
def CostModel.dropTurns (m : CostModel α) : CostModel α :=
  { m with networkRates := m.networkRates.map NetworkCostRate.dropTurn }

theorem CostModel.traversalCost_dropTurns (m : CostModel α) (e : Nat) (prev next : List α) :
    m.dropTurns.traversalCost e prev next = m.traversalCost e prev next := by
  have hterm : ∀ i, m.dropTurns.networkTraversalTerm prev next e i = m.networkTraversalTerm prev next e i := by
    intro i
    unfold CostModel.networkTraversalTerm CostModel.dropTurns
    simp only [List.getElem?_map]
    cases prev[i]? <;> cases next[i]? <;> cases m.weights[i]? <;> cases m.networkRates[i]? <;>
      simp [NetworkCostRate.traversalCost_dropTurn]
  have hv : m.dropTurns.vehicleCosts prev next = m.vehicleCosts prev next := rfl
  have hn : m.dropTurns.networkTraversalCosts prev next e = m.networkTraversalCosts prev next e := by
    unfold CostModel.networkTraversalCosts
    have : m.dropTurns.indices.map (m.dropTurns.networkTraversalTerm prev next e)
        = m.indices.map (m.networkTraversalTerm prev next e) :=
      List.map_congr_left (fun i _ => hterm i)
    rw [this]; rfl
  unfold CostModel.traversalCost CostModel.traversalTotal
  rw [hv, hn]


/-- the per-turn surcharge the configuration prescribes for the record's edge pair, weighted: `0`
without neighbouring edge -/
def turnSurcharge (m : CostModel α) (pair : Option (Nat × Nat)) : α :=
  match pair with
  | none => 0
  | some (pe, ne) => (m.indices.map fun i => m.wt i * (m.nr i).accessCost pe ne).sum


end

end Compass
