/-
The search core: `a_star_algorithm::run_a_star`, `backtrack::vertex_oriented_route`, and the
edge-oriented wrapper `search_algorithm::run_edge_oriented`, line by line.

* Maps (`traversal_costs`, `solution`) are functions `Nat → Option _`; the frontier queue is an
  association list with at most one entry per vertex.
* The third-party priority queue does not define which of several equal-priority entries `pop`
  returns, so the loop is driven by a *schedule* (the list of vertices popped); a scheduled vertex
  is accepted only if it is a queue entry of minimal f-score.  Theorems quantify over all accepted
  schedules; the correspondence run replays the schedule the implementation really took.
* `Inst` is the search instance after the direction has been applied: `incident v` are the edges
  iterated at `v`, `keyV e` the vertex the tree entry of `e` is stored under, `termV e` the vertex
  it is expanded from.

No imports beyond the model: links into the driver.
-/
import Compass.Model.Num

namespace Compass

/-- which limit of the termination model fired -/
inductive TermKind where
  | runtime
  | size
  | iterations
  deriving DecidableEq, Repr, Inhabited

/-- small enum of error kinds (never error strings) -/
inductive ErrKind where
  | noPath
  | terminated (kinds : List TermKind)
  | internal
  | traversal
  | access
  | frontier
  | cost
  | state
  | network
  | build
  /-- the supplied schedule is not one the queue could have produced -/
  | badSchedule
  | scheduleExhausted
  /-- a Rust panic (site) -/
  | panic (site : String)
  deriving DecidableEq, Repr, Inhabited

/-- `SearchTreeBranch` with its `EdgeTraversal` flattened -/
structure Branch (α : Type) where
  /-- `terminal_vertex`: the vertex this entry was expanded from (its parent in the tree) -/
  terminal : Nat
  edge : Nat
  access : α
  traversal : α
  state : List α
  deriving Inhabited

/-- search instance with direction applied -/
structure Inst (α : Type) where
  incident : Nat → List Nat
  keyV : Nat → Nat
  termV : Nat → Nat
  init : List α
  /-- `frontier_model.valid_frontier(edge, state, last_edge)` -/
  valid : Nat → List α → Option Nat → Except ErrKind Bool
  /-- `direction.perform_edge_traversal(edge, last_edge, state)` ↦ (access_cost, traversal_cost, result_state) -/
  trav : Nat → Option Nat → List α → Except ErrKind (α × α × List α)
  /-- `estimate_traversal_cost(v, target, state) * weight_factor` (only consulted with a target) -/
  h : Nat → List α → Except ErrKind α
  /-- `termination_model.test(start, solution.len(), iterations)`; an error is `QueryTerminated` -/
  term : Nat → Nat → Except ErrKind Unit

/-- loop state of `run_a_star` -/
structure SState (α : Type) where
  /-- `costs`: frontier queue, (vertex, f-score) -/
  queue : List (Nat × α)
  /-- `traversal_costs` -/
  g : Nat → Option α
  /-- `solution` -/
  sol : Nat → Option (Branch α)
  /-- `solution.len()` -/
  solSize : Nat
  iters : Nat

def upd {β : Type} (m : Nat → Option β) (k : Nat) (v : β) : Nat → Option β :=
  fun x => if x = k then some v else m x

section
variable {α : Type} [Add α] [LT α] [DecidableLT α] [Lit α]

/-- `push_increase` on the reversed cost: insert when absent, otherwise keep the smaller f -/
def pushIncrease (q : List (Nat × α)) (v : Nat) (f : α) : List (Nat × α) :=
  match q.find? (fun p => p.1 == v) with
  | none => q ++ [(v, f)]
  | some (_, old) => if f < old then q.map (fun p => if p.1 == v then (v, f) else p) else q

/-- `tentative_gscore < existing_gscore` with a missing entry read as `Cost::INFINITY`: a tentative
cost of `+∞` (an overflowing sum) or NaN does not improve on a missing label, the vertex stays
unlabelled (`Lit.belowInf`: constantly true in an ordered field, the IEEE test at `Float`) -/
def improves (tent : α) (existing : Option α) : Bool :=
  match existing with
  | none => Lit.belowInf tent
  | some ex => decide (tent < ex)

/-- one turn of `for edge_id in incident_edge_iterator` -/
def relax (I : Inst α) (hasTarget : Bool) (lastEdge : Option Nat) (curState : List α)
    (s : SState α) (e : Nat) : Except ErrKind (SState α) :=
  match I.valid e curState lastEdge with
  | .error k => .error k
  | .ok false => .ok s
  | .ok true =>
    match I.trav e lastEdge curState with
    | .error k => .error k
    | .ok (ac, tc, st') =>
      match s.g (I.termV e) with
      | none => .ok s            -- INFINITY + cost is never below an existing score
      | some gt =>
        let tent := gt + (ac + tc)
        if improves tent (s.g (I.keyV e)) then
          let key := I.keyV e
          let br : Branch α := { terminal := I.termV e, edge := e, access := ac, traversal := tc, state := st' }
          let size' := match s.sol key with | none => s.solSize + 1 | some _ => s.solSize
          match (if hasTarget then I.h key curState else .ok (zero : α)) with
          | .error k => .error k
          | .ok hv =>
            .ok { s with g := upd s.g key tent, sol := upd s.sol key br, solSize := size',
                         queue := pushIncrease s.queue key (tent + hv) }
        else .ok s

/-- the `for` loop over the incident edges (stops at the first error, as `?` does) -/
def relaxAll (I : Inst α) (hasTarget : Bool) (lastEdge : Option Nat) (curState : List α) :
    List Nat → SState α → Except ErrKind (SState α)
  | [], s => .ok s
  | e :: es, s =>
    match relax I hasTarget lastEdge curState s e with
    | .error k => .error k
    | .ok s' => relaxAll I hasTarget lastEdge curState es s'

/-- the scheduled vertex is a queue entry with minimal f-score (what `pop` may return) -/
def popOk (q : List (Nat × α)) (v : Nat) : Bool :=
  match q.find? (fun p => p.1 == v) with
  | none => false
  | some (_, f) => q.all (fun p => !(decide (p.2 < f)))

/-- the `loop` of `run_a_star`, one turn per scheduled vertex -/
def runLoop (I : Inst α) (source : Nat) (target : Option Nat) :
    List Nat → SState α → Except ErrKind (SState α)
  | sched, s =>
    match I.term s.solSize s.iters with
    | .error k => .error k
    | .ok () =>
      if s.queue.isEmpty then
        match target with
        | some _ => .error .noPath
        | none => .ok s
      else
        match sched with
        | [] => .error .scheduleExhausted
        | v :: rest =>
          if !popOk s.queue v then .error .badSchedule
          else
            let s1 := { s with queue := s.queue.filter (fun p => !(p.1 == v)) }
            if target == some v then .ok s1
            else
              let cur : Option (Option Nat × List α) :=
                if v = source then some (none, I.init)
                else match s1.sol v with
                  | some b => some (some b.edge, b.state)
                  | none => none
              match cur with
              | none => .error .internal
              | some (lastEdge, st) =>
                match relaxAll I target.isSome lastEdge st (I.incident v) s1 with
                | .error k => .error k
                | .ok s2 => runLoop I source target rest { s2 with iters := s2.iters + 1 }

/-- the state before the loop -/
def initState (source : Nat) (f0 : α) : SState α :=
  { queue := [(source, f0)], g := upd (fun _ => none) source zero, sol := fun _ => none,
    solSize := 0, iters := 0 }

/-- `run_a_star`: `SearchResult { tree, iterations }` as the final loop state -/
def runAStar (I : Inst α) (source : Nat) (target : Option Nat) (sched : List Nat) :
    Except ErrKind (SState α) :=
  if target == some source then
    .ok { queue := [], g := fun _ => none, sol := fun _ => none, solSize := 0, iters := 0 }
  else
    match (match target with
           | none => Except.ok (zero : α)
           | some _ => I.h source I.init) with
    | .error k => .error k
    | .ok f0 => runLoop I source target sched (initState source f0)

/-- `backtrack::vertex_oriented_route`: follows `terminal` from the target; fails when a vertex is
missing from the tree or an edge id is met twice.  `fuel` bounds the walk (the code's loop is
bounded by the number of distinct edge ids, see `Proofs/Search`). -/
def backtrackAux (source : Nat) (sol : Nat → Option (Branch α)) :
    Nat → Nat → List Nat → List (Branch α) → Except ErrKind (List (Branch α))
  | 0, _, _, _ => .error (.panic "backtrack-fuel")
  | fuel + 1, v, visited, acc =>
    if v = source then .ok acc
    else match sol v with
      | none => .error .internal
      | some b =>
        if visited.contains b.edge then .error .internal
        else backtrackAux source sol fuel b.terminal (b.edge :: visited) (b :: acc)

/-- route in travel order of the search direction (the code pushes then reverses) -/
def backtrack (source target : Nat) (sol : Nat → Option (Branch α)) (fuel : Nat) :
    Except ErrKind (List (Branch α)) :=
  backtrackAux source sol fuel target [] []

/-- result of `SearchAlgorithm::run_vertex_oriented` for Dijkstra / A* -/
structure SearchResult (α : Type) where
  final : SState α
  route : Option (List (Branch α))

/-- `SearchAlgorithm::AStarAlgorithm.run_vertex_oriented` (Dijkstra is the case `h = 0`) -/
def runVertexOriented (I : Inst α) (source : Nat) (target : Option Nat) (sched : List Nat) :
    Except ErrKind (SearchResult α) :=
  match runAStar I source target sched with
  | .error k => .error k
  | .ok s =>
    match target with
    | none => .ok { final := s, route := none }
    | some t =>
      match backtrack source t s.sol (s.solSize + 1) with
      | .error k => .error k
      | .ok r => .ok { final := s, route := some r }

end

end Compass
