/-
Numeric foundation of the model.  Every numeric model function is written once, generic over a
type `α` carrying only the operation classes below, and is instantiated twice:
* at `Float` (IEEE double) in the compiled driver, so that the model performs the same double
  operations in the same order as the Rust code (bit-exact correspondence);
* at any linearly ordered field in the proofs (ℚ, ℝ), where the operations are the Mathlib ones.

`Lit.lit n d` is the numeric literal `n / d` (a decimal literal of the Rust source as an exact
fraction).  No imports: this file links into the driver executable.
-/
namespace Compass

class Lit (α : Type) where
  lit : Nat → Nat → α
  /-- `x < +∞` in the number type's own terms — the test the code makes when it compares a value
  with `Cost::INFINITY` (`f64::INFINITY`): in an ordered field every number passes (the default, and
  the law `LawfulLit.belowInf_eq`); at `Float` it is the IEEE comparison, false of `+∞` and of NaN.
  (Not expressible through `lit`: `1/0` is `+∞` at `Float` but `0` in a field.) -/
  belowInf : α → Bool := fun _ => true

instance : Lit Float where
  lit n d := Float.ofNat n / Float.ofNat d
  belowInf x := decide (x < Float.ofNat 1 / Float.ofNat 0)

/-- conversion factor as it appears in the Rust source: identity, `* n/d`, or `/ (n/d)` -/
inductive Factor where
  | id
  | mul (n d : Nat)
  | div (n d : Nat)
  deriving DecidableEq, Repr, Inhabited

section
variable {α : Type} [Mul α] [Div α] [Lit α]

/-- `*value`, `*value * k` or `*value / k` -/
def Factor.apply (f : Factor) (x : α) : α :=
  match f with
  | .id => x
  | .mul n d => x * Lit.lit n d
  | .div n d => x / Lit.lit n d
end

/-- zero and one and small literals -/
def zero {α : Type} [Lit α] : α := Lit.lit 0 1
def one {α : Type} [Lit α] : α := Lit.lit 1 1

end Compass
