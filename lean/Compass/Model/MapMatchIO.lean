/-
Map matching, the surroundings of the two `process` functions:

* `rust/routee-compass/src/plugin/input/input_json_extensions.rs` — every function of `InputJsonExtensions`
  (coordinate readers with their values, the readers of the written ids, grid-search and query-weight accessors);
* `rust/routee-compass/src/plugin/input/default/vertex_rtree/builder.rs`, `…/edge_rtree/edge_rtree_input_plugin_builder.rs`
  and the constructors they call (`RTreePlugin::new`, `EdgeRtreeInputPlugin::new`): which configuration is accepted,
  which error kind a malformed one gets, which tolerance results;
* `rust/routee-compass-core/src/util/geo/haversine.rs` — the range checks and the unit-converting variant
  (the trigonometric value itself is an input).
-/
import Compass.Model.MapMatch

namespace Compass
namespace MapMatch

/-! ### `InputJsonExtensions` -/

/-- `get(field)?.as_f64()`: the bit pattern of the double -/
def numFieldBits (q : Json) (f : Field) : Except Err Nat :=
  match q.get? f.name with
  | none => .error (.missingField f)
  | some v =>
    match v.asF64Bits? with
    | some b => .ok b
    | none => .error (.invalidType f)

/-- `get_origin_coordinate` with its value (the doubles, before the `as f32` narrowing) -/
def originCoordinateBits (q : Json) : Except Err (Nat × Nat) :=
  match numFieldBits q .originX with
  | .error e => .error e
  | .ok x =>
    match numFieldBits q .originY with
    | .error e => .error e
    | .ok y => .ok (x, y)

/-- `get_destination_coordinate` with its value -/
def destinationCoordinateBits (q : Json) : Except Err (Option (Nat × Nat)) :=
  match q.get? Field.destinationX.name, q.get? Field.destinationY.name with
  | none, none => .ok none
  | none, some _ => .error (.missingPair .destinationY .destinationX)
  | some _, none => .error (.missingPair .destinationX .destinationY)
  | some x, some y =>
    match x.asF64Bits? with
    | none => .error (.invalidType .destinationX)
    | some xb =>
      match y.asF64Bits? with
      | none => .error (.invalidType .destinationY)
      | some yb => .ok (some (xb, yb))

/-- `get_origin_vertex` / `get_origin_edge`: the key must be there and hold a `u64` -/
def getRequiredId (q : Json) (f : Field) : Except Err Nat :=
  match q.get? f.name with
  | none => .error (.missingField f)
  | some v =>
    match v.asU64? with
    | some n => .ok n
    | none => .error (.invalidType f)

/-- `get_destination_vertex` / `get_destination_edge`: absent is fine, present must be a `u64` -/
def getOptionalId (q : Json) (f : Field) : Except Err (Option Nat) :=
  match q.get? f.name with
  | none => .ok none
  | some v =>
    match v.asU64? with
    | some n => .ok (some n)
    | none => .error (.invalidType f)

def getOriginVertex (q : Json) : Except Err Nat := getRequiredId q .originVertex
def getDestinationVertex (q : Json) : Except Err (Option Nat) := getOptionalId q .destinationVertex
def getOriginEdge (q : Json) : Except Err Nat := getRequiredId q .originEdge
def getDestinationEdge (q : Json) : Except Err (Option Nat) := getOptionalId q .destinationEdge

/-- `get_grid_search` -/
def getGridSearch (q : Json) : Option Json := q.get? Field.gridSearch.name

/-- `get_query_weight_estimate` (bits of the double) -/
def getQueryWeightEstimate (q : Json) : Except Err (Option Nat) :=
  match q.get? Field.queryWeightEstimate.name with
  | none => .ok none
  | some v =>
    match v.asF64Bits? with
    | some b => .ok (some b)
    | none => .error (.invalidType .queryWeightEstimate)

/-- `add_query_weight_estimate`; the number arrives as `serde_json` renders it -/
def addQueryWeightEstimate (q : Json) (lexeme : String) (bits : Nat) : Except Err Json :=
  match q with
  | .obj kvs => .ok (.obj (Json.insertKv kvs Field.queryWeightEstimate.name (.num lexeme bits)))
  | _ => .error .notObject

/-! ### the builders -/

/-- `CompassConfigurationError`, the variants these builders produce -/
inductive CfgErr where
  /-- `ExpectedFieldForComponent` -/
  | missingField
  /-- `ExpectedFieldWithType` -/
  | wrongType
  /-- `FileNotFoundForComponent` -/
  | fileNotFound
  /-- `SerdeDeserializationError` -/
  | serde
  /-- `IoError` -/
  | io
  /-- `UserConfigurationError` -/
  | userConfig
  /-- `PluginError` (the vertex file does not parse) -/
  | plugin
  /-- `FrontierModelError` (the restriction file does not load) -/
  | frontier
  deriving DecidableEq, Repr, Inhabited

/-- `get_config_string` -/
def cfgString (cfg : Json) (k : String) : Except CfgErr String :=
  match cfg.get? k with
  | none => .error .missingField
  | some v =>
    match v.asStr? with
    | some s => .ok s
    | none => .error .wrongType

/-- `get_config_string_optional` -/
def cfgStringOpt (cfg : Json) (k : String) : Except CfgErr (Option String) :=
  match cfg.get? k with
  | none => .ok none
  | some v =>
    match v.asStr? with
    | some s => .ok (some s)
    | none => .error .wrongType

/-- `get_config_serde_optional::<Distance>("distance_tolerance")`: any JSON number (bits of its double) -/
def cfgTolerance (cfg : Json) : Except CfgErr (Option Nat) :=
  match cfg.get? "distance_tolerance" with
  | none => .ok none
  | some v =>
    match v.asF64Bits? with
    | some b => .ok (some b)
    | none => .error .serde

/-- a unit-only enum by `serde`: the variant's snake-case name as a string, or — the externally tagged form —
a one-entry object `{"<name>": null}` -/
def serdeUnitName (v : Json) : Option String :=
  match v with
  | .str s => some s
  | .obj [(k, .null)] => some k
  | _ => none

/-- `get_config_serde_optional::<DistanceUnit>("distance_unit")` -/
def cfgUnit (cfg : Json) : Except CfgErr (Option DistanceUnit) :=
  match cfg.get? "distance_unit" with
  | none => .ok none
  | some v =>
    match serdeUnitName v with
    | none => .error .serde
    | some s =>
      match DistanceUnit.ofName? s with
      | some u => .ok (some u)
      | none => .error .serde

/-- the four-armed `match (tolerance_distance, distance_unit)` of both constructors -/
def resolveTolerance {τ : Type} (t : Option τ) (u : Option DistanceUnit) : Option (τ × DistanceUnit) :=
  match t, u with
  | none, none => none
  | none, some _ => none
  | some t, none => some (t, baseDistanceUnit)
  | some t, some u => some (t, u)

/-- `VertexRTreeBuilder::build` + `RTreePlugin::new`; `fileExists` / `fileParses` describe the file the
path names (`fileParses`: it is a vertex CSV and every coordinate in it is finite) -/
def vertexBuilder (cfg : Json) (fileExists fileParses : Bool) : Except CfgErr (Option (Nat × DistanceUnit)) :=
  match cfgString cfg "vertices_input_file" with
  | .error e => .error e
  | .ok _ =>
    if !fileExists then .error .fileNotFound
    else
      match cfgTolerance cfg with
      | .error e => .error e
      | .ok t =>
        match cfgUnit cfg with
        | .error e => .error e
        | .ok u => if !fileParses then .error .plugin else .ok (resolveTolerance t u)

/-- `HashMap<String, u8>` by `serde` -/
def u8MapOk (v : Json) : Bool :=
  match v with
  | .obj m => m.all fun p => (u8Of p.2).isSome
  | _ => false

/-- `RoadClassParser` by `serde`: an object with a `mapping` object of `u8`s (other keys are ignored), or —
`serde` reads a struct from a sequence of its fields too — a one-element array holding that mapping -/
def parserOk (v : Json) : Bool :=
  match v with
  | .obj kvs =>
    match Json.lookup kvs "mapping" with
    | some m => u8MapOk m
    | none => false
  | .arr [m] => u8MapOk m
  | _ => false

/-- what the files named by an edge r-tree configuration hold: `none` = cannot be read -/
structure EdgeFiles where
  /-- number of lines of the road-class file -/
  roadClass : Option Nat
  restrictionsOk : Bool
  /-- number of linestrings of the geometry file -/
  geometry : Option Nat
  /-- one of the linestrings has no points -/
  emptyLinestring : Bool
  /-- one of the linestrings has a coordinate that is not finite as `f32` (`1e39`, `+NaN`, `-inf`) or a centroid
  that is not finite (finite coordinates so far apart that it overflows: `(3e38 0, -3e38 0)`) -/
  nonFinite : Bool
  deriving Repr, Inhabited

/-- the fields of the built `EdgeRtreeInputPlugin` that matter to matching -/
structure EdgePlugin where
  tolerance : Option (Nat × DistanceUnit)
  hasLookup : Bool
  hasRestrictions : Bool
  deriving Repr, Inhabited

/-- `EdgeRtreeInputPlugin::new`: the files are read in this order — road classes, restrictions, geometries —
then the geometries are checked (no empty linestring, every coordinate and centroid finite, as many as there are
road classes) -/
def edgeNew (files : EdgeFiles) (tol : Option (Nat × DistanceUnit)) (hasRc hasVr : Bool) : Except CfgErr EdgePlugin :=
  if hasRc && files.roadClass.isNone then .error .io
  else if hasVr && !files.restrictionsOk then .error .frontier
  else
    match files.geometry with
    | none => .error .io
    | some g =>
      if files.emptyLinestring then .error .userConfig
      else if files.nonFinite then .error .userConfig
      else if hasRc && files.roadClass != some g then .error .userConfig
      else .ok ⟨tol, hasRc, hasVr⟩

/-- the optional `road_class_parser` entry deserialises -/
def cfgParserOk (cfg : Json) : Bool :=
  match cfg.get? "road_class_parser" with
  | none => true
  | some v => parserOk v

/-- `EdgeRtreeInputPluginBuilder::build`, in the code's order of evaluation, then `EdgeRtreeInputPlugin::new` -/
def edgeBuilder (cfg : Json) (files : EdgeFiles) : Except CfgErr EdgePlugin :=
  match cfgString cfg "geometry_input_file" with
  | .error e => .error e
  | .ok _ =>
    match cfgStringOpt cfg "road_class_input_file" with
    | .error e => .error e
    | .ok rc =>
      match cfgStringOpt cfg "vehicle_restriction_input_file" with
      | .error e => .error e
      | .ok vr =>
        match cfgTolerance cfg with
        | .error e => .error e
        | .ok t =>
          match cfgUnit cfg with
          | .error e => .error e
          | .ok u =>
            if !cfgParserOk cfg then .error .serde
            else edgeNew files (resolveTolerance t u) rc.isSome vr.isSome

/-! ### haversine -/

section
variable {α : Type} [Mul α] [Div α] [Neg α] [Lit α] [LE α] [DecidableLE α]

/-- `(lo..=hi).contains(x)` -/
def inRange (lo hi x : α) : Bool := decide (lo ≤ x) && decide (x ≤ hi)

/-- the four range checks of `haversine_distance_meters` -/
def coordsInRange (sx sy dx dy : α) : Bool :=
  inRange (-(Lit.lit 180 1)) (Lit.lit 180 1) sx && inRange (-(Lit.lit 180 1)) (Lit.lit 180 1) dx &&
  inRange (-(Lit.lit 90 1)) (Lit.lit 90 1) sy && inRange (-(Lit.lit 90 1)) (Lit.lit 90 1) dy

/-- `coord_distance_meters`: `value` is what the trigonometric formula yields -/
def coordDistanceMeters (sx sy dx dy : α) (value : α) : Option α :=
  if coordsInRange sx sy dx dy then some value else none

/-- `coord_distance` -/
def coordDistance (sx sy dx dy : α) (value : α) (u : DistanceUnit) : Option α :=
  match coordDistanceMeters sx sy dx dy value with
  | none => none
  | some m => some (DistanceUnit.meters.convert u m)

end

end MapMatch
end Compass
