/-
k-shortest-paths: `ksp/single_via_paths_algorithm.rs`, `ksp/yens_algorithm.rs`,
`ksp/ksp_termination_criteria.rs`, `ksp/ksp_query.rs`, `util/route_similarity_function.rs`,
`a_star/bidirectional_ops.rs` (`reorient_reverse_route`, `route_contains_loop`) and the KSP arms of
`SearchAlgorithm::run_vertex_oriented` / `run_edge_oriented`, line by line, over the search model of
`Model/Search.lean` and the concrete instances of `Model/Instance.lean`.

* Every `run_a_star` call the code makes is replayed from its own schedule (the popped vertices);
  the single-via intersection queue is replayed from the sequence of vertices the implementation
  popped, each accepted only if it is an entry of minimal priority (`popOk`), because neither the
  `HashMap` iteration order that fills that queue nor its tie-breaking is defined.
* The similarity *rank* is cosine similarity, computed by the code over `HashMap`/`HashSet`
  iteration order with a square root: the model sums in a fixed order (first occurrence in route
  `a`, then the edges only in `b`) and takes `sqrt` from the class `HasSqrt` (IEEE at `Float`); the
  KSP loops themselves take the similarity *test* as a function parameter, so every theorem is for
  an arbitrary similarity function.
* Yen's algorithm does not always return (`0..len - 2` underflows for a one-edge route, the `while`
  loop makes no progress when no candidate was pushed): these are explicit outcomes (`diverges`).

No imports beyond the model: links into the driver.
-/
import Compass.Model.Instance
import Compass.Model.Json

namespace Compass

/-- the errors of a sub-search that the k-shortest-paths algorithms never absorb: a limit of the
termination model (`SearchError::TerminationModelFailure`: its `QueryTerminated` source is
`.terminated`; its `RuntimeError` source would be `.internal` but never occurs,
`SearchLimits.test_ne_internal`), a Rust panic, which unwinds through every caller, and — in the
model only — an invalid replay -/
def ErrKind.stopsQuery : ErrKind → Bool
  | .terminated _ => true
  | .panic _ => true
  -- (model only) a schedule the queue could not have produced is never absorbed either: the replay
  -- is rejected as a whole
  | .badSchedule => true
  | .scheduleExhausted => true
  | _ => false

/-- `sqrt` of the numeric type (IEEE `f64::sqrt` in the driver) -/
class HasSqrt (α : Type) where
  sqrt : α → α

instance : HasSqrt Float where
  sqrt := Float.sqrt

/-- `KspTerminationCriteria` -/
inductive KspTerm where
  | exact
  | maxIteration (max : Nat)
  | factor (factor : Nat)
  deriving DecidableEq, Repr, Inhabited

/-- `KspTerminationCriteria::terminate_search(k, solution_size)` — as coded: every variant is
`solution_size == k` and a side condition (`max >= k`, `factor * solution_size >= k`), so
`MaxIteration { max < k }` and `Factor { 0 }` (k > 0) never stop the loop, and k = 0 never equals
the size of a solution that starts with one route.  (`u64 as usize` products are taken without
overflow: the harness keeps them small.) -/
def KspTerm.terminate : KspTerm → Nat → Nat → Bool
  | .exact, k, n => n == k
  | .maxIteration max, k, n => (n == k) && decide (k ≤ max)
  | .factor f, k, n => (n == k) && decide (k ≤ f * n)

/-- `KspQuery::new`: `k` from the query when the field is present (`as_u64`, otherwise a build
error), else the configured default -/
def kspK (queryK : Option Json) (kDefault : Nat) : Except ErrKind Nat :=
  match queryK with
  | none => .ok kDefault
  | some j =>
    match j.asU64? with
    | some n => .ok n
    | none => .error .build

/-- `RouteSimilarityFunction` -/
inductive SimFn (α : Type) where
  | acceptAll
  | edgeIdCosine (threshold : α)
  | distanceWeightedCosine (threshold : α)

/-- `src_vertices.iter().unique().len() < src_vertices.len()`: some value occurs twice -/
def hasDup : List Nat → Bool
  | [] => false
  | x :: xs => xs.contains x || hasDup xs

/-- first occurrences, in order (the key set of `a.iter().map(..).collect::<HashMap>()`) -/
def firstOccurrences : List Nat → List Nat
  | [] => []
  | x :: xs => x :: (firstOccurrences xs).filter (fun y => !(y == x))

section
variable {α : Type} [Add α] [Sub α] [Mul α] [Div α] [LT α] [LE α] [DecidableLT α] [DecidableLE α]
  [BEq α] [Lit α]

/-- the configuration searched forwards (`Direction::Forward`) -/
def Config.fwd (c : Config α) : Config α := { c with reverse := false }

/-- the configuration searched backwards (`Direction::Reverse`), with the great-circle table towards
the reverse run's target -/
def Config.rev (c : Config α) (gcRev : List α) : Config α := { c with reverse := true, gc := gcRev }

/-! ### similarity -/

/-- `iter().sum::<f64>()` in list order -/
def sumList (xs : List α) : α := xs.foldl (· + ·) zero

/-- `collect::<Result<HashMap<_, _>, _>>()`: the distance of every edge of the route, stopping at the
first error -/
def distsOf (dist : Nat → Except ErrKind α) : List Nat → Except ErrKind (List (Nat × α))
  | [] => .ok []
  | e :: es =>
    match dist e with
    | .error k => .error k
    | .ok d =>
      match distsOf dist es with
      | .error k => .error k
      | .ok r => .ok ((e, d) :: r)

def lookupOr0 (m : List (Nat × α)) (e : Nat) : α :=
  match m.find? (fun p => p.1 == e) with
  | some p => p.2
  | none => zero

/-- `cos_similarity(a, b, dist_fn)`; sums run over a fixed order of the key sets -/
def cosSimilarity [HasSqrt α] (dist : Nat → Except ErrKind α) (a b : List Nat) : Except ErrKind α :=
  match distsOf dist a with
  | .error k => .error k
  | .ok am =>
    match distsOf dist b with
    | .error k => .error k
    | .ok bm =>
      let ka := firstOccurrences a
      let kb := firstOccurrences b
      let union := ka ++ kb.filter (fun e => !(ka.contains e))
      let numer := sumList (union.map (fun e => lookupOr0 am e * lookupOr0 bm e))
      let denomA := sumList (ka.map (fun e => lookupOr0 am e * lookupOr0 am e))
      let denomB := sumList (kb.map (fun e => lookupOr0 bm e * lookupOr0 bm e))
      let denom := HasSqrt.sqrt denomA * HasSqrt.sqrt denomB
      .ok (numer / denom)

/-- `RouteSimilarityFunction::test_similarity(a, b, si)` = `is_similar(rank_similarity(a, b))` on
edge-id lists: `AcceptAll` ranks 0 and is never similar; the cosine variants are similar when
`rank >= threshold` -/
def SimFn.test [HasSqrt α] (f : SimFn α) (edges : List (EdgeRec α)) (a b : List Nat) :
    Except ErrKind Bool :=
  match f with
  | .acceptAll => .ok false
  | .edgeIdCosine thr =>
    match cosSimilarity (fun _ => .ok (one : α)) a b with
    | .error k => .error k
    | .ok r => .ok (decide (thr ≤ r))
  | .distanceWeightedCosine thr =>
    match cosSimilarity (fun e => match edges[e]? with
                                  | some er => .ok er.dist
                                  | none => .error .network) a b with
    | .error k => .error k
    | .ok r => .ok (decide (thr ≤ r))

/-- `RouteSimilarityFunction::rank_similarity(a, b, si)` on edge-id lists: 0 for `AcceptAll`, the
cosine similarity of the two routes with unit weights or with the edges' lengths -/
def SimFn.rank [HasSqrt α] (f : SimFn α) (edges : List (EdgeRec α)) (a b : List Nat) :
    Except ErrKind α :=
  match f with
  | .acceptAll => .ok zero
  | .edgeIdCosine _ => cosSimilarity (fun _ => .ok (one : α)) a b
  | .distanceWeightedCosine _ =>
    cosSimilarity (fun e => match edges[e]? with
                            | some er => .ok er.dist
                            | none => .error .network) a b

/-- `RouteSimilarityFunction::is_similar(rank)` -/
def SimFn.isSimilar (f : SimFn α) (r : α) : Bool :=
  match f with
  | .acceptAll => false
  | .edgeIdCosine thr => decide (thr ≤ r)
  | .distanceWeightedCosine thr => decide (thr ≤ r)

/-! ### `bidirectional_ops` -/

/-- the loop of `reorient_reverse_route`: `EdgeTraversal::forward_traversal(next, prev, acc_state)`
for each successive edge, threading the state; the `terminal` recorded for a re-created element is
its edge's source vertex (an `EdgeTraversal` has no such field) -/
def retraverse (cf : Config α) : List Nat → Option Nat → List α → Except ErrKind (List (Branch α))
  | [], _, _ => .ok []
  | e :: es, prev, st =>
    match edgeTraversal cf e prev st with
    | .error k => .error k
    | .ok (ac, tc, st') =>
      match retraverse cf es (some e) st' with
      | .error k => .error k
      | .ok rest =>
        let src := match cf.edges[e]? with | some er => er.src | none => 0
        .ok ({ terminal := src, edge := e, access := ac, traversal := tc, state := st' } :: rest)

/-- `reorient_reverse_route(fwd_route, rev_route, si)`; `cf` is the configuration in forward
direction -/
def reorient (cf : Config α) (fwdRoute revRoute : List (Branch α)) : Except ErrKind (List (Branch α)) :=
  match fwdRoute.getLast? with
  | none => retraverse cf (revRoute.reverse.map (·.edge)) none (initialState cf.feats)
  | some last => retraverse cf (revRoute.reverse.map (·.edge)) (some last.edge) last.state

/-- `src_vertex_id` of every edge of the route (`NetworkFailure` on an unknown edge id) -/
def srcVertices (cf : Config α) : List (Branch α) → Except ErrKind (List Nat)
  | [] => .ok []
  | b :: bs =>
    match cf.edges[b.edge]? with
    | none => .error .network
    | some er =>
      match srcVertices cf bs with
      | .error k => .error k
      | .ok r => .ok (er.src :: r)

/-- `route_contains_loop` -/
def routeContainsLoop (cf : Config α) (route : List (Branch α)) : Except ErrKind Bool :=
  match srcVertices cf route with
  | .error k => .error k
  | .ok vs => .ok (hasDup vs)

/-! ### single-via paths -/

/-- `test_id_similarity` / `same_path`: same length and the same edge ids position by position -/
def sameIds (a b : List (Branch α)) : Bool := a.map (·.edge) == b.map (·.edge)

/-- the `for solution_route in solution.iter()` loop with its early `break`: `true` when some
accepted route has the same ids or is too similar; the similarity of a pair is evaluated (and its
error propagated) before the disjunction is looked at -/
def rejectedBy (sim : List Nat → List Nat → Except ErrKind Bool) (this : List (Branch α)) :
    List (List (Branch α)) → Except ErrKind Bool
  | [] => .ok false
  | s :: rest =>
    match sim (this.map (·.edge)) (s.map (·.edge)) with
    | .error k => .error k
    | .ok too => if sameIds this s || too then .ok true else rejectedBy sim this rest

/-- the intersection queue: every forward-tree vertex `v` whose forward parent and which itself are
keys of the reverse tree, with priority `fwd(v).total_cost + rev(parent of v).total_cost` -/
def interQueue (nV : Nat) (fwd rev : Nat → Option (Branch α)) : List (Nat × α) :=
  (List.range nV).filterMap (fun v =>
    match fwd v with
    | none => none
    | some fb =>
      match rev fb.terminal with
      | none => none
      | some rb =>
        if (rev v).isSome then some (v, (fb.access + fb.traversal) + (rb.access + rb.traversal))
        else none)

/-- `route_is_permitted(route, si)`: walking the route in travel order, the frontier model accepts
every edge given the state and edge of the element before it (the initial state and no edge for the
first); a refusal or an error of the model (or an unknown edge id) makes the route not permitted -/
def routePermitted (cf : Config α) : List (Branch α) → List α → Option Nat → Bool
  | [], _, _ => true
  | b :: bs, st, prev =>
    match cf.inst.valid b.edge st prev with
    | .ok true => routePermitted cf bs b.state (some b.edge)
    | _ => false

/-- the i-th candidate: backtrack both trees from the intersection vertex (an error of either is
propagated), re-traverse the reverse half forwards from the forward half's last state and edge —
when that fails the candidate is DROPPED (`none`) — and concatenate -/
def svCandidate (cf : Config α) (source target : Nat) (fwd rev : SState α) (v : Nat) :
    Except ErrKind (Option (List (Branch α))) :=
  match backtrack source v fwd.sol (fwd.solSize + 1) with
  | .error k => .error k
  | .ok fwdRoute =>
    match backtrack target v rev.sol (rev.solSize + 1) with
    | .error k => .error k
    | .ok revBack =>
      match reorient cf fwdRoute revBack with
      | .error _ => .ok none
      | .ok revRoute => .ok (some (fwdRoute ++ revRoute))

/-- the `loop` of `single_via_paths_algorithm::run`, one turn per replayed pop:
termination test, empty-queue test, pop, candidate (a dropped candidate only counts the turn), loop
test, frontier validation in travel order, similarity tests, accept.  Returns (solution, ksp_it). -/
def svLoop (cf : Config α) (sim : List Nat → List Nat → Except ErrKind Bool) (term : KspTerm)
    (k source target : Nat) (fwd rev : SState α) :
    List Nat → List (Nat × α) → List (List (Branch α)) → Nat →
      Except ErrKind (List (List (Branch α)) × Nat)
  | pops, queue, solution, it =>
    if term.terminate k solution.length then .ok (solution, it)
    else if queue.isEmpty then .ok (solution, it)
    else
      match pops with
      | [] => .error .scheduleExhausted
      | v :: rest =>
        if !popOk queue v then .error .badSchedule
        else
          match svCandidate cf source target fwd rev v with
          | .error e => .error e
          | .ok none =>
            svLoop cf sim term k source target fwd rev rest
              (queue.filter (fun p => !(p.1 == v))) solution (it + 1)
          | .ok (some this) =>
            match routeContainsLoop cf this with
            | .error e => .error e
            | .ok hasLoop =>
              match rejectedBy sim this solution with
              | .error e => .error e
              | .ok rej =>
                svLoop cf sim term k source target fwd rev rest
                  (queue.filter (fun p => !(p.1 == v)))
                  (if !hasLoop && routePermitted cf this (initialState cf.feats) none && !rej
                   then solution ++ [this] else solution) (it + 1)

/-- `single_via_paths_algorithm::run`.  `c` carries the great-circle table towards the target (used
by the forward run), `gcRev` the one towards the source (reverse run); the direction handed to
`run_vertex_oriented` is ignored by the code: the first run is always `Forward`, the second always
`Reverse`. -/
def singleVia (c : Config α) (gcRev : List α) (sim : List Nat → List Nat → Except ErrKind Bool)
    (term : KspTerm) (source target k : Nat) (fwdSched revSched pops : List Nat) :
    Except ErrKind (AlgResult α) :=
  let cf : Config α := c.fwd
  let cr : Config α := c.rev gcRev
  match runVertexOriented cf.inst source (some target) fwdSched with
  | .error e => .error e
  | .ok fres =>
    match runVertexOriented cr.inst target (some source) revSched with
    | .error e =>
      if e.stopsQuery then .error e   -- `Err(e @ TerminationModelFailure { .. }) => return Err(e)`
      else
      -- any other failure of the reverse search: no alternatives, the shortest route alone (before
      -- the tree-count checks); only the backtrack's own error could still be propagated
      match backtrack source target fres.final.sol (fres.final.solSize + 1) with
      | .error e => .error e
      | .ok tsp => .ok { trees := [fres.final.sol], routes := [tsp].take k,
                         iterations := fres.final.iters }
    | .ok rres =>
      let fwdTrees := [fres.final]
      let revTrees := [rres.final]
      if fwdTrees.length != 1 then .error .internal
      else if revTrees.length != 1 then .error .internal
      else
        let fwd := fres.final
        let rev := rres.final
        let queue := interQueue c.nV fwd.sol rev.sol
        match backtrack source target fwd.sol (fwd.solSize + 1) with
        | .error e => .error e
        | .ok tsp =>
          match svLoop cf sim term k source target fwd rev pops queue [tsp] 0 with
          | .error e => .error e
          | .ok (solution, it) =>
            .ok { trees := [fwd.sol, rev.sol], routes := solution.take k,
                  iterations := fwd.iters + rev.iters + it }

/-- the `KspSingleVia` arm of `SearchAlgorithm::run_vertex_oriented`: a destination is required
(build error), the direction must be `Forward` (build error), then `KspQuery::new`, then the algorithm; `similarity` / `termination` default to
`AcceptAll` / `Exact` -/
def singleViaVertex (c : Config α) (gcRev : List α) (sim : List Nat → List Nat → Except ErrKind Bool)
    (term : Option KspTerm) (kDefault : Nat) (queryK : Option Json) (source : Nat)
    (target : Option Nat) (fwdSched revSched pops : List Nat) : Except ErrKind (AlgResult α) :=
  match target with
  | none => .error .build
  | some t =>
    -- `require_forward(direction)?`: a reverse query is refused, not answered as a forward one
    if c.reverse then .error .build
    else
    match kspK queryK kDefault with
    | .error e => .error e
    | .ok k => singleVia c gcRev sim (term.getD .exact) source t k fwdSched revSched pops

/-- `search_algorithm::run_edge_oriented(source, target, query, direction, alg, si)` for an arbitrary
vertex-oriented algorithm `runV` (the same wrapper as `Config.runEdge`, which is its instance for
Dijkstra / A*) -/
def runEdgeWith (c : Config α) (runV : Nat → Option Nat → Except ErrKind (AlgResult α))
    (source : Nat) (target : Option Nat) : Except ErrKind (AlgResult α) :=
  match c.edges[source]? with
  | none => .error .network
  | some e1 =>
    let srcEt : Branch α := { terminal := e1.src, edge := source, access := zero, traversal := zero,
                              state := initialState c.feats }
    match target with
    | none =>
      match runV e1.dst none with
      | .error k => .error k
      | .ok r =>
        .ok { trees := r.trees.map (fun t => match t e1.dst with
                                            | some _ => t
                                            | none => upd t e1.dst srcEt),
              routes := r.routes.map (fun rt => srcEt :: rt),
              iterations := r.iterations + 1 }
    | some tgt =>
      match c.edges[tgt]? with
      | none => .error .network
      | some e2 =>
        if source = tgt then .ok { trees := [], routes := [], iterations := 0 }
        else if e1.dst = e2.src then
          let fwd : Config α := { c with reverse := false }
          match edgeTraversal fwd source none (initialState c.feats) with
          | .error k => .error k
          | .ok (ac1, tc1, st1) =>
            match edgeTraversal fwd tgt (some source) st1 with
            | .error k => .error k
            | .ok (ac2, tc2, st2) =>
              let b1 : Branch α := { terminal := e1.src, edge := source, access := ac1, traversal := tc1, state := st1 }
              let b2 : Branch α := { terminal := e2.src, edge := tgt, access := ac2, traversal := tc2, state := st2 }
              .ok { trees := [upd (upd (fun _ => none) e2.dst b2) e1.dst b1], routes := [[b1, b2]],
                    iterations := 1 }
        else
          match runV e1.dst (some e2.src) with
          | .error k => .error k
          | .ok r =>
            if r.trees.isEmpty then .error .noPath
            else
              let fix : List (Branch α) → Except ErrKind (List (Branch α)) := fun rt =>
                match rt.getLast? with
                | none => .error .internal
                | some last =>
                  let dstEt : Branch α := { terminal := e2.src, edge := tgt, access := zero,
                                            traversal := zero, state := last.state }
                  .ok (srcEt :: rt ++ [dstEt])
              let rec fixAll : List (List (Branch α)) → Except ErrKind (List (List (Branch α)))
                | [] => .ok []
                | rt :: rest =>
                  match fix rt with
                  | .error k => .error k
                  | .ok a =>
                    match fixAll rest with
                    | .error k => .error k
                    | .ok b => .ok (a :: b)
              match fixAll r.routes with
              | .error k => .error k
              | .ok routes => .ok { trees := r.trees, routes := routes, iterations := r.iterations + 2 }

/-! ### Yen's algorithm (`yens_algorithm::run`, as repaired) -/

/-- what a k-shortest-paths call does: return a result, return an error, or not return at all.
(`diverges` is only the fuel exhaustion of the model's `while` loop; `C13.yens_terminates` proves it
never happens — before the repairs the code did not return for short routes.) -/
inductive KspOutcome (α : Type) where
  | ok (r : AlgResult α)
  | err (e : ErrKind)
  | diverges (why : String)

/-- what one turn of `while accepted.len() < k` carries through its spur loop -/
structure YenState (α : Type) where
  /-- `best_candidate` (path, cost) -/
  best : Option (List (Branch α) × α)
  /-- `iterations`: number of underlying searches -/
  iterations : Nat
  /-- schedules of the `run_a_star` calls still to come -/
  scheds : List (List Nat)

/-- the search instance of a spur search: the forward configuration with an `EdgeCutFrontierModel`
around its frontier model -/
def cutCfg (c : Config α) (cut : List Nat) : Config α :=
  { c.fwd with frontier := FrontierM.edgeCut cut :: c.fwd.frontier }

/-- the edges cut for the spur index `spurIdx` of `prev`: the edge following the root path in
every accepted route that starts with the same root path -/
def yenCut (accepted : List (List (Branch α))) (root : List (Branch α)) (spurIdx : Nat) : List Nat :=
  accepted.filterMap (fun p =>
    if sameIds root (p.take (spurIdx + 1)) then p[spurIdx + 1]?.map (·.edge) else none)

/-- the similarity scan of one candidate: `true` when it is dissimilar to EVERY accepted route (the
scan stops at the first similar one; `test_similarity(accepted, candidate)` in that order) -/
def yenDissimilar (sim : List Nat → List Nat → Except ErrKind Bool) (cand : List (Branch α)) :
    List (List (Branch α)) → Except ErrKind Bool
  | [] => .ok true
  | t :: rest =>
    match sim (t.map (·.edge)) (cand.map (·.edge)) with
    | .error k => .error k
    | .ok true => .ok false
    | .ok false => yenDissimilar sim cand rest

/-- `best_candidate` after a candidate of cost `cost` that passed every test -/
def yenBetter (best : Option (List (Branch α) × α)) (cand : List (Branch α)) (cost : α) :
    Option (List (Branch α) × α) :=
  match best with
  | none => some (cand, cost)
  | some (bp, bc) => if cost < bc then some (cand, cost) else some (bp, bc)

/-- one turn of `for spur_idx in 0..prev_accepted_path.len().saturating_sub(2)`.  `c` is the
configuration (searched forwards).  The spur search runs from the spur vertex from the INITIAL
state; a failed spur search offers no candidate, unless it was stopped by a limit, which fails the query; the
spur part is then re-traversed from the root path's last edge and state (a failure drops the
candidate), and the candidate is kept only if it is loop-free, permitted by the frontier model in
travel order and dissimilar to every accepted route. -/
def yenSpur (c : Config α) (sim : List Nat → List Nat → Except ErrKind Bool) (target : Nat)
    (prev : List (Branch α)) (accepted : List (List (Branch α))) (st : YenState α) (spurIdx : Nat) :
    Except ErrKind (YenState α) :=
  let root := prev.take (spurIdx + 1)
  match root.getLast? with
  | none => .error .internal                      -- "root path is empty"
  | some spurEt =>
    match c.edges[spurEt.edge]? with
    | none => .error .network
    | some er =>
      -- `iterations += 1` whatever the spur search returns; it consumes the next recorded schedule
      -- (a search from the target to itself ignores it)
      let st1 : YenState α := { st with iterations := st.iterations + 1, scheds := st.scheds.tail }
      match runVertexOriented (cutCfg c (yenCut accepted root spurIdx)).inst er.dst (some target)
          (st.scheds.headD []) with
      | .error k =>
        -- a limit of the termination model stops the query; any other failure (typically "no path"
        -- once edges are cut) only means that this spur index has no candidate
        if k.stopsQuery then .error k else .ok st1
      | .ok res =>
        match res.route with
        | none => .error .internal                -- "no empty results should be stored in routes"
        | some spurPath =>
          -- `reorient_reverse_route(root, spur reversed)`: it reverses its second argument
          match reorient c.fwd root spurPath.reverse with
          | .error _ => .ok st1
          | .ok spurRoute =>
            let cand := root ++ spurRoute
            match routeContainsLoop c.fwd cand with
            | .error k => .error k
            | .ok true => .ok st1
            | .ok false =>
              if !routePermitted c.fwd cand (initialState c.fwd.feats) none then .ok st1
              else
                match yenDissimilar sim cand accepted with
                | .error k => .error k
                | .ok false => .ok st1
                | .ok true =>
                  .ok { st1 with best := yenBetter st.best cand
                                   (sumList (cand.map (fun b => b.access + b.traversal))) }

/-- the `for` loop over the given spur indices (stops at the first error, as `?` does) -/
def yenFor (c : Config α) (sim : List Nat → List Nat → Except ErrKind Bool) (target : Nat)
    (prev : List (Branch α)) (accepted : List (List (Branch α))) :
    List Nat → YenState α → Except ErrKind (YenState α)
  | [], st => .ok st
  | i :: is, st =>
    match yenSpur c sim target prev accepted st i with
    | .error k => .error k
    | .ok st' => yenFor c sim target prev accepted is st'

/-- `while accepted.len() < query.k { … }`: a turn runs the spur loop over the most recently
accepted route and accepts the best candidate once, after all spur indices; a turn that accepts
nothing ends the loop.  Every turn that goes on has lengthened `accepted`, so `fuel = k` turns
suffice.  `routes.take(k)` at the end. -/
def yenWhile (c : Config α) (sim : List Nat → List Nat → Except ErrKind Bool) (term : KspTerm)
    (target k : Nat) (tree : Nat → Option (Branch α)) :
    Nat → List (List (Branch α)) → Nat → List (List Nat) → KspOutcome α
  | 0, _, _, _ => .diverges "fuel"
  | fuel + 1, accepted, iterations, scheds =>
    if accepted.length < k then
      if term.terminate k accepted.length then
        .ok { trees := [tree], routes := accepted.take k, iterations := iterations }
      else
        match accepted.getLast? with
        | none => .err .internal                  -- "at least one route should be in routes"
        | some prev =>
          match yenFor c sim target prev accepted (List.range (prev.length - 2))
              { best := none, iterations := iterations, scheds := scheds } with
          | .error e => .err e
          | .ok st' =>
            match st'.best with
            | some (bp, _) =>
              yenWhile c sim term target k tree fuel (accepted ++ [bp]) st'.iterations st'.scheds
            | none =>
              .ok { trees := [tree], routes := accepted.take k, iterations := st'.iterations }
    else .ok { trees := [tree], routes := accepted.take k, iterations := iterations }

/-- `yens_algorithm::run`; `scheds` are the schedules of the successive `run_a_star` calls -/
def yens (c : Config α) (sim : List Nat → List Nat → Except ErrKind Bool) (term : KspTerm)
    (source target k : Nat) (scheds : List (List Nat)) : KspOutcome α :=
  match runVertexOriented c.fwd.inst source (some target) (scheds.headD []) with
  | .error e => .err e
  | .ok res =>
    match res.route with
    | none => .ok { trees := [], routes := [], iterations := 0 }   -- `routes.is_empty()`: default result
    | some shortest => yenWhile c sim term target k res.final.sol (k + 1) [shortest] 1 scheds.tail

/-- the `Yens` arm of `SearchAlgorithm::run_vertex_oriented` -/
def yensVertex (c : Config α) (sim : List Nat → List Nat → Except ErrKind Bool)
    (term : Option KspTerm) (kDefault : Nat) (queryK : Option Json) (source : Nat)
    (target : Option Nat) (scheds : List (List Nat)) : KspOutcome α :=
  match target with
  | none => .err .build
  | some t =>
    if c.reverse then .err .build     -- `require_forward(direction)?`
    else
    match kspK queryK kDefault with
    | .error e => .err e
    | .ok k => yens c sim (term.getD .exact) source t k scheds

/-- `run_edge_oriented` around an algorithm that may not return -/
def runEdgeWithOutcome (c : Config α) (runV : Nat → Option Nat → KspOutcome α)
    (source : Nat) (target : Option Nat) : KspOutcome α :=
  -- the wrapper calls the algorithm at most once: find out whether that call returns
  let probe : Option (KspOutcome α) :=
    match c.edges[source]? with
    | none => none
    | some e1 =>
      match target with
      | none => some (runV e1.dst none)
      | some tgt =>
        match c.edges[tgt]? with
        | none => none
        | some e2 => if source = tgt || e1.dst = e2.src then none else some (runV e1.dst (some e2.src))
  match probe with
  | some (.diverges why) => .diverges why
  | _ =>
    match runEdgeWith c (fun s t => match runV s t with
                                   | .ok r => .ok r
                                   | .err e => .error e
                                   | .diverges _ => .error .internal) source target with
    | .ok r => .ok r
    | .error e => .err e

/-! ### configuration: `KspTerminationCriteria`, `RouteSimilarityFunction` and `SearchAlgorithm`
from the JSON the application deserialises (`get_config_serde` = `serde_json::from_value`) -/

/-- `Display for KspTerminationCriteria` -/
def KspTerm.display : KspTerm → String
  | .exact => "terminate with up to k routes found"
  | .maxIteration max => "terminate with " ++ toString max ++ " routes found"
  | .factor f => "terminate with k*" ++ toString f ++ " routes found"

/-- what serde's internally tagged enum representation hands to a variant: the fields of the object
that carried the tag `"type"`, or the elements of the sequence after its first element (the tag) -/
inductive Content where
  | fields (kvs : List (String × Json))
  | seq (xs : List Json)

/-- tag and content of `#[serde(tag = "type")]`: an object whose `"type"` is a string, or a
sequence whose first element is a string; anything else is a deserialisation error -/
def tagged (j : Json) : Option (String × Content) :=
  match j with
  | .obj kvs =>
    match Json.lookup kvs "type" with
    | some (.str t) => some (t, .fields kvs)
    | _ => none
  | .arr (.str t :: rest) => some (t, .seq rest)
  | _ => none

/-- a variant with `n` fields accepts any object (unknown keys are ignored) and a sequence of
exactly `n` elements -/
def Content.arity (c : Content) (n : Nat) : Bool :=
  match c with
  | .fields _ => true
  | .seq xs => xs.length == n

/-- a required field: by name in an object, by position in a sequence -/
def Content.req (c : Content) (name : String) (idx : Nat) : Option Json :=
  match c with
  | .fields kvs => Json.lookup kvs name
  | .seq xs => xs[idx]?

/-- an `Option<_>` field: absent from an object, or `null`, is `None` (`some none`); in a sequence
the position must exist -/
def Content.opt (c : Content) (name : String) (idx : Nat) : Option (Option Json) :=
  match c with
  | .fields kvs =>
    match Json.lookup kvs name with
    | none => some none
    | some .null => some none
    | some v => some (some v)
  | .seq xs =>
    match xs[idx]? with
    | none => none
    | some .null => some none
    | some v => some (some v)

/-- `serde_json::from_value::<KspTerminationCriteria>`; `none` is the deserialisation error -/
def KspTerm.ofJson (j : Json) : Option KspTerm :=
  match tagged j with
  | none => none
  | some (tag, c) =>
    if tag == "exact" then (if c.arity 0 then some .exact else none)
    else if tag == "max_iteration" then
      if !c.arity 1 then none
      else match c.req "max" 0 with
        | some v => v.asU64?.map .maxIteration
        | none => none
    else if tag == "factor" then
      if !c.arity 1 then none
      else match c.req "factor" 0 with
        | some v => v.asU64?.map .factor
        | none => none
    else none

/-- `serde_json::from_value::<RouteSimilarityFunction>`; `num` reads an `f64` field (any JSON
number) -/
def SimFn.ofJson (num : Json → Option α) (j : Json) : Option (SimFn α) :=
  match tagged j with
  | none => none
  | some (tag, c) =>
    if tag == "accept_all" then (if c.arity 0 then some .acceptAll else none)
    else if tag == "edge_id_cosine_similarity" then
      if !c.arity 1 then none
      else match c.req "threshold" 0 with
        | some v => (num v).map .edgeIdCosine
        | none => none
    else if tag == "distance_weighted_cosine_similarity" then
      if !c.arity 1 then none
      else match c.req "threshold" 0 with
        | some v => (num v).map .distanceWeightedCosine
        | none => none
    else none

/-- `SearchAlgorithm` as configured: `Dijkstra` is `astar (some 0)` (the `Dijkstra` arm runs the A*
arm with `weight_factor = Some(Cost::ZERO)`) -/
inductive AlgCfg (α : Type) where
  | astar (wf : Option α)
  | singleVia (k : Nat) (under : AlgCfg α) (sim : Option (SimFn α)) (term : Option KspTerm)
  | yens (k : Nat) (under : AlgCfg α) (sim : Option (SimFn α)) (term : Option KspTerm)

/-- an optional nested configuration value -/
def optOfJson {β : Type} (f : Json → Option β) (o : Option (Option Json)) : Option (Option β) :=
  match o with
  | none => none
  | some none => some none
  | some (some v) => (f v).map some

/-- `serde_json::from_value::<SearchAlgorithm>` (`depth` bounds the nesting of `underlying` the
model follows) -/
def AlgCfg.ofJson (num : Json → Option α) : Nat → Json → Option (AlgCfg α)
  | 0, _ => none
  | depth + 1, j =>
    match tagged j with
    | none => none
    | some (tag, c) =>
      if tag == "dijkstra" then (if c.arity 0 then some (.astar (some zero)) else none)
      else if tag == "a*" then
        if !c.arity 1 then none
        else (optOfJson num (c.opt "weight_factor" 0)).map .astar
      else if tag == "ksp_single_via" || tag == "yens" then
        if !c.arity 4 then none
        else
          match c.req "k" 0, c.req "underlying" 1 with
          | some kj, some uj =>
            match kj.asU64?, AlgCfg.ofJson num depth uj,
                  optOfJson (SimFn.ofJson num) (c.opt "similarity" 2),
                  optOfJson KspTerm.ofJson (c.opt "termination" 3) with
            | some k, some u, some sim, some term =>
              if tag == "yens" then some (.yens k u sim term) else some (.singleVia k u sim term)
            | _, _, _, _ => none
          | _, _ => none
      else none

/-- the `weight_factor` in force: the query's when present (`as_f64`, otherwise a build error),
else the configured one -/
def effectiveWf (num : Json → Option α) (queryWf : Option Json) (cfgWf : Option α) :
    Except ErrKind (Option α) :=
  match queryWf with
  | none => .ok cfgWf
  | some j =>
    match num j with
    | some w => .ok (some w)
    | none => .error .build

/-- single-via over a k-shortest-paths `underlying` whose forward run returned `fr`: the reverse run
is refused with a build error (`require_forward`), which is not a limit, so the answer is the
shortest route alone, backtracked from the FIRST tree of the forward run (an internal error when
there is none), with the forward run's trees and iterations -/
def shortestAlone (c : Config α) (k source t : Nat) (fr : AlgResult α) : KspOutcome α :=
  match fr.trees.head? with
  | none => .err .internal
  | some t0 =>
    match backtrack source t t0 (c.edges.length + 2) with
    | .error e => .err e
    | .ok tsp => .ok { trees := fr.trees, routes := [tsp].take k, iterations := fr.iterations }

/-- a configured algorithm on a query.  A* / Dijkstra: the plain search.  A k-shortest-paths
algorithm over A* / Dijkstra: `singleViaVertex` / `yensVertex`.  A k-shortest-paths algorithm as
`underlying` of another is followed as far as the code path needs no second nested search:
single-via runs the nested algorithm forwards, is refused the reverse run (`require_forward`) and
returns the shortest route alone; Yen's algorithm returns the default result when the nested
algorithm returned no route — its spur searches through a nested algorithm are NOT modelled
(`.err (.panic "model: …")`; the harness does not generate such cases). -/
def runAlgCfg [HasSqrt α] (num : Json → Option α) (c : Config α) (gcRev : List α)
    (queryK queryWf : Option Json) :
    AlgCfg α → Nat → Option Nat → List (List Nat) → List Nat → KspOutcome α
  | .astar wf, source, target, scheds, _ =>
    match effectiveWf num queryWf wf with
    | .error e => .err e
    | .ok w =>
      match ({ c with wf := w } : Config α).runVertex source target (scheds.headD []) with
      | .error e => .err e
      | .ok r => .ok r
  | .singleVia k under sim term, source, target, scheds, pops =>
    let simf := fun a b => (sim.getD .acceptAll).test c.edges a b
    match under with
    | .astar wf =>
      match target with
      | none => .err .build
      | some _ =>
        if c.reverse then .err .build
        else
        match kspK queryK k with
        | .error e => .err e
        | .ok _ =>
          match effectiveWf num queryWf wf with
          | .error e => .err e
          | .ok w =>
            match singleViaVertex { c with wf := w } gcRev simf term k queryK source target
                (scheds.headD []) (scheds.tail.headD []) pops with
            | .error e => .err e
            | .ok r => .ok r
    | nested =>
      match target with
      | none => .err .build
      | some t =>
        if c.reverse then .err .build
        else
        match kspK queryK k with
        | .error e => .err e
        | .ok k' =>
          match runAlgCfg num c gcRev queryK queryWf nested source target scheds pops with
          | .err e => .err e
          | .diverges w => .diverges w
          | .ok fr => shortestAlone c k' source t fr
  | .yens k under sim term, source, target, scheds, pops =>
    let simf := fun a b => (sim.getD .acceptAll).test c.edges a b
    match under with
    | .astar wf =>
      match target with
      | none => .err .build
      | some _ =>
        if c.reverse then .err .build
        else
        match kspK queryK k with
        | .error e => .err e
        | .ok _ =>
          match effectiveWf num queryWf wf with
          | .error e => .err e
          | .ok w => yensVertex { c with wf := w } simf term k queryK source target scheds
    | nested =>
      match target with
      | none => .err .build
      | some _ =>
        if c.reverse then .err .build
        else
        match kspK queryK k with
        | .error e => .err e
        | .ok _ =>
          match runAlgCfg num c gcRev queryK queryWf nested source target scheds pops with
          | .err e => .err e
          | .diverges w => .diverges w
          | .ok fr =>
            if fr.routes.isEmpty then .ok { trees := [], routes := [], iterations := 0 }
            else .err (.panic "model: spur searches through a nested k-shortest-paths algorithm")

end

end Compass
