/-
The rest of the C07 anchor files, beyond the arithmetic core of `Model/Cost.lean`:
* `unit/cost.rs`: the order of `Cost` (`OrderedFloat`: NaN is the greatest value and equal to itself),
  `ReverseCost`, `max` / `min`;
* `cost_aggregation.rs`: which `Err` of the iterator `agg_iter` returns;
* `edge_traversal.rs`: `forward_traversal` / `reverse_traversal` with every error arm, in source order;
* `cost_model.rs`: `serialize_cost`, `serialize_cost_info`;
* the serde form of `VehicleCostRate` / `NetworkCostRate` / `CostAggregation` (internally tagged enums,
  as `serde_json::from_value` decides them), `CostModelBuilder::build`, `CostModelService::build`;
* `network_cost_rate_builder.rs`: lookup tables read from CSV files (decoding abstracted as in
  `Model/Graph.lean`).
No imports beyond Model files (links into the driver).
-/
import Compass.Model.Cost
import Compass.Model.Json
import Compass.Model.Graph

namespace Compass

/-! ### `CostAggregation::agg_iter`: the first `Err` wins -/

/-- position of the first `Err` item -/
def firstNone {β : Type} : List (Option β) → Option Nat
  | [] => none
  | none :: _ => some 0
  | some _ :: r => (firstNone r).map (· + 1)

section
variable {α : Type} [Add α] [Sub α] [Mul α] [LT α] [LE α] [DecidableLT α] [DecidableLE α] [Lit α]

/-! ### the order of `Cost` (`unit/cost.rs` derives `Ord` through `OrderedFloat<f64>`) -/

/-- `f64::is_nan`: the only value that is not `≤` itself -/
def costIsNaN (x : α) : Bool := !(decide (x ≤ x))

/-- `OrderedFloat::cmp`: `lt` is `!(self.is_nan() | self >= other)`, `gt` the same with the arguments
swapped, otherwise `Equal` — so NaN is the greatest value and equal to itself, `-0.0 = 0.0` -/
def costCmp (a b : α) : Ordering :=
  if !(costIsNaN a || decide (b ≤ a)) then .lt
  else if !(costIsNaN b || decide (a ≤ b)) then .gt
  else .eq

/-- `Ord::max` (`max_by`: the second argument unless the first is greater) -/
def costMax (a b : α) : α := if costCmp a b = .gt then a else b
/-- `Ord::min` (the first argument unless it is greater) -/
def costMin (a b : α) : α := if costCmp a b = .gt then b else a
/-- `ReverseCost`: `std::cmp::Reverse` swaps the arguments -/
def reverseCostCmp (a b : α) : Ordering := costCmp b a
/-- derived `PartialOrd::le` on `Cost` (what `enforce_strictly_positive` evaluates) -/
def costLe (a b : α) : Bool := costCmp a b != .gt
/-- derived `PartialOrd::lt` on `Cost` (what `enforce_non_negative` evaluates) -/
def costLt (a b : α) : Bool := costCmp a b == .lt

/-- `Cost::enforce_strictly_positive` written with the derived comparison -/
def enforceStrictlyPositiveCmp (c : α) : α := if costLe c zero then minCost else c
/-- `Cost::enforce_non_negative` written with the derived comparison -/
def enforceNonNegativeCmp (c : α) : α := if costLt c zero then zero else c

/-! ### `EdgeTraversal::forward_traversal` / `reverse_traversal`, every arm -/

/-- the `SearchError` kinds the two functions can return -/
inductive ETErr where
  | network    -- `NetworkError` of a graph lookup
  | access     -- `AccessModelError`
  | traversal  -- `TraversalModelError`
  | cost       -- `CostModelError`
  deriving DecidableEq, Repr

/-- what the function sees of its `SearchInstance` besides the cost model -/
structure ETEnv (α : Type) where
  /-- `graph.edges[e]` exists: end points `(src, dst)` -/
  edge : Nat → Option (Nat × Nat)
  /-- `graph.vertices[v]` exists -/
  vertex : Nat → Bool
  /-- `access_model.access_edge`: the state it leaves, `none` = `Err` -/
  access : Option (List α)
  /-- `traversal_model.traverse_edge` -/
  traverse : Option (List α)

/-- `Graph::edge_triplet` succeeds -/
def ETEnv.tripletOk (env : ETEnv α) (e : Nat) : Bool :=
  match env.edge e with
  | none => false
  | some (s, d) => env.vertex s && env.vertex d

/-- the access step of the two functions: the `access_cost` field of the record.
`forward = true`: `nbr` is the previous edge (`get_vertex(e1.src_vertex_id)`, pair `(nbr, trav)`);
`forward = false`: `nbr` is the next edge (`get_vertex(e2.dst_vertex_id)`, pair `(trav, nbr)`) -/
def CostModel.accessStep (m : CostModel α) (env : ETEnv α) (forward : Bool) (trav : Nat)
    (nbr : Option Nat) (prev : List α) : Except ETErr α :=
  match nbr with
  | none => .ok (edgeAccessShare none)
  | some k =>
    match env.edge k with
    | none => .error .network
    | some sd =>
      if env.vertex (if forward then sd.1 else sd.2) = false then .error .network
      else
        match env.access with
        | none => .error .access
        | some accessed =>
          match m.accessCost (if forward then k else trav) (if forward then trav else k) prev accessed with
          | none => .error .cost
          | some a => .ok (edgeAccessShare (some a))

/-- `forward = true`: `forward_traversal(trav, nbr, prev, si)`; `forward = false`:
`reverse_traversal(trav, nbr, prev, si)`.  Returns the `access_cost` and `traversal_cost` fields. -/
def CostModel.edgeTraversalE (m : CostModel α) (env : ETEnv α) (forward : Bool) (trav : Nat)
    (nbr : Option Nat) (prev : List α) : Except ETErr (α × α) :=
  if env.tripletOk trav = false then .error .network
  else
    match m.accessStep env forward trav nbr prev with
    | .error e => .error e
    | .ok acc =>
      match env.traverse with
      | none => .error .traversal
      | some next =>
        match m.traversalCost trav prev next with
        | none => .error .cost
        | some t => .ok (acc, t - acc)

end

/-! ### serialisation (`serialize_cost`, `serialize_cost_info`) -/

section
variable {α : Type} [Add α] [Sub α] [Mul α] [LT α] [LE α] [DecidableLT α] [DecidableLE α] [Lit α]

/-- `HashMap::insert` on an association list with unique keys: replace or append -/
def kvInsert {β : Type} (kvs : List (String × β)) (k : String) (v : β) : List (String × β) :=
  if kvs.any (fun p => p.1 == k) then kvs.map (fun p => if p.1 == k then (k, v) else p)
  else kvs ++ [(k, v)]

/-- the per-feature costs of `serialize_cost`, in feature order; `none` = `Err` (state too short, or no
vehicle rate at the index) -/
def CostModel.featureCosts (m : CostModel α) (names : List String) (state : List α) :
    Option (List (String × α)) :=
  allSome ((names.zip m.indices).map fun (name, i) =>
    match state[i]?, m.vehicleRates[i]? with
    | some x, some r => some (name, r.mapValue x)
    | _, _ => none)

/-- `CostModel::serialize_cost` as a set of `(key, cost)` entries (a `HashMap` in the code: the order
of the entries carries no meaning): every feature's cost, then `total_cost` — their sum in feature
order — inserted under its key (replacing a feature of that name) -/
def CostModel.serializeCost (m : CostModel α) (names : List String) (state : List α) :
    Option (List (String × α)) :=
  match m.featureCosts names state with
  | none => none
  | some fc =>
    let total := (fc.map Prod.snd).foldl (· + ·) zero
    some (kvInsert (fc.foldl (fun acc p => kvInsert acc p.1 p.2) []) "total_cost" total)

/-- `serde_json::to_value` of a vehicle rate: the derived `Serialize` of an internally tagged enum
cannot write the newtype variant `Combined` (it holds a sequence): `none` -/
def VehicleCostRate.toJson? (enc : α → Json) : VehicleCostRate α → Option Json
  | .zero => some (.obj [("type", .str "zero")])
  | .raw => some (.obj [("type", .str "raw")])
  | .factor f => some (.obj [("type", .str "factor"), ("factor", enc f)])
  | .offset o => some (.obj [("type", .str "offset"), ("offset", enc o)])
  | .combined _ => none

/-- `serde_json::to_value` of a network rate: `Combined` cannot be written, nor an edge-pair lookup with
entries (a tuple is not a JSON object key); an edge lookup is an object keyed by the decimal edge id
(entries in table order here; a `HashMap` in the code) -/
def NetworkCostRate.toJson? (enc : α → Json) : NetworkCostRate α → Option Json
  | .zero => some (.obj [("type", .str "zero")])
  | .edgeLookup tbl =>
    some (.obj [("type", .str "edge_lookup"), ("lookup", .obj (tbl.map fun p => (toString p.1, enc p.2)))])
  | .edgeEdgeLookup [] => some (.obj [("type", .str "edge_edge_lookup"), ("lookup", .obj [])])
  | .edgeEdgeLookup (_ :: _) => none
  | .combined _ => none

def CostAggregation.toJson : CostAggregation → Json
  | .sum => .str "sum"
  | .mul => .str "mul"

/-- the loop of `serialize_cost_info` over the features; `none` = `Err` (a vector too short, or a rate
that cannot be serialised) -/
def CostModel.costInfoEntries (m : CostModel α) (enc : α → Json) :
    List (String × Nat) → List (String × Json) → Option (List (String × Json))
  | [], acc => some acc
  | (name, i) :: rest, acc =>
    match m.weights[i]?, m.vehicleRates[i]?, m.networkRates[i]? with
    | some w, some v, some n =>
      match v.toJson? enc, n.toJson? enc with
      | some vj, some nj =>
        m.costInfoEntries enc rest (Json.insertKv acc name
          (.obj [("feature", .str name), ("weight", enc w), ("vehicle_rate", vj), ("network_rate", nj)]))
      | _, _ => none
    | _, _, _ => none

/-- `CostModel::serialize_cost_info`: one entry per feature in feature order, then `cost_aggregation`
(`serde_json::Map::insert`: an existing key keeps its place and gets the new value) -/
def CostModel.serializeCostInfo (m : CostModel α) (enc : α → Json) (names : List String) : Option Json :=
  match m.costInfoEntries enc (names.zip m.indices) [] with
  | none => none
  | some kvs => some (.obj (Json.insertKv kvs "cost_aggregation" m.agg.toJson))

end

/-! ### the serde form of the rate enums, as `serde_json::from_value` decides them

`#[serde(tag = "type", rename_all = "snake_case")]`: an object holding the tag (other unknown keys are
ignored), or a sequence whose first element is the tag and whose remaining elements are the variant's
fields in order.  The variant's content is re-read from serde's buffered `Content`, which has two
consequences that are modelled as they are: the newtype variant `Combined(Vec<_>)` can only be given in
the sequence form, and a lookup table with entries is always rejected (the buffered key is a string,
and only `serde_json`'s own map-key deserialiser parses integers out of strings; an edge-pair key is a
tuple).  `num` decodes a JSON number (`none` for anything else).  `none` = serde error. -/

section
variable {α : Type}

mutual
def parseVehicleRate (num : Json → Option α) : Json → Option (VehicleCostRate α)
  | .obj kvs =>
    match Json.lookup kvs "type" with
    | some (.str "zero") => some .zero
    | some (.str "raw") => some .raw
    | some (.str "factor") =>
      match Json.lookup kvs "factor" with
      | some v => (num v).map .factor
      | none => none
    | some (.str "offset") =>
      match Json.lookup kvs "offset" with
      | some v => (num v).map .offset
      | none => none
    | _ => none
  | .arr (.str "zero" :: rest) => if rest.isEmpty then some .zero else none
  | .arr (.str "raw" :: rest) => if rest.isEmpty then some .raw else none
  | .arr (.str "factor" :: rest) =>
    match rest with
    | [v] => (num v).map .factor
    | _ => none
  | .arr (.str "offset" :: rest) =>
    match rest with
    | [v] => (num v).map .offset
    | _ => none
  | .arr (.str "combined" :: rest) => (parseVehicleRateList num rest).map .combined
  | _ => none
def parseVehicleRateList (num : Json → Option α) : List Json → Option (List (VehicleCostRate α))
  | [] => some []
  | j :: r =>
    match parseVehicleRate num j, parseVehicleRateList num r with
    | some a, some l => some (a :: l)
    | _, _ => none
end

/-- the `lookup` field of the two lookup variants: only the empty object is accepted -/
def parseEmptyLookup : Option Json → Bool
  | some (.obj []) => true
  | _ => false

mutual
def parseNetworkRate : Json → Option (NetworkCostRate α)
  | .obj kvs =>
    match Json.lookup kvs "type" with
    | some (.str "zero") => some .zero
    | some (.str "edge_lookup") => if parseEmptyLookup (Json.lookup kvs "lookup") then some (.edgeLookup []) else none
    | some (.str "edge_edge_lookup") =>
      if parseEmptyLookup (Json.lookup kvs "lookup") then some (.edgeEdgeLookup []) else none
    | _ => none
  | .arr (.str "zero" :: rest) => if rest.isEmpty then some .zero else none
  | .arr (.str "edge_lookup" :: rest) =>
    match rest with
    | [v] => if parseEmptyLookup (some v) then some (.edgeLookup []) else none
    | _ => none
  | .arr (.str "edge_edge_lookup" :: rest) =>
    match rest with
    | [v] => if parseEmptyLookup (some v) then some (.edgeEdgeLookup []) else none
    | _ => none
  | .arr (.str "combined" :: rest) => (parseNetworkRateList rest).map .combined
  | _ => none
def parseNetworkRateList : List Json → Option (List (NetworkCostRate α))
  | [] => some []
  | j :: r =>
    match parseNetworkRate j, parseNetworkRateList r with
    | some a, some l => some (a :: l)
    | _, _ => none
end

/-- `CostAggregation` (externally tagged unit variants): the string, or a one-entry object
`{"sum": null}` -/
def parseAggregation : Json → Option CostAggregation
  | .str "sum" => some .sum
  | .str "mul" => some .mul
  | .obj [("sum", .null)] => some .sum
  | .obj [("mul", .null)] => some .mul
  | _ => none

/-- `HashMap<String, T>` from an object -/
def parseMap {β : Type} (p : Json → Option β) : Json → Option (List (String × β))
  | .obj kvs => allSome (kvs.map fun (k, v) => (p v).map fun b => (k, b))
  | _ => none

def parseBool : Json → Option Bool
  | .bool b => some b
  | _ => none

/-- `get_config_serde_optional`: an absent key (or a value that is no object) is `Ok(None)`;
`none` = serde error -/
def optField {β : Type} (p : Json → Option β) (j : Json) (key : String) : Option (Option β) :=
  match j.get? key with
  | none => some none
  | some v => (p v).map some

/-- `CostModelService` -/
structure CostService (α : Type) where
  vehicleRates : List (String × VehicleCostRate α)
  networkRates : List (String × NetworkCostRate α)
  weights : List (String × α)
  agg : CostAggregation
  ignoreUnknownWeights : Bool

/-- `CostModelBuilder::build`; `none` = `SerdeDeserializationError` -/
def buildCostService (num : Json → Option α) (config : Json) : Option (CostService α) :=
  match optField (parseMap (parseVehicleRate num)) config "vehicle_rates",
        optField (parseMap (parseNetworkRate (α := α))) config "network_rates",
        optField (parseMap num) config "weights",
        optField parseAggregation config "cost_aggregation",
        optField parseBool config "ignore_unknown_user_provided_weights" with
  | some v, some n, some w, some a, some i =>
    some { vehicleRates := v.getD [], networkRates := n.getD [], weights := w.getD [],
           agg := a.getD .sum, ignoreUnknownWeights := i.getD true }
  | _, _, _, _, _ => none

/-- the `Err` kinds of `CostModelService::build` -/
inductive ServiceErr where
  | serde            -- a query field does not deserialise
  | unknownWeights   -- "unknown weights in query"
  | newFailed        -- "failed to build cost model" (`CostModel::new`: weights sum to zero)
  deriving DecidableEq, Repr

def assocGet {β : Type} (kvs : List (String × β)) (k : String) : Option β :=
  match kvs.find? (fun p => p.1 == k) with
  | some p => some p.2
  | none => none

end

section
variable {α : Type} [Add α] [Sub α] [Mul α] [LT α] [LE α] [DecidableLT α] [DecidableLE α] [Lit α]

/-- `CostModelService::build(query, state_model)`; `names` = the state features in state order -/
def CostService.build (s : CostService α) (num : Json → Option α) (query : Json) (names : List String) :
    Except ServiceErr (CostModel α) :=
  match optField (parseMap num) query "weights" with
  | none => .error .serde
  | some wq =>
    let weights := wq.getD s.weights
    let known := names.filter fun n => weights.any fun p => p.1 == n
    if weights.length ≠ known.length ∧ s.ignoreUnknownWeights = false then .error .unknownWeights
    else
      match optField (parseMap (parseVehicleRate num)) query "vehicle_rates" with
      | none => .error .serde
      | some vq =>
        let vrates := vq.getD s.vehicleRates
        match optField parseAggregation query "cost_aggregation" with
        | none => .error .serde
        | some aq =>
          match CostModel.new (names.map fun n => (assocGet weights n, assocGet vrates n, assocGet s.networkRates n))
              (aq.getD s.agg) with
          | none => .error .newFailed
          | some m => .ok m

end

/-! ### `NetworkCostRateBuilder` (lookup tables from CSV files) -/

section
variable {α : Type}

/-- `NetworkCostRateBuilder`; a file is what `read_utils::from_csv` sees of it (`Model/Graph.lean`) -/
inductive NetworkCostRateBuilder (α : Type) where
  | edgeLookup (file : CsvFile (Nat × α))
  | edgeEdgeLookup (file : CsvFile ((Nat × Nat) × α))
  | combined (bs : List (NetworkCostRateBuilder α))

/-- `.collect::<HashMap<_, _>>()` of the rows: a later row replaces an earlier one with the same key
(kept at the earlier position, which carries no meaning) -/
def collectTable {κ : Type} [BEq κ] (rows : List (κ × α)) : List (κ × α) :=
  rows.foldl (fun acc r =>
    if acc.any (fun p => p.1 == r.1) then acc.map (fun p => if p.1 == r.1 then r else p) else acc ++ [r]) []

mutual
/-- `NetworkCostRateBuilder::build`; `none` = `CostModelError::BuildError`: a file that cannot be read,
a row that does not decode, or a cost that is not finite (`finite`: the csv reader parses `NaN` and
`inf` as numbers) -/
def NetworkCostRateBuilder.build (finite : α → Bool) : NetworkCostRateBuilder α → Option (NetworkCostRate α)
  | .edgeLookup f =>
    match readCsv f with
    | .ok rows => if rows.all (fun r => finite r.2) then some (.edgeLookup (collectTable rows)) else none
    | .error _ => none
  | .edgeEdgeLookup f =>
    match readCsv f with
    | .ok rows => if rows.all (fun r => finite r.2) then some (.edgeEdgeLookup (collectTable rows)) else none
    | .error _ => none
  | .combined bs => (NetworkCostRateBuilder.buildList finite bs).map .combined
def NetworkCostRateBuilder.buildList (finite : α → Bool) :
    List (NetworkCostRateBuilder α) → Option (List (NetworkCostRate α))
  | [] => some []
  | b :: r =>
    match b.build finite with
    | none => none
    | some x =>
      match NetworkCostRateBuilder.buildList finite r with
      | none => none
      | some l => some (x :: l)
end

end

end Compass
