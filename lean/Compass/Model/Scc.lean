/-
Model of `routee-compass-core/src/algorithm/component/scc.rs` (C18).

What the Rust code reads from a `Graph` (and nothing else):
  * `graph.vertex_ids()`            = `0 .. vertices.len()`                       → `Graph.n`
  * `graph.out_edges(v)`            = `adj.get(v)` → `keys()` (in the container's iteration order),
                                      a missing slot is the empty list            → `Graph.outEdges`
  * `graph.in_edges(v)`             = the same on `rev`                           → `Graph.inEdges`
  * `graph.dst_vertex_id(e)` / `graph.src_vertex_id(e)` = `edges.get(e)` → the record's own
    `dst_vertex_id` / `src_vertex_id` (NOT the value stored in `adj`/`rev`), a missing edge id is
    `Err(NetworkError::EdgeNotFound)` propagated by `?`                           → `Graph.dstOf/srcOf`
The `visited` `HashSet` is only ever asked `contains` / `insert` / `clear`, never iterated, so the
output is a deterministic function of the four items above; the only order the code depends on is the
`keys()` order of each adjacency slot, which is an *input* of this model (the harness reads it back from
the real container), and the order `0..n` of `vertex_ids()`.

Vectors used as stacks (`container`, `component`) are lists with the head = the element pushed last.

Two formulations of the searches, proved equal on every input (`Proofs/Scc.lean`, `allSccIter_eq`):
* `dfsIter` / `iterLoop` is the code as it is since /repo 323fefd: `directed_depth_first_search` keeps an
  explicit list of frames (vertex, incident edges still to follow) and loops `while let Some(frame) =
  frames.last_mut()`; `fuel` bounds the number of turns of that loop.  This is what the driver runs.
* `dfsG` is the recursive formulation the code had before (one call per vertex of the search tree, `fuel`
  bounds the recursion depth); the Kosaraju proof is carried out on it.
Exhausting the fuel is the explicit outcome `Err.diverges`; the fuel supplied by `allScc` / `allSccIter` is
shown to be enough on every `Graph` value whatsoever (`allScc_ne_diverges`, `allSccIter_eq`).  The recursive
code overflowed the call stack on deep search trees (finding fixed by 323fefd); the frame list of the current
code lives on the heap.

The only import is the graph model of C15 (`Model/Graph.lean`: the `Graph` accessors and the loader), used at
the end of this file to state which accessors the analysis goes through (`Graph.ofNet`) and to model the
accessors C15 does not (`incident_edges_iter`, `out_/in_edges_iter`, `incident_triplet_attributes`).
This file is linked into the driver executable.
-/
import Compass.Model.Graph

namespace Compass
namespace Scc

inductive Err
  | edgeNotFound   -- `NetworkError::EdgeNotFound` from `get_edge`
  | diverges       -- fuel exhausted (proved unreachable: `allScc_ne_diverges` in `Proofs/Scc.lean`)
  deriving DecidableEq, Repr

structure Graph where
  /-- `vertices.len()` -/
  n : Nat
  /-- `edges[e] = (src_vertex_id, dst_vertex_id)` -/
  edges : Array (Nat × Nat)
  /-- `adj[v].keys()` in iteration order -/
  adj : Array (List Nat)
  /-- `rev[v].keys()` in iteration order -/
  rev : Array (List Nat)

def Graph.outEdges (g : Graph) (v : Nat) : List Nat := (g.adj[v]?).getD []
def Graph.inEdges (g : Graph) (v : Nat) : List Nat := (g.rev[v]?).getD []
def Graph.srcOf (g : Graph) (e : Nat) : Option Nat := (g.edges[e]?).map (·.1)
def Graph.dstOf (g : Graph) (e : Nat) : Option Nat := (g.edges[e]?).map (·.2)

/-- (visited, stack) — `visited` as a list used as a set, `stack` with the last push at the head -/
abbrev St := List Nat × List Nat

/-- `for x in xs { let w = far(x)?; rec(w, state)?; }` -/
def forEach (rec : Nat → St → Except Err St) (far : Nat → Option Nat) : List Nat → St → Except Err St
  | [], s => .ok s
  | e :: es, s =>
    match far e with
    | none => .error .edgeNotFound
    | some w =>
      match rec w s with
      | .error x => .error x
      | .ok s' => forEach rec far es s'

/-- `depth_first_search` / `reverse_depth_first_search`: the two Rust functions are the same text up to
`out_edges`/`dst_vertex_id` versus `in_edges`/`src_vertex_id`, which are the parameters `inc`/`far`. -/
def dfsG (inc : Nat → List Nat) (far : Nat → Option Nat) : Nat → Nat → St → Except Err St
  | 0, v, (vis, st) => if vis.contains v then .ok (vis, st) else .error .diverges
  | fuel + 1, v, (vis, st) =>
    if vis.contains v then .ok (vis, st)
    else
      match forEach (dfsG inc far fuel) far (inc v) (v :: vis, st) with
      | .error x => .error x
      | .ok (vis', st') => .ok (vis', v :: st')

/-- a frame of `directed_depth_first_search`: the vertex and those of its incident edges not yet followed
(the code keeps the whole edge list and the position of the next edge) -/
abbrev Frame := Nat × List Nat

/-- `while let Some((current, edges, next)) = frames.last_mut() { … }`: follow the next edge of the top frame
(`?` on a missing edge record; a far end not yet visited is marked and gets a frame of its own), or, when the
top frame has no edge left, push its vertex on `stack` and drop the frame.  `fuel` = number of turns. -/
def iterLoop (inc : Nat → List Nat) (far : Nat → Option Nat) : Nat → List Frame → St → Except Err St
  | _, [], s => .ok s
  | 0, _ :: _, _ => .error .diverges
  | f + 1, (v, []) :: fr, (vis, st) => iterLoop inc far f fr (vis, v :: st)
  | f + 1, (v, e :: es) :: fr, (vis, st) =>
    match far e with
    | none => .error .edgeNotFound
    | some w =>
      if vis.contains w then iterLoop inc far f ((v, es) :: fr) (vis, st)
      else iterLoop inc far f ((w, inc w) :: (v, es) :: fr) (w :: vis, st)

/-- `directed_depth_first_search` (since /repo 323fefd) -/
def dfsIter (inc : Nat → List Nat) (far : Nat → Option Nat) (fuel v : Nat) : St → Except Err St
  | (vis, st) =>
    if vis.contains v then .ok (vis, st)
    else iterLoop inc far fuel [(v, inc v)] (v :: vis, st)

def dfs (g : Graph) : Nat → Nat → St → Except Err St := dfsG g.outEdges g.dstOf
def rdfs (g : Graph) : Nat → Nat → St → Except Err St := dfsG g.inEdges g.srcOf

/-- recursion-depth budget: the number of distinct vertex ids that can ever be met -/
def Graph.fuel (g : Graph) : Nat := g.n + 2 * g.edges.size

/-- first loop of `all_strongly_connected_componenets`: `for vertex_id in graph.vertex_ids()` -/
def pass1 (g : Graph) : Except Err St :=
  forEach (dfs g g.fuel) some (List.range g.n) ([], [])

/-- second loop: `while let Some(v) = container.pop()`; `acc` is `result` with the last push at the head;
a component is handed over in `Vec` order (first push first). -/
def pass2 (g : Graph) : List Nat → List Nat → List (List Nat) → Except Err (List (List Nat))
  | [], _, acc => .ok acc.reverse
  | v :: st, vis, acc =>
    if vis.contains v then pass2 g st vis acc
    else
      match rdfs g g.fuel v (vis, []) with
      | .error x => .error x
      | .ok (vis', comp) => pass2 g st vis' (comp.reverse :: acc)

/-- `all_strongly_connected_componenets` -/
def allScc (g : Graph) : Except Err (List (List Nat)) :=
  match pass1 g with
  | .error x => .error x
  | .ok (_, st) => pass2 g st [] []

/-! #### the same two passes over the frame-list searches (the code as it is) -/

/-- every vertex id a search can meet: `0 .. n-1` and the end points of the edge records -/
def Graph.universe (g : Graph) : List Nat :=
  List.range g.n ++ g.edges.toList.map (·.1) ++ g.edges.toList.map (·.2)

/-- budget of loop turns of one search: one turn per incident edge of every vertex plus one to finish it -/
def Graph.turns (g : Graph) : Nat :=
  (g.universe.map (fun u => (g.outEdges u).length + (g.inEdges u).length + 1)).sum

/-- the searches with a budget of `t` turns -/
def dfsT (g : Graph) (t : Nat) : Nat → St → Except Err St := dfsIter g.outEdges g.dstOf t
def rdfsT (g : Graph) (t : Nat) : Nat → St → Except Err St := dfsIter g.inEdges g.srcOf t

/-- `depth_first_search` / `reverse_depth_first_search` with the model's budget -/
def dfsI (g : Graph) : Nat → St → Except Err St := dfsT g g.turns
def rdfsI (g : Graph) : Nat → St → Except Err St := rdfsT g g.turns

def pass1T (g : Graph) (t : Nat) : Except Err St :=
  forEach (dfsT g t) some (List.range g.n) ([], [])

def pass2T (g : Graph) (t : Nat) : List Nat → List Nat → List (List Nat) → Except Err (List (List Nat))
  | [], _, acc => .ok acc.reverse
  | v :: st, vis, acc =>
    if vis.contains v then pass2T g t st vis acc
    else
      match rdfsT g t v (vis, []) with
      | .error x => .error x
      | .ok (vis', comp) => pass2T g t st vis' (comp.reverse :: acc)

/-- `all_strongly_connected_componenets`, over the frame-list searches (the budget is computed once) -/
def allSccIter (g : Graph) : Except Err (List (List Nat)) :=
  let t := g.turns
  match pass1T g t with
  | .error x => .error x
  | .ok (_, st) => pass2T g t st [] []

/-- the selection loop of `largest_strongly_connected_component`: strict `>` keeps the first of equals -/
def largestOf (cs : List (List Nat)) : List Nat :=
  cs.foldl (fun best c => if c.length > best.length then c else best) []

/-- `largest_strongly_connected_component` -/
def largestScc (g : Graph) : Except Err (List Nat) :=
  match allScc g with
  | .error x => .error x
  | .ok cs => .ok (largestOf cs)

/-- `largest_strongly_connected_component`, over the frame-list searches -/
def largestSccIter (g : Graph) : Except Err (List Nat) :=
  match allSccIter g with
  | .error x => .error x
  | .ok cs => .ok (largestOf cs)

/-! ### well-formedness (what `graph_loader` establishes): executable -/

/-- every edge joins existing vertices, every slot of `adj` (`rev`) names only edges that leave (enter) that
vertex, and every edge is named by the slot of its source and of its destination — slots in any order, and any
number of slots (the loader sizes the tables with the declared / scanned vertex count, which may exceed the
number of vertex rows; surplus slots are then empty, missing slots belong to vertices without edges). -/
def Graph.wfb (g : Graph) : Bool :=
  g.edges.toList.all (fun p => decide (p.1 < g.n) && decide (p.2 < g.n)) &&
  (List.range g.adj.size).all (fun v => (g.outEdges v).all (fun e => g.srcOf e == some v)) &&
  (List.range g.rev.size).all (fun v => (g.inEdges v).all (fun e => g.dstOf e == some v)) &&
  (List.range g.edges.size).all (fun e =>
    match g.edges[e]? with
    | none => false
    | some (s, d) => (g.outEdges s).contains e && (g.inEdges d).contains e)

/-- the `Graph` that `EdgeLoader` builds from `n` vertices and the edge records `es` (edge id = position):
slot `v` of `adj` (`rev`) receives the ids of the edges whose source (destination) is `v`, in file order -/
def Graph.ofEdges (n : Nat) (es : List (Nat × Nat)) : Graph :=
  { n := n, edges := es.toArray,
    adj := ((List.range n).map (fun v =>
      (List.range es.length).filter (fun e => (es[e]?).map (·.1) == some v))).toArray,
    rev := ((List.range n).map (fun v =>
      (List.range es.length).filter (fun e => (es[e]?).map (·.2) == some v))).toArray }

/-! ### the verified checker (its correctness theorems are in `Props/C18.lean`) -/

/-- the vertices reachable from `v` (forward DFS from an empty visited set) -/
def reachFrom (g : Graph) (v : Nat) : List Nat :=
  match dfs g g.fuel v ([], []) with
  | .ok (_, st) => st
  | .error _ => []

/-- `reachTable g` lists, for every vertex, what it reaches -/
def reachTable (g : Graph) : List (List Nat) := (List.range g.n).map (reachFrom g)

def mutualIn (tbl : List (List Nat)) (u v : Nat) : Bool :=
  ((tbl[u]?).getD []).contains v && ((tbl[v]?).getD []).contains u

/-- `cs` is the partition of `0..n` into mutual-reachability classes: no empty block, no vertex twice,
every vertex somewhere, nothing out of range, and a block holds exactly the vertices mutually reachable
with any of its members. -/
def isSccPartition (g : Graph) (cs : List (List Nat)) : Bool :=
  let tbl := reachTable g
  cs.all (fun c => !c.isEmpty) &&
  decide (cs.flatten.Nodup) &&
  (List.range g.n).all (fun v => cs.flatten.contains v) &&
  cs.flatten.all (fun v => decide (v < g.n)) &&
  cs.all (fun c => c.all (fun u => (List.range g.n).all (fun v => c.contains v == mutualIn tbl u v)))

/-! ### the analysis reads a network only through these accessors of `graph.rs` -/

/-- what `scc.rs` sees of a network value: `vertex_ids()`, the `keys()` of every slot (`out_edges`,
`in_edges`), and the end points of the edge records (`src_vertex_id`, `dst_vertex_id`) -/
def Graph.ofNet {α : Type} (g : Compass.Graph α) : Graph :=
  { n := g.nVertices,
    edges := (g.edges.map (fun e => (e.src, e.dst))).toArray,
    adj := (g.adj.map adjKeys).toArray,
    rev := (g.rev.map adjKeys).toArray }

end Scc

/-! ### accessors of `graph.rs` that `Model/Graph.lean` does not model -/

namespace Graph
variable {α : Type}

/-- `out_edges_iter`: `out_edges` is `self.out_edges_iter(src).cloned().collect_vec()` -/
def outEdgesIter (g : Graph α) (v : Nat) : List Nat := g.outEdges v
/-- `in_edges_iter` -/
def inEdgesIter (g : Graph α) (v : Nat) : List Nat := g.inEdges v

/-- `incident_edges_iter` -/
def incidentEdgesIter (g : Graph α) (v : Nat) : Direction → List Nat
  | .forward => g.outEdgesIter v
  | .reverse => g.inEdgesIter v

/- `tripletAttrsGo` and `incidentTripletAttributes` (`incident_triplet_attributes`) are defined once, in
`Model/Graph.lean` (C15); the C18 accessor streams and theorems use those. -/

end Graph
end Compass
