/-
How the application turns configuration, files and query fields into the models of a search
(`routee-compass/src/app/compass/config/**`), as far as it is logic: which inputs are refused,
which values and units result, which defaults apply.

* `SpeedLookupBuilder` + `SpeedTraversalEngine::new` + `get_max_speed` + `Speed::from_str`
  (speed table FILE, one speed per line)
* `DistanceTraversalBuilder`
* the `weight_factor` query field of `SearchAlgorithm::AStarAlgorithm::run_vertex_oriented`
* `TurnDelayAccessModelBuilder` (edge-headings CSV FILE, `TurnDelayModel` configuration)
* `VehicleParameters::from_query`
* `RoadClassBuilder`, `RoadClassParser::read_query`
* `TurnRestrictionBuilder`, `VehicleRestrictionBuilder` / `RestrictionRow::to_restriction`, `CombinedBuilder`
* `TerminationModelBuilder::build`, `DurationExtension::as_duration`

Text that was read from a file is represented after tokenisation: a line / cell is a number, an
integer, empty, or junk (what `str::parse` refuses) — the harness, which writes the files, says
which.  JSON numbers reach the numeric type through `dec` (the double with the given bit pattern at
`Float`).  Every error is a small enum; nothing here can panic, and the places where the Rust code
could (casts, `%`, `*`) are explicit outcomes of the functions below.

No Mathlib imports: links into the driver.
-/
import Compass.Model.Json
import Compass.Model.Instance

namespace Compass
namespace Build

/-- which field of `vehicle_parameters` was refused -/
inductive VpErr where
  | missing
  | height
  | width
  | totalLength
  | trailerLength
  | totalWeight
  | axlesMissing
  | axlesType
  | axlesRange
  deriving DecidableEq, Repr, Inhabited

/-- error kinds of the builders (never error strings) -/
inductive BErr where
  /-- a configuration field is missing, ill-typed or names a file that does not exist -/
  | config
  /-- the file could not be read / a row could not be decoded -/
  | read
  | empty
  | zero
  | file
  | model
  | name
  | parser
  | query
  | row
  | missing
  | type
  | unknown
  | duration
  | value
  /-- recursion fuel exhausted (never, see `Props/C10`: the depth of the configuration suffices) -/
  | fuel
  | vp (e : VpErr)
  deriving DecidableEq, Repr, Inhabited

/-- the error of a result, if it is one -/
def errOf {β : Type} : Except BErr β → Option BErr
  | .error e => some e
  | .ok _ => none

/-! ### integers in JSON numbers and in text

`Json.asU64?` / `Json.asI64?` (Model/Json.lean) go through `String.toNat?`, which the kernel does not
evaluate; the same functions are written here by structural recursion over the characters, so that
closed examples can be decided. -/

def digitVal (c : Char) : Option Nat :=
  if '0' ≤ c ∧ c ≤ '9' then some (c.toNat - '0'.toNat) else none

/-- a non-empty run of decimal digits -/
def natOfDigits (cs : List Char) : Option Nat :=
  match cs with
  | [] => none
  | _ => cs.foldl (fun acc c => match acc, digitVal c with
                                | some a, some d => some (a * 10 + d)
                                | _, _ => none) (some 0)

/-- `Value::as_u64`: a number written as digits only (no sign, point or exponent), below 2^64 -/
def u64OfJson : Json → Option Nat
  | .num l _ =>
    match natOfDigits l.toList with
    | some n => if n < 2 ^ 64 then some n else none
    | none => none
  | _ => none

/-- `Value::as_i64`: an integer lexeme within the `i64` range -/
def i64OfJson : Json → Option Int
  | .num l _ =>
    match l.toList with
    | '-' :: ds =>
      match natOfDigits ds with
      | some n => if n ≤ 2 ^ 63 then some (-(n : Int)) else none
      | none => none
    | ds =>
      match natOfDigits ds with
      | some n => if n < 2 ^ 63 then some (n : Int) else none
      | none => none
  | _ => none

/-- `str::split(sep)` on characters -/
def splitOnChar (sep : Char) : List Char → List (List Char)
  | [] => [[]]
  | c :: cs =>
    if c = sep then [] :: splitOnChar sep cs
    else
      match splitOnChar sep cs with
      | [] => [[c]]
      | h :: t => (c :: h) :: t

/-! ### configuration access (`config_json_extension.rs`) -/

/-- `get_config_string`: `none` = missing, `some none` = not a string -/
def getString (j : Json) (key : String) : Except BErr String :=
  match j.get? key with
  | none => .error .missing
  | some v =>
    match v.asStr? with
    | some s => .ok s
    | none => .error .type

/-- `get_config_i64` -/
def getI64 (j : Json) (key : String) : Except BErr Int :=
  match j.get? key with
  | none => .error .missing
  | some v =>
    match i64OfJson v with
    | some z => .ok z
    | none => .error .type

/-- `get_config_array` -/
def getArray (j : Json) (key : String) : Except BErr (List Json) :=
  match j.get? key with
  | none => .error .missing
  | some v =>
    match v.asArray? with
    | some xs => .ok xs
    | none => .error .type

/-- `get_config_path`: a string naming an existing file -/
def getPath (j : Json) (key : String) (fileExists : Bool) : Bool :=
  match getString j key with
  | .ok _ => fileExists
  | .error _ => false

/-- the variant name of a unit-only enum (`DistanceUnit`, `TimeUnit`, `SpeedUnit`, `WeightUnit`) as
serde reads it from a JSON value: the name as a string, or the externally tagged form of a unit
variant, an object with the name as its single key and `null` as the value (`{"miles": null}`).
`buffered`: the value sits inside an internally tagged enum, where serde deserialises from its
buffered `Content`, whose unit is `null` or an empty map (`{"seconds": {}}`). -/
def unitName? (buffered : Bool) : Json → Option String
  | .str s => some s
  | .obj [(k, .null)] => some k
  | .obj [(k, .obj [])] => if buffered then some k else none
  | _ => none

/-- `serde_json::from_value::<Unit>` -/
def unitOfJson {β : Type} (ofName : String → Option β) (buffered : Bool) (j : Json) : Option β :=
  match unitName? buffered j with
  | some s => ofName s
  | none => none

/-- `get_config_serde::<Unit>`: one of the unit's serde names (string or `{"name": null}`) -/
def getUnit {β : Type} (ofName : String → Option β) (j : Json) (key : String) : Option β :=
  match j.get? key with
  | none => none
  | some v => unitOfJson ofName false v

/-- `get_config_serde_optional::<Unit>`: absent = `some none`, present and wrong = `none` -/
def getUnitOpt {β : Type} (ofName : String → Option β) (j : Json) (key : String) : Option (Option β) :=
  match j.get? key with
  | none => some none
  | some v => (unitOfJson ofName false v).map some

/-- `Option::mapM` without the monad machinery -/
def allSome {β γ : Type} (f : β → Option γ) : List β → Option (List γ)
  | [] => some []
  | x :: xs =>
    match f x, allSome f xs with
    | some y, some ys => some (y :: ys)
    | _, _ => none

/-! ### speed table -/

/-- a line of a number file, after `str::parse::<f64>` -/
inductive NumRow (α : Type) where
  | val (x : α)
  /-- `NaN` (or, where JSON is in between, any non-finite number) -/
  | nan
  | junk

section
variable {α : Type} [Add α] [Sub α] [Mul α] [Div α] [LT α] [LE α] [DecidableLT α] [DecidableLE α]
  [BEq α] [Lit α]

/-- `Speed::from_str`: a number that is not negative (and not NaN) -/
def parseSpeed : NumRow α → Option α
  | .val x => if x < (zero : α) then none else some x
  | .nan => none
  | .junk => none

/-- the fold of `get_max_speed`: (running maximum from zero, count) -/
def maxFold (table : List α) : α × Nat :=
  table.foldl (fun acc row => (if row < acc.1 then acc.1 else row, acc.2 + 1)) ((zero : α), 0)

/-- `get_max_speed` -/
def getMaxSpeed (table : List α) : Except BErr α :=
  let r := maxFold table
  if r.2 = 0 then .error .empty
  else if r.1 == (zero : α) then .error .zero
  else .ok r.1

/-- `SpeedTraversalEngine` -/
structure SpeedEngine (α : Type) where
  table : List α
  speedUnit : SpeedUnit
  timeUnit : TimeUnit
  distanceUnit : DistanceUnit
  maxSpeed : α

/-- the traversal model over an engine (`SpeedLookupService::build`) -/
def SpeedEngine.model (e : SpeedEngine α) : TravModel α :=
  .speed e.speedUnit e.distanceUnit e.timeUnit e.maxSpeed e.table

/-- `SpeedTraversalEngine::new(path, speed_unit, distance_unit_opt, time_unit_opt)`; `file = none`
is a file that cannot be opened -/
def speedEngineNew (file : Option (List (NumRow α))) (su : SpeedUnit) (duOpt : Option DistanceUnit)
    (tuOpt : Option TimeUnit) : Except BErr (SpeedEngine α) :=
  match file with
  | none => .error .read
  | some rows =>
    match allSome parseSpeed rows with
    | none => .error .read
    | some table =>
      match getMaxSpeed table with
      | .error e => .error e
      | .ok mx =>
        .ok { table := table, speedUnit := su,
              timeUnit := (match tuOpt with | some u => u | none => baseTimeUnit),
              distanceUnit := (match duOpt with | some u => u | none => baseDistanceUnit),
              maxSpeed := mx }

/-- `SpeedLookupBuilder::build(params)` -/
def speedLookupBuild (cfg : Json) (file : Option (List (NumRow α))) : Except BErr (SpeedEngine α) :=
  if !getPath cfg "speed_table_input_file" file.isSome then .error .config
  else
    match getUnit SpeedUnit.ofName? cfg "speed_unit" with
    | none => .error .config
    | some su =>
      match getUnitOpt DistanceUnit.ofName? cfg "distance_unit" with
      | none => .error .config
      | some duOpt =>
        match getUnitOpt TimeUnit.ofName? cfg "time_unit" with
        | none => .error .config
        | some tuOpt => speedEngineNew file su duOpt tuOpt

/-- `SpeedTraversalModel::state_features`: time first, then distance, both from zero -/
def speedStateFeatures (e : SpeedEngine α) : List (Feat α) :=
  [{ name := "time", kind := .time e.timeUnit, init := zero },
   { name := "distance", kind := .dist e.distanceUnit, init := zero }]

/-- `DistanceTraversalBuilder::build`: the configured unit or the base unit -/
def distanceBuild (cfg : Json) : Except BErr DistanceUnit :=
  match getUnitOpt DistanceUnit.ofName? cfg "distance_unit" with
  | none => .error .config
  | some (some u) => .ok u
  | some none => .ok baseDistanceUnit

/-- the `weight_factor` in force for a query: the query's own number when it has the field (whatever
is configured, Dijkstra's zero included), the configured one otherwise; a field that is not a number
is `SearchError::BuildError` -/
def weightFactorOfQuery (dec : Nat → α) (q : Json) (configured : Option α) : Except ErrKind (Option α) :=
  match q.get? "weight_factor" with
  | none => .ok configured
  | some v =>
    match v.asF64Bits? with
    | some b => .ok (some (dec b))
    | none => .error .build

end

/-! ### integer cells -/

/-- a cell of a row file / CSV file that should hold an integer -/
inductive IntCell where
  | int (z : Int)
  | empty
  | junk
  deriving DecidableEq, Repr, Inhabited

/-- an integer within `[lo, hi]` -/
def IntCell.inRange (lo hi : Int) : IntCell → Option Int
  | .int z => if lo ≤ z ∧ z ≤ hi then some z else none
  | .empty => none
  | .junk => none

def IntCell.i16 (c : IntCell) : Option Int := c.inRange (-32768) 32767
def IntCell.u8 (c : IntCell) : Option Nat := (c.inRange 0 255).map Int.toNat
def IntCell.usize (c : IntCell) : Option Nat := (c.inRange 0 (2 ^ 64 - 1)).map Int.toNat

/-! ### edge headings and the turn delay table -/

/-- a record of the headings file: two cells, or a record with one field only -/
inductive HeadLine where
  | row (arrival departure : IntCell)
  | short

/-- `EdgeHeading` from a record: `arrival_heading: i16`, `departure_heading: Option<i16>` (empty = none) -/
def parseHeading : HeadLine → Option (Int × Option Int)
  | .short => none
  | .row a d =>
    match a.i16 with
    | none => none
    | some av =>
      match d with
      | .empty => some (av, none)
      | other =>
        match other.i16 with
        | some dv => some (av, some dv)
        | none => none

/-- `read_utils::from_csv::<EdgeHeading>(file, has_headers = true)`: columns are found by name; a file
without records loads whatever the header says -/
def loadHeadings (headerOk : Bool) (lines : List HeadLine) : Option (List (Int × Option Int)) :=
  if lines.isEmpty then some []
  else if !headerOk then none
  else allSome parseHeading lines

section
variable {α : Type}

/-- `HashMap<Turn, Time>` from a JSON object: every key a turn name, every value a number;
the result is indexed by `Turn.toNat` -/
def delayTableOfJson (dec : Nat → α) (kvs : List (String × Json)) : Option (List (Option α)) :=
  let entry : String × Json → Option (Turn × α) := fun kv =>
    match Turn.ofName? kv.1, kv.2.asF64Bits? with
    | some t, some b => some (t, dec b)
    | _, _ => none
  match allSome entry kvs with
  | none => none
  | some es =>
    some (Turn.all.map (fun t => match es.find? (fun p => p.1.toNat == t.toNat) with
                                 | some p => some p.2
                                 | none => none))

/-- `TurnDelayModel` (internally tagged, `type = "tabular_discrete"`): table and time unit -/
def turnDelayModelOfJson (dec : Nat → α) (j : Json) : Option (TimeUnit × List (Option α)) :=
  -- serde's internally tagged representation: an object carrying `"type"`, or the positional form, a
  -- sequence `["tabular_discrete", table, time_unit]` of exactly the tag and the two fields
  let fields : Option (Option Json × Option Json) :=
    match j with
    | .obj _ =>
      match j.get? "type" with
      | some (.str "tabular_discrete") => some (j.get? "table", j.get? "time_unit")
      | _ => none
    | .arr [.str "tabular_discrete", t, u] => some (some t, some u)
    | _ => none
  match fields with
  | some (some (.obj kvs), some u) =>
    match unitOfJson TimeUnit.ofName? true u, delayTableOfJson dec kvs with
    | some tu, some ds => some (tu, ds)
    | _, _ => none
  | _ => none

/-- what `TurnDelayAccessModelBuilder::build` holds: the model and the name of the time feature -/
structure TurnDelayBuilt (α : Type) where
  model : AccessModel α
  featureName : String

/-- some slot of the delay table holds a negative delay (a JSON number is never NaN) -/
def hasNegativeDelay [LT α] [DecidableLT α] [Lit α] (ds : List (Option α)) : Bool :=
  ds.any (fun d => match d with
    | some x => decide (x < (zero : α))
    | none => false)

/-- `TurnDelayAccessModelBuilder::build(parameters)`; a delay table with a negative delay is refused
(the reported time would run backwards along a route) -/
def turnDelayBuild [LT α] [DecidableLT α] [Lit α] (dec : Nat → α) (cfg : Json) (headerOk : Bool)
    (file : Option (List HeadLine)) : Except BErr (TurnDelayBuilt α) :=
  if !getPath cfg "edge_heading_input_file" file.isSome then .error .config
  else
    match file with
    | none => .error .config
    | some lines =>
      match loadHeadings headerOk lines with
      | none => .error .file
      | some hs =>
        match cfg.get? "turn_delay_model" with
        | none => .error .model
        | some m =>
          match turnDelayModelOfJson dec m with
          | none => .error .model
          | some (tu, ds) =>
            if hasNegativeDelay ds then .error .model
            else
              match cfg.get? "time_feature_name" with
              | none => .ok { model := .turnDelay tu hs ds, featureName := "time" }
              | some (.str s) => .ok { model := .turnDelay tu hs ds, featureName := s }
              | some _ => .error .name

/-! ### vehicle parameters -/

/-- `(Distance, DistanceUnit)` by serde: an array of exactly a number and a unit (its name, or the
name as the single key of an object with value `null`) -/
def dimOfJson (dec : Nat → α) : Option Json → Option (α × DistanceUnit)
  | some (.arr [.num _ b, uj]) =>
    match unitOfJson DistanceUnit.ofName? false uj with
    | some du => some (dec b, du)
    | none => none
  | _ => none

/-- `(Weight, WeightUnit)` -/
def weightOfJson (dec : Nat → α) : Option Json → Option (α × WeightUnit)
  | some (.arr [.num _ b, uj]) =>
    match unitOfJson WeightUnit.ofName? false uj with
    | some wu => some (dec b, wu)
    | none => none
  | _ => none

/-- `VehicleParameters` as parsed (the number of axles still an integer) -/
structure VParams (α : Type) where
  height : α × DistanceUnit
  width : α × DistanceUnit
  totalLength : α × DistanceUnit
  trailerLength : α × DistanceUnit
  totalWeight : α × WeightUnit
  axles : Nat

/-- `VehicleParameters::from_query`: fields are read in this order and the first that is missing or
ill-typed is the error; `number_of_axles` must be a non-negative integer that fits `u8` -/
def vehicleParamsOfQuery (dec : Nat → α) (q : Json) : Except VpErr (VParams α) :=
  match q.get? "vehicle_parameters" with
  | none => .error .missing
  | some vp =>
    match dimOfJson dec (vp.get? "height") with
    | none => .error .height
    | some h =>
      match dimOfJson dec (vp.get? "width") with
      | none => .error .width
      | some w =>
        match dimOfJson dec (vp.get? "total_length") with
        | none => .error .totalLength
        | some tl =>
          match dimOfJson dec (vp.get? "trailer_length") with
          | none => .error .trailerLength
          | some trl =>
            match weightOfJson dec (vp.get? "total_weight") with
            | none => .error .totalWeight
            | some tw =>
              match vp.get? "number_of_axles" with
              | none => .error .axlesMissing
              | some a =>
                match u64OfJson a with
                | none => .error .axlesType
                | some n =>
                  if n ≤ 255 then
                    .ok { height := h, width := w, totalLength := tl, trailerLength := trl,
                          totalWeight := tw, axles := n }
                  else .error .axlesRange

/-- the record the frontier model compares with (`number_of_axles as f64`) -/
def VParams.toModel [Lit α] (p : VParams α) : VehicleParams α :=
  { height := p.height, width := p.width, totalLength := p.totalLength,
    trailerLength := p.trailerLength, totalWeight := p.totalWeight, axles := Lit.lit p.axles 1 }

/-! ### road classes -/

/-- a JSON number that serde accepts as `u8` -/
def u8OfJson (j : Json) : Option Nat :=
  match u64OfJson j with
  | some n => if n ≤ 255 then some n else none
  | none => none

/-- `serde_json::from_value::<HashSet<u8>>` -/
def u8SetOfJson (j : Json) : Option (List Nat) :=
  match j.asArray? with
  | some xs => allSome u8OfJson xs
  | none => none

/-- `RoadClassParser::read_query`: no field = no filter; an array of integers is taken as it is;
otherwise, with a mapping, an array of mapped names; anything else is an error -/
def roadClassesOfQuery (mapping : List (String × Nat)) (q : Json) : Option (Option (List Nat)) :=
  match q.get? "road_classes" with
  | none => some none
  | some v =>
    match u8SetOfJson v with
    | some cls => some (some cls)
    | none =>
      if mapping.isEmpty then none
      else
        match v.asArray? with
        | none => none
        | some xs =>
          match allSome Json.asStr? xs with
          | none => none
          | some names =>
            match allSome (fun s => (mapping.find? (fun p => p.1 == s)).map (·.2)) names with
            | some cls => some (some cls)
            | none => none

/-- `RoadClassParser` from the optional `road_class_parser` field: `{"mapping": {name: u8, …}}` or `[{name: u8, …}]` -/
def roadClassParserOfConfig (cfg : Json) : Option (List (String × Nat)) :=
  match cfg.get? "road_class_parser" with
  | none => some []
  | some p =>
    -- a struct by serde: an object with the field, or the positional form — a sequence of exactly
    -- its one field (`[{name: u8, …}]`)
    let mapping : Option Json :=
      match p with
      | .arr [m] => some m
      | .arr _ => none
      | _ => p.get? "mapping"
    match mapping with
    | some (.obj kvs) => allSome (fun kv => (u8OfJson kv.2).map (fun n => (kv.1, n))) kvs
    | _ => none

/-- `RoadClassBuilder::build(cfg)` then `RoadClassFrontierService::build(query)` -/
def roadClassBuild (cfg : Json) (file : Option (List IntCell)) (q : Json) : Except BErr (FrontierM α) :=
  if !getPath cfg "road_class_input_file" file.isSome then .error .config
  else
    match file with
    | none => .error .config
    | some rows =>
      match allSome IntCell.u8 rows with
      | none => .error .file
      | some table =>
        match roadClassParserOfConfig cfg with
        | none => .error .parser
        | some mapping =>
          match roadClassesOfQuery mapping q with
          | none => .error .query
          | some allowed => .ok (.roadClass allowed table)

/-! ### turn restrictions -/

/-- a record of a two-column integer CSV file -/
inductive PairLine where
  | row (a b : IntCell)
  | short

def parsePair : PairLine → Option (Nat × Nat)
  | .short => none
  | .row a b =>
    match a.usize, b.usize with
    | some x, some y => some (x, y)
    | _, _ => none

/-- `TurnRestrictionBuilder::build(cfg)` (+ the service's `build`, which reads nothing) -/
def turnRestrictionBuild (cfg : Json) (headerOk : Bool) (file : Option (List PairLine)) :
    Option (FrontierM α) :=
  if !getPath cfg "turn_restriction_input_file" file.isSome then none
  else
    match file with
    | none => none
    | some lines =>
      if lines.isEmpty then some (.turnRestriction [])
      else if !headerOk then none
      else (allSome parsePair lines).map FrontierM.turnRestriction

/-! ### vehicle restrictions -/

/-- a record of the vehicle restriction file -/
structure RestrRow (α : Type) where
  edge : IntCell
  name : String
  value : NumRow α
  unit : String

/-- `RestrictionRow::to_restriction`: the name selects the variant, the unit must belong to its family -/
def toRestriction (name : String) (x : α) (unit : String) : Option (Restriction α) :=
  let w : Bool → Option (Restriction α) := fun pa => (WeightUnit.ofName? unit).map (Restriction.weight pa x)
  let l : Nat → Option (Restriction α) := fun k => (DistanceUnit.ofName? unit).map (Restriction.length k x)
  if name == "maximum_total_weight" then w false
  else if name == "maximum_weight_per_axle" then w true
  else if name == "maximum_length" then l 2
  else if name == "maximum_width" then l 3
  else if name == "maximum_height" then l 4
  else if name == "maximum_trailer_length" then l 5
  else none

/-- `entry(edge).or_default().push(r)` on an association list -/
def pushRestriction (tbl : List (Nat × List (Restriction α))) (e : Nat) (r : Restriction α) :
    List (Nat × List (Restriction α)) :=
  if tbl.any (fun p => p.1 == e) then tbl.map (fun p => if p.1 == e then (p.1, p.2 ++ [r]) else p)
  else tbl ++ [(e, [r])]

/-- the CSV stage: every cell must decode (edge id, number) -/
def decodeRestrRow (r : RestrRow α) : Option (Nat × String × Option α × String) :=
  match r.edge.usize with
  | none => none
  | some e =>
    match r.value with
    | .junk => none
    | .nan => some (e, r.name, none, r.unit)
    | .val x => some (e, r.name, some x, r.unit)

/-- the rows in order into the lookup; a non-finite value has no JSON form and fails like a bad name -/
def restrictionTable : List (Nat × String × Option α × String) → List (Nat × List (Restriction α)) →
    Option (List (Nat × List (Restriction α)))
  | [], tbl => some tbl
  | (e, name, v, unit) :: rest, tbl =>
    match v with
    | none => none
    | some x =>
      match toRestriction name x unit with
      | none => none
      | some r => restrictionTable rest (pushRestriction tbl e r)

/-- `VehicleRestrictionBuilder::build(cfg)` then `VehicleRestrictionFrontierService::build(query)` -/
def vehicleRestrictionBuild [Lit α] (dec : Nat → α) (cfg : Json) (file : Option (List (RestrRow α))) (q : Json) :
    Except BErr (FrontierM α) :=
  if !getPath cfg "vehicle_restriction_input_file" file.isSome then .error .config
  else
    match file with
    | none => .error .config
    | some rows =>
      match allSome decodeRestrRow rows with
      | none => .error .file
      | some decoded =>
        match restrictionTable decoded [] with
        | none => .error .row
        | some tbl =>
          match vehicleParamsOfQuery dec q with
          | .error e => .error (.vp e)
          | .ok p => .ok (.vehicle tbl p.toModel)

/-! ### combined -/

/-- `CombinedBuilder::build`: `models` must be an array; every element needs a string `type` that is
registered (the `combined` builder itself is not registered inside it) and whose builder accepts the
element (`accepts`) -/
def combinedBuild (accepts : String → Json → Bool) (cfg : Json) : Option Nat :=
  match getArray cfg "models" with
  | .error _ => none
  | .ok ms =>
    if ms.all (fun m => match getString m "type" with
                        | .ok ty => accepts ty m
                        | .error _ => false)
    then some ms.length else none

end

/-! ### termination -/

/-- `as_duration` on the text: `^\d+:\d{2}:\d{2}$`, each group parsed as `u64`, seconds
`h * 3600 + m * 60 + s` refused when they do not fit `u64` -/
def parseDuration (s : String) : Option Nat :=
  match splitOnChar ':' s.toList with
  | [h, m, sec] =>
    if m.length = 2 ∧ sec.length = 2 then
      match natOfDigits h, natOfDigits m, natOfDigits sec with
      | some hv, some mv, some sv =>
        if hv < 2 ^ 64 ∧ hv * 3600 + (mv * 60 + sv) < 2 ^ 64 then some (hv * 3600 + (mv * 60 + sv)) else none
      | _, _, _ => none
    else none
  | _ => none

/-- an integer field that counts something: missing / not an `i64` / negative -/
def getCount (j : Json) (key : String) : Except BErr Nat :=
  match getI64 j key with
  | .error e => .error e
  | .ok z => if z < 0 then .error .value else .ok z.toNat

/-- `str::to_lowercase` as the list of characters (ASCII letters; `String.toLower` is not evaluated by
the kernel) -/
def lowerChars (s : String) : List Char := s.toList.map Char.toLower

/-- `iter().map(f).collect::<Result<Vec<_>, _>>()`: the first error, or all results in order -/
def allOk {β γ : Type} (f : β → Except BErr γ) : List β → Except BErr (List γ)
  | [] => .ok []
  | x :: xs =>
    match f x with
    | .error e => .error e
    | .ok y =>
      match allOk f xs with
      | .error e => .error e
      | .ok ys => .ok (y :: ys)

/-- `TerminationModelBuilder::build` (the clock of a runtime limit is not part of the configuration) -/
def termOfJson : Nat → Json → Except BErr TermM
  | 0, _ => .error .fuel
  | fuel + 1, j =>
    match getString j "type" with
    | .error e => .error e
    | .ok ty =>
      let t := lowerChars ty
      if t == "query_runtime".toList then
        match j.get? "limit" with
        | none => .error .missing
        | some l =>
          match l.asStr? with
          | none => .error .duration
          | some s =>
            match parseDuration s with
            | none => .error .duration
            | some secs =>
              match getCount j "frequency" with
              | .error e => .error e
              | .ok f => if f = 0 then .error .value else .ok (.runtime (secs * 1000000000) f 0 0)
      else if t == "iterations".toList then
        match getCount j "limit" with
        | .error e => .error e
        | .ok n => .ok (.iters n)
      else if t == "solution_size".toList then
        match getCount j "limit" with
        | .error e => .error e
        | .ok n => .ok (.size n)
      else if t == "combined".toList then
        match getArray j "models" with
        | .error e => .error e
        | .ok ms =>
          match allOk (termOfJson fuel) ms with
          | .error e => .error e
          | .ok ts => .ok (.combined ts)
      else .error .unknown

/-- the sub-sections of a `combined` section, in order -/
def termsOfJson (fuel : Nat) (js : List Json) : Except BErr (List TermM) := allOk (termOfJson fuel) js

/-- nesting depth of a JSON value: fuel that always suffices -/
def jsonDepth : Json → Nat
  | .arr xs => 1 + depthList xs
  | .obj kvs => 1 + depthKvs kvs
  | _ => 1
where
  depthList : List Json → Nat
    | [] => 0
    | x :: xs => max (jsonDepth x) (depthList xs)
  depthKvs : List (String × Json) → Nat
    | [] => 0
    | (_, v) :: r => max (jsonDepth v) (depthKvs r)

mutual
/-- a termination model as a list of numbers (prefix code: 0 runtime, 1 size, 2 iterations, 3 combined) -/
def termCode : TermM → List Nat
  | .runtime l f b p => [0, l, f, b, p]
  | .size l => [1, l]
  | .iters l => [2, l]
  | .combined ms => 3 :: ms.length :: termCodes ms
def termCodes : List TermM → List Nat
  | [] => []
  | m :: ms => termCode m ++ termCodes ms
end

/-- `TerminationModelBuilder::build(config, None)` -/
def termBuild (j : Json) : Except BErr TermM := termOfJson (jsonDepth j + 1) j

end Build
end Compass
