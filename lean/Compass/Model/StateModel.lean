/-
`StateModel`, `StateFeature`, `CustomFeatureFormat` of `routee-compass-core/src/model/state/` and
`collect_features` of `routee-compass/src/app/search/search_app_ops.rs`.

A state model is a `CompactOrderedHashMap<String, StateFeature>` (Model/Container.lean); the stored
index of a feature name is its slot in every state vector (`Vec<StateVar>`, here `List α`).
Numeric parts are generic over the number type `α` (doubles in the driver, any ordered field in the
proofs); `Result<_, StateModelError>` is `Except StateErr _` with one constructor per error variant.

API (everything in `namespace Compass.StateModel` unless noted):
  `new features`, `empty`, `extend m entries`, `len`, `isEmpty`, `containsKey`, `iter`, `indexedIter`,
  `toVec`, `names`, `getIndex`, `initialState m`,
  `getDistance m state name unit`, `getTime`, `getEnergy`, `getCustomF64/I64/U64/Bool m state name`,
  `setDistance m state name value fromUnit`, `setTime`, `setEnergy`, `setCustomF64/I64/U64/Bool`,
  `addDistance m state name value fromUnit`, `addTime`, `addEnergy`, `getDelta m prev next name`,
  `serializeState m state`, `serializeStateModel m`, and `Compass.collectFeatures`.
Setters return the new state vector (`&mut [StateVar]` in the code).
-/
import Compass.Model.Container
import Compass.Model.Units

namespace Compass

/-- `StateModelError`, one constructor per variant -/
inductive StateErr where
  | encode                  -- EncodeError
  | decode                  -- DecodeError
  | value                   -- ValueError
  | unknownName             -- UnknownStateVariableName
  | invalidIndex            -- InvalidStateVariableIndex
  | unexpectedFeatureType   -- UnexpectedFeatureType
  | unexpectedFeatureUnit   -- UnexpectedFeatureUnit
  | build                   -- BuildError
  | runtime                 -- RuntimeError
  deriving DecidableEq, Repr, Inhabited

def StateErr.name : StateErr → String
  | .encode => "enc" | .decode => "dec" | .value => "val" | .unknownName => "unk"
  | .invalidIndex => "idx" | .unexpectedFeatureType => "ftype" | .unexpectedFeatureUnit => "funit"
  | .build => "build" | .runtime => "rt"

/-- the three numeric casts of the codecs: `i64 as f64` / `u64 as f64`, `f64 as i64`, `f64 as u64`
    (Rust's `as`: round to nearest; truncate toward zero, saturating, NaN ↦ 0) -/
class IntCodec (α : Type) where
  ofInt : Int → α
  toI64 : α → Int
  toU64 : α → Nat

instance : IntCodec Float where
  ofInt := Float.ofInt
  toI64 x := x.toInt64.toInt
  toU64 x := x.toUInt64.toNat

/-- `CustomFeatureFormat` -/
inductive CustomFeatureFormat (α : Type) where
  | floatingPoint (initial : α)
  | signedInteger (initial : Int)
  | unsignedInteger (initial : Nat)
  | boolean (initial : Bool)
  deriving Repr

/-- `StateFeature` -/
inductive StateFeature (α : Type) where
  | distance (unit : DistanceUnit) (initial : α)
  | time (unit : TimeUnit) (initial : α)
  | energy (unit : EnergyUnit) (initial : α)
  | custom (type : String) (unit : String) (format : CustomFeatureFormat α)
  deriving Repr

namespace CustomFeatureFormat
variable {α : Type} [Lit α] [IntCodec α] [LT α] [DecidableLT α] [BEq α]

def encodeF64 (f : CustomFeatureFormat α) (x : α) : Except StateErr α :=
  match f with
  | .floatingPoint _ => .ok x
  | _ => .error .encode

def encodeI64 (f : CustomFeatureFormat α) (x : Int) : Except StateErr α :=
  match f with
  | .signedInteger _ => .ok (IntCodec.ofInt x)
  | _ => .error .encode

def encodeU64 (f : CustomFeatureFormat α) (x : Nat) : Except StateErr α :=
  match f with
  | .unsignedInteger _ => .ok (IntCodec.ofInt (Int.ofNat x))
  | _ => .error .encode

def encodeBool (f : CustomFeatureFormat α) (x : Bool) : Except StateErr α :=
  match f with
  | .boolean _ => .ok (if x then one else zero)
  | _ => .error .encode

def decodeF64 (f : CustomFeatureFormat α) (x : α) : Except StateErr α :=
  match f with
  | .floatingPoint _ => .ok x
  | _ => .error .decode

def decodeI64 (f : CustomFeatureFormat α) (x : α) : Except StateErr Int :=
  match f with
  | .signedInteger _ => .ok (IntCodec.toI64 x)
  | _ => .error .decode

/-- negative values are a `ValueError` -/
def decodeU64 (f : CustomFeatureFormat α) (x : α) : Except StateErr Nat :=
  match f with
  | .unsignedInteger _ => if x < (zero : α) then .error .value else .ok (IntCodec.toU64 x)
  | _ => .error .decode

/-- `value.0 == 0.0` is false, everything else true -/
def decodeBool (f : CustomFeatureFormat α) (x : α) : Except StateErr Bool :=
  match f with
  | .boolean _ => .ok (if x == (zero : α) then false else true)
  | _ => .error .decode

/-- `name()`: the `UnitCodecType` text -/
def name : CustomFeatureFormat α → String
  | .floatingPoint _ => "floating_point"
  | .signedInteger _ => "signed_integer"
  | .unsignedInteger _ => "unsigned_integer"
  | .boolean _ => "boolean"

/-- `Default for CustomFeatureFormat` -/
def default : CustomFeatureFormat α := .floatingPoint zero

/-- `initial()`: the format's own initial value through its own encoder -/
def initial (f : CustomFeatureFormat α) : Except StateErr α :=
  match f with
  | .floatingPoint i => f.encodeF64 i
  | .signedInteger i => f.encodeI64 i
  | .unsignedInteger i => f.encodeU64 i
  | .boolean i => f.encodeBool i

end CustomFeatureFormat

namespace StateFeature
variable {α : Type}

/-- `impl PartialEq for StateFeature`: same kind; for custom features same type, unit name and
    format name (units and initial values of distance / time / energy, and the initial value of a
    custom feature, are ignored) -/
def eqv : StateFeature α → StateFeature α → Bool
  | .distance _ _, .distance _ _ => true
  | .time _ _, .time _ _ => true
  | .energy _ _, .energy _ _ => true
  | .custom t1 u1 f1, .custom t2 u2 f2 => t1 == t2 && u1 == u2 && f1.name == f2.name
  | _, _ => false

/-- `get_feature_type` -/
def featureType : StateFeature α → String
  | .distance _ _ => "distance"
  | .time _ _ => "time"
  | .energy _ _ => "energy"
  | .custom t _ _ => t

/-- `get_feature_unit_name` -/
def featureUnitName : StateFeature α → String
  | .distance u _ => u.name
  | .time u _ => u.name
  | .energy u _ => u.name
  | .custom _ u _ => u

def getDistanceUnit : StateFeature α → Except StateErr DistanceUnit
  | .distance u _ => .ok u
  | _ => .error .unexpectedFeatureUnit

def getTimeUnit : StateFeature α → Except StateErr TimeUnit
  | .time u _ => .ok u
  | _ => .error .unexpectedFeatureUnit

def getEnergyUnit : StateFeature α → Except StateErr EnergyUnit
  | .energy u _ => .ok u
  | _ => .error .unexpectedFeatureUnit

def getCustomFeatureFormat : StateFeature α → Except StateErr (CustomFeatureFormat α)
  | .custom _ _ f => .ok f
  | _ => .error .unexpectedFeatureUnit

variable [Lit α] [IntCodec α] [LT α] [DecidableLT α] [BEq α]

/-- `get_feature_format`: the custom feature's format, the default format for every other kind -/
def getFeatureFormat : StateFeature α → CustomFeatureFormat α
  | .custom _ _ f => f
  | _ => CustomFeatureFormat.default

/-- `get_initial` -/
def getInitial : StateFeature α → Except StateErr α
  | .distance _ i => .ok i
  | .time _ i => .ok i
  | .energy _ i => .ok i
  | .custom _ _ f => f.initial

end StateFeature

/-- `StateModel(CompactOrderedHashMap<String, StateFeature>)` -/
structure StateModel (α : Type) where
  map : Container String (StateFeature α)

namespace StateModel
variable {α : Type}

/-- `StateModel::new` (also `From<Vec<(String, StateFeature)>>`) -/
def new (features : List (String × StateFeature α)) : StateModel α := ⟨Container.new features⟩

def empty : StateModel α := ⟨Container.empty⟩

def len (m : StateModel α) : Nat := m.map.len
def isEmpty (m : StateModel α) : Bool := m.map.isEmpty
def containsKey (m : StateModel α) (k : String) : Bool := m.map.containsKey k
def iter (m : StateModel α) : List (String × StateFeature α) := m.map.iter
def indexedIter (m : StateModel α) : List (Nat × (String × StateFeature α)) := m.map.indexedIter
def toVec (m : StateModel α) : List (String × IndexedEntry (StateFeature α)) := m.map.toVec
/-- the slot of a feature name -/
def getIndex (m : StateModel α) (name : String) : Option Nat := m.map.getIndex name
/-- `get_names` before joining with "," -/
def names (m : StateModel α) : List String := m.map.iter.map (·.1)

/-- the insert loop of `extend`: every entry is inserted; a replaced feature that is not `==` the new
    one is recorded -/
def extendLoop (map : Container String (StateFeature α)) (overwrites : List String) :
    List (String × StateFeature α) → Container String (StateFeature α) × List String
  | [] => (map, overwrites)
  | (name, new) :: rest =>
    let (map', old) := map.insert name new
    let overwrites' := match old with
      | some o => if !(o.eqv new) then overwrites ++ [name] else overwrites
      | none => overwrites
    extendLoop map' overwrites' rest

/-- `extend`: copy through `iter()` + `from_iter`, insert the entries, fail with `BuildError` when an
    existing feature was replaced by one of a different kind -/
def extend (m : StateModel α) (entries : List (String × StateFeature α)) :
    Except StateErr (StateModel α) :=
  let map0 := Container.fromIter m.map.iter
  let (map, overwrites) := extendLoop map0 [] entries
  if overwrites.isEmpty then .ok ⟨map⟩ else .error .build

/-- `get_feature` -/
def getFeature (m : StateModel α) (name : String) : Except StateErr (StateFeature α) :=
  match m.map.get name with
  | some f => .ok f
  | none => .error .unknownName

/-- `get_state_variable`: unknown name, or the slot is beyond the vector (`RuntimeError`) -/
def getStateVariable (m : StateModel α) (state : List α) (name : String) : Except StateErr α :=
  match m.map.getIndex name with
  | none => .error .unknownName
  | some idx =>
    match state[idx]? with
    | some v => .ok v
    | none => .error .runtime

/-- `update_state` with `UpdateOperation::Replace`: unknown name, or `InvalidStateVariableIndex` -/
def updateState (m : StateModel α) (state : List α) (name : String) (value : α) :
    Except StateErr (List α) :=
  match m.map.getIndex name with
  | none => .error .unknownName
  | some idx =>
    match state[idx]? with
    | some _ => .ok (state.set idx value)
    | none => .error .invalidIndex

/-- `get_delta` -/
def getDelta [Sub α] (m : StateModel α) (prev next : List α) (name : String) : Except StateErr α :=
  match m.getStateVariable prev name with
  | .error e => .error e
  | .ok p =>
    match m.getStateVariable next name with
    | .error e => .error e
    | .ok n => .ok (n - p)

/-- `serialize_state`: feature names zipped with the vector (a JSON object: order without meaning) -/
def serializeState (m : StateModel α) (state : List α) : List (String × α) :=
  (m.iter.zip state).map (fun p => (p.1.1, p.2))

/-- `serialize_state_model`: name ↦ (slot, feature) -/
def serializeStateModel (m : StateModel α) : List (String × Nat × StateFeature α) :=
  m.indexedIter.map (fun p => (p.2.1, p.1, p.2.2))

section numeric
variable [Mul α] [Div α] [Lit α]

/-- `get_distance` -/
def getDistance (m : StateModel α) (state : List α) (name : String) (unit : DistanceUnit) :
    Except StateErr α :=
  match m.getStateVariable state name with
  | .error e => .error e
  | .ok value =>
    match m.getFeature name with
    | .error e => .error e
    | .ok feature =>
      match feature.getDistanceUnit with
      | .error e => .error e
      | .ok u => .ok (u.convert unit value)

/-- `get_time` -/
def getTime (m : StateModel α) (state : List α) (name : String) (unit : TimeUnit) :
    Except StateErr α :=
  match m.getStateVariable state name with
  | .error e => .error e
  | .ok value =>
    match m.getFeature name with
    | .error e => .error e
    | .ok feature =>
      match feature.getTimeUnit with
      | .error e => .error e
      | .ok u => .ok (u.convert unit value)

/-- `get_energy` -/
def getEnergy (m : StateModel α) (state : List α) (name : String) (unit : EnergyUnit) :
    Except StateErr α :=
  match m.getStateVariable state name with
  | .error e => .error e
  | .ok value =>
    match m.getFeature name with
    | .error e => .error e
    | .ok feature =>
      match feature.getEnergyUnit with
      | .error e => .error e
      | .ok u => .ok (u.convert unit value)

/-- `set_distance`: convert from `fromUnit` into the feature's unit, replace the slot -/
def setDistance (m : StateModel α) (state : List α) (name : String) (distance : α)
    (fromUnit : DistanceUnit) : Except StateErr (List α) :=
  match m.getFeature name with
  | .error e => .error e
  | .ok feature =>
    match feature.getDistanceUnit with
    | .error e => .error e
    | .ok toUnit => m.updateState state name (fromUnit.convert toUnit distance)

/-- `set_time` -/
def setTime (m : StateModel α) (state : List α) (name : String) (time : α)
    (fromUnit : TimeUnit) : Except StateErr (List α) :=
  match m.getFeature name with
  | .error e => .error e
  | .ok feature =>
    match feature.getTimeUnit with
    | .error e => .error e
    | .ok toUnit => m.updateState state name (fromUnit.convert toUnit time)

/-- `set_energy` -/
def setEnergy (m : StateModel α) (state : List α) (name : String) (energy : α)
    (fromUnit : EnergyUnit) : Except StateErr (List α) :=
  match m.getFeature name with
  | .error e => .error e
  | .ok feature =>
    match feature.getEnergyUnit with
    | .error e => .error e
    | .ok toUnit => m.updateState state name (fromUnit.convert toUnit energy)

variable [Add α]

/-- `add_distance`: the increment is converted from `fromUnit` into the feature's own unit and added
    to the slot (error order: `get_feature`, `get_distance_unit`, `get_state_variable`, `update_state`) -/
def addDistance (m : StateModel α) (state : List α) (name : String) (distance : α)
    (fromUnit : DistanceUnit) : Except StateErr (List α) :=
  match m.getFeature name with
  | .error e => .error e
  | .ok feature =>
    match feature.getDistanceUnit with
    | .error e => .error e
    | .ok toUnit =>
      match m.getStateVariable state name with
      | .error e => .error e
      | .ok prev => m.updateState state name (prev + fromUnit.convert toUnit distance)

/-- `add_time` -/
def addTime (m : StateModel α) (state : List α) (name : String) (time : α)
    (fromUnit : TimeUnit) : Except StateErr (List α) :=
  match m.getFeature name with
  | .error e => .error e
  | .ok feature =>
    match feature.getTimeUnit with
    | .error e => .error e
    | .ok toUnit =>
      match m.getStateVariable state name with
      | .error e => .error e
      | .ok prev => m.updateState state name (prev + fromUnit.convert toUnit time)

/-- `add_energy` -/
def addEnergy (m : StateModel α) (state : List α) (name : String) (energy : α)
    (fromUnit : EnergyUnit) : Except StateErr (List α) :=
  match m.getFeature name with
  | .error e => .error e
  | .ok feature =>
    match feature.getEnergyUnit with
    | .error e => .error e
    | .ok toUnit =>
      match m.getStateVariable state name with
      | .error e => .error e
      | .ok prev => m.updateState state name (prev + fromUnit.convert toUnit energy)

end numeric

section custom
variable [Lit α] [IntCodec α] [LT α] [DecidableLT α] [BEq α]

/-- `.map(get_initial).collect::<Result<Vec<_>, _>>()`: all values, or the first error -/
def collectInitial : List (String × StateFeature α) → Except StateErr (List α)
  | [] => .ok []
  | p :: r =>
    match p.2.getInitial with
    | .error e => .error e
    | .ok x =>
      match collectInitial r with
      | .error e => .error e
      | .ok xs => .ok (x :: xs)

/-- `initial_state`: the features' initial values in slot (iteration) order -/
def initialState (m : StateModel α) : Except StateErr (List α) :=
  collectInitial m.map.iter

/-- `get_custom_state_variable` -/
def getCustomStateVariable (m : StateModel α) (state : List α) (name : String) :
    Except StateErr (α × CustomFeatureFormat α) :=
  match m.getStateVariable state name with
  | .error e => .error e
  | .ok value =>
    match m.getFeature name with
    | .error e => .error e
    | .ok feature =>
      match feature.getCustomFeatureFormat with
      | .error e => .error e
      | .ok format => .ok (value, format)

def getCustomF64 (m : StateModel α) (state : List α) (name : String) : Except StateErr α :=
  match m.getCustomStateVariable state name with
  | .error e => .error e
  | .ok (value, format) => format.decodeF64 value

def getCustomI64 (m : StateModel α) (state : List α) (name : String) : Except StateErr Int :=
  match m.getCustomStateVariable state name with
  | .error e => .error e
  | .ok (value, format) => format.decodeI64 value

def getCustomU64 (m : StateModel α) (state : List α) (name : String) : Except StateErr Nat :=
  match m.getCustomStateVariable state name with
  | .error e => .error e
  | .ok (value, format) => format.decodeU64 value

def getCustomBool (m : StateModel α) (state : List α) (name : String) : Except StateErr Bool :=
  match m.getCustomStateVariable state name with
  | .error e => .error e
  | .ok (value, format) => format.decodeBool value

/-- common shape of the four `set_custom_*`: feature, format, encode, replace the slot -/
def setCustomWith (m : StateModel α) (state : List α) (name : String)
    (encode : CustomFeatureFormat α → Except StateErr α) : Except StateErr (List α) :=
  match m.getFeature name with
  | .error e => .error e
  | .ok feature =>
    match feature.getCustomFeatureFormat with
    | .error e => .error e
    | .ok format =>
      match encode format with
      | .error e => .error e
      | .ok encoded => m.updateState state name encoded

def setCustomF64 (m : StateModel α) (state : List α) (name : String) (x : α) :=
  m.setCustomWith state name (fun f => f.encodeF64 x)
def setCustomI64 (m : StateModel α) (state : List α) (name : String) (x : Int) :=
  m.setCustomWith state name (fun f => f.encodeI64 x)
def setCustomU64 (m : StateModel α) (state : List α) (name : String) (x : Nat) :=
  m.setCustomWith state name (fun f => f.encodeU64 x)
def setCustomBool (m : StateModel α) (state : List α) (name : String) (x : Bool) :=
  m.setCustomWith state name (fun f => f.encodeBool x)

end custom

end StateModel

/-- `search_app_ops::collect_features`: the traversal model's features, then the access model's, in
    declaration order — a later feature of the same name replaces the earlier one in place (here:
    `HMap.ofList`, the same insert-or-replace-in-place on a list); every feature of the query's
    `state_features` must name one of them (`UnknownStateVariableName`) and have the same
    `get_feature_type` (`UnexpectedFeatureType`); the result is the model features followed by the
    query's.  (The query's features come out of a `HashMap`: their relative order — and which of
    several offending entries is reported — is unspecified; here: list order.  They all name model
    features, so `StateModel::extend` replaces in place and the resulting model does not depend on it.) -/
def collectFeatures {α : Type} (traversal access : List (String × StateFeature α))
    (user : Option (List (String × StateFeature α))) :
    Except StateErr (List (String × StateFeature α)) :=
  let modelFeatures : HMap String (StateFeature α) := HMap.ofList (traversal ++ access)
  let rec check : List (String × StateFeature α) → Except StateErr Unit
    | [] => .ok ()
    | (name, feature) :: rest =>
      match HMap.get modelFeatures name with
      | none => .error .unknownName
      | some existing =>
        if existing.featureType != feature.featureType then .error .unexpectedFeatureType
        else check rest
  let userFeatures := user.getD []
  match check userFeatures with
  | .error e => .error e
  | .ok () => .ok (modelFeatures ++ userFeatures)

end Compass
