/-
Model of the response sink of routee-compass (property C19):
  app/compass/response/{csv/csv_mapping.rs, response_output_format.rs, response_output_format_json.rs,
  write_mode.rs, response_output_policy.rs, response_sink.rs} and the two batch runners of compass_app.rs.

Text is `List Char` (a Rust `String` is a sequence of chars); the driver turns it into a `String`.
Numbers: `serde_json::Number`s carry their printed lexeme and the bit pattern of `as_f64()` (see
`Model/Json.lean`).  The only arithmetic in scope is `CsvMapping::Sum` (`Iterator::sum::<f64>()` followed by
`json!(f64)`); it is kept abstract in `NumOps` (instantiated with `Float` and a shortest-round-trip printer
in the driver), so every theorem holds for whatever the doubles do.

Imports only `Compass.Model.Json` (linked into the driver).
-/
import Compass.Model.Json

namespace Compass
namespace Sink

/-- what the model needs from `f64` and from the number printer behind `serde_json` -/
structure NumOps where
  /-- `iter.sum::<f64>()` over the `as_f64()` bit patterns (a left fold starting at `-0.0`); result bits -/
  sum : List Nat → Nat
  /-- `f64::is_finite` of a bit pattern (`Number::from_f64` is `None` otherwise and `json!` gives `null`) -/
  finite : Nat → Bool
  /-- how `serde_json` prints a finite double -/
  fmt : Nat → String

/-- `json!(x)` for a double given by its bits -/
def NumOps.number (N : NumOps) (bits : Nat) : Json :=
  if N.finite bits then .num (N.fmt bits) bits else .null

/-! ### text -/

/-- the characters a JSON number is written with -/
def isNumChar (c : Char) : Bool :=
  c.isDigit || c == '+' || c == '-' || c == '.' || c == 'e' || c == 'E'

def txt (s : String) : List Char := s.toList

/-- `Itertools::join` / `[..].join(sep)` on texts -/
def joinWith (sep : List Char) : List (List Char) → List Char
  | [] => []
  | [x] => x
  | x :: y :: r => x ++ sep ++ joinWith sep (y :: r)

def hexChars : List Char := ['0', '1', '2', '3', '4', '5', '6', '7', '8', '9', 'a', 'b', 'c', 'd', 'e', 'f']

def hexDigit (n : Nat) : Char := hexChars.getD n '0'

/-- `serde_json` string escaping: `"` `\` and the control characters below 0x20 -/
def escapeChar (c : Char) : List Char :=
  if c = '"' then ['\\', '"'] else if c = '\\' then ['\\', '\\']
  else if c = '\n' then ['\\', 'n'] else if c = '\r' then ['\\', 'r'] else if c = '\t' then ['\\', 't']
  else if c.toNat = 8 then ['\\', 'b'] else if c.toNat = 12 then ['\\', 'f']
  else if c.toNat < 32 then ['\\', 'u', '0', '0', hexDigit (c.toNat / 16), hexDigit (c.toNat % 16)]
  else [c]

def escapeChars : List Char → List Char
  | [] => []
  | c :: cs => escapeChar c ++ escapeChars cs

def quoteStr (s : String) : List Char := '"' :: (escapeChars s.toList ++ ['"'])

mutual
/-- `serde_json::to_string` / `Value::to_string()` (compact) -/
def compact : Json → List Char
  | .null => txt "null"
  | .bool true => txt "true"
  | .bool false => txt "false"
  | .num l _ => l.toList
  | .str s => quoteStr s
  | .arr xs => '[' :: (joinWith [','] (compactList xs) ++ [']'])
  | .obj kvs => '{' :: (joinWith [','] (compactKvs kvs) ++ ['}'])
def compactList : List Json → List (List Char)
  | [] => []
  | x :: xs => compact x :: compactList xs
def compactKvs : List (String × Json) → List (List Char)
  | [] => []
  | (k, v) :: r => (quoteStr k ++ ':' :: compact v) :: compactKvs r
end

def indent (n : Nat) : List Char := List.replicate (2 * n) ' '

mutual
/-- `serde_json::to_string_pretty` (two-space `PrettyFormatter`) at nesting depth `d` -/
def pretty (d : Nat) : Json → List Char
  | .arr [] => txt "[]"
  | .obj [] => txt "{}"
  | .arr (x :: xs) =>
    '[' :: '\n' :: (joinWith [',', '\n'] (prettyList (d + 1) (x :: xs)) ++ '\n' :: (indent d ++ [']']))
  | .obj (kv :: kvs) =>
    '{' :: '\n' :: (joinWith [',', '\n'] (prettyKvs (d + 1) (kv :: kvs)) ++ '\n' :: (indent d ++ ['}']))
  | j => compact j
def prettyList (d : Nat) : List Json → List (List Char)
  | [] => []
  | x :: xs => (indent d ++ pretty d x) :: prettyList d xs
def prettyKvs (d : Nat) : List (String × Json) → List (List Char)
  | [] => []
  | (k, v) :: r => (indent d ++ quoteStr k ++ ':' :: ' ' :: pretty d v) :: prettyKvs d r
end

/-! ### `CsvMapping` -/

inductive CsvMapping where
  | path (p : String)
  | sum (ms : List CsvMapping)
  | optional (m : CsvMapping)
  deriving Inhabited

/-- `traverse`: follow object keys; `Value::get(&str)` is `None` on anything that is not an object holding
the key (arrays are not indexed by a numeric path segment) -/
def traverse : Json → List String → Option Json
  | j, [] => some j
  | j, k :: ks =>
    match j.get? k with
    | none => none
    | some c => traverse c ks

/-- `str::split('.')`: `""` gives `[""]`, `"a..b"` gives `["a", "", "b"]` -/
def splitDotsAux : List Char → List Char → List String
  | [], cur => [String.ofList cur.reverse]
  | c :: cs, cur => if c = '.' then String.ofList cur.reverse :: splitDotsAux cs [] else splitDotsAux cs (c :: cur)

def splitDots (p : String) : List String := splitDotsAux p.toList []

/-- the summand a value contributes: `null` counts as `0.0`, a number as `as_f64()`, anything else fails -/
def numBits : Json → Option Nat
  | .null => some 0
  | .num _ b => some b
  | _ => none

def numBitsAll : List Json → Option (List Nat)
  | [] => some []
  | v :: vs =>
    match numBits v, numBitsAll vs with
    | some b, some bs => some (b :: bs)
    | _, _ => none

mutual
/-- `CsvMapping::apply_mapping`; `none` = `Err(msg)` (messages are not modelled) -/
def CsvMapping.apply (N : NumOps) : CsvMapping → Json → Option Json
  | .path p, j => traverse j (splitDots p)
  | .sum ms, j =>
    match applyAll N ms j with
    | none => none
    | some vals =>
      match numBitsAll vals with
      | none => none
      | some bits => some (N.number (N.sum bits))
  | .optional m, j =>
    match m.apply N j with
    | some v => some v
    | none => some .null
/-- every summand mapping is applied; one failure fails the sum -/
def applyAll (N : NumOps) : List CsvMapping → Json → Option (List Json)
  | [], _ => some []
  | m :: ms, j =>
    match m.apply N j, applyAll N ms j with
    | some v, some vs => some (v :: vs)
    | _, _ => none
end

/-! ### `ResponseOutputFormat` -/

/-- `mapping` is the `OrderedHashMap` in `iter()` order (= insertion order = order in the configuration) -/
inductive Format where
  | json (newlineDelimited : Bool)
  | csv (mapping : List (String × CsvMapping)) (sorted : Bool)
  deriving Inhabited

/-- stable insertion sort (`Itertools::sorted` / `sorted_by_key`; keys of a map are distinct anyway) -/
def insertBy (lt : α → α → Bool) (x : α) : List α → List α
  | [] => [x]
  | y :: ys => if lt x y then x :: y :: ys else y :: insertBy lt x ys

def sortBy (lt : α → α → Bool) : List α → List α
  | [] => []
  | x :: xs => insertBy lt x (sortBy lt xs)

def strLt (a b : String) : Bool := decide (a < b)

/-- column names as `initial_file_contents` lists them: `keys().sorted()` or `keys().rev()` -/
def headerKeys (mapping : List (String × CsvMapping)) (sorted : Bool) : List String :=
  if sorted then sortBy strLt (mapping.map (·.1)) else (mapping.map (·.1)).reverse

/-- columns as `format_response` walks them: `iter().sorted_by_key(k)` or `iter().rev()` -/
def rowColumns (mapping : List (String × CsvMapping)) (sorted : Bool) : List (String × CsvMapping) :=
  if sorted then sortBy (fun a b => strLt a.1 b.1) mapping else mapping.reverse

/-- does a CSV field need quoting (`text.contains([',', '"', '\n', '\r'])`)? -/
def needsQuotes (t : List Char) : Bool :=
  t.any fun c => c == ',' || c == '"' || c == '\n' || c == '\r'

/-- `text.replace('"', "\"\"")` -/
def doubleQuotes : List Char → List Char
  | [] => []
  | c :: cs => if c = '"' then '"' :: '"' :: doubleQuotes cs else c :: doubleQuotes cs

/-- `csv_field`: RFC 4180 escaping of one field -/
def csvField (t : List Char) : List Char :=
  if needsQuotes t then '"' :: (doubleQuotes t ++ ['"']) else t

/-- `csv_cell`: what a mapped value says — a string its text, anything else its compact JSON text -/
def cellValueText : Json → List Char
  | .str s => s.toList
  | v => compact v

def initialContents : Format → Option (List Char)
  | .json nd => if nd then none else some (txt "[\n")
  | .csv m s => some (joinWith [','] ((headerKeys m s).map fun k => csvField k.toList) ++ ['\n'])

def finalContents : Format → Option (List Char)
  | .json nd => if nd then none else some (txt "\n]")
  | .csv _ _ => none

/-- stored in the sink, never written by any code path -/
def delimiter : Format → Option (List Char)
  | .json nd => if nd then none else some (txt ",\n")
  | .csv _ _ => some ['\n']

/-- the value of one cell as a reader should get it back: the mapped value's text, empty when the mapping failed -/
def cellValue (N : NumOps) (m : CsvMapping) (resp : Json) : List Char :=
  match m.apply N resp with
  | some v => cellValueText v
  | none => []

/-- one cell as written: the CSV-escaped value (an empty field when the mapping failed) -/
def cellText (N : NumOps) (m : CsvMapping) (resp : Json) : List Char :=
  match m.apply N resp with
  | some v => csvField (cellValueText v)
  | none => []

/-- keys of the columns whose mapping failed (the `errors` map of the formatter) -/
def failedKeys (N : NumOps) (cols : List (String × CsvMapping)) (resp : Json) : List String :=
  (cols.filter (fun c => (c.2.apply N resp).isNone)).map (·.1)

/-- `json![errors]` inside `{"csv": …}`; messages are not modelled (empty strings) -/
def csvErrorValue (keys : List String) : Json :=
  .obj [("csv", .obj (keys.map fun k => (k, .str "")))]

/-- the keys the CSV formatter tries, in order: `error`, `csv_error`, `csv_error_2`, `csv_error_3`, … -/
def errorKeyName (attempt : Nat) : String :=
  if attempt = 0 then "error" else if attempt = 1 then "csv_error" else "csv_error_" ++ toString attempt

/-- the `while response.get(key).is_some()` loop: the first key of the sequence that is not in the response
(nothing already there is ever replaced).  `none`: the fuel ran out — the loop did not end. -/
def freshErrorKey (resp : Json) : Nat → Nat → Option String
  | 0, _ => none
  | fuel + 1, attempt =>
    if (resp.get? (errorKeyName attempt)).isNone then some (errorKeyName attempt)
    else freshErrorKey resp fuel (attempt + 1)

def entryCount : Json → Nat
  | .obj kvs => kvs.length
  | _ => 0

/-- an object with `n` entries leaves one of the first `n + 1` keys free (proved: `freshErrorKey_terminates`) -/
def csvErrorKey (resp : Json) : Option String := freshErrorKey resp (entryCount resp + 2) 0

inductive Outcome (α : Type) where
  | ok (a : α)
  /-- `response[key] = …` on a value that is neither an object nor `null` panics inside `serde_json` -/
  | panic
  /-- the search for a free error key did not end -/
  | diverges
  deriving Inhabited

def csvRow (N : NumOps) (cols : List (String × CsvMapping)) (resp : Json) : List Char :=
  joinWith [','] (cols.map fun c => cellText N c.2 resp)

/-- `ResponseOutputFormat::format_response`: the row text and the (possibly amended) response -/
def formatResponse (N : NumOps) (f : Format) (resp : Json) : Outcome (List Char × Json) :=
  match f with
  | .json nd => .ok (if nd then compact resp else pretty 0 resp, resp)
  | .csv m s =>
    let cols := rowColumns m s
    let row := csvRow N cols resp
    let errs := failedKeys N cols resp
    if errs.isEmpty then .ok (row, resp)
    else
      match csvErrorKey resp with
      | none => .diverges
      | some key =>
        match Json.indexAssign resp key (csvErrorValue errs) with
        | some resp' => .ok (row, resp')
        | none => .panic

/-! ### a mapping written in the application's TOML -/

/-- `str::to_lowercase` (on ASCII letters; the `config` crate applies it to every table key it merges) -/
def lowerName (k : String) : String := String.ofList (k.toList.map Char.toLower)

def insertColumn (acc : List (String × CsvMapping)) (k : String) (m : CsvMapping) : List (String × CsvMapping) :=
  if acc.any (fun p => p.1 == k) then acc.map (fun p => if p.1 == k then (k, m) else p) else acc ++ [(k, m)]

/-- what arrives in `ResponseOutputFormat::Csv { mapping }` when the mapping is configured in the application's
TOML file (not in the per-run JSON configuration, which keeps names as they are): the `config` crate lower-cases
the column names, and a name that comes again takes the place — and keeps the position — of its first
occurrence.  A configured column can thus disappear without any error. -/
def tomlMapping (configured : List (String × CsvMapping)) : List (String × CsvMapping) :=
  configured.foldl (fun acc c => insertColumn acc (lowerName c.1) c.2) []

/-! ### `WriteMode::open_file`, `ResponseOutputPolicy::build` -/

inductive WriteMode where
  | append | overwrite | error
  deriving DecidableEq, Inhabited

/-- `write_header`: `std::fs::write(path, initial_file_contents.unwrap_or(""))` -/
def headerText (f : Format) : List Char := (initialContents f).getD []

/-- contents of the file right after `open_file` (`existing = none`: no such file); `none`: refused.
`Append` on a missing file is `OpenOptions::append(true).create_new(true)` followed by the header on the same
handle: whoever creates the file writes the header, nobody truncates (the sink that loses the race to create
opens what is there).  One step here; the instant between creating the file and writing the header — in which
another sink's record could land before the header — is not modelled. -/
def openFile (mode : WriteMode) (f : Format) (existing : Option (List Char)) : Option (List Char) :=
  match mode, existing with
  | .append, some c => some c
  | .append, none => some (headerText f)
  | .overwrite, _ => some (headerText f)
  | .error, some _ => none
  | .error, none => some (headerText f)

/-- `file_flush_rate`: absent ⇒ 1, positive ⇒ itself, otherwise `build` fails (after the file was opened) -/
def flushEvery : Option Int → Option Nat
  | none => some 1
  | some r => if r ≤ 0 then none else some r.toNat

/-- `ResponseSink::File` -/
structure FileSink where
  format : Format
  flushEvery : Nat
  /-- contents when the handle was opened followed by one chunk per append, in order -/
  file : List (List Char)
  iterations : Nat
  /-- `File::flush` calls so far (a no-op on an unbuffered `std::fs::File`) -/
  flushes : Nat
  /-- a panic while the lock was held poisons both mutexes: later writes fail without writing -/
  poisoned : Bool
  /-- the configured `filename` (what `close` reports) -/
  name : String := ""
  /-- the device refuses every write of at least one byte (`/dev/full`, a full disk): `writeln!` returns an
  error, nothing reaches the file -/
  failing : Bool := false
  deriving Inhabited

/-- the lock is not poisoned and the device takes writes -/
def FileSink.Healthy (s : FileSink) : Prop := s.poisoned = false ∧ s.failing = false

def FileSink.contents (s : FileSink) : List Char := s.file.flatten

inductive BuildResult where
  | ok (s : FileSink)
  /-- `file_flush_rate ≤ 0`; the file exists by now with contents `file` -/
  | badFlushRate (file : List Char)
  /-- `WriteMode::Error` on an existing file -/
  | refused
  deriving Inhabited

/-- `ResponseOutputPolicy::File::build` (always `WriteMode::Append` in the code) generalised over the mode -/
def build (mode : WriteMode) (f : Format) (rate : Option Int) (existing : Option (List Char)) : BuildResult :=
  match openFile mode f existing with
  | none => .refused
  | some c =>
    match flushEvery rate with
    | none => .badFlushRate c
    | some n => .ok { format := f, flushEvery := n, file := [c], iterations := 0, flushes := 0, poisoned := false }

/-- what is at the configured path before `build` -/
inductive PathState where
  | missing
  | file (contents : List Char)
  /-- the path names a directory -/
  | directory
  /-- the parent directory does not exist: nothing can be created -/
  | noParent
  /-- a device that exists, opens, and refuses every write of at least one byte (`/dev/full`) -/
  | full
  deriving Inhabited

inductive OpenResult where
  /-- opened for appending; `contents` is what the file holds now -/
  | ok (contents : List Char) (failing : Bool)
  /-- `WriteMode::Error` and the path exists -/
  | refused
  /-- `std::fs::write` of the header or `OpenOptions::append.open` failed -/
  | ioError
  deriving Inhabited

/-- `WriteMode::open_file` over every kind of path.  `path.exists()` is true for a file, a directory and a
device; the header is written with `std::fs::write` (create + truncate + write all), then the path is opened
in append mode. -/
def openPath (mode : WriteMode) (f : Format) : PathState → OpenResult
  | .missing => .ok (headerText f) false
  | .file c =>
    match mode with
    | .append => .ok c false
    | .overwrite => .ok (headerText f) false
    | .error => .refused
  | .directory => match mode with | .error => .refused | _ => .ioError
  | .noParent => .ioError
  | .full =>
    match mode with
    | .append => .ok [] true
    | .overwrite => if (headerText f).isEmpty then .ok [] true else .ioError
    | .error => .refused

/-- what is at the path after `open_file` -/
def pathAfterOpen (mode : WriteMode) (f : Format) (st : PathState) : PathState :=
  match st, openPath mode f st with
  | .full, _ => .full
  | _, .ok c _ => .file c
  | st, _ => st

inductive BuildAtResult where
  | ok (s : FileSink)
  | badFlushRate
  | refused
  | ioError
  deriving Inhabited

/-- `ResponseOutputPolicy::File::build` at a path of any kind -/
def buildAt (mode : WriteMode) (name : String) (f : Format) (rate : Option Int) (st : PathState) : BuildAtResult :=
  match openPath mode f st with
  | .refused => .refused
  | .ioError => .ioError
  | .ok c failing =>
    match flushEvery rate with
    | none => .badFlushRate
    | some n => .ok { format := f, flushEvery := n, file := [c], iterations := 0, flushes := 0, poisoned := false,
                      name := name, failing := failing }

/-- a member of a (flattened) `ResponseOutputPolicy::Combined` -/
structure Member where
  name : String
  format : Format
  rate : Option Int
  path : PathState
  deriving Inhabited

/-- `ResponseOutputPolicy::Combined::build`: members are built in order (always `WriteMode::Append`); the first
failure ends the build with an error — the files of the members before it (and of the failing member, when
only its flush rate was wrong) have been created by then.  Result: what is at every member's path afterwards,
and the sinks when all were built. -/
def buildAll : List Member → List PathState × Option (List FileSink)
  | [] => ([], some [])
  | m :: ms =>
    let after := pathAfterOpen .append m.format m.path
    match buildAt .append m.name m.format m.rate m.path with
    | .ok s =>
      match buildAll ms with
      | (sts, some ss) => (after :: sts, some (s :: ss))
      | (sts, none) => (after :: sts, none)
    | _ => (after :: ms.map (·.path), none)

inductive WriteResult where
  | ok (s : FileSink) (resp : Json)
  /-- `ReadOnlyPoisonError`: nothing written, response untouched -/
  | lockError (s : FileSink)
  /-- the formatter panicked while holding the lock -/
  | panic (s : FileSink)
  /-- the formatter never returned: the lock stays taken -/
  | diverges (s : FileSink)
  /-- `writeln!` failed (`InternalError`): nothing appended, counter untouched — but the formatter has already
  run, so the response carries its bookkeeping -/
  | ioError (s : FileSink) (resp : Json)
  deriving Inhabited

/-- the chunk one `write_response` appends: `writeln!(file, "{}", row)` -/
def record (row : List Char) : List Char := row ++ ['\n']

/-- `ResponseSink::File::write_response`: ONE atomic step under the file lock — format the whole row, append
row and newline, bump the counter, flush every `flushEvery` writes -/
def FileSink.write (N : NumOps) (s : FileSink) (resp : Json) : WriteResult :=
  if s.poisoned then .lockError s
  else
    match formatResponse N s.format resp with
    | .panic => .panic { s with poisoned := true }
    | .diverges => .diverges s
    | .ok (row, resp') =>
      if s.failing then .ioError s resp' else
      let it := s.iterations + 1
      .ok { s with file := s.file ++ [record row], iterations := it,
                   flushes := if it % s.flushEvery = 0 then s.flushes + 1 else s.flushes } resp'

/-- `ResponseSink::File::close`: `writeln!(file, "{}", final_file_contents.unwrap_or(""))` — not called by
`CompassApp::run`, and there is no `Drop`: a sink that is dropped writes nothing more (the JSON array form
then lacks its closing bracket) -/
def FileSink.close (s : FileSink) : FileSink :=
  if s.poisoned || s.failing then s else { s with file := s.file ++ [record ((finalContents s.format).getD [])] }

/-- what `close` returns: the file name, or an error (`none`) when the lock is poisoned or the write fails -/
def FileSink.closeName (s : FileSink) : Option String :=
  if s.poisoned || s.failing then none else some s.name

/-! ### `ResponseSink::Combined` (flattened depth-first; `ResponseSink::None` is the empty list) -/

inductive CombinedResult where
  | ok (ss : List FileSink) (resp : Json)
  | lockError (ss : List FileSink)
  | panic (ss : List FileSink)
  | diverges (ss : List FileSink)
  | ioError (ss : List FileSink) (resp : Json)
  deriving Inhabited

/-- each member writes the response *as the previous member left it*; the first failure stops the walk -/
def writeCombined (N : NumOps) : List FileSink → Json → CombinedResult
  | [], resp => .ok [] resp
  | s :: ss, resp =>
    match s.write N resp with
    | .lockError s' => .lockError (s' :: ss)
    | .panic s' => .panic (s' :: ss)
    | .diverges s' => .diverges (s' :: ss)
    | .ioError s' resp' => .ioError (s' :: ss) resp'
    | .ok s' resp' =>
      match writeCombined N ss resp' with
      | .ok ss' r => .ok (s' :: ss') r
      | .lockError ss' => .lockError (s' :: ss')
      | .panic ss' => .panic (s' :: ss')
      | .diverges ss' => .diverges (s' :: ss')
      | .ioError ss' r => .ioError (s' :: ss') r

/-- `ResponseSink::Combined::close`: members are closed in order, the first failure stops the walk (`?`); the
result is the comma-joined non-empty names (`ResponseSink::None` contributes the empty name) -/
def closeCombined : List FileSink → List FileSink × Option (List String)
  | [] => ([], some [])
  | s :: ss =>
    match s.closeName with
    | none => (s :: ss, none)
    | some n =>
      match closeCombined ss with
      | (ss', some ns) => (s.close :: ss', some (if n.isEmpty then ns else n :: ns))
      | (ss', none) => (s.close :: ss', none)

/-! ### the batch runners: workers, schedules -/

/-- `run_batch_with_responses` / `run_batch_without_responses`: every worker owns a queue of responses
(its chunk of the load-balanced batch, already computed); a step of the schedule lets one worker hand its
next response to the shared sink.  `returned` collects, per worker, what `write_response` left in the
response (kept only under `PersistResponseInMemory`). -/
structure Run where
  sink : FileSink
  queues : List (List Json)
  returned : List (List Json)
  /-- responses whose write failed (poisoned lock / panic) -/
  failed : Nat
  deriving Inhabited

def pushAt (xs : List (List Json)) (w : Nat) (r : Json) : List (List Json) :=
  xs.modify w (fun l => l ++ [r])

/-- one scheduled step of worker `w` (no effect when `w` has nothing left or does not exist) -/
def Run.step (N : NumOps) (persist : Bool) (s : Run) (w : Nat) : Run :=
  match s.queues[w]? with
  | none => s
  | some [] => s
  | some (r :: rest) =>
    let qs := s.queues.set w rest
    match s.sink.write N r with
    | .ok sink' r' =>
      { s with sink := sink', queues := qs, returned := if persist then pushAt s.returned w r' else s.returned }
    | .lockError sink' => { s with sink := sink', queues := qs, failed := s.failed + 1 }
    | .panic sink' => { s with sink := sink', queues := qs, failed := s.failed + 1 }
    | .diverges sink' => { s with sink := sink', queues := qs, failed := s.failed + 1 }
    | .ioError sink' _ => { s with sink := sink', queues := qs, failed := s.failed + 1 }

def Run.exec (N : NumOps) (persist : Bool) (s : Run) (schedule : List Nat) : Run :=
  schedule.foldl (Run.step N persist) s

def Run.init (sink : FileSink) (queues : List (List Json)) : Run :=
  { sink := sink, queues := queues, returned := queues.map (fun _ => []), failed := 0 }

/-- all queues drained: the batch is complete -/
def Run.done (s : Run) : Bool := s.queues.all List.isEmpty

/-- a schedule that drains every queue: worker 0 to the end, then worker 1, … (`parallelism = 1` order) -/
def sequentialSchedule (queues : List (List Json)) : List Nat :=
  (queues.zipIdx.map fun (q, i) => List.replicate q.length i).flatten

/-! ### a batch on a Combined sink: the members have separate locks -/

/-- a worker of a batch that writes to a Combined sink.  `write_response` on `ResponseSink::Combined` walks the
members in order; each member's write is atomic under that member's own lock, but between two members the
worker holds nothing: another worker may be inside a later or an earlier member at the same time.
`current = some (r, j)`: the response in progress as members `< j` left it, `j` the next member. -/
structure CWorker where
  queue : List Json
  current : Option (Json × Nat) := none
  returned : List Json := []
  deriving Inhabited

structure RunC where
  sinks : List FileSink
  workers : List CWorker
  failed : Nat
  deriving Inhabited

/-- one scheduled step of worker `w`: take the next response, or hand the response in progress to the next
member (one atomic member write), or — past the last member — hand it back -/
def RunC.step (N : NumOps) (persist : Bool) (s : RunC) (w : Nat) : RunC :=
  match s.workers[w]? with
  | none => s
  | some wk =>
    match wk.current with
    | none =>
      match wk.queue with
      | [] => s
      | r :: rest => { s with workers := s.workers.set w { wk with queue := rest, current := some (r, 0) } }
    | some (r, j) =>
      match s.sinks[j]? with
      | none =>
        let wk' : CWorker := { wk with current := none, returned := if persist then wk.returned ++ [r] else wk.returned }
        { s with workers := s.workers.set w wk' }
      | some sink =>
        match sink.write N r with
        | .ok sink' r' =>
          { s with sinks := s.sinks.set j sink', workers := s.workers.set w { wk with current := some (r', j + 1) } }
        | .lockError sink' | .panic sink' | .diverges sink' | .ioError sink' _ =>
          -- the first failing member ends this `write_response` with an error
          { s with sinks := s.sinks.set j sink', failed := s.failed + 1,
                   workers := s.workers.set w { wk with current := none } }

def RunC.exec (N : NumOps) (persist : Bool) (s : RunC) (schedule : List Nat) : RunC :=
  schedule.foldl (RunC.step N persist) s

def RunC.init (sinks : List FileSink) (queues : List (List Json)) : RunC :=
  { sinks := sinks, workers := queues.map fun q => { queue := q }, failed := 0 }

/-- every worker has handed back everything -/
def RunC.done (s : RunC) : Bool := s.workers.all fun wk => wk.queue.isEmpty && wk.current.isNone

/-! ### `CompassApp::run`: which responses reach the sink -/

/-- the main thread hands responses to the sink one after the other; `none`: a write failed (the `?` in
`run` returns the error, or the panic unwinds) -/
def writeSeq (N : NumOps) : FileSink → List Json → Option (FileSink × List Json)
  | s, [] => some (s, [])
  | s, r :: rs =>
    match s.write N r with
    | .ok s' r' =>
      match writeSeq N s' rs with
      | some (s'', rs') => some (s'', r' :: rs')
      | none => none
    | .lockError _ => none
    | .panic _ => none
    | .diverges _ => none
    | .ioError _ _ => none

/-- `CompassApp::run` after input processing.  `inputErrors`: the error responses of the queries that failed
input processing; the main thread writes them to the sink first (`for error_response in
error_inputs.iter_mut() { response_writer.write_response(error_response)?; }`), before any search runs —
also when no query is left to search (the early return).  `queues`: the responses of the queries that passed
the input plugins, per worker (`run_batch_with(out)_responses`).  Result: the sink and what the caller gets
back — search responses first (only under `PersistResponseInMemory`), then the error responses as
`write_response` left them (under both policies); `none` when writing an error response failed. -/
def appRun (N : NumOps) (persist : Bool) (sink : FileSink) (queues : List (List Json))
    (inputErrors : List Json) (schedule : List Nat) : Option (FileSink × List Json) :=
  match writeSeq N sink inputErrors with
  | none => none
  | some (sink₁, errors') =>
    let final := (Run.init sink₁ queues).exec N persist schedule
    -- a failed write fails the whole run under both policies: `run_batch_with_responses` propagates it
    -- with `?`, and since /repo 80a5c9a `run_batch_without_responses` does too (`try_for_each`; its
    -- fold used to drop the error, so under the discard policy the run succeeded with nothing written)
    if final.failed > 0 then none
    else some (final.sink, final.returned.flatten ++ errors')

end Sink
end Compass
