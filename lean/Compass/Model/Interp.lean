/-
Interpolation: `routee-compass-powertrain/src/routee/prediction/interpolation/{utils,interp,
interpolation_speed_grade_model}.rs`.

Written once, generic over the numeric type (instantiated at `Float` in the driver — same operations
in the same order as the Rust code, hence bit-exact — and at any linearly ordered field in the proofs).

Outcomes the Rust code can have that a total function cannot are explicit (`Res`):
* `err e`      — the code returns `Err(..)`
* `panic site` — slice index out of bounds, or the `arr.len() - 2` / `n - 1` underflow (a panic with
                 overflow checks; without them the wrapped value `usize::MAX` is used as an index on the
                 very next line, which panics as well — except `linspace(_, _, 0)`, see there)
* `diverges`   — fuel of the binary search exhausted (never happens: `Proofs/Interp.lean`)

NaN: `v.is_nan()` is `¬ v ≤ v` (true exactly for NaN on doubles, never in a linear order); the `is_nan`
guard of `InterpND::linear` is modelled, NaN *inputs* to `predict` (`f64::max/min` semantics) are not;
`-0.0` is not generated.
Floating point equality `a == b` is `a ≤ b ∧ b ≤ a` (the same predicate on non-NaN doubles, and
equality in a linear order).
-/
import Compass.Model.Units

namespace Compass
namespace Interp

/-- the `Err(..)` results, by kind -/
inductive Err where
  | emptyArr        -- find_nearest_index: "Could not get last grid value of arr, is arr empty?"
  | singleArr       -- find_nearest_index: a single grid value has no cell
  | pointLen        -- validate_inputs: wrong point dimensionality
  | outside         -- validate_inputs: "Supplied point must be within grid"
  | strategy        -- strategy not applicable
  | gridEmpty       -- validate: empty grid coordinates
  | gridTooShort    -- validate (2-D, 3-D): an axis with fewer than two points
  | notSorted       -- validate: not sorted / repeating
  | shape           -- validate: grid and values are not compatible shapes
  | gridDim         -- validate (ND): length of grid is not the values' dimensionality
  | extract         -- ND: "Could not extract value"
  | nan             -- ND: "Surrounding value(s) cannot be NaN"
  | alloc           -- a bin count (or a table of speed_bins x grade_bins rates) that cannot be allocated
  | build           -- load_prediction_model: `BuildError` (unreadable model file, ONNX without the feature)
  | emptyAxis       -- speed/grade model: first/last of an empty axis
  | only2D          -- speed/grade model: "Only 2-D interpolators are currently supported"
  deriving DecidableEq, Repr, Inhabited

inductive Site where
  | underflow       -- `arr.len() - 2` with `len < 2`, `n - 1` with `n = 0`
  | index           -- slice / ndarray index out of bounds
  deriving DecidableEq, Repr, Inhabited

inductive Res (β : Type) where
  | ok (v : β)
  | err (e : Err)
  | panic (s : Site)
  | diverges
  deriving DecidableEq, Repr, Inhabited

def Res.bind {β γ : Type} (r : Res β) (f : β → Res γ) : Res γ :=
  match r with
  | .ok v => f v
  | .err e => .err e
  | .panic s => .panic s
  | .diverges => .diverges

def Res.isOk {β : Type} : Res β → Bool
  | .ok _ => true
  | _ => false

/-- `xs[i]` of a slice / `Vec`: panics when out of bounds -/
def idx {β : Type} (xs : List β) (i : Nat) : Res β :=
  match xs[i]? with
  | some v => .ok v
  | none => .panic .index

/-- `iter().position(p)` -/
def position {β : Type} (p : β → Bool) : List β → Option Nat
  | [] => none
  | a :: as => if p a then some 0 else (position p as).map (· + 1)

/-- `windows(2).all(|w| w[0] < w[1])` -/
def strictlyIncreasing {β : Type} [LT β] [DecidableLT β] : List β → Bool
  | [] => true
  | [_] => true
  | a :: b :: r => decide (a < b) && strictlyIncreasing (b :: r)

section
variable {α : Type} [LE α] [DecidableLE α]

/-- `a == b` on doubles -/
def eqv (a b : α) : Bool := decide (a ≤ b) && decide (b ≤ a)

/-- the `while low < high` loop of `find_nearest_index`; `fuel` bounds the iterations -/
def bsearch (arr : List α) (t : α) : Nat → Nat → Nat → Res Nat
  | 0, _, _ => .diverges
  | fuel + 1, low, high =>
    if low < high then
      let mid := low + (high - low) / 2
      match arr[mid]? with
      | none => .panic .index
      | some v => if t ≤ v then bsearch arr t fuel low mid else bsearch arr t fuel (mid + 1) high
    else .ok low

/-- `utils::find_nearest_index` -/
def findNearestIndex (arr : List α) (t : α) : Res Nat :=
  if arr.length = 1 then .err .singleArr
  else
    match arr.getLast? with
    | none => .err .emptyArr
    | some last =>
      if eqv t last then
        (if arr.length < 2 then .panic .underflow else .ok (arr.length - 2))
      else
        (bsearch arr t (arr.length + 1) 0 (arr.length - 1)).bind fun low =>
          (idx arr low).bind fun v =>
            if 0 < low ∧ t ≤ v then .ok (low - 1) else .ok low

end

section
variable {α : Type} [Add α] [Sub α] [Mul α] [Div α] [LT α] [LE α] [DecidableLT α] [DecidableLE α] [Lit α]

/-- `n as f64` for the sizes that occur (exact below 2^53) -/
def ofNat (n : Nat) : α := Lit.lit n 1

/-- the loop `x[i] = x[i-1] + dx` for `i in 1..n`; `k` values still to produce after `prev` -/
def linspaceFrom (dx : α) (prev : α) : Nat → List α
  | 0 => []
  | k + 1 => (prev + dx) :: linspaceFrom dx (prev + dx) k

/-- `utils::linspace` (`n = 0`: the empty vector) -/
def linspace (x0 xend : α) (n : Nat) : Res (List α) :=
  match n with
  | 0 => .ok []
  | m + 1 =>
    let dx := (xend - x0) / (ofNat m : α)
    .ok (x0 :: linspaceFrom dx x0 m)

/-- `utils::linspace` with its allocation: `n` comes from the configuration, and `try_reserve_exact(n)`
fails for a count that cannot be allocated.  `cap` is the largest count of `f64` values that can be
reserved — data: it depends on the machine (address space, memory limits); above it the result is the
allocation error (before /repo's repair `vec![x0; n]` aborted the process or panicked with "capacity
overflow").  A count below `cap` whose table merely takes very long to fill is NOT modelled. -/
def linspaceAlloc (cap : Nat) (x0 xend : α) (n : Nat) : Res (List α) :=
  match n with
  | 0 => .ok []
  | m + 1 => if cap < m + 1 then .err .alloc else linspace x0 xend (m + 1)

/-- lower index and fraction in one dimension: `find_nearest_index`, then
`(p - g[l]) / (g[l+1] - g[l])` -/
def cellOf (g : List α) (p : α) : Res (Nat × α) :=
  (findNearestIndex g p).bind fun l =>
    (idx g l).bind fun gl =>
      (idx g (l + 1)).bind fun gu =>
        .ok (l, (p - gl) / (gu - gl))

/-- `a * (1.0 - d) + b * d` -/
def lerp (a b d : α) : α := a * (one - d) + b * d

/-! ### 1-D -/

/-- `Interp1D::validate` -/
def validate1 (x f : List α) : Res Unit :=
  if x.length = 0 then .err .gridEmpty
  else if !strictlyIncreasing x then .err .notSorted
  else if x.length ≠ f.length then .err .shape
  else .ok ()

/-- `Interp1D::linear` -/
def linear1 (x f : List α) (p : α) : Res α :=
  match position (fun v => eqv v p) x with
  | some i => idx f i
  | none =>
    (cellOf x p).bind fun c =>
      (idx f c.1).bind fun fl =>
        (idx f (c.1 + 1)).bind fun fu =>
          .ok (lerp fl fu c.2)

/-- `Interp1D::left_nearest` -/
def leftNearest1 (x f : List α) (p : α) : Res α :=
  match position (fun v => eqv v p) x with
  | some i => idx f i
  | none => (findNearestIndex x p).bind fun l => idx f l

/-- `Interp1D::right_nearest` -/
def rightNearest1 (x f : List α) (p : α) : Res α :=
  match position (fun v => eqv v p) x with
  | some i => idx f i
  | none => (findNearestIndex x p).bind fun l => idx f (l + 1)

/-- `Interp1D::nearest` -/
def nearest1 (x f : List α) (p : α) : Res α :=
  match position (fun v => eqv v p) x with
  | some i => idx f i
  | none =>
    (cellOf x p).bind fun c =>
      if c.2 < (Lit.lit 1 2 : α) then idx f c.1 else idx f (c.1 + 1)

/-! ### 2-D -/

def idx2 (f : List (List α)) (i j : Nat) : Res α := (idx f i).bind fun r => idx r j

/-- `Interp2D::validate` -/
def validate2 (x y : List α) (f : List (List α)) : Res Unit :=
  if x.length = 0 ∨ y.length = 0 then .err .gridEmpty
  else if x.length < 2 ∨ y.length < 2 then .err .gridTooShort
  else if !(strictlyIncreasing x && strictlyIncreasing y) then .err .notSorted
  else if !(decide (x.length = f.length) && f.all (fun r => decide (r.length = y.length))) then .err .shape
  else .ok ()

/-- `Interp2D::linear` (`point[0]`, `point[1]`) -/
def linear2 (x y : List α) (f : List (List α)) (pt : List α) : Res α :=
  (idx pt 0).bind fun p0 =>
    (cellOf x p0).bind fun cx =>
      (idx pt 1).bind fun p1 =>
        (cellOf y p1).bind fun cy =>
          (idx2 f cx.1 cy.1).bind fun f00 =>
            (idx2 f (cx.1 + 1) cy.1).bind fun f10 =>
              (idx2 f cx.1 (cy.1 + 1)).bind fun f01 =>
                (idx2 f (cx.1 + 1) (cy.1 + 1)).bind fun f11 =>
                  let c0 := lerp f00 f10 cx.2
                  let c1 := lerp f01 f11 cx.2
                  .ok (lerp c0 c1 cy.2)

/-! ### 3-D -/

def idx3 (f : List (List (List α))) (i j k : Nat) : Res α := (idx f i).bind fun r => idx2 r j k

/-- `Interp3D::validate` -/
def validate3 (x y z : List α) (f : List (List (List α))) : Res Unit :=
  if x.length = 0 ∨ y.length = 0 ∨ z.length = 0 then .err .gridEmpty
  else if x.length < 2 ∨ y.length < 2 ∨ z.length < 2 then .err .gridTooShort
  else if !(strictlyIncreasing x && strictlyIncreasing y && strictlyIncreasing z) then .err .notSorted
  else if !(decide (x.length = f.length) && f.all (fun r => decide (r.length = y.length))
      && f.all (fun r => r.all (fun s => decide (s.length = z.length)))) then .err .shape
  else .ok ()

/-- `Interp3D::linear` -/
def linear3 (x y z : List α) (f : List (List (List α))) (pt : List α) : Res α :=
  (idx pt 0).bind fun p0 =>
    (cellOf x p0).bind fun cx =>
      (idx pt 1).bind fun p1 =>
        (cellOf y p1).bind fun cy =>
          (idx pt 2).bind fun p2 =>
            (cellOf z p2).bind fun cz =>
              (idx3 f cx.1 cy.1 cz.1).bind fun f000 =>
                (idx3 f (cx.1 + 1) cy.1 cz.1).bind fun f100 =>
                  (idx3 f cx.1 cy.1 (cz.1 + 1)).bind fun f001 =>
                    (idx3 f (cx.1 + 1) cy.1 (cz.1 + 1)).bind fun f101 =>
                      (idx3 f cx.1 (cy.1 + 1) cz.1).bind fun f010 =>
                        (idx3 f (cx.1 + 1) (cy.1 + 1) cz.1).bind fun f110 =>
                          (idx3 f cx.1 (cy.1 + 1) (cz.1 + 1)).bind fun f011 =>
                            (idx3 f (cx.1 + 1) (cy.1 + 1) (cz.1 + 1)).bind fun f111 =>
                              let c00 := lerp f000 f100 cx.2
                              let c01 := lerp f001 f101 cx.2
                              let c10 := lerp f010 f110 cx.2
                              let c11 := lerp f011 f111 cx.2
                              let c0 := lerp c00 c10 cy.2
                              let c1 := lerp c01 c11 cy.2
                              .ok (lerp c0 c1 cz.2)

/-! ### N-D

`values: ArrayD<f64>` is a shape and an accessor `get : index list ↦ value` (`panic` out of bounds);
`getFlat` is the accessor of a row-major table. -/

def flatIndexAux : Nat → List Nat → List Nat → Option Nat
  | acc, [], [] => some acc
  | acc, n :: ns, i :: is => if i < n then flatIndexAux (acc * n + i) ns is else none
  | _, _, _ => none

/-- row-major accessor of a table of the given shape -/
def getFlat (shape : List Nat) (data : List α) (ix : List Nat) : Res α :=
  match flatIndexAux 0 shape ix with
  | some k => idx data k
  | none => .panic .index

def prod : List Nat → Nat
  | [] => 1
  | n :: ns => n * prod ns

structure ND (α : Type) where
  grid : List (List α)
  shape : List Nat
  get : List Nat → Res α

/-- `InterpND::ndim` -/
def ND.ndim (m : ND α) : Nat := if prod m.shape = 1 then 0 else m.shape.length

/-- the three per-dimension loops of `InterpND::validate` (`for i in 0..n`, indexing `self.grid[i]`;
written as a recursion over the first `n` grids: a missing grid is the out-of-bounds panic) -/
def ndCheckNonEmpty : Nat → List (List α) → Res Unit
  | 0, _ => .ok ()
  | _ + 1, [] => .panic .index
  | k + 1, g :: gs => if g.isEmpty then .err .gridEmpty else ndCheckNonEmpty k gs
def ndCheckSorted : Nat → List (List α) → Res Unit
  | 0, _ => .ok ()
  | _ + 1, [] => .panic .index
  | k + 1, g :: gs => if !strictlyIncreasing g then .err .notSorted else ndCheckSorted k gs
def ndCheckShape : Nat → List (List α) → List Nat → Res Unit
  | 0, _, _ => .ok ()
  | _ + 1, [], _ => .panic .index
  | _ + 1, _ :: _, [] => .panic .index
  | k + 1, g :: gs, s :: ss => if g.length ≠ s then .err .shape else ndCheckShape k gs ss

/-- the grid count `InterpND::validate` compares with the dimensionality: 0 when there is no grid or the
first one is empty -/
def ndGridLen (grid : List (List α)) : Nat :=
  match grid with
  | g0 :: _ => if g0.isEmpty then 0 else grid.length
  | [] => 0

/-- `InterpND::validate`: the grid count against the dimensionality first, then the per-dimension loops -/
def validateN (m : ND α) : Res Unit :=
  let n := m.ndim
  if ndGridLen m.grid ≠ n then .err .gridDim
  else
    (ndCheckNonEmpty n m.grid).bind fun _ =>
      (ndCheckSorted n m.grid).bind fun _ =>
        ndCheckShape n m.grid m.shape

/-- what the first loop of `InterpND::linear` decides per dimension -/
inductive Plan (α : Type) where
  | fixed (pos : Nat)                    -- the point coincides with grid line `pos`: `index_axis_inplace`
  | free (g : List α) (p : Option α)     -- interpolate in this dimension

/-- first loop over the `n` dimensions (the code runs it from the last dimension down, which only
matters for which of several identical panics fires): `grid[dim]`, and — only when that axis is not
empty — `point[dim]` -/
def ndPlan : Nat → List (List α) → List α → Res (List (Plan α))
  | 0, _, _ => .ok []
  | _ + 1, [], _ => .panic .index
  | k + 1, g :: gs, pt =>
    (if g.isEmpty then (.ok (.free g none) : Res (Plan α))
     else match pt with
       | [] => .panic .index
       | p :: _ =>
         match position (fun v => eqv v p) g with
         | some pos => .ok (.fixed pos)
         | none => .ok (.free g (some p))).bind fun pl =>
      (ndPlan k gs pt.tail).bind fun r => .ok (pl :: r)

/-- a dimension after the second loop -/
inductive Cell (α : Type) where
  | fixed (pos : Nat)
  | cell (lower : Nat) (diff : α)

/-- second loop: `find_nearest_index` and the fraction for every remaining dimension, in order -/
def ndCells : List (Plan α) → Res (List (Cell α))
  | [] => .ok []
  | .fixed pos :: r => (ndCells r).bind fun cs => .ok (.fixed pos :: cs)
  | .free g p :: r =>
    (match p with
     | none => (.panic .index : Res (Nat × α))
     | some p => cellOf g p).bind fun c =>
      (ndCells r).bind fun cs => .ok (.cell c.1 c.2 :: cs)

/-- `slice_each_axis(lower ..= lower + 1)` panics when the slice leaves the array -/
def ndSliceOk : List (Cell α) → List Nat → Bool
  | [], [] => true
  | .fixed pos :: cs, s :: ss => decide (pos < s) && ndSliceOk cs ss
  | .cell l _ :: cs, s :: ss => decide (l + 1 < s) && ndSliceOk cs ss
  | _, _ => false

/-- the sequential interpolation.  The code collapses the first remaining axis first and the last
one last, so the outermost operation is along the last axis: recursion over the *reversed* cells,
consing indices onto the suffix already fixed. -/
def ndEvalRev (get : List Nat → Res α) : List (Cell α) → List Nat → Res α
  | [], suffix => get suffix
  | .fixed pos :: cs, suffix => ndEvalRev get cs (pos :: suffix)
  | .cell l d :: cs, suffix =>
    (ndEvalRev get cs (l :: suffix)).bind fun a =>
      (ndEvalRev get cs ((l + 1) :: suffix)).bind fun b =>
        .ok (lerp a b d)

/-- `v.is_nan()` -/
def isNan (v : α) : Bool := !(decide (v ≤ v))

/-- the guard of the first interpolation pass: is any of the surrounding values NaN? -/
def ndAnyNaN (get : List Nat → Res α) : List (Cell α) → List Nat → Res Bool
  | [], suffix => (get suffix).bind fun v => .ok (isNan v)
  | .fixed pos :: cs, suffix => ndAnyNaN get cs (pos :: suffix)
  | .cell l _ :: cs, suffix =>
    (ndAnyNaN get cs (l :: suffix)).bind fun a =>
      (ndAnyNaN get cs ((l + 1) :: suffix)).bind fun b => .ok (a || b)

/-- size of the view after `index_axis_inplace` on the coincident dimensions -/
def ndViewLen : List (Plan α) → List Nat → Nat
  | [], _ => 1
  | _, [] => 1
  | .fixed _ :: r, _ :: ss => ndViewLen r ss
  | .free _ _ :: r, s :: ss => s * ndViewLen r ss

/-- index of `values_view.first()` -/
def ndFirstIndex : List (Plan α) → List Nat
  | [] => []
  | .fixed pos :: r => pos :: ndFirstIndex r
  | .free _ _ :: r => 0 :: ndFirstIndex r

/-- `InterpND::linear`.  The loops run over `self.ndim()` dimensions — 0 for a single value, whatever
the array's own dimensionality; `values_view.first()` is then the element at index 0 of every dimension
that was not looked at -/
def linearN (m : ND α) (pt : List α) : Res α :=
  let n := m.ndim
  (ndPlan n m.grid pt).bind fun plan =>
    if ndViewLen plan m.shape = 1 then
      (match m.get (ndFirstIndex plan ++ List.replicate (m.shape.length - plan.length) 0) with
       | .ok v => .ok v
       | _ => .err .extract)
    else
      (ndCells plan).bind fun cells =>
        if !ndSliceOk cells m.shape then .panic .index
        else
          (ndAnyNaN m.get cells.reverse []).bind fun nan =>
            if nan then .err .nan else ndEvalRev m.get cells.reverse []

/-! ### `Interpolator` -/

inductive Strategy where
  | none | linear | leftNearest | rightNearest | nearest
  deriving DecidableEq, Repr, Inhabited

inductive Interpolator (α : Type) where
  | d0 (v : α)
  | d1 (x f : List α)
  | d2 (x y : List α) (f : List (List α))
  | d3 (x y z : List α) (f : List (List (List α)))
  | dn (m : ND α)

def Interpolator.ndim : Interpolator α → Nat
  | .d0 _ => 0
  | .d1 _ _ => 1
  | .d2 _ _ _ => 2
  | .d3 _ _ _ _ => 3
  | .dn m => m.ndim

/-- `interp.x[0] <= p && p <= interp.x.last().unwrap()` -/
def inAxis (g : List α) (p : α) : Res Bool :=
  (idx g 0).bind fun lo =>
    match g.getLast? with
    | none => .panic .index
    | some hi => .ok (decide (lo ≤ p) && decide (p ≤ hi))

/-- the `for i in 0..n` loop of `validate_inputs` for N-D -/
def ndInGrid : Nat → List (List α) → List α → Res Unit
  | 0, _, _ => .ok ()
  | _ + 1, [], _ => .panic .index
  | _ + 1, _ :: _, [] => .panic .index
  | k + 1, g :: gs, p :: ps =>
    (inAxis g p).bind fun b => if !b then .err .outside else ndInGrid k gs ps

/-- `Interpolator::validate_inputs` -/
def Interpolator.validateInputs (it : Interpolator α) (pt : List α) : Res Unit :=
  let n := it.ndim
  if (n = 0 ∧ pt.length ≠ 0) ∨ (n ≠ 0 ∧ pt.length ≠ n) then .err .pointLen
  else
    match it with
    | .d0 _ => .ok ()
    | .d1 x _ =>
      (idx pt 0).bind fun p0 => (inAxis x p0).bind fun b => if !b then .err .outside else .ok ()
    | .d2 x y _ =>
      (idx pt 0).bind fun p0 => (inAxis x p0).bind fun bx =>
        (if !bx then (.ok false : Res Bool) else (idx pt 1).bind fun p1 => inAxis y p1).bind fun b =>
          if !b then .err .outside else .ok ()
    | .d3 x y z _ =>
      (idx pt 0).bind fun p0 => (inAxis x p0).bind fun bx =>
        (if !bx then (.ok false : Res Bool) else (idx pt 1).bind fun p1 => (inAxis y p1).bind fun byy =>
          if !byy then (.ok false : Res Bool) else (idx pt 2).bind fun p2 => inAxis z p2).bind fun b =>
          if !b then .err .outside else .ok ()
    | .dn m => ndInGrid n m.grid pt

/-- `Interpolator::interpolate` -/
def Interpolator.interpolate (it : Interpolator α) (pt : List α) (s : Strategy) : Res α :=
  (it.validateInputs pt).bind fun _ =>
    match it with
    | .d0 v => if s = .none then .ok v else .err .strategy
    | .d1 x f =>
      (match s with
       | .linear => (idx pt 0).bind fun p => linear1 x f p
       | .leftNearest => (idx pt 0).bind fun p => leftNearest1 x f p
       | .rightNearest => (idx pt 0).bind fun p => rightNearest1 x f p
       | .nearest => (idx pt 0).bind fun p => nearest1 x f p
       | .none => .err .strategy)
    | .d2 x y f => if s = .linear then linear2 x y f pt else .err .strategy
    | .d3 x y z f => if s = .linear then linear3 x y z f pt else .err .strategy
    | .dn m => if s = .none ∨ s = .linear then linearN m pt else .err .strategy

/-! ### `InterpolationSpeedGradeModel` -/

/-- `f64::max` / `f64::min` on non-NaN arguments -/
def fmax (a b : α) : α := if a < b then b else a
def fmin (a b : α) : α := if b < a then b else a

structure SpeedGradeModel (α : Type) where
  interp : Interpolator α
  speedUnit : SpeedUnit
  gradeUnit : GradeUnit
  energyRateUnit : EnergyRateUnit

/-- one grid value as `new` computes it from the underlying model's rate `u`:
`PredictionModelRecord::predict` with adjustment `1.0`, no cache, over the unit distance in the
rate's own distance unit -/
def gridValue (ru : EnergyRateUnit) (u : α) : α :=
  (createEnergy (u * (one : α)) ru (one : α) ru.associatedDistanceUnit).1

/-- `InterpolationSpeedGradeModel::new`; `underlying s g` is the underlying model's rate at speed `s`
and grade `g` (both in the model's own units) -/
def SpeedGradeModel.new (underlying : α → α → α) (su : SpeedUnit) (s0 s1 : α) (sb : Nat)
    (gu : GradeUnit) (g0 g1 : α) (gb : Nat) (ru : EnergyRateUnit) : Res (SpeedGradeModel α) :=
  (linspace s0 s1 sb).bind fun xs =>
    (linspace g0 g1 gb).bind fun ys =>
      let f := xs.map fun s => ys.map fun g => gridValue ru (underlying s g)
      (validate2 xs ys f).bind fun _ =>
        .ok { interp := .d2 xs ys f, speedUnit := su, gradeUnit := gu, energyRateUnit := ru }

/-- `InterpolationSpeedGradeModel::new` with its allocations: both axes (`linspace`), then the table of
`speed_bins × grade_bins` rates (`checked_mul`, `try_reserve_exact`), all refused with a `BuildError`
before anything is predicted -/
def SpeedGradeModel.newAlloc (cap : Nat) (underlying : α → α → α) (su : SpeedUnit) (s0 s1 : α) (sb : Nat)
    (gu : GradeUnit) (g0 g1 : α) (gb : Nat) (ru : EnergyRateUnit) : Res (SpeedGradeModel α) :=
  (linspaceAlloc cap s0 s1 sb).bind fun _ =>
    (linspaceAlloc cap g0 g1 gb).bind fun _ =>
      if cap < sb * gb then .err .alloc
      else SpeedGradeModel.new underlying su s0 s1 sb gu g0 g1 gb ru

/-- `InterpolationSpeedGradeModel::predict` -/
def SpeedGradeModel.predict (m : SpeedGradeModel α) (speed : α) (su : SpeedUnit) (grade : α)
    (gu : GradeUnit) : Res (α × EnergyRateUnit) :=
  let sv := su.convert m.speedUnit speed
  let gv := gu.convert m.gradeUnit grade
  match m.interp with
  | .d2 x y f =>
    (match x.head?, x.getLast?, y.head?, y.getLast? with
     | some minS, some maxS, some minG, some maxG =>
       let sv := fmin (fmax sv minS) maxS
       let gv := fmin (fmax gv minG) maxG
       (Interpolator.interpolate (.d2 x y f) [sv, gv] .linear).bind fun v => .ok (v, m.energyRateUnit)
     | _, _, _, _ => .err .emptyAxis)
  | _ => .err .only2D

/-! ### `load_prediction_model`, `SmartcoreSpeedGradeModel`, `PredictionModelRecord`

The random forest itself is the parameter `rf speed grade` (arguments in the model's own units);
`fileOk = false` stands for a model file that cannot be read or deserialised. -/

/-- `ModelType` -/
inductive ModelType (α : Type) where
  | smartcore
  | onnx
  | interpolate (underlying : ModelType α) (s0 s1 : α) (sb : Nat) (g0 g1 : α) (gb : Nat)

/-- `dyn PredictionModel`: `predict((speed, unit), (grade, unit))` -/
abbrev PModel (α : Type) := α → SpeedUnit → α → GradeUnit → Res (α × EnergyRateUnit)

/-- `SmartcoreSpeedGradeModel::predict`: convert to the model's units, evaluate the forest -/
def smartcorePredict (rf : α → α → α) (su : SpeedUnit) (gu : GradeUnit) (ru : EnergyRateUnit) : PModel α :=
  fun speed qsu grade qgu => .ok (rf (qsu.convert su speed) (qgu.convert gu grade), ru)

/-- `f64::MAX` -/
def f64Max : α := Lit.lit (2 ^ 1024 - 2 ^ 971) 1

/-- `find_min_energy_rate`: sweep 20..79 mph at zero percent grade, keep the smallest rate; a failing
prediction is a `BuildError` -/
def findMinEnergyRateFrom (m : PModel α) : List Nat → α → Res α
  | [], acc => .ok acc
  | i :: is, acc =>
    match m (ofNat i) .milesPerHour (zero : α) .percent with
    | .ok (r, _) => findMinEnergyRateFrom m is (if r < acc then r else acc)
    | .err _ => .err .build
    | .panic s => .panic s
    | .diverges => .diverges

def sweepSpeeds : List Nat := (List.range 60).map (· + 20)

def findMinEnergyRate (m : PModel α) : Res α := findMinEnergyRateFrom m sweepSpeeds f64Max

/-- `PredictionModelRecord` (no cache) -/
structure Record (α : Type) where
  model : PModel α
  speedUnit : SpeedUnit
  gradeUnit : GradeUnit
  energyRateUnit : EnergyRateUnit
  idealEnergyRate : α
  realWorldEnergyAdjustment : α

/-- `PredictionModelRecord::predict` without a cache: rate, times the real-world adjustment, times the
distance in the rate's distance unit -/
def Record.predict (r : Record α) (speed : α) (su : SpeedUnit) (grade : α) (gu : GradeUnit)
    (distance : α) (du : DistanceUnit) : Res (α × EnergyUnit) :=
  (r.model speed su grade gu).bind fun p =>
    .ok (createEnergy (p.1 * r.realWorldEnergyAdjustment) r.energyRateUnit distance du)

/-- the grid rows of `InterpolationSpeedGradeModel::new` when the underlying prediction may fail -/
def fillRow (underlying : α → Res α) : List α → Res (List α)
  | [] => .ok []
  | g :: gs => (underlying g).bind fun v => (fillRow underlying gs).bind fun r => .ok (v :: r)
def fillGrid (underlying : α → α → Res α) : List α → List α → Res (List (List α))
  | [], _ => .ok []
  | s :: ss, ys => (fillRow (underlying s) ys).bind fun row => (fillGrid underlying ss ys).bind fun r => .ok (row :: r)

/-- `load_prediction_model` (and, in its `Interpolate` arm, `InterpolationSpeedGradeModel::new`, which
loads the underlying model through `load_prediction_model` again — default ideal rate, adjustment and
cache —, allocates the axes and the table (`cap`, see `linspaceAlloc`) and fills the grid through that
record at the unit distance) -/
def loadPredictionModel (cap : Nat) (rf : α → α → α) (fileOk : Bool) : ModelType α → SpeedUnit → GradeUnit →
    EnergyRateUnit → Option α → Option α → Res (Record α)
  | mt, su, gu, ru, ideal, adj =>
    (match mt with
     | .smartcore => if fileOk then (.ok (smartcorePredict rf su gu ru) : Res (PModel α)) else .err .build
     | .onnx => .err .build
     | .interpolate u s0 s1 sb g0 g1 gb =>
       (loadPredictionModel cap rf fileOk u su gu ru none none).bind fun urec =>
         (linspaceAlloc cap s0 s1 sb).bind fun xs =>
           (linspaceAlloc cap g0 g1 gb).bind fun ys =>
             if cap < sb * gb then .err .alloc
             else
             (fillGrid (fun s g =>
                (urec.predict s su g gu (one : α) ru.associatedDistanceUnit).bind fun e => .ok e.1) xs ys).bind fun f =>
               (validate2 xs ys f).bind fun _ =>
                 let m : SpeedGradeModel α :=
                   { interp := .d2 xs ys f, speedUnit := su, gradeUnit := gu, energyRateUnit := ru }
                 .ok m.predict).bind fun model =>
      (match ideal with
       | some x => (.ok x : Res α)
       | none => findMinEnergyRate model).bind fun idealRate =>
        .ok { model := model, speedUnit := su, gradeUnit := gu, energyRateUnit := ru,
              idealEnergyRate := idealRate,
              realWorldEnergyAdjustment := match adj with | some a => a | none => one }

end

end Interp
end Compass
