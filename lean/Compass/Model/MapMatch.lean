/-
Map matching: the selection logic of the two r-tree input plugins.

* `rust/routee-compass/src/plugin/input/default/vertex_rtree/plugin.rs`
  (`RTreePlugin::process`, `VertexRTree::nearest_vertex`, `validate_tolerance`)
* `rust/routee-compass/src/plugin/input/default/edge_rtree/edge_rtree_input_plugin.rs`
  (`EdgeRtreeInputPlugin::process`, `search`, `within_tolerance`)
* `rust/routee-compass/src/plugin/input/input_json_extensions.rs`
  (`get_origin_coordinate`, `get_destination_coordinate`, `add_origin_vertex`, … )
* `rust/routee-compass/src/app/compass/config/frontier_model/road_class/road_class_parser.rs` (`read_query`)

Not modelled (input data computed by the harness with the real functions): the squared coordinate
distance `distance_2` of every candidate, the great-circle distance of `haversine`, the verdict of the
vehicle restrictions.  `rstar`'s nearest-neighbour iteration is represented by the *order* of the
candidate list; that it is non-decreasing in `d2` is a hypothesis of the theorems (`Sorted`) and is
checked by the harness on every case.
-/
import Compass.Model.Units
import Compass.Model.Json

namespace Compass
namespace MapMatch

/-- `InputField` (the members these plugins touch) -/
inductive Field where
  | originX | originY | destinationX | destinationY
  | originVertex | destinationVertex | originEdge | destinationEdge
  | gridSearch | queryWeightEstimate
  deriving DecidableEq, Repr, Inhabited

/-- `InputField::to_str` -/
def Field.name : Field → String
  | .originX => "origin_x"
  | .originY => "origin_y"
  | .destinationX => "destination_x"
  | .destinationY => "destination_y"
  | .originVertex => "origin_vertex"
  | .destinationVertex => "destination_vertex"
  | .originEdge => "origin_edge"
  | .destinationEdge => "destination_edge"
  | .gridSearch => "grid_search"
  | .queryWeightEstimate => "query_weight_estimate"

/-- error kinds; the last six are all `InputPluginError::InputPluginFailed(message)` in the code -/
inductive Err where
  /-- `MissingExpectedQueryField` -/
  | missingField (f : Field)
  /-- `MissingQueryFieldPair(present, absent)` -/
  | missingPair (present absent : Field)
  /-- `QueryFieldHasInvalidType` -/
  | invalidType (f : Field)
  /-- `UnexpectedQueryStructure` -/
  | notObject
  /-- the r-tree is empty: "nearest vertex not found" -/
  | noCandidate
  /-- `validate_tolerance`: distance > tolerance -/
  | beyondTolerance
  /-- `haversine` refuses a coordinate outside [-180,180] × [-90,90] -/
  | distanceRange
  /-- `RoadClassParser::read_query` cannot read `road_classes` -/
  | roadClassParse
  /-- "edge rtree road class file missing edge" -/
  | roadClassMissing
  /-- `search` returned `None`: "unable to match coordinate … to network edge" -/
  | noEdgeMatch
  deriving DecidableEq, Repr, Inhabited

/-- what `process` leaves behind: the `Result` and the query as mutated in place -/
structure Outcome where
  err : Option Err
  query : Json
  deriving Repr, Inhabited

/-- `serde_json::Value::from(id: usize)` -/
def idJson (n : Nat) : Json := .num (toString n) (Float.ofNat n).toBits.toNat

/-- a field that must hold a number (`get(..)` then `as_f64()`; the value itself is not needed here) -/
def numField (q : Json) (f : Field) : Except Err Unit :=
  match q.get? f.name with
  | none => .error (.missingField f)
  | some v => if v.isNumber then .ok () else .error (.invalidType f)

/-- `get_origin_coordinate` -/
def originCoordinate (q : Json) : Except Err Unit :=
  match numField q .originX with
  | .error e => .error e
  | .ok _ => numField q .originY

/-- `get_destination_coordinate`: `ok false` = no destination, `ok true` = a destination coordinate -/
def destinationCoordinate (q : Json) : Except Err Bool :=
  match q.get? Field.destinationX.name, q.get? Field.destinationY.name with
  | none, none => .ok false
  | none, some _ => .error (.missingPair .destinationY .destinationX)
  | some _, none => .error (.missingPair .destinationX .destinationY)
  | some x, some y =>
    if !x.isNumber then .error (.invalidType .destinationX)
    else if !y.isNumber then .error (.invalidType .destinationY)
    else .ok true

/-- `add_origin_vertex` / `add_destination_vertex` / `add_origin_edge` / `add_destination_edge` -/
def addField (q : Json) (f : Field) (id : Nat) : Except Err Json :=
  match q with
  | .obj kvs => .ok (.obj (Json.insertKv kvs f.name (idJson id)))
  | _ => .error .notObject

/-! ### vertex matcher -/

/-- a vertex as the matcher sees it from one query coordinate -/
structure VCand (α : Type) where
  id : Nat
  /-- `RTreeVertex::distance_2`: squared difference in coordinate (degree) space -/
  d2 : α
  /-- `haversine::coord_distance_meters`; `none` when it refuses the coordinate -/
  gc : Option α
  deriving Repr, Inhabited

section
variable {α : Type} [Mul α] [Div α] [Lit α] [LE α] [DecidableLE α]

/-- `validate_tolerance`: the distance is converted INTO the tolerance's unit; an error when it is `>` the tolerance -/
def validateTolerance (tol : Option (α × DistanceUnit)) (c : VCand α) : Except Err Unit :=
  match tol with
  | none => .ok ()
  | some (t, u) =>
    match c.gc with
    | none => .error .distanceRange
    | some g => if DistanceUnit.meters.convert u g ≤ t then .ok () else .error .beyondTolerance

/-- `VertexRTree::nearest_vertex`: the head of the nearest-first candidate list -/
def nearestVertex (cands : List (VCand α)) : Option (VCand α) := cands.head?

/-- nearest vertex, tolerance, write the id -/
def matchVertexInto (tol : Option (α × DistanceUnit)) (q : Json) (f : Field) (cands : List (VCand α)) :
    Except Err Json :=
  match nearestVertex cands with
  | none => .error .noCandidate
  | some c =>
    match validateTolerance tol c with
    | .error e => .error e
    | .ok _ => addField q f c.id

/-- `RTreePlugin::process`.  `oc` / `dc`: all vertices, nearest first, seen from the origin / destination.
The origin's id is written before the destination is looked at, so an error on the destination leaves
`origin_vertex` behind in the mutated query. -/
def vertexProcess (tol : Option (α × DistanceUnit)) (q : Json) (oc dc : List (VCand α)) : Outcome :=
  match originCoordinate q with
  | .error e => ⟨some e, q⟩
  | .ok _ =>
    match destinationCoordinate q with
    | .error e => ⟨some e, q⟩
    | .ok hasDst =>
      match matchVertexInto tol q .originVertex oc with
      | .error e => ⟨some e, q⟩
      | .ok q1 =>
        if hasDst then
          match matchVertexInto tol q1 .destinationVertex dc with
          | .error e => ⟨some e, q1⟩
          | .ok q2 => ⟨none, q2⟩
        else ⟨none, q1⟩

/-- an exhaustive scan keeping the first strictly smaller `d2` (the oracle's arg-min) -/
def scanMin : List (VCand α) → Option (VCand α)
  | [] => none
  | c :: rest =>
    match scanMin rest with
    | none => some c
    | some m => if c.d2 ≤ m.d2 then some c else some m

end

/-! ### edge matcher -/

/-- an edge as the matcher sees it from one query coordinate -/
structure ECand (α : Type) where
  id : Nat
  /-- `EdgeRtreeRecord::distance_2`: squared coordinate-space distance to the centroid -/
  d2 : α
  /-- `road_class_lookup.get(edge_id)` (only read when a lookup is loaded) -/
  cls : Option Nat
  /-- every `VehicleRestriction` of the edge is `valid` for the query's vehicle (true when either is absent) -/
  vehOk : Bool
  /-- great-circle metres from the query coordinate to the centroid (real `haversine`, `none` when it
  refuses the coordinate or the linestring is empty); read by `within_tolerance` -/
  gc : Option α
  deriving Repr, Inhabited

/-- `u8` out of a JSON number -/
def u8Of (j : Json) : Option Nat :=
  match j.asU64? with
  | some n => if n ≤ 255 then some n else none
  | none => none

def allSome {β : Type} : List (Option β) → Option (List β)
  | [] => some []
  | none :: _ => none
  | some b :: r => match allSome r with | some l => some (b :: l) | none => none

/-- `serde_json::from_value::<HashSet<u8>>` -/
def parseU8Set (v : Json) : Option (List Nat) :=
  match v with
  | .arr xs => allSome (xs.map u8Of)
  | _ => none

/-- `serde_json::from_value::<HashSet<String>>` followed by the mapping lookup -/
def parseNamedSet (mapping : List (String × Nat)) (v : Json) : Option (List Nat) :=
  match v with
  | .arr xs =>
    match allSome (xs.map Json.asStr?) with
    | none => none
    | some ss => allSome (ss.map fun s => (mapping.find? fun p => p.1 == s).map (·.2))
  | _ => none

/-- `RoadClassParser::read_query` -/
def readRoadClasses (mapping : List (String × Nat)) (q : Json) : Except Err (Option (List Nat)) :=
  match q.get? "road_classes" with
  | none => .ok none
  | some v =>
    match parseU8Set v with
    | some cs => .ok (some cs)
    | none =>
      if mapping.isEmpty then .error .roadClassParse
      else
        match parseNamedSet mapping v with
        | some cs => .ok (some cs)
        | none => .error .roadClassParse

section
variable {α : Type} [Mul α] [Div α] [Lit α] [LE α] [DecidableLE α]

/-- `within_tolerance`: the great-circle distance from the coordinate to the edge's centroid, converted
INTO the tolerance's unit, compared with `<=`; an error when `haversine` refuses the coordinate -/
def withinTolerance (tol : Option (α × DistanceUnit)) (c : ECand α) : Except Err Bool :=
  match tol with
  | none => .ok true
  | some (t, u) =>
    match c.gc with
    | none => .error .distanceRange
    | some g => .ok (decide (DistanceUnit.meters.convert u g ≤ t))

/-- the road-class part of `search` -/
def validClass (classes : Option (List Nat)) (hasLookup : Bool) (c : ECand α) : Except Err Bool :=
  match classes, hasLookup with
  | some cs, true =>
    match c.cls with
    | none => .error .roadClassMissing
    | some k => .ok (cs.contains k)
  | _, _ => .ok true

/-- `search`: nearest first; the first candidate that passes both filters is the nearest admissible edge:
it is the match if it lies within the tolerance, otherwise there is no match -/
def searchEdge (tol : Option (α × DistanceUnit)) (classes : Option (List Nat)) (hasLookup : Bool) :
    List (ECand α) → Except Err (Option Nat)
  | [] => .ok none
  | c :: rest =>
    match validClass classes hasLookup c with
    | .error e => .error e
    | .ok vc =>
      if vc && c.vehOk then
        match withinTolerance tol c with
        | .error e => .error e
        | .ok w => if w then .ok (some c.id) else .ok none
      else searchEdge tol classes hasLookup rest

/-- `search(..)?.ok_or_else(matching_error)` -/
def searchEdge! (tol : Option (α × DistanceUnit)) (classes : Option (List Nat)) (hasLookup : Bool)
    (cands : List (ECand α)) : Except Err Nat :=
  match searchEdge tol classes hasLookup cands with
  | .error e => .error e
  | .ok none => .error .noEdgeMatch
  | .ok (some id) => .ok id

/-- `EdgeRtreeInputPlugin::process`: both searches come first, then the writes -/
def edgeProcess (tol : Option (α × DistanceUnit)) (mapping : List (String × Nat)) (hasLookup : Bool)
    (q : Json) (oc dc : List (ECand α)) : Outcome :=
  match readRoadClasses mapping q with
  | .error e => ⟨some e, q⟩
  | .ok classes =>
    match originCoordinate q with
    | .error e => ⟨some e, q⟩
    | .ok _ =>
      match destinationCoordinate q with
      | .error e => ⟨some e, q⟩
      | .ok hasDst =>
        match searchEdge! tol classes hasLookup oc with
        | .error e => ⟨some e, q⟩
        | .ok eo =>
          if hasDst then
            match searchEdge! tol classes hasLookup dc with
            | .error e => ⟨some e, q⟩
            | .ok ed =>
              match addField q .originEdge eo with
              | .error e => ⟨some e, q⟩
              | .ok q1 =>
                match addField q1 .destinationEdge ed with
                | .error e => ⟨some e, q1⟩
                | .ok q2 => ⟨none, q2⟩
          else
            match addField q .originEdge eo with
            | .error e => ⟨some e, q⟩
            | .ok q1 => ⟨none, q1⟩

end

end MapMatch
end Compass
