/-
A minimal model of `serde_json::Value` as routee-compass uses it (workspace feature `preserve_order`:
objects are insertion-ordered `IndexMap`s).  Numbers are kept as the lexeme `serde_json` prints plus
the `f64` value's bit pattern; they are never re-computed.  No imports.
-/
namespace Compass

inductive Json where
  | null
  | bool (b : Bool)
  /-- `lexeme`: `Number::to_string()`; `bits`: `as_f64().to_bits()` -/
  | num (lexeme : String) (bits : Nat)
  | str (s : String)
  | arr (xs : List Json)
  /-- insertion ordered, keys unique -/
  | obj (kvs : List (String × Json))
  deriving Inhabited, Repr

namespace Json

def isObject : Json → Bool | .obj _ => true | _ => false
def isArray : Json → Bool | .arr _ => true | _ => false
def isNull : Json → Bool | .null => true | _ => false
def isNumber : Json → Bool | .num _ _ => true | _ => false
def isString : Json → Bool | .str _ => true | _ => false

def asArray? : Json → Option (List Json) | .arr xs => some xs | _ => none
def asObject? : Json → Option (List (String × Json)) | .obj kvs => some kvs | _ => none
def asStr? : Json → Option String | .str s => some s | _ => none
def asBool? : Json → Option Bool | .bool b => some b | _ => none
/-- `as_f64`: every number has one -/
def asF64Bits? : Json → Option Nat | .num _ b => some b | _ => none

def allDigits (s : String) : Bool := !s.isEmpty && s.toList.all Char.isDigit

/-- `as_u64`: only non-negative integer lexemes (no sign, point or exponent) below 2^64 -/
def asU64? : Json → Option Nat
  | .num l _ => if allDigits l then (match l.toNat? with | some n => if n < 2^64 then some n else none | none => none) else none
  | _ => none

/-- `as_i64`: integer lexemes within the i64 range -/
def asI64? : Json → Option Int
  | .num l _ =>
    if allDigits l then (match l.toNat? with | some n => if n < 2^63 then some (n : Int) else none | none => none)
    else if l.startsWith "-" && allDigits (l.drop 1).toString then
      (match (l.drop 1).toString.toNat? with | some n => if n ≤ 2^63 then some (-(n : Int)) else none | none => none)
    else none
  | _ => none

/-- association-list lookup (`Map::get`) -/
def lookup (kvs : List (String × Json)) (k : String) : Option Json :=
  match kvs.find? (fun p => p.1 == k) with
  | some p => some p.2
  | none => none

/-- `Value::get(&str)`: `None` unless an object holding the key -/
def get? (j : Json) (k : String) : Option Json :=
  match j with
  | .obj kvs => lookup kvs k
  | _ => none

/-- `Value::get(usize)` -/
def getIdx? (j : Json) (i : Nat) : Option Json :=
  match j with
  | .arr xs => xs[i]?
  | _ => none

/-- `Map::insert` of an `IndexMap`: an existing key keeps its position, a new key goes last -/
def insertKv (kvs : List (String × Json)) (k : String) (v : Json) : List (String × Json) :=
  if kvs.any (fun p => p.1 == k) then kvs.map (fun p => if p.1 == k then (k, v) else p)
  else kvs ++ [(k, v)]

/-- `Map::remove` under `preserve_order` is `swap_remove`: the last entry takes the removed slot -/
def swapRemoveKv (kvs : List (String × Json)) (k : String) : List (String × Json) :=
  match kvs.findIdx? (fun p => p.1 == k) with
  | none => kvs
  | some i =>
    match kvs.getLast? with
    | none => kvs
    | some last =>
      if i + 1 == kvs.length then kvs.dropLast
      else (kvs.dropLast).set i last

/-- `Map::shift_remove` (order preserving) -/
def shiftRemoveKv (kvs : List (String × Json)) (k : String) : List (String × Json) :=
  kvs.filter (fun p => !(p.1 == k))

/-- outcome of `value[key] = v` (`IndexMut<&str>`): objects insert, `null` becomes a one-entry object,
anything else panics in `serde_json` -/
def indexAssign (j : Json) (k : String) (v : Json) : Option Json :=
  match j with
  | .obj kvs => some (.obj (insertKv kvs k v))
  | .null => some (.obj [(k, v)])
  | _ => none

def hexDigit (n : Nat) : Char := "0123456789abcdef".toList.getD n '0'

/-- `serde_json` string escaping (compact formatter) -/
def escapeChar (c : Char) : String :=
  if c == '"' then "\\\"" else if c == '\\' then "\\\\"
  else if c == '\n' then "\\n" else if c == '\r' then "\\r" else if c == '\t' then "\\t"
  else if c.toNat == 8 then "\\b" else if c.toNat == 12 then "\\f"
  else if c.toNat < 32 then "\\u00" ++ String.ofList [hexDigit (c.toNat / 16), hexDigit (c.toNat % 16)]
  else String.ofList [c]

def escapeStr (s : String) : String :=
  "\"" ++ String.join (s.toList.map escapeChar) ++ "\""

mutual
/-- `serde_json::to_string` (compact) -/
def toCompact : Json → String
  | .null => "null"
  | .bool true => "true"
  | .bool false => "false"
  | .num l _ => l
  | .str s => escapeStr s
  | .arr xs => "[" ++ ",".intercalate (toCompactList xs) ++ "]"
  | .obj kvs => "{" ++ ",".intercalate (toCompactKvs kvs) ++ "}"
def toCompactList : List Json → List String
  | [] => []
  | x :: xs => toCompact x :: toCompactList xs
def toCompactKvs : List (String × Json) → List String
  | [] => []
  | (k, v) :: r => (escapeStr k ++ ":" ++ toCompact v) :: toCompactKvs r
end

/-- substring test (`str::contains`) -/
def strContains (s pat : String) : Bool :=
  let p := pat.toList
  let rec go : List Char → Nat → Bool
    | _, 0 => false
    | cs, fuel + 1 => if p.isPrefixOf cs then true else match cs with | [] => false | _ :: r => go r fuel
  go s.toList (s.length + 1)

end Json
end Compass
