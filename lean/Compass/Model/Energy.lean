/-
Vehicle energy and battery state (C08).

Models, in the code's operation order,
* `routee-compass-powertrain/src/routee/energy_traversal_model.rs` (`traverse_edge`: the wrapped
  time model runs first, the speed handed to the predictor is reconstructed as
  `edge length in the speed unit's distance unit / time delta in the speed unit's time unit`),
* `energy_model_ops.rs` (`get_grade`), `prediction/prediction_model_record.rs` (`predict`: cache,
  real-world adjustment, `Energy::create`), the unit conversion a `PredictionModel` implementation
  performs on its inputs (`smartcore_speed_grade_model.rs`; the regression itself is the parameter
  `rate`), `util/cache_policy/float_cache_policy.rs` (rounded keys, LRU),
* `vehicle/default/{ice,bev,phev}.rs` (`consume_energy`, `best_case_energy(_state)`,
  `update_from_query`, `state_features`), `vehicle/vehicle_ops.rs`,
* `routee-compass-core/src/model/traversal/default/speed_traversal_model.rs` (`traverse_edge`).

No imports beyond other Model files (links into the driver).
-/
import Compass.Model.Units

namespace Compass
namespace Energy

/-- the error results that can arise (`Err(TraversalModelError::…)`), by site -/
inductive Err where
  /-- `get_speed`: edge id not in the speed table -/
  | speedTable
  /-- `get_grade`: edge id not in the grade table -/
  | gradeTable
  /-- `Time::create` rejected a non-positive speed or distance -/
  | timeCreate
  /-- `update_from_query`: `BuildError` (missing / non-numeric / out-of-range starting charge); also
  the build errors of the configuration layer (speed table, unknown `model_name`) -/
  | build
  /-- `PredictionModelRecord::predict`: the cache policy rejected the key (`CacheFailure`): its
  `key_precisions` does not have one entry per model input -/
  | cache
  /-- `estimate_traversal`: the haversine code rejected a coordinate -/
  | haversine
  /-- `get_headings`: edge id not in the headings table -/
  | headingTable
  deriving DecidableEq, Repr, Inhabited

def Err.name : Err → String
  | .speedTable => "speed_table"
  | .gradeTable => "grade_table"
  | .timeCreate => "time_create"
  | .build => "build"
  | .cache => "cache"
  | .haversine => "haversine"
  | .headingTable => "heading_table"

/-! ## Minimal state layer

The state variables the vehicle models and the time model touch, each stored in the unit of its
state feature.  `get` = convert(feature unit → caller unit); `add` = stored value + convert(caller
unit → feature unit)(amount) (`StateModel::{get_time, add_time, get_distance, add_distance,
get_energy, add_energy}` as of /repo commit 7251c8c);
`battery_state` is a custom floating-point feature (stored as is).  Self-contained on purpose; to be
replaced by the shared `StateModel` model (C11) — only this section would change.
-/

/-- unit of each state feature (`StateFeature::{Time, Distance, Energy}`) -/
structure FeatureUnits where
  time : TimeUnit
  distance : DistanceUnit
  liquid : EnergyUnit
  electric : EnergyUnit
  deriving DecidableEq, Repr

/-- the state vector restricted to the features in scope, each in its feature unit -/
structure VState (α : Type) where
  time : α
  distance : α
  liquid : α
  electric : α
  soc : α
  deriving Repr

section State
variable {α : Type} [Add α] [Mul α] [Div α] [Lit α]

def getTime (fu : FeatureUnits) (s : VState α) (u : TimeUnit) : α := fu.time.convert u s.time
def getDistance (fu : FeatureUnits) (s : VState α) (u : DistanceUnit) : α := fu.distance.convert u s.distance
def getLiquid (fu : FeatureUnits) (s : VState α) (u : EnergyUnit) : α := fu.liquid.convert u s.liquid
def getElectric (fu : FeatureUnits) (s : VState α) (u : EnergyUnit) : α := fu.electric.convert u s.electric

/-- `StateModel::add_time`: the amount is converted to the feature's unit and added to the stored value -/
def addTime (fu : FeatureUnits) (s : VState α) (t : α) (u : TimeUnit) : VState α :=
  let delta := u.convert fu.time t
  { s with time := s.time + delta }

/-- `StateModel::add_distance` -/
def addDistance (fu : FeatureUnits) (s : VState α) (d : α) (u : DistanceUnit) : VState α :=
  let delta := u.convert fu.distance d
  { s with distance := s.distance + delta }

/-- `StateModel::add_energy` on `energy_liquid` -/
def addLiquid (fu : FeatureUnits) (s : VState α) (e : α) (u : EnergyUnit) : VState α :=
  let delta := u.convert fu.liquid e
  { s with liquid := s.liquid + delta }

/-- `StateModel::add_energy` on `energy_electric` -/
def addElectric (fu : FeatureUnits) (s : VState α) (e : α) (u : EnergyUnit) : VState α :=
  let delta := u.convert fu.electric e
  { s with electric := s.electric + delta }

end State

/-- a row of a number file after `str::parse::<f64>`: a number, or a value the reader treats
specially (NaN; for grades also the infinities) -/
inductive Row (α : Type) where
  | val (x : α)
  | nan

def Row.isNan {α : Type} : Row α → Bool
  | .nan => true
  | .val _ => false

def Row.val? {α : Type} : Row α → Option α
  | .nan => none
  | .val x => some x

/-- `Speed::from_str` refuses the row: NaN or negative -/
def Row.badSpeed {α : Type} [LT α] [DecidableLT α] [Lit α] : Row α → Bool
  | .nan => true
  | .val x => decide (x < (zero : α))

/-! ## Time model: `SpeedTraversalModel` over a speed table -/

/-- `SpeedTraversalEngine` -/
structure SpeedEngine (α : Type) where
  speedTable : List α
  speedUnit : SpeedUnit
  distanceUnit : DistanceUnit
  timeUnit : TimeUnit

/-- `Edge`: id and length in `BASE_DISTANCE_UNIT` -/
structure Edge (α : Type) where
  id : Nat
  distance : α

section TimeModel
variable {α : Type} [Add α] [Mul α] [Div α] [LE α] [DecidableLE α] [Lit α]

/-- `SpeedTraversalModel::traverse_edge` -/
def SpeedEngine.traverse (e : SpeedEngine α) (fu : FeatureUnits) (edge : Edge α) (s : VState α) :
    Except Err (VState α) :=
  let distance := baseDistanceUnit.convert e.distanceUnit edge.distance
  match e.speedTable[edge.id]? with
  | none => .error .speedTable
  | some speed =>
    match createTime speed e.speedUnit distance e.distanceUnit e.timeUnit with
    | none => .error .timeCreate
    | some t =>
      let s1 := addTime fu s t e.timeUnit
      .ok (addDistance fu s1 distance e.distanceUnit)

/-- `x == 0` on a value that is not NaN, written with the order only -/
def isZero [LT α] [DecidableLT α] (x : α) : Bool := !(decide (x < (zero : α)) || decide ((zero : α) < x))

/-- `speed_traversal_engine::get_max_speed`: `Err(BuildError)` on an empty table or a zero maximum -/
def getMaxSpeed [LT α] [DecidableLT α] (tbl : List α) : Except Err α :=
  let m := tbl.foldl (fun acc row => if row < acc then acc else row) (zero : α)
  if tbl.length = 0 then .error .build
  else if isZero m then .error .build
  else .ok m

/-- `SpeedTraversalModel::estimate_traversal`; `hm` is the great-circle distance in metres (the
haversine formula itself is not modelled: its value is an input) -/
def SpeedEngine.estimate [LT α] [DecidableLT α] (e : SpeedEngine α) (maxSpeed : α) (fu : FeatureUnits)
    (hm : α) (s : VState α) : Except Err (VState α) :=
  let distance := DistanceUnit.meters.convert e.distanceUnit hm
  if isZero distance then .ok s
  else
    match createTime maxSpeed e.speedUnit distance e.distanceUnit e.timeUnit with
    | none => .error .timeCreate
    | some t =>
      let s1 := addTime fu s t e.timeUnit
      .ok (addDistance fu s1 distance e.distanceUnit)

/-- reading the speed table file: `Speed::from_str` rejects a negative value and NaN (an infinite
speed is accepted), which fails the build -/
def loadSpeedTable [LT α] [DecidableLT α] (rows : List (Row α)) : Except Err (List α) :=
  if rows.any Row.badSpeed then .error .build else .ok (rows.filterMap Row.val?)

/-- reading the grade table file: `Grade::from_str` rejects a row that is not a finite number (here
`.nan` stands for NaN and the infinities); no file, no table -/
def loadGradeTable (rows : Option (List (Row α))) : Except Err (Option (List α)) :=
  match rows with
  | none => .ok none
  | some rs =>
    if rs.any Row.isNan then .error .build else .ok (some (rs.filterMap Row.val?))

/-- `SpeedLookupBuilder::build` / `SpeedTraversalEngine::new`: the table is read, the maximum speed
found, and absent `distance_unit` / `time_unit` default to the base units.  Returns the engine and
its `max_speed`.  (`get_max_speed` never sees NaN here: the reader has refused it.) -/
def SpeedEngine.ofConfig [LT α] [DecidableLT α] (rows : List (Row α)) (su : SpeedUnit)
    (du : Option DistanceUnit) (tu : Option TimeUnit) : Except Err (SpeedEngine α × α) :=
  match loadSpeedTable rows with
  | .error e => .error e
  | .ok tbl =>
    match getMaxSpeed tbl with
    | .error e => .error e
    | .ok m =>
      .ok ({ speedTable := tbl, speedUnit := su, distanceUnit := du.getD baseDistanceUnit,
             timeUnit := tu.getD baseTimeUnit }, m)

end TimeModel

/-! ## Prediction model record and the float cache -/

/-- `PredictionModelRecord` with the regression abstracted: `rate speed grade` takes its arguments
in `speedUnit` / `gradeUnit` and returns an energy rate in `rateUnit` -/
structure PredRecord (α : Type) where
  rate : α → α → α
  speedUnit : SpeedUnit
  gradeUnit : GradeUnit
  rateUnit : EnergyRateUnit
  idealRate : α
  adjustment : α

/-- `FloatCachePolicy`: an LRU map (most recently used first) from rounded keys to rates.
`keyOf speed grade` is `float_key_to_int_key(&[speed, grade])`; it sees the caller's raw numbers
(no units). -/
structure Cache (K α : Type) where
  capacity : Nat
  keyOf : α → α → K
  entries : List (K × α)
  /-- the policy has one `key_precisions` entry per input of the prediction model (speed, grade);
  `FloatCachePolicy::get` / `update` reject a key of any other length -/
  arityOk : Bool := true

section Cache
variable {K α : Type} [DecidableEq K]

def Cache.find (k : K) : List (K × α) → Option α
  | [] => none
  | (k', v) :: r => if k' = k then some v else Cache.find k r

def Cache.remove (k : K) : List (K × α) → List (K × α)
  | [] => []
  | (k', v) :: r => if k' = k then r else (k', v) :: Cache.remove k r

/-- `LruCache::get`: a hit becomes the most recently used entry -/
def Cache.get (c : Cache K α) (k : K) : Option (α × Cache K α) :=
  match Cache.find k c.entries with
  | none => none
  | some v => some (v, { c with entries := (k, v) :: Cache.remove k c.entries })

/-- `LruCache::put`: insert as most recently used; evict the least recently used beyond capacity -/
def Cache.put (c : Cache K α) (k : K) (v : α) : Cache K α :=
  { c with entries := ((k, v) :: Cache.remove k c.entries).take c.capacity }

end Cache

section Predict
variable {K α : Type} [DecidableEq K] [Mul α] [Div α] [Lit α]

/-- what a `PredictionModel` implementation does with its arguments: convert them to the model's
own units, then evaluate the regression -/
def PredRecord.rateOf (r : PredRecord α) (speed : α) (su : SpeedUnit) (grade : α) (gu : GradeUnit) : α :=
  r.rate (su.convert r.speedUnit speed) (gu.convert r.gradeUnit grade)

/-- the rate `PredictionModelRecord::predict` uses: the cached value under the rounded key when
there is one, else the model's prediction (which is then cached) -/
def PredRecord.lookupRate (r : PredRecord α) (c : Option (Cache K α))
    (speed : α) (su : SpeedUnit) (grade : α) (gu : GradeUnit) : α × Option (Cache K α) :=
  match c with
  | none => (r.rateOf speed su grade gu, none)
  | some c =>
    let k := c.keyOf speed grade
    match c.get k with
    | some (v, c') => (v, some c')
    | none =>
      let v := r.rateOf speed su grade gu
      (v, some (c.put k v))

/-- real-world adjustment, then `Energy::create` -/
def PredRecord.energyOfRate (r : PredRecord α) (rate : α) (distance : α) (du : DistanceUnit) : α × EnergyUnit :=
  createEnergy (rate * r.adjustment) r.rateUnit distance du

/-- `PredictionModelRecord::predict` -/
def PredRecord.predict (r : PredRecord α) (c : Option (Cache K α))
    (speed : α) (su : SpeedUnit) (grade : α) (gu : GradeUnit) (distance : α) (du : DistanceUnit) :
    (α × EnergyUnit) × Option (Cache K α) :=
  let (rate, c') := r.lookupRate c speed su grade gu
  (r.energyOfRate rate distance du, c')

end Predict

/-! ## `vehicle_ops` -/

section Ops
variable {α : Type} [Sub α] [Mul α] [Div α] [LT α] [DecidableLT α] [Lit α]

def hundred : α := Lit.lit 100 1

/-- `f64::clamp(min, max)` -/
def clamp (x lo hi : α) : α := if x < lo then lo else if hi < x then hi else x

/-- `vehicle_ops::as_soc_percent` -/
def asSocPercent (remaining max : α) : α :=
  clamp ((remaining / max) * hundred) zero hundred

/-- `vehicle_ops::soc_from_battery_and_delta` -/
def socFromBatteryAndDelta (startBattery energyUsed maxBattery : α) : α :=
  let current := startBattery - energyUsed
  clamp ((current / maxBattery) * hundred) zero hundred

/-- `vehicle_ops::update_soc_percent` -/
def updateSocPercent (s : VState α) (delta max : α) : VState α :=
  let startSoc := s.soc
  let startBattery := max * (startSoc / hundred)
  { s with soc := socFromBatteryAndDelta startBattery delta max }

end Ops

/-! ## Vehicles -/

structure Battery (α : Type) where
  capacity : α
  startEnergy : α
  unit : EnergyUnit

/-- `ICE`, `BEV`, `PHEV` -/
inductive Vehicle (α : Type) where
  | ice (rec : PredRecord α)
  | bev (rec : PredRecord α) (b : Battery α)
  | phev (sustain deplete : PredRecord α) (b : Battery α)

/-- the caches of the vehicle's prediction model records: `main` belongs to the ICE / BEV record or
the PHEV's charge-depleting record, `sustain` to the PHEV's charge-sustaining record -/
structure Caches (K α : Type) where
  main : Option (Cache K α)
  sustain : Option (Cache K α)

/-- the value of `starting_soc_percent` in the query -/
inductive SocQuery (α : Type) where
  | absent
  | nonNumeric
  | num (x : α)

section Vehicles
variable {K α : Type} [DecidableEq K]
variable [Add α] [Sub α] [Mul α] [Div α] [LT α] [LE α] [DecidableLT α] [DecidableLE α] [Lit α]

/-- units the vehicle's own `state_features()` declare (time / distance from the time model) -/
def Vehicle.featureUnits (v : Vehicle α) (timeU : TimeUnit) (distU : DistanceUnit) : FeatureUnits :=
  match v with
  | .ice r =>
    { time := timeU, distance := distU, liquid := r.rateUnit.associatedEnergyUnit, electric := r.rateUnit.associatedEnergyUnit }
  | .bev _ b =>
    { time := timeU, distance := distU, liquid := b.unit, electric := b.unit }
  | .phev sus _ b =>
    { time := timeU, distance := distU, liquid := sus.rateUnit.associatedEnergyUnit, electric := b.unit }

/-- `StateModel::initial_state` over the vehicle's `state_features()`: accumulators at zero, the
charge at `as_soc_percent(starting_battery_energy, battery_capacity)` -/
def Vehicle.initialState (v : Vehicle α) : VState α :=
  let soc : α := match v with
    | .ice _ => zero
    | .bev _ b => asSocPercent b.startEnergy b.capacity
    | .phev _ _ b => asSocPercent b.startEnergy b.capacity
  { time := zero, distance := zero, liquid := zero, electric := zero, soc := soc }

/-- `search_app_ops::collect_features` lets the query's `state_features` replace a state feature of
the same type, including the initial value of `battery_state`; `StateModel::initial_state` then
starts from that value (no range check on this path) -/
def Vehicle.initialStateWith (v : Vehicle α) (socOverride : Option α) : VState α :=
  match socOverride with
  | none => v.initialState
  | some y => { v.initialState with soc := y }

/-- the range check and start energy shared by `BEV::update_from_query` and `PHEV::update_from_query` -/
def Battery.withStartSoc (b : Battery α) (soc : α) : Except Err (Battery α) :=
  if (zero : α) ≤ soc ∧ soc ≤ (hundred : α) then
    .ok { b with startEnergy := Lit.lit 1 100 * soc * b.capacity }
  else .error .build

/-- `VehicleType::update_from_query` -/
def Vehicle.updateFromQuery (v : Vehicle α) (q : SocQuery α) : Except Err (Vehicle α) :=
  match v with
  | .ice r => .ok (.ice r)
  | .bev r b =>
    match q with
    | .nonNumeric => .error .build
    | .absent =>
      match b.withStartSoc hundred with
      | .ok b' => .ok (.bev r b')
      | .error e => .error e
    | .num x =>
      match b.withStartSoc x with
      | .ok b' => .ok (.bev r b')
      | .error e => .error e
  | .phev s d b =>
    match q with
    | .nonNumeric => .error .build
    | .absent => .error .build
    | .num x =>
      match b.withStartSoc x with
      | .ok b' => .ok (.phev s d b')
      | .error e => .error e

/-- `ICE::consume_energy` after the prediction -/
def iceApply (r : PredRecord α) (fu : FeatureUnits) (s : VState α) (e : α × EnergyUnit) : VState α :=
  addLiquid fu s e.1 r.rateUnit.associatedEnergyUnit

/-- `BEV::consume_energy` after the prediction -/
def bevApply (b : Battery α) (fu : FeatureUnits) (s : VState α) (e : α × EnergyUnit) : VState α :=
  let batteryDelta := e.2.convert b.unit e.1
  let s1 := addElectric fu s e.1 e.2
  updateSocPercent s1 batteryDelta b.capacity

/-- `PHEV::consume_energy` after `get_phev_energy` returned (electric, its unit, liquid, its unit) -/
def phevApply (b : Battery α) (fu : FeatureUnits) (s : VState α)
    (elec : α) (elecU : EnergyUnit) (liq : α) (liqU : EnergyUnit) : VState α :=
  let s1 := addElectric fu s elec elecU
  let s2 := addLiquid fu s1 liq liqU
  let delta := elecU.convert b.unit elec
  updateSocPercent s2 delta b.capacity

/-- `VehicleType::consume_energy` -/
def Vehicle.consumeEnergy (v : Vehicle α) (fu : FeatureUnits) (c : Caches K α)
    (speed : α) (su : SpeedUnit) (grade : α) (gu : GradeUnit) (distance : α) (du : DistanceUnit)
    (s : VState α) : VState α × Caches K α :=
  match v with
  | .ice r =>
    let (e, m) := r.predict c.main speed su grade gu distance du
    (iceApply r fu s e, { c with main := m })
  | .bev r b =>
    let (e, m) := r.predict c.main speed su grade gu distance du
    (bevApply b fu s e, { c with main := m })
  | .phev sus dep b =>
    -- `get_phev_energy`: the charge at the start of the edge decides
    if (zero : α) < s.soc then
      let (e, m) := dep.predict c.main speed su grade gu distance du
      (phevApply b fu s e.1 e.2 zero sus.rateUnit.associatedEnergyUnit, { c with main := m })
    else
      let (e, m) := sus.predict c.sustain speed su grade gu distance du
      (phevApply b fu s zero dep.rateUnit.associatedEnergyUnit e.1 e.2, { c with sustain := m })

/-- `VehicleType::best_case_energy` -/
def Vehicle.bestCaseEnergy (v : Vehicle α) (distance : α) (du : DistanceUnit) : α × EnergyUnit :=
  match v with
  | .ice r => createEnergy r.idealRate r.rateUnit distance du
  | .bev r _ => createEnergy r.idealRate r.rateUnit distance du
  | .phev _ dep _ => createEnergy dep.idealRate dep.rateUnit distance du

/-- `VehicleType::best_case_energy_state`: the best-case energy is recorded in the unit it is in (the
rate's energy unit) and moves the charge by its value in the battery's unit, as `consume_energy` does -/
def Vehicle.bestCaseEnergyState (v : Vehicle α) (fu : FeatureUnits) (distance : α) (du : DistanceUnit)
    (s : VState α) : VState α :=
  let (e, u) := v.bestCaseEnergy distance du
  match v with
  | .ice r => addLiquid fu s e r.rateUnit.associatedEnergyUnit
  | .bev _ b =>
    let batteryDelta := u.convert b.unit e
    let s1 := addElectric fu s e u
    updateSocPercent s1 batteryDelta b.capacity
  | .phev _ _ b =>
    let batteryDelta := u.convert b.unit e
    let s1 := addElectric fu s e u
    updateSocPercent s1 batteryDelta b.capacity

/-- the cache the vehicle's next prediction goes through (for a PHEV the charge decides the record) -/
def Vehicle.cacheInUse (v : Vehicle α) (c : Caches K α) (s : VState α) : Option (Cache K α) :=
  match v with
  | .ice _ => c.main
  | .bev _ _ => c.main
  | .phev _ _ _ => if (zero : α) < s.soc then c.main else c.sustain

/-- `FloatCachePolicy::get`: a two-value key is accepted only by a policy with two `key_precisions` -/
def cacheAccepts (c : Option (Cache K α)) : Bool :=
  match c with
  | none => true
  | some c => c.arityOk

/-- `get_model_record_from_params`: a `float_cache_policy` without exactly two `key_precisions` is a
configuration error -/
def cachesConfigOk (c : Caches K α) : Bool := cacheAccepts c.main && cacheAccepts c.sustain

/-- `f64::MAX` -/
def f64Max : α := Lit.lit (2 ^ 1024 - 2 ^ 971) 1

/-- `prediction_model_ops::find_min_energy_rate`: the smallest of the swept predictions (the sweep —
20..79 mph at zero grade — is evaluated by the prediction model; its results are the input here) -/
def findMinEnergyRate (sweep : List α) : α :=
  sweep.foldl (fun m r => if r < m then r else m) f64Max

/-- `get_model_record_from_params` + `load_prediction_model`: a configured `ideal_energy_rate` is
taken as is, otherwise the swept minimum; a missing `real_world_energy_adjustment` is 1 -/
def PredRecord.ofConfig (rate : α → α → α) (su : SpeedUnit) (gu : GradeUnit) (ru : EnergyRateUnit)
    (ideal : Option α) (sweep : List α) (adj : Option α) : PredRecord α :=
  { rate := rate, speedUnit := su, gradeUnit := gu, rateUnit := ru,
    idealRate := match ideal with | some x => x | none => findMinEnergyRate sweep,
    adjustment := match adj with | some a => a | none => one }

/-- `build_battery_electric` / `build_plugin_hybrid`: a `battery_capacity` that is not a (finite)
positive number is a configuration error; otherwise the vehicle starts full
(`starting_battery_energy = battery_capacity`), capacity and unit as configured.  (NaN and the
infinities cannot be written in the JSON the builders read; they arrive as `null`, which does not
deserialise: `configReadable`.) -/
def Battery.ofConfig (capacity : α) (unit : EnergyUnit) : Except Err (Battery α) :=
  if (zero : α) < capacity then .ok { capacity := capacity, startEnergy := capacity, unit := unit }
  else .error .build

/-- `BEV::new` / `PHEV::new` called directly (not through the builders) take any capacity -/
def Battery.unchecked (capacity : α) (unit : EnergyUnit) : Battery α :=
  { capacity := capacity, startEnergy := capacity, unit := unit }

/-- a configuration the builders cannot read — unknown vehicle or time-model type, a missing required
entry (battery capacity, a PHEV's charge-depleting section, the grade unit, the vehicle list, …), a
file that does not exist or does not parse, an invalid cache policy — does not build
(`TraversalModelError::BuildError`); which entry is wrong does not matter -/
def configReadable (malformed : Bool) : Except Err Unit :=
  if malformed then .error .build else .ok ()

/-- a query's `state_features` may replace `battery_state` only by a feature of the same kind — type,
unit and format (`StateFeature::eq`, checked by `StateModel::extend`); a feature of another format
(signed_integer, unsigned_integer, boolean) is a change of kind and the query is refused.  (The full
rule is C11's `StateFeature.eqv` / `extend`.) -/
def stateFeaturesAccepted (formatChanged : Bool) : Except Err Unit :=
  if formatChanged then .error .build else .ok ()

/-- the `model_name` entry of the query -/
inductive NameQuery where
  | absent
  | nonString
  | name (id : Nat)

/-- the vehicle library is a `HashMap` filled in configuration order by `insert(vehicle.name(), …)`:
a later vehicle of the same name replaces an earlier one -/
def libraryGet {β : Type} (lib : List (Nat × β)) (id : Nat) : Option β :=
  lib.foldl (fun acc p => if p.1 = id then some p.2 else acc) none

/-- `EnergyModelService::build(query)` = `EnergyTraversalModel::new`: the vehicle named by the
query's `model_name` (a `BuildError` when the key is missing, not a string, or names no vehicle of
the library), then `update_from_query` -/
def selectVehicle (lib : List (Nat × Vehicle α)) (n : NameQuery) (q : SocQuery α) : Except Err (Vehicle α) :=
  match n with
  | .absent => .error .build
  | .nonString => .error .build
  | .name id =>
    match libraryGet lib id with
    | none => .error .build
    | some v => v.updateFromQuery q

end Vehicles

/-! ## `EnergyTraversalModel` -/

/-- the fields of `EnergyModelService` the traversal reads -/
structure Service (α : Type) where
  timeModelSpeedUnit : SpeedUnit
  gradeTable : Option (List α)
  gradeUnit : GradeUnit
  distanceUnit : DistanceUnit

section Traversal
variable {K α : Type} [DecidableEq K]
variable [Add α] [Sub α] [Mul α] [Div α] [LT α] [LE α] [DecidableLT α] [DecidableLE α] [Lit α]

/-- `energy_model_ops::get_grade` -/
def getGrade (tbl : Option (List α)) (id : Nat) : Except Err α :=
  match tbl with
  | none => .ok zero
  | some gt =>
    match gt[id]? with
    | none => .error .gradeTable
    | some g => .ok g

/-- the speed `traverse_edge` hands to the vehicle: `Speed::from((distance, time_delta))`, both in
the associated units of `time_model_speed_unit`; `prev` / `cur` are the states before / after the
time model ran -/
def reconstructSpeed (svc : Service α) (fu : FeatureUnits) (edge : Edge α) (prev cur : VState α) : α :=
  let tu := svc.timeModelSpeedUnit.associatedTimeUnit
  let prevTime := getTime fu prev tu
  let curTime := getTime fu cur tu
  let timeDelta := curTime - prevTime
  let d := baseDistanceUnit.convert svc.timeModelSpeedUnit.associatedDistanceUnit edge.distance
  d / timeDelta

/-- `EnergyTraversalModel::traverse_edge` -/
def traverseEdge (svc : Service α) (eng : SpeedEngine α) (v : Vehicle α) (fu : FeatureUnits)
    (edge : Edge α) (st : VState α × Caches K α) : Except Err (VState α × Caches K α) :=
  let distance := baseDistanceUnit.convert svc.distanceUnit edge.distance
  let prev := st.1
  match eng.traverse fu edge st.1 with
  | .error e => .error e
  | .ok s1 =>
    match getGrade svc.gradeTable edge.id with
    | .error e => .error e
    | .ok grade =>
      let speed := reconstructSpeed svc fu edge prev s1
      if cacheAccepts (v.cacheInUse st.2 s1) then
        .ok (v.consumeEnergy fu st.2 speed svc.timeModelSpeedUnit grade svc.gradeUnit distance svc.distanceUnit s1)
      else .error .cache

/-- `EnergyTraversalModel::estimate_traversal`; `hm` is the great-circle distance in metres -/
def estimateTraversal (svc : Service α) (eng : SpeedEngine α) (maxSpeed : α) (v : Vehicle α)
    (fu : FeatureUnits) (hm : α) (s : VState α) : Except Err (VState α) :=
  let distance := DistanceUnit.meters.convert svc.distanceUnit hm
  if isZero distance then .ok s
  else
    match eng.estimate maxSpeed fu hm s with
    | .error e => .error e
    | .ok s1 => .ok (v.bestCaseEnergyState fu distance svc.distanceUnit s1)

/-- `EnergyModelBuilder::build` / `EnergyModelService::new`: the speed unit is the time model's
`speed_unit` entry, an absent `distance_unit` defaults to the base unit, an absent grade table file
means no table -/
def Service.ofConfig (timeModelSpeedUnit : SpeedUnit) (gradeTable : Option (List α)) (gradeUnit : GradeUnit)
    (distanceUnit : Option DistanceUnit) : Service α :=
  { timeModelSpeedUnit := timeModelSpeedUnit, gradeTable := gradeTable, gradeUnit := gradeUnit,
    distanceUnit := distanceUnit.getD baseDistanceUnit }

/-- `estimate_traversal` including the failure of the haversine code (`none`: a coordinate outside
±180 / ±90 degrees, reported as `TraversalModelFailure`) -/
def estimateTraversalOpt (svc : Service α) (eng : SpeedEngine α) (maxSpeed : α) (v : Vehicle α)
    (fu : FeatureUnits) (hm : Option α) (s : VState α) : Except Err (VState α) :=
  match hm with
  | none => .error .haversine
  | some d => estimateTraversal svc eng maxSpeed v fu d s

/-- `energy_model_ops::get_headings`: the row of the headings table, or a failure -/
def getHeadings {β : Type} (tbl : List β) (id : Nat) : Except Err β :=
  match tbl[id]? with
  | none => .error .headingTable
  | some h => .ok h

/-- a route: `traverse_edge` edge after edge, stopping at the first error -/
def traverseRoute (svc : Service α) (eng : SpeedEngine α) (v : Vehicle α) (fu : FeatureUnits) :
    List (Edge α) → VState α × Caches K α → Except Err (VState α × Caches K α)
  | [], st => .ok st
  | e :: es, st =>
    match traverseEdge svc eng v fu e st with
    | .error x => .error x
    | .ok st' => traverseRoute svc eng v fu es st'

end Traversal

/-! ## The float cache's key rounding (doubles only)

`to_precision(value, p) = (value * 10f64.powi(p)).round() as i64`; `powi` by repeated squaring with a
final reciprocal for a negative exponent; `round` is half away from zero; the cast saturates and sends
NaN to 0.  The key is `zip([speed, grade], key_precisions)`: with fewer than two precisions the key
is shorter. -/

def powi10 (p : Int) : Float :=
  let rec go (fuel : Nat) (a : Float) (pow : Nat) (mul : Float) : Float :=
    match fuel with
    | 0 => mul
    | fuel + 1 =>
      let mul := if pow % 2 = 1 then mul * a else mul
      let pow := pow / 2
      if pow = 0 then mul else go fuel (a * a) pow mul
  let m := go 64 10.0 p.natAbs 1.0
  if p < 0 then 1.0 / m else m

def toPrecision (value : Float) (p : Int) : Int :=
  (Float.round (value * powi10 p)).toInt64.toInt

def floatKey (precisions : List Int) (speed grade : Float) : List Int :=
  List.zipWith toPrecision [speed, grade] precisions

end Energy
end Compass
