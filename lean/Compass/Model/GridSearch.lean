/-
Model of `routee-compass/src/plugin/input/default/grid_search/plugin.rs` (`GridSearchPlugin::process`)
and of the plugin pipeline around it, `routee-compass/src/plugin/input/input_plugin_ops.rs`
(`json_array_op`, `json_array_flatten_in_place`, `json_array_flatten`) and
`app/compass/compass_app.rs::apply_input_plugins`.

Two versions of the plugin:
* `processO` — the code as it is: the combinations come out of the (partial) `MultiSet` iterator, every
  indexing is explicit, the result is an `Outcome` (value / panic / diverges);
* `process`  — the total function it computes (`Proofs/GridSearch.lean`: `processO q = .ok (process q)`).

Imports only Model files (links into the driver).
-/
import Compass.Model.Json
import Compass.Model.MultiSet

namespace Compass
namespace GridSearch
open MultiSet (Outcome)

/-- `InputField::GridSearch.to_str()` -/
def gridKey : String := "grid_search"

/-- the `Err` results of `process` -/
inductive ErrKind where
  /-- `InputPluginFailed`: the serialized section contains the text `grid_search` -/
  | recursion
  /-- `UnexpectedQueryStructure`: the section is not a JSON object -/
  | sectionNotObject
  /-- `InputPluginFailed`: no array-valued field, or an empty array -/
  | degenerate
  /-- `UnexpectedQueryStructure`: the query is not a JSON object (unreachable: `get` found the key) -/
  | queryNotObject
  deriving DecidableEq, Repr

/-- the `InputPluginError` variant, which is all the harness compares -/
def ErrKind.variant : ErrKind → String
  | .recursion | .degenerate => "InputPluginFailed"
  | .sectionNotObject | .queryNotObject => "UnexpectedQueryStructure"

/-- the recursion guard: a *text* test on `serde_json::to_string(section)` -/
def recurses (sec : Json) : Bool := Json.strContains sec.toCompact gridKey

/-- `for (k, v) in map { if let Some(v) = v.as_array() { … } }`: the array-valued fields, in map order -/
def axes : List (String × Json) → List (String × List Json)
  | [] => []
  | (k, .arr xs) :: r => (k, xs) :: axes r
  | _ :: r => axes r

/-- `multiset_indices.is_empty() || multiset_indices.iter().any(|s| s.is_empty())` -/
def degenerate (ax : List (String × List Json)) : Bool :=
  ax.isEmpty || ax.any (fun a => a.2.isEmpty)

/-- what `process` computes before enumerating -/
structure Plan where
  /-- `keys` -/
  keys : List String
  /-- `multiset_input` -/
  options : List (List Json)
  /-- `initial`: the query without the grid key (`Map::remove` = `swap_remove`) -/
  initial : Json
  deriving Repr

/-- `multiset_indices`: `(0..v.len()).collect()` per axis -/
def Plan.indices (p : Plan) : List (List Nat) := p.options.map (fun o => List.range o.length)
def Plan.sizes (p : Plan) : List Nat := p.options.map List.length
def Plan.axes (p : Plan) : List (String × List Json) := p.keys.zip p.options

/-- everything up to the enumeration: `none` = no grid section, the query passes through -/
def plan (input : Json) : Except ErrKind (Option Plan) :=
  match input.get? gridKey with
  | none => .ok none
  | some sec =>
    if recurses sec then .error .recursion
    else
      match sec with
      | .obj secKvs =>
        let ax := axes secKvs
        if degenerate ax then .error .degenerate
        else
          match input with
          | .obj kvs =>
            .ok (some { keys := ax.map (·.1), options := ax.map (·.2),
                        initial := .obj (Json.swapRemoveKv kvs gridKey) })
          | _ => .error .queryNotObject
      | _ => .error .sectionNotObject

/-! ### The code: combinations from `MultiSet`, explicit indexing -/

/-- `for (k, v) in o.into_iter() { instance[k] = v.clone(); }`; `none`: index assignment panicked -/
def mergeObjO : Json → List (String × Json) → Option Json
  | inst, [] => some inst
  | inst, (k, v) :: r =>
    match inst.indexAssign k v with
    | some inst' => mergeObjO inst' r
    | none => none

/-- one `match value { Object(o) => …, _ => instance[key] = value }` -/
def applyOptionO (inst : Json) (key : String) (value : Json) : Option Json :=
  match value with
  | .obj o => mergeObjO inst o
  | v => inst.indexAssign key v

/-- the loop over `keys.iter().zip(combination.iter()).enumerate()`, from `set_idx` on -/
def overlayO (options : List (List Json)) : Nat → List (String × Nat) → Json → Outcome Json
  | _, [], inst => .ok inst
  | setIdx, (key, valIdx) :: r, inst =>
    match options[setIdx]? with
    | none => .panic "grid_search/set-index"
    | some opts =>
      match opts[valIdx]? with
      | none => .panic "grid_search/value-index"
      | some value =>
        match applyOptionO inst key value with
        | none => .panic "serde_json/index-assign"
        | some inst' => overlayO options (setIdx + 1) r inst'

/-- the closure mapped over the combinations -/
def instanceO (p : Plan) (combination : List Nat) : Outcome Json :=
  overlayO p.options 0 (p.keys.zip combination) p.initial

/-- `MultiSet::from(&multiset_indices).into_iter().map(…).collect()` -/
def expandO (p : Plan) : Outcome (List Json) :=
  MultiSet.collectMap (instanceO p) (MultiSet.fuelFor p.sizes) (MultiSet.from p.indices)

/-- `GridSearchPlugin::process`: the value left in `input` (`Ok`), or the error -/
def processO (input : Json) : Outcome (Except ErrKind Json) :=
  match plan input with
  | .error e => .ok (.error e)
  | .ok none => .ok (.ok input)
  | .ok (some p) =>
    match expandO p with
    | .ok result => .ok (.ok (.arr result))
    | .panic s => .panic s
    | .diverges => .diverges

/-! ### The function it computes -/

/-- `for (k, v) in o { instance[k] = v }` on an object -/
def mergeKv : List (String × Json) → List (String × Json) → List (String × Json)
  | kvs, [] => kvs
  | kvs, (k, v) :: r => mergeKv (Json.insertKv kvs k v) r

/-- a scalar (anything but an object) goes under the field's name, an object is merged key by key -/
def applyOption (kvs : List (String × Json)) (key : String) (value : Json) : List (String × Json) :=
  match value with
  | .obj o => mergeKv kvs o
  | v => Json.insertKv kvs key v

/-- overlay the chosen options, first axis first (later axes override earlier ones) -/
def overlay : List (String × Json) → List (String × Json) → List (String × Json)
  | kvs, [] => kvs
  | kvs, (key, value) :: r => overlay (applyOption kvs key value) r

/-- the option each axis takes under an index combination (`keys.zip(combination)`, `[set][val]`) -/
def choice : List (String × List Json) → List Nat → List (String × Json)
  | (k, opts) :: ax, i :: c =>
    match opts[i]? with
    | some v => (k, v) :: choice ax c
    | none => choice ax c
  | _, _ => []

/-- the query generated for one index combination -/
def instanceKv (initial : List (String × Json)) (ax : List (String × List Json)) (c : List Nat) :
    List (String × Json) :=
  overlay initial (choice ax c)

/-- all generated queries, in the order of the code (first axis fastest) -/
def expand (initial : List (String × Json)) (ax : List (String × List Json)) : List Json :=
  (MultiSet.combos (ax.map (·.2.length))).map (fun c => .obj (instanceKv initial ax c))

/-- the total function computed by `GridSearchPlugin::process` -/
def process (input : Json) : Except ErrKind Json :=
  match plan input with
  | .error e => .error e
  | .ok none => .ok input
  | .ok (some p) =>
    match p.initial with
    | .obj kvs => .ok (.arr (expand kvs p.axes))
    | _ => .error .queryNotObject

/-! ### The plugin pipeline on one query -/

/-- the error responses of the pipeline, `{"request": …, "error": <text>}`; only `request` is kept -/
inductive PipeErr (ε : Type) where
  /-- `package_error(q, e)`: plugin `op` failed on query `q` -/
  | plugin (request : Json) (e : ε)
  /-- `package_invariant_error`: the state is not an array of non-arrays / objects -/
  | invariant (request : Json)
  /-- `package_error(query, UnexpectedQueryStructure("query is not a JSON object"))`: the guard of
  `apply_input_plugins` -/
  | notObject (request : Json)
  deriving Repr

def PipeErr.request {ε : Type} : PipeErr ε → Json
  | .plugin r _ => r
  | .invariant r => r
  | .notObject r => r

/-- `json![{"error": "unable to display query"}]`, the request shown when the state was consumed -/
def noRequest : Json := .obj [("error", .str "unable to display query")]

/-- the message of an error response; messages are not modelled (never compared), `"E"` stands for it -/
def errorText : Json := .str "E"

/-- `package_error(query, error)`: `json!({"request": query, "error": error.to_string()})` -/
def packageError (query : Json) : Json := .obj [("request", query), ("error", errorText)]

/-- `package_invariant_error(query, sub_section)`: the message shows the query state and the offending
sub-section when they are given (text only); the response carries the query, or the placeholder when
the caller had none to show -/
def packageInvariantError (query _subSection : Option Json) : Json :=
  match query with
  | some q => packageError q
  | none => packageError noRequest

/-- the error response (`Err(Value)`) an error of the pipeline stands for -/
def PipeErr.response {ε : Type} (e : PipeErr ε) : Json := packageError e.request

/-- de-nest one level: `for v1 in top { Array(sub) => push each, other => push other }` -/
def flatten1 : List Json → List Json
  | [] => []
  | .arr sub :: r => sub ++ flatten1 r
  | v :: r => v :: flatten1 r

/-- `json_array_flatten_in_place` -/
def flattenInPlace {ε : Type} (state : Json) : Except (PipeErr ε) Json :=
  match state with
  | .arr top => if top.all (fun v => !v.isArray) then .ok state else .ok (.arr (flatten1 top))
  | other => .error (.invariant other)

/-- the `for q in queries.iter_mut() { op(q).map_err(|e| package_error(q, e))? }` loop.  `op` returns
the value left in `q`; an `op` that fails is assumed to leave `q` as it was (true of grid search). -/
def mapOp {ε : Type} (op : Json → Except ε Json) : List Json → Except (PipeErr ε) (List Json)
  | [] => .ok []
  | q :: r =>
    match op q with
    | .error e => .error (.plugin q e)
    | .ok q' =>
      match mapOp op r with
      | .ok r' => .ok (q' :: r')
      | .error e => .error e

/-- `json_array_op` -/
def jsonArrayOp {ε : Type} (op : Json → Except ε Json) (state : Json) : Except (PipeErr ε) Json :=
  match state with
  | .arr queries =>
    match mapOp op queries with
    | .ok qs => flattenInPlace (.arr qs)
    | .error e => .error e
  | _ => .error (.invariant noRequest)

/-- `json_array_flatten`: the final state must be an array of objects -/
def jsonArrayFlatten {ε : Type} (state : Json) : Except (PipeErr ε) (List Json) :=
  match state with
  | .arr xs => if xs.all Json.isObject then .ok xs else .error (.invariant noRequest)
  | other => .error (.invariant other)

def applyOps {ε : Type} : List (Json → Except ε Json) → Json → Except (PipeErr ε) Json
  | [], state => .ok state
  | op :: ops, state =>
    match jsonArrayOp op state with
    | .ok s => applyOps ops s
    | .error e => .error e

/-- `request == json!({"error": "unable to display query"})` (`serde_json` equality) -/
def isNoRequest : Json → Bool
  | .obj [("error", .str "unable to display query")] => true
  | _ => false

/-- the `with_request` closure of `apply_input_plugins`: an error response whose request is the placeholder
(an invariant error) gets the original query as its request -/
def withRequest {ε : Type} (query : Json) : PipeErr ε → PipeErr ε
  | .plugin r e => if isNoRequest r then .plugin query e else .plugin r e
  | .invariant r => if isNoRequest r then .invariant query else .invariant r
  | .notObject r => .notObject r

/-- `apply_input_plugins(query, plugins)`: a query that is not a JSON object is answered with an error
response that echoes it, before any plugin runs; an invariant error (placeholder request) of the plugin
stage or of the final flatten is answered with the original query as its request -/
def applyInputPlugins {ε : Type} (plugins : List (Json → Except ε Json)) (query : Json) :
    Except (PipeErr ε) (List Json) :=
  if query.isObject then
    match applyOps plugins (.arr [query]) with
    | .ok s =>
      match jsonArrayFlatten s with
      | .ok qs => .ok qs
      | .error e => .error (withRequest query e)
    | .error e => .error (withRequest query e)
  else .error (.notObject query)

/-! ### plugins from configuration -/

/-- the `CompassConfigurationError`s of `build_input_plugins` -/
inductive CfgErr where
  /-- `ExpectedFieldForComponent`: no `input_plugins` field / no `type` field in an entry -/
  | expectedField
  /-- `ExpectedFieldWithType`: `input_plugins` is not an array / `type` is not a string -/
  | expectedType
  /-- `UnknownModelNameForComponent`: no builder registered under the `type` -/
  | unknownPlugin
  deriving DecidableEq, Repr

def CfgErr.variant : CfgErr → String
  | .expectedField => "ExpectedFieldForComponent"
  | .expectedType => "ExpectedFieldWithType"
  | .unknownPlugin => "UnknownModelNameForComponent"

/-- the loop of `CompassAppBuilder::build_input_plugins` over the entries of `input_plugins`;
`builders` is the registry (`type` name ↦ `InputPluginBuilder::build`), the first failure wins -/
def buildEntries {π : Type} (builders : String → Option (Json → Except CfgErr π)) :
    List Json → Except CfgErr (List π)
  | [] => .ok []
  | entry :: rest =>
    match entry.get? "type" with
    | none => .error .expectedField
    | some (.str t) =>
      match builders t with
      | none => .error .unknownPlugin
      | some build =>
        match build entry with
        | .error e => .error e
        | .ok plugin =>
          match buildEntries builders rest with
          | .ok ps => .ok (plugin :: ps)
          | .error e => .error e
    | some _ => .error .expectedType

/-- `CompassAppBuilder::build_input_plugins(config)` (`config` is the `plugin` section) -/
def buildInputPlugins {π : Type} (builders : String → Option (Json → Except CfgErr π))
    (config : Json) : Except CfgErr (List π) :=
  match config.get? "input_plugins" with
  | none => .error .expectedField
  | some (.arr entries) => buildEntries builders entries
  | some _ => .error .expectedType

/-- `GridSearchBuilder::build`: ignores its parameters, cannot fail -/
def gridSearchBuilder {ε : Type} (_parameters : Json) : Except ε (Json → Except ErrKind Json) :=
  .ok process

/-- the part of the default registry this model covers: `grid_search` (the other registered builders —
`vertex_rtree`, `edge_rtree`, `load_balancer`, `inject`, `debug` — belong to other properties and are
not generated by the C17 case stream) -/
def gridOnlyRegistry (t : String) : Option (Json → Except CfgErr (Json → Except ErrKind Json)) :=
  if t = gridKey then some gridSearchBuilder else none

end GridSearch
end Compass
