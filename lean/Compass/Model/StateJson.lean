/-
The serde side of the state model: `#[derive(Serialize, Deserialize)]` of `StateFeature`
(`#[serde(untagged)]`) and `CustomFeatureFormat` (externally tagged, `rename_all = "snake_case"`),
`impl TryFrom<&serde_json::Value> for StateModel`, the query's `state_features` in
`search_app_ops::collect_features`, and the state-model part of `SearchApp::build_search_instance`.

JSON numbers are `Json.num lexeme bits` (Model/Json.lean).  serde_json hands an untagged enum a number
as `u64` (unsigned integer lexeme), `i64` (negative integer lexeme) or `f64` (anything else); a float
field accepts all three (`as f64`, whose bit pattern is `bits`), an integer field accepts only the
integer classes in range, a bool field only `true` / `false`, a string field only a string.  The
number type `α` is reached through `ofBits : Nat → α` (doubles: `Float.ofBits`) and `toNum : α → Json`.
-/
import Compass.Model.StateModel
import Compass.Model.Json

namespace Compass

namespace StateJson
variable {α : Type}

/-- required field of a struct given as a JSON object (unknown keys are ignored by serde) -/
def field (kvs : List (String × Json)) (k : String) : Option Json := Json.lookup kvs k

/-- a unit enum (`DistanceUnit`, …): the variant name as a string, or serde's single-entry map form
    `{"<variant>": null}` -/
def parseUnit {U : Type} (ofName : String → Option U) : Json → Option U
  | .str s => ofName s
  | .obj [(k, .null)] => ofName k
  | _ => none

/-- `f64` (also `OrderedFloat<f64>`, `Distance`, `Time`, `Energy`): any JSON number -/
def parseF64 (ofBits : Nat → α) : Json → Option α
  | .num _ b => some (ofBits b)
  | _ => none

/-- `i64`: an integer lexeme within range; a float lexeme (`1.0`) is an error -/
def parseI64 (j : Json) : Option Int := Json.asI64? j

/-- `u64` -/
def parseU64 (j : Json) : Option Nat := Json.asU64? j

def parseString : Json → Option String
  | .str s => some s
  | _ => none

/-- the one field `initial` of every `CustomFeatureFormat` variant: a map holding the key, or serde's
    sequence form with exactly one element -/
def parseInitial {β : Type} (p : Json → Option β) : Json → Option β
  | .obj kvs =>
    match field kvs "initial" with
    | some v => p v
    | none => none
  | .arr [v] => p v
  | _ => none

/-- `CustomFeatureFormat`: externally tagged — an object with exactly one key, the snake_case variant -/
def parseFormat (ofBits : Nat → α) : Json → Option (CustomFeatureFormat α)
  | .obj [(tag, body)] =>
    if tag == "floating_point" then (parseInitial (parseF64 ofBits) body).map .floatingPoint
    else if tag == "signed_integer" then (parseInitial parseI64 body).map .signedInteger
    else if tag == "unsigned_integer" then (parseInitial parseU64 body).map .unsignedInteger
    else if tag == "boolean" then (parseInitial Json.asBool? body).map .boolean
    else none
  | _ => none

def parseDistance (ofBits : Nat → α) : Json → Option (StateFeature α)
  | .obj kvs =>
    match field kvs "distance_unit", field kvs "initial" with
    | some u, some i =>
      match parseUnit DistanceUnit.ofName? u, parseF64 ofBits i with
      | some u, some i => some (.distance u i)
      | _, _ => none
    | _, _ => none
  | _ => none

def parseTime (ofBits : Nat → α) : Json → Option (StateFeature α)
  | .obj kvs =>
    match field kvs "time_unit", field kvs "initial" with
    | some u, some i =>
      match parseUnit TimeUnit.ofName? u, parseF64 ofBits i with
      | some u, some i => some (.time u i)
      | _, _ => none
    | _, _ => none
  | _ => none

def parseEnergy (ofBits : Nat → α) : Json → Option (StateFeature α)
  | .obj kvs =>
    match field kvs "energy_unit", field kvs "initial" with
    | some u, some i =>
      match parseUnit EnergyUnit.ofName? u, parseF64 ofBits i with
      | some u, some i => some (.energy u i)
      | _, _ => none
    | _, _ => none
  | _ => none

def parseCustom (ofBits : Nat → α) : Json → Option (StateFeature α)
  | .obj kvs =>
    match field kvs "type", field kvs "unit", field kvs "format" with
    | some t, some u, some f =>
      match parseString t, parseString u, parseFormat ofBits f with
      | some t, some u, some f => some (.custom t u f)
      | _, _, _ => none
    | _, _, _ => none
  | _ => none

/-- `Deserialize for StateFeature` (`untagged`): the first variant, in declaration order, that the
    value fits -/
def parseFeature (ofBits : Nat → α) (j : Json) : Option (StateFeature α) :=
  match parseDistance ofBits j with
  | some f => some f
  | none =>
    match parseTime ofBits j with
    | some f => some f
    | none =>
      match parseEnergy ofBits j with
      | some f => some f
      | none => parseCustom ofBits j

/-- every entry of a JSON object as a named feature; `none` as soon as one value does not parse -/
def parseFeatures (ofBits : Nat → α) : List (String × Json) → Option (List (String × StateFeature α))
  | [] => some []
  | (name, j) :: rest =>
    match parseFeature ofBits j with
    | none => none
    | some f =>
      match parseFeatures ofBits rest with
      | none => none
      | some fs => some ((name, f) :: fs)

/-- `impl TryFrom<&serde_json::Value> for StateModel`: not an object, or a row that is no
    `StateFeature`, is a `BuildError`; otherwise `StateModel::from(tuples)` in object order -/
def tryFrom (ofBits : Nat → α) (j : Json) : Except StateErr (StateModel α) :=
  match j with
  | .obj kvs =>
    match parseFeatures ofBits kvs with
    | some fs => .ok (StateModel.new fs)
    | none => .error .build
  | _ => .error .build

/-! ### Serialize -/

def intNum (toNum : α → Json) (ofInt : Int → α) (i : Int) : Json :=
  -- `serde_json` prints an `i64` / `u64` as its decimal lexeme; `bits` is that of `i as f64`
  match toNum (ofInt i) with
  | .num _ b => .num (toString i) b
  | j => j

variable [IntCodec α]

def formatToJson (toNum : α → Json) : CustomFeatureFormat α → Json
  | .floatingPoint i => .obj [("floating_point", .obj [("initial", toNum i)])]
  | .signedInteger i => .obj [("signed_integer", .obj [("initial", intNum toNum IntCodec.ofInt i)])]
  | .unsignedInteger i =>
    .obj [("unsigned_integer", .obj [("initial", intNum toNum IntCodec.ofInt (Int.ofNat i))])]
  | .boolean i => .obj [("boolean", .obj [("initial", .bool i)])]

/-- `Serialize for StateFeature` (untagged: just the variant's fields, in declaration order) -/
def featureToJson (toNum : α → Json) : StateFeature α → Json
  | .distance u i => .obj [("distance_unit", .str u.name), ("initial", toNum i)]
  | .time u i => .obj [("time_unit", .str u.name), ("initial", toNum i)]
  | .energy u i => .obj [("energy_unit", .str u.name), ("initial", toNum i)]
  | .custom t u f => .obj [("type", .str t), ("unit", .str u), ("format", formatToJson toNum f)]

/-- `serialize_state_model`: name ↦ the feature's JSON plus `index` and `name` (the feature's JSON is
    always an object, so both are always inserted) -/
def serializeStateModelJson (toNum : α → Json) (m : StateModel α) : Json :=
  .obj (m.indexedIter.foldl (fun acc p =>
    let f := match featureToJson toNum p.2.2 with
      | .obj kvs =>
        Json.obj (Json.insertKv (Json.insertKv kvs "index" (intNum toNum IntCodec.ofInt (Int.ofNat p.1)))
          "name" (.str p.2.1))
      | j => j
    Json.insertKv acc p.2.1 f) [])

/-- `serialize_state`: a JSON object name ↦ value (collected through a `HashMap`: key order without
    meaning) -/
def serializeStateJson (toNum : α → Json) (m : StateModel α) (state : List α) : List (String × Json) :=
  (m.serializeState state).map (fun p => (p.1, toNum p.2))

end StateJson

/-! ### `collect_features` on the raw query, and `build_search_instance` -/

/-- the query's `state_features` (`get_config_serde_optional::<HashMap<String, StateFeature>>`):
    absent key (or a query that is no object) ⇒ `None`; present but not an object of state features ⇒
    `BuildError` -/
def queryStateFeatures {α : Type} (ofBits : Nat → α) (query : Json) :
    Except StateErr (Option (List (String × StateFeature α))) :=
  match Json.get? query "state_features" with
  | none => .ok none
  | some (.obj kvs) =>
    match StateJson.parseFeatures ofBits kvs with
    | some fs => .ok (some fs)
    | none => .error .build
  | some _ => .error .build

/-- `collect_features(query, traversal_model, access_model)` -/
def collectFeaturesQuery {α : Type} (ofBits : Nat → α)
    (traversal access : List (String × StateFeature α)) (query : Json) :
    Except StateErr (List (String × StateFeature α)) :=
  match queryStateFeatures ofBits query with
  | .error e => .error e
  | .ok user => collectFeatures traversal access user

/-- where `SearchApp::build_search_instance` can fail -/
inductive BuildErr where
  | traversal            -- `traversal_model_service.build(query)?`
  | access               -- `access_model_service.build(query)?`
  | state (e : StateErr) -- `collect_features(..)?` / `state_model.extend(..)?`
  | cost                 -- `cost_model_service.build(..)` mapped to `SearchError::BuildError`
  | frontier             -- `frontier_model_service.build(..)?`
  deriving DecidableEq, Repr

def BuildErr.name : BuildErr → String
  | .traversal => "traversal" | .access => "access" | .state e => "state:" ++ e.name
  | .cost => "cost" | .frontier => "frontier"

/-- the state-model part of `build_search_instance`, in the code's order.  `traversal` / `access` are
    what the two services built for this query (their feature lists, or a failure), `costOk` /
    `frontierOk` whether the cost and frontier services accept the per-query state model.  The
    configured model `cfg` is only read. -/
def buildSearchInstanceState {α : Type} (ofBits : Nat → α) (cfg : StateModel α)
    (traversal access : Option (List (String × StateFeature α))) (query : Json)
    (costOk frontierOk : StateModel α → Bool) : Except BuildErr (StateModel α) :=
  match traversal with
  | none => .error .traversal
  | some tr =>
    match access with
    | none => .error .access
    | some ac =>
      match collectFeaturesQuery ofBits tr ac query with
      | .error e => .error (.state e)
      | .ok fs =>
        match cfg.extend fs with
        | .error e => .error (.state e)
        | .ok m =>
          if !costOk m then .error .cost
          else if !frontierOk m then .error .frontier
          else .ok m

end Compass
