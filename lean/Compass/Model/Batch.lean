/-
Model of the batch pipeline of routee-compass (C06, C12):

* `app/compass/compass_app.rs` — `CompassApp::run` (per-run overrides, `plugin_chunk_size`, `par_chunks` +
  `apply_input_plugins` + `partition_map`, `apply_load_balancing_policy`, the early return, the two
  `run_batch_*` functions, `chain(error_inputs)`), `apply_input_plugins`;
* `app/compass/compass_app_ops.rs` — `apply_load_balancing_policy`, `min_bin`;
* `plugin/input/input_plugin_ops.rs` — `json_array_op`, `json_array_flatten(_in_place)`, `package_error`,
  `package_invariant_error` (through `Model/GridSearch.lean`, re-done here over partial plugins);
* `plugin/input/default/inject/inject_plugin.rs`, `…/load_balancer/{plugin,weight_heuristic,
  custom_weight_type}.rs`, `…/grid_search/plugin.rs` (reused from C17), `input_json_extensions.rs`
  (`add_query_weight_estimate`, `get_query_weight_estimate`).

Style: the code as it is, with explicit `panic` / `diverges` outcomes (`…O` functions over `Outcome`), next to
the total functions they compute (`…T`); `Proofs/Batch.lean` shows `…O = .ok …T`.

Modelling boundaries (stated, not hidden):
* the single-query function (`run_single_query`: search + output plugins) is the **parameter**
  `respond : Json → Json`; purity of it rests on Rust's aliasing rules (services behind `Arc` without interior
  mutability) — the one exception, the prediction cache, is modelled separately (`Cache` section);
* `rayon`: `par_chunks(..).map(..).unzip()` and `par_iter().map(..).collect()` apply the closure once per
  element and keep the order (assumption); worker threads are modelled as interleavings of atomic steps
  (`Sched`);
* the response sink is `ResponseSink::None` (`write_response` is `Ok(())` and leaves the value alone);
* r-tree map matching and the haversine weight heuristic are not recomputed: their effect on a query is
  supplied as data (`Plugin.table`); `ryu`'s printing of an `f64` weight is supplied as data (`fmt`);
* `(len as f64 / p as f64).ceil() as usize` is modelled on `Nat` (exact while `len * p < 2^53`).

Imports only Model files (links into the driver).
-/
import Compass.Model.Json
import Compass.Model.MultiSet
import Compass.Model.GridSearch

namespace Compass
namespace Batch
open MultiSet (Outcome)
open GridSearch (PipeErr noRequest flatten1 flattenInPlace jsonArrayFlatten)

/-! ### Input plugins -/

/-- `InputField::QueryWeightEstimate.to_str()` -/
def weightKey : String := "query_weight_estimate"

/-- what an `InputPlugin::process` error looks like from outside: the `InputPluginError` variant, and the
value the plugin left in the query when it failed *after* modifying it (`package_error(q, e)` reads `q`
after the call) -/
structure PErr where
  kind : String
  left : Option Json := none
  deriving Repr

/-- effect of an opaque plugin on one query, recorded from the real plugin -/
inductive TableEntry where
  | ok (q' : Json)
  | err (kind : String) (left : Json)
  deriving Repr

inductive Plugin where
  /-- `GridSearchPlugin` (C17) -/
  | gridSearch
  /-- `InjectInputPlugin { key, value, overwrite }` -/
  | inject (key : String) (value : Json) (overwrite : Bool)
  /-- `LoadBalancerPlugin` with `WeightHeuristic::Custom { Numeric { column_name } }`;
  `fmt`: how `json!(w)` prints the `f64` with these bits -/
  | lbNumeric (col : String) (fmt : Nat → String)
  /-- `… Custom { Categorical { column_name, mapping, default } }` (weights as bit patterns) -/
  | lbCategorical (col : String) (mapping : List (String × Nat)) (default : Option Nat) (fmt : Nat → String)
  /-- any other plugin (vertex / edge r-tree, haversine load balancer): its effect on each query it is
  applied to, keyed by the query's compact JSON text -/
  | table (t : List (String × TableEntry))
  /-- user-defined plugin (harness `UserSplit`): a query carrying `key` with a non-empty array is replaced by
  one child per element — the query minus `key`, overlaid with the element -/
  | userSplit (key : String)
  /-- user-defined plugin (harness `UserFailOn`): fails on a query carrying `marker` -/
  | userFailOn (marker : String)
  /-- user-defined plugin (harness `UserBreaker`): breaks the query-state invariant when the query says so under
  `key` (`"scalar"`, `"null"`, `"nested"`, `"empty"`, `"mixed"`) -/
  | userBreaker (key : String)

/-- the plugins that map an object to an object or a non-empty array of objects by construction (everything
but recorded tables, whose behaviour is data, and the invariant breaker) -/
def Plugin.wellBehaved : Plugin → Bool
  | .table _ => false
  | .userBreaker _ => false
  | _ => true

def lookupStr {β : Type} (t : List (String × β)) (k : String) : Option β :=
  match t.find? (fun p => p.1 == k) with
  | some p => some p.2
  | none => none

/-- `add_query_weight_estimate(w)`: `map.insert("query_weight_estimate", json!(w))` on an object -/
def addWeight (fmt : Nat → String) (q : Json) (bits : Nat) : Except PErr Json :=
  match q with
  | .obj kvs => .ok (.obj (Json.insertKv kvs weightKey (.num (fmt bits) bits)))
  | _ => .error { kind := "UnexpectedQueryStructure" }

/-- `InjectInputPlugin::process` up to the index assignment: `none` = go on and assign -/
def injectGuard (key : String) (overwrite : Bool) (q : Json) : Option PErr :=
  if !overwrite then
    match q with
    | .obj kvs =>
      if kvs.any (fun p => p.1 == key) then some { kind := "InputPluginFailed" }
      else none
    | _ => some { kind := "UnexpectedQueryStructure" }
  else if !q.isObject then some { kind := "UnexpectedQueryStructure" }
  else none

/-- `CustomWeightType::get_weight` -/
def customWeight : Plugin → Json → Except PErr Nat
  | .lbNumeric col _, q =>
    match q.get? col with
    | some (.num _ b) => .ok b
    | _ => .error { kind := "QueryFieldHasInvalidType" }
  | .lbCategorical col mapping default _, q =>
    match q.get? col with
    | some (.str s) =>
      match lookupStr mapping s, default with
      | some w, _ => .ok w
      | none, some d => .ok d
      | none, none => .error { kind := "InputPluginFailed" }
    | _ => .error { kind := "QueryFieldHasInvalidType" }
  | _, _ => .error { kind := "InternalError" }

/-- one child of `UserSplit`: an object element is merged key by key, anything else goes under `"alt"` -/
def splitChild (base : List (String × Json)) : Json → Json
  | .obj o => .obj (GridSearch.mergeKv base o)
  | v => .obj (Json.insertKv base "alt" v)

/-- `json!(7)` -/
def seven : Json := .num "7" 4619567317775286272

/-- the user-defined plugins of the harness (plain total functions: they index nothing) -/
def userT : Plugin → Json → Except PErr Json
  | .userSplit key, q =>
    match q with
    | .obj kvs =>
      match Json.lookup kvs key with
      | some (.arr (a :: r)) => .ok (.arr ((a :: r).map (splitChild (Json.shiftRemoveKv kvs key))))
      | _ => .ok q
    | _ => .ok q
  | .userFailOn marker, q =>
    match q.get? marker with
    | some _ => .error { kind := "InputPluginFailed" }
    | none => .ok q
  | .userBreaker key, q =>
    match q.get? key with
    | some (.str "scalar") => .ok seven
    | some (.str "null") => .ok .null
    | some (.str "nested") => .ok (.arr [.arr [q]])
    | some (.str "empty") => .ok (.arr [])
    | some (.str "mixed") => .ok (.arr [q, .arr [q]])
    | _ => .ok q
  | _, _ => .error { kind := "InternalError" }

/-- `InputPlugin::process` of each plugin, as the code: value left in the query, or the error -/
def processO : Plugin → Json → Outcome (Except PErr Json)
  | .gridSearch, q =>
    match GridSearch.processO q with
    | .ok (.ok v) => .ok (.ok v)
    | .ok (.error e) => .ok (.error { kind := e.variant })
    | .panic s => .panic s
    | .diverges => .diverges
  | .inject key value overwrite, q =>
    match injectGuard key overwrite q with
    | some e => .ok (.error e)
    | none =>
      -- `input[self.key.clone()] = self.value.clone()`
      match q.indexAssign key value with
      | some q' => .ok (.ok q')
      | none => .panic "serde_json/index-assign"
  | .lbNumeric col fmt, q =>
    match customWeight (.lbNumeric col fmt) q with
    | .ok b => .ok (addWeight fmt q b)
    | .error e => .ok (.error e)
  | .lbCategorical col m d fmt, q =>
    match customWeight (.lbCategorical col m d fmt) q with
    | .ok b => .ok (addWeight fmt q b)
    | .error e => .ok (.error e)
  | .table t, q =>
    match lookupStr t q.toCompact with
    | some (.ok q') => .ok (.ok q')
    | some (.err k l) => .ok (.error { kind := k, left := some l })
    | none => .ok (.error { kind := "table-miss" })
  | .userSplit key, q => .ok (userT (.userSplit key) q)
  | .userFailOn m, q => .ok (userT (.userFailOn m) q)
  | .userBreaker key, q => .ok (userT (.userBreaker key) q)

/-- the total function `process` computes -/
def processT : Plugin → Json → Except PErr Json
  | .gridSearch, q =>
    match GridSearch.process q with
    | .ok v => .ok v
    | .error e => .error { kind := e.variant }
  | .inject key value overwrite, q =>
    match injectGuard key overwrite q with
    | some e => .error e
    | none =>
      match q with
      | .obj kvs => .ok (.obj (Json.insertKv kvs key value))
      | _ => .error { kind := "UnexpectedQueryStructure" }
  | .lbNumeric col fmt, q =>
    match customWeight (.lbNumeric col fmt) q with
    | .ok b => addWeight fmt q b
    | .error e => .error e
  | .lbCategorical col m d fmt, q =>
    match customWeight (.lbCategorical col m d fmt) q with
    | .ok b => addWeight fmt q b
    | .error e => .error e
  | .table t, q =>
    match lookupStr t q.toCompact with
    | some (.ok q') => .ok q'
    | some (.err k l) => .error { kind := k, left := some l }
    | none => .error { kind := "table-miss" }
  | .userSplit key, q => userT (.userSplit key) q
  | .userFailOn m, q => userT (.userFailOn m) q
  | .userBreaker key, q => userT (.userBreaker key) q

/-! ### `json_array_op` / `apply_input_plugins` over partial plugins -/

/-- the `for q in queries.iter_mut() { op(q).map_err(|e| package_error(q, e))? }` loop: stops at the
**first** failing element -/
def mapOpO {ε : Type} (op : Json → Outcome (Except ε Json)) :
    List Json → Outcome (Except (PipeErr ε) (List Json))
  | [] => .ok (.ok [])
  | q :: r =>
    match op q with
    | .panic s => .panic s
    | .diverges => .diverges
    | .ok (.error e) => .ok (.error (.plugin q e))
    | .ok (.ok q') =>
      match mapOpO op r with
      | .ok (.ok r') => .ok (.ok (q' :: r'))
      | .ok (.error e) => .ok (.error e)
      | .panic s => .panic s
      | .diverges => .diverges

/-- `json_array_op` -/
def jsonArrayOpO {ε : Type} (op : Json → Outcome (Except ε Json)) (state : Json) :
    Outcome (Except (PipeErr ε) Json) :=
  match state with
  | .arr queries =>
    match mapOpO op queries with
    | .ok (.ok qs) => .ok (flattenInPlace (.arr qs))
    | .ok (.error e) => .ok (.error e)
    | .panic s => .panic s
    | .diverges => .diverges
  | _ => .ok (.error (.invariant noRequest))

def applyOpsO {ε : Type} : List (Json → Outcome (Except ε Json)) → Json → Outcome (Except (PipeErr ε) Json)
  | [], state => .ok (.ok state)
  | op :: ops, state =>
    match jsonArrayOpO op state with
    | .ok (.ok s) => applyOpsO ops s
    | .ok (.error e) => .ok (.error e)
    | .panic s => .panic s
    | .diverges => .diverges

/-- `apply_input_plugins(query, plugins)`: non-object queries are rejected before any plugin runs -/
def applyInputPluginsO {ε : Type} (plugins : List (Json → Outcome (Except ε Json))) (query : Json) :
    Outcome (Except (PipeErr ε) (List Json)) :=
  if query.isObject then
    match applyOpsO plugins (.arr [query]) with
    | .ok (.ok s) =>
      match jsonArrayFlatten s with
      | .ok qs => .ok (.ok qs)
      | .error e => .ok (.error (GridSearch.withRequest query e))
    | .ok (.error e) => .ok (.error (GridSearch.withRequest query e))
    | .panic s => .panic s
    | .diverges => .diverges
  else .ok (.error (.notObject query))

/-- the error kind shown for `package_invariant_error` -/
def invariantKind : String := "Invariant"

/-- `package_error(q, e)` / `package_invariant_error`: `{"request": …, "error": …}` (the error text is
reduced to its kind) -/
def errorResponse : PipeErr PErr → Json
  | .plugin q e => .obj [("request", e.left.getD q), ("error", .str e.kind)]
  | .invariant r => .obj [("request", r), ("error", .str invariantKind)]
  | .notObject r => .obj [("request", r), ("error", .str "UnexpectedQueryStructure")]

/-- `with_request` on the packaged response: the test `error["request"] == placeholder` sees what a plugin left
in the query when it failed (`PErr.left`), which the generic `GridSearch.withRequest` cannot -/
def fixRequest (query : Json) (resp : Json) : Json :=
  match resp with
  | .obj [("request", r), ("error", k)] =>
    if GridSearch.isNoRequest r then .obj [("request", query), ("error", k)] else resp
  | _ => resp

/-- input processing of one query: the expanded queries, or its error response -/
def prepO (plugins : List Plugin) (q : Json) : Outcome (Except Json (List Json)) :=
  match applyInputPluginsO (plugins.map processO) q with
  | .ok (.ok qs) => .ok (.ok qs)
  | .ok (.error e) => .ok (.error (fixRequest q (errorResponse e)))
  | .panic s => .panic s
  | .diverges => .diverges

def prepT (plugins : List Plugin) (q : Json) : Except Json (List Json) :=
  match GridSearch.applyInputPlugins (plugins.map processT) q with
  | .ok qs => .ok qs
  | .error e => .error (fixRequest q (errorResponse e))

/-! ### Chunking -/

/-- `((len as f64 / self.parallelism as f64).ceil() as usize).max(1)`: a zero `parallelism` divides by
zero (`inf`, or `NaN` for an empty batch), and the cast saturates (`usize::MAX`, resp. `0`) -/
def chunkSize (len selfPar : Nat) : Nat :=
  let raw :=
    if selfPar = 0 then (if len = 0 then 0 else 2 ^ 64 - 1)
    else (len + selfPar - 1) / selfPar
  max raw 1

def chunksAux {α : Type} (n : Nat) : Nat → List α → List (List α)
  | 0, _ => []
  | _ + 1, [] => []
  | fuel + 1, x :: r => (x :: r).take n :: chunksAux n fuel ((x :: r).drop n)

/-- `slice.chunks(n)` for `n ≥ 1` -/
def chunks {α : Type} (n : Nat) (l : List α) : List (List α) := chunksAux n l.length l

/-- `par_chunks(n)`: `assert!(chunk_size != 0, "chunk_size must not be zero")` -/
def parChunksO {α : Type} (n : Nat) (l : List α) : Outcome (List (List α)) :=
  if n = 0 then .panic "rayon/par_chunks-zero" else .ok (chunks n l)

/-- one chunk: `queries.iter().map(apply_input_plugins).partition_map(..)` -/
def processChunkO (plugins : List Plugin) : List Json → Outcome (List (List Json) × List Json)
  | [] => .ok ([], [])
  | q :: r =>
    match prepO plugins q with
    | .panic s => .panic s
    | .diverges => .diverges
    | .ok res =>
      match processChunkO plugins r with
      | .panic s => .panic s
      | .diverges => .diverges
      | .ok (oks, errs) =>
        match res with
        | .ok qs => .ok (qs :: oks, errs)
        | .error e => .ok (oks, e :: errs)

def processChunkT (plugins : List Plugin) : List Json → List (List Json) × List Json
  | [] => ([], [])
  | q :: r =>
    let (oks, errs) := processChunkT plugins r
    match prepT plugins q with
    | .ok qs => (qs :: oks, errs)
    | .error e => (oks, e :: errs)

/-- `.par_chunks(..).map(..)`, chunk after chunk (rayon keeps the order; a panic in any chunk propagates) -/
def mapChunksO (plugins : List Plugin) :
    List (List Json) → Outcome (List (List (List Json) × List Json))
  | [] => .ok []
  | c :: cs =>
    match processChunkO plugins c with
    | .panic s => .panic s
    | .diverges => .diverges
    | .ok r =>
      match mapChunksO plugins cs with
      | .panic s => .panic s
      | .diverges => .diverges
      | .ok rs => .ok (r :: rs)

/-! ### Load balancing -/

/-- the arithmetic of the bin totals (`f64` in the code): instantiated at `Float` in the driver; the theorems
hold for every instance -/
structure WOps (α : Type) where
  zero : α
  add : α → α → α
  /-- `OrderedFloat(a) < OrderedFloat(b)` -/
  lt : α → α → Bool
  /-- the `f64` with this bit pattern (`Value::as_f64`) -/
  ofBits : Nat → α
  /-- the default weight, `1.0` at the call site -/
  default : α

/-- `q.get_query_weight_estimate().unwrap_or(None).unwrap_or(default)` -/
def weightOf {α : Type} (W : WOps α) (q : Json) : α :=
  match q.get? weightKey with
  | some (.num _ b) => W.ofBits b
  | _ => W.default

/-- `iter().enumerate().min_by_key(..)`: the **first** minimal element wins (`min_by` keeps the earlier of
two equal elements) -/
def minBinAux {α : Type} (W : WOps α) : Nat → Nat → α → List α → Nat
  | _, best, _, [] => best
  | i, best, bv, x :: r => if W.lt x bv then minBinAux W (i + 1) i x r else minBinAux W (i + 1) best bv r

/-- `min_bin`: `none` = `Err("cannot find min bin of empty slice")` -/
def minBin {α : Type} (W : WOps α) : List α → Option Nat
  | [] => none
  | x :: r => some (minBinAux W 1 0 x r)

/-- `bin_totals[i] += w`; `none`: index out of bounds -/
def addAt {α : Type} (W : WOps α) : Nat → α → List α → Option (List α)
  | _, _, [] => none
  | 0, w, t :: ts => some (W.add t w :: ts)
  | i + 1, w, t :: ts =>
    match addAt W i w ts with
    | some ts' => some (t :: ts')
    | none => none

/-- `assignments[i].push(q)`; `none`: index out of bounds -/
def pushAt {β : Type} : Nat → β → List (List β) → Option (List (List β))
  | _, _, [] => none
  | 0, q, b :: bs => some ((b ++ [q]) :: bs)
  | i + 1, q, b :: bs =>
    match pushAt i q bs with
    | some bs' => some (b :: bs')
    | none => none

/-- errors that end the whole `run` call (`CompassAppError`) -/
inductive AppErr where
  /-- `min_bin` on `vec![0.0; 0]`: parallelism 0 -/
  | minBinEmpty
  deriving DecidableEq, Repr

/-- the `for q in queries.iter()` loop of `apply_load_balancing_policy` -/
def balanceLoopO {α : Type} (W : WOps α) :
    List Json → List α → List (List Json) → Outcome (Except AppErr (List (List Json)))
  | [], _, bins => .ok (.ok bins)
  | q :: r, totals, bins =>
    match minBin W totals with
    | none => .ok (.error .minBinEmpty)
    | some i =>
      match addAt W i (weightOf W q) totals, pushAt i q bins with
      | some totals', some bins' => balanceLoopO W r totals' bins'
      | _, _ => .panic "load_balancing/bin-index"

/-- `apply_load_balancing_policy(queries, parallelism, 1.0)` -/
def balanceO {α : Type} (W : WOps α) (parallelism : Nat) (queries : List Json) :
    Outcome (Except AppErr (List (List Json))) :=
  if queries.isEmpty then .ok (.ok [])
  else
    -- never more bins than queries (`parallelism.min(queries.len())`): `vec![0.0; parallelism]` made a huge
    -- parallelism abort the process with an allocation failure
    let n := min parallelism queries.length
    balanceLoopO W queries (List.replicate n W.zero) (List.replicate n [])

/-! ### `CompassApp::run` -/

structure Config where
  plugins : List Plugin
  /-- `self.parallelism` (configuration file) -/
  selfPar : Nat
  /-- the per-run override -/
  runPar : Option Nat
  /-- `PersistResponseInMemory` (after the per-run override) -/
  persist : Bool

/-- the parallelism used for load balancing (the chunking of the input stage uses `selfPar`) -/
def Config.parallelism (cfg : Config) : Nat := cfg.runPar.getD cfg.selfPar

/-- everything after input processing, given the bins: `run_batch_with_responses` /
`run_batch_without_responses` and `chain(error_inputs)` -/
def assemble (persist : Bool) (respond : Json → Json) (bins : List (List Json)) (errors : List Json) :
    List Json :=
  if bins.isEmpty then errors
  else if persist then (bins.map (fun b => b.map respond)).flatten ++ errors
  else errors

/-- `CompassApp::run(queries, config)` -/
def runO {α : Type} (W : WOps α) (cfg : Config) (respond : Json → Json) (batch : List Json) :
    Outcome (Except AppErr (List Json)) :=
  match parChunksO (chunkSize batch.length cfg.selfPar) batch with
  | .panic s => .panic s
  | .diverges => .diverges
  | .ok cs =>
    match mapChunksO cfg.plugins cs with
    | .panic s => .panic s
    | .diverges => .diverges
    | .ok results =>
      let processed := ((results.map (·.1)).flatten).flatten
      let errors := (results.map (·.2)).flatten
      match balanceO W cfg.parallelism processed with
      | .panic s => .panic s
      | .diverges => .diverges
      | .ok (.error e) => .ok (.error e)
      | .ok (.ok bins) => .ok (.ok (assemble cfg.persist respond bins errors))

/-! ### What each query returns on its own -/

/-- the responses one query gives rise to: the answers to its expanded queries, or its error response -/
def answer (plugins : List Plugin) (respond : Json → Json) (q : Json) : List Json :=
  match prepT plugins q with
  | .ok qs => qs.map respond
  | .error e => [e]

/-- only the error response (what survives `DiscardResponseFromMemory`) -/
def answerErr (plugins : List Plugin) (q : Json) : List Json :=
  match prepT plugins q with
  | .ok _ => []
  | .error e => [e]

/-! ### What the property asks of input processing: item by item -/

/-- an array result stands for its elements (`json_array_flatten_in_place`, one level) -/
def expand1 : Json → List Json
  | .arr xs => xs
  | v => [v]

/-- every plugin applied **item by item**: an item on which a plugin fails becomes its own error response and
its siblings go on; an array result is replaced by its elements; a final item that is not an object becomes
its own error response.  `.ok e`: an expanded query to run, `.error r`: an error response. -/
def itemwise : List (Json → Except PErr Json) → List Json → List (Except Json Json)
  | [], items =>
    items.map (fun q => if q.isObject then .ok q else .error (errorResponse (.invariant q)))
  | op :: ops, items =>
    items.flatMap (fun q =>
      match op q with
      | .error e => [.error (errorResponse (.plugin q e))]
      | .ok q' => itemwise ops (expand1 q'))

/-- "exactly one response for every query after expansion" -/
def itemwiseAnswer (plugins : List Plugin) (respond : Json → Json) (q : Json) : List Json :=
  if q.isObject then
    (itemwise (plugins.map processT) [q]).map (fun r => match r with | .ok e => respond e | .error r => r)
  else [errorResponse (.notObject q)]

/-! ### Worker threads as interleavings of atomic steps -/

/-- one worker of `par_iter()` over the bins: responses produced so far, queries still to run -/
structure Worker where
  done : List Json
  todo : List Json
  deriving Repr

abbrev WorkerId := Nat
/-- a schedule: which worker takes its next atomic step ("run the next query of my bin") -/
abbrev Sched := List WorkerId

def Worker.step (respond : Json → Json) (w : Worker) : Worker :=
  match w.todo with
  | [] => w
  | q :: r => { done := w.done ++ [respond q], todo := r }

/-- worker `i` takes a step (a worker without work, or an unknown id, does nothing) -/
def stepAt (respond : Json → Json) : WorkerId → List Worker → List Worker
  | _, [] => []
  | 0, w :: ws => w.step respond :: ws
  | i + 1, w :: ws => w :: stepAt respond i ws

def exec (respond : Json → Json) (sched : Sched) (ws : List Worker) : List Worker :=
  sched.foldl (fun ws i => stepAt respond i ws) ws

def initWorkers (bins : List (List Json)) : List Worker := bins.map (fun b => { done := [], todo := b })

/-- all bins drained -/
def finished (ws : List Worker) : Bool := ws.all (fun w => w.todo.isEmpty)

/-- `collect::<Vec<Vec<_>>>().into_iter().flatten()` -/
def collected (ws : List Worker) : List Json := (ws.map (·.done)).flatten

/-- the round-robin-free default: worker 0 to the end, then worker 1, … -/
def sequentialSched (bins : List (List Json)) : Sched :=
  ((List.range bins.length).map (fun i => List.replicate (bins.getD i []).length i)).flatten

/-! ### Shared mutable state: the prediction cache (`FloatCachePolicy`) -/

/-- a single-query function that reads and updates a shared state -/
abbrev RespondS (σ : Type) := σ → Json → Json × σ

def stepAtS {σ : Type} (respond : RespondS σ) : WorkerId → σ × List Worker → σ × List Worker
  | _, (s, []) => (s, [])
  | 0, (s, w :: ws) =>
    match w.todo with
    | [] => (s, w :: ws)
    | q :: r => ((respond s q).2, { done := w.done ++ [(respond s q).1], todo := r } :: ws)
  | i + 1, (s, w :: ws) => ((stepAtS respond i (s, ws)).1, w :: (stepAtS respond i (s, ws)).2)

def execS {σ : Type} (respond : RespondS σ) (sched : Sched) (init : σ × List Worker) : σ × List Worker :=
  sched.foldl (fun st i => stepAtS respond i st) init

/-- `PredictionModelRecord::predict` with a cache: look the *rounded* key up, else compute and store -/
def cachedPredict (round : Nat → Nat) (f : Nat → Nat) (cache : List (Nat × Nat)) (x : Nat) :
    Nat × List (Nat × Nat) :=
  match cache.find? (fun p => p.1 == round x) with
  | some p => (p.2, cache)
  | none => (f x, (round x, f x) :: cache)

/-- a single-query function whose answer is one cached prediction (queries are numbers) -/
def cacheRespond (round f : Nat → Nat) : RespondS (List (Nat × Nat)) := fun cache q =>
  match q with
  | .num _ x => (.num (toString (cachedPredict round f cache x).1) (cachedPredict round f cache x).1,
                 (cachedPredict round f cache x).2)
  | _ => (.null, cache)

/-- `assemble` with the bins run by worker threads under a schedule -/
def assembleSched (persist : Bool) (respond : Json → Json) (sched : Sched) (bins : List (List Json))
    (errors : List Json) : List Json :=
  if bins.isEmpty then errors
  else if persist then collected (exec respond sched (initWorkers bins)) ++ errors
  else errors

end Batch
end Compass
