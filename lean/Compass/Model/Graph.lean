/-
Model of the road-network container and its loader.

Rust: `routee-compass-core/src/model/network/{graph.rs, graph_loader.rs, edge_loader.rs,
vertex_loader.rs, edge.rs, vertex.rs}` and `util/fs/{read_utils.rs, fs_utils.rs}`.

* `Graph` is the four boxed slices `adj`, `rev`, `edges`, `vertices`.  Edge and vertex ids are
  *positions* in `edges` / `vertices` (`self.edges.get(edge_id.0)`), whatever the `edge_id` /
  `vertex_id` field of the record at that position says.
* an adjacency entry is a `CompactOrderedHashMap<EdgeId, VertexId>`; it is modelled abstractly as an
  insertion-ordered association list (`AdjMap`): inserting a new key appends, inserting an existing
  key overwrites the value in place.  (The container's five representations are modelled and proved
  to refine exactly this by C11.)  `keys()` yields the keys in insertion order in every representation
  (the hash-map representation sorts by the stored index).
* the loader: `EdgeLoader::try_from` sizes `adj`/`rev` with the *declared or scanned* vertex count,
  then for every decoded row inserts `edge_id ↦ dst` into `adj[src]` and `edge_id ↦ src` into
  `rev[dst]`; an endpoint outside the table goes into a `missing_vertices` set, and a non-empty set
  after the whole edge file was read is a `DatasetError`.  `edges` is the rows in file order;
  `vertices` is the vertex rows in file order; the declared/scanned *edge* count only sizes a progress
  bar.  After both files are read, `graph_from_files` rejects (`DatasetError`) an edge list, then a
  vertex list, whose ids are not their row numbers, and finally an edge with an endpoint at or beyond
  the number of vertex rows (the tables may have been sized by a larger declared/scanned count).
* file decoding (csv, gzip, line counting) is NOT modelled: a file is abstracted as `CsvFile`
  (can it be opened, how many text lines does `line_count` see, which records does the csv reader yield
  and which of them fail to decode).

No imports: this file links into the driver executable.  Distances and coordinates are generic `α`.
-/
namespace Compass

structure Edge (α : Type) where
  edgeId : Nat
  src : Nat
  dst : Nat
  distance : α
  deriving Repr, DecidableEq, Inhabited

structure Vertex (α : Type) where
  vertexId : Nat
  x : α
  y : α
  deriving Repr, DecidableEq, Inhabited

inductive Direction where
  | forward
  | reverse
  deriving Repr, DecidableEq, Inhabited

/-- `NetworkError::EdgeNotFound` / `VertexNotFound` of the accessors -/
inductive NetErr where
  | edgeNotFound (e : Nat)
  | vertexNotFound (v : Nat)
  deriving Repr, DecidableEq, Inhabited

/-- error kinds of `Graph::from_files`: `NetworkError::IOError` (line counting cannot open the file),
`DatasetError` (line counting sees an empty file), `CsvError` (the csv reader cannot open the file or a
record does not decode) -/
inductive LoadErr where
  | io
  | dataset
  | csv
  deriving Repr, DecidableEq, Inhabited

/-! ### the adjacency entry: insertion-ordered association list `EdgeId ↦ VertexId` -/

abbrev AdjMap := List (Nat × Nat)

/-- `CompactOrderedHashMap::insert`: overwrite in place, or append -/
def adjInsert (k v : Nat) : AdjMap → AdjMap
  | [] => [(k, v)]
  | (k', v') :: r => if k' = k then (k, v) :: r else (k', v') :: adjInsert k v r

/-- `CompactOrderedHashMap::keys` -/
def adjKeys (m : AdjMap) : List Nat := m.map Prod.fst

/-- `CompactOrderedHashMap::get` -/
def adjGet (k : Nat) : AdjMap → Option Nat
  | [] => none
  | (k', v') :: r => if k' = k then some v' else adjGet k r

/-- apply `f` to position `i` of a list; positions outside the list leave it unchanged -/
def modifyAt {β : Type} (f : β → β) : Nat → List β → List β
  | _, [] => []
  | 0, x :: xs => f x :: xs
  | n + 1, x :: xs => x :: modifyAt f n xs

/-! ### the graph and its accessors -/

structure Graph (α : Type) where
  adj : List AdjMap
  rev : List AdjMap
  edges : List (Edge α)
  vertices : List (Vertex α)
  deriving Repr

namespace Graph
variable {α : Type}

def nEdges (g : Graph α) : Nat := g.edges.length
def nVertices (g : Graph α) : Nat := g.vertices.length
def edgeIds (g : Graph α) : List Nat := List.range g.nEdges
def vertexIds (g : Graph α) : List Nat := List.range g.nVertices

def getEdge (g : Graph α) (e : Nat) : Except NetErr (Edge α) :=
  match g.edges[e]? with
  | none => .error (.edgeNotFound e)
  | some x => .ok x

def getVertex (g : Graph α) (v : Nat) : Except NetErr (Vertex α) :=
  match g.vertices[v]? with
  | none => .error (.vertexNotFound v)
  | some x => .ok x

/-- `out_edges` / `out_edges_iter`: a vertex outside the table has no edges (not an error) -/
def outEdges (g : Graph α) (v : Nat) : List Nat :=
  match g.adj[v]? with
  | none => []
  | some m => adjKeys m

def inEdges (g : Graph α) (v : Nat) : List Nat :=
  match g.rev[v]? with
  | none => []
  | some m => adjKeys m

def srcVertexId (g : Graph α) (e : Nat) : Except NetErr Nat :=
  match g.getEdge e with
  | .error x => .error x
  | .ok x => .ok x.src

def dstVertexId (g : Graph α) (e : Nat) : Except NetErr Nat :=
  match g.getEdge e with
  | .error x => .error x
  | .ok x => .ok x.dst

def incidentEdges (g : Graph α) (v : Nat) : Direction → List Nat
  | .forward => g.outEdges v
  | .reverse => g.inEdges v

def incidentVertex (g : Graph α) (e : Nat) : Direction → Except NetErr Nat
  | .forward => g.dstVertexId e
  | .reverse => g.srcVertexId e

def edgeTriplet (g : Graph α) (e : Nat) : Except NetErr (Vertex α × Edge α × Vertex α) :=
  match g.getEdge e with
  | .error x => .error x
  | .ok ed =>
    match g.getVertex ed.src with
    | .error x => .error x
    | .ok s =>
      match g.getVertex ed.dst with
      | .error x => .error x
      | .ok d => .ok (s, ed, d)

/-- the `collect::<Result<Vec<_>,_>>()` of `incident_triplet_ids`: first error wins -/
def tripletIdsGo (g : Graph α) (v : Nat) (d : Direction) : List Nat → Except NetErr (List (Nat × Nat × Nat))
  | [] => .ok []
  | e :: r =>
    match g.incidentVertex e d with
    | .error x => .error x
    | .ok t =>
      match tripletIdsGo g v d r with
      | .error x => .error x
      | .ok l => .ok ((v, e, t) :: l)

def incidentTripletIds (g : Graph α) (v : Nat) (d : Direction) : Except NetErr (List (Nat × Nat × Nat)) :=
  tripletIdsGo g v d (g.incidentEdges v d)

/-- the `map(..).collect::<Result<Vec<_>,_>>()` of `incident_triplet_attributes`: per triplet the first
vertex, the edge, the third vertex, in that order; first error wins -/
def tripletAttrsGo (g : Graph α) : List (Nat × Nat × Nat) → Except NetErr (List (Vertex α × Edge α × Vertex α))
  | [] => .ok []
  | (a, e, b) :: r =>
    match g.getVertex a with
    | .error x => .error x
    | .ok va =>
      match g.getEdge e with
      | .error x => .error x
      | .ok ed =>
        match g.getVertex b with
        | .error x => .error x
        | .ok vb =>
          match tripletAttrsGo g r with
          | .error x => .error x
          | .ok l => .ok ((va, ed, vb) :: l)

def incidentTripletAttributes (g : Graph α) (v : Nat) (d : Direction) :
    Except NetErr (List (Vertex α × Edge α × Vertex α)) :=
  match g.incidentTripletIds v d with
  | .error x => .error x
  | .ok l => tripletAttrsGo g l

end Graph

/-! ### `EdgeLoader::try_from`: the row callback, folded over the decoded rows -/

structure EdgeLoad where
  adj : List AdjMap
  rev : List AdjMap
  /-- the `missing_vertices` set (insertion order, duplicates kept: it is never read) -/
  missing : List Nat
  deriving Repr

def EdgeLoad.init (nVertices : Nat) : EdgeLoad :=
  { adj := List.replicate nVertices [], rev := List.replicate nVertices [], missing := [] }

section
variable {α : Type}

/-- one call of the row callback -/
def EdgeLoad.step (st : EdgeLoad) (e : Edge α) : EdgeLoad :=
  let st1 : EdgeLoad :=
    if e.src < st.adj.length then { st with adj := modifyAt (adjInsert e.edgeId e.dst) e.src st.adj }
    else { st with missing := st.missing ++ [e.src] }
  if e.dst < st1.rev.length then { st1 with rev := modifyAt (adjInsert e.edgeId e.src) e.dst st1.rev }
  else { st1 with missing := st1.missing ++ [e.dst] }

def loadEdges (es : List (Edge α)) (nVertices : Nat) : EdgeLoad :=
  es.foldl EdgeLoad.step (EdgeLoad.init nVertices)

/-- the graph `graph_from_files` assembles from decoded rows: `nVertices` is the declared (or scanned)
vertex count that sizes the adjacency tables; `vs` is whatever the vertex file holds.  Total; the
validation that precedes it in the loader is in `graphFromFiles`. -/
def buildGraph (es : List (Edge α)) (vs : List (Vertex α)) (nVertices : Nat) : Graph α :=
  let l := loadEdges es nVertices
  { adj := l.adj, rev := l.rev, edges := es, vertices := vs }

/-- the vertices the loader noticed were missing (a non-empty set fails the load) -/
def missingVertices (es : List (Edge α)) (nVertices : Nat) : List Nat :=
  (loadEdges es nVertices).missing

end

/-! ### the file layer (decoding abstracted) -/

inductive Row (ρ : Type) where
  | ok (r : ρ)
  | bad
  deriving Repr, Inhabited

structure CsvFile (ρ : Type) where
  /-- the file can be opened and read to its end (a missing file cannot; neither can a gzip stream that
  was cut short: `line_count` ends with the read error, the csv reader with an io error) -/
  present : Bool
  /-- what `fs_utils::line_count` reports: text lines including the header -/
  lines : Nat
  /-- the reader accepts the header row: there is one (false for a file without any content) and, for
  the edge and vertex loaders (`read_utils::require_csv_columns`), it names every column the records
  are decoded by (false for `edge_id;src_vertex_id;…`, for other column names, and for a file without
  a header row, whose first record is taken for one).  Data: the harness computes it from the text. -/
  hasHeader : Bool
  /-- the records after the header as the csv reader yields them; `bad` = does not decode -/
  rows : List (Row ρ)
  deriving Repr, Inhabited

section
variable {ρ : Type}

/-- `iter.collect::<Result<Vec<T>, csv::Error>>()` -/
def decodeRows : List (Row ρ) → Except LoadErr (List ρ)
  | [] => .ok []
  | .bad :: _ => .error .csv
  | .ok r :: rest =>
    match decodeRows rest with
    | .error x => .error x
    | .ok l => .ok (r :: l)

/-- `get_n_edges` / `get_n_vertices` -/
def scanCount (f : CsvFile ρ) : Except LoadErr Nat :=
  if f.present = false then .error .io
  else if f.lines < 1 then .error .dataset
  else .ok (f.lines - 1)

/-- `read_utils::from_csv` with a header row expected (preceded, in the graph loaders, by
`require_csv_columns`): the file cannot be opened, the header row cannot be read, is absent or does
not name the required columns, or a record does not decode — all `csv::Error` -/
def readCsv (f : CsvFile ρ) : Except LoadErr (List ρ) :=
  if f.present = false then .error .csv
  else if f.hasHeader = false then .error .csv
  else decodeRows f.rows

def countOrScan (declared : Option Nat) (f : CsvFile ρ) : Except LoadErr Nat :=
  match declared with
  | some n => .ok n
  | none => scanCount f

end

/-- `ids.iter().enumerate().find(|(row, id)| id != row).is_none()`, counting rows from `k` -/
def idsAreRowsFrom : Nat → List Nat → Bool
  | _, [] => true
  | k, x :: r => x == k && idsAreRowsFrom (k + 1) r

def idsAreRows (ids : List Nat) : Bool := idsAreRowsFrom 0 ids

/-- `edges.iter().find(|e| e.src >= n || e.dst >= n).is_none()` -/
def endpointsWithin {α : Type} (es : List (Edge α)) (n : Nat) : Bool :=
  es.all (fun e => decide (e.src < n) && decide (e.dst < n))

/-- `Graph::from_files` / `graph_loader::graph_from_files`, in the code's order of evaluation -/
def graphFromFiles {α : Type} (ef : CsvFile (Edge α)) (vf : CsvFile (Vertex α))
    (nEdges nVertices : Option Nat) : Except LoadErr (Graph α) :=
  match countOrScan nEdges ef with
  | .error x => .error x
  | .ok _nE =>      -- only sizes the progress bar
    match countOrScan nVertices vf with
    | .error x => .error x
    | .ok nV =>
      match readCsv ef with
      | .error x => .error x
      | .ok es =>
        -- `EdgeLoader::try_from`: `if !missing_vertices.is_empty() { return Err(DatasetError) }`
        if (missingVertices es nV).isEmpty = false then .error .dataset
        else
          match readCsv vf with
          | .error x => .error x
          | .ok vs =>
            if idsAreRows (es.map Edge.edgeId) = false then .error .dataset
            else if idsAreRows (vs.map Vertex.vertexId) = false then .error .dataset
            -- every edge must join two vertex ROWS (the tables may be larger than the vertex file)
            else if endpointsWithin es vs.length = false then .error .dataset
            else .ok (buildGraph es vs nV)

/-- `read_utils::read_raw_file` (and `from_csv` for a table with a header): a file that cannot be read
to its end, or a line that does not decode, fails the whole read; otherwise the rows in file order -/
def readTable {ρ : Type} (readable : Bool) (rows : List (Row ρ)) : Except LoadErr (List ρ) :=
  if readable = false then .error .io
  else
    match decodeRows rows with
    | .error _ => .error .io
    | .ok l => .ok l

/-- how often the row callback ran: once per row decoded, up to the first row that does not decode -/
def callbackCount {ρ : Type} : List (Row ρ) → Nat
  | [] => 0
  | .bad :: _ => 0
  | .ok _ :: r => callbackCount r + 1

/-- what the table readers leave of a line -/
def Row.payload? {ρ : Type} : Row ρ → Option ρ
  | .ok r => some r
  | .bad => none

/-- a per-edge table (speeds, grades, headings, road classes): row `i` of the file belongs to edge
`i` (`read_raw_file` enumerates lines from zero; `from_csv` keeps row order) -/
def tableRow {β : Type} (table : List β) (edgeId : Nat) : Option β := table[edgeId]?

/-! ### the consumers of a per-edge table

`speed_traversal_model::get_speed`, `turn_delay_access_model_engine::get_headings`,
`energy_model_ops::get_grade` / `get_headings` and `RoadClassFrontierModel::valid_frontier` all read
`table.get(edge_id.as_usize())` and turn a missing row into an error of the traversal / access /
frontier evaluation.  Nothing compares the length of a table with the number of edges when the
models are built. -/

inductive LookupErr where
  | missing (edgeId : Nat)
  deriving Repr, DecidableEq, Inhabited

/-- `get_speed` / `get_headings`: `table.get(edge_id).ok_or_else(..)` -/
def tableGet {β : Type} (table : List β) (edgeId : Nat) : Except LookupErr β :=
  match tableRow table edgeId with
  | none => .error (.missing edgeId)
  | some x => .ok x

/-- `get_grade`: without a grade table every grade is `Grade::ZERO` -/
def getGrade {β : Type} (table : Option (List β)) (zero : β) (edgeId : Nat) : Except LookupErr β :=
  match table with
  | none => .ok zero
  | some t => tableGet t edgeId

/-- `RoadClassFrontierModel::valid_frontier`: without a `road_classes` restriction in the query every
edge is valid and the table is not looked at -/
def roadClassValid (lookup : List Nat) (allowed : Option (List Nat)) (edgeId : Nat) : Except LookupErr Bool :=
  match allowed with
  | none => .ok true
  | some cs =>
    match tableGet lookup edgeId with
    | .error x => .error x
    | .ok c => .ok (cs.contains c)

/-! ### allocation of the adjacency tables

`EdgeLoader::try_from` starts by allocating one adjacency list per vertex for the declared / scanned
vertex count (`adjacency_table`: `try_reserve_exact`, then `resize`).  A count above
`isize::MAX / size_of::<CompactOrderedHashMap<..>>()` (`capLimit`, data) cannot be reserved and is a
`DatasetError`, before the edge file is opened (before /repo's repair `vec![..; n_vertices]` panicked
with "capacity overflow").  A count below that limit but beyond the memory the process can get is NOT
modelled (see the header of Props/C15.lean). -/

/-- `graph_from_files` with the allocation of the adjacency tables made explicit -/
def graphFromFilesAlloc {α : Type} (capLimit : Nat) (ef : CsvFile (Edge α)) (vf : CsvFile (Vertex α))
    (nEdges nVertices : Option Nat) : Except LoadErr (Graph α) :=
  match countOrScan nEdges ef with
  | .error x => .error x
  | .ok _ =>
    match countOrScan nVertices vf with
    | .error x => .error x
    | .ok nV => if capLimit < nV then .error .dataset else graphFromFiles ef vf nEdges nVertices

end Compass
